(* Combinatorial model of marching cubes (render/march3.go): which triangles a cell emits,
   in terms of GLOBAL vertex identities (a crossing vertex = a lattice edge), over the tables
   regenerated from the source (Generated/MarchTables.v).

   cfg      : the 0..255 index built by mcToTriangles (bit i set iff v[i] < x)
   ledge e  : lattice edge (relative to the cell origin) that carries local edge e
   cell_tris: the triangle table row with the code's reversed winding t[2],t[1],t[0]
   bal l e  : (#directed edges e in l) - (#reversed e in l)

   All facts about the tables are decided by vm_compute over the 256 configurations and
   lifted by soundness lemmas that are ordinary proofs. *)
From Coq Require Import List ZArith NArith Lia Bool Permutation.
From Sdfx Require Import Generated.MarchTables.
From Sdfx Require Import Render.Balance.
Import ListNotations.
Open Scope Z_scope.

(* ------------------------------------------------------------------ vertices, directed edges *)

(* a lattice edge: base point (x,y,z) and axis 0/1/2 *)
Definition gv := (Z * Z * Z * Z)%type.
Notation dedge := (gv * gv)%type.
Notation tri := (gv * gv * gv)%type.

Definition gv_eqb (a b : gv) : bool :=
  let '(ax, ay, az, aa) := a in let '(bx, by_, bz, ba) := b in
  (ax =? bx) && (ay =? by_) && (az =? bz) && (aa =? ba).

Lemma gv_eqb_eq a b : gv_eqb a b = true <-> a = b.
Proof.
  destruct a as [[[ax ay] az] aa], b as [[[bx by_] bz] ba]; unfold gv_eqb.
  rewrite !andb_true_iff, !Z.eqb_eq. split; [intros [[[-> ->] ->] ->]; reflexivity | intros [= -> -> -> ->]; auto].
Qed.

(* ------------------------------------------------------------------ directed-edge balance
   (Balance.v at the vertex type gv) *)
Definition bal : list dedge -> dedge -> Z := Balance.bal gv_eqb.
Definition bal_eq_check : list dedge -> list dedge -> bool := Balance.bal_eq_check gv_eqb.

Lemma bal_app l m e : bal (l ++ m) e = bal l e + bal m e.
Proof. apply Balance.bal_app. Qed.
Lemma bal_nil e : bal [] e = 0.
Proof. reflexivity. Qed.
Lemma bal_rev l e : bal l (revE e) = - bal l e.
Proof. apply Balance.bal_rev. Qed.
Lemma bal_flat_map {A} (f : A -> list dedge) (l : list A) e :
  bal (flat_map f l) e = fold_right Z.add 0 (map (fun x => bal (f x) e) l).
Proof. apply Balance.bal_flat_map. Qed.
Lemma bal_map_bij (f g : gv -> gv) (Hgf : forall v, g (f v) = v) (Hfg : forall v, f (g v) = v) e l :
  bal (map (mapE f) l) e = bal l (mapE g e).
Proof. now apply (Balance.bal_map_bij gv_eqb gv_eqb_eq). Qed.
Lemma bal_map_rev l e : bal (map (@revE gv) l) e = - bal l e.
Proof. apply Balance.bal_map_rev. Qed.
Lemma bal_eq_check_sound l m : bal_eq_check l m = true -> forall e, bal l e = bal m e.
Proof. apply (Balance.bal_eq_check_sound gv_eqb gv_eqb_eq). Qed.
Lemma bal_nonzero_in l e : bal l e <> 0 -> In e l \/ In (revE e) l.
Proof. apply (Balance.bal_nonzero_in gv_eqb gv_eqb_eq). Qed.

(* ------------------------------------------------------------------ the cell *)

(* corner numbering: the `corners` literal of marchingCubes / the offsets of processCube *)
Definition corner_off (c : N) : Z * Z * Z :=
  match c with
  | 0%N => (0, 0, 0) | 1%N => (1, 0, 0) | 2%N => (1, 1, 0) | 3%N => (0, 1, 0)
  | 4%N => (0, 0, 1) | 5%N => (1, 0, 1) | 6%N => (1, 1, 1) | _ => (0, 1, 1)
  end.
Definition corner_at (x y z : Z) : N :=
  match x, y, z with
  | 0, 0, 0 => 0%N | 1, 0, 0 => 1%N | 1, 1, 0 => 2%N | 0, 1, 0 => 3%N
  | 0, 0, 1 => 4%N | 1, 0, 1 => 5%N | 1, 1, 1 => 6%N | _, _, _ => 7%N
  end.

Definition pair_of (e : N) : N * N := nth (N.to_nat e) mcPairTable (0%N, 0%N).
Definition edge_mask (cfg : N) : N := nth (N.to_nat cfg) mcEdgeTable 0%N.
Definition tri_row (cfg : N) : list N := nth (N.to_nat cfg) mcTriangleTable [].

(* the lattice edge carrying local edge e (relative to the cell origin) *)
Definition ledge (e : N) : gv :=
  let '(a, b) := pair_of e in
  let '(ax, ay, az) := corner_off a in let '(bx, by_, bz) := corner_off b in
  (Z.min ax bx, Z.min ay by_, Z.min az bz, if ax =? bx then (if ay =? by_ then 2 else 1) else 0).

(* count := len(table)/3;  t[2],t[1],t[0] := points[table[3i]], points[table[3i+1]], points[table[3i+2]] *)
Fixpoint chunk3 (l : list N) : list (N * N * N) :=
  match l with
  | a :: b :: c :: r => (c, b, a) :: chunk3 r
  | _ => []
  end.
Definition local_tris (cfg : N) : list (N * N * N) := chunk3 (tri_row cfg).
Definition cell_tris (cfg : N) : list tri :=
  map (fun t : N * N * N => let '(a, b, c) := t in (ledge a, ledge b, ledge c)) (local_tris cfg).

(* index |= 1 << i  for each corner with v[i] < x *)
Definition b2n (b : bool) : N := if b then 1%N else 0%N.
Definition cfg_of_bools (b0 b1 b2 b3 b4 b5 b6 b7 : bool) : N :=
  (b2n b0 + 2 * b2n b1 + 4 * b2n b2 + 8 * b2n b3 + 16 * b2n b4 + 32 * b2n b5 + 64 * b2n b6 + 128 * b2n b7)%N.
Lemma cfg_of_bools_spec b0 b1 b2 b3 b4 b5 b6 b7 :
  let c := cfg_of_bools b0 b1 b2 b3 b4 b5 b6 b7 in
  (c < 256)%N /\ N.testbit c 0 = b0 /\ N.testbit c 1 = b1 /\ N.testbit c 2 = b2 /\ N.testbit c 3 = b3 /\
  N.testbit c 4 = b4 /\ N.testbit c 5 = b5 /\ N.testbit c 6 = b6 /\ N.testbit c 7 = b7.
Proof. destruct b0, b1, b2, b3, b4, b5, b6, b7; vm_compute; repeat split. Qed.

Definition cfgs : list N := map N.of_nat (seq 0 256).
Definition ledges12 : list N := map N.of_nat (seq 0 12).
Lemma in_cfgs c : (c < 256)%N -> In c cfgs.
Proof.
  intros H. unfold cfgs. apply in_map_iff. exists (N.to_nat c). split; [apply N2Nat.id|].
  apply in_seq. lia.
Qed.
Lemma forallb_cfgs (f : N -> bool) : forallb f cfgs = true -> forall c, (c < 256)%N -> f c = true.
Proof. intros H c Hc. rewrite forallb_forall in H. apply H. now apply in_cfgs. Qed.
Lemma in_ledges12 e : (e < 12)%N -> In e ledges12.
Proof.
  intros H. unfold ledges12. apply in_map_iff. exists (N.to_nat e). split; [apply N2Nat.id|].
  apply in_seq. lia.
Qed.

(* ---- mcPairTable: every pair is an edge of the unit cube and the twelve lattice edges differ *)
Definition pair_is_edge (e : N) : bool :=
  let '(a, b) := pair_of e in
  let '(ax, ay, az) := corner_off a in let '(bx, by_, bz) := corner_off b in
  (a <? 8)%N && (b <? 8)%N && (Z.abs (ax - bx) + Z.abs (ay - by_) + Z.abs (az - bz) =? 1).
Fixpoint distinct_gv (l : list gv) : bool :=
  match l with
  | [] => true
  | x :: r => negb (existsb (gv_eqb x) r) && distinct_gv r
  end.
Definition pairs_check : bool :=
  (length mcPairTable =? 12)%nat && forallb pair_is_edge ledges12 && distinct_gv (map ledge ledges12).

(* ---- mcEdgeTable: mask = set of sign-changing edges *)
Definition crossing (cfg e : N) : bool :=
  let '(a, b) := pair_of e in xorb (N.testbit cfg a) (N.testbit cfg b).
Definition edge_row_check (cfg : N) : bool :=
  forallb (fun e => Bool.eqb (N.testbit (edge_mask cfg) e) (crossing cfg e)) ledges12
  && (edge_mask cfg <? 4096)%N.
Definition edge_table_check : bool := (length mcEdgeTable =? 256)%nat && forallb edge_row_check cfgs.

(* ---- mcTriangleTable: rows are whole triangles over crossing edges, three different edges each *)
Definition tri_row_check (cfg : N) : bool :=
  (N.of_nat (length (tri_row cfg)) mod 3 =? 0)%N &&
  forallb (fun e => (e <? 12)%N && N.testbit (edge_mask cfg) e) (tri_row cfg) &&
  forallb (fun t : N * N * N => let '(a, b, c) := t in negb (a =? b)%N && negb (b =? c)%N && negb (a =? c)%N) (local_tris cfg).
Definition tri_table_check : bool := (length mcTriangleTable =? 256)%nat && forallb tri_row_check cfgs.

(* every crossing edge is used by some triangle; configurations other than 0 and 255 emit a triangle *)
Definition used_check (cfg : N) : bool :=
  forallb (fun e => implb (crossing cfg e) (existsb (N.eqb e) (tri_row cfg))) ledges12 &&
  implb (negb (cfg =? 0)%N && negb (cfg =? 255)%N) (negb (length (local_tris cfg) =? 0)%nat).
Definition used_table_check : bool := forallb used_check cfgs.

(* ------------------------------------------------------------------ faces *)

Definition coord (d : Z) (v : gv) : Z :=
  let '(x, y, z, _) := v in if d =? 0 then x else if d =? 1 then y else z.
Definition axis_of (v : gv) : Z := let '(_, _, _, a) := v in a.
Definition unit (d : Z) : Z * Z * Z :=
  if d =? 0 then (1, 0, 0) else if d =? 1 then (0, 1, 0) else (0, 0, 1).
Definition negp (p : Z * Z * Z) : Z * Z * Z := let '(px, py, pz) := p in (- px, - py, - pz).
Definition addp (p q : Z * Z * Z) : Z * Z * Z :=
  let '(px, py, pz) := p in let '(qx, qy, qz) := q in (px + qx, py + qy, pz + qz).
(* a vertex is (base point, axis): translation acts on the base point *)
Definition shiftv (p : Z * Z * Z) (v : gv) : gv := (addp p (fst v), snd v).
Definition shiftE (p : Z * Z * Z) : dedge -> dedge := mapE (shiftv p).
Definition shiftT (p : Z * Z * Z) (t : tri) : tri := let '(a, b, c) := t in (shiftv p a, shiftv p b, shiftv p c).

Lemma gv_ext (x y z a x' y' z' a' : Z) : x = x' -> y = y' -> z = z' -> a = a' -> (x, y, z, a) = (x', y', z', a').
Proof. congruence. Qed.
Lemma shiftv_neg p v : shiftv (negp p) (shiftv p v) = v.
Proof. destruct p as [[px py] pz], v as [[[x y] z] a]; unfold shiftv, negp, addp; cbn [fst snd]. apply gv_ext; lia. Qed.
Lemma shiftv_neg' p v : shiftv p (shiftv (negp p) v) = v.
Proof. destruct p as [[px py] pz], v as [[[x y] z] a]; unfold shiftv, negp, addp; cbn [fst snd]. apply gv_ext; lia. Qed.
Lemma shiftv_add p q v : shiftv p (shiftv q v) = shiftv (addp p q) v.
Proof. destruct p as [[px py] pz], q as [[qx qy] qz], v as [[[x y] z] a]; unfold shiftv, negp, addp; cbn [fst snd]. apply gv_ext; lia. Qed.
Lemma bal_shift p l e : bal (map (shiftE p) l) e = bal l (shiftE (negp p) e).
Proof. apply bal_map_bij; [apply shiftv_neg | apply shiftv_neg']. Qed.

(* a vertex of the cell lies in the face  coord d = s  iff its base has that coordinate and
   its axis is not d *)
Definition in_face (d s : Z) (v : gv) : bool := (coord d v =? s) && negb (axis_of v =? d).
Definition face_verts (d s : Z) : list gv := filter (in_face d s) (map ledge ledges12).

(* corner of the cell with coordinate s along d and (u,v) along the two other axes (in
   increasing axis order) *)
Definition face_corner (d s u v : Z) : N :=
  if d =? 0 then corner_at s u v else if d =? 1 then corner_at u s v else corner_at u v s.
(* four-bit signature of the face  coord d = s : bit (u + 2v) = sign bit of that corner *)
Definition facesig (d s : Z) (cfg : N) : N :=
  (b2n (N.testbit cfg (face_corner d s 0 0)) + 2 * b2n (N.testbit cfg (face_corner d s 1 0)) +
   4 * b2n (N.testbit cfg (face_corner d s 0 1)) + 8 * b2n (N.testbit cfg (face_corner d s 1 1)))%N.
(* the configuration that repeats signature sg on both faces normal to d *)
Definition ext_bit (d : Z) (sg : N) (c : N) : bool :=
  let '(x, y, z) := corner_off c in
  let '(u, v) := if d =? 0 then (y, z) else if d =? 1 then (x, z) else (x, y) in
  N.testbit sg (Z.to_N (u + 2 * v)).
Definition ext (d : Z) (sg : N) : N :=
  fold_right (fun c acc => (acc + (if ext_bit d sg c then N.shiftl 1 c else 0))%N) 0%N (map N.of_nat (seq 0 8)).

(* canonical pattern of a face signature: the unbalanced directed edges that configuration
   ext d sg leaves in its lower face d, with multiplicity *)
Definition ordered_pairs (l : list gv) : list dedge :=
  flat_map (fun a => flat_map (fun b => if gv_eqb a b then [] else [(a, b)]) l) l.
Definition restrict (vs : list gv) (l : list dedge) : list dedge :=
  flat_map (fun e => repeat e (Z.to_nat (bal l e))) (ordered_pairs vs).
Definition fpat (d : Z) (sg : N) : list dedge :=
  restrict (face_verts d 0) (edges_of (cell_tris (ext d sg))).

(* right-hand side of the cell identity: lower faces contribute their pattern, upper faces the
   reversed pattern moved one cell along d *)
Definition rhs (cfg : N) : list dedge :=
  flat_map (fun d => fpat d (facesig d 0 cfg) ++ map revE (map (shiftE (unit d)) (fpat d (facesig d 1 cfg))))
           [0; 1; 2].
Definition cell_check (cfg : N) : bool := bal_eq_check (edges_of (cell_tris cfg)) (rhs cfg).
Definition cell_table_check : bool := forallb cell_check cfgs.

Definition sigs : list N := map N.of_nat (seq 0 16).

(* ------------------------------------------------------------------ further decided checks *)

(* unbalanced directed edges of a cell patch lie in a common face of the cell *)
Definition faces6 : list (Z * Z) := [(0, 0); (0, 1); (1, 0); (1, 1); (2, 0); (2, 1)].
Definition common_face (e : dedge) : bool :=
  existsb (fun ds : Z * Z => in_face (fst ds) (snd ds) (fst e) && in_face (fst ds) (snd ds) (snd e)) faces6.
Definition boundary_check (cfg : N) : bool :=
  let es := edges_of (cell_tris cfg) in forallb (fun e => (bal es e =? 0) || common_face e) es.

(* what a configuration leaves in its lower / upper face normal to d is the canonical pattern of
   that face's signature, resp. its reverse *)
Definition face_check (cfg : N) : bool :=
  let es := edges_of (cell_tris cfg) in
  forallb (fun d =>
    let p0 := fpat d (facesig d 0 cfg) in
    let p1 := fpat d (facesig d 1 cfg) in
    forallb (fun e => (bal es e =? bal p0 e) && (bal es (shiftE (unit d) e) =? - bal p1 e))
            (ordered_pairs (face_verts d 0))) [0; 1; 2].

(* ---- orientation rule, in doubled integer coordinates (crossings placed at edge midpoints) *)
Definition sub3 (p q : Z * Z * Z) : Z * Z * Z := addp p (negp q).
Definition dot3 (p q : Z * Z * Z) : Z :=
  let '(px, py, pz) := p in let '(qx, qy, qz) := q in px * qx + py * qy + pz * qz.
Definition cross3 (p q : Z * Z * Z) : Z * Z * Z :=
  let '(px, py, pz) := p in let '(qx, qy, qz) := q in (py * qz - pz * qy, pz * qx - px * qz, px * qy - py * qx).
Definition mid2 (v : gv) : Z * Z * Z := let '(x, y, z, a) := v in addp (2 * x, 2 * y, 2 * z) (unit a).
Definition base_corner (v : gv) : N := let '(x, y, z, _) := v in corner_at x y z.
(* direction from the void end to the solid end of the (sign-changing) lattice edge v *)
Definition sdir (cfg : N) (v : gv) : Z * Z * Z :=
  if N.testbit cfg (base_corner v) then negp (unit (axis_of v)) else unit (axis_of v).
(* outward normal of the face  coord d = s  of the cell *)
Definition outward (d s : Z) : Z * Z * Z := if s =? 0 then negp (unit d) else unit d.
(* in-face normal of the directed segment e: (direction) x (outward normal) *)
Definition solid_side (d s : Z) (e : dedge) : Z * Z * Z :=
  cross3 (sub3 (mid2 (snd e)) (mid2 (fst e))) (outward d s).
Definition orient_rule (cfg : N) (d s : Z) (e : dedge) : bool :=
  (0 <? dot3 (solid_side d s e) (sdir cfg (fst e))) && (0 <? dot3 (solid_side d s e) (sdir cfg (snd e))).
Definition orient_check (cfg : N) : bool :=
  let es := edges_of (cell_tris cfg) in
  forallb (fun ds : Z * Z =>
    forallb (fun e => implb (0 <? bal es e) (orient_rule cfg (fst ds) (snd ds) e))
            (ordered_pairs (face_verts (fst ds) (snd ds)))) faces6.

(* ------------------------------------------------------------------ soundness of the checks *)

Lemma pairs_ok : pairs_check = true.
Proof. vm_compute. reflexivity. Qed.
Lemma edge_table_ok_c : edge_table_check = true.
Proof. vm_compute. reflexivity. Qed.
Lemma tri_table_ok_c : tri_table_check = true.
Proof. vm_compute. reflexivity. Qed.
Lemma used_table_ok_c : used_table_check = true.
Proof. vm_compute. reflexivity. Qed.
Lemma boundary_ok_c : forallb boundary_check cfgs = true.
Proof. vm_compute. reflexivity. Qed.
Lemma face_ok_c : forallb face_check cfgs = true.
Proof. vm_compute. reflexivity. Qed.
Lemma orient_ok_c : forallb orient_check cfgs = true.
Proof. vm_compute. reflexivity. Qed.

Lemma forallb_ledges (f : N -> bool) : forallb f ledges12 = true -> forall e, (e < 12)%N -> f e = true.
Proof. intros H e He. rewrite forallb_forall in H. apply H. now apply in_ledges12. Qed.

(* mcPairTable *)
Lemma pair_table_ok e : (e < 12)%N -> pair_is_edge e = true.
Proof.
  pose proof pairs_ok as H. unfold pairs_check in H. rewrite !andb_true_iff in H. destruct H as [[_ H] _].
  now apply forallb_ledges.
Qed.
Lemma distinct_gv_NoDup l : distinct_gv l = true -> NoDup l.
Proof.
  induction l as [|x l IH]; cbn [distinct_gv]; intros H; [constructor|].
  apply andb_true_iff in H as [H1 H2]. constructor; [|now apply IH].
  intros Hin. apply negb_true_iff in H1. assert (X : existsb (gv_eqb x) l = true); [|congruence].
  apply existsb_exists. exists x. split; [exact Hin | now apply gv_eqb_eq].
Qed.
Lemma ledges_distinct : NoDup (map ledge ledges12).
Proof.
  apply distinct_gv_NoDup. pose proof pairs_ok as H. unfold pairs_check in H. rewrite !andb_true_iff in H. tauto.
Qed.

(* mcEdgeTable *)
Lemma edge_row_ok cfg : (cfg < 256)%N -> edge_row_check cfg = true.
Proof.
  pose proof edge_table_ok_c as H. unfold edge_table_check in H. apply andb_true_iff in H as [_ H].
  now apply forallb_cfgs.
Qed.
Lemma edge_table_ok cfg e : (cfg < 256)%N -> (e < 12)%N -> N.testbit (edge_mask cfg) e = crossing cfg e.
Proof.
  intros Hc He. pose proof (edge_row_ok cfg Hc) as H. unfold edge_row_check in H. apply andb_true_iff in H as [H _].
  apply eqb_prop. now apply (forallb_ledges _ H).
Qed.
Lemma edge_mask_lt cfg : (cfg < 256)%N -> (edge_mask cfg < 4096)%N.
Proof.
  intros Hc. pose proof (edge_row_ok cfg Hc) as H. unfold edge_row_check in H. apply andb_true_iff in H as [_ H].
  now apply N.ltb_lt.
Qed.

(* mcTriangleTable *)
Lemma tri_row_ok cfg : (cfg < 256)%N -> tri_row_check cfg = true.
Proof.
  pose proof tri_table_ok_c as H. unfold tri_table_check in H. apply andb_true_iff in H as [_ H].
  now apply forallb_cfgs.
Qed.
Lemma tris_use_crossing_edges cfg e : (cfg < 256)%N -> In e (tri_row cfg) -> (e < 12)%N /\ crossing cfg e = true.
Proof.
  intros Hc Hin. pose proof (tri_row_ok cfg Hc) as H. unfold tri_row_check in H. rewrite !andb_true_iff in H.
  destruct H as [[_ H] _]. rewrite forallb_forall in H. specialize (H e Hin). apply andb_true_iff in H as [H1 H2].
  apply N.ltb_lt in H1. split; [exact H1|]. now rewrite <- edge_table_ok.
Qed.
Lemma tri_rows_whole cfg : (cfg < 256)%N -> (N.of_nat (length (tri_row cfg)) mod 3 = 0)%N.
Proof.
  intros Hc. pose proof (tri_row_ok cfg Hc) as H. unfold tri_row_check in H. rewrite !andb_true_iff in H.
  destruct H as [[H _] _]. now apply N.eqb_eq.
Qed.
Lemma tris_three_edges cfg a b c : (cfg < 256)%N -> In (a, b, c) (local_tris cfg) -> a <> b /\ b <> c /\ a <> c.
Proof.
  intros Hc Hin. pose proof (tri_row_ok cfg Hc) as H. unfold tri_row_check in H. rewrite !andb_true_iff in H.
  destruct H as [_ H]. rewrite forallb_forall in H. specialize (H _ Hin). cbn in H.
  rewrite !andb_true_iff, !negb_true_iff, !N.eqb_neq in H. tauto.
Qed.
Lemma used_ok cfg : (cfg < 256)%N -> used_check cfg = true.
Proof. apply forallb_cfgs. exact used_table_ok_c. Qed.
Lemma crossing_edges_used cfg e : (cfg < 256)%N -> (e < 12)%N -> crossing cfg e = true -> In e (tri_row cfg).
Proof.
  intros Hc He Hx. pose proof (used_ok cfg Hc) as H. unfold used_check in H. apply andb_true_iff in H as [H _].
  pose proof (forallb_ledges _ H e He) as H'. cbn beta in H'. rewrite Hx in H'. cbn [implb] in H'.
  apply existsb_exists in H' as (x & Hin & E). apply N.eqb_eq in E. now subst x.
Qed.
Lemma nonempty cfg : (cfg < 256)%N -> cfg <> 0%N -> cfg <> 255%N -> local_tris cfg <> [].
Proof.
  intros Hc H0 H255. pose proof (used_ok cfg Hc) as H. unfold used_check in H. apply andb_true_iff in H as [_ H].
  apply N.eqb_neq in H0, H255. rewrite H0, H255 in H. cbn [negb andb implb] in H.
  intros E. rewrite E in H. discriminate.
Qed.

(* boundary of the cell patch lies in the faces *)
Lemma common_face_rev e : common_face (revE e) = common_face e.
Proof.
  unfold common_face. destruct e as [a b]. cbn [revE fst snd].
  induction faces6 as [|ds l IH]; [reflexivity|]. cbn [existsb]. rewrite IH. f_equal. apply andb_comm.
Qed.
Lemma cell_boundary_on_faces cfg e : (cfg < 256)%N -> bal (edges_of (cell_tris cfg)) e <> 0 -> common_face e = true.
Proof.
  intros Hc Hb. pose proof (forallb_cfgs _ boundary_ok_c cfg Hc) as H. unfold boundary_check in H.
  rewrite forallb_forall in H. destruct (bal_nonzero_in _ _ Hb) as [Hin|Hin].
  - specialize (H _ Hin). apply orb_true_iff in H as [H|H]; [apply Z.eqb_eq in H; contradiction | exact H].
  - specialize (H _ Hin). rewrite bal_rev in H. apply orb_true_iff in H as [H|H]; [apply Z.eqb_eq in H; lia |].
    now rewrite common_face_rev in H.
Qed.

Lemma in_ordered_pairs (l : list gv) a b : In a l -> In b l -> a <> b -> In (a, b) (ordered_pairs l).
Proof.
  intros Ha Hb Hab. unfold ordered_pairs. apply in_flat_map. exists a. split; [exact Ha|].
  apply in_flat_map. exists b. split; [exact Hb|].
  destruct (gv_eqb a b) eqn:E; [apply gv_eqb_eq in E; contradiction | now left].
Qed.
Lemma bal_loop l a : bal l (a, a) = 0.
Proof. apply Balance.bal_loop. Qed.

(* the lower face normal to d carries the pattern of its signature, the upper face its reverse *)
Lemma face_contribution cfg d a b : (cfg < 256)%N -> d = 0 \/ d = 1 \/ d = 2 ->
  In a (face_verts d 0) -> In b (face_verts d 0) ->
  bal (edges_of (cell_tris cfg)) (a, b) = bal (fpat d (facesig d 0 cfg)) (a, b) /\
  bal (edges_of (cell_tris cfg)) (shiftE (unit d) (a, b)) = - bal (fpat d (facesig d 1 cfg)) (a, b).
Proof.
  intros Hc Hd Ha Hb. destruct (gv_eqb a b) eqn:E.
  - apply gv_eqb_eq in E. subst b. unfold shiftE, mapE; cbn [fst snd]. rewrite !bal_loop. split; reflexivity.
  - assert (Hab : a <> b) by (intro X; subst; rewrite (proj2 (gv_eqb_eq b b) eq_refl) in E; discriminate).
    pose proof (forallb_cfgs _ face_ok_c cfg Hc) as H. unfold face_check in H. rewrite forallb_forall in H.
    assert (Hin : In d [0; 1; 2]) by (cbn; intuition).
    specialize (H d Hin). cbv zeta in H. rewrite forallb_forall in H.
    specialize (H (a, b) (in_ordered_pairs _ a b Ha Hb Hab)).
    apply andb_true_iff in H as [H1 H2]. apply Z.eqb_eq in H1, H2. split; assumption.
Qed.

(* all face-adjacent pairs: cell c1 below, cell c2 above along d, agreeing on the shared face *)
Lemma face_pairs_cancel c1 c2 d a b : (c1 < 256)%N -> (c2 < 256)%N -> d = 0 \/ d = 1 \/ d = 2 ->
  facesig d 1 c1 = facesig d 0 c2 -> In a (face_verts d 0) -> In b (face_verts d 0) ->
  bal (edges_of (cell_tris c1)) (shiftE (unit d) (a, b)) + bal (edges_of (cell_tris c2)) (a, b) = 0.
Proof.
  intros H1 H2 Hd Hs Ha Hb.
  destruct (face_contribution c1 d a b H1 Hd Ha Hb) as [_ U].
  destruct (face_contribution c2 d a b H2 Hd Ha Hb) as [L _].
  rewrite U, L, Hs. apply Z.add_opp_diag_l.
Qed.

(* orientation: each boundary segment has the solid ends of the two lattice edges it joins on the
   side  (direction) x (outward face normal) *)
Lemma orientation cfg d s a b : (cfg < 256)%N -> In (d, s) faces6 ->
  In a (face_verts d s) -> In b (face_verts d s) -> 0 < bal (edges_of (cell_tris cfg)) (a, b) ->
  orient_rule cfg d s (a, b) = true.
Proof.
  intros Hc Hds Ha Hb Hpos.
  assert (Hab : a <> b) by (intro X; subst; rewrite bal_loop in Hpos; lia).
  pose proof (forallb_cfgs _ orient_ok_c cfg Hc) as H. unfold orient_check in H. rewrite forallb_forall in H.
  specialize (H _ Hds). cbn [fst snd] in H. rewrite forallb_forall in H.
  specialize (H (a, b) (in_ordered_pairs _ a b Ha Hb Hab)).
  apply Z.ltb_lt in Hpos. rewrite Hpos in H. exact H.
Qed.

(* the lattice edge of local edge e joins exactly the two corners of mcPairTable[e] (in either order) *)
Definition pt_eqb (p q : Z * Z * Z) : bool :=
  let '(px, py, pz) := p in let '(qx, qy, qz) := q in (px =? qx) && (py =? qy) && (pz =? qz).
Lemma pt_eqb_eq p q : pt_eqb p q = true <-> p = q.
Proof.
  destruct p as [[px py] pz], q as [[qx qy] qz]; unfold pt_eqb. rewrite !andb_true_iff, !Z.eqb_eq.
  split; [intros [[-> ->] ->]; reflexivity | intros [= -> -> ->]; auto].
Qed.
Definition ledge_ends_check (e : N) : bool :=
  let '(a, b) := pair_of e in
  let v := ledge e in
  (a <? 8)%N && (b <? 8)%N &&
  ((pt_eqb (fst v) (corner_off a) && pt_eqb (addp (fst v) (unit (snd v))) (corner_off b)) ||
   (pt_eqb (fst v) (corner_off b) && pt_eqb (addp (fst v) (unit (snd v))) (corner_off a))).
Lemma ledge_ends_ok_c : forallb ledge_ends_check ledges12 = true.
Proof. vm_compute. reflexivity. Qed.
Lemma ledge_ends e : (e < 12)%N ->
  let '(a, b) := pair_of e in
  (a < 8)%N /\ (b < 8)%N /\
  ((fst (ledge e) = corner_off a /\ addp (fst (ledge e)) (unit (snd (ledge e))) = corner_off b) \/
   (fst (ledge e) = corner_off b /\ addp (fst (ledge e)) (unit (snd (ledge e))) = corner_off a)).
Proof.
  intros He. pose proof (forallb_ledges _ ledge_ends_ok_c e He) as H. unfold ledge_ends_check in H.
  destruct (pair_of e) as [a b]. cbv zeta in H.
  rewrite !andb_true_iff, orb_true_iff, !andb_true_iff, !pt_eqb_eq, !N.ltb_lt in H. tauto.
Qed.
Lemma addp_assoc p q r : addp (addp p q) r = addp p (addp q r).
Proof. destruct p as [[a b] c], q as [[a' b'] c'], r as [[a'' b''] c'']. unfold addp. f_equal; [f_equal|]; lia. Qed.
Lemma in_chunk3 l a b c : In (a, b, c) (chunk3 l) -> In a l /\ In b l /\ In c l.
Proof.
  revert l a b c. fix IH 1. intros l a b c. destruct l as [|x [|y [|z r]]]; cbn [chunk3]; try (intros F; contradiction).
  intros [E|Hr].
  - inversion E; subst. cbn; tauto.
  - destruct (IH r a b c Hr) as (Ha & Hb & Hc). cbn; tauto.
Qed.
