(* C06, error bounds of the vertices (ROps instance of Interp.mc_interpolate / mc_to_triangles):
     mc_vertices            every vertex of every emitted triangle is mcInterpolate on a cell edge whose
                            two corner values have different "v < 0" bits
     interp_on_edge         that point is  p1 + t (p2 - p1)  with t in [0,1] (all snapping branches)
     interp_plane_exact     affine f: |f v| < epsilon, and f v = 0 when no value is within epsilon of 0
     interp_lip_bound       1-Lipschitz f: |f v| <= |p2 - p1|
     interp_sphere_bound    f = |p - c| - R, h < R: -h^2/(8(R-h)) - eps < f v < eps (f v <= 0 and
                            >= -h^2/(8(R-h)) without snapping)
     vertex_near_surface    f continuous along the edge: a zero of f on the edge, so v is within |p2 - p1|
                            of the surface
     complete_cellwise      a cell with corners of both strict signs emits a triangle *)
From Coq Require Import List ZArith NArith Bool Reals Lra Lia.
From Sdfx Require Import Num.Ops Num.RInst Geo.Vec Geo.Box Geo.NormR Generated.MarchTables
  Render.MC Render.MS Render.Lattice Render.Interp Render.LatticeR Render.Octree Render.Sample.
Import ListNotations.
Open Scope R_scope.

Definition lerp3 (p q : RV3) (t : R) : RV3 := mkV3 (lerp (wx p) (wx q) t) (lerp (wy p) (wy q) t) (lerp (wz p) (wz q) t).

Lemma lerp3_0 p q : lerp3 p q 0 = p.
Proof. destruct p as [a b c]. unfold lerp3, lerp. cbn [wx wy wz]. f_equal; ring. Qed.
Lemma lerp3_1 p q : lerp3 p q 1 = q.
Proof. destruct q as [a b c]. unfold lerp3, lerp. cbn [wx wy wz]. f_equal; ring. Qed.

Lemma len3_scale t (d : RV3) : len3 (mkV3 (t * wx d) (t * wy d) (t * wz d)) = Rabs t * len3 d.
Proof.
  unfold len3. cbn [wx wy wz].
  replace (t * wx d * (t * wx d) + t * wy d * (t * wy d) + t * wz d * (t * wz d))
    with ((t * t) * (wx d * wx d + wy d * wy d + wz d * wz d)) by ring.
  rewrite sqrt_mult; [| nra | apply sq_nonneg3]. f_equal.
  replace (t * t) with (Rsqr t) by reflexivity. apply sqrt_Rsqr_abs.
Qed.

(* distances along an edge *)
Lemma dist_lerp3 p q s t : dist3 (lerp3 p q s) (lerp3 p q t) = Rabs (s - t) * dist3 p q.
Proof.
  unfold dist3.
  replace (NormR.sub3 (lerp3 p q s) (lerp3 p q t))
    with (mkV3 ((s - t) * wx (NormR.sub3 q p)) ((s - t) * wy (NormR.sub3 q p)) ((s - t) * wz (NormR.sub3 q p)))
    by (unfold NormR.sub3, lerp3, lerp; cbn [wx wy wz]; f_equal; ring).
  rewrite len3_scale. f_equal. change (dist3 q p = dist3 p q). apply dist3_sym.
Qed.
Lemma dist_lerp3_l p q t : 0 <= t <= 1 -> dist3 (lerp3 p q t) p = t * dist3 p q.
Proof. intros H. rewrite <- (lerp3_0 p q) at 2. rewrite dist_lerp3, Rminus_0_r, Rabs_pos_eq; lra. Qed.
Lemma dist_lerp3_r p q t : 0 <= t <= 1 -> dist3 (lerp3 p q t) q = (1 - t) * dist3 p q.
Proof. intros H. rewrite <- (lerp3_1 p q) at 2. rewrite dist_lerp3, Rabs_left1 by lra. ring. Qed.

(* ------------------------------------------------------------------ the vertex is on the edge *)
Theorem interp_on_edge p1 p2 v1 v2 : straddles v1 v2 0 ->
  let t := interp_t v1 v2 0 in
  0 <= t <= 1 /\ Rabs (lerp v1 v2 t) < @eps ROps /\ @mc_interpolate ROps p1 p2 v1 v2 0 = lerp3 p1 p2 t /\
  (* the branches of mcInterpolate *)
  ((Rabs v1 < @eps ROps /\ @eps ROps <= Rabs v2 /\ t = 0) \/
   (@eps ROps <= Rabs v1 /\ Rabs v2 < @eps ROps /\ t = 1) \/
   (Rabs v1 < @eps ROps /\ Rabs v2 < @eps ROps /\ t = 1 / 2) \/
   (@eps ROps <= Rabs v1 /\ @eps ROps <= Rabs v2 /\ t = - v1 / (v2 - v1) /\ lerp v1 v2 t = 0)).
Proof.
  intros S. cbv zeta. split; [now apply interp_t_range|]. split.
  { pose proof (interp_t_value v1 v2 0 S) as H. now rewrite Rminus_0_r in H. }
  split; [apply mc_interpolate_lerp|].
  unfold interp_t, interp_pick. rsimp. rewrite !Rminus_0_l, !Rabs_Ropp.
  destruct (Rltb (Rabs v1) eps) eqn:C1; [apply Rltb_true in C1 | apply Rltb_false in C1];
  (destruct (Rltb (Rabs v2) eps) eqn:C2; [apply Rltb_true in C2 | apply Rltb_false in C2]); cbn [andb negb].
  - right. right. left. rewrite half_R. tauto.
  - left. tauto.
  - right. left. tauto.
  - right. right. right. split; [exact C1|]. split; [exact C2|]. split; [reflexivity|].
    assert (D : v2 - v1 <> 0) by (destruct S; lra). unfold lerp. field. exact D.
Qed.

(* the sign bits of the two ends differ  <->  the edge straddles the level 0 *)
Lemma xor_straddles v1 v2 : xorb (Rltb v1 0) (Rltb v2 0) = true -> straddles v1 v2 0.
Proof.
  unfold straddles. destruct (Rltb v1 0) eqn:A; [apply Rltb_true in A | apply Rltb_false in A];
  (destruct (Rltb v2 0) eqn:B; [apply Rltb_true in B | apply Rltb_false in B]); cbn [xorb]; intros H; try discriminate; lra.
Qed.

(* ------------------------------------------------------------------ which points a cell emits *)
Definition adjacent (a b : N) : Prop :=
  let '(ax, ay, az) := corner_off a in let '(bx, by_, bz) := corner_off b in
  (Z.abs (ax - bx) + Z.abs (ay - by_) + Z.abs (az - bz) = 1)%Z.

Lemma mc_index_testbit (v : N -> R) a : (a < 8)%N -> N.testbit (@mc_index ROps v 0) a = Rltb (v a) 0.
Proof.
  intros Ha. unfold mc_index. rsimp.
  pose proof (cfg_of_bools_spec (Rltb (v 0%N) 0) (Rltb (v 1%N) 0) (Rltb (v 2%N) 0) (Rltb (v 3%N) 0)
                                (Rltb (v 4%N) 0) (Rltb (v 5%N) 0) (Rltb (v 6%N) 0) (Rltb (v 7%N) 0)) as S.
  cbv zeta in S. destruct S as (_ & S0 & S1 & S2 & S3 & S4 & S5 & S6 & S7).
  assert (E : (a = 0 \/ a = 1 \/ a = 2 \/ a = 3 \/ a = 4 \/ a = 5 \/ a = 6 \/ a = 7)%N) by lia.
  destruct E as [-> | [-> | [-> | [-> | [-> | [-> | [-> | ->]]]]]]]; assumption.
Qed.
Lemma mc_index_lt (v : N -> R) : (@mc_index ROps v 0%R < 256)%N.
Proof. unfold mc_index. apply cfg_of_bools_spec. Qed.

Definition is_crossing_point (p : N -> RV3) (v : N -> R) (w : RV3) : Prop :=
  exists a b, (a < 8)%N /\ (b < 8)%N /\ adjacent a b /\ straddles (v a) (v b) 0 /\
              w = @mc_interpolate ROps (p a) (p b) (v a) (v b) 0.

Theorem mc_vertices (p : N -> RV3) (v : N -> R) t : In t (@mc_to_triangles ROps p v 0) ->
  let '(w0, w1, w2) := t in is_crossing_point p v w0 /\ is_crossing_point p v w1 /\ is_crossing_point p v w2.
Proof.
  unfold mc_to_triangles. cbv zeta. set (idx := @mc_index ROps v 0). pose proof (mc_index_lt v) as Hidx. fold idx in Hidx.
  destruct (edge_mask idx =? 0)%N; [intros []|]. intros H. apply filter_In in H as [H _].
  apply in_map_iff in H as ([[i j] k] & <- & Hin). apply in_chunk3 in Hin as (Hi & Hj & Hk).
  assert (P : forall e, In e (tri_row idx) -> is_crossing_point p v (@mc_point ROps p v 0 idx e)).
  { intros e He. destruct (tris_use_crossing_edges idx e Hidx He) as [L X].
    unfold mc_point. rewrite (edge_table_ok idx e Hidx L), X.
    pose proof (pair_table_ok e L) as PE. unfold pair_is_edge in PE. unfold crossing in X.
    destruct (pair_of e) as [a b]. exists a, b.
    destruct (corner_off a) as [[ax ay] az] eqn:Ea. destruct (corner_off b) as [[bx by_] bz] eqn:Eb.
    rewrite !andb_true_iff, !N.ltb_lt, Z.eqb_eq in PE. destruct PE as [[La Lb] Adj].
    split; [exact La|]. split; [exact Lb|]. split; [unfold adjacent; now rewrite Ea, Eb|]. split; [|reflexivity].
    apply xor_straddles. unfold idx in X. now rewrite !mc_index_testbit in X by assumption. }
  split; [now apply P | split; now apply P].
Qed.

(* ------------------------------------------------------------------ planes *)
Definition affine3 (f : RV3 -> R) : Prop := exists a b c d, forall p, f p = a * wx p + b * wy p + c * wz p + d.

Lemma affine_lerp f p q t : affine3 f -> f (lerp3 p q t) = lerp (f p) (f q) t.
Proof. intros (a & b & c & d & H). rewrite !H. unfold lerp3, lerp. cbn [wx wy wz]. ring. Qed.

Theorem interp_plane_exact f p1 p2 : affine3 f -> straddles (f p1) (f p2) 0 ->
  let w := @mc_interpolate ROps p1 p2 (f p1) (f p2) 0 in
  Rabs (f w) < @eps ROps /\ (@eps ROps <= Rabs (f p1) -> @eps ROps <= Rabs (f p2) -> f w = 0).
Proof.
  intros A S. cbv zeta. destruct (interp_on_edge p1 p2 _ _ S) as (_ & V & -> & Br).
  rewrite (affine_lerp f p1 p2 _ A). split; [exact V|]. intros C1 C2.
  destruct Br as [(B & _)|[(_ & B & _)|[(B & _)|(_ & _ & _ & Z)]]]; lra.
Qed.

(* ------------------------------------------------------------------ exact / Lipschitz fields *)
Theorem interp_lip_bound f p1 p2 : lip3 f -> straddles (f p1) (f p2) 0 ->
  Rabs (f (@mc_interpolate ROps p1 p2 (f p1) (f p2) 0)) <= dist3 p1 p2.
Proof.
  intros Lf S. destruct (interp_on_edge p1 p2 _ _ S) as (T & _ & -> & _). set (t := interp_t (f p1) (f p2) 0) in *.
  pose proof (Lf (lerp3 p1 p2 t) p1) as L1. pose proof (Lf (lerp3 p1 p2 t) p2) as L2.
  rewrite dist_lerp3_l in L1 by exact T. rewrite dist_lerp3_r in L2 by exact T.
  apply Rabs_le_inv in L1, L2. pose proof (len3_nonneg (NormR.sub3 p1 p2)) as Hh. fold (dist3 p1 p2) in Hh.
  apply Rabs_le. destruct S as [[A B]|[A B]]; split; nra.
Qed.

(* ------------------------------------------------------------------ spheres *)
(* chord lemma: along a segment of length h' <= h whose points stay at distance >= R - h > 0 from
   the centre, the distance to the centre is below its linear interpolant by at most h^2/(8(R-h)) *)
Lemma dist_centre_lerp (c p q : RV3) t :
  let a := dist3 p c in let b := dist3 q c in let r := dist3 (lerp3 p q t) c in let h' := dist3 p q in
  r * r = (1 - t) * (a * a) + t * (b * b) - t * (1 - t) * (h' * h').
Proof.
  cbv zeta. unfold dist3. rewrite !len3_sq. unfold NormR.sub3, lerp3, lerp. cbn [wx wy wz]. ring.
Qed.

Lemma chord_sphere (c p q : RV3) R h t : 0 <= t <= 1 -> h < R -> dist3 p q <= h ->
  R - h <= dist3 p c -> R - h <= dist3 q c -> R - h <= dist3 (lerp3 p q t) c ->
  0 <= lerp (dist3 p c) (dist3 q c) t - dist3 (lerp3 p q t) c <= h * h / (8 * (R - h)).
Proof.
  intros T HR Hh Ha Hb Hr. pose proof (dist_centre_lerp c p q t) as I. cbv zeta in I.
  set (a := dist3 p c) in *. set (b := dist3 q c) in *. set (r := dist3 (lerp3 p q t) c) in *. set (h' := dist3 p q) in *.
  assert (H0 : 0 <= h') by apply len3_nonneg.
  (* |b - a| <= h' *)
  assert (Lab : Rabs (a - b) <= h').
  { unfold a, b, h'. eapply Rle_trans; [apply (len3_lip (NormR.sub3 p c) (NormR.sub3 q c))|].
    right. unfold dist3, len3, NormR.sub3. cbn [wx wy wz]. f_equal. ring. }
  apply Rabs_le_inv in Lab.
  set (m := lerp a b t). assert (Em : m = (1 - t) * a + t * b) by (unfold m, lerp; ring).
  assert (K : (m - r) * (m + r) = t * (1 - t) * (h' * h' - (b - a) * (b - a))).
  { replace ((m - r) * (m + r)) with (m * m - r * r) by ring. rewrite I, Em. ring. }
  assert (K0 : 0 <= t * (1 - t) * (h' * h' - (b - a) * (b - a))).
  { apply Rmult_le_pos; [apply Rmult_le_pos; lra|].
    assert (Q5 : (b - a) * (b - a) <= h' * h') by (apply sq_le_of_abs; lra). lra. }
  assert (K1 : t * (1 - t) * (h' * h' - (b - a) * (b - a)) <= h * h / 4).
  { assert (Q1 : t * (1 - t) <= 1 / 4) by (pose proof (Rle_0_sqr (t - 1 / 2)) as Q; unfold Rsqr in Q; lra).
    assert (Q2 : 0 <= t * (1 - t)) by (apply Rmult_le_pos; lra).
    assert (Q3 : h' * h' <= h * h) by (apply Rmult_le_compat; lra).
    assert (Q4 : 0 <= (b - a) * (b - a)) by (pose proof (Rle_0_sqr (b - a)) as Q; unfold Rsqr in Q; lra).
    assert (Q5 : (b - a) * (b - a) <= h' * h').
    { assert (- h' <= b - a <= h') by lra. apply sq_le_of_abs. lra. }
    replace (h * h / 4) with (1 / 4 * (h * h)) by field.
    apply Rmult_le_compat; lra. }
  assert (Mm : R - h <= m) by (rewrite Em; nra).
  assert (Sp : 2 * (R - h) <= m + r) by lra. assert (Pp : 0 < R - h) by lra.
  rewrite <- K in K0, K1. split.
  - destruct (Rle_dec 0 (m - r)) as [G|G]; [exact G|]. exfalso. assert (m - r < 0) by lra. nra.
  - apply (Rmult_le_reg_r (8 * (R - h))); [lra|].
    replace (h * h / (8 * (R - h)) * (8 * (R - h))) with (h * h) by (field; lra).
    destruct (Rle_dec 0 (m - r)) as [G|G]; [|nra]. nra.
Qed.

Theorem interp_sphere_bound (c p1 p2 : RV3) R h : h < R -> dist3 p1 p2 <= h ->
  let f := fun p => dist3 p c - R in
  straddles (f p1) (f p2) 0 ->
  let w := @mc_interpolate ROps p1 p2 (f p1) (f p2) 0 in
  - (h * h / (8 * (R - h))) - @eps ROps < f w < @eps ROps /\
  (@eps ROps <= Rabs (f p1) -> @eps ROps <= Rabs (f p2) -> - (h * h / (8 * (R - h))) <= f w <= 0).
Proof.
  intros HR Hh f S w. destruct (interp_on_edge p1 p2 _ _ S) as (T & V & E & Br). unfold w. rewrite E. clear E w.
  set (t := interp_t (f p1) (f p2) 0) in *.
  (* every point of the edge is at distance >= R - h from the centre *)
  assert (Far : forall s, 0 <= s <= 1 -> R - h <= dist3 (lerp3 p1 p2 s) c).
  { intros s Hs. pose proof (len3_nonneg (NormR.sub3 p1 p2)) as H0. fold (dist3 p1 p2) in H0.
    destruct S as [[A B]|[A B]]; unfold f in A, B.
    - pose proof (dist3_triangle p2 (lerp3 p1 p2 s) c) as Tr. rewrite (dist3_sym p2 (lerp3 p1 p2 s)), dist_lerp3_r in Tr by exact Hs. nra.
    - pose proof (dist3_triangle p1 (lerp3 p1 p2 s) c) as Tr. rewrite (dist3_sym p1 (lerp3 p1 p2 s)), dist_lerp3_l in Tr by exact Hs. nra. }
  pose proof (Far 0) as F0. rewrite lerp3_0 in F0. pose proof (Far 1) as F1. rewrite lerp3_1 in F1.
  pose proof (chord_sphere c p1 p2 R h t T HR Hh (F0 ltac:(lra)) (F1 ltac:(lra)) (Far t T)) as C.
  assert (L : lerp (f p1) (f p2) t = lerp (dist3 p1 c) (dist3 p2 c) t - R) by (unfold f, lerp; ring).
  apply Rabs_def2 in V. unfold f at 1 2 5 6. split; [lra|]. intros C1 C2.
  destruct Br as [(B & _)|[(_ & B & _)|[(B & _)|(_ & _ & _ & Z)]]]; lra.
Qed.

(* ------------------------------------------------------------------ intermediate value *)
Lemma lip_line_continuity (g : R -> R) K : (forall s t, Rabs (g s - g t) <= K * Rabs (s - t)) -> continuity g.
Proof.
  intros H x. unfold continuity_pt, continue_in, limit1_in, limit_in. intros e He. cbn.
  assert (K0 : 0 <= K).
  { specialize (H 0 1). assert (E : Rabs (0 - 1) = 1) by (rewrite Rabs_left1; lra). rewrite E in H. pose proof (Rabs_pos (g 0 - g 1)). lra. }
  exists (e / (K + 1)). split; [apply Rdiv_lt_0_compat; lra|]. intros y [_ Hd]. unfold R_dist in *.
  eapply Rle_lt_trans; [apply H|].
  assert (K * Rabs (y - x) <= K * (e / (K + 1))) by (apply Rmult_le_compat_l; lra).
  assert (K * (e / (K + 1)) < e).
  { apply (Rmult_lt_reg_r (K + 1)); [lra|]. replace (K * (e / (K + 1)) * (K + 1)) with (K * e) by (field; lra). nra. }
  lra.
Qed.

(* vertex_near_surface: if f is continuous along the edge and its end values straddle 0, the edge
   carries a zero of f, and every point of the edge - in particular the mesh vertex - is within the
   edge length of it *)
Theorem vertex_near_surface f p1 p2 : continuity (fun t => f (lerp3 p1 p2 t)) -> straddles (f p1) (f p2) 0 ->
  exists z, f z = 0 /\ dist3 (@mc_interpolate ROps p1 p2 (f p1) (f p2) 0) z <= dist3 p1 p2.
Proof.
  intros Cg S. destruct (interp_on_edge p1 p2 _ _ S) as (T & _ & -> & _). set (t := interp_t (f p1) (f p2) 0) in *.
  assert (P : (fun t => f (lerp3 p1 p2 t)) 0 * (fun t => f (lerp3 p1 p2 t)) 1 <= 0).
  { cbv beta. rewrite lerp3_0, lerp3_1. destruct S as [[A B]|[A B]]; nra. }
  destruct (IVT_cor _ 0 1 Cg ltac:(lra) P) as (s & Hs & Zs). cbv beta in Zs.
  exists (lerp3 p1 p2 s). split; [exact Zs|]. rewrite dist_lerp3.
  pose proof (len3_nonneg (NormR.sub3 p1 p2)) as H0. fold (dist3 p1 p2) in H0.
  assert (Rabs (t - s) <= 1) by (apply Rabs_le; lra). nra.
Qed.

Corollary vertex_near_surface_lip f p1 p2 : lip3 f -> straddles (f p1) (f p2) 0 ->
  exists z, f z = 0 /\ dist3 (@mc_interpolate ROps p1 p2 (f p1) (f p2) 0) z <= dist3 p1 p2.
Proof.
  intros Lf. apply vertex_near_surface. apply (lip_line_continuity _ (dist3 p1 p2)).
  intros s t. rewrite Rmult_comm, <- dist_lerp3. apply Lf.
Qed.

(* ------------------------------------------------------------------ completeness, cell by cell *)
(* a cell with a corner strictly inside and a corner strictly outside has a table row with at least
   one triangle (before the removal of triangles with coincident vertices) *)
Theorem complete_cellwise (v : N -> R) a b : (a < 8)%N -> (b < 8)%N -> v a < 0 -> 0 < v b ->
  local_tris (@mc_index ROps v 0) <> [] /\ edge_mask (@mc_index ROps v 0) <> 0%N.
Proof.
  intros Ha Hb Va Vb. pose proof (mc_index_lt v) as L.
  assert (Ta : N.testbit (@mc_index ROps v 0) a = true) by (rewrite mc_index_testbit by exact Ha; apply Rltb_true; exact Va).
  assert (Tb : N.testbit (@mc_index ROps v 0) b = false) by (rewrite mc_index_testbit by exact Hb; apply Rltb_false; lra).
  assert (N0 : @mc_index ROps v 0 <> 0%N) by (intros E; rewrite E, N.bits_0 in Ta; discriminate).
  assert (N255 : @mc_index ROps v 0 <> 255%N).
  { intros E. rewrite E in Tb. assert (X : (b = 0 \/ b = 1 \/ b = 2 \/ b = 3 \/ b = 4 \/ b = 5 \/ b = 6 \/ b = 7)%N) by lia.
    destruct X as [-> | [-> | [-> | [-> | [-> | [-> | [-> | ->]]]]]]]; discriminate. }
  pose proof (nonempty _ L N0 N255) as NE. split; [exact NE|].
  intros Em. apply NE. apply (empty_mask_no_tris _ L Em).
Qed.

(* ================================================================== whole meshes *)
(* w is the crossing point the code computes on the segment p1-p2, whose end values straddle 0 *)
Definition crossing_of (f : RV3 -> R) (p1 p2 w : RV3) : Prop :=
  straddles (f p1) (f p2) 0 /\ w = @mc_interpolate ROps p1 p2 (f p1) (f p2) 0.
Definition tri_vertices (t : RV3 * RV3 * RV3) : list RV3 := let '(a, b, c) := t in [a; b; c].

(* two lattice points one step apart along one axis *)
Definition lattice_step (q q' : pt) : Prop :=
  let '(x, y, z) := q in let '(x', y', z') := q' in
  (Z.abs (x - x') + Z.abs (y - y') + Z.abs (z - z') = 1)%Z.
Definition in_lattice (nx ny nz : nat) (q : pt) : Prop :=
  let '(x, y, z) := q in (0 <= x <= Z.of_nat nx /\ 0 <= y <= Z.of_nat ny /\ 0 <= z <= Z.of_nat nz)%Z.

Lemma adjacent_step p a b : adjacent a b -> lattice_step (addp p (corner_off a)) (addp p (corner_off b)).
Proof.
  unfold adjacent, lattice_step. destruct p as [[px py] pz], (corner_off a) as [[ax ay] az], (corner_off b) as [[bx by_] bz].
  cbn [addp]. lia.
Qed.
Lemma corner_in_lattice nx ny nz p a : In p (cells nx ny nz) -> in_lattice nx ny nz (addp p (corner_off a)).
Proof.
  intros H. apply in_cells in H. destruct p as [[px py] pz]. destruct (corner_off_cases a) as (x & y & z & -> & Hx & Hy & Hz).
  cbn [addp in_lattice]. lia.
Qed.

Section MeshUniform.
  Variable L : lattice3 ROps.
  Variable f : RV3 -> R.

  (* mesh_on_lattice_edges: every vertex of every triangle the uniform renderer emits is the crossing
     point computed on a lattice edge (two lattice points of the sampled lattice one step apart)
     whose end values straddle 0 *)
  Theorem uniform_vertices t w : In t (@marching_cubes ROps L f) -> In w (tri_vertices t) ->
    exists q q', in_lattice (lnx L) (lny L) (lnz L) q /\ in_lattice (lnx L) (lny L) (lnz L) q' /\ lattice_step q q' /\
                 crossing_of f (lpoint L q) (lpoint L q') w.
  Proof.
    rewrite marching_cubes_is_meshR. unfold meshR. intros Ht Hw. apply in_flat_map in Ht as (p & Hp & Ht).
    pose proof (mc_vertices _ _ t Ht) as V. destruct t as [[w0 w1] w2]. destruct V as (V0 & V1 & V2).
    assert (G : forall w', is_crossing_point (cell_p (lpoint L) p) (cell_v (lval L f) p) w' ->
              exists q q', in_lattice (lnx L) (lny L) (lnz L) q /\ in_lattice (lnx L) (lny L) (lnz L) q' /\ lattice_step q q' /\
                           crossing_of f (lpoint L q) (lpoint L q') w').
    { intros w' (a & b & La & Lb & Adj & S & E). exists (addp p (corner_off a)), (addp p (corner_off b)).
      split; [now apply corner_in_lattice|]. split; [now apply corner_in_lattice|]. split; [now apply adjacent_step|].
      split; [exact S | exact E]. }
    cbn [tri_vertices In] in Hw. destruct Hw as [<- | [<- | [<- | []]]]; now apply G.
  Qed.

  Hypothesis inc_nonneg : 0 <= wx (linc L) /\ 0 <= wy (linc L) /\ 0 <= wz (linc L).

  Lemma lpoint_in_box q : in_lattice (lnx L) (lny L) (lnz L) q ->
    in_box3 (mkBox3 (lpoint L (0, 0, 0)%Z) (lpoint L (Z.of_nat (lnx L), Z.of_nat (lny L), Z.of_nat (lnz L)))) (lpoint L q).
  Proof.
    destruct q as [[x y] z]. intros (Hx & Hy & Hz). destruct inc_nonneg as (Ix & Iy & Iz).
    unfold in_box3, lpoint. cbn [b3min b3max wx wy wz].
    destruct Hx as [X1 X2], Hy as [Y1 Y2], Hz as [Z1 Z2]. apply IZR_le in X1, X2, Y1, Y2, Z1, Z2.
    repeat split; nra.
  Qed.

  (* the length of a lattice edge is one of the three cell sizes *)
  Lemma lattice_step_dist q q' : lattice_step q q' ->
    dist3 (lpoint L q) (lpoint L q') = wx (linc L) \/ dist3 (lpoint L q) (lpoint L q') = wy (linc L) \/
    dist3 (lpoint L q) (lpoint L q') = wz (linc L).
  Proof.
    destruct q as [[x y] z], q' as [[x' y'] z']. unfold lattice_step. intros H. destruct inc_nonneg as (Ix & Iy & Iz).
    assert (C : ((x' = x + 1 /\ y' = y /\ z' = z) \/ (x' = x - 1 /\ y' = y /\ z' = z) \/ (x' = x /\ y' = y + 1 /\ z' = z) \/
                (x' = x /\ y' = y - 1 /\ z' = z) \/ (x' = x /\ y' = y /\ z' = z + 1) \/ (x' = x /\ y' = y /\ z' = z - 1))%Z) by lia.
    assert (S1 : forall d, 0 <= d -> sqrt (d * d + 0 * 0 + 0 * 0) = d) by (intros d Hd; replace (d * d + 0 * 0 + 0 * 0) with (d * d) by ring; now apply sqrt_square).
    assert (S2 : forall d, 0 <= d -> sqrt (0 * 0 + d * d + 0 * 0) = d) by (intros d Hd; replace (0 * 0 + d * d + 0 * 0) with (d * d) by ring; now apply sqrt_square).
    assert (S3 : forall d, 0 <= d -> sqrt (0 * 0 + 0 * 0 + d * d) = d) by (intros d Hd; replace (0 * 0 + 0 * 0 + d * d) with (d * d) by ring; now apply sqrt_square).
    unfold dist3, len3, NormR.sub3, lpoint. cbn [wx wy wz].
    destruct C as [(-> & -> & ->)|[(-> & -> & ->)|[(-> & -> & ->)|[(-> & -> & ->)|[(-> & -> & ->)|(-> & -> & ->)]]]]];
      rewrite ?plus_IZR, ?minus_IZR.
    - left. etransitivity; [|apply (S1 _ Ix)]. f_equal. ring.
    - left. etransitivity; [|apply (S1 _ Ix)]. f_equal. ring.
    - right; left. etransitivity; [|apply (S2 _ Iy)]. f_equal. ring.
    - right; left. etransitivity; [|apply (S2 _ Iy)]. f_equal. ring.
    - right; right. etransitivity; [|apply (S3 _ Iz)]. f_equal. ring.
    - right; right. etransitivity; [|apply (S3 _ Iz)]. f_equal. ring.
  Qed.
  Lemma lattice_step_dist_le q q' : lattice_step q q' -> dist3 (lpoint L q) (lpoint L q') <= @v3maxcomp ROps (linc L).
  Proof.
    intros H. destruct (maxcomp_ge (linc L)) as (A & B & C). destruct (lattice_step_dist q q' H) as [E|[E|E]]; rewrite E; assumption.
  Qed.

  (* mesh_in_sample_box: every vertex lies in the sampled box [lattice point 0, lattice point (nx,ny,nz)] *)
  Theorem uniform_mesh_in_sample_box t w : In t (@marching_cubes ROps L f) -> In w (tri_vertices t) ->
    in_box3 (mkBox3 (lpoint L (0, 0, 0)%Z) (lpoint L (Z.of_nat (lnx L), Z.of_nat (lny L), Z.of_nat (lnz L)))) w.
  Proof.
    intros Ht Hw. destruct (uniform_vertices t w Ht Hw) as (q & q' & Hq & Hq' & _ & S & ->).
    destruct (interp_on_edge (lpoint L q) (lpoint L q') _ _ S) as (T & _ & -> & _).
    pose proof (lpoint_in_box q Hq) as (A1 & A2 & A3). pose proof (lpoint_in_box q' Hq') as (B1 & B2 & B3).
    set (t0 := interp_t (f (lpoint L q)) (f (lpoint L q')) 0) in *.
    unfold in_box3, lerp3, lerp in *. cbn [b3min b3max wx wy wz] in *. repeat split; nra.
  Qed.

  (* vertices of a 1-Lipschitz field: |f w| <= largest cell size, and a zero of f within that distance *)
  Theorem uniform_mesh_accuracy t w : lip3 f -> In t (@marching_cubes ROps L f) -> In w (tri_vertices t) ->
    Rabs (f w) <= @v3maxcomp ROps (linc L) /\ exists z, f z = 0 /\ dist3 w z <= @v3maxcomp ROps (linc L).
  Proof.
    intros Lf Ht Hw. destruct (uniform_vertices t w Ht Hw) as (q & q' & _ & _ & St & S & ->).
    pose proof (lattice_step_dist_le q q' St) as D. split.
    - eapply Rle_trans; [apply (interp_lip_bound f _ _ Lf S) | exact D].
    - destruct (vertex_near_surface_lip f _ _ Lf S) as (z & Z0 & Zd). exists z. split; [exact Z0 | lra].
  Qed.
End MeshUniform.

(* two points of the half-resolution lattice one cell (two lattice units) apart along one axis *)
Definition cell_step (q q' : pt) : Prop :=
  exists d : pt, lattice_step (0, 0, 0)%Z d /\ q' = addp q (scalep 2 d).

Section MeshOctree.
  Variable origin : RV3.
  Variable res : R.
  Variable f : RV3 -> R.

  Theorem octree_vertices m v t w : In t (@oct_uniform ROps origin res (fv3 origin res f) m v) -> In w (tri_vertices t) ->
    exists q q', in_cube m v q /\ in_cube m v q' /\ cell_step q q' /\
                 crossing_of f (@oct_point ROps origin res q) (@oct_point ROps origin res q') w.
  Proof.
    unfold oct_uniform. intros Ht Hw. apply in_flat_map in Ht as (u & Hu & Ht). apply oct_leaves_spec in Hu.
    unfold oct_cell in Ht. pose proof (mc_vertices _ _ t Ht) as V. destruct t as [[w0 w1] w2]. destruct V as (V0 & V1 & V2).
    assert (G : forall w', is_crossing_point (fun c => @oct_point ROps origin res (oct_corner u c)) (fun c => fv3 origin res f (oct_corner u c)) w' ->
              exists q q', in_cube m v q /\ in_cube m v q' /\ cell_step q q' /\
                           crossing_of f (@oct_point ROps origin res q) (@oct_point ROps origin res q') w').
    { intros w' (a & b & La & Lb & Adj & S & E). exists (oct_corner u a), (oct_corner u b).
      split; [now apply cell_corner_in_cube|]. split; [now apply cell_corner_in_cube|]. split; [|split; [exact S | exact E]].
      destruct u as [[ux uy] uz].
      destruct (corner_off a) as [[ax ay] az] eqn:Ea. destruct (corner_off b) as [[bx by_] bz] eqn:Eb.
      exists (bx - ax, by_ - ay, bz - az)%Z.
      unfold adjacent in Adj. rewrite Ea, Eb in Adj. unfold oct_corner. rewrite Ea, Eb. unfold scalep, addp, lattice_step.
      split; [lia|]. f_equal; [f_equal|]; lia. }
    cbn [tri_vertices In] in Hw. destruct Hw as [<- | [<- | [<- | []]]]; now apply G.
  Qed.
End MeshOctree.
