(* C06, error bounds of the vertices (ROps instance of Interp.mc_interpolate / mc_to_triangles):
     mc_vertices            every vertex of every emitted triangle is mcInterpolate on a cell edge whose
                            two corner values have different "v < 0" bits
     interp_on_edge         that point is  p1 + t (p2 - p1)  with t in [0,1] (all snapping branches)
     interp_plane_exact     affine f: |f v| < epsilon, and f v = 0 when no value is within epsilon of 0
     interp_lip_bound       1-Lipschitz f: |f v| <= |p2 - p1|
     interp_sphere_bound    f = |p - c| - R, h < R: -h^2/(8(R-h)) - eps < f v < eps (f v <= 0 and
                            >= -h^2/(8(R-h)) without snapping)
     vertex_near_surface    f continuous along the edge: a zero of f on the edge, so v is within |p2 - p1|
                            of the surface
     complete_cellwise      a cell with corners of both strict signs emits a triangle *)
From Coq Require Import List ZArith NArith Bool Reals Lra Lia.
From Sdfx Require Import Num.Ops Num.RInst Geo.Vec Geo.NormR Generated.MarchTables
  Render.MC Render.MS Render.Lattice Render.Interp Render.LatticeR Render.Octree.
Import ListNotations.
Open Scope R_scope.

Definition lerp3 (p q : RV3) (t : R) : RV3 := mkV3 (lerp (wx p) (wx q) t) (lerp (wy p) (wy q) t) (lerp (wz p) (wz q) t).

Lemma lerp3_0 p q : lerp3 p q 0 = p.
Proof. destruct p as [a b c]. unfold lerp3, lerp. cbn [wx wy wz]. f_equal; ring. Qed.
Lemma lerp3_1 p q : lerp3 p q 1 = q.
Proof. destruct q as [a b c]. unfold lerp3, lerp. cbn [wx wy wz]. f_equal; ring. Qed.

Lemma len3_scale t (d : RV3) : len3 (mkV3 (t * wx d) (t * wy d) (t * wz d)) = Rabs t * len3 d.
Proof.
  unfold len3. cbn [wx wy wz].
  replace (t * wx d * (t * wx d) + t * wy d * (t * wy d) + t * wz d * (t * wz d))
    with ((t * t) * (wx d * wx d + wy d * wy d + wz d * wz d)) by ring.
  rewrite sqrt_mult; [| nra | apply sq_nonneg3]. f_equal.
  replace (t * t) with (Rsqr t) by reflexivity. apply sqrt_Rsqr_abs.
Qed.

(* distances along an edge *)
Lemma dist_lerp3 p q s t : dist3 (lerp3 p q s) (lerp3 p q t) = Rabs (s - t) * dist3 p q.
Proof.
  unfold dist3.
  replace (NormR.sub3 (lerp3 p q s) (lerp3 p q t))
    with (mkV3 ((s - t) * wx (NormR.sub3 q p)) ((s - t) * wy (NormR.sub3 q p)) ((s - t) * wz (NormR.sub3 q p)))
    by (unfold NormR.sub3, lerp3, lerp; cbn [wx wy wz]; f_equal; ring).
  rewrite len3_scale. f_equal. change (dist3 q p = dist3 p q). apply dist3_sym.
Qed.
Lemma dist_lerp3_l p q t : 0 <= t <= 1 -> dist3 (lerp3 p q t) p = t * dist3 p q.
Proof. intros H. rewrite <- (lerp3_0 p q) at 2. rewrite dist_lerp3, Rminus_0_r, Rabs_pos_eq; lra. Qed.
Lemma dist_lerp3_r p q t : 0 <= t <= 1 -> dist3 (lerp3 p q t) q = (1 - t) * dist3 p q.
Proof. intros H. rewrite <- (lerp3_1 p q) at 2. rewrite dist_lerp3, Rabs_left1 by lra. ring. Qed.

(* ------------------------------------------------------------------ the vertex is on the edge *)
Theorem interp_on_edge p1 p2 v1 v2 : straddles v1 v2 0 ->
  let t := interp_t v1 v2 0 in
  0 <= t <= 1 /\ Rabs (lerp v1 v2 t) < @eps ROps /\ @mc_interpolate ROps p1 p2 v1 v2 0 = lerp3 p1 p2 t /\
  (* the branches of mcInterpolate *)
  ((Rabs v1 < @eps ROps /\ @eps ROps <= Rabs v2 /\ t = 0) \/
   (@eps ROps <= Rabs v1 /\ Rabs v2 < @eps ROps /\ t = 1) \/
   (Rabs v1 < @eps ROps /\ Rabs v2 < @eps ROps /\ t = 1 / 2) \/
   (@eps ROps <= Rabs v1 /\ @eps ROps <= Rabs v2 /\ t = - v1 / (v2 - v1) /\ lerp v1 v2 t = 0)).
Proof.
  intros S. cbv zeta. split; [now apply interp_t_range|]. split.
  { pose proof (interp_t_value v1 v2 0 S) as H. now rewrite Rminus_0_r in H. }
  split; [apply mc_interpolate_lerp|].
  unfold interp_t, interp_pick. rsimp. rewrite !Rminus_0_l, !Rabs_Ropp.
  destruct (Rltb (Rabs v1) eps) eqn:C1; [apply Rltb_true in C1 | apply Rltb_false in C1];
  (destruct (Rltb (Rabs v2) eps) eqn:C2; [apply Rltb_true in C2 | apply Rltb_false in C2]); cbn [andb negb].
  - right. right. left. rewrite half_R. tauto.
  - left. tauto.
  - right. left. tauto.
  - right. right. right. split; [exact C1|]. split; [exact C2|]. split; [reflexivity|].
    assert (D : v2 - v1 <> 0) by (destruct S; lra). unfold lerp. field. exact D.
Qed.

(* the sign bits of the two ends differ  <->  the edge straddles the level 0 *)
Lemma xor_straddles v1 v2 : xorb (Rltb v1 0) (Rltb v2 0) = true -> straddles v1 v2 0.
Proof.
  unfold straddles. destruct (Rltb v1 0) eqn:A; [apply Rltb_true in A | apply Rltb_false in A];
  (destruct (Rltb v2 0) eqn:B; [apply Rltb_true in B | apply Rltb_false in B]); cbn [xorb]; intros H; try discriminate; lra.
Qed.

(* ------------------------------------------------------------------ which points a cell emits *)
Definition adjacent (a b : N) : Prop :=
  let '(ax, ay, az) := corner_off a in let '(bx, by_, bz) := corner_off b in
  (Z.abs (ax - bx) + Z.abs (ay - by_) + Z.abs (az - bz) = 1)%Z.

Lemma mc_index_testbit (v : N -> R) a : (a < 8)%N -> N.testbit (@mc_index ROps v 0) a = Rltb (v a) 0.
Proof.
  intros Ha. unfold mc_index. rsimp.
  pose proof (cfg_of_bools_spec (Rltb (v 0%N) 0) (Rltb (v 1%N) 0) (Rltb (v 2%N) 0) (Rltb (v 3%N) 0)
                                (Rltb (v 4%N) 0) (Rltb (v 5%N) 0) (Rltb (v 6%N) 0) (Rltb (v 7%N) 0)) as S.
  cbv zeta in S. destruct S as (_ & S0 & S1 & S2 & S3 & S4 & S5 & S6 & S7).
  assert (E : (a = 0 \/ a = 1 \/ a = 2 \/ a = 3 \/ a = 4 \/ a = 5 \/ a = 6 \/ a = 7)%N) by lia.
  destruct E as [-> | [-> | [-> | [-> | [-> | [-> | [-> | ->]]]]]]]; assumption.
Qed.
Lemma mc_index_lt (v : N -> R) : (@mc_index ROps v 0%R < 256)%N.
Proof. unfold mc_index. apply cfg_of_bools_spec. Qed.

Definition is_crossing_point (p : N -> RV3) (v : N -> R) (w : RV3) : Prop :=
  exists a b, (a < 8)%N /\ (b < 8)%N /\ adjacent a b /\ straddles (v a) (v b) 0 /\
              w = @mc_interpolate ROps (p a) (p b) (v a) (v b) 0.

Theorem mc_vertices (p : N -> RV3) (v : N -> R) t : In t (@mc_to_triangles ROps p v 0) ->
  let '(w0, w1, w2) := t in is_crossing_point p v w0 /\ is_crossing_point p v w1 /\ is_crossing_point p v w2.
Proof.
  unfold mc_to_triangles. cbv zeta. set (idx := @mc_index ROps v 0). pose proof (mc_index_lt v) as Hidx. fold idx in Hidx.
  destruct (edge_mask idx =? 0)%N; [intros []|]. intros H. apply filter_In in H as [H _].
  apply in_map_iff in H as ([[i j] k] & <- & Hin). apply in_chunk3 in Hin as (Hi & Hj & Hk).
  assert (P : forall e, In e (tri_row idx) -> is_crossing_point p v (@mc_point ROps p v 0 idx e)).
  { intros e He. destruct (tris_use_crossing_edges idx e Hidx He) as [L X].
    unfold mc_point. rewrite (edge_table_ok idx e Hidx L), X.
    pose proof (pair_table_ok e L) as PE. unfold pair_is_edge in PE. unfold crossing in X.
    destruct (pair_of e) as [a b]. exists a, b.
    destruct (corner_off a) as [[ax ay] az] eqn:Ea. destruct (corner_off b) as [[bx by_] bz] eqn:Eb.
    rewrite !andb_true_iff, !N.ltb_lt, Z.eqb_eq in PE. destruct PE as [[La Lb] Adj].
    split; [exact La|]. split; [exact Lb|]. split; [unfold adjacent; now rewrite Ea, Eb|]. split; [|reflexivity].
    apply xor_straddles. unfold idx in X. now rewrite !mc_index_testbit in X by assumption. }
  split; [now apply P | split; now apply P].
Qed.

(* ------------------------------------------------------------------ planes *)
Definition affine3 (f : RV3 -> R) : Prop := exists a b c d, forall p, f p = a * wx p + b * wy p + c * wz p + d.

Lemma affine_lerp f p q t : affine3 f -> f (lerp3 p q t) = lerp (f p) (f q) t.
Proof. intros (a & b & c & d & H). rewrite !H. unfold lerp3, lerp. cbn [wx wy wz]. ring. Qed.

Theorem interp_plane_exact f p1 p2 : affine3 f -> straddles (f p1) (f p2) 0 ->
  let w := @mc_interpolate ROps p1 p2 (f p1) (f p2) 0 in
  Rabs (f w) < @eps ROps /\ (@eps ROps <= Rabs (f p1) -> @eps ROps <= Rabs (f p2) -> f w = 0).
Proof.
  intros A S. cbv zeta. destruct (interp_on_edge p1 p2 _ _ S) as (_ & V & -> & Br).
  rewrite (affine_lerp f p1 p2 _ A). split; [exact V|]. intros C1 C2.
  destruct Br as [(B & _)|[(_ & B & _)|[(B & _)|(_ & _ & _ & Z)]]]; lra.
Qed.

(* ------------------------------------------------------------------ exact / Lipschitz fields *)
Theorem interp_lip_bound f p1 p2 : lip3 f -> straddles (f p1) (f p2) 0 ->
  Rabs (f (@mc_interpolate ROps p1 p2 (f p1) (f p2) 0)) <= dist3 p1 p2.
Proof.
  intros Lf S. destruct (interp_on_edge p1 p2 _ _ S) as (T & _ & -> & _). set (t := interp_t (f p1) (f p2) 0) in *.
  pose proof (Lf (lerp3 p1 p2 t) p1) as L1. pose proof (Lf (lerp3 p1 p2 t) p2) as L2.
  rewrite dist_lerp3_l in L1 by exact T. rewrite dist_lerp3_r in L2 by exact T.
  apply Rabs_le_inv in L1, L2. pose proof (len3_nonneg (NormR.sub3 p1 p2)) as Hh. fold (dist3 p1 p2) in Hh.
  apply Rabs_le. destruct S as [[A B]|[A B]]; split; nra.
Qed.

(* ------------------------------------------------------------------ spheres *)
(* chord lemma: along a segment of length h' <= h whose points stay at distance >= R - h > 0 from
   the centre, the distance to the centre is below its linear interpolant by at most h^2/(8(R-h)) *)
Lemma dist_centre_lerp (c p q : RV3) t :
  let a := dist3 p c in let b := dist3 q c in let r := dist3 (lerp3 p q t) c in let h' := dist3 p q in
  r * r = (1 - t) * (a * a) + t * (b * b) - t * (1 - t) * (h' * h').
Proof.
  cbv zeta. unfold dist3. rewrite !len3_sq. unfold NormR.sub3, lerp3, lerp. cbn [wx wy wz]. ring.
Qed.

Lemma chord_sphere (c p q : RV3) R h t : 0 <= t <= 1 -> h < R -> dist3 p q <= h ->
  R - h <= dist3 p c -> R - h <= dist3 q c -> R - h <= dist3 (lerp3 p q t) c ->
  0 <= lerp (dist3 p c) (dist3 q c) t - dist3 (lerp3 p q t) c <= h * h / (8 * (R - h)).
Proof.
  intros T HR Hh Ha Hb Hr. pose proof (dist_centre_lerp c p q t) as I. cbv zeta in I.
  set (a := dist3 p c) in *. set (b := dist3 q c) in *. set (r := dist3 (lerp3 p q t) c) in *. set (h' := dist3 p q) in *.
  assert (H0 : 0 <= h') by apply len3_nonneg.
  (* |b - a| <= h' *)
  assert (Lab : Rabs (a - b) <= h').
  { unfold a, b, h'. eapply Rle_trans; [apply (len3_lip (NormR.sub3 p c) (NormR.sub3 q c))|].
    right. unfold dist3, len3, NormR.sub3. cbn [wx wy wz]. f_equal. ring. }
  apply Rabs_le_inv in Lab.
  set (m := lerp a b t). assert (Em : m = (1 - t) * a + t * b) by (unfold m, lerp; ring).
  assert (K : (m - r) * (m + r) = t * (1 - t) * (h' * h' - (b - a) * (b - a))).
  { replace ((m - r) * (m + r)) with (m * m - r * r) by ring. rewrite I, Em. ring. }
  assert (K0 : 0 <= t * (1 - t) * (h' * h' - (b - a) * (b - a))).
  { apply Rmult_le_pos; [apply Rmult_le_pos; lra|].
    assert (Q5 : (b - a) * (b - a) <= h' * h') by (apply sq_le_of_abs; lra). lra. }
  assert (K1 : t * (1 - t) * (h' * h' - (b - a) * (b - a)) <= h * h / 4).
  { assert (Q1 : t * (1 - t) <= 1 / 4) by (pose proof (Rle_0_sqr (t - 1 / 2)) as Q; unfold Rsqr in Q; lra).
    assert (Q2 : 0 <= t * (1 - t)) by (apply Rmult_le_pos; lra).
    assert (Q3 : h' * h' <= h * h) by (apply Rmult_le_compat; lra).
    assert (Q4 : 0 <= (b - a) * (b - a)) by (pose proof (Rle_0_sqr (b - a)) as Q; unfold Rsqr in Q; lra).
    assert (Q5 : (b - a) * (b - a) <= h' * h').
    { assert (- h' <= b - a <= h') by lra. apply sq_le_of_abs. lra. }
    replace (h * h / 4) with (1 / 4 * (h * h)) by field.
    apply Rmult_le_compat; lra. }
  assert (Mm : R - h <= m) by (rewrite Em; nra).
  assert (Sp : 2 * (R - h) <= m + r) by lra. assert (Pp : 0 < R - h) by lra.
  rewrite <- K in K0, K1. split.
  - destruct (Rle_dec 0 (m - r)) as [G|G]; [exact G|]. exfalso. assert (m - r < 0) by lra. nra.
  - apply (Rmult_le_reg_r (8 * (R - h))); [lra|].
    replace (h * h / (8 * (R - h)) * (8 * (R - h))) with (h * h) by (field; lra).
    destruct (Rle_dec 0 (m - r)) as [G|G]; [|nra]. nra.
Qed.

Theorem interp_sphere_bound (c p1 p2 : RV3) R h : h < R -> dist3 p1 p2 <= h ->
  let f := fun p => dist3 p c - R in
  straddles (f p1) (f p2) 0 ->
  let w := @mc_interpolate ROps p1 p2 (f p1) (f p2) 0 in
  - (h * h / (8 * (R - h))) - @eps ROps < f w < @eps ROps /\
  (@eps ROps <= Rabs (f p1) -> @eps ROps <= Rabs (f p2) -> - (h * h / (8 * (R - h))) <= f w <= 0).
Proof.
  intros HR Hh f S w. destruct (interp_on_edge p1 p2 _ _ S) as (T & V & E & Br). unfold w. rewrite E. clear E w.
  set (t := interp_t (f p1) (f p2) 0) in *.
  (* every point of the edge is at distance >= R - h from the centre *)
  assert (Far : forall s, 0 <= s <= 1 -> R - h <= dist3 (lerp3 p1 p2 s) c).
  { intros s Hs. pose proof (len3_nonneg (NormR.sub3 p1 p2)) as H0. fold (dist3 p1 p2) in H0.
    destruct S as [[A B]|[A B]]; unfold f in A, B.
    - pose proof (dist3_triangle p2 (lerp3 p1 p2 s) c) as Tr. rewrite (dist3_sym p2 (lerp3 p1 p2 s)), dist_lerp3_r in Tr by exact Hs. nra.
    - pose proof (dist3_triangle p1 (lerp3 p1 p2 s) c) as Tr. rewrite (dist3_sym p1 (lerp3 p1 p2 s)), dist_lerp3_l in Tr by exact Hs. nra. }
  pose proof (Far 0) as F0. rewrite lerp3_0 in F0. pose proof (Far 1) as F1. rewrite lerp3_1 in F1.
  pose proof (chord_sphere c p1 p2 R h t T HR Hh (F0 ltac:(lra)) (F1 ltac:(lra)) (Far t T)) as C.
  assert (L : lerp (f p1) (f p2) t = lerp (dist3 p1 c) (dist3 p2 c) t - R) by (unfold f, lerp; ring).
  apply Rabs_def2 in V. unfold f at 1 2 5 6. split; [lra|]. intros C1 C2.
  destruct Br as [(B & _)|[(_ & B & _)|[(B & _)|(_ & _ & _ & Z)]]]; lra.
Qed.

(* ------------------------------------------------------------------ intermediate value *)
Lemma lip_line_continuity (g : R -> R) K : (forall s t, Rabs (g s - g t) <= K * Rabs (s - t)) -> continuity g.
Proof.
  intros H x. unfold continuity_pt, continue_in, limit1_in, limit_in. intros e He. cbn.
  assert (K0 : 0 <= K).
  { specialize (H 0 1). assert (E : Rabs (0 - 1) = 1) by (rewrite Rabs_left1; lra). rewrite E in H. pose proof (Rabs_pos (g 0 - g 1)). lra. }
  exists (e / (K + 1)). split; [apply Rdiv_lt_0_compat; lra|]. intros y [_ Hd]. unfold R_dist in *.
  eapply Rle_lt_trans; [apply H|].
  assert (K * Rabs (y - x) <= K * (e / (K + 1))) by (apply Rmult_le_compat_l; lra).
  assert (K * (e / (K + 1)) < e).
  { apply (Rmult_lt_reg_r (K + 1)); [lra|]. replace (K * (e / (K + 1)) * (K + 1)) with (K * e) by (field; lra). nra. }
  lra.
Qed.

(* vertex_near_surface: if f is continuous along the edge and its end values straddle 0, the edge
   carries a zero of f, and every point of the edge - in particular the mesh vertex - is within the
   edge length of it *)
Theorem vertex_near_surface f p1 p2 : continuity (fun t => f (lerp3 p1 p2 t)) -> straddles (f p1) (f p2) 0 ->
  exists z, f z = 0 /\ dist3 (@mc_interpolate ROps p1 p2 (f p1) (f p2) 0) z <= dist3 p1 p2.
Proof.
  intros Cg S. destruct (interp_on_edge p1 p2 _ _ S) as (T & _ & -> & _). set (t := interp_t (f p1) (f p2) 0) in *.
  assert (P : (fun t => f (lerp3 p1 p2 t)) 0 * (fun t => f (lerp3 p1 p2 t)) 1 <= 0).
  { cbv beta. rewrite lerp3_0, lerp3_1. destruct S as [[A B]|[A B]]; nra. }
  destruct (IVT_cor _ 0 1 Cg ltac:(lra) P) as (s & Hs & Zs). cbv beta in Zs.
  exists (lerp3 p1 p2 s). split; [exact Zs|]. rewrite dist_lerp3.
  pose proof (len3_nonneg (NormR.sub3 p1 p2)) as H0. fold (dist3 p1 p2) in H0.
  assert (Rabs (t - s) <= 1) by (apply Rabs_le; lra). nra.
Qed.

Corollary vertex_near_surface_lip f p1 p2 : lip3 f -> straddles (f p1) (f p2) 0 ->
  exists z, f z = 0 /\ dist3 (@mc_interpolate ROps p1 p2 (f p1) (f p2) 0) z <= dist3 p1 p2.
Proof.
  intros Lf. apply vertex_near_surface. apply (lip_line_continuity _ (dist3 p1 p2)).
  intros s t. rewrite Rmult_comm, <- dist_lerp3. apply Lf.
Qed.

(* ------------------------------------------------------------------ completeness, cell by cell *)
(* a cell with a corner strictly inside and a corner strictly outside has a table row with at least
   one triangle (before the removal of triangles with coincident vertices) *)
Theorem complete_cellwise (v : N -> R) a b : (a < 8)%N -> (b < 8)%N -> v a < 0 -> 0 < v b ->
  local_tris (@mc_index ROps v 0) <> [] /\ edge_mask (@mc_index ROps v 0) <> 0%N.
Proof.
  intros Ha Hb Va Vb. pose proof (mc_index_lt v) as L.
  assert (Ta : N.testbit (@mc_index ROps v 0) a = true) by (rewrite mc_index_testbit by exact Ha; apply Rltb_true; exact Va).
  assert (Tb : N.testbit (@mc_index ROps v 0) b = false) by (rewrite mc_index_testbit by exact Hb; apply Rltb_false; lra).
  assert (N0 : @mc_index ROps v 0 <> 0%N) by (intros E; rewrite E, N.bits_0 in Ta; discriminate).
  assert (N255 : @mc_index ROps v 0 <> 255%N).
  { intros E. rewrite E in Tb. assert (X : (b = 0 \/ b = 1 \/ b = 2 \/ b = 3 \/ b = 4 \/ b = 5 \/ b = 6 \/ b = 7)%N) by lia.
    destruct X as [-> | [-> | [-> | [-> | [-> | [-> | [-> | ->]]]]]]]; discriminate. }
  pose proof (nonempty _ L N0 N255) as NE. split; [exact NE|].
  intros Em. apply NE. apply (empty_mask_no_tris _ L Em).
Qed.
