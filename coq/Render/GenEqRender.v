(* The syntactic tie for package render: every definition of Generated/RenderExpr.v (produced by
   harness/rendergen from the Go AST of render/*.go and the helpers of sdf, vec/* it calls, on
   every run) is equal, for all arguments and over an arbitrary `O : Ops`, to the hand-written
   model function of Render/Interp.v, Render/Octree.v, Render/Sample.v (Algo/GenEqDelaunay.v:
   Algo/Canon.v, Algo/Delaunay.v; Io/GenEqStl.v: Io/Stl.v).  Loop-free functions: by conversion (after splitting on the
   booleans the Go code branches on).  Loops: the generated `zfor` / `fold_left` terms are
   related to the model's folds, maps and filters by the lemmas of Render/RgLib.v. *)
From Coq Require Import ZArith NArith List Bool Lia.
From Sdfx Require Import Num.Ops Geo.Vec Geo.Box Geo.Mat Generated.MarchTables Render.MC Render.MS
  Render.Lattice Render.Interp Render.Octree Render.Sample Render.RgLib Generated.RenderExpr.
Import OpsNotations ListNotations.
Local Open Scope ops_scope.

Section GenEqRender.
  Context {O : Ops}.
  Notation T := (T O).
  Notation V2 := (V2 O).
  Notation V3 := (V3 O).

  (* ------------------------------------------------------------ constants *)
  (* constants (render.epsilon) are used by value in the generated definitions: a named constant and the
     same literal written in place give the same term; the model's Interp.eps is unfolded to compare *)

  (* ------------------------------------------------------------ vec helpers used by render *)
  Lemma v3_Equals_eq : forall (a b : V3) (tol : T), rg_v3_Vec_Equals a b tol = v3_equals a b tol.
  Proof. same_as TRANSL_render_v3_Equals. Qed.
  Lemma v2_Equals_eq : forall (a b : V2) (tol : T), rg_v2_Vec_Equals a b tol = v2_equals a b tol.
  Proof. same_as TRANSL_render_v2_Equals. Qed.

  (* ------------------------------------------------------------ sdf/triangle3.go, sdf/line.go *)
  Lemma Triangle3_Degenerate_eq : forall (t : V3 * V3 * V3) (tol : T),
      rg_sdf_Triangle3_Degenerate t tol = tri3_degenerate t tol.
  Proof. intros [[t0 t1] t2] tol. unfold rg_sdf_Triangle3_Degenerate, tri3_degenerate. cbn [fst snd]. by_cases TRANSL_render_Triangle3_Degenerate. Qed.
  Lemma Line2_Degenerate_eq : forall (l : V2 * V2) (tol : T),
      rg_sdf_Line2_Degenerate l tol = line2_degenerate l tol.
  Proof. same_as TRANSL_render_Line2_Degenerate. Qed.

  (* ------------------------------------------------------------ render/march3.go, march2.go: interpolation *)
  Lemma mcInterpolate_eq : forall (p1 p2 : V3) (v1 v2 x : T),
      rg_render_mcInterpolate p1 p2 v1 v2 x = mc_interpolate p1 p2 v1 v2 x.
  Proof.
    intros. unfold rg_render_mcInterpolate, mc_interpolate, interp_pick, Interp.eps, epsilon_num, epsilon_den.
    by_cases TRANSL_render_mcInterpolate.
  Qed.
  Lemma msInterpolate_eq : forall (p1 p2 : V2) (v1 v2 x : T),
      rg_render_msInterpolate p1 p2 v1 v2 x = ms_interpolate p1 p2 v1 v2 x.
  Proof.
    intros. unfold rg_render_msInterpolate, ms_interpolate, interp_pick, Interp.eps, epsilon_num, epsilon_den.
    by_cases TRANSL_render_msInterpolate.
  Qed.

  (* ------------------------------------------------------------ msToLines (render/march2.go)
     the interpolation and the degeneracy test are abstracted, the 16 configurations are then
     compared by computation *)
  Definition ms_to_lines_with (F : V2 -> V2 -> T -> T -> T -> V2) (D : V2 * V2 -> T -> bool)
             (p : N -> V2) (v : N -> T) (x : T) : list (V2 * V2) :=
    let index := ms_index v x in
    if (sq_edge_mask index =? 0)%N then []
    else
      let pts := fun i => if N.testbit (sq_edge_mask index) i
                          then let '(a, b) := sq_pair_of i in F (p a) (p b) (v a) (v b) x else v2zero in
      filter (fun l => negb (D l (o0 O)))
             (map (fun l : N * N => let '(a, b) := l in (pts a, pts b)) (local_lines index)).

  Lemma ms_with_model p v x : ms_to_lines_with ms_interpolate line2_degenerate p v x = ms_to_lines p v x.
  Proof. same_as TRANSL_render_msToLines. Qed.

  Lemma ms_with_ext F F' D D' p v x :
    (forall a b c d e, F a b c d e = F' a b c d e) -> (forall t tol, D t tol = D' t tol) ->
    ms_to_lines_with F D p v x = ms_to_lines_with F' D' p v x.
  Proof.
    intros HF HD. unfold ms_to_lines_with. cbv zeta. destruct (sq_edge_mask (ms_index v x) =? 0)%N; [reflexivity|].
    erewrite filter_ext by (intros t; rewrite HD; reflexivity). f_equal.
    apply map_ext. intros [a b].
    repeat match goal with |- context [N.testbit ?m ?i] => destruct (N.testbit m i) end;
      repeat match goal with |- context [sq_pair_of ?i] => destruct (sq_pair_of i) end; now rewrite ?HF.
  Qed.

  Lemma msToLines_eq : forall (p0 p1 p2 p3 : V2) (v0 v1 v2 v3 x : T),
      rg_render_msToLines [p0; p1; p2; p3] [v0; v1; v2; v3] x =
      ms_to_lines (sel4 p0 p1 p2 p3) (sel4 v0 v1 v2 v3) x.
  Proof.
    intros. rewrite <- ms_with_model.
    rewrite <- (ms_with_ext _ _ _ _ _ _ _ msInterpolate_eq Line2_Degenerate_eq).
    unfold rg_render_msToLines, ms_to_lines_with, ms_index. cbv beta iota delta [sel4].
    generalize (@rg_render_msInterpolate O) (@rg_sdf_Line2_Degenerate O). intros F D.
    autounfold with rg_helpers.
    (* the loop computing the configuration index: the one loop whose state is an integer *)
    match goal with
    | |- context [@zfor Z ?lo ?hi ?f ?s] => set (idx := @zfor Z lo hi f s)
    | |- context [@fold_left Z ?B ?f ?l ?s] => set (idx := @fold_left Z B f l s)
    end.
    assert (IDX : idx = Z.of_N (sq_of_bools (v0 <? x) (v1 <? x) (v2 <? x) (v3 <? x))).
    { subst idx. cbv -[oltb o0].
      destruct (oltb O v0 x), (oltb O v1 x), (oltb O v2 x), (oltb O v3 x);
        first [ reflexivity | fail 1 "TRANSL_render_msToLines: the configuration index is not the sum of 1<<i over the corners with v[i] < x" ]. }
    clearbody idx. subst idx.
    destruct (oltb O v0 x), (oltb O v1 x), (oltb O v2 x), (oltb O v3 x);
      (vm_compute;
       repeat match goal with |- context [D ?t ?tol] => destruct (D t tol) end;
       first [ reflexivity | fail 1 "TRANSL_render_msToLines: the generated msToLines differs from the model on a configuration" ]).
  Qed.

  (* the same for corner positions / values given as any lists of four elements *)
  Lemma msToLines_list_eq : forall (P : list V2) (V : list T) (x : T),
      length P = 4%nat -> length V = 4%nat ->
      rg_render_msToLines P V x =
      ms_to_lines (sel4 (znth 0 P v2zero) (znth 1 P v2zero) (znth 2 P v2zero) (znth 3 P v2zero))
                  (sel4 (znth 0 V (o0 O)) (znth 1 V (o0 O)) (znth 2 V (o0 O)) (znth 3 V (o0 O))) x.
  Proof.
    intros P V x HP HV.
    do 5 (destruct P as [|? P]; try discriminate HP). do 5 (destruct V as [|? V]; try discriminate HV).
    apply msToLines_eq.
  Qed.

  (* ------------------------------------------------------------ render/march3.go: lattice arithmetic *)
  (* marchingCubes: size, base, steps, inc (the statements before the first evaluation) *)
  Lemma marchingCubes_lattice_eq : forall (box : Box3 O) (step : T),
      rg_render_marchingCubes box step =
      (lbase (mc_lattice box step), linc (mc_lattice box step), lsteps (mc_lattice box step)).
  Proof. same_as TRANSL_render_marchingCubes_lattice. Qed.

  (* MarchingCubesUniform.Render: the box and step handed to marchingCubes *)
  Lemma mcu_box_eq : forall (meshCells : Z) (bb0 : Box3 O),
      rg_render_MarchingCubesUniform_Render meshCells bb0 = mcu_box bb0 meshCells.
  Proof. same_as TRANSL_render_MarchingCubesUniform_box. Qed.

  (* layerYZ.Get: idx := y*(l.steps.Z+1) + z, layer 0 or 1 *)
  Lemma layerYZ_Get_eq : forall (L : lattice3 O) (v0 v1 : list T) (x : Z) (y z : nat),
      (0 <= snd (lsteps L))%Z ->
      rg_render_layerYZ_Get (lsteps L) v0 v1 x (Z.of_nat y) (Z.of_nat z) =
      lget L (if (x =? 0)%Z then v0 else v1) y z.
  Proof.
    intros L v0 v1 x y z Hs. unfold rg_render_layerYZ_Get, lget, lnz. cbv zeta.
    replace (Z.add (Z.mul (Z.of_nat y) (Z.add (snd (lsteps L)) 1)) (Z.of_nat z))
      with (Z.of_nat (y * S (Z.to_nat (snd (lsteps L))) + z)) by nia.
    destruct (x =? 0)%Z; now rewrite znth_nat.
  Qed.

  (* ------------------------------------------------------------ render/march3x.go, march2x.go *)
  Lemma shiftl_pow2 (m : nat) : Z.shiftl 1 (Z.of_nat m) = pow2 m.
  Proof. unfold pow2. now rewrite Z.shiftl_1_l. Qed.

  Lemma nth_map_seq {A} (f : nat -> A) (n k : nat) (d : A) : (k < n)%nat -> nth k (map f (seq 0 n)) d = f k.
  Proof. intros H. rewrite (nth_indep _ d (f 0%nat)) by (now rewrite map_length, seq_length). rewrite map_nth, seq_nth by assumption. reflexivity. Qed.

  (* dcache3.evaluate, first statement: the point of a lattice index *)
  Lemma dcache3_point_eq : forall (origin : V3) (res : T) (vi : pt),
      rg_render_dcache3_evaluate origin res vi = oct_point origin res vi.
  Proof. intros origin res [[i j] k]. same_as TRANSL_render_dcache3_point. Qed.
  Lemma dcache2_point_eq : forall (origin : V2) (res : T) (vi : pt2),
      rg_render_dcache2_evaluate origin res vi = quad_point origin res vi.
  Proof. intros origin res [i j]. same_as TRANSL_render_dcache2_point. Qed.

  (* newDcache3 / newDcache2: the fields origin, resolution and the half-diagonal table of n levels *)
  Lemma newDcache3_eq : forall (origin : V3) (res : T) (n : nat),
      rg_render_newDcache3 origin res (Z.of_nat n) = (origin, res, hdiag3_table res n).
  Proof.
    intros. unfold rg_render_newDcache3, hdiag3_table. autounfold with rg_helpers. cbv zeta. f_equal.
    table_loop n (fun i => half * osqrt O ((ofZ O 3 * (ofZ O (Z.shiftl 1 i) * res)) * (ofZ O (Z.shiftl 1 i) * res)))
               TRANSL_render_newDcache3.  (* dc.hdiag[i] = 0.5*sqrt(3*s*s), s = (1<<i)*resolution, for i < n *)
    rewrite zrange_0, map_map. apply map_ext. intros k. now rewrite shiftl_pow2.
  Qed.
  Lemma newDcache2_eq : forall (origin : V2) (res : T) (n : nat),
      rg_render_newDcache2 origin res (Z.of_nat n) = (origin, res, hdiag2_table res n).
  Proof.
    intros. unfold rg_render_newDcache2, hdiag2_table. autounfold with rg_helpers. cbv zeta. f_equal.
    table_loop n (fun i => half * osqrt O ((two * (ofZ O (Z.shiftl 1 i) * res)) * (ofZ O (Z.shiftl 1 i) * res)))
               TRANSL_render_newDcache2.  (* dc.hdiag[i] = 0.5*sqrt(2*s*s), s = (1<<i)*resolution, for i < n *)
    rewrite zrange_0, map_map. apply map_ext. intros k. now rewrite shiftl_pow2.
  Qed.

  (* isEmpty of the cube of Go level c.n = S m, with the table built for n > S m levels and
     dc.evaluate abstracted as the function returning (point, field value) of a lattice index *)
  Lemma dcache3_isEmpty_eq : forall (origin : V3) (res : T) (fv : pt -> T) (n m : nat) (v : pt),
      (S m < n)%nat ->
      rg_render_dcache3_isEmpty (hdiag3_table res n) (fun vi => (oct_point origin res vi, fv vi)) v (Z.of_nat (S m)) =
      oct_empty res fv m v.
  Proof.
    intros origin res fv n m [[i j] k] H. unfold rg_render_dcache3_isEmpty, oct_empty, hdiag3_table. cbv zeta.
    replace (Z.sub (Z.of_nat (S m)) 1) with (Z.of_nat m) by lia. rewrite shiftl_pow2, znth_nat, nth_map_seq by assumption.
    same_as TRANSL_render_dcache3_isEmpty.
  Qed.
  Lemma dcache2_isEmpty_eq : forall (origin : V2) (res : T) (fv : pt2 -> T) (n m : nat) (v : pt2),
      (S m < n)%nat ->
      rg_render_dcache2_isEmpty (hdiag2_table res n) (fun vi => (quad_point origin res vi, fv vi)) v (Z.of_nat (S m)) =
      quad_empty res fv m v.
  Proof.
    intros origin res fv n m [i j] H. unfold rg_render_dcache2_isEmpty, quad_empty, hdiag2_table. cbv zeta.
    replace (Z.sub (Z.of_nat (S m)) 1) with (Z.of_nat m) by lia. rewrite shiftl_pow2, znth_nat, nth_map_seq by assumption.
    same_as TRANSL_render_dcache2_isEmpty.
  Qed.

End GenEqRender.
