(* The model of the CODE (Interp.mc_to_triangles / ms_to_lines at the reals, run over every cell of a
   lattice exactly as marchingCubes / marchingSquares do) produces a closed mesh:

     - a cell's output is the abstract patch of MC.cell_tris with every abstract vertex replaced by
       its point (the interpolation along the lattice edge, which by symmetry does not depend on
       which cell computes it), minus the triangles with two equal points (Degenerate(0));
     - so the whole output is  filter nondegenerate (map position (Lattice.mesh))  and closedness
       follows from Lattice.mesh_closed by identification + degenerate removal (Balance.v).

   Lattice point positions are arbitrary (cpos : any map), values arbitrary reals. *)
From Coq Require Import List ZArith NArith Bool Reals Lra Lia.
From Sdfx Require Import Num.Ops.
From Sdfx Require Import Num.RInst.
From Sdfx Require Import Geo.Vec.
From Sdfx Require Import Generated.MarchTables.
From Sdfx Require Import Render.Balance.
From Sdfx Require Import Render.MC.
From Sdfx Require Import Render.MS.
From Sdfx Require Import Render.Lattice.
From Sdfx Require Import Render.Interp.
Import ListNotations.

Lemma flat_map_filter_map {A B C} (f : A -> list B) (g : B -> C) (keep : C -> bool) l :
  flat_map (fun x => filter keep (map g (f x))) l = filter keep (map g (flat_map f l)).
Proof.
  induction l as [|x l IH]; [reflexivity|]. cbn [flat_map]. rewrite IH, map_app, filter_app. reflexivity.
Qed.

Lemma cfg_at_testbit sgn p a : (a < 8)%N -> N.testbit (cfg_at sgn p) a = sgn (addp p (corner_off a)).
Proof.
  intros Ha. unfold cfg_at.
  pose proof (cfg_of_bools_spec (sgn (addp p (corner_off 0))) (sgn (addp p (corner_off 1))) (sgn (addp p (corner_off 2)))
               (sgn (addp p (corner_off 3))) (sgn (addp p (corner_off 4))) (sgn (addp p (corner_off 5)))
               (sgn (addp p (corner_off 6))) (sgn (addp p (corner_off 7)))) as S.
  cbv zeta in S. destruct S as (_ & S0 & S1 & S2 & S3 & S4 & S5 & S6 & S7).
  assert (E : (a = 0 \/ a = 1 \/ a = 2 \/ a = 3 \/ a = 4 \/ a = 5 \/ a = 6 \/ a = 7)%N) by lia.
  destruct E as [-> | [-> | [-> | [-> | [-> | [-> | [-> | ->]]]]]]]; assumption.
Qed.
Lemma cfg2_at_testbit sgn p a : (a < 4)%N -> N.testbit (cfg2_at sgn p) a = sgn (addp2 p (sq_corner_off a)).
Proof.
  intros Ha. unfold cfg2_at.
  pose proof (sq_of_bools_spec (sgn (addp2 p (sq_corner_off 0))) (sgn (addp2 p (sq_corner_off 1)))
               (sgn (addp2 p (sq_corner_off 2))) (sgn (addp2 p (sq_corner_off 3)))) as S.
  cbv zeta in S. destruct S as (_ & S0 & S1 & S2 & S3).
  assert (E : (a = 0 \/ a = 1 \/ a = 2 \/ a = 3)%N) by lia.
  destruct E as [-> | [-> | [-> | ->]]]; assumption.
Qed.

Lemma Rltb_xor_neq a b x : xorb (Rltb a x) (Rltb b x) = true -> a <> b.
Proof. intros H E. subst. now rewrite xorb_nilpotent in H. Qed.

(* ================================================================== 3D *)
Section Real3.
  Variable cpos : pt -> V3 ROps.     (* position of every lattice point *)
  Variable val : pt -> R.            (* field value at every lattice point *)
  Variable x : R.                    (* iso level (the code passes 0) *)

  Definition sgnR (q : pt) : bool := Rltb (val q) x.
  Definition cell_p (p : pt) (c : N) : V3 ROps := cpos (addp p (corner_off c)).
  Definition cell_v (p : pt) (c : N) : R := val (addp p (corner_off c)).

  (* what the cube walk writes to the output *)
  Definition meshR (nx ny nz : nat) : list (V3 ROps * V3 ROps * V3 ROps) :=
    flat_map (fun p => @mc_to_triangles ROps (cell_p p) (cell_v p) x) (cells nx ny nz).

  (* the point carried by a lattice edge *)
  Definition vposR (v : gv) : V3 ROps :=
    let q := fst v in let q' := addp q (unit (snd v)) in
    @mc_interpolate ROps (cpos q) (cpos q') (val q) (val q') x.

  Lemma mc_index_cfg p : @mc_index ROps (cell_v p) x = cfg_at sgnR p.
  Proof. reflexivity. Qed.

  Lemma point_of_edge p e : (e < 12)%N -> crossing (cfg_at sgnR p) e = true ->
    @mc_point ROps (cell_p p) (cell_v p) x (cfg_at sgnR p) e = vposR (shiftv p (ledge e)).
  Proof.
    intros He Hx. unfold mc_point. rewrite (edge_table_ok _ _ (cfg_at_lt sgnR p) He), Hx.
    pose proof (ledge_ends e He) as L. unfold crossing in Hx. destruct (pair_of e) as [a b].
    destruct L as (Ha & Hb & L). rewrite !cfg_at_testbit in Hx by assumption.
    unfold vposR, shiftv. cbn [fst snd]. rewrite addp_assoc.
    destruct L as [[-> ->] | [-> ->]].
    - reflexivity.
    - unfold cell_p, cell_v. apply mc_interp_symmetric. unfold sgnR in Hx.
      apply (Rltb_xor_neq _ _ x). now rewrite xorb_comm.
  Qed.

  Definition nondegR (t : V3 ROps * V3 ROps * V3 ROps) : bool := negb (degenerate v3_eqbR t).

  Lemma tri3_degenerate_R t : @tri3_degenerate ROps t (@mc_tol ROps) = degenerate v3_eqbR t.
  Proof.
    destruct t as [[a b] c]. unfold tri3_degenerate, degenerate. rewrite (proj1 tol_zero).
    change (o0 ROps) with 0%R. rewrite !v3_equals_zero.
    destruct (v3_eqbR a b), (v3_eqbR b c), (v3_eqbR c a); reflexivity.
  Qed.

  Lemma empty_mask_no_tris cfg : (cfg < 256)%N -> edge_mask cfg = 0%N -> local_tris cfg = [].
  Proof.
    intros Hc Hm. pose proof (tri_row_ok cfg Hc) as H. unfold tri_row_check in H. rewrite !andb_true_iff in H.
    destruct H as [[_ H] _]. unfold local_tris. destruct (tri_row cfg) as [|e r]; [reflexivity|].
    cbn [forallb] in H. rewrite Hm, N.bits_0, andb_false_r in H. discriminate.
  Qed.

  (* one cell of the code = the abstract patch, vertices replaced by their points, degenerate
     triangles dropped *)
  Lemma cell_real p :
    @mc_to_triangles ROps (cell_p p) (cell_v p) x =
    filter nondegR (map (mapT vposR) (cell_mesh sgnR p)).
  Proof.
    unfold mc_to_triangles. rewrite mc_index_cfg. cbv zeta.
    unfold cell_mesh, cell_tris. rewrite !map_map.
    destruct (edge_mask (cfg_at sgnR p) =? 0)%N eqn:Em.
    - apply N.eqb_eq in Em. now rewrite (empty_mask_no_tris _ (cfg_at_lt sgnR p) Em).
    - assert (M : map (fun t : N * N * N => let '(a, b, c) := t in
                        (@mc_point ROps (cell_p p) (cell_v p) x (cfg_at sgnR p) a,
                         @mc_point ROps (cell_p p) (cell_v p) x (cfg_at sgnR p) b,
                         @mc_point ROps (cell_p p) (cell_v p) x (cfg_at sgnR p) c)) (local_tris (cfg_at sgnR p))
                  = map (fun t : N * N * N => mapT vposR (shiftT p (let '(a, b, c) := t in (ledge a, ledge b, ledge c))))
                        (local_tris (cfg_at sgnR p))).
      { apply map_ext_in. intros [[a b] c] Hin. apply in_chunk3 in Hin as (Ha & Hb & Hc).
        destruct (tris_use_crossing_edges _ _ (cfg_at_lt sgnR p) Ha) as [La Xa].
        destruct (tris_use_crossing_edges _ _ (cfg_at_lt sgnR p) Hb) as [Lb Xb].
        destruct (tris_use_crossing_edges _ _ (cfg_at_lt sgnR p) Hc) as [Lc Xc].
        rewrite !point_of_edge by assumption. reflexivity. }
      rewrite M. apply filter_ext. intros t. unfold nondegR. now rewrite tri3_degenerate_R.
  Qed.

  Lemma meshR_eq nx ny nz :
    meshR nx ny nz = filter nondegR (map (mapT vposR) (mesh nx ny nz sgnR)).
  Proof.
    unfold meshR, mesh. rewrite <- flat_map_filter_map. apply flat_map_ext. intros p. apply cell_real.
  Qed.

  (* the emitted mesh is closed: every directed edge between two POINTS is matched by its reverse *)
  Theorem meshR_closed nx ny nz : boundary_outside nx ny nz sgnR ->
    closed v3_eqbR (edges_of (meshR nx ny nz)).
  Proof.
    intros B e. rewrite meshR_eq. unfold nondegR.
    rewrite (degenerate_removal_preserves_balance v3_eqbR v3_eqbR_ok), edges_of_mapT.
    apply (identification_preserves_closed gv_eqb gv_eqb_eq v3_eqbR v3_eqbR_ok).
    exact (mesh_closed nx ny nz sgnR B).
  Qed.

  (* no emitted triangle has two identical vertices *)
  Theorem meshR_triangles_distinct nx ny nz t : In t (meshR nx ny nz) ->
    let '(a, b, c) := t in a <> b /\ b <> c /\ c <> a.
  Proof. rewrite meshR_eq. apply (kept_triangles_distinct v3_eqbR v3_eqbR_ok). Qed.

  (* every vertex of the mesh is a point of a sign-changing lattice edge *)
  Theorem meshR_vertices_on_edges nx ny nz t : In t (meshR nx ny nz) ->
    exists u : gv * gv * gv, t = mapT vposR u.
  Proof.
    rewrite meshR_eq. intros H. apply filter_In in H as [H _]. apply in_map_iff in H as (u & <- & _). now exists u.
  Qed.
End Real3.

(* ================================================================== 2D *)
Section Real2.
  Variable cpos : pt2 -> V2 ROps.
  Variable val : pt2 -> R.
  Variable x : R.

  Definition sgnR2 (q : pt2) : bool := Rltb (val q) x.
  Definition sq_p (p : pt2) (c : N) : V2 ROps := cpos (addp2 p (sq_corner_off c)).
  Definition sq_v (p : pt2) (c : N) : R := val (addp2 p (sq_corner_off c)).

  Definition meshR2 (nx ny : nat) : list (V2 ROps * V2 ROps) :=
    flat_map (fun p => @ms_to_lines ROps (sq_p p) (sq_v p) x) (cells2 nx ny).

  Definition vposR2 (v : gv2) : V2 ROps :=
    let q := fst v in let q' := addp2 q (unit2 (snd v)) in
    @ms_interpolate ROps (cpos q) (cpos q') (val q) (val q') x.

  Lemma point_of_side p e : (e < 4)%N -> sq_crossing (cfg2_at sgnR2 p) e = true ->
    @ms_point ROps (sq_p p) (sq_v p) x (cfg2_at sgnR2 p) e = vposR2 (shiftv2 p (sq_ledge e)).
  Proof.
    intros He Hx. unfold ms_point. rewrite (sq_edge_table_ok _ _ (cfg2_at_lt sgnR2 p) He), Hx.
    pose proof (sq_ledge_ends e He) as L. unfold sq_crossing in Hx. destruct (sq_pair_of e) as [a b].
    destruct L as (Ha & Hb & L). rewrite !cfg2_at_testbit in Hx by assumption.
    unfold vposR2, shiftv2. cbn [fst snd]. rewrite addp2_assoc.
    destruct L as [[-> ->] | [-> ->]].
    - reflexivity.
    - unfold sq_p, sq_v. apply ms_interp_symmetric. unfold sgnR2 in Hx.
      apply (Rltb_xor_neq _ _ x). now rewrite xorb_comm.
  Qed.

  Definition nonzeroR (l : V2 ROps * V2 ROps) : bool := negb (zero_length v2_eqbR l).

  Lemma empty_mask_no_lines cfg : (cfg < 16)%N -> sq_edge_mask cfg = 0%N -> local_lines cfg = [].
  Proof.
    intros Hc Hm. unfold local_lines. destruct (line_row cfg) as [|e r] eqn:E; [reflexivity|].
    assert (Hin : In e (line_row cfg)) by (rewrite E; now left).
    destruct (lines_use_crossing_edges cfg e Hc Hin) as [He Hx].
    rewrite <- (sq_edge_table_ok cfg e Hc He), Hm, N.bits_0 in Hx. discriminate.
  Qed.

  Lemma cell_real2 p :
    @ms_to_lines ROps (sq_p p) (sq_v p) x = filter nonzeroR (map (@mapE gv2 _ vposR2) (cell_mesh2 sgnR2 p)).
  Proof.
    unfold ms_to_lines. change (@ms_index ROps (sq_v p) x) with (cfg2_at sgnR2 p). cbv zeta.
    unfold cell_mesh2, cell_lines. rewrite !map_map.
    destruct (sq_edge_mask (cfg2_at sgnR2 p) =? 0)%N eqn:Em.
    - apply N.eqb_eq in Em. now rewrite (empty_mask_no_lines _ (cfg2_at_lt sgnR2 p) Em).
    - assert (M : map (fun l : N * N => let '(a, b) := l in
                        (@ms_point ROps (sq_p p) (sq_v p) x (cfg2_at sgnR2 p) a,
                         @ms_point ROps (sq_p p) (sq_v p) x (cfg2_at sgnR2 p) b)) (local_lines (cfg2_at sgnR2 p))
                  = map (fun l : N * N => @mapE gv2 _ vposR2 (shiftS p (sq_ledge (fst l), sq_ledge (snd l))))
                        (local_lines (cfg2_at sgnR2 p))).
      { apply map_ext_in. intros [a b] Hin. apply in_chunk2 in Hin as (Ha & Hb).
        destruct (lines_use_crossing_edges _ _ (cfg2_at_lt sgnR2 p) Ha) as [La Xa].
        destruct (lines_use_crossing_edges _ _ (cfg2_at_lt sgnR2 p) Hb) as [Lb Xb].
        rewrite !point_of_side by assumption. reflexivity. }
      rewrite M. apply filter_ext. intros [a b]. unfold nonzeroR, line2_degenerate, zero_length. cbn [fst snd].
      rewrite (proj2 tol_zero). change (o0 ROps) with 0%R. now rewrite v2_equals_zero.
  Qed.

  Lemma meshR2_eq nx ny :
    meshR2 nx ny = filter nonzeroR (map (@mapE gv2 _ vposR2) (mesh2 nx ny sgnR2)).
  Proof.
    unfold meshR2, mesh2. rewrite <- flat_map_filter_map. apply flat_map_ext. intros p. apply cell_real2.
  Qed.

  (* every point of the plane is the end point of an even number of emitted segments *)
  Theorem meshR2_even_degree nx ny : boundary_outside2 nx ny sgnR2 ->
    forall q, exists k, deg v2_eqbR (meshR2 nx ny) q = (2 * k)%Z.
  Proof.
    intros B q. rewrite meshR2_eq. unfold nonzeroR.
    destruct (zero_length_removal_parity v2_eqbR v2_eqbR_ok (map (@mapE gv2 _ vposR2) (mesh2 nx ny sgnR2)) q) as [k1 ->].
    destruct (identification_preserves_even_degree gv2_eqb gv2_eqb_eq v2_eqbR vposR2 (mesh2 nx ny sgnR2)) with (w := q) as [k2 ->].
    - intros v. exists (crossing_at nx ny sgnR2 v). now apply mesh2_degree.
    - exists (k2 - k1)%Z. ring.
  Qed.

  Theorem meshR2_segments_nonzero nx ny l : In l (meshR2 nx ny) -> fst l <> snd l.
  Proof. rewrite meshR2_eq. apply (kept_segments_nonzero v2_eqbR v2_eqbR_ok). Qed.
End Real2.
