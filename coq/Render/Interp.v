(* Model of the numeric part of marching cubes / squares, written once over Ops:
     mcInterpolate, mcToTriangles (render/march3.go), msInterpolate, msToLines (render/march2.go),
     Triangle3.Degenerate (sdf/triangle3.go), Line2.Degenerate (sdf/line.go), Vec.Equals.
   The constants epsilon and the Degenerate tolerances come from Generated/MarchTables.v.
   Theorems are about the ROps instance. *)
From Coq Require Import List ZArith NArith Bool Reals Lra Lia.
From Sdfx Require Import Num.Ops.
From Sdfx Require Import Num.RInst.
From Sdfx Require Import Geo.Vec.
From Sdfx Require Import Generated.MarchTables.
From Sdfx Require Import Render.MC.
From Sdfx Require Import Render.MS.
Import OpsNotations ListNotations.
Local Open Scope ops_scope.

Section Model.
  Context {O : Ops}.
  Notation T := (T O).
  Notation V2 := (V2 O).
  Notation V3 := (V3 O).

  Definition eps : T := cst epsilon_num epsilon_den.
  (* the literal 0 of `t.Degenerate(0)` / `l.Degenerate(0)`: tied to the call sites by
     TRANSL_render_mcToTriangles / TRANSL_render_msToLines (Render/GenEqRender.v) and, as data, by
     mcDegenerateTol_f / msDegenerateTol_f of Generated/MarchTables.v (Render/MarchCorr.v) *)
  Definition mc_tol : T := o0 O.
  Definition ms_tol : T := o0 O.

  (* the interpolation parameter and the two snapping tests, shared by the 2D and 3D code *)
  Inductive pick := PickFirst | PickSecond | PickT (t : T).
  Definition interp_pick (v1 v2 x : T) : pick :=
    let c1 := oabs O (x - v1) <? eps in
    let c2 := oabs O (x - v2) <? eps in
    if c1 && negb c2 then PickFirst
    else if c2 && negb c1 then PickSecond
    else PickT (if c1 && c2 then half else (x - v1) / (v2 - v1)).

  Definition mc_interpolate (p1 p2 : V3) (v1 v2 x : T) : V3 :=
    match interp_pick v1 v2 x with
    | PickFirst => p1
    | PickSecond => p2
    | PickT t => mkV3 (wx p1 + t * (wx p2 - wx p1)) (wy p1 + t * (wy p2 - wy p1)) (wz p1 + t * (wz p2 - wz p1))
    end.
  Definition ms_interpolate (p1 p2 : V2) (v1 v2 x : T) : V2 :=
    match interp_pick v1 v2 x with
    | PickFirst => p1
    | PickSecond => p2
    | PickT t => mkV2 (vx p1 + t * (vx p2 - vx p1)) (vy p1 + t * (vy p2 - vy p1))
    end.

  (* Vec.Equals, Triangle3.Degenerate, Line2.Degenerate *)
  Definition v3_equals (a b : V3) (tol : T) : bool :=
    (oabs O (wx a - wx b) <=? tol) && (oabs O (wy a - wy b) <=? tol) && (oabs O (wz a - wz b) <=? tol).
  Definition v2_equals (a b : V2) (tol : T) : bool :=
    (oabs O (vx a - vx b) <=? tol) && (oabs O (vy a - vy b) <=? tol).
  Definition tri3_degenerate (t : V3 * V3 * V3) (tol : T) : bool :=
    let '(t0, t1, t2) := t in
    if v3_equals t0 t1 tol then true else if v3_equals t1 t2 tol then true else if v3_equals t2 t0 tol then true else false.
  Definition line2_degenerate (l : V2 * V2) (tol : T) : bool := v2_equals (fst l) (snd l) tol.

  (* mcToTriangles: p, v are the eight corners / values (as functions of the corner number) *)
  Definition mc_index (v : N -> T) (x : T) : N :=
    cfg_of_bools (v 0%N <? x) (v 1%N <? x) (v 2%N <? x) (v 3%N <? x) (v 4%N <? x) (v 5%N <? x) (v 6%N <? x) (v 7%N <? x).
  Definition mc_point (p : N -> V3) (v : N -> T) (x : T) (index : N) (i : N) : V3 :=
    if N.testbit (edge_mask index) i
    then let '(a, b) := pair_of i in mc_interpolate (p a) (p b) (v a) (v b) x
    else v3zero.
  Definition mc_to_triangles (p : N -> V3) (v : N -> T) (x : T) : list (V3 * V3 * V3) :=
    let index := mc_index v x in
    if (edge_mask index =? 0)%N then []
    else
      let pts := mc_point p v x index in
      filter (fun t => negb (tri3_degenerate t mc_tol))
             (map (fun t : N * N * N => let '(a, b, c) := t in (pts a, pts b, pts c)) (local_tris index)).

  (* msToLines *)
  Definition ms_index (v : N -> T) (x : T) : N :=
    sq_of_bools (v 0%N <? x) (v 1%N <? x) (v 2%N <? x) (v 3%N <? x).
  Definition ms_point (p : N -> V2) (v : N -> T) (x : T) (index : N) (i : N) : V2 :=
    if N.testbit (sq_edge_mask index) i
    then let '(a, b) := sq_pair_of i in ms_interpolate (p a) (p b) (v a) (v b) x
    else v2zero.
  Definition ms_to_lines (p : N -> V2) (v : N -> T) (x : T) : list (V2 * V2) :=
    let index := ms_index v x in
    if (sq_edge_mask index =? 0)%N then []
    else
      let pts := ms_point p v x index in
      filter (fun l => negb (line2_degenerate l ms_tol))
             (map (fun l : N * N => let '(a, b) := l in (pts a, pts b)) (local_lines index)).
End Model.

(* ------------------------------------------------------------------ theorems over the reals *)
Open Scope R_scope.

Ltac rsimp := cbn [T ROps oadd osub omul odiv oneg oabs osqrt oltb oleb oeqb o0 o1 ofZ] in *.

Lemma eps_pos : 0 < @eps ROps.
Proof.
  unfold eps, cst. rsimp. apply Rdiv_lt_0_compat; apply IZR_lt; vm_compute; reflexivity.
Qed.

(* a sign-changing edge: exactly one end is "inside" (v < x) *)
Definition straddles (v1 v2 x : R) : Prop := (v1 < x /\ x <= v2) \/ (v2 < x /\ x <= v1).

Definition lerp (a b t : R) : R := a + t * (b - a).

(* which parameter the code uses *)
Definition interp_t (v1 v2 x : R) : R :=
  match @interp_pick ROps v1 v2 x with PickFirst => 0 | PickSecond => 1 | PickT t => t end.

Lemma mc_interpolate_lerp p1 p2 v1 v2 x :
  @mc_interpolate ROps p1 p2 v1 v2 x =
  mkV3 (lerp (wx p1) (wx p2) (interp_t v1 v2 x)) (lerp (wy p1) (wy p2) (interp_t v1 v2 x)) (lerp (wz p1) (wz p2) (interp_t v1 v2 x)).
Proof.
  unfold mc_interpolate, interp_t, lerp. destruct (interp_pick v1 v2 x); destruct p1, p2; simpl; rsimp; f_equal; ring.
Qed.
Lemma ms_interpolate_lerp p1 p2 v1 v2 x :
  @ms_interpolate ROps p1 p2 v1 v2 x =
  mkV2 (lerp (vx p1) (vx p2) (interp_t v1 v2 x)) (lerp (vy p1) (vy p2) (interp_t v1 v2 x)).
Proof.
  unfold ms_interpolate, interp_t, lerp. destruct (interp_pick v1 v2 x); destruct p1, p2; simpl; rsimp; f_equal; ring.
Qed.

Lemma half_R : @half ROps = 1 / 2.
Proof. unfold half, two. rsimp. lra. Qed.

(* t lies in [0,1]: the vertex is on the lattice edge *)
Lemma interp_t_range v1 v2 x : straddles v1 v2 x -> 0 <= interp_t v1 v2 x <= 1.
Proof.
  intros S. unfold interp_t, interp_pick. rsimp.
  destruct (Rltb (Rabs (x - v1)) eps && negb (Rltb (Rabs (x - v2)) eps)); [lra|].
  destruct (Rltb (Rabs (x - v2)) eps && negb (Rltb (Rabs (x - v1)) eps)); [lra|].
  destruct (Rltb (Rabs (x - v1)) eps && Rltb (Rabs (x - v2)) eps); [rewrite half_R; lra|].
  destruct S as [[A B]|[A B]].
  - assert (D : 0 < v2 - v1) by lra. split.
    + apply Rmult_le_pos; [lra | left; now apply Rinv_0_lt_compat].
    + apply (Rmult_le_reg_r (v2 - v1)); [exact D|]. unfold Rdiv. rewrite Rmult_assoc, Rinv_l by lra. lra.
  - assert (D : v2 - v1 < 0) by lra.
    replace ((x - v1) / (v2 - v1)) with ((v1 - x) / (v1 - v2)) by (field; lra). split.
    + apply Rmult_le_pos; [lra | left; apply Rinv_0_lt_compat; lra].
    + apply (Rmult_le_reg_r (v1 - v2)); [lra|]. unfold Rdiv. rewrite Rmult_assoc, Rinv_l by lra. lra.
Qed.

(* the linear interpolant of the two values at that parameter is within epsilon of the level,
   and exactly the level when no snapping applies: exact for straight / planar boundaries *)
Lemma interp_t_value v1 v2 x : straddles v1 v2 x ->
  Rabs (lerp v1 v2 (interp_t v1 v2 x) - x) < eps.
Proof.
  intros S. pose proof eps_pos as E. unfold interp_t, interp_pick, lerp. rsimp.
  destruct (Rltb (Rabs (x - v1)) eps) eqn:C1; [apply Rltb_true in C1 | apply Rltb_false in C1];
  (destruct (Rltb (Rabs (x - v2)) eps) eqn:C2; [apply Rltb_true in C2 | apply Rltb_false in C2]); cbn [andb negb].
  - rewrite half_R. replace (v1 + 1 / 2 * (v2 - v1) - x) with (- ((x - v1) / 2 + (x - v2) / 2)) by field.
    rewrite Rabs_Ropp. eapply Rle_lt_trans; [apply Rabs_triang|].
    unfold Rdiv. rewrite !Rabs_mult, (Rabs_pos_eq (/ 2)) by lra. lra.
  - replace (v1 + 0 * (v2 - v1) - x) with (- (x - v1)) by ring. now rewrite Rabs_Ropp.
  - replace (v1 + 1 * (v2 - v1) - x) with (- (x - v2)) by ring. now rewrite Rabs_Ropp.
  - assert (D : v2 - v1 <> 0) by (destruct S; lra).
    replace (v1 + (x - v1) / (v2 - v1) * (v2 - v1) - x) with 0 by (field; exact D). now rewrite Rabs_R0.
Qed.
Lemma interp_t_exact v1 v2 x : v1 <> v2 -> eps <= Rabs (x - v1) -> eps <= Rabs (x - v2) ->
  lerp v1 v2 (interp_t v1 v2 x) = x.
Proof.
  intros D C1 C2. unfold interp_t, interp_pick, lerp. rsimp.
  apply Rltb_false in C1, C2. rewrite C1, C2. cbn [andb negb]. field. lra.
Qed.

(* symmetry: the crossing computed from either end of the edge is the same point *)
Lemma interp_t_sym v1 v2 x : v1 <> v2 -> interp_t v2 v1 x = 1 - interp_t v1 v2 x.
Proof.
  intros D. unfold interp_t, interp_pick. rsimp.
  destruct (Rltb (Rabs (x - v1)) eps), (Rltb (Rabs (x - v2)) eps); cbn [andb negb]; try rewrite half_R; try lra.
  field. split; lra.
Qed.
Lemma lerp_sym a b t : lerp b a (1 - t) = lerp a b t.
Proof. unfold lerp. ring. Qed.

Theorem mc_interp_symmetric p1 p2 v1 v2 x : v1 <> v2 ->
  @mc_interpolate ROps p2 p1 v2 v1 x = @mc_interpolate ROps p1 p2 v1 v2 x.
Proof. intros D. rewrite !mc_interpolate_lerp, (interp_t_sym v1 v2 x D), !lerp_sym. reflexivity. Qed.
Theorem ms_interp_symmetric p1 p2 v1 v2 x : v1 <> v2 ->
  @ms_interpolate ROps p2 p1 v2 v1 x = @ms_interpolate ROps p1 p2 v1 v2 x.
Proof. intros D. rewrite !ms_interpolate_lerp, (interp_t_sym v1 v2 x D), !lerp_sym. reflexivity. Qed.

Theorem mc_interp_on_edge p1 p2 v1 v2 x : straddles v1 v2 x ->
  exists t, 0 <= t <= 1 /\ Rabs (lerp v1 v2 t - x) < eps /\
    @mc_interpolate ROps p1 p2 v1 v2 x = mkV3 (lerp (wx p1) (wx p2) t) (lerp (wy p1) (wy p2) t) (lerp (wz p1) (wz p2) t).
Proof.
  intros S. exists (interp_t v1 v2 x). split; [now apply interp_t_range|]. split; [now apply interp_t_value|].
  apply mc_interpolate_lerp.
Qed.
Theorem ms_interp_on_edge p1 p2 v1 v2 x : straddles v1 v2 x ->
  exists t, 0 <= t <= 1 /\ Rabs (lerp v1 v2 t - x) < eps /\
    @ms_interpolate ROps p1 p2 v1 v2 x = mkV2 (lerp (vx p1) (vx p2) t) (lerp (vy p1) (vy p2) t).
Proof.
  intros S. exists (interp_t v1 v2 x). split; [now apply interp_t_range|]. split; [now apply interp_t_value|].
  apply ms_interpolate_lerp.
Qed.

(* ---- Degenerate(0) at the reals is "two vertices are the same point" *)
Lemma tol_zero : @mc_tol ROps = 0 /\ @ms_tol ROps = 0.
Proof. unfold mc_tol, ms_tol. rsimp. split; reflexivity. Qed.

Definition v3_eqbR (a b : V3 ROps) : bool := Reqb (wx a) (wx b) && Reqb (wy a) (wy b) && Reqb (wz a) (wz b).
Definition v2_eqbR (a b : V2 ROps) : bool := Reqb (vx a) (vx b) && Reqb (vy a) (vy b).
Lemma v3_eqbR_ok a b : v3_eqbR a b = true <-> a = b.
Proof.
  destruct a, b; unfold v3_eqbR; simpl. rewrite !andb_true_iff, !Reqb_true.
  split; [intros [[-> ->] ->]; reflexivity | intros [= -> -> ->]; auto].
Qed.
Lemma v2_eqbR_ok a b : v2_eqbR a b = true <-> a = b.
Proof.
  destruct a, b; unfold v2_eqbR; simpl. rewrite !andb_true_iff, !Reqb_true.
  split; [intros [-> ->]; reflexivity | intros [= -> ->]; auto].
Qed.
Lemma Rleb_abs0 a b : Rleb (Rabs (a - b)) 0 = Reqb a b.
Proof.
  destruct (Reqb a b) eqn:E; [apply Reqb_true in E | apply Reqb_false in E].
  - subst. apply Rleb_true. rewrite Rminus_diag_eq, Rabs_R0 by reflexivity. lra.
  - apply Rleb_false. apply Rabs_pos_lt. lra.
Qed.
Lemma v3_equals_zero a b : @v3_equals ROps a b 0 = v3_eqbR a b.
Proof. unfold v3_equals, v3_eqbR. rsimp. now rewrite !Rleb_abs0. Qed.
Lemma v2_equals_zero a b : @v2_equals ROps a b 0 = v2_eqbR a b.
Proof. unfold v2_equals, v2_eqbR. rsimp. now rewrite !Rleb_abs0. Qed.

(* ---- orientation: from the face rule to the triangle normal *)
Definition subR (a b : R * R * R) : R * R * R :=
  let '(ax, ay, az) := a in let '(bx, by_, bz) := b in (ax - bx, ay - by_, az - bz).
Definition dotR (a b : R * R * R) : R :=
  let '(ax, ay, az) := a in let '(bx, by_, bz) := b in ax * bx + ay * by_ + az * bz.
Definition crossR (a b : R * R * R) : R * R * R :=
  let '(ax, ay, az) := a in let '(bx, by_, bz) := b in (ay * bz - az * by_, az * bx - ax * bz, ax * by_ - ay * bx).

Lemma binet_cauchy d e n : dotR (crossR d e) (crossR d n) = dotR d d * dotR e n - dotR d n * dotR e d.
Proof. destruct d as [[dx dy] dz], e as [[ex ey] ez], n as [[nx ny] nz]. unfold dotR, crossR. ring. Qed.

Lemma orientation_normal (a b c n : R * R * R) :
  dotR (subR b a) n = 0 -> dotR (subR c a) n < 0 -> subR b a <> (0, 0, 0) ->
  dotR (crossR (subR b a) (subR c a)) (crossR (subR b a) n) < 0.
Proof.
  intros Hn Hc Hd. rewrite binet_cauchy, Hn.
  assert (P : 0 < dotR (subR b a) (subR b a)).
  { destruct (subR b a) as [[dx dy] dz]. unfold dotR.
    destruct (Req_dec dx 0) as [->|Nx]; [destruct (Req_dec dy 0) as [->|Ny]; [destruct (Req_dec dz 0) as [->|Nz]; [congruence|]|]|]; nra. }
  nra.
Qed.

(* ---- straight boundaries: for a field that is affine along the lattice edge the end point is the
   exact zero crossing (within epsilon when a snapping branch applies) *)
Theorem ms_interp_line_exact (p1 p2 : V2 ROps) (v1 v2 x : R) (f : V2 ROps -> R) :
  (forall t, f (mkV2 (lerp (vx p1) (vx p2) t) (lerp (vy p1) (vy p2) t)) = lerp v1 v2 t) ->
  straddles v1 v2 x ->
  Rabs (f (@ms_interpolate ROps p1 p2 v1 v2 x) - x) < eps /\
  (eps <= Rabs (x - v1) -> eps <= Rabs (x - v2) -> f (@ms_interpolate ROps p1 p2 v1 v2 x) = x).
Proof.
  intros Haff S. rewrite ms_interpolate_lerp, Haff. split.
  - now apply interp_t_value.
  - intros C1 C2. apply interp_t_exact; [destruct S; lra | assumption | assumption].
Qed.
Theorem mc_interp_plane_exact (p1 p2 : V3 ROps) (v1 v2 x : R) (f : V3 ROps -> R) :
  (forall t, f (mkV3 (lerp (wx p1) (wx p2) t) (lerp (wy p1) (wy p2) t) (lerp (wz p1) (wz p2) t)) = lerp v1 v2 t) ->
  straddles v1 v2 x ->
  Rabs (f (@mc_interpolate ROps p1 p2 v1 v2 x) - x) < eps /\
  (eps <= Rabs (x - v1) -> eps <= Rabs (x - v2) -> f (@mc_interpolate ROps p1 p2 v1 v2 x) = x).
Proof.
  intros Haff S. rewrite mc_interpolate_lerp, Haff. split.
  - now apply interp_t_value.
  - intros C1 C2. apply interp_t_exact; [destruct S; lra | assumption | assumption].
Qed.
