(* Correspondence for C05 / C08: the FOps instance of Render/Interp.v (mcInterpolate, mcToTriangles,
   msInterpolate, msToLines incl. Degenerate) against what the Go code returned through the hooks,
   bit for bit; and the abstract lattice mesh of Render/Lattice.v (with the snapping identification
   and the removal of vertex-coincident triangles) against whole renders of lattice-lookup fields
   by the real uniform / octree / quadtree renderers. *)
From Coq Require Import List ZArith NArith Floats Bool.
From Sdfx Require Import Num.Ops.
From Sdfx Require Import Num.FInst.
From Sdfx Require Import Geo.Vec.
From Sdfx Require Import Generated.MarchTables.
From Sdfx Require Import Render.Balance.
From Sdfx Require Import Render.MC.
From Sdfx Require Import Render.MS.
From Sdfx Require Import Render.Lattice.
From Sdfx Require Import Render.Interp.
Import ListNotations.

Definition f3 := (float * float * float)%type.
Definition f2 := (float * float)%type.
Definition v3of (p : f3) : V3 FOps := let '(x, y, z) := p in mkV3 x y z.
Definition v2of (p : f2) : V2 FOps := let '(x, y) := p in mkV2 x y.

Definition same3 (a : V3 FOps) (g : f3) : bool := let '(x, y, z) := g in fsame (wx a) x && fsame (wy a) y && fsame (wz a) z.
Definition close3 (a : V3 FOps) (g : f3) : bool := let '(x, y, z) := g in fclose (wx a) x && fclose (wy a) y && fclose (wz a) z.
Definition same2 (a : V2 FOps) (g : f2) : bool := let '(x, y) := g in fsame (vx a) x && fsame (vy a) y.
Definition close2 (a : V2 FOps) (g : f2) : bool := let '(x, y) := g in fclose (vx a) x && fclose (vy a) y.

Fixpoint all2 {A B} (f : A -> B -> bool) (l : list A) (m : list B) : bool :=
  match l, m with
  | [], [] => true
  | a :: l', b :: m' => f a b && all2 f l' m'
  | _, _ => false
  end.

(* the constants the model uses are the float64 values the compiler stores *)
Definition consts_ok : bool :=
  fsame (@eps FOps) epsilon_f && fsame (@mc_tol FOps) mcDegenerateTol_f && fsame (@ms_tol FOps) msDegenerateTol_f.

(* ---- interpolation cases: id, p1, p2, v1, v2, x, go result *)
Definition icase3 := (N * f3 * f3 * float * float * float * f3)%type.
Definition iok3 (c : icase3) : bool * bool :=
  let '(id, p1, p2, v1, v2, x, g) := c in
  let m := @mc_interpolate FOps (v3of p1) (v3of p2) v1 v2 x in (consts_ok && close3 m g, same3 m g).
Definition iid3 (c : icase3) : N := let '(id, _, _, _, _, _, _) := c in id.
Definition imismatches3 (cs : list icase3) : list N := map iid3 (filter (fun c => negb (fst (iok3 c))) cs).
Definition iinexact3 (cs : list icase3) : list N := map iid3 (filter (fun c => negb (snd (iok3 c))) cs).

Definition icase2 := (N * f2 * f2 * float * float * float * f2)%type.
Definition iok2 (c : icase2) : bool * bool :=
  let '(id, p1, p2, v1, v2, x, g) := c in
  let m := @ms_interpolate FOps (v2of p1) (v2of p2) v1 v2 x in (consts_ok && close2 m g, same2 m g).
Definition iid2 (c : icase2) : N := let '(id, _, _, _, _, _, _) := c in id.
Definition imismatches2 (cs : list icase2) : list N := map iid2 (filter (fun c => negb (fst (iok2 c))) cs).
Definition iinexact2 (cs : list icase2) : list N := map iid2 (filter (fun c => negb (snd (iok2 c))) cs).

(* ---- cell cases: id, (x0,y0,z0), (x1,y1,z1), the eight values, x, go triangles *)
Definition corners3 (lo hi : f3) (c : N) : V3 FOps :=
  let '(x0, y0, z0) := lo in let '(x1, y1, z1) := hi in
  let '(i, j, k) := corner_off c in
  mkV3 (if (i =? 0)%Z then x0 else x1) (if (j =? 0)%Z then y0 else y1) (if (k =? 0)%Z then z0 else z1).
Definition nthf (l : list float) (c : N) : float := nth (N.to_nat c) l 0%float.

Definition ccase3 := (N * f3 * f3 * list float * float * list (f3 * f3 * f3))%type.
Definition tri_rel (r : V3 FOps -> f3 -> bool) (m : V3 FOps * V3 FOps * V3 FOps) (g : f3 * f3 * f3) : bool :=
  let '(a, b, c) := m in let '(ga, gb, gc) := g in r a ga && r b gb && r c gc.
Definition cok3 (c : ccase3) : bool * bool :=
  let '(id, lo, hi, vs, x, g) := c in
  let m := @mc_to_triangles FOps (corners3 lo hi) (nthf vs) x in
  (consts_ok && all2 (tri_rel close3) m g, all2 (tri_rel same3) m g).
Definition cid3 (c : ccase3) : N := let '(id, _, _, _, _, _) := c in id.
Definition cmismatches3 (cs : list ccase3) : list N := map cid3 (filter (fun c => negb (fst (cok3 c))) cs).
Definition cinexact3 (cs : list ccase3) : list N := map cid3 (filter (fun c => negb (snd (cok3 c))) cs).

Definition corners2 (lo hi : f2) (c : N) : V2 FOps :=
  let '(x0, y0) := lo in let '(x1, y1) := hi in
  let '(i, j) := sq_corner_off c in
  mkV2 (if (i =? 0)%Z then x0 else x1) (if (j =? 0)%Z then y0 else y1).
Definition ccase2 := (N * f2 * f2 * list float * float * list (f2 * f2))%type.
(* the direction of a 2D segment is not an observable of the property: either orientation agrees *)
Definition seg_rel (r : V2 FOps -> f2 -> bool) (m : V2 FOps * V2 FOps) (g : f2 * f2) : bool :=
  (r (fst m) (fst g) && r (snd m) (snd g)) || (r (fst m) (snd g) && r (snd m) (fst g)).
Definition cok2 (c : ccase2) : bool * bool :=
  let '(id, lo, hi, vs, x, g) := c in
  let m := @ms_to_lines FOps (corners2 lo hi) (nthf vs) x in
  (consts_ok && all2 (seg_rel close2) m g, all2 (seg_rel same2) m g).
Definition cid2 (c : ccase2) : N := let '(id, _, _, _, _, _) := c in id.
Definition cmismatches2 (cs : list ccase2) : list N := map cid2 (filter (fun c => negb (fst (cok2 c))) cs).
Definition cinexact2 (cs : list ccase2) : list N := map cid2 (filter (fun c => negb (snd (cok2 c))) cs).

(* ---- whole lattices (abstract): the observed triangles of a real render, each vertex named by the
   lattice edge it lies on ((x,y,z),axis) or, when it sits on a lattice point, ((x,y,z),3).
   signs / closes are indexed (x*(ny+1)+y)*(nz+1)+z. *)
Definition tab3 (ny nz : nat) (t : list bool) (q : pt) : bool :=
  let '(x, y, z) := q in
  if (x <? 0)%Z || (y <? 0)%Z || (z <? 0)%Z then false
  else nth (Z.to_nat ((x * (Z.of_nat ny + 1) + y) * (Z.of_nat nz + 1) + z)) t false.
(* the snapping branches of mcInterpolate: close to exactly one end -> that lattice point *)
Definition snap3 (close : pt -> bool) (v : gv) : gv :=
  let q := fst v in let q' := addp q (unit (snd v)) in
  if close q && negb (close q') then (q, 3%Z)
  else if close q' && negb (close q) then (q', 3%Z)
  else v.
Definition lattice_mesh3 (nx ny nz : nat) (signs closes : list bool) : list (gv * gv * gv) :=
  filter (fun t => negb (degenerate gv_eqb t))
         (map (mapT (snap3 (tab3 ny nz closes))) (mesh nx ny nz (tab3 ny nz signs))).
Definition tri_eqb (s t : gv * gv * gv) : bool :=
  let '(a, b, c) := s in let '(a', b', c') := t in gv_eqb a a' && gv_eqb b b' && gv_eqb c c'.
Definition msame {A} (eqb : A -> A -> bool) (l m : list A) : bool :=
  (length l =? length m)%nat && forallb (fun t => (length (filter (eqb t) l) =? length (filter (eqb t) m))%nat) l.

Definition lcase3 := (N * (nat * nat * nat) * list bool * list bool * list (gv * gv * gv))%type.
Definition lok3 (c : lcase3) : bool :=
  let '(id, (nx, ny, nz), signs, closes, g) := c in msame tri_eqb (lattice_mesh3 nx ny nz signs closes) g.
Definition lmismatches3 (cs : list lcase3) : list N :=
  map (fun c : lcase3 => let '(id, _, _, _, _) := c in id) (filter (fun c => negb (lok3 c)) cs).

Definition tab2 (ny : nat) (t : list bool) (q : pt2) : bool :=
  let '(x, y) := q in
  if (x <? 0)%Z || (y <? 0)%Z then false else nth (Z.to_nat (x * (Z.of_nat ny + 1) + y)) t false.
Definition snap2 (close : pt2 -> bool) (v : gv2) : gv2 :=
  let q := fst v in let q' := addp2 q (unit2 (snd v)) in
  if close q && negb (close q') then (q, 3%Z)
  else if close q' && negb (close q) then (q', 3%Z)
  else v.
Definition lattice_mesh2 (nx ny : nat) (signs closes : list bool) : list (gv2 * gv2) :=
  filter (fun s => negb (zero_length gv2_eqb s))
         (map (@mapE gv2 gv2 (snap2 (tab2 ny closes))) (mesh2 nx ny (tab2 ny signs))).
Definition seg_eqb (s t : gv2 * gv2) : bool :=
  (gv2_eqb (fst s) (fst t) && gv2_eqb (snd s) (snd t)) || (gv2_eqb (fst s) (snd t) && gv2_eqb (snd s) (fst t)).
Definition lcase2 := (N * (nat * nat) * list bool * list bool * list (gv2 * gv2))%type.
Definition lok2 (c : lcase2) : bool :=
  let '(id, (nx, ny), signs, closes, g) := c in msame seg_eqb (lattice_mesh2 nx ny signs closes) g.
Definition lmismatches2 (cs : list lcase2) : list N :=
  map (fun c : lcase2 => let '(id, _, _, _, _) := c in id) (filter (fun c => negb (lok2 c)) cs).
