(* Lattice arithmetic of the uniform marching-cubes renderer (render/march3.go), over Ops:
     MarchingCubesUniform.Render   the sampled (padded) box and the step
     marchingCubes                 steps = ceil(size/step), inc = size/steps, the cube walk with the
                                   accumulated corner coordinates (p.X += dx ...)
     layerYZ.Evaluate / Get        the two-layer cache: evaluation points base.X + x*dx, accumulated
                                   p.Y, p.Z; index y*(nz+1)+z
   (the batched parallel evaluation of a layer returns  map f points  whatever the schedule:
   Sys/Sched.v, C09) and, over the reals:
     cell_values_paired            the eight values of every cell are f at its eight corner points
     marching_cubes_is_meshR       hence the walk is LatticeR.meshR of the lattice  base + (i,j,k)*inc
     sample boxes                  padding of the uniform renderer, 1.01 scaling + levels of the octree *)
From Coq Require Import List ZArith NArith Bool Reals Lra Lia.
From Sdfx Require Import Num.Ops Num.RInst Geo.Vec Geo.Box Geo.NormR Generated.MarchTables
  Render.MC Render.MS Render.Lattice Render.Interp Render.LatticeR Render.Octree.
Import OpsNotations ListNotations.
Local Open Scope ops_scope.

Section Uniform.
  Context {O : Ops}.
  Notation T := (T O).
  Notation V3 := (V3 O).

  Definition v3ceil (a : V3) : V3 := mkV3 (oceil O (wx a)) (oceil O (wy a)) (oceil O (wz a)).
  Definition v3toZ (a : V3) : pt := (otoZ O (wx a), otoZ O (wy a), otoZ O (wz a)).       (* conv.V3ToV3i *)
  Definition v3ofZ (p : pt) : V3 := let '(i, j, k) := p in mkV3 (ofZ O i) (ofZ O j) (ofZ O k).  (* conv.V3iToV3 *)
  Definition v3divscalar (a : V3) (b : T) : V3 := v3muls a (o1 O / b).                    (* a.MulScalar(1 / b) *)

  Record lattice3 := mkLat3 { lbase : V3; linc : V3; lsteps : pt }.
  Definition lnx (L : lattice3) : nat := Z.to_nat (fst (fst (lsteps L))).
  Definition lny (L : lattice3) : nat := Z.to_nat (snd (fst (lsteps L))).
  Definition lnz (L : lattice3) : nat := Z.to_nat (snd (lsteps L)).

  (* marchingCubes: size, base, steps, inc *)
  Definition mc_lattice (box : Box3 O) (step : T) : lattice3 :=
    let size := box3_size box in
    let steps := v3toZ (v3ceil (v3divscalar size step)) in
    mkLat3 (b3min box) (v3div size (v3ofZ steps)) steps.

  (* MarchingCubesUniform.Render: the region sampled and the step *)
  Definition mcu_box (bb0 : Box3 O) (meshCells : Z) : Box3 O * T :=
    let bb0Size := box3_size bb0 in
    let meshInc := v3maxcomp bb0Size / ofZ O meshCells in
    let bb1Size := v3divscalar bb0Size meshInc in
    let bb1Size := v3adds (v3ceil bb1Size) (o1 O) in
    let bb1Size := v3muls bb1Size meshInc in
    (newbox3 (box3_center bb0) bb1Size, meshInc).
  Definition mcu_lattice (bb0 : Box3 O) (meshCells : Z) : lattice3 :=
    let '(bb, inc) := mcu_box bb0 meshCells in mc_lattice bb inc.

  (* MarchingCubesOctree.Render / marchingCubesOctree: origin and (half) resolution *)
  Definition mco_lattice (bb0 : Box3 O) (meshCells : Z) : V3 * T * T :=
    let resolution := v3maxcomp (box3_size bb0) / ofZ O meshCells in
    let bb := box3_scale_about_center bb0 (cst 101 100) in
    let longAxis := v3maxcomp (box3_size bb) in
    (b3min bb, half * resolution, longAxis).

  (* p += d, n times *)
  Fixpoint acc (b d : T) (n : nat) : T := match n with 0%nat => b | S k => acc b d k + d end.
  Definition natT (n : nat) : T := ofZ O (Z.of_nat n).

  Section Walk.
    Variable L : lattice3.
    Variable f : V3 -> T.

    (* the points of layer x in the order layerYZ.Evaluate appends them *)
    Definition layer_points (x : nat) : list V3 :=
      flat_map (fun y => map (fun z => mkV3 (wx (lbase L) + natT x * wx (linc L))
                                            (acc (wy (lbase L)) (wy (linc L)) y)
                                            (acc (wz (lbase L)) (wz (linc L)) z))
                             (seq 0 (S (lnz L))))
               (seq 0 (S (lny L))).
    Definition layer (x : nat) : list T := map f (layer_points x).
    (* layerYZ.Get: idx := y*(l.steps.Z+1) + z *)
    Definition lget (v : list T) (y z : nat) : T := nth (y * S (lnz L) + z) v (o0 O).

    Definition cell_corners (x y z : nat) : N -> V3 :=
      let x0 := acc (wx (lbase L)) (wx (linc L)) x in
      let y0 := acc (wy (lbase L)) (wy (linc L)) y in
      let z0 := acc (wz (lbase L)) (wz (linc L)) z in
      let x1 := x0 + wx (linc L) in let y1 := y0 + wy (linc L) in let z1 := z0 + wz (linc L) in
      sel8 (mkV3 x0 y0 z0) (mkV3 x1 y0 z0) (mkV3 x1 y1 z0) (mkV3 x0 y1 z0)
           (mkV3 x0 y0 z1) (mkV3 x1 y0 z1) (mkV3 x1 y1 z1) (mkV3 x0 y1 z1).
    Definition cell_values (v0 v1 : list T) (y z : nat) : N -> T :=
      sel8 (lget v0 y z) (lget v1 y z) (lget v1 (S y) z) (lget v0 (S y) z)
           (lget v0 y (S z)) (lget v1 y (S z)) (lget v1 (S y) (S z)) (lget v0 (S y) (S z)).
    Definition mc_cell (v0 v1 : list T) (x y z : nat) : list (V3 * V3 * V3) :=
      mc_to_triangles (cell_corners x y z) (cell_values v0 v1 y z) (o0 O).
    Definition mc_slab (v0 v1 : list T) (x : nat) : list (V3 * V3 * V3) :=
      flat_map (fun y => flat_map (fun z => mc_cell v0 v1 x y z) (seq 0 (lnz L))) (seq 0 (lny L)).
    (* for x := 0; x < nx; x++ { l.Evaluate(s, x+1) (swaps val0/val1); cubes of layers x, x+1 } *)
    Fixpoint mc_loop (xs : list nat) (v0 v1 : list T) : list (V3 * V3 * V3) :=
      match xs with
      | [] => []
      | x :: r => let v0' := v1 in let v1' := layer (S x) in mc_slab v0' v1' x ++ mc_loop r v0' v1'
      end.
    Definition marching_cubes : list (V3 * V3 * V3) := mc_loop (seq 0 (lnx L)) [] (layer 0).
  End Walk.
End Uniform.

Arguments lattice3 : clear implicits.

(* ================================================================== over the reals *)
Open Scope R_scope.

Lemma Int_part_unique z r : IZR z <= r < IZR z + 1 -> Int_part r = z.
Proof. intros [H1 H2]. unfold Int_part. rewrite <- (up_tech r z H1); [lia|]. rewrite plus_IZR. exact H2. Qed.
Lemma Int_part_IZR z : Int_part (IZR z) = z.
Proof. apply Int_part_unique. lra. Qed.
Lemma Rceil_ge x : x <= Rceil x.
Proof. unfold Rceil. destruct (base_Int_part (- x)). lra. Qed.
Lemma Rceil_lt x : Rceil x < x + 1.
Proof. unfold Rceil. destruct (base_Int_part (- x)). lra. Qed.
Lemma Rceil_IZR x : exists k, Rceil x = IZR k.
Proof. exists (- Int_part (- x))%Z. unfold Rceil. now rewrite opp_IZR. Qed.
Lemma Rtrunc_IZR z : Rtrunc (IZR z) = z.
Proof.
  unfold Rtrunc. destruct (Rle_dec 0 (IZR z)); [apply Int_part_IZR|].
  rewrite <- opp_IZR, Int_part_IZR. lia.
Qed.
(* int(math.Ceil(t)) for t > 0 is an integer k >= 1 with k - 1 < t <= k *)
Lemma steps_spec t : 0 < t -> let k := Rtrunc (Rceil t) in (1 <= k)%Z /\ IZR k - 1 < t <= IZR k.
Proof.
  intros Ht. cbv zeta. destruct (Rceil_IZR t) as [k E]. rewrite E, Rtrunc_IZR.
  pose proof (Rceil_ge t) as G. pose proof (Rceil_lt t) as U. rewrite E in G, U.
  split; [|lra]. assert (0 < IZR k) by lra. apply lt_IZR in H. lia.
Qed.

Lemma ceil_scale s inc : 0 < inc -> s <= Rceil (s * (1 / inc)) * inc.
Proof.
  intros H. replace s with (s * (1 / inc) * inc) at 1 by (field; lra).
  apply Rmult_le_compat_r; [lra | apply Rceil_ge].
Qed.
Lemma acc_R b d n : @acc ROps b d n = b + INR n * d.
Proof. induction n as [|n IH]; [cbn; lra|]. cbn [acc]. rewrite IH, S_INR. rsimp. lra. Qed.
Lemma natT_R n : @natT ROps n = INR n.
Proof. unfold natT. rsimp. now rewrite INR_IZR_INZ. Qed.

Lemma nth_blocks {A} (F : nat -> list A) w (l : list nat) y z d :
  (forall i, length (F i) = w) -> (y < length l)%nat -> (z < w)%nat ->
  nth (y * w + z) (flat_map F l) d = nth z (F (nth y l 0%nat)) d.
Proof.
  intros HF. revert y. induction l as [|a l IH]; intros y Hy Hz; [cbn in Hy; lia|].
  cbn [flat_map]. destruct y as [|y].
  - cbn [Nat.mul Nat.add nth]. apply app_nth1. now rewrite HF.
  - cbn [nth]. rewrite app_nth2 by (rewrite HF; nia). rewrite HF.
    replace (S y * w + z - w)%nat with (y * w + z)%nat by nia. apply IH; [cbn in Hy; lia | exact Hz].
Qed.

Lemma map_flat_map {A B C} (h : B -> C) (g : A -> list B) l : map h (flat_map g l) = flat_map (fun a => map h (g a)) l.
Proof. induction l as [|a l IH]; [reflexivity|]. cbn [flat_map]. now rewrite map_app, IH. Qed.

Lemma nth_map_seq {A} (g : nat -> A) a n z d : (z < n)%nat -> nth z (map g (seq a n)) d = g (a + z)%nat.
Proof.
  intros H. rewrite (nth_indep _ d (g 0%nat)) by (now rewrite map_length, seq_length).
  rewrite map_nth, seq_nth by exact H. reflexivity.
Qed.

Section WalkR.
  Variable L : lattice3 ROps.
  Variable f : RV3 -> R.

  (* the lattice point (i,j,k) *)
  Definition lpoint (q : pt) : RV3 :=
    let '(i, j, k) := q in
    mkV3 (wx (lbase L) + IZR i * wx (linc L)) (wy (lbase L) + IZR j * wy (linc L)) (wz (lbase L) + IZR k * wz (linc L)).
  Definition lval (q : pt) : R := f (lpoint q).
  Definition npt (x y z : nat) : pt := (Z.of_nat x, Z.of_nat y, Z.of_nat z).

  Lemma lget_layer x y z : (y <= lny L)%nat -> (z <= lnz L)%nat ->
    @lget ROps L (@layer ROps L f x) y z = lval (npt x y z).
  Proof.
    intros Hy Hz. unfold lget, layer, layer_points.
    rewrite map_flat_map.
    rewrite (nth_blocks _ (S (lnz L))); [| intros i; now rewrite !map_length, seq_length | rewrite seq_length; lia | lia].
    rewrite seq_nth by lia. cbn [Nat.add]. rewrite map_map.
    rewrite nth_map_seq by lia. cbn [Nat.add].
    unfold lval, lpoint, npt. rewrite !acc_R, natT_R, <- !INR_IZR_INZ. rsimp. reflexivity.
  Qed.

  (* cell_values_paired: for every cell (x,y,z) of the walk, with val0 / val1 the layers x / x+1, the
     eight corner coordinates are the lattice points (x,y,z) + corner offsets and the eight values
     handed to mcToTriangles are f at exactly those points *)
  Theorem cell_values_paired x y z c : (y < lny L)%nat -> (z < lnz L)%nat ->
    @cell_corners ROps L x y z c = lpoint (addp (npt x y z) (corner_off c)) /\
    @cell_values ROps L (@layer ROps L f x) (@layer ROps L f (S x)) y z c = lval (addp (npt x y z) (corner_off c)).
  Proof.
    intros Hy Hz. split.
    - unfold cell_corners. rewrite !acc_R. unfold lpoint, npt. rsimp.
      destruct c as [|[[[|[]|]|[]|]|[[]|[]|]|]]; cbn [sel8 corner_off addp]; rewrite ?plus_IZR, <- ?INR_IZR_INZ; f_equal; ring.
    - unfold cell_values. rewrite !lget_layer by lia. unfold npt.
      destruct c as [|[[[|[]|]|[]|]|[[]|[]|]|]]; cbn [sel8 corner_off addp]; unfold lval; f_equal; unfold lpoint;
        rewrite ?Nat2Z.inj_succ, ?Z.add_0_r; unfold Z.succ; reflexivity.
  Qed.

  Lemma mc_cell_R x y z : (y < lny L)%nat -> (z < lnz L)%nat ->
    @mc_cell ROps L (@layer ROps L f x) (@layer ROps L f (S x)) x y z =
    @mc_to_triangles ROps (cell_p lpoint (npt x y z)) (cell_v lval (npt x y z)) 0.
  Proof.
    intros Hy Hz. unfold mc_cell. apply mc_to_triangles_ext; intros c.
    - apply (cell_values_paired x y z c Hy Hz).
    - apply (cell_values_paired x y z c Hy Hz).
  Qed.

  Lemma flat_map_ext_in {A B} (g h : A -> list B) l : (forall a, In a l -> g a = h a) -> flat_map g l = flat_map h l.
  Proof.
    induction l as [|a l IH]; intros H; [reflexivity|]. cbn [flat_map]. rewrite (H a (or_introl eq_refl)), IH; [reflexivity|].
    intros b Hb. apply H. now right.
  Qed.
  Lemma flat_map_map {A B C} (g : B -> list C) (h : A -> B) l : flat_map g (map h l) = flat_map (fun a => g (h a)) l.
  Proof. induction l as [|a l IH]; [reflexivity|]. cbn [map flat_map]. now rewrite IH. Qed.

  Lemma mc_loop_R n : forall a v0,
    @mc_loop ROps L f (seq a n) v0 (@layer ROps L f a) =
    flat_map (fun x => @mc_slab ROps L (@layer ROps L f x) (@layer ROps L f (S x)) x) (seq a n).
  Proof.
    induction n as [|n IH]; intros a v0; [reflexivity|]. cbn [seq mc_loop flat_map]. f_equal. apply IH.
  Qed.

  (* the cube walk of marchingCubes is the mesh of the lattice base + (i,j,k)*inc sampled by f *)
  Theorem marching_cubes_is_meshR :
    @marching_cubes ROps L f = meshR lpoint lval 0 (lnx L) (lny L) (lnz L).
  Proof.
    unfold marching_cubes. rewrite mc_loop_R. unfold meshR, cells, cellsZ. rewrite flat_map_map.
    rewrite Octree.flat_map_flat_map. apply flat_map_ext. intros x. unfold mc_slab.
    rewrite flat_map_map, Octree.flat_map_flat_map. apply flat_map_ext_in. intros y Hy. apply in_seq in Hy.
    rewrite !flat_map_map.
    apply flat_map_ext_in. intros z Hz. apply in_seq in Hz.
    apply mc_cell_R; lia.
  Qed.
End WalkR.

(* ------------------------------------------------------------------ boxes *)
Definition ordered3 (b : Box3 ROps) : Prop :=
  wx (b3min b) <= wx (b3max b) /\ wy (b3min b) <= wy (b3max b) /\ wz (b3min b) <= wz (b3max b).
Definition in_box3 (b : Box3 ROps) (q : RV3) : Prop :=
  wx (b3min b) <= wx q <= wx (b3max b) /\ wy (b3min b) <= wy q <= wy (b3max b) /\ wz (b3min b) <= wz q <= wz (b3max b).
(* box a enlarged by pad on every side is inside box b *)
Definition padded_in (a b : Box3 ROps) (pad : R) : Prop :=
  wx (b3min b) <= wx (b3min a) - pad /\ wy (b3min b) <= wy (b3min a) - pad /\ wz (b3min b) <= wz (b3min a) - pad /\
  wx (b3max a) + pad <= wx (b3max b) /\ wy (b3max a) + pad <= wy (b3max b) /\ wz (b3max a) + pad <= wz (b3max b).

Lemma maxcomp_ge (a : RV3) : wx a <= @v3maxcomp ROps a /\ wy a <= @v3maxcomp ROps a /\ wz a <= @v3maxcomp ROps a.
Proof.
  unfold v3maxcomp. cbn [omax ROps].
  pose proof (Rmax_l (Rmax (wx a) (wy a)) (wz a)). pose proof (Rmax_r (Rmax (wx a) (wy a)) (wz a)).
  pose proof (Rmax_l (wx a) (wy a)). pose proof (Rmax_r (wx a) (wy a)). lra.
Qed.

(* sample_box_contains_bbox, uniform renderer: the sampled box contains the bounding box with at
   least half a cell (meshInc / 2) of padding on every side, and its size is a whole number of
   cells of size meshInc per axis *)
Theorem mcu_sample_box_contains_bbox (bb0 : Box3 ROps) (meshCells : Z) :
  ordered3 bb0 -> 0 < @v3maxcomp ROps (box3_size bb0) -> (1 <= meshCells)%Z ->
  let '(bb, inc) := @mcu_box ROps bb0 meshCells in
  0 < inc /\ inc * IZR meshCells = @v3maxcomp ROps (box3_size bb0) /\ padded_in bb0 bb (inc / 2).
Proof.
  intros (Ox & Oy & Oz) Hm Hc. unfold mcu_box. set (sz := box3_size bb0). set (inc := @v3maxcomp ROps sz / IZR meshCells).
  change (@odiv ROps (@v3maxcomp ROps sz) (ofZ ROps meshCells)) with inc. cbv zeta.
  assert (Hmc : 0 < IZR meshCells) by (apply IZR_lt; lia).
  assert (Hinc : 0 < inc) by (unfold inc; apply Rdiv_lt_0_compat; assumption).
  split; [exact Hinc|]. split; [unfold inc; field; lra|].
  unfold padded_in, newbox3, box3_center, v3divscalar, v3muls, v3adds, v3ceil, v3sub, v3add. rewrite half_R. rsimp.
  fold sz. cbn [b3min b3max wx wy wz]. change (oceil ROps) with Rceil.
  assert (Sx : wx sz = wx (b3max bb0) - wx (b3min bb0)) by reflexivity.
  assert (Sy : wy sz = wy (b3max bb0) - wy (b3min bb0)) by reflexivity.
  assert (Sz : wz sz = wz (b3max bb0) - wz (b3min bb0)) by reflexivity.
  pose proof (ceil_scale (wx sz) inc Hinc) as Ex. pose proof (ceil_scale (wy sz) inc Hinc) as Ey.
  pose proof (ceil_scale (wz sz) inc Hinc) as Ez.
  repeat split; lra.
Qed.

(* the lattice of marchingCubes spans its box exactly: steps >= 1 per axis, cells no larger than
   the step, and the last lattice point is box.Max *)
Theorem mc_lattice_spans (box : Box3 ROps) (step : R) :
  wx (b3min box) < wx (b3max box) -> wy (b3min box) < wy (b3max box) -> wz (b3min box) < wz (b3max box) -> 0 < step ->
  let L := @mc_lattice ROps box step in
  let '(nx, ny, nz) := lsteps L in
  (1 <= nx)%Z /\ (1 <= ny)%Z /\ (1 <= nz)%Z /\
  0 < wx (linc L) <= step /\ 0 < wy (linc L) <= step /\ 0 < wz (linc L) <= step /\
  lpoint L (0, 0, 0)%Z = b3min box /\ lpoint L (nx, ny, nz) = b3max box.
Proof.
  intros Hx Hy Hz Hs. cbv zeta. unfold mc_lattice, v3toZ, v3ceil, v3divscalar, v3muls, v3div, v3ofZ, box3_size, v3sub.
  cbn [lsteps lbase linc wx wy wz]. rsimp. change (otoZ ROps) with Rtrunc. change (oceil ROps) with Rceil.
  assert (Q : forall s, 0 < s -> let k := Rtrunc (Rceil (s * (1 / step))) in (1 <= k)%Z /\ 0 < s / IZR k <= step /\ IZR k * (s / IZR k) = s).
  { intros s Hs0. cbv zeta. assert (Ht : 0 < s * (1 / step)) by (apply Rmult_lt_0_compat; [lra | apply Rdiv_lt_0_compat; lra]).
    destruct (steps_spec _ Ht) as [K1 [K2 K3]]. set (k := Rtrunc (Rceil (s * (1 / step)))) in *.
    assert (Kp : 1 <= IZR k) by (apply IZR_le in K1; exact K1).
    split; [exact K1|]. split; [|field; lra]. split; [apply Rdiv_lt_0_compat; lra|].
    apply (Rmult_le_reg_r (IZR k)); [lra|]. replace (s / IZR k * IZR k) with s by (field; lra).
    apply (Rmult_le_compat_r step) in K3; [|lra]. replace (s * (1 / step) * step) with s in K3 by (field; lra). lra. }
  destruct (Q (wx (b3max box) - wx (b3min box))) as (X1 & X2 & X3); [lra|].
  destruct (Q (wy (b3max box) - wy (b3min box))) as (Y1 & Y2 & Y3); [lra|].
  destruct (Q (wz (b3max box) - wz (b3min box))) as (Z1 & Z2 & Z3); [lra|].
  repeat split; try assumption; try tauto.
  - unfold lpoint. cbn [lbase linc wx wy wz]. destruct (b3min box) as [mx my mz]; cbn [wx wy wz]. f_equal; lra.
  - unfold lpoint. cbn [lbase linc wx wy wz]. rewrite X3, Y3, Z3. destruct (b3max box) as [mx my mz], (b3min box) as [nx ny nz]; cbn [wx wy wz]. f_equal; lra.
Qed.

(* sample_box_contains_bbox, octree renderer: scaling about the centre by 1.01 contains the box
   (with 0.5% of its size as margin on every side) *)
Theorem scaled_box_contains_bbox (bb0 : Box3 ROps) : ordered3 bb0 ->
  let bb := @box3_scale_about_center ROps bb0 (@cst ROps 101 100) in
  wx (b3min bb) <= wx (b3min bb0) /\ wy (b3min bb) <= wy (b3min bb0) /\ wz (b3min bb) <= wz (b3min bb0) /\
  wx (b3max bb0) <= wx (b3max bb) /\ wy (b3max bb0) <= wy (b3max bb) /\ wz (b3max bb0) <= wz (b3max bb) /\
  box3_size bb = v3muls (box3_size bb0) (101 / 100).
Proof.
  intros (Ox & Oy & Oz). cbv zeta.
  unfold box3_scale_about_center, newbox3, box3_center, box3_size, v3muls, v3sub, v3add, cst. rewrite half_R. rsimp.
  cbn [b3min b3max wx wy wz]. repeat split; try lra. f_equal; field.
Qed.

(* levels_cover: if 2^(levels-1) half-cells reach the long axis of the scaled box (an exact
   inequality checked on the observed levels), the top cube of the octree contains the scaled box *)
Theorem levels_cover (bb : Box3 ROps) (res : R) (levels : nat) :
  ordered3 bb -> 0 < res ->
  @v3maxcomp ROps (box3_size bb) <= IZR (pow2 (levels - 1)) * res ->
  forall q, in_box3 bb q ->
    wx (b3min bb) <= wx q <= wx (@oct_point ROps (b3min bb) res (pow2 (levels - 1), 0, 0)%Z) /\
    wy (b3min bb) <= wy q <= wy (@oct_point ROps (b3min bb) res (0, pow2 (levels - 1), 0)%Z) /\
    wz (b3min bb) <= wz q <= wz (@oct_point ROps (b3min bb) res (0, 0, pow2 (levels - 1))%Z).
Proof.
  intros (Ox & Oy & Oz) Hr Hc q (Qx & Qy & Qz). destruct (maxcomp_ge (box3_size bb)) as (Mx & My & Mz).
  set (m := @v3maxcomp ROps (box3_size bb)) in *. unfold box3_size, v3sub in Mx, My, Mz. cbn [wx wy wz] in Mx, My, Mz. rsimp.
  unfold oct_point. cbn [wx wy wz]. rsimp. repeat split; lra.
Qed.
