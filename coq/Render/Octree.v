(* Model of the hierarchical renderers:
     render/march3x.go  dcache3 (evaluate / read / write), isEmpty, processCube, the hdiag table
     render/march2x.go  dcache2, isEmpty, processSquare
   written once over Ops, and the proof (ROps instance) that pruning loses nothing:

     a cube is skipped when |f(centre)| > half diagonal; for a 1-Lipschitz field every lattice
     point of the closed cube then has the strict sign of f(centre), so every finest cell in it
     has configuration 0 or 255 and emits nothing.  Hence
       octree f m v = flat_map cell (leaves m v)         (same order the recursion visits them)
     and the leaves of the top cube are a permutation of the row-major list of all finest cells.

   Levels: Go's cube level c.n >= 1 is  S m  here (m = 0 is the finest cell, side 2 lattice
   units of the half-resolution lattice; its centre is the odd lattice point in the middle).
   The strict comparison is that of the repaired code (fix 1b3e70c); with the original >= a
   sphere circumscribed about one finest cell loses that cell's triangles
   (corpus/C07.json "tie", Octree.ge_variant_loses_segment below for the 2D twin). *)
From Coq Require Import List ZArith NArith Bool Reals Lra Lia Permutation.
From Sdfx Require Import Num.Ops Num.RInst Geo.Vec Geo.NormR Generated.MarchTables
  Render.MC Render.MS Render.Lattice Render.Interp.
Import OpsNotations ListNotations.

(* ================================================================== the recursion, generically *)
Section Tree.
  Variables I A : Type.
  Variable children : nat -> I -> list I.     (* sub-cubes (level m) of a cube of level S m *)
  Variable empty : nat -> I -> bool.          (* isEmpty of the cube of level m at v *)
  Variable cell : I -> list A.                (* output of one finest cell *)

  Fixpoint leaves (m : nat) (v : I) : list I :=
    match m with
    | O => [v]
    | S m' => flat_map (leaves m') (children m' v)
    end.

  (* if !dc.isEmpty(c) { if c.n == 1 { cell } else { 8 x processCube } } *)
  Fixpoint process (m : nat) (v : I) : list A :=
    match m with
    | O => if empty O v then [] else cell v
    | S m' => if empty (S m') v then [] else flat_map (process m') (children m' v)
    end.

  Lemma flat_map_nil {B C} (f : B -> list C) l : (forall x, In x l -> f x = []) -> flat_map f l = [].
  Proof.
    induction l as [|x l IH]; intros H; [reflexivity|]. cbn [flat_map].
    rewrite (H x (or_introl eq_refl)), IH; [reflexivity|]. intros y Hy. apply H. now right.
  Qed.
  Lemma flat_map_flat_map {B C D} (f : C -> list D) (g : B -> list C) l :
    flat_map f (flat_map g l) = flat_map (fun x => flat_map f (g x)) l.
  Proof. induction l as [|x l IH]; [reflexivity|]. cbn [flat_map]. now rewrite flat_map_app, IH. Qed.

  Theorem process_leaves :
    (forall m v, empty m v = true -> forall u, In u (leaves m v) -> cell u = []) ->
    forall m v, process m v = flat_map cell (leaves m v).
  Proof.
    intros Hs. induction m as [|m IH]; intros v; cbn [process leaves].
    - destruct (empty 0 v) eqn:E.
      + cbn [flat_map]. rewrite (Hs 0%nat v E v); [reflexivity | now left].
      + cbn [flat_map]. now rewrite app_nil_r.
    - destruct (empty (S m) v) eqn:E.
      + symmetry. apply flat_map_nil. intros u Hu. exact (Hs (S m) v E u Hu).
      + rewrite flat_map_flat_map. apply flat_map_ext. intros c. apply IH.
  Qed.

  (* ---- the same recursion threading a state (the distance cache) *)
  Variable St : Type.
  Variable empty_st : nat -> I -> St -> bool * St.
  Variable cell_st : I -> St -> list A * St.

  Definition seq_st (f : I -> St -> list A * St) (l : list I) (s : St) : list A * St :=
    fold_left (fun acc c => let '(o, s') := f c (snd acc) in (fst acc ++ o, s')) l ([], s).

  Fixpoint process_st (m : nat) (v : I) (s : St) : list A * St :=
    match m with
    | O => let '(e, s1) := empty_st O v s in if e then ([], s1) else cell_st v s1
    | S m' => let '(e, s1) := empty_st (S m') v s in
              if e then ([], s1) else seq_st (process_st m') (children m' v) s1
    end.

  Variable inv : St -> Prop.
  Hypothesis empty_ok : forall m v s, inv s -> fst (empty_st m v s) = empty m v /\ inv (snd (empty_st m v s)).
  Hypothesis cell_ok : forall v s, inv s -> fst (cell_st v s) = cell v /\ inv (snd (cell_st v s)).

  Lemma seq_st_ok (f : I -> St -> list A * St) (g : I -> list A) :
    (forall c s, inv s -> fst (f c s) = g c /\ inv (snd (f c s))) ->
    forall l s, inv s -> fst (seq_st f l s) = flat_map g l /\ inv (snd (seq_st f l s)).
  Proof.
    intros Hf l s Hs. unfold seq_st.
    assert (G : forall l acc s, inv s ->
              let r := fold_left (fun acc c => let '(o, s') := f c (snd acc) in (fst acc ++ o, s')) l (acc, s) in
              fst r = acc ++ flat_map g l /\ inv (snd r)).
    { clear l s Hs. induction l as [|c l IH]; intros acc s Hs; cbn [fold_left flat_map].
      - cbn. now rewrite app_nil_r.
      - cbn [snd fst]. destruct (f c s) as [o s'] eqn:E. destruct (Hf c s Hs) as [Ho Hi]. rewrite E in Ho, Hi.
        cbn [fst snd] in Ho, Hi. specialize (IH (acc ++ o) s' Hi). cbv zeta in IH. destruct IH as [IH1 IH2].
        split; [|exact IH2]. rewrite IH1, Ho. now rewrite app_assoc. }
    exact (G l [] s Hs).
  Qed.

  Theorem process_st_ok : forall m v s, inv s ->
    fst (process_st m v s) = process m v /\ inv (snd (process_st m v s)).
  Proof.
    induction m as [|m IH]; intros v s Hs; cbn [process_st process].
    - destruct (empty_ok 0%nat v s Hs) as [E1 E2]. destruct (empty_st 0 v s) as [e s1]. cbn [fst snd] in E1, E2.
      subst e. destruct (empty 0 v); [now split | now apply cell_ok].
    - destruct (empty_ok (S m) v s Hs) as [E1 E2]. destruct (empty_st (S m) v s) as [e s1]. cbn [fst snd] in E1, E2.
      subst e. destruct (empty (S m) v); [now split|]. apply seq_st_ok; [exact (IH) | exact E2].
  Qed.
End Tree.

Arguments leaves {I} children m v.
Arguments process {I A} children empty cell m v.
Arguments process_st {I A} children {St} empty_st cell_st m v s.

Lemma NoDup_flat_map {A B} (f : A -> list B) l :
  NoDup l -> (forall x, In x l -> NoDup (f x)) ->
  (forall x y b, In x l -> In y l -> In b (f x) -> In b (f y) -> x = y) -> NoDup (flat_map f l).
Proof.
  induction l as [|x l IH]; intros Hl Hf Hd; [constructor|]. cbn [flat_map].
  inversion Hl as [|? ? Hx Hl']; subst.
  assert (N1 : NoDup (f x)) by (apply Hf; now left).
  assert (N2 : NoDup (flat_map f l)).
  { apply IH; [exact Hl' | intros y Hy; apply Hf; now right |].
    intros y z b Hy Hz. apply Hd; now right. }
  assert (D : forall b, In b (f x) -> ~ In b (flat_map f l)).
  { intros b Hb Hin. apply in_flat_map in Hin as (y & Hy & Hby).
    assert (x = y) by (apply (Hd x y b); [now left | now right | exact Hb | exact Hby]). subst y. contradiction. }
  clear - N1 N2 D. induction (f x) as [|b r IHr]; [exact N2|]. cbn [app]. inversion N1; subst. constructor.
  - rewrite in_app_iff. intros [H|H]; [contradiction|]. apply (D b); [now left | exact H].
  - apply IHr; [assumption|]. intros c Hc. apply D. now right.
Qed.

(* ================================================================== index arithmetic, 3D *)
Open Scope Z_scope.

Definition scalep (s : Z) (p : pt) : pt := let '(x, y, z) := p in (s * x, s * y, s * z).
Definition corners8 : list N := [0; 1; 2; 3; 4; 5; 6; 7]%N.
Definition pow2 (m : nat) : Z := 2 ^ Z.of_nat m.

(* n := c.n - 1; s := 1 << n; the eight sub-cubes in the order of processCube *)
Definition oct_children (m : nat) (v : pt) : list pt :=
  map (fun c => addp v (scalep (pow2 (S m)) (corner_off c))) corners8.
(* s := 1 << (c.n - 1); c.v.AddScalar(s) *)
Definition oct_centre (m : nat) (v : pt) : pt := addp v (pow2 m, pow2 m, pow2 m).
(* the corner lattice points of a finest cell: c.v.Add({0|2, 0|2, 0|2}) *)
Definition oct_corner (v : pt) (c : N) : pt := addp v (scalep 2 (corner_off c)).

Definition oct_leaves : nat -> pt -> list pt := leaves oct_children.

Lemma pt_inj3 (a b c a' b' c' : Z) : (a, b, c) = (a', b', c') -> a = a' /\ b = b' /\ c = c'.
Proof. intros E. now inversion E. Qed.
Lemma pt_inj2 (a b a' b' : Z) : (a, b) = (a', b') -> a = a' /\ b = b'.
Proof. intros E. now inversion E. Qed.
Lemma pow2_pos m : 0 < pow2 m.
Proof. unfold pow2. apply Z.pow_pos_nonneg; lia. Qed.
Lemma pow2_S m : pow2 (S m) = 2 * pow2 m.
Proof. unfold pow2. rewrite Nat2Z.inj_succ, Z.pow_succ_r by lia. reflexivity. Qed.

(* a lattice point lies in the closed cube of level m (side 2^(m+1)) at v *)
Definition in_cube (m : nat) (v u : pt) : Prop :=
  let '(vx, vy, vz) := v in let '(ux, uy, uz) := u in
  vx <= ux <= vx + pow2 (S m) /\ vy <= uy <= vy + pow2 (S m) /\ vz <= uz <= vz + pow2 (S m).
(* u is the origin of a finest cell of that cube *)
Definition cell_of (m : nat) (v u : pt) : Prop :=
  let '(vx, vy, vz) := v in let '(ux, uy, uz) := u in
  exists i j k, 0 <= i < pow2 m /\ 0 <= j < pow2 m /\ 0 <= k < pow2 m /\
                ux = vx + 2 * i /\ uy = vy + 2 * j /\ uz = vz + 2 * k.

Lemma corner_off_cases c : exists a b d, corner_off c = (a, b, d) /\ (a = 0 \/ a = 1) /\ (b = 0 \/ b = 1) /\ (d = 0 \/ d = 1).
Proof.
  destruct c as [|p]; [exists 0, 0, 0; cbn; intuition|].
  destruct p as [[[|[]|]|[]|]|[[]|[]|]|]; cbn;
    first [exists 0, 0, 0; intuition; fail | exists 1, 0, 0; intuition; fail | exists 1, 1, 0; intuition; fail
          | exists 0, 1, 0; intuition; fail | exists 0, 0, 1; intuition; fail | exists 1, 0, 1; intuition; fail
          | exists 1, 1, 1; intuition; fail | exists 0, 1, 1; intuition; fail ].
Qed.

Lemma in_corners8 c : In c corners8 <-> (c < 8)%N.
Proof.
  unfold corners8. cbn [In]. split.
  - intros [<-|[<-|[<-|[<-|[<-|[<-|[<-|[<-|[]]]]]]]]]; lia.
  - intros H. assert (E : (c = 0 \/ c = 1 \/ c = 2 \/ c = 3 \/ c = 4 \/ c = 5 \/ c = 6 \/ c = 7)%N) by lia.
    intuition.
Qed.
Lemma corner_at_off a b d : (a = 0 \/ a = 1) -> (b = 0 \/ b = 1) -> (d = 0 \/ d = 1) ->
  (corner_at a b d < 8)%N /\ corner_off (corner_at a b d) = (a, b, d).
Proof. intros [-> | ->] [-> | ->] [-> | ->]; cbn; split; (lia || reflexivity). Qed.

(* children_partition, membership form: the finest cells of a cube are exactly those of its eight
   sub-cubes, and a finest cell belongs to exactly one sub-cube *)
Lemma oct_leaves_spec m : forall v u, In u (oct_leaves m v) <-> cell_of m v u.
Proof.
  induction m as [|m IH]; intros [[vx vy] vz] [[ux uy] uz].
  - cbn [oct_leaves leaves In]. unfold cell_of, pow2. cbn [Z.of_nat Z.pow]. split.
    + intros [[= <- <- <-]|[]]. exists 0, 0, 0. repeat split; lia.
    + intros (i & j & k & Hi & Hj & Hk & -> & -> & ->). left. f_equal; [f_equal|]; lia.
  - unfold oct_leaves. cbn [leaves]. fold (oct_leaves m). rewrite in_flat_map. split.
    + intros (w & Hw & Hu). unfold oct_children in Hw. apply in_map_iff in Hw as (c & <- & Hc).
      apply IH in Hu. destruct (corner_off_cases c) as (a & b & d & Ec & Ha & Hb & Hd). rewrite Ec in Hu.
      cbn [scalep addp] in Hu. destruct Hu as (i & j & k & Hi & Hj & Hk & -> & -> & ->).
      unfold cell_of. rewrite pow2_S. pose proof (pow2_pos m).
      exists (pow2 m * a + i), (pow2 m * b + j), (pow2 m * d + k). rewrite ?pow2_S. repeat split; nia.
    + intros (i & j & k & Hi & Hj & Hk & -> & -> & ->). rewrite pow2_S in Hi, Hj, Hk. pose proof (pow2_pos m) as P.
      set (a := if i <? pow2 m then 0 else 1). set (b := if j <? pow2 m then 0 else 1). set (d := if k <? pow2 m then 0 else 1).
      assert (Ha : a = 0 \/ a = 1) by (unfold a; destruct (i <? pow2 m); auto).
      assert (Hb : b = 0 \/ b = 1) by (unfold b; destruct (j <? pow2 m); auto).
      assert (Hd : d = 0 \/ d = 1) by (unfold d; destruct (k <? pow2 m); auto).
      destruct (corner_at_off a b d Ha Hb Hd) as [L E].
      exists (addp (vx, vy, vz) (scalep (pow2 (S m)) (corner_off (corner_at a b d)))). split.
      * unfold oct_children. apply in_map_iff. exists (corner_at a b d). split; [reflexivity | now apply in_corners8].
      * apply IH. rewrite E. cbn [scalep addp]. rewrite pow2_S. unfold cell_of.
        exists (i - pow2 m * a), (j - pow2 m * b), (k - pow2 m * d).
        unfold a, b, d. destruct (Z.ltb_spec i (pow2 m)), (Z.ltb_spec j (pow2 m)), (Z.ltb_spec k (pow2 m)); repeat split; lia.
Qed.

Lemma oct_children_NoDup m v : NoDup (oct_children m v).
Proof.
  destruct v as [[vx vy] vz]. unfold oct_children, corners8. cbn [map corner_off scalep addp].
  pose proof (pow2_pos (S m)) as P. set (s := pow2 (S m)) in *.
  repeat (apply NoDup_cons; [cbn [In]; intros H; repeat (destruct H as [H|H]; [inversion H; lia|]); exact H |]).
  apply NoDup_nil.
Qed.

(* a finest cell lies in at most one of the eight sub-cubes *)
Lemma oct_children_disjoint m v c1 c2 u :
  In c1 (oct_children m v) -> In c2 (oct_children m v) -> cell_of m c1 u -> cell_of m c2 u -> c1 = c2.
Proof.
  intros Hx Hy Bx By. destruct u as [[bx by_] bz]. unfold oct_children in Hx, Hy.
  apply in_map_iff in Hx as (k1 & <- & _). apply in_map_iff in Hy as (k2 & <- & _).
  destruct v as [[vx vy] vz].
  destruct (corner_off_cases k1) as (a1 & b1 & d1 & E1 & A1 & B1 & D1).
  destruct (corner_off_cases k2) as (a2 & b2 & d2 & E2 & A2 & B2 & D2).
  rewrite E1 in *. rewrite E2 in *. cbn [scalep addp] in *.
  destruct Bx as (i & j & k & Hi & Hj & Hk & X1 & X2 & X3). destruct By as (i' & j' & k' & Hi' & Hj' & Hk' & Y1 & Y2 & Y3).
  rewrite pow2_S in *. pose proof (pow2_pos m) as P.
  assert (a1 = a2) by nia. assert (b1 = b2) by nia. assert (d1 = d2) by nia. now subst.
Qed.

Lemma oct_leaves_NoDup m : forall v, NoDup (oct_leaves m v).
Proof.
  induction m as [|m IH]; intros v; [repeat constructor; intros []|].
  unfold oct_leaves. cbn [leaves]. fold (oct_leaves m). apply NoDup_flat_map.
  - apply oct_children_NoDup.
  - intros x _. apply IH.
  - intros x y b Hx Hy Bx By. apply oct_leaves_spec in Bx, By. exact (oct_children_disjoint m v x y b Hx Hy Bx By).
Qed.

(* children_partition: the finest cells of a cube of level S m are those of its eight sub-cubes,
   each in exactly one of them *)
Theorem oct_children_partition m v u :
  cell_of (S m) v u <-> exists c, In c (oct_children m v) /\ cell_of m c u /\
                                  forall c', In c' (oct_children m v) -> cell_of m c' u -> c' = c.
Proof.
  rewrite <- oct_leaves_spec. unfold oct_leaves. cbn [leaves]. fold (oct_leaves m). rewrite in_flat_map. split.
  - intros (c & Hc & Hu). apply oct_leaves_spec in Hu. exists c. split; [exact Hc|]. split; [exact Hu|].
    intros c' Hc' Hu'. exact (oct_children_disjoint m v c' c u Hc' Hc Hu' Hu).
  - intros (c & Hc & Hu & _). exists c. split; [exact Hc|]. now apply oct_leaves_spec.
Qed.

(* the row-major list of all finest cells of the cube (the order of a uniform cube walk) *)
Definition cells_row_major (m : nat) (v : pt) : list pt :=
  map (fun p => addp v (scalep 2 p)) (cells (Z.to_nat (pow2 m)) (Z.to_nat (pow2 m)) (Z.to_nat (pow2 m))).

Lemma in_cells nx ny nz p : In p (cells nx ny nz) <->
  let '(x, y, z) := p in 0 <= x < Z.of_nat nx /\ 0 <= y < Z.of_nat ny /\ 0 <= z < Z.of_nat nz.
Proof.
  destruct p as [[x y] z]. unfold cells. rewrite in_flat_map. split.
  - intros (x' & Hx & H). apply in_flat_map in H as (y' & Hy & H). apply in_map_iff in H as (z' & [= <- <- <-] & Hz).
    apply in_cellsZ in Hx, Hy, Hz. tauto.
  - intros (Hx & Hy & Hz). exists x. split; [now apply in_cellsZ|]. apply in_flat_map. exists y. split; [now apply in_cellsZ|].
    apply in_map_iff. exists z. split; [reflexivity | now apply in_cellsZ].
Qed.
Lemma cellsZ_NoDup n : NoDup (cellsZ n).
Proof. unfold cellsZ. apply FinFun.Injective_map_NoDup; [intros a b; apply Nat2Z.inj | apply seq_NoDup]. Qed.
Lemma cells_NoDup nx ny nz : NoDup (cells nx ny nz).
Proof.
  unfold cells. apply NoDup_flat_map; [apply cellsZ_NoDup | |].
  - intros x _. apply NoDup_flat_map; [apply cellsZ_NoDup | |].
    + intros y _. apply FinFun.Injective_map_NoDup; [intros a b [= ->]; reflexivity | apply cellsZ_NoDup].
    + intros y y' b _ _ H1 H2. apply in_map_iff in H1 as (z1 & <- & _). apply in_map_iff in H2 as (z2 & [= -> _] & _). reflexivity.
  - intros x x' b _ _ H1 H2. apply in_flat_map in H1 as (y1 & _ & H1). apply in_flat_map in H2 as (y2 & _ & H2).
    apply in_map_iff in H1 as (z1 & <- & _). apply in_map_iff in H2 as (z2 & [= -> _ _] & _). reflexivity.
Qed.

Lemma cells_row_major_spec m v u : In u (cells_row_major m v) <-> cell_of m v u.
Proof.
  destruct v as [[vx vy] vz], u as [[ux uy] uz]. unfold cells_row_major. rewrite in_map_iff. pose proof (pow2_pos m) as P. split.
  - intros ([[i j] k] & E & H). apply in_cells in H. rewrite Z2Nat.id in H by lia. cbn [scalep addp] in E. injection E as <- <- <-.
    exists i, j, k. tauto.
  - intros (i & j & k & Hi & Hj & Hk & -> & -> & ->). exists (i, j, k). split; [reflexivity|].
    apply in_cells. rewrite Z2Nat.id by lia. tauto.
Qed.
Lemma cells_row_major_NoDup m v : NoDup (cells_row_major m v).
Proof.
  unfold cells_row_major. apply FinFun.Injective_map_NoDup; [|apply cells_NoDup].
  destruct v as [[vx vy] vz]. intros [[a b] c] [[a' b'] c'] E. unfold scalep, addp in E. apply pt_inj3 in E as (E1 & E2 & E3).
  f_equal; [f_equal|]; lia.
Qed.

Theorem oct_leaves_perm m v : Permutation (oct_leaves m v) (cells_row_major m v).
Proof.
  apply NoDup_Permutation; [apply oct_leaves_NoDup | apply cells_row_major_NoDup|].
  intros u. now rewrite oct_leaves_spec, cells_row_major_spec.
Qed.

(* the corners of a finest cell of the cube, and the cube's centre, relative to the cube *)
Lemma cell_corner_in_cube m v u c : cell_of m v u -> in_cube m v (oct_corner u c).
Proof.
  destruct v as [[vx vy] vz], u as [[ux uy] uz]. intros (i & j & k & Hi & Hj & Hk & -> & -> & ->).
  unfold oct_corner. destruct (corner_off_cases c) as (a & b & d & -> & Ha & Hb & Hd). cbn [scalep addp in_cube].
  rewrite pow2_S. lia.
Qed.

(* ================================================================== index arithmetic, 2D *)
Definition scalep2 (s : Z) (p : pt2) : pt2 := (s * fst p, s * snd p).
Definition corners4 : list N := [0; 1; 2; 3]%N.
Definition quad_children (m : nat) (v : pt2) : list pt2 :=
  map (fun c => addp2 v (scalep2 (pow2 (S m)) (sq_corner_off c))) corners4.
Definition quad_centre (m : nat) (v : pt2) : pt2 := addp2 v (pow2 m, pow2 m).
Definition quad_corner (v : pt2) (c : N) : pt2 := addp2 v (scalep2 2 (sq_corner_off c)).
Definition quad_leaves : nat -> pt2 -> list pt2 := leaves quad_children.

Definition in_square (m : nat) (v u : pt2) : Prop :=
  fst v <= fst u <= fst v + pow2 (S m) /\ snd v <= snd u <= snd v + pow2 (S m).
Definition cell_of2 (m : nat) (v u : pt2) : Prop :=
  exists i j, 0 <= i < pow2 m /\ 0 <= j < pow2 m /\ fst u = fst v + 2 * i /\ snd u = snd v + 2 * j.

Lemma sq_corner_off_cases c : exists a b, sq_corner_off c = (a, b) /\ (a = 0 \/ a = 1) /\ (b = 0 \/ b = 1).
Proof.
  destruct c as [|[[]|[]|]]; cbn;
    first [exists 0, 0; intuition; fail | exists 1, 0; intuition; fail | exists 1, 1; intuition; fail | exists 0, 1; intuition; fail].
Qed.
Lemma in_corners4 c : In c corners4 <-> (c < 4)%N.
Proof.
  unfold corners4. cbn [In]. split.
  - intros [<-|[<-|[<-|[<-|[]]]]]; lia.
  - intros H. assert (E : (c = 0 \/ c = 1 \/ c = 2 \/ c = 3)%N) by lia. intuition.
Qed.
Lemma sq_corner_at_off a b : (a = 0 \/ a = 1) -> (b = 0 \/ b = 1) ->
  (sq_corner_at a b < 4)%N /\ sq_corner_off (sq_corner_at a b) = (a, b).
Proof. intros [-> | ->] [-> | ->]; cbn; split; (lia || reflexivity). Qed.

Lemma quad_leaves_spec m : forall v u, In u (quad_leaves m v) <-> cell_of2 m v u.
Proof.
  induction m as [|m IH]; intros [vx vy] [ux uy].
  - cbn [quad_leaves leaves In]. unfold cell_of2, pow2. cbn [Z.of_nat Z.pow fst snd]. split.
    + intros [[= <- <-]|[]]. exists 0, 0. repeat split; lia.
    + intros (i & j & Hi & Hj & -> & ->). left. f_equal; lia.
  - unfold quad_leaves. cbn [leaves]. fold (quad_leaves m). rewrite in_flat_map. split.
    + intros (w & Hw & Hu). unfold quad_children in Hw. apply in_map_iff in Hw as (c & <- & Hc).
      apply IH in Hu. destruct (sq_corner_off_cases c) as (a & b & Ec & Ha & Hb). rewrite Ec in Hu.
      unfold cell_of2 in *. cbn [scalep2 addp2 fst snd] in *. destruct Hu as (i & j & Hi & Hj & -> & ->).
      pose proof (pow2_pos m). exists (pow2 m * a + i), (pow2 m * b + j). rewrite ?pow2_S. repeat split; nia.
    + intros (i & j & Hi & Hj & E1 & E2). cbn [fst snd] in E1, E2. subst ux uy. rewrite pow2_S in Hi, Hj. pose proof (pow2_pos m) as P.
      set (a := if i <? pow2 m then 0 else 1). set (b := if j <? pow2 m then 0 else 1).
      assert (Ha : a = 0 \/ a = 1) by (unfold a; destruct (i <? pow2 m); auto).
      assert (Hb : b = 0 \/ b = 1) by (unfold b; destruct (j <? pow2 m); auto).
      destruct (sq_corner_at_off a b Ha Hb) as [L E].
      exists (addp2 (vx, vy) (scalep2 (pow2 (S m)) (sq_corner_off (sq_corner_at a b)))). split.
      * unfold quad_children. apply in_map_iff. exists (sq_corner_at a b). split; [reflexivity | now apply in_corners4].
      * apply IH. rewrite E. unfold cell_of2. cbn [scalep2 addp2 fst snd]. rewrite pow2_S.
        exists (i - pow2 m * a), (j - pow2 m * b).
        unfold a, b. destruct (Z.ltb_spec i (pow2 m)), (Z.ltb_spec j (pow2 m)); repeat split; lia.
Qed.

Lemma quad_children_NoDup m v : NoDup (quad_children m v).
Proof.
  destruct v as [vx vy]. unfold quad_children, corners4. cbn [map sq_corner_off scalep2 addp2 fst snd].
  pose proof (pow2_pos (S m)) as P. set (s := pow2 (S m)) in *.
  repeat (apply NoDup_cons; [cbn [In]; intros H; repeat (destruct H as [H|H]; [inversion H; lia|]); exact H |]).
  apply NoDup_nil.
Qed.

Lemma quad_children_disjoint m v c1 c2 u :
  In c1 (quad_children m v) -> In c2 (quad_children m v) -> cell_of2 m c1 u -> cell_of2 m c2 u -> c1 = c2.
Proof.
  intros Hx Hy Bx By. destruct u as [bx by_]. unfold quad_children in Hx, Hy.
  apply in_map_iff in Hx as (k1 & <- & _). apply in_map_iff in Hy as (k2 & <- & _).
  destruct v as [vx vy].
  destruct (sq_corner_off_cases k1) as (a1 & b1 & E1 & A1 & B1).
  destruct (sq_corner_off_cases k2) as (a2 & b2 & E2 & A2 & B2).
  rewrite E1 in *. rewrite E2 in *. unfold cell_of2 in Bx, By. cbn [scalep2 addp2 fst snd] in *.
  destruct Bx as (i & j & Hi & Hj & X1 & X2). destruct By as (i' & j' & Hi' & Hj' & Y1 & Y2).
  rewrite pow2_S in *. pose proof (pow2_pos m) as P.
  assert (a1 = a2) by nia. assert (b1 = b2) by nia. now subst.
Qed.

Lemma quad_leaves_NoDup m : forall v, NoDup (quad_leaves m v).
Proof.
  induction m as [|m IH]; intros v; [repeat constructor; intros []|].
  unfold quad_leaves. cbn [leaves]. fold (quad_leaves m). apply NoDup_flat_map.
  - apply quad_children_NoDup.
  - intros x _. apply IH.
  - intros x y b Hx Hy Bx By. apply quad_leaves_spec in Bx, By. exact (quad_children_disjoint m v x y b Hx Hy Bx By).
Qed.

Theorem quad_children_partition m v u :
  cell_of2 (S m) v u <-> exists c, In c (quad_children m v) /\ cell_of2 m c u /\
                                   forall c', In c' (quad_children m v) -> cell_of2 m c' u -> c' = c.
Proof.
  rewrite <- quad_leaves_spec. unfold quad_leaves. cbn [leaves]. fold (quad_leaves m). rewrite in_flat_map. split.
  - intros (c & Hc & Hu). apply quad_leaves_spec in Hu. exists c. split; [exact Hc|]. split; [exact Hu|].
    intros c' Hc' Hu'. exact (quad_children_disjoint m v c' c u Hc' Hc Hu' Hu).
  - intros (c & Hc & Hu & _). exists c. split; [exact Hc|]. now apply quad_leaves_spec.
Qed.

Definition cells2_row_major (m : nat) (v : pt2) : list pt2 :=
  map (fun p => addp2 v (scalep2 2 p)) (cells2 (Z.to_nat (pow2 m)) (Z.to_nat (pow2 m))).
Lemma in_cells2 nx ny p : In p (cells2 nx ny) <-> 0 <= fst p < Z.of_nat nx /\ 0 <= snd p < Z.of_nat ny.
Proof.
  destruct p as [x y]. unfold cells2. rewrite in_flat_map. cbn [fst snd]. split.
  - intros (x' & Hx & H). apply in_map_iff in H as (y' & [= <- <-] & Hy). apply in_cellsZ in Hx, Hy. tauto.
  - intros (Hx & Hy). exists x. split; [now apply in_cellsZ|]. apply in_map_iff. exists y. split; [reflexivity | now apply in_cellsZ].
Qed.
Lemma cells2_NoDup nx ny : NoDup (cells2 nx ny).
Proof.
  unfold cells2. apply NoDup_flat_map; [apply cellsZ_NoDup | |].
  - intros x _. apply FinFun.Injective_map_NoDup; [intros a b [= ->]; reflexivity | apply cellsZ_NoDup].
  - intros x x' b _ _ H1 H2. apply in_map_iff in H1 as (y1 & <- & _). apply in_map_iff in H2 as (y2 & [= -> _] & _). reflexivity.
Qed.
Lemma cells2_row_major_spec m v u : In u (cells2_row_major m v) <-> cell_of2 m v u.
Proof.
  destruct v as [vx vy], u as [ux uy]. unfold cells2_row_major. rewrite in_map_iff. pose proof (pow2_pos m) as P. split.
  - intros ([i j] & E & H). apply in_cells2 in H. rewrite Z2Nat.id in H by lia. cbn [scalep2 addp2 fst snd] in *. injection E as <- <-.
    exists i, j. cbn [fst snd]. tauto.
  - intros (i & j & Hi & Hj & E1 & E2). cbn [fst snd] in E1, E2. subst. exists (i, j). split; [reflexivity|].
    apply in_cells2. rewrite Z2Nat.id by lia. cbn [fst snd]. tauto.
Qed.
Lemma cells2_row_major_NoDup m v : NoDup (cells2_row_major m v).
Proof.
  unfold cells2_row_major. apply FinFun.Injective_map_NoDup; [|apply cells2_NoDup].
  destruct v as [vx vy]. intros [a b] [a' b'] E. unfold scalep2, addp2 in E. cbn [fst snd] in E. apply pt_inj2 in E as (E1 & E2). f_equal; lia.
Qed.
Theorem quad_leaves_perm m v : Permutation (quad_leaves m v) (cells2_row_major m v).
Proof.
  apply NoDup_Permutation; [apply quad_leaves_NoDup | apply cells2_row_major_NoDup|].
  intros u. now rewrite quad_leaves_spec, cells2_row_major_spec.
Qed.
Lemma cell_corner_in_square m v u c : cell_of2 m v u -> in_square m v (quad_corner u c).
Proof.
  destruct v as [vx vy], u as [ux uy]. intros (i & j & Hi & Hj & E1 & E2). cbn [fst snd] in E1, E2. subst.
  unfold quad_corner, in_square. destruct (sq_corner_off_cases c) as (a & b & -> & Ha & Hb). cbn [scalep2 addp2 fst snd].
  rewrite pow2_S. lia.
Qed.

Close Scope Z_scope.

(* ================================================================== the numeric model over Ops *)
Local Open Scope ops_scope.

Definition sel8 {X} (d0 d1 d2 d3 d4 d5 d6 d7 : X) (c : N) : X :=
  match c with
  | 0%N => d0 | 1%N => d1 | 2%N => d2 | 3%N => d3 | 4%N => d4 | 5%N => d5 | 6%N => d6 | _ => d7
  end.
Definition sel4 {X} (d0 d1 d2 d3 : X) (c : N) : X :=
  match c with 0%N => d0 | 1%N => d1 | 2%N => d2 | _ => d3 end.

Fixpoint lookup {K X} (eqb : K -> K -> bool) (k : K) (m : list (K * X)) : option X :=
  match m with
  | [] => None
  | (k', d) :: r => if eqb k k' then Some d else lookup eqb k r
  end.
Definition pt2_eqb (p q : pt2) : bool := (fst p =? fst q)%Z && (snd p =? snd q)%Z.
Lemma pt2_eqb_eq p q : pt2_eqb p q = true <-> p = q.
Proof.
  destruct p, q; unfold pt2_eqb; cbn [fst snd]. rewrite andb_true_iff, !Z.eqb_eq.
  split; [intros [-> ->]; reflexivity | intros [= -> ->]; auto].
Qed.

Section Oct.
  Context {O : Ops}.
  Notation T := (T O).
  Notation V2 := (V2 O).
  Notation V3 := (V3 O).

  Definition three : T := ofZ O 3.

  (* ---------------------------------------------------------------- 3D: dcache3 *)
  Section D3.
    Variable origin : V3.          (* dc.origin *)
    Variable res : T.              (* dc.resolution (half the requested cell size) *)
    Variable fv : pt -> T.         (* the field value the SDF returns at lattice point vi *)

    (* v := dc.origin.Add(conv.V3iToV3(vi).MulScalar(dc.resolution)) *)
    Definition oct_point (vi : pt) : V3 :=
      let '(i, j, k) := vi in
      mkV3 (wx origin + ofZ O i * res) (wy origin + ofZ O j * res) (wz origin + ofZ O k * res).

    (* si := 1 << i; s := float64(si) * dc.resolution; dc.hdiag[i] = 0.5 * math.Sqrt(3.0*s*s) *)
    Definition hdiag3 (i : nat) : T :=
      let s := ofZ O (pow2 i) * res in half * osqrt O ((three * s) * s).
    Definition hdiag3_table (n : nat) : list T := map hdiag3 (seq 0 n).

    (* isEmpty (cube of Go level S m at v) *)
    Definition oct_empty (m : nat) (v : pt) : bool :=
      hdiag3 (S m) <? oabs O (fv (oct_centre m v)).

    (* the level-1 branch of processCube *)
    Definition oct_cell (v : pt) : list (V3 * V3 * V3) :=
      mc_to_triangles (fun c => oct_point (oct_corner v c)) (fun c => fv (oct_corner v c)) (o0 O).

    Definition octree (m : nat) (v : pt) : list (V3 * V3 * V3) := process oct_children oct_empty oct_cell m v.
    (* evaluating every finest cell of the cube, in the order the recursion would visit them *)
    Definition oct_uniform (m : nat) (v : pt) : list (V3 * V3 * V3) := flat_map oct_cell (oct_leaves m v).

    (* ---- with the distance cache: newest entry first, so the keys reversed are the sequence of
       calls to the SDF *)
    Definition cache3 := list (pt * T).
    Definition dc3_evaluate (vi : pt) (m : cache3) : T * cache3 :=
      match lookup pt_eqb vi m with
      | Some d => (d, m)
      | None => let d := fv vi in (d, (vi, d) :: m)
      end.
    Definition oct_empty_st (m : nat) (v : pt) (s : cache3) : bool * cache3 :=
      let '(d, s1) := dc3_evaluate (oct_centre m v) s in (hdiag3 (S m) <? oabs O d, s1).
    Definition oct_cell_st (v : pt) (s : cache3) : list (V3 * V3 * V3) * cache3 :=
      let '(d0, s) := dc3_evaluate (oct_corner v 0) s in
      let '(d1, s) := dc3_evaluate (oct_corner v 1) s in
      let '(d2, s) := dc3_evaluate (oct_corner v 2) s in
      let '(d3, s) := dc3_evaluate (oct_corner v 3) s in
      let '(d4, s) := dc3_evaluate (oct_corner v 4) s in
      let '(d5, s) := dc3_evaluate (oct_corner v 5) s in
      let '(d6, s) := dc3_evaluate (oct_corner v 6) s in
      let '(d7, s) := dc3_evaluate (oct_corner v 7) s in
      (mc_to_triangles (fun c => oct_point (oct_corner v c)) (sel8 d0 d1 d2 d3 d4 d5 d6 d7) (o0 O), s).
    Definition octree_st (m : nat) (v : pt) (s : cache3) : list (V3 * V3 * V3) * cache3 :=
      process_st oct_children oct_empty_st oct_cell_st m v s.

    Definition cache3_ok (s : cache3) : Prop := forall vi d, lookup pt_eqb vi s = Some d -> d = fv vi.

    Lemma dc3_evaluate_ok vi s : cache3_ok s -> fst (dc3_evaluate vi s) = fv vi /\ cache3_ok (snd (dc3_evaluate vi s)).
    Proof.
      intros H. unfold dc3_evaluate. destruct (lookup pt_eqb vi s) as [d|] eqn:E; cbn [fst snd].
      - split; [now apply H | exact H].
      - split; [reflexivity|]. intros wi d. cbn [lookup]. destruct (pt_eqb wi vi) eqn:Q.
        + apply pt_eqb_eq in Q. subst. now intros [= <-].
        + apply H.
    Qed.
  End D3.

  (* ---------------------------------------------------------------- 2D: dcache2 *)
  Section D2.
    Variable origin : V2.
    Variable res : T.
    Variable fv : pt2 -> T.

    Definition quad_point (vi : pt2) : V2 :=
      mkV2 (vx origin + ofZ O (fst vi) * res) (vy origin + ofZ O (snd vi) * res).
    (* dc.hdiag[i] = 0.5 * math.Sqrt(2.0*s*s) *)
    Definition hdiag2 (i : nat) : T :=
      let s := ofZ O (pow2 i) * res in half * osqrt O ((two * s) * s).
    Definition hdiag2_table (n : nat) : list T := map hdiag2 (seq 0 n).
    Definition quad_empty (m : nat) (v : pt2) : bool :=
      hdiag2 (S m) <? oabs O (fv (quad_centre m v)).
    Definition quad_cell (v : pt2) : list (V2 * V2) :=
      ms_to_lines (fun c => quad_point (quad_corner v c)) (fun c => fv (quad_corner v c)) (o0 O).
    Definition quadtree (m : nat) (v : pt2) : list (V2 * V2) := process quad_children quad_empty quad_cell m v.
    Definition quad_uniform (m : nat) (v : pt2) : list (V2 * V2) := flat_map quad_cell (quad_leaves m v).

    Definition cache2 := list (pt2 * T).
    Definition dc2_evaluate (vi : pt2) (m : cache2) : T * cache2 :=
      match lookup pt2_eqb vi m with
      | Some d => (d, m)
      | None => let d := fv vi in (d, (vi, d) :: m)
      end.
    Definition quad_empty_st (m : nat) (v : pt2) (s : cache2) : bool * cache2 :=
      let '(d, s1) := dc2_evaluate (quad_centre m v) s in (hdiag2 (S m) <? oabs O d, s1).
    Definition quad_cell_st (v : pt2) (s : cache2) : list (V2 * V2) * cache2 :=
      let '(d0, s) := dc2_evaluate (quad_corner v 0) s in
      let '(d1, s) := dc2_evaluate (quad_corner v 1) s in
      let '(d2, s) := dc2_evaluate (quad_corner v 2) s in
      let '(d3, s) := dc2_evaluate (quad_corner v 3) s in
      (ms_to_lines (fun c => quad_point (quad_corner v c)) (sel4 d0 d1 d2 d3) (o0 O), s).
    Definition quadtree_st (m : nat) (v : pt2) (s : cache2) : list (V2 * V2) * cache2 :=
      process_st quad_children quad_empty_st quad_cell_st m v s.

    Definition cache2_ok (s : cache2) : Prop := forall vi d, lookup pt2_eqb vi s = Some d -> d = fv vi.
    Lemma dc2_evaluate_ok vi s : cache2_ok s -> fst (dc2_evaluate vi s) = fv vi /\ cache2_ok (snd (dc2_evaluate vi s)).
    Proof.
      intros H. unfold dc2_evaluate. destruct (lookup pt2_eqb vi s) as [d|] eqn:E; cbn [fst snd].
      - split; [now apply H | exact H].
      - split; [reflexivity|]. intros wi d. cbn [lookup]. destruct (pt2_eqb wi vi) eqn:Q.
        + apply pt2_eqb_eq in Q. subst. now intros [= <-].
        + apply H.
    Qed.
  End D2.

  (* mcToTriangles / msToLines only look at the values and positions they are given *)
  Lemma mc_to_triangles_ext (p p' : N -> V3) (v v' : N -> T) x :
    (forall c, p c = p' c) -> (forall c, v c = v' c) -> mc_to_triangles p v x = mc_to_triangles p' v' x.
  Proof.
    intros Hp Hv. unfold mc_to_triangles.
    assert (E : mc_index v x = mc_index v' x) by (unfold mc_index; now rewrite !Hv).
    rewrite E. cbv zeta. destruct (edge_mask (mc_index v' x) =? 0)%N; [reflexivity|].
    f_equal. apply map_ext. intros [[a b] c]. unfold mc_point.
    repeat match goal with |- context [N.testbit ?m ?i] => destruct (N.testbit m i) end;
      repeat match goal with |- context [pair_of ?i] => destruct (pair_of i) end; now rewrite ?Hp, ?Hv.
  Qed.
  Lemma ms_to_lines_ext (p p' : N -> V2) (v v' : N -> T) x :
    (forall c, p c = p' c) -> (forall c, v c = v' c) -> ms_to_lines p v x = ms_to_lines p' v' x.
  Proof.
    intros Hp Hv. unfold ms_to_lines.
    assert (E : ms_index v x = ms_index v' x) by (unfold ms_index; now rewrite !Hv).
    rewrite E. cbv zeta. destruct (sq_edge_mask (ms_index v' x) =? 0)%N; [reflexivity|].
    f_equal. apply map_ext. intros [a b]. unfold ms_point.
    repeat match goal with |- context [N.testbit ?m ?i] => destruct (N.testbit m i) end;
      repeat match goal with |- context [sq_pair_of ?i] => destruct (sq_pair_of i) end; now rewrite ?Hp, ?Hv.
  Qed.

  Lemma sel8_corner {X} (g : pt -> X) v c :
    sel8 (g (oct_corner v 0)) (g (oct_corner v 1)) (g (oct_corner v 2)) (g (oct_corner v 3))
         (g (oct_corner v 4)) (g (oct_corner v 5)) (g (oct_corner v 6)) (g (oct_corner v 7)) c = g (oct_corner v c).
  Proof. destruct c as [|[[[|[]|]|[]|]|[[]|[]|]|]]; reflexivity. Qed.
  Lemma sel4_corner {X} (g : pt2 -> X) v c :
    sel4 (g (quad_corner v 0)) (g (quad_corner v 1)) (g (quad_corner v 2)) (g (quad_corner v 3)) c = g (quad_corner v c).
  Proof. destruct c as [|[[]|[]|]]; reflexivity. Qed.

  (* cell_values_paired for dcache3 / dcache2: whatever the cache holds (as long as it only holds
     values of the field) the eight / four values handed to mcToTriangles / msToLines are the
     field values at the eight / four corner lattice points, and the run of the renderer with
     the cache is the run without it *)
  Theorem octree_cache_refines origin res fv m v s : cache3_ok fv s ->
    fst (octree_st origin res fv m v s) = octree origin res fv m v /\ cache3_ok fv (snd (octree_st origin res fv m v s)).
  Proof.
    intros Hs. unfold octree_st, octree. apply (process_st_ok _ _ _ _ _ _ _ _ (cache3_ok fv)); [| |exact Hs].
    - intros m' v' s' Hs'. unfold oct_empty_st, oct_empty.
      destruct (dc3_evaluate_ok fv (oct_centre m' v') s' Hs') as [E1 E2].
      destruct (dc3_evaluate fv (oct_centre m' v') s') as [d s1]. cbn [fst snd] in *. now subst d.
    - intros v' s0 H0. unfold oct_cell_st, oct_cell.
      destruct (dc3_evaluate_ok fv (oct_corner v' 0) s0 H0) as [E0 H1]. destruct (dc3_evaluate fv (oct_corner v' 0) s0) as [d0 s1]. cbn [fst snd] in E0, H1.
      destruct (dc3_evaluate_ok fv (oct_corner v' 1) s1 H1) as [E1 H2]. destruct (dc3_evaluate fv (oct_corner v' 1) s1) as [d1 s2]. cbn [fst snd] in E1, H2.
      destruct (dc3_evaluate_ok fv (oct_corner v' 2) s2 H2) as [E2 H3]. destruct (dc3_evaluate fv (oct_corner v' 2) s2) as [d2 s3]. cbn [fst snd] in E2, H3.
      destruct (dc3_evaluate_ok fv (oct_corner v' 3) s3 H3) as [E3 H4]. destruct (dc3_evaluate fv (oct_corner v' 3) s3) as [d3 s4]. cbn [fst snd] in E3, H4.
      destruct (dc3_evaluate_ok fv (oct_corner v' 4) s4 H4) as [E4 H5]. destruct (dc3_evaluate fv (oct_corner v' 4) s4) as [d4 s5]. cbn [fst snd] in E4, H5.
      destruct (dc3_evaluate_ok fv (oct_corner v' 5) s5 H5) as [E5 H6]. destruct (dc3_evaluate fv (oct_corner v' 5) s5) as [d5 s6]. cbn [fst snd] in E5, H6.
      destruct (dc3_evaluate_ok fv (oct_corner v' 6) s6 H6) as [E6 H7]. destruct (dc3_evaluate fv (oct_corner v' 6) s6) as [d6 s7]. cbn [fst snd] in E6, H7.
      destruct (dc3_evaluate_ok fv (oct_corner v' 7) s7 H7) as [E7 H8]. destruct (dc3_evaluate fv (oct_corner v' 7) s7) as [d7 s8]. cbn [fst snd] in E7, H8.
      cbn [fst snd]. split; [|exact H8]. subst. apply mc_to_triangles_ext; [reflexivity|]. intros c. apply (sel8_corner fv).
  Qed.

  Theorem quadtree_cache_refines origin res fv m v s : cache2_ok fv s ->
    fst (quadtree_st origin res fv m v s) = quadtree origin res fv m v /\ cache2_ok fv (snd (quadtree_st origin res fv m v s)).
  Proof.
    intros Hs. unfold quadtree_st, quadtree. apply (process_st_ok _ _ _ _ _ _ _ _ (cache2_ok fv)); [| |exact Hs].
    - intros m' v' s' Hs'. unfold quad_empty_st, quad_empty.
      destruct (dc2_evaluate_ok fv (quad_centre m' v') s' Hs') as [E1 E2].
      destruct (dc2_evaluate fv (quad_centre m' v') s') as [d s1]. cbn [fst snd] in *. now subst d.
    - intros v' s0 H0. unfold quad_cell_st, quad_cell.
      destruct (dc2_evaluate_ok fv (quad_corner v' 0) s0 H0) as [E0 H1]. destruct (dc2_evaluate fv (quad_corner v' 0) s0) as [d0 s1]. cbn [fst snd] in E0, H1.
      destruct (dc2_evaluate_ok fv (quad_corner v' 1) s1 H1) as [E1 H2]. destruct (dc2_evaluate fv (quad_corner v' 1) s1) as [d1 s2]. cbn [fst snd] in E1, H2.
      destruct (dc2_evaluate_ok fv (quad_corner v' 2) s2 H2) as [E2 H3]. destruct (dc2_evaluate fv (quad_corner v' 2) s2) as [d2 s3]. cbn [fst snd] in E2, H3.
      destruct (dc2_evaluate_ok fv (quad_corner v' 3) s3 H3) as [E3 H4]. destruct (dc2_evaluate fv (quad_corner v' 3) s3) as [d3 s4]. cbn [fst snd] in E3, H4.
      cbn [fst snd]. split; [|exact H4]. subst. apply ms_to_lines_ext; [reflexivity|]. intros c. apply (sel4_corner fv).
  Qed.
End Oct.

(* ================================================================== soundness over the reals *)
Open Scope R_scope.

Definition lip3 (f : RV3 -> R) : Prop := forall p q, Rabs (f p - f q) <= dist3 p q.
Definition lip2 (f : RV2 -> R) : Prop := forall p q, Rabs (f p - f q) <= dist2 p q.

Lemma edge_mask_0 : edge_mask 0 = 0%N /\ edge_mask 255 = 0%N.
Proof. split; vm_compute; reflexivity. Qed.
Lemma sq_edge_mask_0 : sq_edge_mask 0 = 0%N /\ sq_edge_mask 15 = 0%N.
Proof. split; vm_compute; reflexivity. Qed.

Lemma sqrt3_sq : sqrt 3 * sqrt 3 = 3.
Proof. apply sqrt_sqrt. lra. Qed.
Lemma sqrt2_sq : sqrt 2 * sqrt 2 = 2.
Proof. apply sqrt_sqrt. lra. Qed.
Lemma sqrt_scale k s : 0 <= k -> 0 <= s -> sqrt (k * s * s) = sqrt k * s.
Proof.
  intros Hk Hs. replace (k * s * s) with (k * (s * s)) by ring.
  rewrite sqrt_mult by nra. now rewrite sqrt_square.
Qed.
Lemma pow2_IZR_pos m : 0 < IZR (pow2 m).
Proof. apply IZR_lt. apply pow2_pos. Qed.
Lemma pow2_IZR_S m : IZR (pow2 (S m)) = 2 * IZR (pow2 m).
Proof. rewrite pow2_S, mult_IZR. reflexivity. Qed.
Lemma Rabs_le_inv a b : Rabs a <= b -> - b <= a <= b.
Proof. unfold Rabs. destruct (Rcase_abs a); intros; lra. Qed.
Lemma sq_le_of_abs a P : - P <= a <= P -> a * a <= P * P.
Proof. intros H. nra. Qed.

Section Sound3.
  Variable origin : RV3.
  Variable res : R.
  Hypothesis res_nonneg : 0 <= res.
  Variable f : RV3 -> R.
  Hypothesis Hlip : lip3 f.

  Definition fv3 (vi : pt) : R := f (@oct_point ROps origin res vi).

  (* hdiag_ok: entry i of the table is the half diagonal (sqrt 3 / 2) * side of a cube of side 2^i * res *)
  Lemma hdiag3_R i : @hdiag3 ROps res i = sqrt 3 / 2 * (IZR (pow2 i) * res).
  Proof.
    unfold hdiag3, three. rewrite half_R. rsimp.
    pose proof (pow2_IZR_pos i). rewrite sqrt_scale; [lra | lra | nra].
  Qed.

  Lemma oct_point_sub a b :
    NormR.sub3 (@oct_point ROps origin res a) (@oct_point ROps origin res b) =
    let '(ax, ay, az) := a in let '(bx, by_, bz) := b in
    mkV3 ((IZR ax - IZR bx) * res) ((IZR ay - IZR by_) * res) ((IZR az - IZR bz) * res).
  Proof. destruct a as [[ax ay] az], b as [[bx by_] bz]. unfold NormR.sub3, oct_point. rsimp. cbn [wx wy wz]. f_equal; ring. Qed.

  (* centre_index_ok: v + 2^m is the lattice point in the middle of the cube of level S m at v
     (side 2^(m+1)), so every lattice point of the closed cube is within the half diagonal *)
  Lemma centre_dist m v u : in_cube m v u ->
    dist3 (@oct_point ROps origin res u) (@oct_point ROps origin res (oct_centre m v)) <= @hdiag3 ROps res (S m).
  Proof.
    destruct v as [[vx vy] vz], u as [[ux uy] uz]. intros (Hx & Hy & Hz).
    unfold dist3. rewrite oct_point_sub. unfold oct_centre. cbn [addp].
    rewrite hdiag3_R, pow2_IZR_S. pose proof (pow2_IZR_pos m) as P. set (Pm := IZR (pow2 m)) in *.
    rewrite pow2_S in Hx, Hy, Hz.
    assert (Bx : - Pm <= IZR ux - IZR (vx + pow2 m) <= Pm).
    { rewrite plus_IZR. fold Pm. destruct Hx as [H1 H2]. apply IZR_le in H1, H2. rewrite plus_IZR, mult_IZR in H2. fold Pm in H2. lra. }
    assert (By : - Pm <= IZR uy - IZR (vy + pow2 m) <= Pm).
    { rewrite plus_IZR. fold Pm. destruct Hy as [H1 H2]. apply IZR_le in H1, H2. rewrite plus_IZR, mult_IZR in H2. fold Pm in H2. lra. }
    assert (Bz : - Pm <= IZR uz - IZR (vz + pow2 m) <= Pm).
    { rewrite plus_IZR. fold Pm. destruct Hz as [H1 H2]. apply IZR_le in H1, H2. rewrite plus_IZR, mult_IZR in H2. fold Pm in H2. lra. }
    apply sq_le_of_abs in Bx, By, Bz.
    set (a := IZR ux - IZR (vx + pow2 m)) in *. set (b := IZR uy - IZR (vy + pow2 m)) in *. set (c := IZR uz - IZR (vz + pow2 m)) in *.
    pose proof (sqrt_pos 3) as S3. pose proof sqrt3_sq as Q3.
    apply len3_le; cbn [wx wy wz].
    - apply Rmult_le_pos; [lra | nra].
    - assert (E : sqrt 3 / 2 * (2 * Pm * res) * (sqrt 3 / 2 * (2 * Pm * res)) = (sqrt 3 * sqrt 3) * (Pm * Pm * (res * res))) by field.
      rewrite E, Q3. pose proof (Rle_0_sqr res) as R2. unfold Rsqr in R2. nra.
  Qed.

  (* the eight corners of the cube are exactly at that distance: the table entry IS the half diagonal *)
  Lemma centre_corner_dist m v c :
    dist3 (@oct_point ROps origin res (addp v (scalep (pow2 (S m)) (corner_off c)))) (@oct_point ROps origin res (oct_centre m v))
    = @hdiag3 ROps res (S m).
  Proof.
    destruct v as [[vx vy] vz]. destruct (corner_off_cases c) as (a & b & d & -> & Ha & Hb & Hd).
    unfold dist3. cbn [scalep addp oct_centre]. rewrite oct_point_sub.
    rewrite hdiag3_R, pow2_IZR_S. pose proof (pow2_IZR_pos m) as P.
    rewrite !plus_IZR, !mult_IZR, pow2_IZR_S. set (Pm := IZR (pow2 m)) in *.
    pose proof (sqrt_pos 3) as S3. pose proof sqrt3_sq as Q3.
    assert (T0 : 0 <= sqrt 3 / 2 * (2 * Pm * res)) by (apply Rmult_le_pos; [lra | nra]).
    rewrite <- (sqrt_square _ T0). unfold len3. cbn [wx wy wz]. f_equal.
    assert (E : sqrt 3 / 2 * (2 * Pm * res) * (sqrt 3 / 2 * (2 * Pm * res)) = (sqrt 3 * sqrt 3) * (Pm * Pm * (res * res))) by field.
    rewrite E, Q3.
    destruct Ha as [-> | ->], Hb as [-> | ->], Hd as [-> | ->]; ring.
  Qed.

  (* empty_cube_sound: |f(centre)| > half diagonal  =>  every lattice point of the closed cube has
     the strict sign of f(centre) *)
  Theorem empty_cube_sound m v : @oct_empty ROps res fv3 m v = true ->
    (0 < fv3 (oct_centre m v) /\ forall u, in_cube m v u -> 0 < fv3 u) \/
    (fv3 (oct_centre m v) < 0 /\ forall u, in_cube m v u -> fv3 u < 0).
  Proof.
    unfold oct_empty. rsimp. intros E. apply Rltb_true in E.
    assert (D : forall u, in_cube m v u -> Rabs (fv3 u - fv3 (oct_centre m v)) <= @hdiag3 ROps res (S m)).
    { intros u Hu. eapply Rle_trans; [apply Hlip | now apply centre_dist]. }
    destruct (Rle_dec 0 (fv3 (oct_centre m v))) as [Hc|Hc].
    - left. rewrite Rabs_pos_eq in E by exact Hc.
      assert (P0 : 0 <= @hdiag3 ROps res (S m)).
      { rewrite hdiag3_R. pose proof (pow2_IZR_pos (S m)). pose proof (sqrt_pos 3). apply Rmult_le_pos; [lra | nra]. }
      split; [lra|]. intros u Hu. specialize (D u Hu). apply Rabs_le_inv in D. lra.
    - right. rewrite Rabs_left in E by lra. split; [lra|]. intros u Hu. specialize (D u Hu). apply Rabs_le_inv in D. lra.
  Qed.

  Lemma cfg_all_false : cfg_of_bools false false false false false false false false = 0%N.
  Proof. reflexivity. Qed.
  Lemma cfg_all_true : cfg_of_bools true true true true true true true true = 255%N.
  Proof. reflexivity. Qed.

  (* a cell whose eight corner values have one strict sign emits nothing *)
  Lemma one_sign_cell_empty (p : N -> RV3) (val : N -> R) :
    (forall c, 0 < val c) \/ (forall c, val c < 0) -> @mc_to_triangles ROps p val 0 = [].
  Proof.
    intros H. unfold mc_to_triangles, mc_index. rsimp.
    destruct H as [H|H].
    - assert (B : forall c, Rltb (val c) 0 = false) by (intros c; apply Rltb_false; specialize (H c); lra).
      rewrite !B, cfg_all_false, (proj1 edge_mask_0). reflexivity.
    - assert (B : forall c, Rltb (val c) 0 = true) by (intros c; apply Rltb_true; apply H).
      rewrite !B, cfg_all_true, (proj2 edge_mask_0). reflexivity.
  Qed.

  Lemma pruned_cells_empty m v : @oct_empty ROps res fv3 m v = true ->
    forall u, In u (oct_leaves m v) -> @oct_cell ROps origin res fv3 u = [].
  Proof.
    intros E u Hu. apply oct_leaves_spec in Hu. unfold oct_cell. apply one_sign_cell_empty.
    destruct (empty_cube_sound m v E) as [[_ H]|[_ H]]; [left | right]; intros c; apply H; now apply cell_corner_in_cube.
  Qed.

  (* C07, 3D: the octree renderer emits exactly what evaluating every finest cell would emit *)
  Theorem octree_eq_uniform m v : @octree ROps origin res fv3 m v = @oct_uniform ROps origin res fv3 m v.
  Proof. unfold octree, oct_uniform. apply process_leaves. exact pruned_cells_empty. Qed.

  Theorem octree_perm_row_major m v :
    Permutation (@octree ROps origin res fv3 m v) (flat_map (@oct_cell ROps origin res fv3) (cells_row_major m v)).
  Proof. rewrite octree_eq_uniform. unfold oct_uniform. apply Permutation_flat_map, oct_leaves_perm. Qed.

  (* with the distance cache, from any cache that holds field values only (in particular the empty one) *)
  Theorem octree_cached_eq_uniform m v s : cache3_ok fv3 s ->
    fst (@octree_st ROps origin res fv3 m v s) = @oct_uniform ROps origin res fv3 m v.
  Proof. intros Hs. rewrite (proj1 (octree_cache_refines origin res fv3 m v s Hs)). apply octree_eq_uniform. Qed.
End Sound3.

Section Sound2.
  Variable origin : RV2.
  Variable res : R.
  Hypothesis res_nonneg : 0 <= res.
  Variable f : RV2 -> R.
  Hypothesis Hlip : lip2 f.

  Definition fv2 (vi : pt2) : R := f (@quad_point ROps origin res vi).

  Lemma hdiag2_R i : @hdiag2 ROps res i = sqrt 2 / 2 * (IZR (pow2 i) * res).
  Proof.
    unfold hdiag2, two. rewrite half_R. rsimp.
    pose proof (pow2_IZR_pos i). replace (1 + 1) with 2 by ring. rewrite sqrt_scale; [lra | lra | nra].
  Qed.

  Lemma quad_point_sub a b :
    sub2 (@quad_point ROps origin res a) (@quad_point ROps origin res b) =
    mkV2 ((IZR (fst a) - IZR (fst b)) * res) ((IZR (snd a) - IZR (snd b)) * res).
  Proof. unfold sub2, quad_point. rsimp. cbn [vx vy]. f_equal; ring. Qed.

  Lemma centre_dist2 m v u : in_square m v u ->
    dist2 (@quad_point ROps origin res u) (@quad_point ROps origin res (quad_centre m v)) <= @hdiag2 ROps res (S m).
  Proof.
    destruct v as [vx vy], u as [ux uy]. intros (Hx & Hy). cbn [fst snd] in Hx, Hy.
    unfold dist2. rewrite quad_point_sub. unfold quad_centre, addp2. cbn [fst snd].
    rewrite hdiag2_R, pow2_IZR_S. pose proof (pow2_IZR_pos m) as P. set (Pm := IZR (pow2 m)) in *.
    rewrite pow2_S in Hx, Hy.
    assert (Bx : - Pm <= IZR ux - IZR (vx + pow2 m) <= Pm).
    { rewrite plus_IZR. fold Pm. destruct Hx as [H1 H2]. apply IZR_le in H1, H2. rewrite plus_IZR, mult_IZR in H2. fold Pm in H2. lra. }
    assert (By : - Pm <= IZR uy - IZR (vy + pow2 m) <= Pm).
    { rewrite plus_IZR. fold Pm. destruct Hy as [H1 H2]. apply IZR_le in H1, H2. rewrite plus_IZR, mult_IZR in H2. fold Pm in H2. lra. }
    apply sq_le_of_abs in Bx, By.
    set (a := IZR ux - IZR (vx + pow2 m)) in *. set (b := IZR uy - IZR (vy + pow2 m)) in *.
    pose proof (sqrt_pos 2) as S2. pose proof sqrt2_sq as Q2.
    apply len2_le; cbn [Vec.vx Vec.vy].
    - apply Rmult_le_pos; [lra | nra].
    - assert (E : sqrt 2 / 2 * (2 * Pm * res) * (sqrt 2 / 2 * (2 * Pm * res)) = (sqrt 2 * sqrt 2) * (Pm * Pm * (res * res))) by field.
      rewrite E, Q2. pose proof (Rle_0_sqr res) as R2. unfold Rsqr in R2. nra.
  Qed.

  Lemma centre_corner_dist2 m v c :
    dist2 (@quad_point ROps origin res (addp2 v (scalep2 (pow2 (S m)) (sq_corner_off c)))) (@quad_point ROps origin res (quad_centre m v))
    = @hdiag2 ROps res (S m).
  Proof.
    destruct v as [vx vy]. destruct (sq_corner_off_cases c) as (a & b & -> & Ha & Hb).
    unfold dist2. rewrite quad_point_sub. unfold quad_centre, addp2, scalep2. cbn [fst snd].
    rewrite hdiag2_R, pow2_IZR_S. pose proof (pow2_IZR_pos m) as P.
    rewrite !plus_IZR, !mult_IZR, pow2_IZR_S. set (Pm := IZR (pow2 m)) in *.
    pose proof (sqrt_pos 2) as S2. pose proof sqrt2_sq as Q2.
    assert (T0 : 0 <= sqrt 2 / 2 * (2 * Pm * res)) by (apply Rmult_le_pos; [lra | nra]).
    rewrite <- (sqrt_square _ T0). unfold len2. cbn [Vec.vx Vec.vy]. f_equal.
    assert (E : sqrt 2 / 2 * (2 * Pm * res) * (sqrt 2 / 2 * (2 * Pm * res)) = (sqrt 2 * sqrt 2) * (Pm * Pm * (res * res))) by field.
    rewrite E, Q2.
    destruct Ha as [-> | ->], Hb as [-> | ->]; ring.
  Qed.

  Theorem empty_square_sound m v : @quad_empty ROps res fv2 m v = true ->
    (0 < fv2 (quad_centre m v) /\ forall u, in_square m v u -> 0 < fv2 u) \/
    (fv2 (quad_centre m v) < 0 /\ forall u, in_square m v u -> fv2 u < 0).
  Proof.
    unfold quad_empty. rsimp. intros E. apply Rltb_true in E.
    assert (D : forall u, in_square m v u -> Rabs (fv2 u - fv2 (quad_centre m v)) <= @hdiag2 ROps res (S m)).
    { intros u Hu. eapply Rle_trans; [apply Hlip | now apply centre_dist2]. }
    destruct (Rle_dec 0 (fv2 (quad_centre m v))) as [Hc|Hc].
    - left. rewrite Rabs_pos_eq in E by exact Hc.
      assert (P0 : 0 <= @hdiag2 ROps res (S m)).
      { rewrite hdiag2_R. pose proof (pow2_IZR_pos (S m)). pose proof (sqrt_pos 2). apply Rmult_le_pos; [lra | nra]. }
      split; [lra|]. intros u Hu. specialize (D u Hu). apply Rabs_le_inv in D. lra.
    - right. rewrite Rabs_left in E by lra. split; [lra|]. intros u Hu. specialize (D u Hu). apply Rabs_le_inv in D. lra.
  Qed.

  Lemma one_sign_square_empty (p : N -> RV2) (val : N -> R) :
    (forall c, 0 < val c) \/ (forall c, val c < 0) -> @ms_to_lines ROps p val 0 = [].
  Proof.
    intros H. unfold ms_to_lines, ms_index. rsimp.
    destruct H as [H|H].
    - assert (B : forall c, Rltb (val c) 0 = false) by (intros c; apply Rltb_false; specialize (H c); lra).
      rewrite !B. change (sq_of_bools false false false false) with 0%N. rewrite (proj1 sq_edge_mask_0). reflexivity.
    - assert (B : forall c, Rltb (val c) 0 = true) by (intros c; apply Rltb_true; apply H).
      rewrite !B. change (sq_of_bools true true true true) with 15%N. rewrite (proj2 sq_edge_mask_0). reflexivity.
  Qed.

  Lemma pruned_squares_empty m v : @quad_empty ROps res fv2 m v = true ->
    forall u, In u (quad_leaves m v) -> @quad_cell ROps origin res fv2 u = [].
  Proof.
    intros E u Hu. apply quad_leaves_spec in Hu. unfold quad_cell. apply one_sign_square_empty.
    destruct (empty_square_sound m v E) as [[_ H]|[_ H]]; [left | right]; intros c; apply H; now apply cell_corner_in_square.
  Qed.

  Theorem quadtree_eq_uniform m v : @quadtree ROps origin res fv2 m v = @quad_uniform ROps origin res fv2 m v.
  Proof. unfold quadtree, quad_uniform. apply process_leaves. exact pruned_squares_empty. Qed.

  Theorem quadtree_perm_row_major m v :
    Permutation (@quadtree ROps origin res fv2 m v) (flat_map (@quad_cell ROps origin res fv2) (cells2_row_major m v)).
  Proof. rewrite quadtree_eq_uniform. unfold quad_uniform. apply Permutation_flat_map, quad_leaves_perm. Qed.

  Theorem quadtree_cached_eq_uniform m v s : cache2_ok fv2 s ->
    fst (@quadtree_st ROps origin res fv2 m v s) = @quad_uniform ROps origin res fv2 m v.
  Proof. intros Hs. rewrite (proj1 (quadtree_cache_refines origin res fv2 m v s Hs)). apply quadtree_eq_uniform. Qed.
End Sound2.

(* ------------------------------------------------------------------ instances and constants *)
Lemma sphere_lip3 c R : lip3 (fun p => dist3 p c - R).
Proof.
  intros p q. replace (dist3 p c - R - (dist3 q c - R)) with (dist3 p c - dist3 q c) by ring.
  unfold dist3. eapply Rle_trans; [apply len3_lip|]. right.
  unfold dist3, len3, NormR.sub3. cbn [wx wy wz]. f_equal. ring.
Qed.
Lemma circle_lip2 c R : lip2 (fun p => dist2 p c - R).
Proof.
  intros p q. replace (dist2 p c - R - (dist2 q c - R)) with (dist2 p c - dist2 q c) by ring.
  unfold dist2. eapply Rle_trans; [apply len2_lip|]. right.
  unfold dist2, len2, NormR.sub2. cbn [vx vy]. f_equal. ring.
Qed.

(* the classical constants: half diagonal / side of a cube and of a square *)
From Interval Require Import Tactic.
Lemma half_diagonal_constants :
  0.8660254037 < sqrt 3 / 2 < 0.8660254038 /\ 0.7071067811 < sqrt 2 / 2 < 0.7071067812.
Proof. split; split; interval. Qed.

(* ================================================================== the original comparison >= *)
(* isEmpty as it was before fix 1b3e70c: prune when |f(centre)| >= hdiag.  Over the reals there is a
   1-Lipschitz field (the union of the circle circumscribed about one finest square with a second
   circle covering its two upper corners) for which that renderer emits nothing although the
   evaluation of the cell emits the segment along its lower side. *)
Definition quad_empty_ge {O : Ops} (res : T O) (fv : pt2 -> T O) (m : nat) (v : pt2) : bool :=
  oleb O (hdiag2 res (S m)) (oabs O (fv (quad_centre m v))).
Definition quadtree_ge {O : Ops} (origin : V2 O) (res : T O) (fv : pt2 -> T O) (m : nat) (v : pt2) : list (V2 O * V2 O) :=
  process quad_children (quad_empty_ge res fv) (quad_cell origin res fv) m v.

Lemma Rmin_lip2 (g h : RV2 -> R) : lip2 g -> lip2 h -> lip2 (fun p => Rmin (g p) (h p)).
Proof.
  intros Lg Lh p q. specialize (Lg p q). specialize (Lh p q). apply Rabs_le_inv in Lg, Lh. apply Rabs_le.
  unfold Rmin. destruct (Rle_dec (g p) (h p)), (Rle_dec (g q) (h q)); lra.
Qed.

(* a square whose two lower corners have value 0 and whose two upper corners have the same value
   w <= -epsilon: msToLines returns the lower side *)
Lemma lower_side_segment (p : N -> RV2) (val : N -> R) w :
  val 0%N = 0 -> val 1%N = 0 -> val 2%N = w -> val 3%N = w -> w <= - @eps ROps -> p 0%N <> p 1%N ->
  @ms_to_lines ROps p val 0 = [(p 0%N, p 1%N)].
Proof.
  intros V0 V1 V2 V3 Hw Hp. pose proof eps_pos as E.
  assert (M : sq_edge_mask 12 = 10%N) by (vm_compute; reflexivity).
  assert (Lr : local_lines 12 = [(3%N, 1%N)]) by (vm_compute; reflexivity).
  assert (P3 : sq_pair_of 3 = (3%N, 0%N)) by (vm_compute; reflexivity).
  assert (P1 : sq_pair_of 1 = (1%N, 2%N)) by (vm_compute; reflexivity).
  unfold ms_to_lines, ms_index. rsimp. rewrite V0, V1, V2, V3.
  assert (B0 : Rltb 0 0 = false) by (apply Rltb_false; lra).
  assert (Bw : Rltb w 0 = true) by (apply Rltb_true; lra).
  rewrite B0, Bw. change (sq_of_bools false false true true) with 12%N. rewrite M, Lr.
  change ((10 =? 0)%N) with false. cbn [map].
  unfold ms_point. rewrite M. change (N.testbit 10 3) with true. change (N.testbit 10 1) with true.
  rewrite P3, P1, V0, V1, V2, V3.
  assert (C0 : Rltb (Rabs (0 - 0)) (@eps ROps) = true) by (apply Rltb_true; rewrite Rminus_0_r, Rabs_R0; exact E).
  assert (Cw : Rltb (Rabs (0 - w)) (@eps ROps) = false) by (apply Rltb_false; rewrite Rminus_0_l, Rabs_Ropp, Rabs_left1 by lra; lra).
  unfold ms_interpolate, interp_pick. rsimp. rewrite C0, Cw. cbn [andb negb].
  cbn [filter]. unfold line2_degenerate. cbn [fst snd]. rewrite (proj2 tol_zero).
  change (o0 ROps) with 0. rewrite v2_equals_zero.
  destruct (v2_eqbR (p 0%N) (p 1%N)) eqn:Q; [apply v2_eqbR_ok in Q; contradiction | reflexivity].
Qed.

Definition tie_field (p : RV2) : R := Rmin (dist2 p (mkV2 1 1) - sqrt 2) (dist2 p (mkV2 1 3) - 2).

Lemma dist2_val (a b c d s : R) : 0 <= s -> (a - c) * (a - c) + (b - d) * (b - d) = s * s -> dist2 (mkV2 a b) (mkV2 c d) = s.
Proof. intros Hs H. unfold dist2, len2, NormR.sub2. cbn [vx vy]. rewrite H. now apply sqrt_square. Qed.

Theorem ge_variant_loses_segment :
  lip2 tie_field /\
  @quadtree_ge ROps (mkV2 0 0) 1 (fv2 (mkV2 0 0) 1 tie_field) 0 (0, 0)%Z = [] /\
  @quad_uniform ROps (mkV2 0 0) 1 (fv2 (mkV2 0 0) 1 tie_field) 0 (0, 0)%Z = [(mkV2 0 0, mkV2 2 0)].
Proof.
  pose proof (sqrt_pos 2) as S2. pose proof sqrt2_sq as Q2. pose proof (sqrt_pos 10) as S10.
  assert (Q10 : sqrt 10 * sqrt 10 = 10) by (apply sqrt_sqrt; lra).
  assert (B2 : 1 < sqrt 2 < 3 / 2) by (split; nra). assert (B10 : 3 < sqrt 10) by nra.
  split; [apply Rmin_lip2; apply circle_lip2|]. split.
  - unfold quadtree_ge. cbn [process]. unfold quad_empty_ge. rewrite hdiag2_R by lra.
    unfold fv2, quad_centre, quad_point, addp2, pow2. cbn [fst snd vx vy Z.of_nat Z.pow Z.pow_pos Pos.iter Z.mul Pos.mul Z.add]. rsimp.
    replace (0 + 1 * 1) with 1 by ring. unfold tie_field.
    rewrite (dist2_val 1 1 1 1 0) by lra. rewrite (dist2_val 1 1 1 3 2) by lra.
    assert (Em : Rmin (0 - sqrt 2) (2 - 2) = - sqrt 2) by (unfold Rmin; destruct (Rle_dec (0 - sqrt 2) (2 - 2)); lra).
    rewrite Em, Rabs_Ropp, Rabs_pos_eq by lra.
    match goal with |- (if Rleb ?a ?b then _ else _) = _ => assert (Le : Rleb a b = true) end.
    { apply Rleb_true. change (IZR (Z.pow_pos 2 (Pos.of_succ_nat 0))) with 2. lra. }
    now rewrite Le.
  - unfold quad_uniform. cbn [quad_leaves leaves flat_map]. rewrite app_nil_r. unfold quad_cell.
    set (P := fun c : N => @quad_point ROps (mkV2 0 0) 1 (quad_corner (0, 0)%Z c)).
    set (V := fun c : N => fv2 (mkV2 0 0) 1 tie_field (quad_corner (0, 0)%Z c)).
    assert (P0 : P 0%N = mkV2 0 0) by (unfold P, quad_point, quad_corner, addp2, scalep2; cbn [sq_corner_off fst snd Z.mul Z.add vx vy]; rsimp; f_equal; lra).
    assert (P1 : P 1%N = mkV2 2 0) by (unfold P, quad_point, quad_corner, addp2, scalep2; cbn [sq_corner_off fst snd Z.mul Z.add Pos.mul vx vy]; rsimp; f_equal; lra).
    assert (P2 : P 2%N = mkV2 2 2) by (unfold P, quad_point, quad_corner, addp2, scalep2; cbn [sq_corner_off fst snd Z.mul Z.add Pos.mul vx vy]; rsimp; f_equal; lra).
    assert (P3 : P 3%N = mkV2 0 2) by (unfold P, quad_point, quad_corner, addp2, scalep2; cbn [sq_corner_off fst snd Z.mul Z.add Pos.mul vx vy]; rsimp; f_equal; lra).
    assert (V0 : V 0%N = 0).
    { unfold V, fv2. fold (P 0%N). rewrite P0. unfold tie_field.
      rewrite (dist2_val 0 0 1 1 (sqrt 2)) by lra. rewrite (dist2_val 0 0 1 3 (sqrt 10)) by lra.
      unfold Rmin; destruct (Rle_dec (sqrt 2 - sqrt 2) (sqrt 10 - 2)); lra. }
    assert (V1 : V 1%N = 0).
    { unfold V, fv2. fold (P 1%N). rewrite P1. unfold tie_field.
      rewrite (dist2_val 2 0 1 1 (sqrt 2)) by lra. rewrite (dist2_val 2 0 1 3 (sqrt 10)) by lra.
      unfold Rmin; destruct (Rle_dec (sqrt 2 - sqrt 2) (sqrt 10 - 2)); lra. }
    assert (V2 : V 2%N = sqrt 2 - 2).
    { unfold V, fv2. fold (P 2%N). rewrite P2. unfold tie_field.
      rewrite (dist2_val 2 2 1 1 (sqrt 2)) by lra. rewrite (dist2_val 2 2 1 3 (sqrt 2)) by lra.
      unfold Rmin; destruct (Rle_dec (sqrt 2 - sqrt 2) (sqrt 2 - 2)); lra. }
    assert (V3 : V 3%N = sqrt 2 - 2).
    { unfold V, fv2. fold (P 3%N). rewrite P3. unfold tie_field.
      rewrite (dist2_val 0 2 1 1 (sqrt 2)) by lra. rewrite (dist2_val 0 2 1 3 (sqrt 2)) by lra.
      unfold Rmin; destruct (Rle_dec (sqrt 2 - sqrt 2) (sqrt 2 - 2)); lra. }
    change (@ms_to_lines ROps P V 0 = [(mkV2 0 0, mkV2 2 0)]).
    rewrite (lower_side_segment P V (sqrt 2 - 2) V0 V1 V2 V3).
    + now rewrite P0, P1.
    + assert (Ee : @eps ROps <= 1 / 2).
      { unfold eps, cst. rsimp. apply (Rmult_le_reg_r (IZR epsilon_den)); [apply IZR_lt; vm_compute; reflexivity|].
        unfold Rdiv. rewrite Rmult_assoc, Rinv_l by (apply not_0_IZR; vm_compute; discriminate).
        rewrite Rmult_1_r. replace (1 * / 2 * IZR epsilon_den) with (IZR epsilon_den / 2) by (unfold Rdiv; ring).
        assert (X : IZR epsilon_num * 2 <= IZR epsilon_den) by (rewrite <- mult_IZR; apply IZR_le; vm_compute; discriminate). lra. }
      lra.
    + rewrite P0, P1. intros X. injection X as X. lra.
Qed.
