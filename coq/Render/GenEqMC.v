(* The syntactic tie for mcToTriangles (render/march3.go): the definition generated from the Go
   AST (Generated/RenderExpr.v: the index loop, the edge-point loop over mcEdgeTable / mcPairTable,
   the triangle loop over mcTriangleTable with the reversed winding and the Degenerate(0) filter)
   equals the model Interp.mc_to_triangles for all corner positions, values and levels, over an
   arbitrary Ops.  Method: the interpolation and the degeneracy test (tied separately:
   mcInterpolate_eq, Triangle3_Degenerate_eq) are abstracted as variables on both sides; the eight
   comparisons v[i] < x are split, and in each of the 256 configurations both sides are computed
   (vm_compute: loops, tables, index arithmetic) and compared; the triangle loop is first turned
   into the filter the model uses (RgLib.zfor_collect). *)
From Coq Require Import ZArith NArith List Bool Lia.
From Sdfx Require Import Num.Ops Geo.Vec Generated.MarchTables Render.MC Render.Interp Render.Octree
  Render.RgLib Generated.RenderExpr Render.GenEqRender.
Import OpsNotations ListNotations.
Local Open Scope ops_scope.

Section GenEqMC.
  Context {O : Ops}.
  Notation T := (T O).
  Notation V3 := (V3 O).

  (* mc_to_triangles with the interpolation and the degeneracy test as parameters *)
  Definition mc_to_triangles_with (F : V3 -> V3 -> T -> T -> T -> V3) (D : V3 * V3 * V3 -> T -> bool)
             (p : N -> V3) (v : N -> T) (x : T) : list (V3 * V3 * V3) :=
    let index := mc_index v x in
    if (edge_mask index =? 0)%N then []
    else
      let pts := fun i => if N.testbit (edge_mask index) i
                          then let '(a, b) := pair_of i in F (p a) (p b) (v a) (v b) x else v3zero in
      filter (fun t => negb (D t (o0 O)))
             (map (fun t : N * N * N => let '(a, b, c) := t in (pts a, pts b, pts c)) (local_tris index)).

  Lemma mc_with_model p v x : mc_to_triangles_with mc_interpolate tri3_degenerate p v x = mc_to_triangles p v x.
  Proof. same_as TRANSL_render_mcToTriangles. Qed.

  Lemma mc_with_ext F F' D D' p v x :
    (forall a b c d e, F a b c d e = F' a b c d e) -> (forall t tol, D t tol = D' t tol) ->
    mc_to_triangles_with F D p v x = mc_to_triangles_with F' D' p v x.
  Proof.
    intros HF HD. unfold mc_to_triangles_with. cbv zeta. destruct (edge_mask (mc_index v x) =? 0)%N; [reflexivity|].
    erewrite filter_ext by (intros t; rewrite HD; reflexivity). f_equal.
    apply map_ext. intros [[a b] c].
    repeat match goal with |- context [N.testbit ?m ?i] => destruct (N.testbit m i) end;
      repeat match goal with |- context [pair_of ?i] => destruct (pair_of i) end; now rewrite ?HF.
  Qed.

  Ltac mc_case D :=
    vm_compute;
    first [ reflexivity
          | repeat match goal with |- context [D ?t ?tol] => destruct (D t tol) end; reflexivity
          | fail 1 "TRANSL_render_mcToTriangles: the generated mcToTriangles differs from the model on a configuration" ].

  Lemma mcToTriangles_eq : forall (p0 p1 p2 p3 p4 p5 p6 p7 : V3) (v0 v1 v2 v3 v4 v5 v6 v7 x : T),
      rg_render_mcToTriangles [p0; p1; p2; p3; p4; p5; p6; p7] [v0; v1; v2; v3; v4; v5; v6; v7] x =
      mc_to_triangles (sel8 p0 p1 p2 p3 p4 p5 p6 p7) (sel8 v0 v1 v2 v3 v4 v5 v6 v7) x.
  Proof.
    intros. rewrite <- mc_with_model.
    rewrite <- (mc_with_ext _ _ _ _ _ _ _ mcInterpolate_eq Triangle3_Degenerate_eq).
    unfold rg_render_mcToTriangles, mc_to_triangles_with, mc_index. cbv beta iota delta [sel8].
    generalize (@rg_render_mcInterpolate O) (@rg_sdf_Triangle3_Degenerate O). intros F D.
    autounfold with rg_helpers.
    (* the loop computing the configuration index: the one loop whose state is an integer *)
    match goal with
    | |- context [@zfor Z ?lo ?hi ?f ?s] => set (idx := @zfor Z lo hi f s)
    | |- context [@fold_left Z ?B ?f ?l ?s] => set (idx := @fold_left Z B f l s)
    end.
    assert (IDX : idx = Z.of_N (cfg_of_bools (v0 <? x) (v1 <? x) (v2 <? x) (v3 <? x) (v4 <? x) (v5 <? x) (v6 <? x) (v7 <? x))).
    { subst idx. cbv -[oltb o0].
      destruct (oltb O v0 x), (oltb O v1 x), (oltb O v2 x), (oltb O v3 x), (oltb O v4 x), (oltb O v5 x), (oltb O v6 x), (oltb O v7 x);
        first [ reflexivity | fail 1 "TRANSL_render_mcToTriangles: the configuration index is not the sum of 1<<i over the corners with v[i] < x" ]. }
    clearbody idx. subst idx.
    (* the triangle loop collects the non-degenerate triangles: a filter *)
    cbv zeta.
    (* (when the loop is written differently the configurations are still compared, more slowly) *)
    try first [ erewrite (zfor_collect _ _ _ (fun t => negb (D t (o0 O)))) by (intros; reflexivity)
              | erewrite (zfor_collect_not _ _ _ (fun t => D t (o0 O))) by (intros; reflexivity) ].
    destruct (oltb O v0 x), (oltb O v1 x), (oltb O v2 x), (oltb O v3 x).
    all: destruct (oltb O v4 x), (oltb O v5 x), (oltb O v6 x), (oltb O v7 x).
    all: mc_case D.
  Qed.

  (* the same for corner positions / values given as any lists of eight elements (built by a literal, a
     loop, a helper) *)
  Lemma mcToTriangles_list_eq : forall (P : list V3) (V : list T) (x : T),
      length P = 8%nat -> length V = 8%nat ->
      rg_render_mcToTriangles P V x =
      mc_to_triangles (sel8 (znth 0 P v3zero) (znth 1 P v3zero) (znth 2 P v3zero) (znth 3 P v3zero)
                            (znth 4 P v3zero) (znth 5 P v3zero) (znth 6 P v3zero) (znth 7 P v3zero))
                      (sel8 (znth 0 V (o0 O)) (znth 1 V (o0 O)) (znth 2 V (o0 O)) (znth 3 V (o0 O))
                            (znth 4 V (o0 O)) (znth 5 V (o0 O)) (znth 6 V (o0 O)) (znth 7 V (o0 O))) x.
  Proof.
    intros P V x HP HV.
    do 9 (destruct P as [|? P]; try discriminate HP). do 9 (destruct V as [|? V]; try discriminate HV).
    apply mcToTriangles_eq.
  Qed.
End GenEqMC.
