(* Correspondence for C06: the FOps instance of Render/Sample.v (lattice arithmetic of
   MarchingCubesUniform.Render / marchingCubes / layerYZ) against a real render:
     - the coordinates at which the real renderer evaluated the field (per axis, in increasing
       order) are the model's evaluation coordinates  base.X + x*dx, accumulated p.Y, p.Z  (so origin,
       cell sizes and cell counts agree) - bit for bit on the unchanged tree; a difference of at most
       1e-12 of the box size still counts as agreement (harmless algebraic rewrites), reported as I_uni3;
     - the triangles the real renderer wrote (in order) are the model's: corner coordinates
       accumulated as in the code, values taken from the two-layer cache at y*(nz+1)+z. *)
From Coq Require Import List ZArith NArith Floats Bool.
From Sdfx Require Import Num.Ops Num.FInst Geo.Vec Geo.Box Generated.MarchTables
  Render.MC Render.MS Render.Lattice Render.Interp Render.Octree Render.Sample Render.C07Corr.
Import ListNotations.

(* id, box min, box max, meshCells, step, api?, (xs, ys, zs), layer values [x][y*(nz+1)+z], go triangles.
   api = true : MarchingCubesUniform{meshCells}.Render on a field with bounding box (min,max);
   api = false: marchingCubes(s, Box3{min,max}, step). *)
Definition ucase3 := (N * f3 * f3 * Z * float * bool * (list float * list float * list float) *
                      list (list float) * list (f3 * f3 * f3))%type.

Definition ulattice (mn mx : f3) (cells : Z) (step : float) (api : bool) : lattice3 FOps :=
  if api then @mcu_lattice FOps (mkBox3 (v3of mn) (v3of mx)) cells
  else @mc_lattice FOps (mkBox3 (v3of mn) (v3of mx)) step.

(* the model's f: the observed value at the lattice point with these coordinates (nearest observed
   coordinate per axis, so that evaluation coordinates differing by rounding still pair up) *)
Fixpoint nearest (x : float) (l : list float) (i best : nat) (bd : float) : nat :=
  match l with
  | [] => best
  | y :: r => let d := PrimFloat.abs (x - y)%float in
              if PrimFloat.ltb d bd then nearest x r (S i) i d else nearest x r (S i) best bd
  end.
Definition index_near (x : float) (l : list float) : nat := nearest x l 0 0 infinity.

Definition uok3 (c : ucase3) : bool * bool :=
  let '(id, mn, mx, cells, step, api, (xs, ys, zs), vals, gt) := c in
  let L := ulattice mn mx cells step api in
  let nx := lnx L in let ny := lny L in let nz := lnz L in
  let sc := size3 mn (let '(x, y, z) := mx in (PrimFloat.abs x + PrimFloat.abs y + PrimFloat.abs z)%float) in
  let mxs := map (fun x => (wx (lbase L) + @natT FOps x * wx (linc L))%float) (seq 0 (S nx)) in
  let mys := map (fun y => @acc FOps (wy (lbase L)) (wy (linc L)) y) (seq 0 (S ny)) in
  let mzs := map (fun z => @acc FOps (wz (lbase L)) (wz (linc L)) z) (seq 0 (S nz)) in
  let f := fun p : V3 FOps =>
             nth (index_near (wy p) ys * S nz + index_near (wz p) zs) (nth (index_near (wx p) xs) vals []) 0%float in
  let tris := @marching_cubes FOps L f in
  (* the lattice: counts exactly, coordinates up to 1e-12 of the size (bit exact reported separately) *)
  let counts := (length xs =? S nx)%nat && (length ys =? S ny)%nat && (length zs =? S nz)%nat in
  (counts && all2 (closeS sc) mxs xs && all2 (closeS sc) mys ys && all2 (closeS sc) mzs zs && all2 (tri_close sc) tris gt,
   counts && all2 fsame mxs xs && all2 fsame mys ys && all2 fsame mzs zs && all2 tri_same tris gt).
Definition uid3 (c : ucase3) : N := let '(id, _, _, _, _, _, _, _, _) := c in id.
Definition umismatches3 (cs : list ucase3) : list N := map uid3 (filter (fun c => negb (fst (uok3 c))) cs).
Definition uinexact3 (cs : list ucase3) : list N := map uid3 (filter (fun c => negb (snd (uok3 c))) cs).
