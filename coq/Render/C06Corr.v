(* Correspondence for C06: the FOps instance of Render/Sample.v (lattice arithmetic of
   MarchingCubesUniform.Render / marchingCubes / layerYZ) against a real render:
     - the coordinates at which the real renderer evaluated the field (per axis, in increasing
       order) are the model's evaluation coordinates  base.X + x*dx, accumulated p.Y, p.Z  bit for bit
       (so origin, cell sizes and cell counts agree);
     - the triangles the real renderer wrote (in order) are the model's: corner coordinates
       accumulated as in the code, values taken from the two-layer cache at y*(nz+1)+z. *)
From Coq Require Import List ZArith NArith Floats Bool.
From Sdfx Require Import Num.Ops Num.FInst Geo.Vec Geo.Box Generated.MarchTables
  Render.MC Render.MS Render.Lattice Render.Interp Render.Octree Render.Sample Render.C07Corr.
Import ListNotations.

Fixpoint index_of (x : float) (l : list float) (i : nat) : nat :=
  match l with
  | [] => i
  | y :: r => if PrimFloat.eqb x y then i else index_of x r (S i)
  end.

(* id, box min, box max, meshCells, step, api?, (xs, ys, zs), layer values [x][y*(nz+1)+z], go triangles.
   api = true : MarchingCubesUniform{meshCells}.Render on a field with bounding box (min,max);
   api = false: marchingCubes(s, Box3{min,max}, step). *)
Definition ucase3 := (N * f3 * f3 * Z * float * bool * (list float * list float * list float) *
                      list (list float) * list (f3 * f3 * f3))%type.

Definition ulattice (mn mx : f3) (cells : Z) (step : float) (api : bool) : lattice3 FOps :=
  if api then @mcu_lattice FOps (mkBox3 (v3of mn) (v3of mx)) cells
  else @mc_lattice FOps (mkBox3 (v3of mn) (v3of mx)) step.

Definition uok3 (c : ucase3) : bool :=
  let '(id, mn, mx, cells, step, api, (xs, ys, zs), vals, gt) := c in
  let L := ulattice mn mx cells step api in
  let nx := lnx L in let ny := lny L in let nz := lnz L in
  (* the lattice *)
  (length xs =? S nx)%nat && (length ys =? S ny)%nat && (length zs =? S nz)%nat &&
  all2 fsame (map (fun x => (wx (lbase L) + @natT FOps x * wx (linc L))%float) (seq 0 (S nx))) xs &&
  all2 fsame (map (fun y => @acc FOps (wy (lbase L)) (wy (linc L)) y) (seq 0 (S ny))) ys &&
  all2 fsame (map (fun z => @acc FOps (wz (lbase L)) (wz (linc L)) z) (seq 0 (S nz))) zs &&
  (* the walk, on the observed values *)
  let f := fun p : V3 FOps =>
             nth (index_of (wy p) ys 0 * S nz + index_of (wz p) zs 0) (nth (index_of (wx p) xs 0) vals []) 0%float in
  all2 tri_same (@marching_cubes FOps L f) gt.
Definition umismatches3 (cs : list ucase3) : list N :=
  map (fun c : ucase3 => let '(id, _, _, _, _, _, _, _, _) := c in id) (filter (fun c => negb (uok3 c)) cs).
