(* The syntactic tie for the recursion step of the hierarchical renderers: dcache3.processCube
   (render/march3x.go) and dcache2.processSquare (render/march2x.go).  harness/rendergen
   translates each as the list of events one activation makes, in order (Generated/RenderExpr.v:
   RgOut = the value handed to output.Write, RgCall = the arguments of a recursive call), with
   dc.isEmpty and dc.evaluate as function parameters.  Proved here, for all arguments over an
   arbitrary Ops:
     level 1:      the eight / four lattice points evaluated are oct_corner / quad_corner in the
                   model's corner order and the output is the model's cell (oct_cell / quad_cell);
     level n > 1:  the eight / four recursive calls are the model's children (oct_children /
                   quad_children: offsets s = 1 << (n-1) in source order) at level n - 1;
     octree_step / quadtree_step: the model recursion Octree.octree / Octree.quadtree is the
                   interpretation (RgLib.run_trace) of the generated step with isEmpty instantiated
                   by the generated isEmpty over the generated hdiag table. *)
From Coq Require Import ZArith NArith List Bool Lia.
From Sdfx Require Import Num.Ops Geo.Vec Generated.MarchTables Render.MC Render.MS Render.Lattice Render.Interp
  Render.Octree Render.RgLib Generated.RenderExpr Render.GenEqRender Render.GenEqMC.
Import OpsNotations ListNotations.
Local Open Scope ops_scope.

Section GenEqOct.
  Context {O : Ops}.
  Notation T := (T O).
  Notation V2 := (V2 O).
  Notation V3 := (V3 O).

  Lemma flat_map_map {A B C} (f : B -> list C) (g : A -> B) l : flat_map f (map g l) = flat_map (fun x => f (g x)) l.
  Proof. induction l as [|x l IH]; cbn [map flat_map]; [reflexivity | now rewrite IH]. Qed.

  Lemma of_nat_SS_neq_1 m : Z.eqb (Z.of_nat (S (S m))) 1 = false.
  Proof. apply Z.eqb_neq. lia. Qed.

  (* ---------------------------------------------------------------- 3D *)
  Section D3.
    Variable origin : V3.
    Variable res : T.
    Variable fv : pt -> T.
    Let ev3 : pt -> V3 * T := fun vi => (oct_point origin res vi, fv vi).

    (* level 1.  Whatever way the eight corner positions / values are collected (a literal, a loop over a
       helper's result, a helper method), the two lists are computed and compared corner by corner. *)
    Lemma processCube_cell_eq (E : (Z * Z * Z) * Z -> bool) (v : Z * Z * Z) :
      rg_render_dcache3_processCube E ev3 v 1 = if E (v, 1%Z) then [] else [RgOut (oct_cell origin res fv v)].
    Proof.
      unfold rg_render_dcache3_processCube. autounfold with rg_helpers. unfold ev3.
      destruct (E (v, 1%Z)); cbn [negb];
        [ z_split; cbv beta iota zeta; trace_norm;
          first [ reflexivity | fail 1 "TRANSL_render_processCube: an empty cube must produce no event" ] | ].
      z_split; cbv beta iota zeta; trace_norm. all: split_pair_lets; trace_norm.
      all: first [ rewrite mcToTriangles_list_eq by (vm_compute; reflexivity)
            | fail 1 "TRANSL_render_processCube: the level-1 cube does not output mcToTriangles of eight corners" ].
      all: unfold oct_cell; first [ do 2 f_equal | fail 1 "TRANSL_render_processCube: the level-1 cube does not make exactly one output" ].
      all: destruct v as [[x y] z].
      all: apply mc_to_triangles_ext; intros c;
        (destruct c as [|[[[|[]|]|[]|]|[[]|[]|]|]];
         first [ reflexivity | fail 1 "TRANSL_render_processCube: the corners of the level-1 cube are not v + 2*corner_off in corner order (positions / values of dc.evaluate)" ]).
    Qed.

    Lemma processCube_node_eq (E : (Z * Z * Z) * Z -> bool) (ev : pt -> V3 * T) (v : Z * Z * Z) (m : nat) :
      rg_render_dcache3_processCube E ev v (Z.of_nat (S (S m))) =
      if E (v, Z.of_nat (S (S m))) then [] else map (fun c => RgCall (c, Z.of_nat (S m))) (oct_children m v).
    Proof.
      unfold rg_render_dcache3_processCube. autounfold with rg_helpers.
      destruct (E (v, Z.of_nat (S (S m)))); cbn [negb];
        [ z_split; cbv beta zeta; trace_norm;
          first [ reflexivity | fail 1 "TRANSL_render_processCube: an empty cube must produce no event" ] | ].
      z_split; cbv beta zeta; trace_norm.
      all: replace (Z.sub (Z.of_nat (S (S m))) 1) with (Z.of_nat (S m)) by lia; rewrite ?shiftl_pow2; trace_norm.
      all: destruct v as [[x y] z]; unfold oct_children, corners8, rg_v3i_Vec_Add. cbn [map corner_off scalep addp fst snd app flat_map].
      all: first [ repeat match goal with
                     | |- _ :: _ = _ :: _ => f_equal
                     | |- RgCall _ = RgCall _ => f_equal
                     | |- (_, _) = (_, _) => f_equal
                     end; lia
            | fail 1 "TRANSL_render_processCube: the eight recursive calls are not the children (s*corner_off, level n-1) in corner order" ].
    Qed.

    (* the model recursion is the interpretation of the generated step *)
    Theorem octree_step (n m : nat) (v : pt) : (S m < n)%nat ->
      octree origin res fv m v =
      run_trace (fun a : pt * Z => octree origin res fv (pred m) (fst a))
                (rg_render_dcache3_processCube (fun a => rg_render_dcache3_isEmpty (hdiag3_table res n) ev3 (fst a) (snd a)) ev3 v (Z.of_nat (S m))).
    Proof.
      intros H. destruct m as [|m].
      - change (Z.of_nat 1) with 1%Z. rewrite processCube_cell_eq. cbn [fst snd].
        replace (rg_render_dcache3_isEmpty (hdiag3_table res n) ev3 v 1) with (oct_empty res fv 0 v)
          by (symmetry; exact (dcache3_isEmpty_eq origin res fv n 0 v H)).
        unfold octree. cbn [process]. destruct (oct_empty res fv 0 v); [reflexivity|].
        unfold run_trace. cbn [flat_map]. now rewrite app_nil_r.
      - rewrite processCube_node_eq. cbn [fst snd]. replace (rg_render_dcache3_isEmpty (hdiag3_table res n) ev3 v (Z.of_nat (S (S m)))) with (oct_empty res fv (S m) v)
          by (symmetry; exact (dcache3_isEmpty_eq origin res fv n (S m) v H)).
        unfold octree. cbn [process pred]. destruct (oct_empty res fv (S m) v); [reflexivity|].
        unfold run_trace. rewrite flat_map_map. reflexivity.
    Qed.
  End D3.

  (* ---------------------------------------------------------------- 2D *)
  Section D2.
    Variable origin : V2.
    Variable res : T.
    Variable fv : pt2 -> T.
    Let ev2 : pt2 -> V2 * T := fun vi => (quad_point origin res vi, fv vi).

    Lemma processSquare_cell_eq (E : (Z * Z) * Z -> bool) (v : Z * Z) :
      rg_render_dcache2_processSquare E ev2 v 1 = if E (v, 1%Z) then [] else [RgOut (quad_cell origin res fv v)].
    Proof.
      unfold rg_render_dcache2_processSquare. autounfold with rg_helpers. unfold ev2.
      destruct (E (v, 1%Z)); cbn [negb];
        [ z_split; cbv beta iota zeta; trace_norm;
          first [ reflexivity | fail 1 "TRANSL_render_processSquare: an empty square must produce no event" ] | ].
      z_split; cbv beta iota zeta; trace_norm. all: split_pair_lets; trace_norm.
      all: first [ rewrite msToLines_list_eq by (vm_compute; reflexivity)
            | fail 1 "TRANSL_render_processSquare: the level-1 square does not output msToLines of four corners" ].
      all: unfold quad_cell; first [ do 2 f_equal | fail 1 "TRANSL_render_processSquare: the level-1 square does not make exactly one output" ].
      all: destruct v as [x y].
      all: apply ms_to_lines_ext; intros c;
        (destruct c as [|[[]|[]|]];
         first [ reflexivity | fail 1 "TRANSL_render_processSquare: the corners of the level-1 square are not v + 2*sq_corner_off in corner order (positions / values of dc.evaluate)" ]).
    Qed.

    Lemma processSquare_node_eq (E : (Z * Z) * Z -> bool) (ev : pt2 -> V2 * T) (v : Z * Z) (m : nat) :
      rg_render_dcache2_processSquare E ev v (Z.of_nat (S (S m))) =
      if E (v, Z.of_nat (S (S m))) then [] else map (fun c => RgCall (c, Z.of_nat (S m))) (quad_children m v).
    Proof.
      unfold rg_render_dcache2_processSquare. autounfold with rg_helpers.
      destruct (E (v, Z.of_nat (S (S m)))); cbn [negb];
        [ z_split; cbv beta zeta; trace_norm;
          first [ reflexivity | fail 1 "TRANSL_render_processSquare: an empty square must produce no event" ] | ].
      z_split; cbv beta zeta; trace_norm.
      all: replace (Z.sub (Z.of_nat (S (S m))) 1) with (Z.of_nat (S m)) by lia; rewrite ?shiftl_pow2; trace_norm.
      all: destruct v as [x y]; unfold quad_children, corners4, rg_v2i_Vec_Add, addp2, scalep2. cbn [map sq_corner_off fst snd app flat_map].
      first [ repeat match goal with
                     | |- _ :: _ = _ :: _ => f_equal
                     | |- RgCall _ = RgCall _ => f_equal
                     | |- (_, _) = (_, _) => f_equal
                     end; lia
            | fail 1 "TRANSL_render_processSquare: the four recursive calls are not the children (s*sq_corner_off, level n-1) in corner order" ].
    Qed.

    Theorem quadtree_step (n m : nat) (v : pt2) : (S m < n)%nat ->
      quadtree origin res fv m v =
      run_trace (fun a : pt2 * Z => quadtree origin res fv (pred m) (fst a))
                (rg_render_dcache2_processSquare (fun a => rg_render_dcache2_isEmpty (hdiag2_table res n) ev2 (fst a) (snd a)) ev2 v (Z.of_nat (S m))).
    Proof.
      intros H. destruct m as [|m].
      - change (Z.of_nat 1) with 1%Z. rewrite processSquare_cell_eq. cbn [fst snd].
        replace (rg_render_dcache2_isEmpty (hdiag2_table res n) ev2 v 1) with (quad_empty res fv 0 v)
          by (symmetry; exact (dcache2_isEmpty_eq origin res fv n 0 v H)).
        unfold quadtree. cbn [process]. destruct (quad_empty res fv 0 v); [reflexivity|].
        unfold run_trace. cbn [flat_map]. now rewrite app_nil_r.
      - rewrite processSquare_node_eq. cbn [fst snd]. replace (rg_render_dcache2_isEmpty (hdiag2_table res n) ev2 v (Z.of_nat (S (S m)))) with (quad_empty res fv (S m) v)
          by (symmetry; exact (dcache2_isEmpty_eq origin res fv n (S m) v H)).
        unfold quadtree. cbn [process pred]. destruct (quad_empty res fv (S m) v); [reflexivity|].
        unfold run_trace. rewrite flat_map_map. reflexivity.
    Qed.
  End D2.
End GenEqOct.
