(* BufferProg.v - C11: meaning of the extracted Write / Close programs of Triangle3Buffer and
   Line2Buffer (Generated/SysProgs.v) and its relation to the state machine of Sys/Buffer.v.

   1. A small-step semantics of any number of goroutines calling the two methods on one
      buffer object, statement by statement, under an arbitrary scheduler: a statement of a
      goroutine that does not hold the mutex may run between any two statements of the one
      that does.  Lock blocks while the mutex is held.  (The channel send is the hand-over of
      the slice to the consumer, as in Buffer.v; who waits for whom is Sys/Pipeline.v.)
   2. `atomic_calls`: if both programs have the form  Lock; body; Unlock; return  with a body
      that contains only buffer statements, then for EVERY schedule the buffer content and
      everything handed to the channel are what the bodies produce when run one after the
      other, without interruption, in the order in which the calls took the mutex; when all
      goroutines are finished that order is an interleaving (Buffer.Merge) of their call lists.
      This is the step granularity Buffer.v assumes, now derived from the program text.
   3. `write_body_is_step`, `close_body_is_step`: the uninterrupted run of the bodies found in
      the source IS Buffer.step (for every state, every argument, every threshold).
   4. The two facts combined with Buffer.v: `source_multi_producer`.  *)
From Coq Require Import List Arith Lia Bool Permutation.
From Sdfx Require Import Sys.SysLang Sys.Buffer.
Import ListNotations.

Set Implicit Arguments.

Definition updf {X} (f : nat -> X) (i : nat) (x : X) : nat -> X := fun j => if j =? i then x else f j.

Lemma updf_same {X} (f : nat -> X) i x : updf f i x i = x.
Proof. unfold updf. now rewrite Nat.eqb_refl. Qed.

Lemma updf_other {X} (f : nat -> X) i j x : j <> i -> updf f i x j = f j.
Proof. intros H. unfold updf. apply Nat.eqb_neq in H. now rewrite H. Qed.

(* ------------------------------------------------------------------ statements a critical section may contain *)

Fixpoint plain1 (s : stmt) : bool :=
  match s with
  | Do PAppendIn | Do PSendBuf | Do PResetBuf => true
  | IfLen _ _ th el => forallb plain1 th && forallb plain1 el
  | _ => false
  end.
Definition plain (p : list stmt) : bool := forallb plain1 p.

Lemma plain_app p q : plain (p ++ q) = plain p && plain q.
Proof. apply forallb_app. Qed.

Section Prog.
  Variable A : Type.

  Definition data := (list A * list (list A))%type.      (* a.buf, what was sent on a.out so far *)

  (* ---------------------------------------------------------------- uninterrupted run of a statement list *)

  Fixpoint seq1 (arg : list A) (s : stmt) (d : data) : data :=
    match s with
    | Do PAppendIn => (fst d ++ arg, snd d)
    | Do PSendBuf => (fst d, snd d ++ [fst d])
    | Do PResetBuf => ([], snd d)
    | IfLen c n th el =>
        if cmp_nat c (length (fst d)) n
        then fold_left (fun d s => seq1 arg s d) th d
        else fold_left (fun d s => seq1 arg s d) el d
    | _ => d
    end.
  Definition seqs (arg : list A) (p : list stmt) (d : data) : data := fold_left (fun d s => seq1 arg s d) p d.

  Lemma seqs_app arg p q d : seqs arg (p ++ q) d = seqs arg q (seqs arg p d).
  Proof. unfold seqs. apply fold_left_app. Qed.

  (* ---------------------------------------------------------------- goroutines *)

  Variable pw pc : list stmt.          (* the programs of Write and of Close *)

  Definition prog (o : op A) : list stmt := match o with Write _ => pw | Close => pc end.
  Definition arg (o : op A) : list A := match o with Write i => i | Close => [] end.

  Record thread := mkT {
    t_k : list stmt;                   (* rest of the method body being executed *)
    t_cur : option (op A);             (* the call in progress *)
    t_logged : bool;                   (* ghost: the call in progress has taken the mutex *)
    t_todo : list (op A)               (* the calls this goroutine will still make *)
  }.

  Record cfg := mkC {
    c_th : nat -> option thread;
    c_buf : list A;
    c_sent : list (list A);
    c_lock : option nat;               (* who holds a.lock *)
    c_log : list (nat * op A)          (* ghost: the calls in the order in which they took the mutex *)
  }.

  Definition with_th (c : cfg) (i : nat) (t : thread) : cfg :=
    mkC (updf (c_th c) i (Some t)) (c_buf c) (c_sent c) (c_lock c) (c_log c).

  Definition arg_of (t : thread) : list A := match t_cur t with Some o => arg o | None => [] end.

  (* one statement of goroutine i; None: blocked, finished, or a statement without meaning here *)
  Definition tstep (i : nat) (c : cfg) : option cfg :=
    match c_th c i with
    | None => None
    | Some t =>
        match t_k t with
        | [] =>
            match t_cur t, t_todo t with
            | None, o :: r => Some (with_th c i (mkT (prog o) (Some o) false r))          (* the next call *)
            | Some _, _ => Some (with_th c i (mkT [] None false (t_todo t)))              (* end of the body *)
            | None, [] => None
            end
        | Do PLock :: k =>
            match c_lock c, t_cur t with
            | None, Some o =>
                Some (mkC (updf (c_th c) i (Some (mkT k (t_cur t) true (t_todo t))))
                          (c_buf c) (c_sent c) (Some i) (c_log c ++ [(i, o)]))
            | _, _ => None                                                               (* blocked *)
            end
        | Do PUnlock :: k =>
            match c_lock c with
            | Some j => if j =? i
                        then Some (mkC (updf (c_th c) i (Some (mkT k (t_cur t) (t_logged t) (t_todo t))))
                                       (c_buf c) (c_sent c) None (c_log c))
                        else None
            | None => None                                                               (* fatal error: unlock of unlocked mutex *)
            end
        | Return :: _ => Some (with_th c i (mkT [] None false (t_todo t)))
        | IfLen cm n th el :: k =>
            Some (with_th c i (mkT ((if cmp_nat cm (length (c_buf c)) n then th else el) ++ k)
                                   (t_cur t) (t_logged t) (t_todo t)))
        | Do PAppendIn :: k =>
            Some (mkC (updf (c_th c) i (Some (mkT k (t_cur t) (t_logged t) (t_todo t))))
                      (c_buf c ++ arg_of t) (c_sent c) (c_lock c) (c_log c))
        | Do PSendBuf :: k =>
            Some (mkC (updf (c_th c) i (Some (mkT k (t_cur t) (t_logged t) (t_todo t))))
                      (c_buf c) (c_sent c ++ [c_buf c]) (c_lock c) (c_log c))
        | Do PResetBuf :: k =>
            Some (mkC (updf (c_th c) i (Some (mkT k (t_cur t) (t_logged t) (t_todo t))))
                      [] (c_sent c) (c_lock c) (c_log c))
        | _ => None
        end
    end.

  (* a schedule: which goroutine is given the processor next (a choice that cannot move is a no-op) *)
  Definition sstep (c : cfg) (i : nat) : cfg := match tstep i c with Some c' => c' | None => c end.
  Definition run_sched (sched : list nat) (c : cfg) : cfg := fold_left sstep sched c.

  Definition init_cfg (opss : list (list (op A))) : cfg :=
    mkC (fun i => match nth_error opss i with Some ops => Some (mkT [] None false ops) | None => None end)
        [] [] None [].

  Definition finished (c : cfg) : Prop :=
    forall i t, c_th c i = Some t -> t_k t = [] /\ t_cur t = None /\ t_todo t = [].

  (* ---------------------------------------------------------------- the invariant *)

  Variable bw bc : list stmt.
  Hypothesis Hpw : pw = Do PLock :: bw ++ [Do PUnlock; Return].
  Hypothesis Hpc : pc = Do PLock :: bc ++ [Do PUnlock; Return].
  Hypothesis Hbw : plain bw = true.
  Hypothesis Hbc : plain bc = true.

  Definition body (o : op A) : list stmt := match o with Write _ => bw | Close => bc end.

  Lemma prog_body o : prog o = Do PLock :: body o ++ [Do PUnlock; Return].
  Proof. destruct o; cbn; assumption. Qed.

  Lemma plain_body o : plain (body o) = true.
  Proof. destruct o; cbn; assumption. Qed.

  (* the calls of the log, each run without interruption, one after the other *)
  Definition apply_op (d : data) (o : op A) : data := seqs (arg o) (body o) d.
  Definition exec_ops (m : list (op A)) : data := fold_left apply_op m ([], []).

  Lemma exec_ops_snoc m o : exec_ops (m ++ [o]) = apply_op (exec_ops m) o.
  Proof. unfold exec_ops. now rewrite fold_left_app. Qed.

  Definition proj (i : nat) (log : list (nat * op A)) : list (op A) :=
    map snd (filter (fun e => fst e =? i) log).

  Lemma proj_snoc_same i log o : proj i (log ++ [(i, o)]) = proj i log ++ [o].
  Proof. unfold proj. rewrite filter_app, map_app. cbn. now rewrite Nat.eqb_refl. Qed.

  Lemma proj_snoc_other i j log o : j <> i -> proj j (log ++ [(i, o)]) = proj j log.
  Proof.
    intros H. unfold proj. rewrite filter_app, map_app. cbn.
    replace (i =? j) with false by (symmetry; apply Nat.eqb_neq; auto). cbn. now rewrite app_nil_r.
  Qed.

  Definition pend (t : thread) : list (op A) :=
    match t_cur t with Some o => if t_logged t then [] else [o] | None => [] end ++ t_todo t.

  Definition phase (i : nat) (t : thread) (c : cfg) : Prop :=
    match t_cur t with
    | None => t_k t = []
    | Some o =>
        if t_logged t
        then c_lock c = Some i \/ (c_lock c <> Some i /\ (t_k t = [Return] \/ t_k t = []))
        else t_k t = prog o /\ c_lock c <> Some i
    end.

  Variable opss : list (list (op A)).

  Arguments proj : simpl never.
  Arguments exec_ops : simpl never.
  Arguments seqs : simpl never.

  Record Inv (c : cfg) : Prop := mkInv {
    inv_dom : forall i, c_th c i = None <-> nth_error opss i = None;
    inv_ops : forall i t, c_th c i = Some t -> proj i (c_log c) ++ pend t = nth i opss [];
    inv_ph : forall i t, c_th c i = Some t -> phase i t c;
    inv_ids : Forall (fun e => fst e < length opss) (c_log c);
    inv_free : c_lock c = None -> (c_buf c, c_sent c) = exec_ops (map snd (c_log c));
    inv_held : forall i, c_lock c = Some i ->
               exists t o b, c_th c i = Some t /\ t_cur t = Some o /\ t_logged t = true /\
                             t_k t = b ++ [Do PUnlock; Return] /\ plain b = true /\
                             seqs (arg o) b (c_buf c, c_sent c) = exec_ops (map snd (c_log c))
  }.

  Lemma Inv_init : Inv (init_cfg opss).
  Proof.
    constructor; cbn.
    - intros i. destruct (nth_error opss i); split; intros H; try discriminate; reflexivity.
    - intros i t H. destruct (nth_error opss i) as [ops|] eqn:E; [|discriminate]. inversion H; subst. cbn.
      unfold pend. cbn. symmetry. now apply nth_error_nth.
    - intros i t H. destruct (nth_error opss i); [|discriminate]. inversion H; subst. cbn. reflexivity.
    - constructor.
    - reflexivity.
    - discriminate.
  Qed.

  Ltac other_thread Hj i j :=
    destruct (Nat.eq_dec j i) as [->|Hne];
    [rewrite updf_same in Hj; inversion Hj; subst; clear Hj | rewrite updf_other in Hj by exact Hne].

  Lemma tstep_inv i c c' : Inv c -> tstep i c = Some c' -> Inv c'.
  Proof.
    intros [Hdom Hops Hph Hids Hfree Hheld] Hs. unfold tstep in Hs.
    destruct (c_th c i) as [t|] eqn:Et; [|discriminate].
    assert (Hdom' : forall t' j, updf (c_th c) i (Some t') j = None <-> nth_error opss j = None).
    { intros t' j. destruct (Nat.eq_dec j i) as [->|Hne].
      - rewrite updf_same. split; [discriminate|]. intros H. apply Hdom in H. congruence.
      - rewrite updf_other by exact Hne. apply Hdom. }
    pose proof (Hops i t Et) as Hopsi. pose proof (Hph i t Et) as Hphi. unfold phase in Hphi. unfold pend in Hopsi.
    destruct (t_k t) as [|s k] eqn:Ek.
    - (* between two statements lists: start of a call, or end of a body *)
      destruct (t_cur t) as [o|] eqn:Ec.
      + (* fell off the end of the body *)
        inversion Hs; subst c'; clear Hs. unfold with_th.
        destruct (t_logged t) eqn:El.
        * destruct Hphi as [Hl|[Hl _]].
          -- (* holding the mutex with an empty continuation: impossible *)
             destruct (Hheld i Hl) as (t' & o' & b & Et' & _ & _ & Ek' & _). rewrite Et in Et'. inversion Et'; subst t'.
             rewrite Ek in Ek'. destruct b; discriminate.
          -- constructor; cbn.
             ++ apply Hdom'.
             ++ intros j t' Hj. other_thread Hj i j; [|now apply Hops]. unfold pend. cbn. exact Hopsi.
             ++ intros j t' Hj. other_thread Hj i j; [cbn; reflexivity|]. specialize (Hph j t' Hj). exact Hph.
             ++ exact Hids.
             ++ exact Hfree.
             ++ intros j Hj. destruct (Hheld j Hj) as (t' & o' & b & Et' & R). exists t', o', b. split; [|exact R].
                rewrite updf_other; [exact Et'|]. intros ->. congruence.
        * destruct Hphi as [Hk _]. rewrite prog_body in Hk. discriminate.
      + destruct (t_todo t) as [|o r] eqn:Etd; [discriminate|]. inversion Hs; subst c'; clear Hs. unfold with_th.
        constructor; cbn.
        * apply Hdom'.
        * intros j t' Hj. other_thread Hj i j; [|now apply Hops]. unfold pend. cbn. exact Hopsi.
        * intros j t' Hj. other_thread Hj i j; [|exact (Hph j t' Hj)]. cbn. split; [reflexivity|].
          intros Hl. destruct (Hheld i Hl) as (t' & o' & b & Et' & Ec' & _). rewrite Et in Et'. inversion Et'; subst t'. congruence.
        * exact Hids.
        * exact Hfree.
        * intros j Hj. destruct (Hheld j Hj) as (t' & o' & b & Et' & Ec' & R). exists t', o', b. split; [|split; [exact Ec'|exact R]].
          rewrite updf_other; [exact Et'|]. intros ->. rewrite Et in Et'. inversion Et'; subst t'. congruence.
    - (* a statement *)
      assert (Hcur : exists o, t_cur t = Some o).
      { destruct (t_cur t) as [o|]; [now exists o | discriminate]. }
      destruct Hcur as [o Ec]. rewrite Ec in *.
      destruct (t_logged t) eqn:El.
      + (* the call has taken the mutex *)
        destruct Hphi as [Hl|[Hl Hk]].
        * (* inside the critical section *)
          destruct (Hheld i Hl) as (t' & o' & b & Et' & Ec' & _ & Ek' & Hb & Hseq).
          rewrite Et in Et'. inversion Et'; subst t'. rewrite Ec in Ec'. inversion Ec'; subst o'. rewrite Ek in Ek'.
          destruct b as [|s' b'].
          -- (* the Unlock *)
             cbn in Ek'. inversion Ek'; subst s k. rewrite Hl, Nat.eqb_refl in Hs. inversion Hs; subst c'; clear Hs.
             constructor; cbn.
             ++ apply Hdom'.
             ++ intros j t' Hj. other_thread Hj i j; [|now apply Hops]. unfold pend. cbn. exact Hopsi.
             ++ intros j t' Hj. other_thread Hj i j.
                ** unfold phase. cbn. right. split; [discriminate | now left].
                ** specialize (Hph j t' Hj). unfold phase in *. destruct (t_cur t'); [|exact Hph].
                   destruct (t_logged t').
                   --- destruct Hph as [Hl'|[_ Hk']]; [congruence | right; split; [discriminate | exact Hk']].
                   --- destruct Hph as [Hk' _]. split; [exact Hk' | discriminate].
             ++ exact Hids.
             ++ intros _. exact Hseq.
             ++ discriminate.
          -- (* a statement of the body *)
             cbn in Ek'. inversion Ek'; subst s k. cbn in Hb. apply andb_prop in Hb. destruct Hb as [Hs' Hb'].
             assert (Hgen : forall k' buf' sent',
                        (exists b'', k' = b'' ++ [Do PUnlock; Return] /\ plain b'' = true /\
                                     seqs (arg o) b'' (buf', sent') = exec_ops (map snd (c_log c))) ->
                        Inv (mkC (updf (c_th c) i (Some (mkT k' (Some o) true (t_todo t)))) buf' sent' (c_lock c) (c_log c))).
             { intros k' buf' sent' (b'' & Ek'' & Hb'' & Hseq'). constructor; cbn.
               - apply Hdom'.
               - intros j t' Hj. other_thread Hj i j; [|now apply Hops]. unfold pend. cbn. exact Hopsi.
               - intros j t' Hj. other_thread Hj i j; [unfold phase; cbn; now left|]. exact (Hph j t' Hj).
               - exact Hids.
               - intros Hn. congruence.
               - intros j Hj. assert (j = i) by congruence. subst j.
                 exists (mkT k' (Some o) true (t_todo t)), o, b''. rewrite updf_same. cbn. repeat split; auto. }
             unfold arg_of in Hs. rewrite Ec in Hs.
             destruct s' as [w|p|cm n th el|p h|bd|bd| |bd|bd|bd|bd|f|p| |]; try discriminate Hs'.
             ++ destruct p; try discriminate Hs'; inversion Hs; subst c'; clear Hs.
                ** apply Hgen. exists b'. split; [reflexivity|]. split; [exact Hb'|]. exact Hseq.
                ** apply Hgen. exists b'. split; [reflexivity|]. split; [exact Hb'|]. exact Hseq.
                ** apply Hgen. exists b'. split; [reflexivity|]. split; [exact Hb'|]. exact Hseq.
             ++ inversion Hs; subst c'; clear Hs. unfold with_th. rewrite ?Ec, ?El.
                apply Hgen.
                cbn in Hs'. apply andb_prop in Hs'. destruct Hs' as [Hth Hel].
                exists ((if cmp_nat cm (length (c_buf c)) n then th else el) ++ b'). split; [now rewrite <- app_assoc|]. split.
                ** rewrite plain_app. unfold plain. rewrite Hb'. destruct (cmp_nat cm (length (c_buf c)) n); [now rewrite Hth | now rewrite Hel].
                ** rewrite <- Hseq. rewrite seqs_app. unfold seqs at 3. cbn [fold_left seq1 fst].
                   destruct (cmp_nat cm (length (c_buf c)) n); reflexivity.
        * (* after the Unlock: only `return` is left *)
          destruct Hk as [Hk|Hk]; [|discriminate]. inversion Hk; subst s k. inversion Hs; subst c'; clear Hs. unfold with_th.
          constructor; cbn.
          -- apply Hdom'.
          -- intros j t' Hj. other_thread Hj i j; [|now apply Hops]. unfold pend. cbn. exact Hopsi.
          -- intros j t' Hj. other_thread Hj i j; [cbn; reflexivity|]. exact (Hph j t' Hj).
          -- exact Hids.
          -- exact Hfree.
          -- intros j Hj. destruct (Hheld j Hj) as (t' & o' & b & Et' & R). exists t', o', b. split; [|exact R].
             rewrite updf_other; [exact Et'|]. intros ->. congruence.
      + (* the call is at its Lock *)
        destruct Hphi as [Hk Hl]. rewrite prog_body in Hk. inversion Hk; subst s k.
        destruct (c_lock c) as [j|] eqn:Elock; [discriminate|]. inversion Hs; subst c'; clear Hs.
        assert (Hi : i < length opss).
        { apply nth_error_Some. intros H. apply Hdom in H. congruence. }
        constructor; cbn.
        * apply Hdom'.
        * intros j t' Hj. other_thread Hj i j.
          -- rewrite proj_snoc_same. unfold pend. cbn. rewrite ?Ec. rewrite <- app_assoc. exact Hopsi.
          -- rewrite proj_snoc_other by exact Hne. now apply Hops.
        * intros j t' Hj. other_thread Hj i j; [unfold phase; cbn; rewrite ?Ec; now left|].
          specialize (Hph j t' Hj). unfold phase in *. cbn [c_lock]. rewrite Elock in Hph. destruct (t_cur t'); [|exact Hph]. destruct (t_logged t').
          -- destruct Hph as [Hl'|[_ Hk']]; [discriminate|]. right. split; [|exact Hk']. intros H. inversion H. congruence.
          -- destruct Hph as [Hk' _]. split; [exact Hk'|]. intros H. inversion H. congruence.
        * apply Forall_app. split; [exact Hids|]. constructor; [exact Hi | constructor].
        * discriminate.
        * intros j Hj. inversion Hj; subst j. exists (mkT (body o ++ [Do PUnlock; Return]) (Some o) true (t_todo t)), o, (body o).
          rewrite updf_same. cbn. rewrite ?Ec. repeat split; try reflexivity.
          -- apply plain_body.
          -- rewrite map_app. cbn. rewrite exec_ops_snoc. unfold apply_op. now rewrite (Hfree eq_refl).
  Qed.

  Lemma run_sched_inv sched c : Inv c -> Inv (run_sched sched c).
  Proof.
    revert c. induction sched as [|i r IH]; intros c H; cbn; [exact H|]. apply IH. unfold sstep.
    destruct (tstep i c) as [c'|] eqn:E; [eapply tstep_inv; eassumption | exact H].
  Qed.

  (* ---------------------------------------------------------------- from the log to an interleaving *)

  Lemma proj_cons_same i o log : proj i ((i, o) :: log) = o :: proj i log.
  Proof. unfold proj. cbn. now rewrite Nat.eqb_refl. Qed.

  Lemma proj_cons_other i j o log : j <> i -> proj j ((i, o) :: log) = proj j log.
  Proof. intros H. unfold proj. cbn. replace (i =? j) with false by (symmetry; apply Nat.eqb_neq; auto). reflexivity. Qed.

  Lemma nth_replace_same {X} (l : list X) i x d : i < length l -> nth i (replace i x l) d = x.
  Proof. revert i. induction l as [|y l IH]; intros [|i] H; cbn in *; try lia; [reflexivity | apply IH; lia]. Qed.

  Lemma nth_replace_other {X} (l : list X) i j x d : j <> i -> nth j (replace i x l) d = nth j l d.
  Proof.
    revert i j. induction l as [|y l IH]; intros [|i] [|j] H; cbn; try reflexivity; try congruence. apply IH. congruence.
  Qed.

  Lemma replace_length {X} (l : list X) i x : length (replace i x l) = length l.
  Proof. revert i. induction l as [|y l IH]; intros [|i]; cbn; auto. Qed.

  Lemma log_is_merge (log : list (nat * op A)) : forall (ls : list (list (op A))),
    Forall (fun e => fst e < length ls) log ->
    (forall i, i < length ls -> proj i log = nth i ls []) ->
    Merge ls (map snd log).
  Proof.
    induction log as [|[i o] log IH]; intros ls Hids Hp.
    - cbn. constructor. apply Forall_forall. intros l Hl. apply In_nth with (d := []) in Hl.
      destruct Hl as (n & Hn & <-). symmetry. now apply Hp.
    - inversion Hids as [|? ? Hi Hids']; subst. cbn in Hi.
      pose proof (Hp i Hi) as Hpi. rewrite proj_cons_same in Hpi.
      destruct (nth_error ls i) as [li|] eqn:En; [|apply nth_error_None in En; lia].
      assert (Eli : li = o :: proj i log) by (rewrite Hpi; symmetry; now apply nth_error_nth).
      destruct (nth_error_split_replace ls i (proj i log) En) as (pre & post & Els & Erep).
      cbn [map snd]. rewrite Els, Eli. apply Merge_pick. rewrite <- Erep. apply IH.
      + rewrite replace_length. exact Hids'.
      + rewrite replace_length. intros j Hj. destruct (Nat.eq_dec j i) as [->|Hne].
        * now rewrite nth_replace_same.
        * rewrite nth_replace_other by exact Hne. rewrite <- (Hp j Hj). symmetry. now apply proj_cons_other.
  Qed.

  (* Whatever the schedule: the buffer content and the batches handed over are those of the
     calls run one at a time in the order in which they took the mutex (if a call is inside
     its critical section, what it still has to do leads there); and when every goroutine has
     finished, that order is an interleaving of the goroutines' call sequences. *)
  Theorem atomic_calls (sched : list nat) :
    let c := run_sched sched (init_cfg opss) in
    (c_lock c = None -> (c_buf c, c_sent c) = exec_ops (map snd (c_log c))) /\
    (finished c -> c_lock c = None /\ Merge opss (map snd (c_log c))).
  Proof.
    intros c. pose proof (run_sched_inv sched Inv_init) as [Hdom Hops Hph Hids Hfree Hheld]. fold c in Hdom, Hops, Hph, Hids, Hfree, Hheld.
    split; [exact Hfree|]. intros Hfin. split.
    - destruct (c_lock c) as [i|] eqn:El; [|reflexivity].
      destruct (Hheld i eq_refl) as (t & o & b & Et & Ec & _). destruct (Hfin i t Et) as (_ & Ec' & _). congruence.
    - apply log_is_merge; [exact Hids|]. intros i Hi.
      destruct (c_th c i) as [t|] eqn:Et.
      + rewrite <- (Hops i t Et). destruct (Hfin i t Et) as (_ & Ec & Etd). unfold pend. rewrite Ec, Etd. now rewrite app_nil_r.
      + apply Hdom in Et. apply nth_error_None in Et. lia.
  Qed.
End Prog.

(* ------------------------------------------------------------------ the bodies found in the source are Buffer.step *)

(* if len(a.buf) >= N { a.out <- a.buf; a.buf = make(..) } *)
Definition write_body (N : nat) : list stmt :=
  [Do PAppendIn; IfLen CGe N [Do PSendBuf; Do PResetBuf] []].
(* if len(a.buf) != 0 { a.out <- a.buf; a.buf = nil } *)
Definition close_body : list stmt :=
  [IfLen CNe 0 [Do PSendBuf; Do PResetBuf] []].

Definition method_of (body : list stmt) : list stmt := Do PLock :: body ++ [Do PUnlock; Return].

Definition data_of {A} (s : Buffer.state A) : data A := (buf s, sent s).

Lemma write_body_is_step A N (s : Buffer.state A) (items : list A) :
  seqs items (write_body N) (data_of s) = data_of (Buffer.step N s (Write items)).
Proof.
  unfold write_body, seqs, data_of. cbn [fold_left seq1 fst snd cmp_nat Buffer.step].
  destruct (N <=? length (buf s ++ items)); reflexivity.
Qed.

Lemma close_body_is_step A N (s : Buffer.state A) :
  seqs [] close_body (data_of s) = data_of (Buffer.step N s Close).
Proof.
  unfold close_body, seqs, data_of. cbn [fold_left seq1 fst snd cmp_nat Buffer.step].
  destruct (buf s) as [|x b]; reflexivity.
Qed.

Lemma exec_ops_is_run A N (m : list (op A)) :
  exec_ops (write_body N) close_body m = data_of (Buffer.run N m).
Proof.
  unfold exec_ops, Buffer.run, Buffer.run_from.
  change (@nil A, @nil (list A)) with (data_of (Buffer.init A)).
  generalize (Buffer.init A). induction m as [|o m IH]; intros s; cbn [fold_left]; [reflexivity|].
  rewrite <- IH. f_equal. unfold apply_op. destruct o as [items|]; cbn [arg body].
  - apply write_body_is_step.
  - apply close_body_is_step.
Qed.

(* ------------------------------------------------------------------ recognising a critical section *)

(* what stands between the leading Lock and the trailing `Unlock; return` *)
Definition crit_body (p : list stmt) : option (list stmt) :=
  match p with
  | Do PLock :: r =>
      match rev r with
      | Return :: Do PUnlock :: b => Some (rev b)
      | _ => None
      end
  | _ => None
  end.

Lemma crit_body_ok p b : crit_body p = Some b -> p = method_of b.
Proof.
  unfold crit_body, method_of. destruct p as [|s r]; [discriminate|].
  destruct s as [w|pr|c n th el|pr h|bd|bd| |bd|bd|bd|bd|f|pr| |]; try discriminate.
  destruct pr; try discriminate.
  destruct (rev r) as [|s1 [|s2 b']] eqn:E; try discriminate.
  - destruct s1; discriminate.
  - destruct s1; try discriminate. destruct s2 as [w|pr|c n th el|pr h|bd|bd| |bd|bd|bd|bd|f|pr| |]; try discriminate.
    destruct pr; try discriminate. intros H. inversion H; subst b. f_equal.
    rewrite <- (rev_involutive r), E. cbn. rewrite <- app_assoc. reflexivity.
Qed.

(* A program extracted from the source has the meaning of Buffer.v when it is a critical
   section  Lock; body; Unlock; return  whose body contains buffer statements only and whose
   uninterrupted run is Buffer.step - for every state and every argument.  (The body need not
   be spelled like write_body / close_body: `len > N-1`, `!(len < N)` with the branches
   exchanged, `len > 0` for `len != 0` .. have the same run; the tactic `buffer_method` below
   decides that by case analysis on the comparisons.) *)
Definition is_write_method (p : list stmt) (N : nat) : Prop :=
  exists bw, strip p = method_of bw /\ plain bw = true /\
    forall A (s : Buffer.state A) (items : list A),
      seqs items bw (data_of s) = data_of (Buffer.step N s (Write items)).
Definition is_close_method (p : list stmt) : Prop :=
  exists bc, strip p = method_of bc /\ plain bc = true /\
    forall A N (s : Buffer.state A), seqs [] bc (data_of s) = data_of (Buffer.step N s Close).

Lemma write_body_method p N : strip p = method_of (write_body N) -> is_write_method p N.
Proof. intros H. exists (write_body N). split; [exact H|]. split; [reflexivity|]. intros. apply write_body_is_step. Qed.

Lemma close_body_method p : strip p = method_of close_body -> is_close_method p.
Proof. intros H. exists close_body. split; [exact H|]. split; [reflexivity|]. intros. apply close_body_is_step. Qed.

Ltac nat_bools :=
  repeat match goal with
  | H : (_ <=? _) = true |- _ => apply Nat.leb_le in H
  | H : (_ <=? _) = false |- _ => apply Nat.leb_gt in H
  | H : (_ <? _) = true |- _ => apply Nat.ltb_lt in H
  | H : (_ <? _) = false |- _ => apply Nat.ltb_ge in H
  | H : (_ =? _) = true |- _ => apply Nat.eqb_eq in H
  | H : (_ =? _) = false |- _ => apply Nat.eqb_neq in H
  | H : negb _ = true |- _ => apply negb_true_iff in H
  | H : negb _ = false |- _ => apply negb_false_iff in H
  end.

(* both sides are nests of `if <comparison of lengths> then .. else ..` over the same data:
   split on every comparison, the branches agree or the comparisons contradict each other *)
Ltac split_ifs :=
  repeat match goal with
  | |- context [if ?b then _ else _] => let E := fresh "E" in destruct b eqn:E
  end;
  try reflexivity; exfalso; nat_bools; cbn [length] in *; lia.

Ltac buffer_write_sem :=
  let A := fresh "A" in let s := fresh "s" in let items := fresh "items" in
  intros A s items; unfold seqs, data_of; cbn [fold_left seq1 fst snd cmp_nat Buffer.step buf sent];
  split_ifs.

Ltac buffer_close_sem :=
  let A := fresh "A" in let N := fresh "N" in let s := fresh "s" in
  intros A N s; unfold seqs, data_of; cbn [fold_left seq1 fst snd cmp_nat Buffer.step buf sent];
  destruct (buf s); cbn [length]; split_ifs.

Ltac buffer_method sem :=
  eexists; split; [apply crit_body_ok; vm_compute; reflexivity | split; [vm_compute; reflexivity | sem]].

Section Source.
  Variable A : Type.
  Variable pw pc : list stmt.
  Variable N : nat.
  Hypothesis Hw : is_write_method pw N.
  Hypothesis Hc : is_close_method pc.

  (* Any number of goroutines, each performing its own sequence of Write / Close calls on one
     buffer, statement by statement under an arbitrary scheduler: whenever the mutex is free
     the buffer and the channel traffic are Buffer.run of the calls in mutex order, and after
     all goroutines have finished that order is an interleaving of their call sequences. *)
  Theorem source_calls_atomic (opss : list (list (op A))) (sched : list nat) :
    let c := run_sched (strip pw) (strip pc) sched (init_cfg opss) in
    (c_lock c = None -> c_buf c = buf (Buffer.run N (map snd (c_log c))) /\
                        c_sent c = sent (Buffer.run N (map snd (c_log c)))) /\
    (finished c -> c_lock c = None /\ Merge opss (map snd (c_log c))).
  Proof.
    intros c. destruct Hw as (bw & Ew & Pw & Sw). destruct Hc as (bc & Ec & Pc & Sc).
    destruct (@atomic_calls A (strip pw) (strip pc) bw bc Ew Ec Pw Pc opss sched) as [H1 H2].
    fold c in H1, H2. split; [|exact H2]. intros Hl. specialize (H1 Hl).
    assert (Hrun : forall m : list (op A), exec_ops bw bc m = data_of (Buffer.run N m)).
    { intros m. unfold exec_ops, Buffer.run, Buffer.run_from.
      change (@nil A, @nil (list A)) with (data_of (Buffer.init A)).
      generalize (Buffer.init A). induction m as [|o m IH]; intros s; cbn [fold_left]; [reflexivity|].
      rewrite <- IH. f_equal. unfold apply_op. destruct o as [items|]; cbn [arg body]; [apply Sw | apply Sc]. }
    rewrite Hrun in H1. unfold data_of in H1. inversion H1. split; reflexivity.
  Qed.

  (* Several producer goroutines writing concurrently, then (after they have all finished)
     the closing flush: the sink receives the Writes in the order in which they took the
     mutex - a permutation of all items in which every producer's items keep their order. *)
  Theorem source_multi_producer (pss : list (list (list A))) (sched : list nat) :
    let c := run_sched (strip pw) (strip pc) sched (init_cfg (map (map (@Write A)) pss)) in
    finished c ->
    exists m : list (list A),
      Merge pss m /\
      c_buf c = buf (Buffer.run N (map (@Write A) m)) /\ c_sent c = sent (Buffer.run N (map (@Write A) m)) /\
      let d := delivered (Buffer.run N (map (@Write A) m ++ [Close])) in
      d = concat m /\ Permutation (concat (map (@concat A) pss)) d /\ Forall (fun ps => Subseq (concat ps) d) pss.
  Proof.
    intros c Hfin. destruct (source_calls_atomic (map (map (@Write A)) pss) sched) as [H1 H2]. fold c in H1, H2.
    destruct (H2 Hfin) as [Hl HM]. destruct (H1 Hl) as [Hb Hs].
    assert (Hm : exists m, map snd (c_log c) = map (@Write A) m /\ Merge pss m).
    { clear - HM. remember (map (map (@Write A)) pss) as ls eqn:Els. remember (map snd (c_log c)) as ops eqn:Eo. clear Eo.
      revert pss Els. induction HM as [ls Hnil | pre x l post m _ IH]; intros pss Els.
      - exists []. split; [reflexivity|]. constructor. subst ls. rewrite Forall_map in Hnil.
        eapply Forall_impl; [|exact Hnil]. intros ps H. now destruct ps.
      - symmetry in Els. apply map_eq_app in Els. destruct Els as (pre' & r & -> & <- & Er).
        symmetry in Er. destruct r as [|ps post']; [discriminate|]. cbn in Er. inversion Er as [[E1 E2]]. clear Er.
        destruct ps as [|w ps]; [discriminate|]. cbn in E1. inversion E1; subst x l post.
        destruct (IH (pre' ++ ps :: post')) as (m' & Em & HM').
        { rewrite map_app. reflexivity. }
        exists (w :: m'). split; [cbn; now rewrite Em|]. now apply Merge_pick. }
    destruct Hm as (m & Em & HMm). exists m. rewrite Em in Hb, Hs. split; [exact HMm|]. split; [exact Hb|]. split; [exact Hs|].
    apply multi_producer. exact HMm.
  Qed.
End Source.
