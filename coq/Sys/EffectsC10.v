(* EffectsC10.v - the C10 facts about the effect summaries regenerated from the Go source
   (coq/Generated/Effects.v) on every run. *)
From Coq Require Import List String Bool.
From Sdfx Require Import Sys.Lockset Generated.Effects.
Import ListNotations.

(* every Evaluate method of sdf, obj, render, render/dc: no unguarded write, no goroutine,
   channel, rand or time use, only whitelisted packages called *)
Lemma all_evaluate_safe :
  forallb (safe_in (all_effects evaluate_summaries)) evaluate_summaries = true.
Proof. vm_compute. reflexivity. Qed.

(* hence: any number of goroutines, each running Evaluate calls that conform to the
   summaries, never reach a state in which two of them are about to perform conflicting
   accesses - under every interleaving *)
Lemma evaluate_race_free : forall p : nat -> list ev,
  (forall i, exists s, In s evaluate_summaries /\ conforms (snd s) (p i)) ->
  forall st, reach (init p) st -> ~ racy st.
Proof. intros p Hc. exact (safe_sound evaluate_summaries p all_evaluate_safe Hc). Qed.

Lemma summaries_not_empty : evaluate_summaries <> [].
Proof. discriminate. Qed.
