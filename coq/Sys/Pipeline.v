(* Model of one render-to-sink call (render/render.go ToSTL / To3MF / ToDXF / ToSVG /
   ToTriangles with render/stl.go writeSTL etc.) as a transition system of three
   parties:

     producer  r.Render(s, NewTriangle3Buffer(output)) sends the batches `todo`
               one after the other on the unbuffered channel, then the caller
               executes close(output);
     consumer  the writer goroutine: `for ts := range c { for _, t := range ts {
               write t } }`, then finalisation (flush, header rewrite, encode,
               save), then the deferred wg.Done();
     main      wg.Wait() after close(output).

   A write failure can be injected at any item index (`fail = Some i`: the write of
   the i-th item returns an error).  The two protocols differ in what the consumer
   does then:
     Pinned    `fmt.Printf(err); return`  - nobody reads the channel any more;
     Repaired  keep reading the channel (and discard) until it is closed.
   A sink that only writes at the end (3MF, DXF, SVG, ToTriangles) is `fail = None`.
   The finalisation (seek + header rewrite, encode, save) may fail as well
   (`fin_ok = false`): the writer prints the error and returns, the deferred wg.Done()
   runs, nothing is stored as the count.

   The worker pool of render/march3.go (evalRoutines) is `pool` below. *)
From Coq Require Import List Arith Lia Bool NArith.
From Sdfx Require Sys.Buffer.
Import ListNotations.

Set Implicit Arguments.

Inductive proto := Pinned | Repaired.

Section Pipeline.
  Variable A : Type.

  Inductive cons :=
  | Receiving                 (* blocked in `range c` *)
  | Writing (rest : list A)   (* inside the inner loop, `rest` still to write *)
  | Draining                  (* Repaired only: after an error, discarding batches *)
  | Returned                  (* Pinned only: returned on the error, channel abandoned *)
  | Done.                     (* saw the closed channel, finalised, wg.Done() *)

  Record st := mkst {
    todo : list (list A);     (* batches the producer has not yet handed over *)
    closed : bool;            (* close(output) executed *)
    con : cons;
    out : list A;             (* items written to the sink so far *)
    hdr : option nat;         (* count written by the finalisation (STL header) *)
    main_done : bool          (* wg.Wait() returned, i.e. the ToXXX call returns *)
  }.

  Variable P : proto.
  Variable fail : option nat.
  Variable fin_ok : bool.      (* the finalisation after the last batch succeeds *)

  Definition final_hdr (o : list A) : option nat := if fin_ok then Some (length o) else None.

  Definition init (batches : list (list A)) : st := mkst batches false Receiving [] None false.

  Definition fails_now (s : st) : bool :=
    match fail with Some f => Nat.eqb f (length (out s)) | None => false end.

  Definition on_error : cons := match P with Pinned => Returned | Repaired => Draining end.

  Definition set_con (s : st) (c : cons) : st := mkst (todo s) (closed s) c (out s) (hdr s) (main_done s).

  (* rendezvous on the channel: needs a sender with a batch and a receiver in `range c` *)
  Definition next_chan (s : st) : list st :=
    match todo s, con s with
    | b :: r, Receiving => [mkst r (closed s) (Writing b) (out s) (hdr s) (main_done s)]
    | b :: r, Draining => [mkst r (closed s) Draining (out s) (hdr s) (main_done s)]
    | _, _ => []
    end.

  (* steps of the consumer alone *)
  Definition next_cons (s : st) : list st :=
    match con s with
    | Writing (x :: l) =>
        if fails_now s then [set_con s on_error]
        else [mkst (todo s) (closed s) (Writing l) (out s ++ [x]) (hdr s) (main_done s)]
    | Writing [] => [set_con s Receiving]
    | Receiving =>
        if closed s then [mkst (todo s) true Done (out s) (final_hdr (out s)) (main_done s)] else []
    | Draining => if closed s then [set_con s Done] else []
    | Returned | Done => []
    end.

  (* the caller closes the channel when Render has returned (all sends completed) *)
  Definition next_close (s : st) : list st :=
    match todo s, closed s with
    | [], false => [mkst [] true (con s) (out s) (hdr s) (main_done s)]
    | _, _ => []
    end.

  Definition exited (c : cons) : bool := match c with Done | Returned => true | _ => false end.

  (* wg.Wait() comes after close(output) and needs the deferred wg.Done() *)
  Definition next_main (s : st) : list st :=
    if closed s && exited (con s) && negb (main_done s)
    then [mkst (todo s) true (con s) (out s) (hdr s) true] else [].

  Definition next (s : st) : list st := next_chan s ++ next_cons s ++ next_close s ++ next_main s.

  Definition step (s s' : st) : Prop := In s' (next s).
  Definition stuck (s : st) : Prop := next s = [].

  Inductive reachable (s0 : st) : st -> Prop :=
  | reach_refl : reachable s0 s0
  | reach_step : forall s s', reachable s0 s -> step s s' -> reachable s0 s'.

  (* ---------------------------------------------------------------- termination *)

  Definition w_cons (c : cons) : nat :=
    match c with Receiving => 1 | Writing l => length l + 2 | Draining => 1 | Returned => 0 | Done => 0 end.

  Fixpoint w_todo (bs : list (list A)) : nat :=
    match bs with [] => 0 | b :: r => length b + 3 + w_todo r end.

  Definition measure (s : st) : nat :=
    w_todo (todo s) + w_cons (con s) + (if closed s then 0 else 1) + (if main_done s then 0 else 1).

  Lemma on_error_small : w_cons on_error <= 1.
  Proof. unfold on_error. destruct P; cbn; lia. Qed.

  Lemma step_decreases s s' : step s s' -> measure s' < measure s.
  Proof.
    unfold step, next. rewrite !in_app_iff. intros [H|[H|[H|H]]].
    - unfold next_chan in H. destruct s as [td cl c o h md]. cbn in H.
      destruct td as [|b r]; [destruct H|]. destruct c; cbn in H; try destruct H as [H|[]]; try destruct H;
        subst; unfold measure; cbn; lia.
    - unfold next_cons in H. destruct s as [td cl c o h md]. cbn in H. destruct c as [|[|x l]| | |]; cbn in H.
      + destruct cl; [|destruct H]. destruct H as [H|[]]. subst. unfold measure. cbn. lia.
      + destruct H as [H|[]]. subst. unfold measure. cbn. lia.
      + destruct (fails_now _); destruct H as [H|[]]; subst; unfold measure; cbn.
        * pose proof on_error_small. lia.
        * lia.
      + destruct cl; [|destruct H]. destruct H as [H|[]]. subst. unfold measure. cbn. lia.
      + destruct H.
      + destruct H.
    - unfold next_close in H. destruct s as [td cl c o h md]. cbn in H.
      destruct td; [|destruct H]. destruct cl; [destruct H|]. destruct H as [H|[]]. subst. unfold measure. cbn. lia.
    - unfold next_main in H. destruct s as [td cl c o h md]. cbn in H.
      destruct cl; cbn in H; [|destruct H]. destruct (exited c); cbn in H; [|destruct H].
      destruct md; cbn in H; [destruct H|]. destruct H as [H|[]]. subst. unfold measure. cbn. lia.
  Qed.

  (* every execution from s has at most `measure s` steps *)
  Inductive path : st -> nat -> st -> Prop :=
  | path_nil : forall s, path s 0 s
  | path_cons : forall s s' s'' n, step s s' -> path s' n s'' -> path s (S n) s''.

  Lemma path_bounded s n s' : path s n s' -> n + measure s' <= measure s.
  Proof.
    induction 1 as [|s s1 s2 n Hs _ IH]; [lia|]. apply step_decreases in Hs. lia.
  Qed.

  (* ---------------------------------------------------------------- invariant *)

  Variable all_batches : list (list A).
  Let all := concat all_batches.

  Definition below (s : st) : Prop := forall f, fail = Some f -> length (out s) <= f.

  (* the consumer met the injected failure after writing exactly `out s` *)
  Definition failed_at (s : st) : Prop :=
    hdr s = None /\ fail = Some (length (out s)) /\ length (out s) < length all /\ exists rest, out s ++ rest = all.

  Definition Inv (s : st) : Prop :=
    (closed s = true -> todo s = []) /\
    (main_done s = true -> closed s = true /\ exited (con s) = true) /\
    match con s with
    | Receiving => hdr s = None /\ out s ++ concat (todo s) = all /\ below s
    | Writing l => hdr s = None /\ out s ++ l ++ concat (todo s) = all /\ below s
    | Draining => P = Repaired /\ failed_at s
    | Returned => P = Pinned /\ failed_at s
    | Done => closed s = true /\
              ((hdr s = final_hdr (out s) /\ out s = all /\ below s) \/ failed_at s)
    end.

  Lemma Inv_init : Inv (init all_batches).
  Proof.
    unfold Inv, init. cbn. repeat split; try discriminate.
    intros f _. cbn. lia.
  Qed.

  Lemma Inv_step s s' : Inv s -> step s s' -> Inv s'.
  Proof.
    intros (Hcl & Hmd & Hc). unfold step, next. rewrite !in_app_iff. intros [H|[H|[H|H]]].
    - (* rendezvous *)
      unfold next_chan in H. destruct s as [td cl c o h md]. cbn in *.
      destruct td as [|b r]; [destruct H|].
      assert (Hcl' : cl = true -> r = []) by (intros E; specialize (Hcl E); discriminate).
      destruct c; cbn in H; try (destruct H; fail); destruct H as [H|[]]; subst s'; unfold Inv; cbn.
      + split; [exact Hcl'|]. split; [intros E; destruct (Hmd E) as [_ E']; discriminate|].
        destruct Hc as (Hh & Ho & Hb). split; [assumption|]. split; [assumption | exact Hb].
      + split; [exact Hcl'|]. split; [intros E; destruct (Hmd E) as [_ E']; discriminate|].
        destruct Hc as (HP & Hf). split; [assumption | exact Hf].
    - (* consumer *)
      unfold next_cons in H. destruct s as [td cl c o h md]. cbn in *. destruct c as [|[|x l]| | |]; cbn in H.
      + (* Receiving, channel closed: finalise *)
        destruct cl; [|destruct H]. destruct H as [H|[]]. subst s'. unfold Inv. cbn.
        destruct Hc as (Hh & Ho & Hb). rewrite (Hcl eq_refl) in *. cbn in Ho. rewrite app_nil_r in Ho.
        split; [intros _; reflexivity|]. split; [intros _; split; reflexivity|]. split; [reflexivity|].
        left. split; [reflexivity|]. split; [assumption | exact Hb].
      + (* end of the inner loop *)
        destruct H as [H|[]]. subst s'. unfold Inv, set_con. cbn. destruct Hc as (Hh & Ho & Hb).
        split; [exact Hcl|]. split; [intros E; destruct (Hmd E) as [_ E']; discriminate|].
        split; [assumption|]. split; [exact Ho | exact Hb].
      + (* one item *)
        destruct Hc as (Hh & Ho & Hb).
        unfold fails_now in H. cbn in H.
        assert (Hmd' : md = true -> cl = true /\ false = true)
          by (intros E; destruct (Hmd E) as [_ E']; discriminate).
        destruct fail as [f|] eqn:Ef.
        * destruct (Nat.eqb_spec f (length o)) as [E|E]; destruct H as [H|[]]; subst s'.
          -- (* the write fails *)
             assert (Hfa : failed_at (mkst td cl on_error o h md)).
             { unfold failed_at. cbn. split; [assumption|]. split; [now subst f|]. split.
               - rewrite <- Ho, !app_length. cbn. lia.
               - now exists ((x :: l) ++ concat td). }
             unfold Inv, set_con. cbn. unfold on_error in *. destruct P; cbn.
             ++ split; [exact Hcl|]. split; [intros E'; destruct (Hmd E') as [_ E'']; discriminate|].
                split; [reflexivity | exact Hfa].
             ++ split; [exact Hcl|]. split; [exact Hmd'|]. split; [reflexivity | exact Hfa].
          -- unfold Inv. cbn. split; [exact Hcl|]. split; [exact Hmd'|]. split; [assumption|]. split.
             ++ rewrite <- app_assoc. exact Ho.
             ++ intros f' Hf'. assert (f' = f) by congruence. subst f'. specialize (Hb f Ef). cbn in *.
                rewrite app_length. cbn. lia.
        * destruct H as [H|[]]. subst s'. unfold Inv. cbn.
          split; [exact Hcl|]. split; [exact Hmd'|]. split; [assumption|]. split.
          -- rewrite <- app_assoc. exact Ho.
          -- intros f' Hf'. congruence.
      + (* Draining, channel closed *)
        destruct cl; [|destruct H]. destruct H as [H|[]]. subst s'. unfold Inv, set_con. cbn.
        destruct Hc as (HP & Hf).
        split; [exact Hcl|]. split; [intros _; split; reflexivity|]. split; [reflexivity|]. right. exact Hf.
      + destruct H.
      + destruct H.
    - (* close *)
      unfold next_close in H. destruct s as [td cl c o h md]. cbn in *.
      destruct td; [|destruct H]. destruct cl; [destruct H|]. destruct H as [H|[]]. subst s'. unfold Inv. cbn.
      split; [reflexivity|]. split.
      + intros E. destruct (Hmd E) as [E' _]. discriminate.
      + destruct c; try assumption. destruct Hc as [E _]. discriminate.
    - (* main *)
      unfold next_main in H. destruct s as [td cl c o h md]. cbn in *.
      destruct cl; cbn in H; [|destruct H]. destruct (exited c) eqn:Ee; cbn in H; [|destruct H].
      destruct md; cbn in H; [destruct H|]. destruct H as [H|[]]. subst s'. unfold Inv. cbn.
      split; [assumption|]. split; [intros _; split; [reflexivity | assumption]|].
      destruct c; try discriminate; assumption.
  Qed.

  Lemma Inv_reachable s : reachable (init all_batches) s -> Inv s.
  Proof. induction 1 as [|s s' _ IH Hs]; [apply Inv_init | eapply Inv_step; eassumption]. Qed.

  (* ---------------------------------------------------------------- no deadlock (Repaired) *)

  Lemma app_nil_inv {X} (a b : list X) : a ++ b = [] -> a = [] /\ b = [].
  Proof. destruct a; cbn; [auto | discriminate]. Qed.

  Lemma stuck_parts s : stuck s -> next_chan s = [] /\ next_cons s = [] /\ next_close s = [] /\ next_main s = [].
  Proof.
    unfold stuck, next. intros H.
    apply app_nil_inv in H. destruct H as [H1 H]. apply app_nil_inv in H. destruct H as [H2 H].
    apply app_nil_inv in H. destruct H as [H3 H4]. auto.
  Qed.

  Lemma repaired_no_deadlock s : P = Repaired -> Inv s -> stuck s -> main_done s = true.
  Proof.
    intros HP (Hcl & Hmd & Hc) Hst. apply stuck_parts in Hst. destruct Hst as (H1 & H2 & H3 & H4).
    destruct s as [td cl c o h md]. unfold next_chan, next_cons, next_close, next_main in *. cbn in *.
    destruct c as [|l| | |].
    - destruct td; [|discriminate]. destruct cl; discriminate.
    - destruct l; [discriminate|]. destruct (fails_now _); discriminate.
    - destruct td; [|discriminate]. destruct cl; discriminate.
    - destruct Hc as [HP' _]. congruence.
    - destruct Hc as [E _]. subst cl. cbn in H4. destruct md; [reflexivity | discriminate].
  Qed.

  (* what a finished call has produced *)
  Definition complete (s : st) : Prop := out s = all /\ hdr s = final_hdr all.
  Definition truncated (s : st) : Prop :=
    exists f, fail = Some f /\ f < length all /\ out s = firstn f all /\ hdr s = None.

  Lemma failed_at_truncated s : failed_at s -> truncated s.
  Proof.
    intros (Hh & Hf & Hl & rest & Hr). exists (length (out s)). repeat split; try assumption.
    rewrite <- Hr. rewrite firstn_app, Nat.sub_diag, firstn_all. cbn. now rewrite app_nil_r.
  Qed.

  Lemma done_outcome s : Inv s -> main_done s = true -> con s = Done ->
    (complete s /\ (forall f, fail = Some f -> length all <= f)) \/ truncated s.
  Proof.
    intros (_ & _ & Hc) _ E. rewrite E in Hc. destruct Hc as [_ [(Hh & Ho & Hb)|Hf]].
    - left. split; [split; [assumption | now rewrite Hh, Ho]|]. intros f Hf. rewrite <- Ho. now apply Hb.
    - right. now apply failed_at_truncated.
  Qed.

  (* ---------------------------------------------------------------- deterministic scheduler (for the cases files) *)

  Fixpoint exec (fuel : nat) (s : st) : st :=
    match fuel with
    | 0 => s
    | S k => match next s with [] => s | s' :: _ => exec k s' end
    end.

  Lemma exec_reachable s0 fuel s : reachable s0 s -> reachable s0 (exec fuel s).
  Proof.
    revert s. induction fuel as [|k IH]; intros s Hr; cbn; [assumption|].
    destruct (next s) as [|s' r] eqn:E; [assumption|]. apply IH. eapply reach_step; [eassumption|].
    unfold step. rewrite E. now left.
  Qed.

  Lemma exec_stuck fuel s : measure s <= fuel -> stuck (exec fuel s).
  Proof.
    revert s. induction fuel as [|k IH]; intros s Hm; cbn.
    - unfold stuck. destruct (next s) as [|s' r] eqn:E; [reflexivity|].
      assert (Hs : step s s') by (unfold step; rewrite E; now left). apply step_decreases in Hs. lia.
    - destruct (next s) as [|s' r] eqn:E; [exact E|]. apply IH.
      assert (Hs : step s s') by (unfold step; rewrite E; now left). apply step_decreases in Hs. lia.
  Qed.

  Definition final (batches : list (list A)) : st := exec (measure (init batches)) (init batches).
End Pipeline.

Arguments Receiving {A}.
Arguments Draining {A}.
Arguments Returned {A}.
Arguments Done {A}.

(* ------------------------------------------------------------------ theorems about whole calls *)

Section Calls.
  Variable A : Type.

  (* Repaired protocol: every execution is finite and can only stop with the call returned *)
  Theorem repaired_always_returns (batches : list (list A)) (fail : option nat) (fin_ok : bool) :
    (forall s n s', reachable Repaired fail fin_ok (init batches) s -> path Repaired fail fin_ok s n s' -> n <= measure s) /\
    (forall s, reachable Repaired fail fin_ok (init batches) s -> stuck Repaired fail fin_ok s ->
               main_done s = true /\ con s = Done /\ todo s = [] /\
               ((complete fin_ok batches s /\ (forall f, fail = Some f -> length (concat batches) <= f))
                \/ truncated fail batches s)).
  Proof.
    split.
    - intros s n s' _ Hp. pose proof (path_bounded Hp). lia.
    - intros s Hr Hst. pose proof (Inv_reachable Hr) as HI.
      pose proof (repaired_no_deadlock eq_refl HI Hst) as Hmd.
      pose proof HI as (Hcl & Hm & Hc). destruct (Hm Hmd) as [Ecl Eex].
      assert (Ec : con s = Done).
      { destruct (con s); try discriminate; [|reflexivity]. destruct Hc as [Hc _]. discriminate. }
      repeat split; try assumption.
      + now apply Hcl.
      + apply (done_outcome HI); assumption.
  Qed.

  (* the output cannot be created: ToSTL / To3MF print the error and return before
     starting the renderer; nothing is started, nothing to wait for *)
  Inductive call_state := NotStarted | Running (s : st A) | ReturnedEarly.
  Definition start (create_ok : bool) (batches : list (list A)) : call_state :=
    if create_ok then Running (init batches) else ReturnedEarly.
  Definition call_returned (c : call_state) : bool :=
    match c with ReturnedEarly => true | Running s => main_done s | NotStarted => false end.

  Theorem create_failure_returns batches : call_returned (start false batches) = true.
  Proof. reflexivity. Qed.

  (* no failure: whatever the interleaving, a finished consumer has written exactly
     the batches, in order, and the count equals their number *)
  Theorem consumer_all_interleavings (P : proto) (fin_ok : bool) (batches : list (list A)) s :
    reachable P None fin_ok (init batches) s -> con s = Done ->
    out s = concat batches /\ hdr s = if fin_ok then Some (length (concat batches)) else None.
  Proof.
    intros Hr E. pose proof (Inv_reachable Hr) as (_ & _ & Hc). rewrite E in Hc.
    destruct Hc as [_ [(Hh & Ho & _)|(_ & Hf & _)]]; [|discriminate].
    split; [assumption | now rewrite Hh, Ho].
  Qed.

  (* the scheduler used by the cases files yields a maximal execution *)
  Theorem final_is_maximal (P : proto) (fail : option nat) (fin_ok : bool) (batches : list (list A)) :
    reachable P fail fin_ok (init batches) (final P fail fin_ok batches) /\ stuck P fail fin_ok (final P fail fin_ok batches).
  Proof.
    unfold final. split; [apply exec_reachable, reach_refl | apply exec_stuck; lia].
  Qed.

  (* Pinned protocol: a failure anywhere before the last batch leaves the producer
     blocked on its send with nobody left to receive, and main never returns *)
  Variable fk : bool.     (* whether the finalisation would succeed plays no role *)

  Definition deadlocked (P : proto) (fail : option nat) (s : st A) : Prop :=
    stuck P fail fk s /\ main_done s = false /\ todo s <> [] /\ con s = Returned.

  Lemma pinned_writes_until_failure (todo0 : list (list A)) l o f :
    f = length o + length l ->
    forall x l', reachable Pinned (Some f) fk (mkst todo0 false (Writing (l ++ x :: l')) o None false)
                   (mkst todo0 false Returned (o ++ l) None false).
  Proof.
    revert o. induction l as [|y l IH]; intros o Hf x l'.
    - cbn in *. rewrite app_nil_r. eapply reach_step; [apply reach_refl|].
      unfold step, next, next_chan, next_cons. cbn.
      destruct todo0; cbn; unfold fails_now; cbn; replace (f =? length o) with true by (symmetry; apply Nat.eqb_eq; lia);
        cbn; now left.
    - cbn [app]. assert (Hs : step Pinned (Some f) fk (mkst todo0 false (Writing (y :: l ++ x :: l')) o None false)
                                  (mkst todo0 false (Writing (l ++ x :: l')) (o ++ [y]) None false)).
      { unfold step, next, next_chan, next_cons. cbn. cbn in Hf.
        destruct todo0; cbn; unfold fails_now; cbn; replace (f =? length o) with false by (symmetry; apply Nat.eqb_neq; lia);
          cbn; now left. }
      assert (Hr := IH (o ++ [y])). rewrite app_length in Hr. cbn in Hr, Hf.
      specialize (Hr ltac:(lia) x l'). rewrite <- app_assoc in Hr. cbn in Hr.
      clear IH. revert Hr. generalize (mkst todo0 false Returned (o ++ y :: l) None false). intros t Hr.
      induction Hr as [|s s' _ IH' Hs'].
      + eapply reach_step; [apply reach_refl | exact Hs].
      + eapply reach_step; [exact IH' | exact Hs'].
  Qed.

  Lemma reachable_trans P fail (a b c : st A) : reachable P fail fk a b -> reachable P fail fk b c -> reachable P fail fk a c.
  Proof. intros Hab Hbc. induction Hbc as [|s s' _ IH Hs]; [assumption | eapply reach_step; eassumption]. Qed.

  Lemma pinned_writes_whole_batch (todo0 : list (list A)) b o f :
    length o + length b <= f ->
    reachable Pinned (Some f) fk (mkst todo0 false (Writing b) o None false)
              (mkst todo0 false Receiving (o ++ b) None false).
  Proof.
    revert o. induction b as [|y b IH]; intros o Hf.
    - rewrite app_nil_r. eapply reach_step; [apply reach_refl|].
      unfold step, next, next_chan, next_cons. cbn. destruct todo0; cbn; now left.
    - cbn in Hf. eapply reachable_trans.
      + eapply reach_step; [apply reach_refl|].
        unfold step, next, next_chan, next_cons. cbn.
        destruct todo0; cbn; unfold fails_now; cbn; replace (f =? length o) with false by (symmetry; apply Nat.eqb_neq; lia);
          cbn; now left.
      + specialize (IH (o ++ [y])). rewrite app_length, <- app_assoc in IH. cbn in IH. apply IH. lia.
  Qed.

  Theorem pinned_hang (pre : list (list A)) (b : list A) (post : list (list A)) (f : nat) :
    post <> [] -> length (concat pre) <= f < length (concat pre) + length b ->
    exists s, reachable Pinned (Some f) fk (init (pre ++ b :: post)) s /\ deadlocked Pinned (Some f) s.
  Proof.
    intros Hpost Hf.
    assert (G : forall o, length o + length (concat pre) <= f < length o + length (concat pre) + length b ->
                exists s, reachable Pinned (Some f) fk (mkst (pre ++ b :: post) false Receiving o None false) s
                          /\ deadlocked Pinned (Some f) s).
    { clear Hf. induction pre as [|p pre IH]; intros o Hf; cbn in *.
      - (* the failing batch is received, written up to item f, then the consumer returns *)
        assert (Hsplit : exists l x l', b = l ++ x :: l' /\ f = length o + length l).
        { exists (firstn (f - length o) b). destruct (skipn (f - length o) b) as [|x l'] eqn:Es.
          - exfalso. assert (Hl := skipn_length (f - length o) b). rewrite Es in Hl. cbn in Hl. lia.
          - exists x, l'. split.
            + rewrite <- Es. symmetry. apply firstn_skipn.
            + rewrite firstn_length. lia. }
        destruct Hsplit as (l & x & l' & -> & Hfl).
        exists (mkst post false Returned (o ++ l) None false). split.
        + eapply reachable_trans; [|apply pinned_writes_until_failure; exact Hfl].
          eapply reach_step; [apply reach_refl|]. unfold step, next, next_chan. cbn. now left.
        + unfold deadlocked, stuck, next, next_chan, next_cons, next_close, next_main. cbn.
          destruct post; [contradiction|]. repeat split; discriminate.
      - rewrite app_length in Hf.
        destruct (IH (o ++ p)) as (s & Hr & Hd).
        { rewrite app_length. lia. }
        exists s. split; [|assumption].
        eapply reachable_trans; [|exact Hr].
        eapply reachable_trans; [|apply pinned_writes_whole_batch; lia].
        eapply reach_step; [apply reach_refl|]. unfold step, next, next_chan. cbn. now left. }
    apply (G []). cbn. lia.
  Qed.
End Calls.

(* ------------------------------------------------------------------ the evaluation worker pool *)

(* render/march3.go: marchingCubes calls evalRoutines(), which starts NumCPU
   goroutines that `range` over a global channel nobody closes.
     Pinned    every uniform marching-cubes render starts NumCPU more;
     Repaired  started once (sync.Once). *)
Record pool := mkpool { workers : nat; started : bool }.

Definition render_pool (P : proto) (ncpu : nat) (p : pool) (uses_pool : bool) : pool :=
  if uses_pool then
    match P with
    | Pinned => mkpool (workers p + ncpu) true
    | Repaired => if started p then p else mkpool (workers p + ncpu) true
    end
  else p.

(* goroutines of the pool alive after a history of renders (true = a renderer that uses the pool) *)
Definition spawned (P : proto) (ncpu : nat) (history : list bool) : nat :=
  workers (fold_left (render_pool P ncpu) history (mkpool 0 false)).

Lemma repaired_pool_from ncpu history p :
  fold_left (render_pool Repaired ncpu) history p
  = if started p then p else if existsb (fun u => u) history then mkpool (workers p + ncpu) true else p.
Proof.
  revert p. induction history as [|u h IH]; intros p; cbn [fold_left existsb].
  - now destruct (started p).
  - rewrite IH. destruct u; cbn [render_pool orb].
    + destruct (started p) eqn:E; [now rewrite E | reflexivity].
    + reflexivity.
Qed.

Theorem spawned_repaired_exact ncpu history :
  spawned Repaired ncpu history = if existsb (fun u => u) history then ncpu else 0.
Proof.
  unfold spawned. rewrite repaired_pool_from. cbn. now destruct (existsb _ history).
Qed.

Theorem goroutines_bounded ncpu history : spawned Repaired ncpu history <= ncpu.
Proof. rewrite spawned_repaired_exact. destruct (existsb _ history); lia. Qed.

Lemma pinned_pool_from ncpu k p :
  workers (fold_left (render_pool Pinned ncpu) (repeat true k) p) = workers p + k * ncpu.
Proof.
  revert p. induction k as [|k IH]; intros p; cbn; [lia|]. rewrite IH. cbn. lia.
Qed.

Theorem pinned_leak ncpu k : spawned Pinned ncpu (repeat true k) = k * ncpu.
Proof. unfold spawned. now rewrite pinned_pool_from. Qed.

(* ------------------------------------------------------------------ cases *)

(* A fault-injection case: id, flush threshold of the buffer, sizes of the Writes the
   renderer performs (run-length coded: (size, how many times)), index of the item
   whose write fails (None: streaming never fails), output created?, and what the
   implementation did: returned?, count field found in the file (None = not judged).
   The batches on the channel are computed by the buffer model (Sys/Buffer.v). *)
Definition fcase := (N * nat * list (nat * nat) * option nat * bool * bool * option nat)%type.

Definition expand_writes (w : list (nat * nat)) : list (list unit) :=
  flat_map (fun p => repeat (repeat tt (fst p)) (snd p)) w.

Definition batches_of (threshold : nat) (w : list (nat * nat)) : list (list unit) :=
  Buffer.sent (Buffer.run threshold (map Buffer.Write (expand_writes w) ++ [Buffer.Close])).

Definition predicted (P : proto) (batches : list (list unit)) (fail : option nat) (create_ok : bool) : bool * option nat :=
  match start create_ok batches with
  | Running _ => let s := final P fail true batches in (main_done s, hdr s)
  | c => (call_returned c, None)
  end.

Definition opt_nat_eqb (observed : option nat) (model : option nat) : bool :=
  match observed with
  | None => true
  | Some o => match model with Some m => Nat.eqb o m | None => Nat.eqb o 0 end   (* header left at its initial 0 *)
  end.

Definition fcase_ok (P : proto) (c : fcase) : bool :=
  let '(id, threshold, w, fail, create_ok, returned, count) := c in
  let '(r, h) := predicted P (batches_of threshold w) fail create_ok in
  Bool.eqb r returned && (negb create_ok || negb returned || opt_nat_eqb count h).

Definition fcase_id (c : fcase) : N := let '(id, _, _, _, _, _, _) := c in id.

Definition mismatches_f (cs : list fcase) : list N :=
  map fcase_id (filter (fun c => negb (fcase_ok Repaired c)) cs).

(* comparison with the model of the pinned code (used only to reproduce the defect) *)
Definition mismatches_f_pinned (cs : list fcase) : list N :=
  map fcase_id (filter (fun c => negb (fcase_ok Pinned c)) cs).

(* A goroutine-count case: id, NumCPU, history of renders (true = uses the pool),
   goroutines alive after the history minus those alive before it.  The model's
   number is an upper bound for the implementation (workers that exit earlier are
   no violation). *)
Definition gcase := (N * nat * list bool * nat)%type.
Definition gcase_ok (P : proto) (c : gcase) : bool :=
  let '(id, ncpu, history, extra) := c in
  match P with
  | Repaired => extra <=? spawned Repaired ncpu history
  | Pinned => extra =? spawned Pinned ncpu history
  end.
Definition gcase_id (c : gcase) : N := let '(id, _, _, _) := c in id.
Definition mismatches_g (cs : list gcase) : list N :=
  map gcase_id (filter (fun c => negb (gcase_ok Repaired c)) cs).
Definition mismatches_g_pinned (cs : list gcase) : list N :=
  map gcase_id (filter (fun c => negb (gcase_ok Pinned c)) cs).
