(* Lockset.v - C10: concurrent Evaluate calls.

   1. The data type of the effect summaries that harness/effsum regenerates from
      the Go source on every run (coq/Generated/Effects.v).
   2. An interleaving semantics of threads that read / write abstract locations
      and acquire / release mutexes; data races; the lockset discipline and its
      soundness over ALL interleavings (reach = any schedule).
   3. `safe`: the decidable check run over the regenerated summaries, and its
      soundness: threads that conform to safe summaries never race.
   4. A small-step model of a memoising cache whose Evaluate is one critical
      section (sdf/cache2.go after the fix): every interleaving of the micro
      steps is equivalent to the atomic calls in lock-acquisition order.
   5. The pinned (unguarded) CacheSDF2.Evaluate summary and a racing interleaving. *)
From Coq Require Import List String Bool Arith NArith Lia.
Import ListNotations.
Local Open Scope string_scope.

(* ------------------------------------------------------------------ 1. summaries *)

Inductive effect : Type :=
| ERead (loc : string) (locks : list string) (fn : string)     (* load from memory the function did not allocate *)
| EWrite (loc : string) (locks : list string) (fn : string)    (* store / map update / append / copy / delete *)
| EGo (target : string) (fn : string)                          (* go statement *)
| EChan (op : string) (ch : string) (fn : string)              (* send recv close select *)
| EMapRange (loc : string) (fn : string)                       (* range over a map *)
| ERand (callee : string) (fn : string)                        (* call into math/rand *)
| ETime (callee : string) (fn : string)                        (* call into time *)
| ESync (op : string) (obj : string) (fn : string)             (* WaitGroup, Once, atomic (mutex operations are folded into the lock sets) *)
| EInvoke (meth : string) (fn : string)                        (* dynamic call of an SDF2/SDF3 interface method: not followed, every implementation has its own summary *)
| EFunVal (what : string) (fn : string)                        (* call through a function value (blend / extrude closures): assumed pure *)
| EExt (pkg : string) (callee : string) (fn : string).         (* call into a package that is not followed, by package *)

Definition summary := (string * list effect)%type.

Definition mem (l : string) (ls : list string) : bool := existsb (String.eqb l) ls.

Lemma mem_In : forall l ls, mem l ls = true <-> In l ls.
Proof.
  intros l ls. unfold mem. rewrite existsb_exists. split.
  - intros [x [Hin Heq]]. apply String.eqb_eq in Heq. subst. exact Hin.
  - intros Hin. exists l. split; [exact Hin | apply String.eqb_refl].
Qed.

(* ------------------------------------------------------------------ 2. threads, interleavings, races *)

Definition loc := string.
Definition lock := string.

Inductive ev : Type := Rd (x : loc) | Wr (x : loc) | Acq (l : lock) | Rel (l : lock).

(* a running thread: the locks it holds and what it still has to do *)
Definition tstate := (list lock * list ev)%type.
Definition state := nat -> tstate.

Definition upd {A} (st : nat -> A) (i : nat) (t : A) : nat -> A :=
  fun j => if Nat.eqb j i then t else st j.

Lemma upd_same : forall A (st : nat -> A) i t, upd st i t i = t.
Proof. intros. unfold upd. now rewrite Nat.eqb_refl. Qed.

Lemma upd_other : forall A (st : nat -> A) i j t, j <> i -> upd st i t j = st j.
Proof. intros A st i j t Hne. unfold upd. apply Nat.eqb_neq in Hne. now rewrite Hne. Qed.

Definition free (st : state) (l : lock) : Prop := forall j, ~ In l (fst (st j)).

(* one step of one thread, chosen by an arbitrary scheduler; Acq blocks while the mutex is held *)
Inductive step : state -> state -> Prop :=
| step_rd : forall st i H x r, st i = (H, Rd x :: r) -> step st (upd st i (H, r))
| step_wr : forall st i H x r, st i = (H, Wr x :: r) -> step st (upd st i (H, r))
| step_acq : forall st i H l r, st i = (H, Acq l :: r) -> free st l -> step st (upd st i (l :: H, r))
| step_rel : forall st i H l r, st i = (H, Rel l :: r) -> In l H ->
    step st (upd st i (remove string_dec l H, r)).

(* reach s0 s: s is reached from s0 under SOME schedule; "forall s, reach s0 s -> ..." quantifies over all interleavings *)
Inductive reach (s0 : state) : state -> Prop :=
| reach_refl : reach s0 s0
| reach_step : forall s s', reach s0 s -> step s s' -> reach s0 s'.

Definition init (p : nat -> list ev) : state := fun i => ([], p i).

Definition access (e : ev) : option (bool * loc) :=
  match e with Rd x => Some (false, x) | Wr x => Some (true, x) | _ => None end.

(* two threads are both about to access the same location, one of them writing *)
Definition racy_on (x : loc) (st : state) : Prop :=
  exists i j Hi a ri Hj b rj wa wb,
    i <> j /\ st i = (Hi, a :: ri) /\ st j = (Hj, b :: rj) /\
    access a = Some (wa, x) /\ access b = Some (wb, x) /\ (wa = true \/ wb = true).

Definition racy (st : state) : Prop := exists x, racy_on x st.

(* the accesses a thread will still perform, each with the locks held at that moment *)
Fixpoint accs (H : list lock) (t : list ev) : list (bool * loc * list lock) :=
  match t with
  | [] => []
  | Rd x :: r => (false, x, H) :: accs H r
  | Wr x :: r => (true, x, H) :: accs H r
  | Acq l :: r => accs (l :: H) r
  | Rel l :: r => accs (remove string_dec l H) r
  end.

Definition taccs (t : tstate) := accs (fst t) (snd t).

(* lockset race: conflicting accesses of different threads with no common lock held *)
Definition lockset_race (st : state) : Prop :=
  exists i j wa wb x Ha Hb,
    i <> j /\ In (wa, x, Ha) (taccs (st i)) /\ In (wb, x, Hb) (taccs (st j)) /\
    (wa = true \/ wb = true) /\ (forall l, In l Ha -> ~ In l Hb).

(* mutual exclusion *)
Definition excl (st : state) : Prop :=
  forall i j l, In l (fst (st i)) -> In l (fst (st j)) -> i = j.

Lemma excl_init : forall p, excl (init p).
Proof. intros p i j l Hi. cbn in Hi. contradiction. Qed.

Lemma step_excl : forall st st', step st st' -> excl st -> excl st'.
Proof.
  intros st st' Hstep Hex.
  inversion Hstep as [st0 i H x r Hi | st0 i H x r Hi | st0 i H l r Hi Hfree | st0 i H l r Hi Hin]; subst;
    intros a b l0 Ha Hb;
    destruct (Nat.eq_dec a i) as [Ea | Na]; destruct (Nat.eq_dec b i) as [Eb | Nb]; subst;
    try reflexivity;
    repeat rewrite upd_same in *; repeat (rewrite upd_other in * by assumption); cbn [fst] in *.
  (* rd *)
  - apply (Hex i b l0); [rewrite Hi; exact Ha | exact Hb].
  - apply (Hex a i l0); [exact Ha | rewrite Hi; exact Hb].
  - apply (Hex a b l0); assumption.
  (* wr *)
  - apply (Hex i b l0); [rewrite Hi; exact Ha | exact Hb].
  - apply (Hex a i l0); [exact Ha | rewrite Hi; exact Hb].
  - apply (Hex a b l0); assumption.
  (* acq *)
  - destruct Ha as [E | Ha].
    + subst l0. exfalso. exact (Hfree b Hb).
    + apply (Hex i b l0); [rewrite Hi; exact Ha | exact Hb].
  - destruct Hb as [E | Hb].
    + subst l0. exfalso. exact (Hfree a Ha).
    + apply (Hex a i l0); [exact Ha | rewrite Hi; exact Hb].
  - apply (Hex a b l0); assumption.
  (* rel *)
  - apply in_remove in Ha. destruct Ha as [Ha _].
    apply (Hex i b l0); [rewrite Hi; exact Ha | exact Hb].
  - apply in_remove in Hb. destruct Hb as [Hb _].
    apply (Hex a i l0); [exact Ha | rewrite Hi; exact Hb].
  - apply (Hex a b l0); assumption.
Qed.

Lemma reach_excl : forall s0 st, excl s0 -> reach s0 st -> excl st.
Proof.
  intros s0 st H0 Hr. induction Hr as [| s s' Hr IH Hs]; [exact H0 | exact (step_excl _ _ Hs IH)].
Qed.

(* a step only removes accesses, it never changes the locks held at the remaining ones *)
Lemma step_taccs : forall st st', step st st' -> forall k, incl (taccs (st' k)) (taccs (st k)).
Proof.
  intros st st' Hstep k.
  inversion Hstep as [st0 i H x r Hi | st0 i H x r Hi | st0 i H l r Hi Hfree | st0 i H l r Hi Hin]; subst;
    (destruct (Nat.eq_dec k i) as [E | N];
     [subst k; rewrite upd_same; rewrite Hi; unfold taccs; cbn [fst snd accs]
     | rewrite upd_other by assumption; apply incl_refl]).
  - apply incl_tl, incl_refl.
  - apply incl_tl, incl_refl.
  - apply incl_refl.
  - apply incl_refl.
Qed.

Lemma step_lockset_race : forall st st', step st st' -> lockset_race st' -> lockset_race st.
Proof.
  intros st st' Hstep (i & j & wa & wb & x & Ha & Hb & Hij & Ia & Ib & Hw & Hd).
  exists i, j, wa, wb, x, Ha, Hb. repeat split; try assumption.
  - exact (step_taccs _ _ Hstep i _ Ia).
  - exact (step_taccs _ _ Hstep j _ Ib).
Qed.

Lemma reach_lockset_race : forall s0 st, reach s0 st -> lockset_race st -> lockset_race s0.
Proof.
  intros s0 st Hr. induction Hr as [| s s' Hr IH Hs]; [tauto |].
  intros Hrace. apply IH. exact (step_lockset_race _ _ Hs Hrace).
Qed.

Lemma racy_lockset_race : forall st, excl st -> racy st -> lockset_race st.
Proof.
  intros st Hex [x (i & j & Hi & a & ri & Hj & b & rj & wa & wb & Hij & Si & Sj & Aa & Ab & Hw)].
  exists i, j, wa, wb, x, Hi, Hj. repeat split; try assumption.
  - rewrite Si. unfold taccs. cbn [fst snd].
    destruct a; cbn in Aa; inversion Aa; subst; cbn; left; reflexivity.
  - rewrite Sj. unfold taccs. cbn [fst snd].
    destruct b; cbn in Ab; inversion Ab; subst; cbn; left; reflexivity.
  - intros l La Lb. apply Hij. apply (Hex i j l).
    + rewrite Si. exact La.
    + rewrite Sj. exact Lb.
Qed.

(* The lockset discipline is sound: no lockset race in the program => in no
   reachable state of any interleaving are two threads about to perform
   conflicting accesses. *)
Theorem lockset_discipline_sound : forall s0,
  excl s0 -> ~ lockset_race s0 -> forall st, reach s0 st -> ~ racy st.
Proof.
  intros s0 Hex Hno st Hr Hracy. apply Hno.
  apply (reach_lockset_race s0 st Hr).
  apply racy_lockset_race; [exact (reach_excl _ _ Hex Hr) | exact Hracy].
Qed.

Lemma accs_write_In : forall t H x H', In (true, x, H') (accs H t) -> In (Wr x) t.
Proof.
  induction t as [| e r IH]; intros H x H' Hin; cbn in Hin; [contradiction |].
  destruct e as [y | y | l | l]; cbn in Hin.
  - destruct Hin as [E | Hin]; [discriminate E | right; exact (IH _ _ _ Hin)].
  - destruct Hin as [E | Hin]; [inversion E; subst; left; reflexivity | right; exact (IH _ _ _ Hin)].
  - right. exact (IH _ _ _ Hin).
  - right. exact (IH _ _ _ Hin).
Qed.

(* no thread writes => no race, under any interleaving *)
Theorem readonly_race_free : forall p : nat -> list ev,
  (forall i x, ~ In (Wr x) (p i)) ->
  forall st, reach (init p) st -> ~ racy st.
Proof.
  intros p Hro. apply lockset_discipline_sound; [apply excl_init |].
  intros (i & j & wa & wb & x & Ha & Hb & _ & Ia & Ib & Hw & _).
  unfold init, taccs in Ia, Ib. cbn [fst snd] in Ia, Ib.
  destruct Hw as [E | E]; subst.
  - exact (Hro i x (accs_write_In _ _ _ _ Ia)).
  - exact (Hro j x (accs_write_In _ _ _ _ Ib)).
Qed.

(* every access to a location that is written anywhere holds that location's lock => no race *)
Theorem guarded_race_free : forall (p : nat -> list ev) (G : loc -> lock),
  (forall i j w x H H', In (w, x, H) (accs [] (p i)) -> In (true, x, H') (accs [] (p j)) -> In (G x) H) ->
  forall st, reach (init p) st -> ~ racy st.
Proof.
  intros p G Hg. apply lockset_discipline_sound; [apply excl_init |].
  intros (i & j & wa & wb & x & Ha & Hb & _ & Ia & Ib & Hw & Hd).
  unfold init, taccs in Ia, Ib. cbn [fst snd] in Ia, Ib.
  destruct Hw as [E | E]; subst.
  - apply (Hd (G x)).
    + exact (Hg i i true x Ha Ha Ia Ia).
    + exact (Hg j i wb x Hb Ha Ib Ia).
  - apply (Hd (G x)).
    + exact (Hg i j wa x Ha Hb Ia Ib).
    + exact (Hg j j true x Hb Hb Ib Ib).
Qed.

(* ------------------------------------------------------------------ 3. the check on the summaries *)

Definition eff_access (e : effect) : option (bool * string * list string) :=
  match e with
  | ERead x ls _ => Some (false, x, ls)
  | EWrite x ls _ => Some (true, x, ls)
  | _ => None
  end.

(* lock l is held at every access to x listed in all *)
Definition guarded_in (all : list effect) (x : string) (l : string) : bool :=
  forallb (fun a => match eff_access a with
                    | Some (_, y, ls) => if String.eqb y x then mem l ls else true
                    | None => true
                    end) all.

(* packages an Evaluate may call into without being followed: no shared state, or internally synchronised (fmt) *)
Definition pure_pkgs : list string := ["math"; "math/bits"; "sort"; "fmt"; "errors"; "strconv"; "strings"].

Definition safe_effect (all : list effect) (e : effect) : bool :=
  match e with
  | ERead _ _ _ => true
  | EWrite x ls _ => existsb (guarded_in all x) ls
  | EGo _ _ => false
  | EChan _ _ _ => false
  | EMapRange _ _ => true          (* a read of the map, listed as ERead as well; the order is C09's concern *)
  | ERand _ _ => false             (* the library's rand source is shared and not synchronised *)
  | ETime _ _ => false
  | ESync _ _ _ => false
  | EInvoke _ _ => true            (* child shapes: covered by their own summaries *)
  | EFunVal _ _ => true            (* ASSUMPTION: blend/extrude function values are pure *)
  | EExt pkg _ _ => mem pkg pure_pkgs
  end.

Definition all_effects (ss : list summary) : list effect := flat_map snd ss.

Definition safe_in (all : list effect) (s : summary) : bool := forallb (safe_effect all) (snd s).

Definition mk_access (w : bool) (x : string) (ls : list string) (fn : string) : effect :=
  if w then EWrite x ls fn else ERead x ls fn.

(* a thread conforms to a summary: each of its accesses is listed, with locks that it really holds *)
Definition conforms (s : list effect) (t : list ev) : Prop :=
  forall w x H, In (w, x, H) (accs [] t) -> exists ls fn, In (mk_access w x ls fn) s /\ incl ls H.

Lemma guarded_in_spec : forall all x l w ls fn,
  guarded_in all x l = true -> In (mk_access w x ls fn) all -> In l ls.
Proof.
  intros all x l w ls fn Hg Hin. unfold guarded_in in Hg. rewrite forallb_forall in Hg.
  specialize (Hg _ Hin). destruct w; cbn in Hg; rewrite String.eqb_refl in Hg; apply mem_In; exact Hg.
Qed.

Lemma safe_write_guard : forall all s x ls fn,
  forallb (safe_effect all) s = true -> In (EWrite x ls fn) s ->
  exists l, In l ls /\ guarded_in all x l = true.
Proof.
  intros all s x ls fn Hs Hin. rewrite forallb_forall in Hs. specialize (Hs _ Hin). cbn in Hs.
  apply existsb_exists in Hs. exact Hs.
Qed.

(* Soundness of the check: if every summary is safe w.r.t. the union of all summaries, any
   number of threads each conforming to one of the summaries never race, in any interleaving. *)
Theorem safe_sound : forall (ss : list summary) (p : nat -> list ev),
  forallb (safe_in (all_effects ss)) ss = true ->
  (forall i, exists s, In s ss /\ conforms (snd s) (p i)) ->
  forall st, reach (init p) st -> ~ racy st.
Proof.
  intros ss p Hsafe Hconf. apply lockset_discipline_sound; [apply excl_init |].
  intros (i & j & wa & wb & x & Ha & Hb & _ & Ia & Ib & Hw & Hd).
  unfold init, taccs in Ia, Ib. cbn [fst snd] in Ia, Ib.
  destruct (Hconf i) as (si & Hsi & Ci). destruct (Hconf j) as (sj & Hsj & Cj).
  destruct (Ci _ _ _ Ia) as (lsa & fna & Ea & Inca).
  destruct (Cj _ _ _ Ib) as (lsb & fnb & Eb & Incb).
  rewrite forallb_forall in Hsafe.
  assert (Alla : In (mk_access wa x lsa fna) (all_effects ss)).
  { unfold all_effects. apply in_flat_map. exists si. split; assumption. }
  assert (Allb : In (mk_access wb x lsb fnb) (all_effects ss)).
  { unfold all_effects. apply in_flat_map. exists sj. split; assumption. }
  destruct Hw as [E | E]; subst.
  - destruct (safe_write_guard _ _ _ _ _ (Hsafe _ Hsi) Ea) as (l & Hl & Hg).
    apply (Hd l); [apply Inca; exact Hl |].
    apply Incb. exact (guarded_in_spec _ _ _ _ _ _ Hg Allb).
  - destruct (safe_write_guard _ _ _ _ _ (Hsafe _ Hsj) Eb) as (l & Hl & Hg).
    apply (Hd l); [| apply Incb; exact Hl].
    apply Inca. exact (guarded_in_spec _ _ _ _ _ _ Hg Alla).
Qed.

(* one thread that performs the accesses of a summary in the listed order, taking the listed locks *)
Definition thread_of (s : list effect) : list ev :=
  flat_map (fun e => match eff_access e with
                     | Some (w, x, ls) => (map Acq ls ++ [if w then Wr x else Rd x] ++ map Rel ls)%list
                     | None => []
                     end) s.

(* firing the next access of thread i (used to build witnesses) *)
Definition fire (i : nat) (st : state) : state :=
  match st i with
  | (H, Rd x :: r) => upd st i (H, r)
  | (H, Wr x :: r) => upd st i (H, r)
  | _ => st
  end.

Lemma fire_reach : forall s0 st i, reach s0 st -> reach s0 (fire i st).
Proof.
  intros s0 st i Hr. unfold fire. destruct (st i) as [H t] eqn:E. destruct t as [| e r]; [exact Hr |].
  destruct e; try exact Hr.
  - eapply reach_step; [exact Hr | eapply step_rd; exact E].
  - eapply reach_step; [exact Hr | eapply step_wr; exact E].
Qed.

(* ------------------------------------------------------------------ 4. the guarded cache *)

Section Cache.
  Variable P V : Type.
  Variable P_dec : forall a b : P, {a = b} + {a <> b}.
  Variable f : P -> V.                         (* the wrapped shape's Evaluate: a function (C10 for the child) *)

  Fixpoint lookup (m : list (P * V)) (p : P) : option V :=
    match m with
    | [] => None
    | (q, d) :: r => if P_dec q p then Some d else lookup r p
    end.

  (* the specification: one whole Evaluate call as an atomic operation on (map, reads, hits) *)
  Definition cstate := (list (P * V) * nat * nat)%type.
  Definition atomic (c : cstate) (p : P) : cstate :=
    let '(m, r, h) := c in
    match lookup m p with
    | Some _ => (m, S r, S h)
    | None => ((p, f p) :: m, S r, h)
    end.
  Definition atomic_result (c : cstate) (p : P) : V :=
    let '(m, _, _) := c in match lookup m p with Some d => d | None => f p end.

  (* program counter of a caller inside Evaluate, statement by statement (sdf/cache2.go):
       s.mu.Lock(); defer s.mu.Unlock()
       s.reads++                              load, store
       if d, ok := s.cache[p]; ok {           map read
           s.hits++; return d                 load, store
       }
       d := s.sdf.Evaluate(p)
       s.cache[p] = d                         map write
       return d                                                                   *)
  Inductive pc : Type :=
  | Idle
  | L0 (p : P)                      (* holds the lock *)
  | L1 (p : P) (r : nat)            (* loaded reads *)
  | L2 (p : P)                      (* stored reads+1 *)
  | L3h (p : P) (d : V)             (* lookup hit *)
  | L4h (p : P) (d : V) (h : nat)   (* loaded hits *)
  | L3m (p : P)                     (* lookup miss *)
  | L4m (p : P) (d : V)             (* child evaluated *)
  | L5 (p : P) (d : V).             (* about to unlock and return d *)

  Record cache_state : Type := mkC {
    c_map : list (P * V); c_reads : nat; c_hits : nat;
    c_owner : option nat;                      (* the mutex *)
    c_log : list (nat * P * V);                (* returned calls, latest first: (caller, point, result) *)
    c_thr : nat -> (list P * pc)               (* per caller: points still to evaluate, pc *)
  }.

  Inductive cstep : cache_state -> cache_state -> Prop :=
  | cs_lock : forall s i p t, c_thr s i = (p :: t, Idle) -> c_owner s = None ->
      cstep s (mkC (c_map s) (c_reads s) (c_hits s) (Some i) (c_log s) (upd (c_thr s) i (t, L0 p)))
  | cs_ld_reads : forall s i p t, c_thr s i = (t, L0 p) ->
      cstep s (mkC (c_map s) (c_reads s) (c_hits s) (c_owner s) (c_log s) (upd (c_thr s) i (t, L1 p (c_reads s))))
  | cs_st_reads : forall s i p r t, c_thr s i = (t, L1 p r) ->
      cstep s (mkC (c_map s) (S r) (c_hits s) (c_owner s) (c_log s) (upd (c_thr s) i (t, L2 p)))
  | cs_lookup : forall s i p t, c_thr s i = (t, L2 p) ->
      cstep s (mkC (c_map s) (c_reads s) (c_hits s) (c_owner s) (c_log s)
                   (upd (c_thr s) i (t, match lookup (c_map s) p with Some d => L3h p d | None => L3m p end)))
  | cs_ld_hits : forall s i p d t, c_thr s i = (t, L3h p d) ->
      cstep s (mkC (c_map s) (c_reads s) (c_hits s) (c_owner s) (c_log s) (upd (c_thr s) i (t, L4h p d (c_hits s))))
  | cs_st_hits : forall s i p d h t, c_thr s i = (t, L4h p d h) ->
      cstep s (mkC (c_map s) (c_reads s) (S h) (c_owner s) (c_log s) (upd (c_thr s) i (t, L5 p d)))
  | cs_child : forall s i p t, c_thr s i = (t, L3m p) ->
      cstep s (mkC (c_map s) (c_reads s) (c_hits s) (c_owner s) (c_log s) (upd (c_thr s) i (t, L4m p (f p))))
  | cs_store : forall s i p d t, c_thr s i = (t, L4m p d) ->
      cstep s (mkC ((p, d) :: c_map s) (c_reads s) (c_hits s) (c_owner s) (c_log s) (upd (c_thr s) i (t, L5 p d)))
  | cs_unlock : forall s i p d t, c_thr s i = (t, L5 p d) ->
      cstep s (mkC (c_map s) (c_reads s) (c_hits s) None ((i, p, d) :: c_log s) (upd (c_thr s) i (t, Idle))).

  Inductive creach (s0 : cache_state) : cache_state -> Prop :=
  | creach_refl : creach s0 s0
  | creach_step : forall s s', creach s0 s -> cstep s s' -> creach s0 s'.

  Lemma creach_first : forall s0 s1 s, cstep s0 s1 -> creach s1 s -> creach s0 s.
  Proof.
    intros s0 s1 s H01 Hr. induction Hr as [| s s' Hr IH Hs].
    - eapply creach_step; [apply creach_refl | exact H01].
    - eapply creach_step; [exact IH | exact Hs].
  Qed.

  Definition cinit (todo : nat -> list P) : cache_state :=
    mkC [] 0 0 None [] (fun i => (todo i, Idle)).

  (* the atomic calls in the order in which they returned *)
  Definition abs (log : list (nat * P * V)) : cstate :=
    fold_right (fun e c => atomic c (snd (fst e))) ([], 0, 0) log.

  Definition consistent (m : list (P * V)) : Prop := forall p d, lookup m p = Some d -> d = f p.

  Lemma abs_cons : forall e log, abs (e :: log) = atomic (abs log) (snd (fst e)).
  Proof. reflexivity. Qed.

  Lemma abs_consistent : forall log, consistent (fst (fst (abs log))).
  Proof.
    induction log as [| e log IH].
    - intros p d H. discriminate H.
    - rewrite abs_cons. destruct (abs log) as [[m r] h]. cbn [fst] in IH. unfold atomic.
      destruct (lookup m (snd (fst e))) eqn:E; cbn [fst]; [exact IH |].
      intros p d H. cbn [lookup] in H. destruct (P_dec (snd (fst e)) p) as [Eq | Ne].
      + inversion H. subst. reflexivity.
      + exact (IH p d H).
  Qed.

  Definition pc_inv (s : cache_state) (c : cstate) (k : pc) : Prop :=
    let '(m0, r0, h0) := c in
    match k with
    | Idle => False
    | L0 p => c_map s = m0 /\ c_reads s = r0 /\ c_hits s = h0
    | L1 p r => c_map s = m0 /\ c_reads s = r0 /\ c_hits s = h0 /\ r = r0
    | L2 p => c_map s = m0 /\ c_reads s = S r0 /\ c_hits s = h0
    | L3h p d => c_map s = m0 /\ c_reads s = S r0 /\ c_hits s = h0 /\ lookup m0 p = Some d
    | L4h p d h => c_map s = m0 /\ c_reads s = S r0 /\ c_hits s = h0 /\ lookup m0 p = Some d /\ h = h0
    | L3m p => c_map s = m0 /\ c_reads s = S r0 /\ c_hits s = h0 /\ lookup m0 p = None
    | L4m p d => c_map s = m0 /\ c_reads s = S r0 /\ c_hits s = h0 /\ lookup m0 p = None /\ d = f p
    | L5 p d => (c_map s, c_reads s, c_hits s) = atomic (m0, r0, h0) p /\ d = atomic_result (m0, r0, h0) p
    end.

  Definition cinv (s : cache_state) : Prop :=
    (forall i p d, In (i, p, d) (c_log s) -> d = f p) /\
    match c_owner s with
    | None => (forall j, snd (c_thr s j) = Idle) /\ (c_map s, c_reads s, c_hits s) = abs (c_log s)
    | Some i => (forall j, j <> i -> snd (c_thr s j) = Idle) /\ pc_inv s (abs (c_log s)) (snd (c_thr s i))
    end.

  Lemma cinv_init : forall todo, cinv (cinit todo).
  Proof. intros todo. split; cbn; [intros; contradiction | split; [reflexivity | reflexivity]]. Qed.

  (* a caller that is not the owner is Idle, so any non-lock step is taken by the owner *)
  Lemma owner_steps : forall s i t k, cinv s -> c_thr s i = (t, k) -> k <> Idle -> c_owner s = Some i.
  Proof.
    intros s i t k [_ Hinv] Hi Hk. destruct (c_owner s) as [o |].
    - destruct Hinv as [Hidle _]. destruct (Nat.eq_dec i o) as [E | N]; [subst; reflexivity |].
      specialize (Hidle i N). rewrite Hi in Hidle. cbn in Hidle. contradiction.
    - destruct Hinv as [Hidle _]. specialize (Hidle i). rewrite Hi in Hidle. cbn in Hidle. contradiction.
  Qed.

  Lemma cstep_inv : forall s s', cstep s s' -> cinv s -> cinv s'.
  Proof.
    intros s s' Hstep Hinv.
    inversion Hstep as [s0 i p t Hi Hfree | s0 i p t Hi | s0 i p r t Hi | s0 i p t Hi
                        | s0 i p d t Hi | s0 i p d h t Hi | s0 i p t Hi | s0 i p d t Hi | s0 i p d t Hi]; subst.
    - (* lock *)
      destruct Hinv as [Hlog Hrest]. rewrite Hfree in Hrest. destruct Hrest as [Hidle Habs].
      split; cbn [c_log c_owner c_thr c_map c_reads c_hits]; [exact Hlog |].
      split.
      + intros j Hj. rewrite upd_other by exact Hj. apply Hidle.
      + rewrite upd_same. cbn [snd]. unfold pc_inv. rewrite <- Habs. cbn. repeat split; reflexivity.
    - (* load reads *)
      assert (Ho := owner_steps _ _ _ _ Hinv Hi ltac:(discriminate)).
      destruct Hinv as [Hlog Hrest]. rewrite Ho in Hrest. destruct Hrest as [Hidle Hpc].
      rewrite Hi in Hpc. cbn [snd] in Hpc.
      split; cbn [c_log c_owner c_thr c_map c_reads c_hits]; [exact Hlog |]. rewrite Ho.
      split.
      + intros j Hj. rewrite upd_other by exact Hj. apply Hidle; exact Hj.
      + rewrite upd_same. cbn [snd]. unfold pc_inv in *. destruct (abs (c_log s)) as [[m0 r0] h0].
        cbn [c_map c_reads c_hits]. tauto.
    - (* store reads *)
      assert (Ho := owner_steps _ _ _ _ Hinv Hi ltac:(discriminate)).
      destruct Hinv as [Hlog Hrest]. rewrite Ho in Hrest. destruct Hrest as [Hidle Hpc].
      rewrite Hi in Hpc. cbn [snd] in Hpc.
      split; cbn [c_log c_owner c_thr c_map c_reads c_hits]; [exact Hlog |]. rewrite Ho.
      split.
      + intros j Hj. rewrite upd_other by exact Hj. apply Hidle; exact Hj.
      + rewrite upd_same. cbn [snd]. unfold pc_inv in *. destruct (abs (c_log s)) as [[m0 r0] h0].
        cbn [c_map c_reads c_hits]. destruct Hpc as (A & B & C & D). subst r. tauto.
    - (* lookup *)
      assert (Ho := owner_steps _ _ _ _ Hinv Hi ltac:(discriminate)).
      destruct Hinv as [Hlog Hrest]. rewrite Ho in Hrest. destruct Hrest as [Hidle Hpc].
      rewrite Hi in Hpc. cbn [snd] in Hpc.
      split; cbn [c_log c_owner c_thr c_map c_reads c_hits]; [exact Hlog |]. rewrite Ho.
      split.
      + intros j Hj. rewrite upd_other by exact Hj. apply Hidle; exact Hj.
      + rewrite upd_same. cbn [snd]. unfold pc_inv in *. destruct (abs (c_log s)) as [[m0 r0] h0].
        destruct Hpc as (A & B & C). rewrite A.
        destruct (lookup m0 p) eqn:E; cbn [c_map c_reads c_hits]; tauto.
    - (* load hits *)
      assert (Ho := owner_steps _ _ _ _ Hinv Hi ltac:(discriminate)).
      destruct Hinv as [Hlog Hrest]. rewrite Ho in Hrest. destruct Hrest as [Hidle Hpc].
      rewrite Hi in Hpc. cbn [snd] in Hpc.
      split; cbn [c_log c_owner c_thr c_map c_reads c_hits]; [exact Hlog |]. rewrite Ho.
      split.
      + intros j Hj. rewrite upd_other by exact Hj. apply Hidle; exact Hj.
      + rewrite upd_same. cbn [snd]. unfold pc_inv in *. destruct (abs (c_log s)) as [[m0 r0] h0].
        cbn [c_map c_reads c_hits]. tauto.
    - (* store hits *)
      assert (Ho := owner_steps _ _ _ _ Hinv Hi ltac:(discriminate)).
      destruct Hinv as [Hlog Hrest]. rewrite Ho in Hrest. destruct Hrest as [Hidle Hpc].
      rewrite Hi in Hpc. cbn [snd] in Hpc.
      split; cbn [c_log c_owner c_thr c_map c_reads c_hits]; [exact Hlog |]. rewrite Ho.
      split.
      + intros j Hj. rewrite upd_other by exact Hj. apply Hidle; exact Hj.
      + rewrite upd_same. cbn [snd]. unfold pc_inv in *. destruct (abs (c_log s)) as [[m0 r0] h0].
        cbn [c_map c_reads c_hits]. destruct Hpc as (A & B & C & D & E). subst h.
        unfold atomic, atomic_result. rewrite D. rewrite A, B. split; reflexivity.
    - (* child *)
      assert (Ho := owner_steps _ _ _ _ Hinv Hi ltac:(discriminate)).
      destruct Hinv as [Hlog Hrest]. rewrite Ho in Hrest. destruct Hrest as [Hidle Hpc].
      rewrite Hi in Hpc. cbn [snd] in Hpc.
      split; cbn [c_log c_owner c_thr c_map c_reads c_hits]; [exact Hlog |]. rewrite Ho.
      split.
      + intros j Hj. rewrite upd_other by exact Hj. apply Hidle; exact Hj.
      + rewrite upd_same. cbn [snd]. unfold pc_inv in *. destruct (abs (c_log s)) as [[m0 r0] h0].
        cbn [c_map c_reads c_hits]. tauto.
    - (* store into the map *)
      assert (Ho := owner_steps _ _ _ _ Hinv Hi ltac:(discriminate)).
      destruct Hinv as [Hlog Hrest]. rewrite Ho in Hrest. destruct Hrest as [Hidle Hpc].
      rewrite Hi in Hpc. cbn [snd] in Hpc.
      split; cbn [c_log c_owner c_thr c_map c_reads c_hits]; [exact Hlog |]. rewrite Ho.
      split.
      + intros j Hj. rewrite upd_other by exact Hj. apply Hidle; exact Hj.
      + rewrite upd_same. cbn [snd]. unfold pc_inv in *. destruct (abs (c_log s)) as [[m0 r0] h0].
        cbn [c_map c_reads c_hits]. destruct Hpc as (A & B & C & D & E). subst d.
        unfold atomic, atomic_result. rewrite D. rewrite A, B, C. split; reflexivity.
    - (* unlock and return *)
      assert (Ho := owner_steps _ _ _ _ Hinv Hi ltac:(discriminate)).
      destruct Hinv as [Hlog Hrest]. rewrite Ho in Hrest. destruct Hrest as [Hidle Hpc].
      rewrite Hi in Hpc. cbn [snd] in Hpc.
      assert (Hcons := abs_consistent (c_log s)).
      unfold pc_inv in Hpc. destruct (abs (c_log s)) as [[m0 r0] h0] eqn:Eabs. destruct Hpc as [Hat Hd].
      cbn [fst] in Hcons.
      split; cbn [c_log c_owner c_thr c_map c_reads c_hits].
      + intros j q e [E | Hin]; [| exact (Hlog j q e Hin)].
        inversion E; subst. unfold atomic_result.
        destruct (lookup m0 q) eqn:El; [exact (Hcons q v El) | reflexivity].
      + split.
        * intros j. destruct (Nat.eq_dec j i) as [E | N].
          -- subst. rewrite upd_same. reflexivity.
          -- rewrite upd_other by exact N. apply Hidle; exact N.
        * rewrite abs_cons. rewrite Eabs. cbn [fst snd]. exact Hat.
  Qed.

  Lemma creach_inv : forall todo s, creach (cinit todo) s -> cinv s.
  Proof.
    intros todo s Hr. induction Hr as [| s s' Hr IH Hs]; [apply cinv_init | exact (cstep_inv _ _ Hs IH)].
  Qed.

  Lemma abs_counters : forall log,
    let '(m, r, h) := abs log in r = List.length log /\ h + List.length m = r.
  Proof.
    induction log as [| e log IH]; [cbn; split; reflexivity |].
    rewrite abs_cons. destruct (abs log) as [[m r] h]. destruct IH as [A B]. unfold atomic.
    destruct (lookup m (snd (fst e))); cbn [List.length]; split; lia.
  Qed.

  (* Linearizability of the lock-guarded cache, over all interleavings of the micro steps of
     any number of callers: every call that returned got f p; whenever the mutex is free the
     map and both counters are exactly those of the atomic calls executed one after the other
     in the order in which they returned (so reads = number of calls, hits + entries = reads). *)
  Theorem guarded_cache_linearizable : forall (todo : nat -> list P) (s : cache_state),
    creach (cinit todo) s ->
    (forall i p d, In (i, p, d) (c_log s) -> d = f p) /\
    (c_owner s = None ->
       (c_map s, c_reads s, c_hits s) = abs (c_log s) /\
       c_reads s = List.length (c_log s) /\ c_hits s + List.length (c_map s) = c_reads s /\
       consistent (c_map s)).
  Proof.
    intros todo s Hr. destruct (creach_inv _ _ Hr) as [Hlog Hrest]. split; [exact Hlog |].
    intros Hfree. rewrite Hfree in Hrest. destruct Hrest as [_ Habs].
    assert (Hc := abs_counters (c_log s)). assert (Hk := abs_consistent (c_log s)).
    rewrite <- Habs in Hc, Hk. cbn in Hk. destruct Hc as [A B]. repeat split; assumption.
  Qed.
End Cache.

(* non-vacuity: one caller runs through a whole (missing) call *)
Lemma cache_run_example :
  exists s, creach nat nat Nat.eq_dec (fun p => p + 1) (cinit nat nat (fun i => if Nat.eqb i 0 then [7] else [])) s /\
            c_log nat nat s = [(0, 7, 8)] /\ c_owner nat nat s = None /\ c_reads nat nat s = 1 /\ c_hits nat nat s = 0.
Proof.
  eexists. split.
  - eapply creach_first; [eapply cs_lock with (i := 0); reflexivity |].
    eapply creach_first; [eapply cs_ld_reads with (i := 0); reflexivity |].
    eapply creach_first; [eapply cs_st_reads with (i := 0); reflexivity |].
    eapply creach_first; [eapply cs_lookup with (i := 0); reflexivity |].
    eapply creach_first; [eapply cs_child with (i := 0); reflexivity |].
    eapply creach_first; [eapply cs_store with (i := 0); reflexivity |].
    eapply creach_first; [eapply cs_unlock with (i := 0); reflexivity |].
    apply creach_refl.
  - cbn. repeat split; reflexivity.
Qed.

(* ------------------------------------------------------------------ 5. the pinned CacheSDF2.Evaluate *)

(* effsum output for sdf/cache2.go at the pinned commit (before the fix: commit) *)
Definition pinned_cache_summary : summary :=
  ("(*sdf.CacheSDF2).Evaluate", [
     EInvoke "sdf.SDF2.Evaluate" "(*sdf.CacheSDF2).Evaluate";
     ERead "sdf.CacheSDF2.cache" [] "(*sdf.CacheSDF2).Evaluate";
     ERead "sdf.CacheSDF2.cache{}" [] "(*sdf.CacheSDF2).Evaluate";
     ERead "sdf.CacheSDF2.hits" [] "(*sdf.CacheSDF2).Evaluate";
     ERead "sdf.CacheSDF2.reads" [] "(*sdf.CacheSDF2).Evaluate";
     ERead "sdf.CacheSDF2.sdf" [] "(*sdf.CacheSDF2).Evaluate";
     EWrite "sdf.CacheSDF2.cache{}" [] "(*sdf.CacheSDF2).Evaluate";
     EWrite "sdf.CacheSDF2.hits" [] "(*sdf.CacheSDF2).Evaluate";
     EWrite "sdf.CacheSDF2.reads" [] "(*sdf.CacheSDF2).Evaluate"]).

Definition pinned_two_callers : nat -> list ev :=
  fun i => if Nat.ltb i 2 then thread_of (snd pinned_cache_summary) else [].

(* caller 0 has looked the point up and is about to insert; caller 1 is about to look up *)
Definition pinned_race_state : state :=
  fire 1 (fire 0 (fire 0 (fire 0 (fire 0 (fire 0 (init pinned_two_callers)))))).

Lemma pinned_cache_refuted :
  safe_in (snd pinned_cache_summary) pinned_cache_summary = false /\
  reach (init pinned_two_callers) pinned_race_state /\
  racy_on "sdf.CacheSDF2.cache{}" pinned_race_state.
Proof.
  split; [vm_compute; reflexivity |]. split.
  - unfold pinned_race_state. repeat apply fire_reach. apply reach_refl.
  - exists 0, 1. do 6 eexists. exists true, false.
    split; [discriminate |]. split; [vm_compute; reflexivity |]. split; [vm_compute; reflexivity |].
    split; [reflexivity |]. split; [reflexivity |]. left; reflexivity.
Qed.

(* the same two callers under the guarded summary (what effsum must report after the fix) *)
Definition guarded_cache_effects : list effect := [
     EInvoke "sdf.SDF2.Evaluate" "(*sdf.CacheSDF2).Evaluate";
     ERead "sdf.CacheSDF2.cache" ["sdf.CacheSDF2.mu"] "(*sdf.CacheSDF2).Evaluate";
     ERead "sdf.CacheSDF2.cache{}" ["sdf.CacheSDF2.mu"] "(*sdf.CacheSDF2).Evaluate";
     ERead "sdf.CacheSDF2.hits" ["sdf.CacheSDF2.mu"] "(*sdf.CacheSDF2).Evaluate";
     ERead "sdf.CacheSDF2.reads" ["sdf.CacheSDF2.mu"] "(*sdf.CacheSDF2).Evaluate";
     ERead "sdf.CacheSDF2.sdf" ["sdf.CacheSDF2.mu"] "(*sdf.CacheSDF2).Evaluate";
     EWrite "sdf.CacheSDF2.cache{}" ["sdf.CacheSDF2.mu"] "(*sdf.CacheSDF2).Evaluate";
     EWrite "sdf.CacheSDF2.hits" ["sdf.CacheSDF2.mu"] "(*sdf.CacheSDF2).Evaluate";
     EWrite "sdf.CacheSDF2.reads" ["sdf.CacheSDF2.mu"] "(*sdf.CacheSDF2).Evaluate"].

Lemma thread_of_conforms_example : conforms guarded_cache_effects (thread_of guarded_cache_effects).
Proof.
  intros w x H Hin. vm_compute in Hin.
  repeat (destruct Hin as [E | Hin]; [inversion E; subst; clear E |]); try contradiction;
    match goal with
    | |- exists ls fn, In (mk_access ?w ?x ls fn) _ /\ _ =>
        exists ["sdf.CacheSDF2.mu"], "(*sdf.CacheSDF2).Evaluate"; split;
          [cbn; tauto | intros l [E | []]; subst; left; reflexivity]
    end.
Qed.

(* ------------------------------------------------------------------ correspondence: the cache counters *)

(* (id, the sequence of points given to Evaluate (as small numbers), reads, hits reported by the real CacheSDF2) *)
Definition case := (N * list N * N * N)%type.

Definition model_counters (ps : list N) : N * N :=
  let '(_, r, h) := fold_left (atomic N N N.eq_dec (fun _ => 0%N)) ps ([], 0, 0) in (N.of_nat r, N.of_nat h).

Definition mismatches (cs : list case) : list N :=
  flat_map (fun c => let '(id, ps, r, h) := c in
                     let '(mr, mh) := model_counters ps in
                     if (N.eqb mr r && N.eqb mh h)%bool then [] else [id]) cs.
