(* PipeProg.v - C12 (and the consumer half of C11): meaning of the extracted programs of the
   To* drivers, the writeXXX functions and their writer goroutines (Generated/SysProgs.v),
   and its relation to the transition system of Sys/Pipeline.v.

   1. `parse_driver`, `parse_writer`, `parse_consumer`: the grammar of the programs that have
      a meaning here (after removal of the Data statements):

        driver    [IfErr (PCreate w) H | Do (PCreate w)]; Do (PRender b); Do PCloseChan; Do PWgWait; [Return]
        writer    (IfErr (POpen _) [ReturnErr])*; Do (PMakeChan 0); Do (PWgAdd 1) (either order); Go consumer; Return
        consumer  Defer PWgDone; [Defer PCloseFile]; RangeChan [RangeItems item]; final*; [Return]
        item      Do PAccItem  |  IfErr PWriteItem handler; [Do PCount]
        handler   [Drain;] Return
        final     Do PSetHdr  |  IfErr (PFinal _) [Return]

      The grammar contains the repaired error path (drain the channel, then return) AND the
      pinned one (return at once), a create-error handler that returns AND one that does not;
      which one the source has is a fact about the generated program.
   2. A small-step semantics of one call: the caller (positions of the driver), the writer
      goroutine (positions of the consumer), the unbuffered channel (rendezvous between the
      renderer blocked in a send and the goroutine in `range`), the WaitGroup, deferred calls
      in LIFO order, a write error injected at any item, a failure of any finalisation call,
      a failure of any of the calls that create the output.
   3. `sim_step`: every step of that semantics is a step of Pipeline.next (protocol Repaired iff
      the handler drains) or leaves the Pipeline state unchanged and decreases a local measure.
   4. `source_call_returns`: for a driver whose create-error handler returns (or whose writer
      cannot fail) and a consumer that drains: every execution is finite, and an execution can
      only stop with the caller returned, the goroutine gone, the WaitGroup at zero, nothing
      unsent, the output complete (and finalised iff the finalisation succeeded) or cut exactly
      at the failing item.  `source_call_hangs`: the same semantics for a consumer that does
      not drain reaches a deadlock. *)
From Coq Require Import List Arith Lia Bool.
From Sdfx Require Import Sys.SysLang Sys.Pipeline.
From Coq Require String.
Import ListNotations.

Set Implicit Arguments.

(* ------------------------------------------------------------------ the grammar *)

Inductive fstep := FDo (p : prim) | FTry (p : prim).

Record consumer := mkK {
  k_closefile : bool;        (* defer f.Close() (registered after, hence run before, the deferred wg.Done()) *)
  k_fallible : bool;         (* the item loop tests the error of a write *)
  k_drain : bool;            (* its handler empties the channel before returning *)
  k_count : bool;            (* count++ after a successful write *)
  k_final : list fstep       (* what follows the receive loop *)
}.

Definition parse_handler (h : list stmt) : option bool :=
  match h with
  | [Drain; Return] => Some true
  | [Return] => Some false
  | _ => None
  end.

(* (fallible, drain, count); an item loop that cannot fail has no error path: either protocol *)
Definition parse_item (ib : list stmt) : option (bool * bool * bool) :=
  match ib with
  | [Do PAccItem] => Some (false, true, false)
  | [IfErr PWriteItem h] => option_map (fun d => (true, d, false)) (parse_handler h)
  | [IfErr PWriteItem h; Do PCount] => option_map (fun d => (true, d, true)) (parse_handler h)
  | _ => None
  end.

Fixpoint parse_final (p : list stmt) : option (list fstep) :=
  match p with
  | [] => Some []
  | [Return] => Some []
  | Do PSetHdr :: r => option_map (fun l => FDo PSetHdr :: l) (parse_final r)
  | IfErr (PFinal w) [Return] :: r => option_map (fun l => FTry (PFinal w) :: l) (parse_final r)
  | _ => None
  end.

(* a header that is given the count needs an item loop that counts *)
Definition sets_hdr (fs : list fstep) : bool :=
  existsb (fun f => match f with FDo PSetHdr => true | _ => false end) fs.

Definition mk_consumer (cf : bool) (ib fin : list stmt) : option consumer :=
  match parse_item ib, parse_final fin with
  | Some (f, d, c), Some fs => if sets_hdr fs && negb c then None else Some (mkK cf f d c fs)
  | _, _ => None
  end.

Definition parse_consumer (p : list stmt) : option consumer :=
  match p with
  | Defer PWgDone :: Defer PCloseFile :: RangeChan [RangeItems ib] :: fin => mk_consumer true ib fin
  | Defer PWgDone :: RangeChan [RangeItems ib] :: fin => mk_consumer false ib fin
  | _ => None
  end.

Record writer := mkW {
  w_opens : nat;             (* calls that can fail before the goroutine is started; each returns the error *)
  w_cons : consumer
}.

Fixpoint parse_writer (p : list stmt) : option writer :=
  match p with
  | IfErr (POpen _) [ReturnErr] :: r => option_map (fun w => mkW (S (w_opens w)) (w_cons w)) (parse_writer r)
  | [Do (PMakeChan 0); Do (PWgAdd 1); Go body; Return] => option_map (mkW 0) (parse_consumer body)
  | [Do (PWgAdd 1); Do (PMakeChan 0); Go body; Return] => option_map (mkW 0) (parse_consumer body)
  | _ => None
  end.

Record driver := mkD {
  d_writer : String.string;
  d_buffer : String.string;
  d_returns : bool           (* the handler of a failed creation returns *)
}.

Definition tail_ok (tl : list stmt) : bool := match tl with [] | [Return] => true | _ => false end.

Definition parse_driver (p : list stmt) : option driver :=
  match p with
  | IfErr (PCreate w) h :: Do (PRender b) :: Do PCloseChan :: Do PWgWait :: tl =>
      if tail_ok tl then Some (mkD w b (match h with [Return] => true | _ => false end)) else None
  | Do (PCreate w) :: Do (PRender b) :: Do PCloseChan :: Do PWgWait :: tl =>
      if tail_ok tl then Some (mkD w b true) else None
  | _ => None
  end.

(* ------------------------------------------------------------------ the semantics of one call *)

Section Call.
  Variable A : Type.
  Variable K : consumer.
  Variable opens : nat.              (* w_opens of the writer function *)
  Variable hret : bool.              (* d_returns of the driver *)
  Variable fail : option nat.        (* the write of the item with this index returns an error *)
  Variable ffail : prim -> bool.     (* the finalisation calls that return an error *)
  Variable cfail : option nat.       (* the creating call (by index) that returns an error *)

  Inductive mpos := MCreate | MRender | MClose | MWait | MRet.

  Inductive cpos :=
  | KRecv                            (* at `for ts := range c` *)
  | KItems (l : list A)              (* at `for _, t := range ts`, l still to come *)
  | KWrite (x : A) (l : list A)      (* at the write / the accumulation of item x *)
  | KCount (l : list A)              (* at count++ *)
  | KDrain                           (* at `for range c {}` *)
  | KFinal (fs : list fstep)         (* after the receive loop *)
  | KCloseFile                       (* returning: deferred f.Close() *)
  | KWgDone                          (* returning: deferred wg.Done() *)
  | KExit.                           (* the goroutine is gone *)

  Record ist := mkI {
    i_m : mpos;                      (* the caller *)
    i_k : option cpos;               (* the writer goroutine; None: not started *)
    i_todo : list (list A);          (* batches the renderer still has to send *)
    i_closed : bool;
    i_wg : nat;
    i_out : list A;                  (* items written / accumulated *)
    i_failed : bool                  (* ghost: a write error has occurred *)
  }.

  Definition iinit (batches : list (list A)) : ist := mkI MCreate None batches false 0 [] false.

  Definition create_fails : bool := match cfail with Some j => j <? opens | None => false end.

  Definition unwind : cpos := if k_closefile K then KCloseFile else KWgDone.

  Definition fails_here (c : ist) : bool :=
    k_fallible K && match fail with Some f => f =? length (i_out c) | None => false end.

  Definition set_k (c : ist) (k : cpos) : ist :=
    mkI (i_m c) (Some k) (i_todo c) (i_closed c) (i_wg c) (i_out c) (i_failed c).
  Definition set_m (c : ist) (m : mpos) : ist :=
    mkI m (i_k c) (i_todo c) (i_closed c) (i_wg c) (i_out c) (i_failed c).

  (* the caller *)
  Definition main_next (c : ist) : list ist :=
    match i_m c with
    | MCreate =>
        if create_fails
        then (if hret then [set_m c MRet]               (* print the error, return *)
              else [set_m c MRender])                   (* print the error, go on with a nil channel *)
        else [mkI MRender (Some KRecv) (i_todo c) (i_closed c) (i_wg c + 1) (i_out c) (i_failed c)]
    | MRender =>                                        (* r.Render(..) returns when everything is sent *)
        match i_todo c, i_k c with
        | [], Some _ => [set_m c MClose]
        | _, _ => []
        end
    | MClose => [mkI MWait (i_k c) (i_todo c) true (i_wg c) (i_out c) (i_failed c)]
    | MWait => if i_wg c =? 0 then [set_m c MRet] else []
    | MRet => []
    end.

  (* rendezvous: the renderer is blocked in a send, the goroutine in a receive *)
  Definition chan_next (c : ist) : list ist :=
    match i_m c, i_todo c, i_k c with
    | MRender, b :: r, Some KRecv => [mkI MRender (Some (KItems b)) r (i_closed c) (i_wg c) (i_out c) (i_failed c)]
    | MRender, b :: r, Some KDrain => [mkI MRender (Some KDrain) r (i_closed c) (i_wg c) (i_out c) (i_failed c)]
    | _, _, _ => []
    end.

  (* the writer goroutine *)
  Definition cons_next (c : ist) : list ist :=
    match i_k c with
    | None => []
    | Some k =>
        match k with
        | KRecv => if i_closed c then [set_k c (KFinal (k_final K))] else []
        | KItems [] => [set_k c KRecv]
        | KItems (x :: l) => [set_k c (KWrite x l)]
        | KWrite x l =>
            if fails_here c
            then [mkI (i_m c) (Some (if k_drain K then KDrain else unwind)) (i_todo c) (i_closed c) (i_wg c) (i_out c) true]
            else [mkI (i_m c) (Some (if k_count K then KCount l else KItems l)) (i_todo c) (i_closed c) (i_wg c)
                      (i_out c ++ [x]) (i_failed c)]
        | KCount l => [set_k c (KItems l)]
        | KDrain => if i_closed c then [set_k c unwind] else []
        | KFinal [] => [set_k c unwind]
        | KFinal (FDo _ :: fs) => [set_k c (KFinal fs)]
        | KFinal (FTry p :: fs) => if ffail p then [set_k c unwind] else [set_k c (KFinal fs)]
        | KCloseFile => [set_k c KWgDone]
        | KWgDone => [mkI (i_m c) (Some KExit) (i_todo c) (i_closed c) (i_wg c - 1) (i_out c) (i_failed c)]
        | KExit => []
        end
    end.

  Definition inext (c : ist) : list ist := chan_next c ++ cons_next c ++ main_next c.
  Definition istep (c c' : ist) : Prop := In c' (inext c).
  Definition istuck (c : ist) : Prop := inext c = [].

  Inductive ireach (c0 : ist) : ist -> Prop :=
  | ireach_refl : ireach c0 c0
  | ireach_step : forall c c', ireach c0 c -> istep c c' -> ireach c0 c'.

  Inductive ipath : ist -> nat -> ist -> Prop :=
  | ipath_nil : forall c, ipath c 0 c
  | ipath_cons : forall c c' c'' n, istep c c' -> ipath c' n c'' -> ipath c (S n) c''.

  (* a deterministic scheduler (first enabled step), to run the semantics on examples *)
  Fixpoint iexec (fuel : nat) (c : ist) : ist :=
    match fuel with
    | 0 => c
    | S k => match inext c with [] => c | c' :: _ => iexec k c' end
    end.

  (* ---------------------------------------------------------------- abstraction to Pipeline.st *)

  Definition P : proto := if k_drain K then Repaired else Pinned.
  Definition pfail : option nat := if k_fallible K then fail else None.
  Definition fin_ok : bool :=
    forallb (fun f => match f with FTry p => negb (ffail p) | FDo _ => true end) (k_final K).

  Definition wg_pending (k : cpos) : bool := match k with KExit => false | _ => true end.

  Definition abs_con (c : ist) : cons A :=
    match i_k c with
    | None => Receiving
    | Some k =>
        if i_failed c
        then (if k_drain K then (if wg_pending k then Draining else Done) else Returned)
        else if wg_pending k
             then match k with
                  | KItems l => Writing l
                  | KWrite x l => Writing (x :: l)
                  | KCount l => Writing l
                  | _ => Receiving
                  end
             else Done
    end.

  Definition abs_hdr (c : ist) : option nat :=
    match i_k c with
    | Some KExit => if i_failed c then None else if fin_ok then Some (length (i_out c)) else None
    | _ => None
    end.

  Definition abs (c : ist) : st A :=
    mkst (i_todo c) (i_closed c) (abs_con c) (i_out c) (abs_hdr c)
         (match i_m c with MRet => true | _ => false end).

  (* stuttering steps are bounded by the size of the program, not of the data *)
  Definition rank_k (k : cpos) : nat :=
    match k with
    | KCount _ => 2 | KItems _ => 1 | KWrite _ _ => 0
    | KRecv => length (k_final K) + 5
    | KDrain => 4
    | KFinal fs => length fs + 4
    | KCloseFile => 2 | KWgDone => 1 | KExit => 0
    end.
  Definition rank_m (m : mpos) : nat :=
    match m with MCreate => 4 | MRender => 3 | MClose => 2 | MWait => 1 | MRet => 0 end.
  Definition rank (c : ist) : nat :=
    rank_m (i_m c) + match i_k c with Some k => rank_k k | None => length (k_final K) + 6 end.
  Definition rank_bound : nat := length (k_final K) + 11.

  (* ---------------------------------------------------------------- invariant *)

  Fixpoint suffix_of {X} (s l : list X) : Prop :=
    s = l \/ match l with [] => False | _ :: r => suffix_of s r end.

  Lemma suffix_length {X} (s l : list X) : suffix_of s l -> length s <= length l.
  Proof.
    induction l as [|y l IH]; cbn; intros H.
    - destruct H as [->|[]]. cbn. lia.
    - destruct H as [->|H]; [cbn; lia | specialize (IH H); lia].
  Qed.

  Lemma suffix_tail {X} (x : X) s l : suffix_of (x :: s) l -> suffix_of s l.
  Proof.
    induction l as [|y l IH]; cbn; intros H.
    - destruct H as [H|[]]. discriminate.
    - destruct H as [H|H].
      + inversion H; subst. right. destruct l; cbn; now left.
      + right. now apply IH.
  Qed.

  Lemma suffix_refl {X} (l : list X) : suffix_of l l.
  Proof. destruct l; cbn; now left. Qed.

  (* the output cannot be created and the driver returns on that error: nothing is started *)
  Lemma create_failure batches c :
    create_fails = true -> hret = true -> ireach (iinit batches) c ->
    (c = iinit batches \/ c = set_m (iinit batches) MRet) /\
    (istuck c -> i_m c = MRet /\ i_k c = None /\ i_wg c = 0 /\ i_out c = []).
  Proof.
    intros Hc Hr Hre.
    assert (H : c = iinit batches \/ c = set_m (iinit batches) MRet).
    { induction Hre as [|c c' _ IH Hs]; [now left|]. right.
      unfold istep, inext, chan_next, cons_next, main_next in Hs.
      destruct IH as [->| ->]; cbn in Hs; rewrite ?Hc, ?Hr in Hs; cbn in Hs; [|contradiction].
      destruct Hs as [<-|[]]. reflexivity. }
    split; [exact H|]. intros Hst. destruct H as [->| ->].
    - unfold istuck, inext, chan_next, cons_next, main_next in Hst. cbn in Hst. rewrite Hc, Hr in Hst. discriminate.
    - cbn. auto.
  Qed.

  Hypothesis Hcf : create_fails = false.     (* the output can be created; the other case is `create_failure` below *)

  Record IInv (c : ist) : Prop := mkIInv {
    v_spawn : i_k c = None <-> i_m c = MCreate;
    v_fresh : i_k c = None -> i_wg c = 0 /\ i_out c = [] /\ i_failed c = false;
    v_open : i_closed c = false <-> (i_m c = MCreate \/ i_m c = MRender \/ i_m c = MClose);
    v_sent : i_m c = MClose \/ i_closed c = true -> i_todo c = [];
    v_wg : forall k, i_k c = Some k -> i_wg c = if wg_pending k then 1 else 0;
    v_late : forall k, i_k c = Some k ->
             match k with
             | KFinal fs => i_closed c = true /\ i_failed c = false /\ suffix_of fs (k_final K)
             | KCloseFile | KWgDone | KExit =>
                 (i_failed c = false -> i_closed c = true) /\ (k_drain K = true -> i_closed c = true)
             | KDrain => i_failed c = true /\ k_drain K = true
             | _ => i_failed c = false
             end
  }.

  Lemma IInv_init batches : IInv (iinit batches).
  Proof.
    constructor; cbn; try discriminate; auto.
    - split; auto.
    - split; auto.
    - intros [H|H]; discriminate.
  Qed.

  Ltac inv_in H := repeat (destruct H as [H|H]; [subst|]); try contradiction.

  Ltac fin :=
    cbn in *; intros;
    repeat match goal with
           | H : Some _ = Some _ |- _ => inversion H; subst; clear H
           | H : Some _ = None |- _ => discriminate H
           | H : None = Some _ |- _ => discriminate H
           end;
    try solve [eauto];
    try solve [match goal with H : forall k, Some _ = Some k -> _ |- _ => exact (H _ eq_refl) end];
    try solve [match goal with H : forall k, _ = Some k -> _, E : _ = Some _ |- _ => exact (H _ E) end];
    try solve [intuition (subst; cbn in *; try congruence; try discriminate)].

  Lemma IInv_step c c' : IInv c -> istep c c' -> IInv c'.
  Proof.
    intros [Hsp Hfr Hop Hse Hwg Hla] Hs. unfold istep, inext in Hs. rewrite !in_app_iff in Hs.
    destruct c as [m k td cl wg o fl]. cbn in *.
    destruct Hs as [Hs|[Hs|Hs]].
    - (* rendezvous *)
      unfold chan_next in Hs. cbn in Hs. destruct m; try contradiction. destruct td as [|b r]; try contradiction.
      destruct k as [[]|]; try contradiction; inv_in Hs;
        specialize (Hwg _ eq_refl); specialize (Hla _ eq_refl); cbn in *; constructor; fin.
    - (* the goroutine *)
      unfold cons_next in Hs. cbn in Hs. destruct k as [k|]; [|contradiction].
      pose proof (Hwg _ eq_refl) as Hwgk. pose proof (Hla _ eq_refl) as Hlak. cbn in Hwgk, Hlak.
      assert (Hm : m <> MCreate) by (intros E; apply Hsp in E; discriminate).
      assert (G : forall k' o' fl', (wg_pending k' = wg_pending k) ->
                   match k' with
                   | KFinal fs => cl = true /\ fl' = false /\ suffix_of fs (k_final K)
                   | KCloseFile | KWgDone | KExit => (fl' = false -> cl = true) /\ (k_drain K = true -> cl = true)
                   | KDrain => fl' = true /\ k_drain K = true
                   | _ => fl' = false
                   end ->
                   IInv (mkI m (Some k') td cl wg o' fl')).
      { intros k' o' fl' Ep Hl. constructor; fin. now rewrite Ep. }
      destruct k as [|[|x l]|x l|l| |[|[p|p] fs]| | |]; cbn in Hs.
      + destruct cl; [|contradiction]. inv_in Hs. apply G; [reflexivity|]. repeat split; auto. apply suffix_refl.
      + inv_in Hs. apply G; auto.
      + inv_in Hs. apply G; auto.
      + destruct (fails_here _); inv_in Hs.
        * apply G; [unfold unwind; now destruct (k_drain K), (k_closefile K)|]. unfold unwind.
          destruct (k_drain K) eqn:Ed; [auto|]. destruct (k_closefile K); split; intros; congruence.
        * apply G; [now destruct (k_count K)|]. now destruct (k_count K).
      + inv_in Hs. apply G; auto.
      + destruct cl; [|contradiction]. inv_in Hs. apply G; [unfold unwind; now destruct (k_closefile K)|].
        unfold unwind. destruct (k_closefile K); split; auto.
      + inv_in Hs. apply G; [unfold unwind; now destruct (k_closefile K)|].
        unfold unwind. destruct (k_closefile K); split; tauto.
      + inv_in Hs. apply G; [reflexivity|]. destruct Hlak as (H1 & H2 & H3). repeat split; auto. eapply suffix_tail; eauto.
      + destruct Hlak as (H1 & H2 & H3). destruct (ffail p); inv_in Hs.
        * apply G; [unfold unwind; now destruct (k_closefile K)|]. unfold unwind. destruct (k_closefile K); split; auto.
        * apply G; [reflexivity|]. repeat split; auto. eapply suffix_tail; eauto.
      + inv_in Hs. apply G; auto.
      + inv_in Hs. constructor; fin.
      + contradiction.
    - (* the caller *)
      unfold main_next in Hs. cbn in Hs. destruct m.
      + rewrite Hcf in Hs. inv_in Hs. destruct (Hfr (proj2 Hsp eq_refl)) as (-> & -> & ->). constructor; fin.
      + destruct td; [|contradiction]. destruct k as [k|]; [|contradiction]. inv_in Hs. constructor; fin.
      + inv_in Hs. constructor; fin.
        all: try match goal with H : _ = Some ?k0 |- _ => specialize (Hla k0 H); destruct k0; tauto end.
      + destruct (wg =? 0); [|contradiction]. inv_in Hs. constructor; fin.
      + contradiction.
  Qed.

  (* ---------------------------------------------------------------- every step is a step of Pipeline.v, or invisible *)

  Ltac pstep :=
    left; unfold Pipeline.step, Pipeline.next, next_chan, next_cons, next_close, next_main, abs, abs_con, abs_hdr,
                 fails_now, on_error, set_con, final_hdr; cbn;
    rewrite ?in_app_iff; cbn; auto 10.

  Lemma sim_step c c' : IInv c -> istep c c' ->
    Pipeline.step P pfail fin_ok (abs c) (abs c') \/ (abs c' = abs c /\ rank c' < rank c).
  Proof.
    intros [Hsp Hfr Hop Hse Hwg Hla] Hs. unfold istep, inext in Hs. rewrite !in_app_iff in Hs.
    destruct c as [m k td cl wg o fl]. cbn in *.
    destruct Hs as [Hs|[Hs|Hs]].
    - (* rendezvous *)
      unfold chan_next in Hs. cbn in Hs. destruct m; try contradiction. destruct td as [|b r]; try contradiction.
      destruct k as [[]|]; try contradiction; inv_in Hs; specialize (Hla _ eq_refl); cbn in Hla.
      + subst fl. pstep.
      + destruct Hla as [-> Hd]. unfold P. rewrite Hd. pstep. rewrite Hd. cbn. auto.
    - (* the goroutine *)
      unfold cons_next in Hs. cbn in Hs. destruct k as [k|]; [|contradiction].
      pose proof (Hla _ eq_refl) as Hlak. cbn in Hlak.
      destruct k as [|[|x l]|x l|l| |[|[p|p] fs]| | |]; cbn in Hs.
      + (* channel closed: leave the receive loop *)
        destruct cl; [|contradiction]. inv_in Hs. right. unfold abs, abs_con, abs_hdr, rank. cbn. split; [reflexivity | lia].
      + (* end of a batch *)
        inv_in Hs. pstep.
      + inv_in Hs. right. unfold abs, abs_con, abs_hdr, rank. cbn. split; [reflexivity | lia].
      + (* the write of an item *)
        subst fl. unfold fails_here in Hs. cbn in Hs.
        assert (Ef : fails_now pfail (abs (mkI m (Some (KWrite x l)) td cl wg o false)) =
                     k_fallible K && match fail with Some f => f =? length o | None => false end).
        { unfold fails_now, pfail. cbn. destruct (k_fallible K); cbn; [reflexivity | reflexivity]. }
        destruct (k_fallible K && match fail with Some f => f =? length o | None => false end) eqn:E; inv_in Hs.
        * left. unfold Pipeline.step, Pipeline.next. rewrite !in_app_iff. right. left.
          unfold next_cons. cbn [con abs abs_con i_k i_failed wg_pending]. rewrite Ef.
          unfold set_con, on_error, abs, abs_con, abs_hdr, P, unwind. cbn.
          destruct (k_drain K); [now left|]. destruct (k_closefile K); now left.
        * left. unfold Pipeline.step, Pipeline.next. rewrite !in_app_iff. right. left.
          unfold next_cons. cbn [con abs abs_con i_k i_failed wg_pending]. rewrite Ef.
          unfold abs, abs_con, abs_hdr. cbn. destruct (k_count K); now left.
      + inv_in Hs. right. unfold abs, abs_con, abs_hdr, rank. cbn. split; [reflexivity | lia].
      + (* drained *)
        destruct Hlak as [-> Hd]. destruct cl; [|contradiction]. inv_in Hs. right.
        unfold abs, abs_con, abs_hdr, rank, unwind. cbn. rewrite Hd. destruct (k_closefile K); cbn; split; try reflexivity; lia.
      + destruct Hlak as (-> & -> & _). inv_in Hs. right.
        unfold abs, abs_con, abs_hdr, rank, unwind. cbn. destruct (k_closefile K); cbn; split; try reflexivity; lia.
      + destruct Hlak as (-> & -> & _). inv_in Hs. right.
        unfold abs, abs_con, abs_hdr, rank. cbn. split; [reflexivity | lia].
      + destruct Hlak as (-> & -> & _). destruct (ffail p); inv_in Hs; right.
        * unfold abs, abs_con, abs_hdr, rank, unwind. cbn. destruct (k_closefile K); cbn; split; try reflexivity; lia.
        * unfold abs, abs_con, abs_hdr, rank. cbn. split; [reflexivity | lia].
      + inv_in Hs. right. unfold abs, abs_con, abs_hdr, rank. cbn.
        destruct fl; [destruct (k_drain K)|]; cbn; split; try reflexivity; lia.
      + (* the deferred wg.Done() *)
        inv_in Hs. destruct Hlak as [H1 H2]. destruct fl.
        * unfold P. destruct (k_drain K) eqn:Ed.
          -- rewrite (H2 eq_refl). pstep. rewrite Ed. cbn. auto.
          -- right. unfold abs, abs_con, abs_hdr, rank. cbn. rewrite Ed. split; [reflexivity | lia].
        * rewrite (H1 eq_refl). pstep.
      + contradiction.
    - (* the caller *)
      unfold main_next in Hs. cbn in Hs. destruct m.
      + rewrite Hcf in Hs. inv_in Hs. destruct (Hfr (proj2 Hsp eq_refl)) as (-> & -> & ->).
        assert (k = None) by tauto. subst k. right. unfold abs, abs_con, abs_hdr, rank. cbn. split; [reflexivity | lia].
      + destruct td; [|contradiction]. destruct k as [k|]; [|contradiction]. inv_in Hs. right.
        unfold abs, abs_con, abs_hdr, rank. cbn. split; [reflexivity | lia].
      + (* close(output) *)
        inv_in Hs. assert (cl = false) by tauto. assert (td = []) by tauto. subst. pstep.
      + (* wg.Wait() returns *)
        destruct (wg =? 0) eqn:E; [|contradiction]. inv_in Hs. apply Nat.eqb_eq in E. subst wg.
        assert (cl = true) by (destruct cl; [reflexivity|]; exfalso; assert (H : MWait = MCreate \/ MWait = MRender \/ MWait = MClose) by tauto;
                               destruct H as [H|[H|H]]; discriminate).
        subst cl. destruct k as [k|]; [|exfalso; assert (H : MWait = MCreate) by tauto; discriminate].
        specialize (Hwg _ eq_refl). destruct k; cbn in Hwg; try discriminate.
        pstep. destruct fl; [destruct (k_drain K)|]; cbn; auto.
      + contradiction.
  Qed.

  (* ---------------------------------------------------------------- executions are finite *)

  Lemma rank_lt c : IInv c -> rank c < rank_bound.
  Proof.
    intros [_ _ _ _ _ Hla]. unfold rank, rank_bound. destruct c as [m k td cl wg o fl]. cbn in *.
    assert (Hm : rank_m m <= 4) by (destruct m; cbn; lia).
    destruct k as [k|]; [|lia]. specialize (Hla _ eq_refl).
    destruct k; cbn; try lia. destruct Hla as (_ & _ & Hs). apply suffix_length in Hs. lia.
  Qed.

  Definition imeasure (c : ist) : nat := Pipeline.measure (abs c) * rank_bound + rank c.

  Lemma istep_decreases c c' : IInv c -> istep c c' -> imeasure c' < imeasure c.
  Proof.
    intros Hi Hs. assert (Hi' : IInv c') by (eapply IInv_step; eassumption). pose proof (rank_lt Hi') as Hr'. unfold imeasure.
    destruct (@sim_step c c' Hi Hs) as [Hp|[Ea Hr]].
    - apply step_decreases in Hp.
      assert (H : S (measure (abs c')) * rank_bound <= measure (abs c) * rank_bound) by (apply Nat.mul_le_mono_r; lia).
      cbn [Nat.mul] in H. lia.
    - rewrite Ea. lia.
  Qed.

  Lemma ipath_bounded c n c' : IInv c -> ipath c n c' -> n + imeasure c' <= imeasure c.
  Proof.
    intros Hi Hp. induction Hp as [|c c1 c2 n Hs _ IH]; [lia|].
    pose proof (@istep_decreases c c1 Hi Hs). assert (Hi' : IInv c1) by (eapply IInv_step; eassumption). specialize (IH Hi'). lia.
  Qed.

  (* ---------------------------------------------------------------- where an execution can stop *)

  Lemma istuck_returned c : k_drain K = true -> IInv c -> istuck c ->
    i_m c = MRet /\ i_k c = Some KExit /\ i_wg c = 0 /\ i_todo c = [] /\ i_closed c = true.
  Proof.
    intros Hd [Hsp Hfr Hop Hse Hwg Hla] Hst. unfold istuck, inext in Hst.
    apply app_eq_nil in Hst. destruct Hst as [Hch Hst]. apply app_eq_nil in Hst. destruct Hst as [Hco Hma].
    destruct c as [m k td cl wg o fl]. unfold chan_next, cons_next, main_next in *. cbn in *.
    assert (Hk : forall k0, k = Some k0 -> cl = true -> k0 = KExit).
    { intros k0 -> ->. destruct k0 as [|[|x l]|x l|l| |[|[p|p] fs]| | |]; cbn in Hco; try discriminate; try reflexivity.
      - destruct (fails_here _); discriminate.
      - destruct (ffail p); discriminate. }
    destruct m.
    - rewrite Hcf in Hma. discriminate.
    - exfalso. assert (Hcl : cl = false) by tauto.
      destruct k as [k|]; [|assert (H : MRender = MCreate) by tauto; discriminate].
      specialize (Hla _ eq_refl). destruct td as [|b r]; [discriminate|]. subst cl.
      destruct k as [|[|x l]|x l|l| |fs| | |]; cbn in *; try discriminate.
      + destruct (fails_here _); discriminate.
      + destruct Hla as [Hc _]. discriminate.
      + destruct Hla as [_ Hc]. specialize (Hc Hd). discriminate.
    - discriminate.
    - exfalso. assert (Hcl : cl = true).
      { destruct cl; [reflexivity|]. assert (H : MWait = MCreate \/ MWait = MRender \/ MWait = MClose) by tauto.
        destruct H as [H|[H|H]]; discriminate. }
      destruct k as [k|]; [|assert (H : MWait = MCreate) by tauto; discriminate].
      rewrite (Hk _ eq_refl Hcl) in *. rewrite (Hwg _ eq_refl) in Hma. cbn in Hma. discriminate.
    - assert (Hcl : cl = true).
      { destruct cl; [reflexivity|]. assert (H : MRet = MCreate \/ MRet = MRender \/ MRet = MClose) by tauto.
        destruct H as [H|[H|H]]; discriminate. }
      destruct k as [k|]; [|assert (H : MRet = MCreate) by tauto; discriminate].
      rewrite (Hk _ eq_refl Hcl) in *. rewrite (Hwg _ eq_refl). cbn. repeat split; auto.
  Qed.

  (* ---------------------------------------------------------------- every execution is an execution of Pipeline.v *)

  Lemma abs_init batches : abs (iinit batches) = Pipeline.init batches.
  Proof. reflexivity. Qed.

  Lemma ireach_sim batches c : ireach (iinit batches) c ->
    IInv c /\ Pipeline.reachable P pfail fin_ok (Pipeline.init batches) (abs c).
  Proof.
    induction 1 as [|c c' _ [Hi Hr] Hs].
    - split; [apply IInv_init | rewrite abs_init; apply reach_refl].
    - split; [eapply IInv_step; eassumption|].
      destruct (@sim_step c c' Hi Hs) as [Hp|[Ea _]]; [eapply reach_step; eassumption | now rewrite Ea].
  Qed.
End Call.

Arguments KRecv {A}.
Arguments KDrain {A}.
Arguments KCloseFile {A}.
Arguments KWgDone {A}.
Arguments KExit {A}.

(* ------------------------------------------------------------------ whole calls *)

(* a writer that can fail needs a driver that returns on the error; the writer goroutine must drain *)
Definition call_ok (d : driver) (w : writer) : bool :=
  ((w_opens w =? 0) || d_returns d) && k_drain (w_cons w).

Section Returns.
  Variable A : Type.
  Variable d : driver.
  Variable w : writer.

  Let K := w_cons w.

  (* what a maximal execution of the call has produced *)
  Definition outcome (batches : list (list A)) (fail : option nat) (ffail : prim -> bool) (cfail : option nat)
             (c : ist A) : Prop :=
    i_m c = MRet /\ i_wg c = 0 /\
    ((create_fails (w_opens w) cfail = true /\ i_k c = None /\ i_out c = []) \/
     (create_fails (w_opens w) cfail = false /\ i_k c = Some KExit /\ i_todo c = [] /\
      let s := abs K ffail c in
      (complete (fin_ok K ffail) batches s /\ (forall f, pfail K fail = Some f -> length (concat batches) <= f))
      \/ truncated (pfail K fail) batches s)).

  Definition call_returns : Prop :=
    forall (batches : list (list A)) (fail : option nat) (ffail : prim -> bool) (cfail : option nat),
      let reach := ireach K (w_opens w) (d_returns d) fail ffail cfail (iinit batches) in
      (exists bound, forall c n c', reach c -> ipath K (w_opens w) (d_returns d) fail ffail cfail c n c' -> n <= bound) /\
      (forall c, reach c -> istuck K (w_opens w) (d_returns d) fail ffail cfail c -> outcome batches fail ffail cfail c).

  Lemma ireach_measure (batches : list (list A)) fail ffail cfail (c : ist A) :
    create_fails (w_opens w) cfail = false ->
    ireach K (w_opens w) (d_returns d) fail ffail cfail (iinit batches) c ->
    imeasure K ffail c <= imeasure K ffail (iinit batches).
  Proof.
    intros Hcf. induction 1 as [|c c' Hr IH Hs]; [lia|].
    destruct (@ireach_sim A K (w_opens w) (d_returns d) fail ffail cfail Hcf batches c Hr) as [Hi _].
    pose proof (@istep_decreases A K (w_opens w) (d_returns d) fail ffail cfail Hcf c c' Hi Hs). lia.
  Qed.

  Theorem call_ok_returns : call_ok d w = true -> call_returns.
  Proof.
    unfold call_ok. intros Hok. apply andb_prop in Hok. destruct Hok as [Hh Hd].
    intros batches fail ffail cfail reach.
    destruct (create_fails (w_opens w) cfail) eqn:Hcf.
    - (* the output cannot be created *)
      assert (Hr : d_returns d = true).
      { apply orb_prop in Hh. destruct Hh as [Hh|Hh]; [|exact Hh]. apply Nat.eqb_eq in Hh.
        unfold create_fails in Hcf. rewrite Hh in Hcf. destruct cfail; cbn in Hcf; discriminate. }
      assert (CF : forall c, reach c -> (c = iinit batches \/ c = set_m (iinit batches) MRet) /\
                    (istuck K (w_opens w) (d_returns d) fail ffail cfail c ->
                     i_m c = MRet /\ i_k c = None /\ i_wg c = 0 /\ i_out c = [])).
      { intros c Hre. exact (@create_failure A K (w_opens w) (d_returns d) fail ffail cfail batches c Hcf Hr Hre). }
      split.
      + exists 1. intros c n c' Hre Hp.
        inversion Hp as [|? c1 ? n1 Hs Hp1]; subst; [lia|].
        assert (Hre1 : reach c1) by (eapply ireach_step; [exact Hre | exact Hs]).
        destruct (CF c1 Hre1) as [[->| ->] _].
        * exfalso. destruct (CF c Hre) as [[->| ->] _];
            unfold istep, inext, chan_next, cons_next, main_next in Hs; cbn in Hs; rewrite ?Hcf, ?Hr in Hs; cbn in Hs.
          -- destruct Hs as [Hs|[]]. discriminate.
          -- destruct Hs.
        * inversion Hp1 as [|? c2 ? n2 Hs2 Hp2]; subst; [lia|]. destruct Hs2.
      + intros c Hre Hst. destruct (CF c Hre) as [_ H]. destruct (H Hst) as (H1 & H2 & H3 & H4).
        unfold outcome. repeat split; auto.
    - (* the normal case *)
      split.
      + exists (imeasure K ffail (iinit batches)). intros c n c' Hre Hp.
        destruct (@ireach_sim A K (w_opens w) (d_returns d) fail ffail cfail Hcf batches c Hre) as [Hi _].
        pose proof (@ipath_bounded A K (w_opens w) (d_returns d) fail ffail cfail Hcf c n c' Hi Hp).
        pose proof (@ireach_measure batches fail ffail cfail c Hcf Hre). lia.
      + intros c Hre Hst.
        destruct (@ireach_sim A K (w_opens w) (d_returns d) fail ffail cfail Hcf batches c Hre) as [Hi Hpr].
        destruct (@istuck_returned A K (w_opens w) (d_returns d) fail ffail cfail Hcf c Hd Hi Hst) as (Hm & Hk & Hwg & Htd & Hcl).
        unfold outcome. split; [exact Hm|]. split; [exact Hwg|]. right. split; [exact Hcf|]. split; [exact Hk|]. split; [exact Htd|].
        apply Inv_reachable in Hpr.
        apply (done_outcome Hpr).
        * unfold abs. cbn. now rewrite Hm.
        * unfold abs, abs_con. cbn. rewrite Hk. fold K in Hd. rewrite Hd. destruct (i_failed c); reflexivity.
  Qed.
End Returns.

(* the statement about two programs of Generated/SysProgs.v: they parse as a driver and as the
   writer function it names, the pair is in order, and therefore the call always returns *)
Definition source_call_returns (A : Type) (dp wp : list stmt) (writer_name buffer_name : String.string) : Prop :=
  exists d w,
    parse_driver (strip dp) = Some d /\ parse_writer (strip wp) = Some w /\
    d_writer d = writer_name /\ d_buffer d = buffer_name /\ call_ok d w = true /\
    call_returns A d w.

Lemma source_call_returns_intro (A : Type) dp wp wn bn d w :
  parse_driver (strip dp) = Some d -> parse_writer (strip wp) = Some w ->
  d_writer d = wn -> d_buffer d = bn -> call_ok d w = true -> source_call_returns A dp wp wn bn.
Proof.
  intros H1 H2 H3 H4 H5. exists d, w. split; [exact H1|]. split; [exact H2|]. split; [exact H3|]. split; [exact H4|].
  split; [exact H5|]. now apply call_ok_returns.
Qed.

(* nothing fails: what the sink holds when the call has returned is what the renderer sent, in order *)
Lemma call_delivers (A : Type) (d : driver) (w : writer) :
  call_returns A d w ->
  forall (batches : list (list A)) (c : ist A),
    ireach (w_cons w) (w_opens w) (d_returns d) None (fun _ => false) None (iinit batches) c ->
    istuck (w_cons w) (w_opens w) (d_returns d) None (fun _ => false) None c ->
    i_m c = MRet /\ i_k c = Some KExit /\ i_wg c = 0 /\ i_out c = concat batches.
Proof.
  intros H batches c Hr Hs. destruct (H batches None (fun _ => false) None) as [_ Ho].
  destruct (Ho c Hr Hs) as (Hm & Hwg & [(Hcf & _)|(_ & Hk & _ & Hout)]); [discriminate Hcf|].
  split; [exact Hm|]. split; [exact Hk|]. split; [exact Hwg|].
  destruct Hout as [[[Hout _] _]|(f & Hf & _)]; [exact Hout|].
  unfold pfail in Hf. destruct (k_fallible (w_cons w)); discriminate Hf.
Qed.
