(* StateInvC03.v - the inventory-of-mutable-state obligation of C03: the package-level variables and
   struct fields in the scope of C03 (coq/Sys/StateInvSpec.v), regenerated from the current source by
   harness/stategen on every run (coq/Generated/StateInv.v), contain no state beyond the expected,
   reviewed inventory.  When this fails coqc prints the differences (the value of state_diff_C03). *)
From Coq Require Import List String.
From Sdfx Require Import Sys.StateInvDefs Generated.StateInv Sys.StateInvSpec.
Import ListNotations.

Lemma C03_state_diff_nil : state_diff_C03 = [].
Proof. vm_compute. reflexivity. Qed.

Lemma C03_state_inventory : state_ok_C03 = true.
Proof. exact (is_nil_true _ _ C03_state_diff_nil). Qed.
