(* PoolProg.v - the goroutine pool of render/march3.go (C12, used by C09 as well): how many
   goroutines the extracted evalRoutines starts (`go_count`), how the extracted marchingCubes
   starts them (through a sync.Once or by a plain call) and the theorem that this is
   Pipeline.render_pool Repaired resp. Pinned (`pool_program_once`, `pool_program_call`);
   the routines are started before the first layer is evaluated (`starts_before_eval`). *)
From Coq Require Import List Arith Lia Bool.
From Sdfx Require Import Sys.SysLang Sys.Pipeline.
Import ListNotations.
Local Open Scope nat_scope.

(* the program of one routine, up to Data statements *)
Definition worker_prog : list stmt := [RangeChan [RangeItems [Do PEvalStore]; Do PReqDone]].

(* goroutines started by one execution of a statement list *)
Fixpoint go_count1 (ncpu : nat) (s : stmt) : nat :=
  match s with
  | Go _ => 1
  | ForCPU b => ncpu * fold_right (fun s n => go_count1 ncpu s + n) 0 b
  | _ => 0
  end.
Definition go_count (ncpu : nat) (p : list stmt) : nat := fold_right (fun s n => go_count1 ncpu s + n) 0 p.

(* evalRoutines, up to Data statements *)
Definition routines_prog : list stmt := [ForCPU [Go worker_prog]].

Lemma routines_count ncpu : go_count ncpu routines_prog = ncpu.
Proof. cbn. lia. Qed.

(* a statement (a loop body) that starts nothing *)
Fixpoint starts_nothing (s : stmt) : bool :=
  match s with
  | Do PLayerEval | Do POutWrite => true
  | ForSteps b => forallb starts_nothing b
  | _ => false
  end.

(* How a renderer function treats the pool: the routines are started outside the loops (a
   start inside a loop has no meaning here). *)
Fixpoint pool_stmts (f : String.string) (spawn : nat) (p : list stmt) (pl : pool) : option pool :=
  match p with
  | [] => Some pl
  | OnceDo g :: r =>
      if String.eqb f g
      then pool_stmts f spawn r (if started pl then pl else mkpool (workers pl + spawn) true)
      else None
  | Do (PCall g) :: r =>
      if String.eqb f g then pool_stmts f spawn r (mkpool (workers pl + spawn) true) else None
  | s :: r => if starts_nothing s then pool_stmts f spawn r pl else None
  end.

(* the pool exists when the first layer is evaluated *)
Fixpoint starts_before_eval (p : list stmt) : bool :=
  match p with
  | OnceDo _ :: _ | Do (PCall _) :: _ => true
  | Do PLayerEval :: _ | ForSteps _ :: _ => false
  | _ :: r => starts_before_eval r
  | [] => false
  end.

(* marchingCubes, up to Data statements, with either way of starting the routines *)
Definition marching_prog (start : stmt) : list stmt :=
  [start; Do PLayerEval; ForSteps [Do PLayerEval; ForSteps [ForSteps [Do POutWrite]]]].

Lemma pool_program_once f ncpu pl :
  pool_stmts f ncpu (marching_prog (OnceDo f)) pl = Some (render_pool Repaired ncpu pl true).
Proof.
  unfold marching_prog, render_pool. cbn. rewrite String.eqb_refl. reflexivity.
Qed.

Lemma pool_program_call f ncpu pl :
  pool_stmts f ncpu (marching_prog (Do (PCall f))) pl = Some (render_pool Pinned ncpu pl true).
Proof. unfold marching_prog, render_pool. cbn. rewrite String.eqb_refl. reflexivity. Qed.
