(* StateInvSpec.v - the EXPECTED inventory of mutable state, per property.

   Written from the tree as it was when the inventory was introduced (harness/cmd/stategen
   -spec, tables of harness/stategen/spec.go), then reviewed by hand.  Every piece of state
   that legitimately exists carries a comment naming the model component that accounts for
   it; that is the reviewable content of this file.  The generated side is
   coq/Generated/StateInv.v (harness/stategen, regenerated from the current source by the gen
   step of every check); the comparison is Sys/StateInvDefs.v (inclusion of the generated
   state in the expected state, keyed by package + name); the per-property obligations
   Cxx_state_inventory are in Sys/StateInvCxx.v and required from Props/Cxx.v.

   Scope of a property = the struct types declared in the files its model depends on
   (anchors of properties.jsonl, spec.go Scopes), the struct types reachable from them through
   field types, and ALL package-level variables of the packages those files and types belong
   to: a new written package-level variable in such a package breaks the property whatever
   file it is put in (and one in a new package of the module breaks every property).

   After a reviewed, legitimate change of the state of the library: regenerate with
     cd harness && go run ./cmd/stategen -spec /repo > ../coq/Sys/StateInvSpec.v
   (after adding the account of the new state to spec.go) and review the diff. *)
From Coq Require Import List String Bool.
From Sdfx Require Import Sys.StateInvDefs Generated.StateInv.
Import ListNotations.
Local Open Scope string_scope.

(* ---- scope: the packages whose package-level variables are in scope of each property *)
Definition prop_pkgs : list (string * list string) := [
  ("C01", ["obj"; "sdf"; "vec/p2"; "vec/v2"; "vec/v2i"; "vec/v3"; "vec/v3i"]);
  ("C02", ["sdf"; "vec/v2"; "vec/v2i"; "vec/v3"; "vec/v3i"]);
  ("C03", ["sdf"; "vec/v2"; "vec/v2i"; "vec/v3"; "vec/v3i"]);
  ("C04", ["sdf"; "vec/v2"; "vec/v2i"]);
  ("C05", ["render"; "sdf"; "vec/v3"; "vec/v3i"]);
  ("C06", ["render"; "sdf"; "vec/v3"; "vec/v3i"]);
  ("C07", ["render"; "sdf"; "vec/v2"; "vec/v2i"; "vec/v3"; "vec/v3i"]);
  ("C08", ["render"; "sdf"; "vec/v2"; "vec/v2i"]);
  ("C09", ["render"; "sdf"; "vec/v2"; "vec/v2i"; "vec/v3"; "vec/v3i"]);
  ("C10", ["obj"; "render"; "sdf"; "vec/p2"; "vec/v2"; "vec/v2i"; "vec/v3"; "vec/v3i"]);
  ("C11", ["render"; "sdf"; "vec/v2"; "vec/v3"]);
  ("C12", ["render"; "sdf"; "vec/v2"; "vec/v3"; "vec/v3i"]);
  ("C13", ["render"; "sdf"; "vec/v3"]);
  ("C14", ["obj"; "render"; "sdf"; "vec/v3"]);
  ("C15", ["render"; "sdf"; "vec/v2"; "vec/v3"]);
  ("C16", ["sdf"; "vec/v2"; "vec/v2i"; "vec/v3"]);
  ("C17", ["sdf"; "vec/v2"]);
  ("C18", ["obj"; "sdf"; "vec/v2"; "vec/v3"]);
  ("C19", ["render/dc"; "sdf"; "vec/v2i"; "vec/v3"; "vec/v3i"]);
  ("C20", ["render"; "sdf"])
].

(* ---- package-level variables: (properties whose model accounts for / depends on it, variable) *)
Definition exp_vars : list (list string * gvar) := [
  (* pipe database: built once by initPipeLookup, never written afterwards (read-only lookup table) *)
  (["C01"; "C10"],
   GVar "obj" "pipeDB" "obj.pipeDatabase" true false []);
  (* servo database: built once by initServoLookup, never written afterwards (read-only lookup table) *)
  (["C01"; "C10"],
   GVar "obj" "servoDB" "obj.servoDatabase" true false []);
  (* starts the evaluation pool once per process: Sys/PoolProg.v (render_pool: OnceDo evalRoutines), C12 pool theorems; C09/C10 effect summaries list the Once *)
  (["C05"; "C06"; "C09"; "C10"; "C12"],
   GVar "render" "evalOnce" "sync.Once" false true ["render.(*MarchingCubesUniform).Render"]);
  (* process-global request channel of the evaluation pool: Sys/Sched.v + Sys/SchedProg.v (batch plan, workers write disjoint out slices), Sys/PoolProg.v (workers park on it, never exit: C12 known state); no value is carried from one render to the next (a request is consumed exactly once) *)
  (["C05"; "C06"; "C09"; "C10"; "C12"],
   GVar "render" "evalProcessCh" "chan render.evalReq" true true ["render.(*MarchingCubesUniform).Render"; "render.(*layerYZ).Evaluate"]);
  (["C05"; "C06"; "C09"; "C10"; "C12"],
   GVar "render" "mcEdgeTable" "[256]int" true false []);
  (["C05"; "C06"; "C09"; "C10"; "C12"],
   GVar "render" "mcPairTable" "[12][2]int" true false []);
  (["C05"; "C06"; "C09"; "C10"; "C12"],
   GVar "render" "mcTriangleTable" "[256][]int" true false []);
  (["C08"; "C09"],
   GVar "render" "msEdgeTable" "[16]int" true false []);
  (["C08"; "C09"],
   GVar "render" "msLineTable" "[16][]int" true false []);
  (["C08"; "C09"],
   GVar "render" "msPairTable" "[4][2]int" true false []);
  (["C19"],
   GVar "render/dc" "dcAxes" "[]vec/v3.Vec" true false []);
  (["C19"],
   GVar "render/dc" "dcCellProcEdgeMask" "[6][5]int" true false []);
  (["C19"],
   GVar "render/dc" "dcCellProcFaceMask" "[12][3]int" true false []);
  (["C19"],
   GVar "render/dc" "dcChildMinOffsets" "[8]vec/v3i.Vec" true false []);
  (["C19"],
   GVar "render/dc" "dcCorners" "[]vec/v3.Vec" true false []);
  (["C19"],
   GVar "render/dc" "dcEdgeProcEdgeMask" "[3][2][5]int" true false []);
  (["C19"],
   GVar "render/dc" "dcEdgemask" "[3]int" true false []);
  (["C19"],
   GVar "render/dc" "dcEdges" "[]vec/v2i.Vec" true false []);
  (["C19"],
   GVar "render/dc" "dcEdgevmap" "[12][2]int" true false []);
  (["C19"],
   GVar "render/dc" "dcFaceMap" "[6][4]int" true false []);
  (["C19"],
   GVar "render/dc" "dcFaceProcEdgeMask" "[3][4][6]int" true false []);
  (["C19"],
   GVar "render/dc" "dcFaceProcFaceMask" "[3][4][3]int" true false []);
  (["C19"],
   GVar "render/dc" "dcFarEdges" "[]vec/v2i.Vec" true false []);
  (["C19"],
   GVar "render/dc" "dcProcessEdgeMask" "[3][4]int" true false []);
  (["C19"],
   GVar "render/dc" "dcVertMap" "[8][3]int" true false []);
  (* library-private seeded random source: C17 re-seeds it through the hook so the Bezier perturbation sequence is shared with the model (ProfSkel / bezoracle), C09 effect summaries whitelist it (ERand); Random* helpers are not used by any modelled function *)
  (["C01"; "C02"; "C03"; "C09"; "C17"],
   GVar "sdf" "sdfRand" "*math/rand.Rand" true true ["sdf.(*BezierSpline).Sample"; "sdf.(*Box2).Random"; "sdf.(*Box3).Random"; "sdf.RandomM22"; "sdf.RandomM33"; "sdf.RandomM44"]);
  (* thread database: built once by initThreadLookup into a map the initialiser allocates, never written afterwards (read-only here); its content is regenerated as Generated/Threads.v (threadgen) for C18 *)
  (["C01"; "C02"; "C10"; "C18"],
   GVar "sdf" "threadDB" "sdf.threadDatabase" true false [])
].

(* ---- struct types: (properties in whose scope the type is, type with its fields and the fields written outside construction) *)
Definition exp_structs : list (list string * sstruct) := [
  (["C01"; "C10"],
   SStruct "obj" "AngleLeg"
     [("Length", "float64"); ("Thickness", "float64")]
     []);
  (["C01"; "C10"],
   SStruct "obj" "AngleParms"
     [("X", "obj.AngleLeg"); ("Y", "obj.AngleLeg"); ("RootRadius", "float64"); ("Length", "float64")]
     []);
  (["C01"; "C10"],
   SStruct "obj" "AngleTab"
     [("size", "vec/v3.Vec"); ("clearance", "float64")]
     []);
  (* parameter record; DirectedArrow3D overwrites Axis[0] of the caller's record with the distance between the two points (an input of the call, not carried state): objparts constructs a fresh record per call *)
  (["C01"; "C10"],
   SStruct "obj" "ArrowParms"
     [("Axis", "[2]float64"); ("Head", "[2]float64"); ("Tail", "[2]float64"); ("Style", "string")]
     [("Axis", ["obj.DirectedArrow3D"])]);
  (["C01"; "C10"; "C18"],
   SStruct "obj" "BoltParms"
     [("Thread", "string"); ("Style", "string"); ("Tolerance", "float64"); ("TotalLength", "float64"); ("ShankLength", "float64")]
     []);
  (["C01"; "C10"],
   SStruct "obj" "DrainCoverParms"
     [("WallDiameter", "float64"); ("WallHeight", "float64"); ("WallThickness", "float64"); ("WallDraft", "float64"); ("OuterWidth", "float64"); ("InnerWidth", "float64"); ("CoverThickness", "float64"); ("GrateNumber", "int"); ("GrateWidth", "float64"); ("GrateDraft", "float64"); ("CrossBarWidth", "float64"); ("CrossBarWeb", "bool")]
     []);
  (["C01"; "C10"],
   SStruct "obj" "DroneArmParms"
     [("MotorSize", "vec/v2.Vec"); ("MotorMount", "vec/v3.Vec"); ("RotorCavity", "vec/v2.Vec"); ("WallThickness", "float64"); ("SideClearance", "float64"); ("MountHeight", "float64"); ("ArmHeight", "float64"); ("ArmLength", "float64")]
     []);
  (["C01"; "C10"],
   SStruct "obj" "DroneArmSocketParms"
     [("Arm", "*obj.DroneArmParms"); ("Size", "vec/v3.Vec"); ("Clearance", "float64"); ("Stop", "float64")]
     []);
  (* parameter record; EuroRackPanel2D fills the default HoleDiameter into the caller's record (idempotent default, objparts passes a fresh record per call) *)
  (["C01"; "C10"],
   SStruct "obj" "EuroRackParms"
     [("U", "float64"); ("HP", "float64"); ("CornerRadius", "float64"); ("HoleDiameter", "float64"); ("Thickness", "float64"); ("Ridge", "bool")]
     [("HoleDiameter", ["obj.EuroRackPanel2D"])]);
  (["C01"; "C10"],
   SStruct "obj" "FingerButtonParms"
     [("Width", "float64"); ("Gap", "float64"); ("Length", "float64")]
     []);
  (["C01"; "C10"],
   SStruct "obj" "GenevaParms"
     [("NumSectors", "int"); ("CenterDistance", "float64"); ("DriverRadius", "float64"); ("DrivenRadius", "float64"); ("PinRadius", "float64"); ("Clearance", "float64")]
     []);
  (* parameter record; GfBase clamps Size to >= 1 in the caller's record (idempotent default) *)
  (["C01"; "C10"],
   SStruct "obj" "GfBaseParms"
     [("Size", "vec/v2i.Vec"); ("Magnet", "bool"); ("Hole", "bool")]
     [("Size", ["obj.GfBase"])]);
  (* parameter record; GfBody clamps Size to >= 1 in the caller's record (idempotent default) *)
  (["C01"; "C10"],
   SStruct "obj" "GfBodyParms"
     [("Size", "vec/v3i.Vec"); ("Empty", "bool"); ("Hole", "bool")]
     [("Size", ["obj.GfBody"])]);
  (["C01"; "C10"],
   SStruct "obj" "InvoluteGearParms"
     [("NumberTeeth", "int"); ("Module", "float64"); ("PressureAngle", "float64"); ("Backlash", "float64"); ("Clearance", "float64"); ("RingWidth", "float64"); ("Facets", "int")]
     []);
  (["C01"; "C10"],
   SStruct "obj" "KeywayParameters"
     [("ShaftRadius", "float64"); ("KeyRadius", "float64"); ("KeyWidth", "float64"); ("ShaftLength", "float64")]
     []);
  (["C01"; "C10"],
   SStruct "obj" "KnurlParms"
     [("Length", "float64"); ("Radius", "float64"); ("Pitch", "float64"); ("Height", "float64"); ("Theta", "float64")]
     []);
  (["C01"; "C10"; "C18"],
   SStruct "obj" "NutParms"
     [("Thread", "string"); ("Style", "string"); ("Tolerance", "float64")]
     []);
  (* parameter record; PanelBox3D fills the default Clearance into the caller's record (idempotent default) *)
  (["C01"; "C10"],
   SStruct "obj" "PanelBoxParms"
     [("Size", "vec/v3.Vec"); ("Wall", "float64"); ("Panel", "float64"); ("Rounding", "float64"); ("FrontInset", "float64"); ("BackInset", "float64"); ("Clearance", "float64"); ("Hole", "float64"); ("SideTabs", "string")]
     [("Clearance", ["obj.PanelBox3D"])]);
  (["C01"; "C10"],
   SStruct "obj" "PanelHoleParms"
     [("Diameter", "float64"); ("Thickness", "float64"); ("Indent", "vec/v3.Vec"); ("Offset", "float64"); ("Orientation", "float64")]
     []);
  (["C01"; "C10"],
   SStruct "obj" "PanelParms"
     [("Size", "vec/v2.Vec"); ("CornerRadius", "float64"); ("HoleDiameter", "float64"); ("HoleMargin", "[4]float64"); ("HolePattern", "[4]string"); ("Thickness", "float64")]
     []);
  (["C01"; "C10"],
   SStruct "obj" "PipeConnectorParms"
     [("Length", "float64"); ("OuterRadius", "float64"); ("InnerRadius", "float64"); ("RecessDepth", "float64"); ("RecessWidth", "float64"); ("Configuration", "[6]bool")]
     []);
  (["C01"; "C10"],
   SStruct "obj" "PipeParameters"
     [("Name", "string"); ("Outer", "float64"); ("Inner", "float64"); ("Units", "string")]
     []);
  (["C01"; "C10"],
   SStruct "obj" "ScrewTab"
     [("Length", "float64"); ("Radius", "float64"); ("Round", "bool"); ("HoleUpper", "float64"); ("HoleLower", "float64"); ("HoleRadius", "float64")]
     []);
  (["C01"; "C10"],
   SStruct "obj" "ServoHornParms"
     [("CenterRadius", "float64"); ("NumHoles", "int"); ("CircleRadius", "float64"); ("HoleRadius", "float64")]
     []);
  (["C01"; "C10"],
   SStruct "obj" "ServoParms"
     [("Body", "vec/v3.Vec"); ("Mount", "vec/v3.Vec"); ("Hole", "vec/v2.Vec"); ("MountOffset", "float64"); ("ShaftOffset", "float64"); ("ShaftLength", "float64"); ("ShaftRadius", "float64"); ("HoleRadius", "float64")]
     []);
  (* parameter record; Spring2D fills the default Boss sizes into the receiver (idempotent default) *)
  (["C01"; "C10"],
   SStruct "obj" "SpringParms"
     [("Width", "float64"); ("Height", "float64"); ("WallThickness", "float64"); ("Diameter", "float64"); ("NumSections", "int"); ("Boss", "[2]float64")]
     [("Boss", ["obj.(*SpringParms).Spring2D"])]);
  (["C01"; "C10"],
   SStruct "obj" "StandoffParms"
     [("PillarHeight", "float64"); ("PillarDiameter", "float64"); ("HoleDepth", "float64"); ("HoleDiameter", "float64"); ("NumberWebs", "int"); ("WebHeight", "float64"); ("WebDiameter", "float64"); ("WebWidth", "float64")]
     []);
  (["C01"; "C10"],
   SStruct "obj" "StraightTab"
     [("size", "vec/v3.Vec"); ("clearance", "float64")]
     []);
  (["C01"; "C10"; "C18"],
   SStruct "obj" "ThreadedCylinderParms"
     [("Height", "float64"); ("Diameter", "float64"); ("Thread", "string"); ("Tolerance", "float64")]
     []);
  (["C01"; "C10"],
   SStruct "obj" "TruncRectPyramidParms"
     [("Size", "vec/v3.Vec"); ("BaseAngle", "float64"); ("BaseRadius", "float64"); ("RoundRadius", "float64")]
     []);
  (["C01"; "C10"],
   SStruct "obj" "WasherParms"
     [("Thickness", "float64"); ("InnerRadius", "float64"); ("OuterRadius", "float64"); ("Remove", "float64")]
     []);
  (["C01"; "C10"],
   SStruct "obj" "boxHoleParms"
     [("Length", "float64"); ("Hole", "float64"); ("ZOffset", "float64"); ("YOffset", "float64"); ("Orientation", "string")]
     []);
  (["C01"; "C10"],
   SStruct "obj" "boxTabParms"
     [("Wall", "float64"); ("Length", "float64"); ("Hole", "float64"); ("HoleOffset", "float64"); ("Orientation", "string"); ("Clearance", "float64")]
     []);
  (* imported-mesh shape: rtree is built in the constructor; Evaluate only queries it (NearestNeighbors is a pointer-receiver method of the external rtreego package, counted as a write conservatively); C10 effect summaries follow rtreego and find no write *)
  (["C01"; "C10"; "C14"],
   SStruct "obj" "triMeshSdf"
     [("rtree", "*github.com/dhconnelly/rtreego.Rtree"); ("numNeighbors", "int"); ("bb", "sdf.Box3")]
     [("rtree", ["obj.(*triMeshSdf).Evaluate"])]);
  (* DXF sink: the drawing accumulates the lines written so far, by design; Io/Export.v models the file content as the fold over the written lines (C15), Sys/Pipeline.v the writer loop (C11/C12); one DXF object per file *)
  (["C09"; "C11"; "C12"; "C15"],
   SStruct "render" "DXF"
     [("name", "string"); ("drawing", "*github.com/yofu/dxf/drawing.Drawing")]
     [("drawing", ["render.(*DXF).Line"; "render.(*DXF).Points"; "render.(*DXF).Save"])]);
  (["C05"; "C06"; "C07"; "C09"; "C10"],
   SStruct "render" "MarchingCubesOctree"
     [("meshCells", "int")]
     []);
  (["C05"; "C06"; "C09"; "C10"; "C12"],
   SStruct "render" "MarchingCubesUniform"
     [("meshCells", "int")]
     []);
  (["C07"; "C08"; "C09"],
   SStruct "render" "MarchingSquaresQuadtree"
     [("meshCells", "int")]
     []);
  (["C08"; "C09"],
   SStruct "render" "MarchingSquaresUniform"
     [("meshCells", "int")]
     []);
  (["C09"; "C11"; "C12"; "C13"; "C14"],
   SStruct "render" "STLHeader"
     [("_", "[80]uint8"); ("Count", "uint32")]
     []);
  (["C09"; "C11"; "C12"; "C13"; "C14"],
   SStruct "render" "STLTriangle"
     [("Normal", "[3]float32"); ("Vertex1", "[3]float32"); ("Vertex2", "[3]float32"); ("Vertex3", "[3]float32"); ("_", "uint16")]
     []);
  (* SVG sink: p0s/p1s/min/max accumulate the segments and their running bounds until Save; Io/Export.v (svg_add / svg_save, C15); one SVG object per file *)
  (["C09"; "C11"; "C12"; "C15"],
   SStruct "render" "SVG"
     [("filename", "string"); ("lineStyle", "string"); ("p0s", "[]vec/v2.Vec"); ("p1s", "[]vec/v2.Vec"); ("min", "vec/v2.Vec"); ("max", "vec/v2.Vec")]
     [("max", ["render.(*SVG).Line"]);
      ("min", ["render.(*SVG).Line"]);
      ("p0s", ["render.(*SVG).Line"]);
      ("p1s", ["render.(*SVG).Line"])]);
  (["C05"; "C06"; "C07"; "C09"; "C10"],
   SStruct "render" "cube"
     [("v", "vec/v3i.Vec"); ("n", "uint")]
     []);
  (* quadtree distance cache: created per render by newDcache2 inside marchingSquaresQuadtree and written under its RWMutex by internal helpers only, so no write to a cache the render did not allocate itself exists (keeping it in the renderer or in a package-level variable shows up here); Render/Octree.v threads the cache as explicit state through the recursion and proves the result equal to the cache-free one (C07/C08), Lockset summaries see the lock (C10) *)
  (["C07"; "C08"; "C09"],
   SStruct "render" "dcache2"
     [("origin", "vec/v2.Vec"); ("resolution", "float64"); ("hdiag", "[]float64"); ("s", "sdf.SDF2"); ("cache", "map[vec/v2i.Vec]float64"); ("lock", "sync.RWMutex")]
     []);
  (* octree distance cache: created per render by newDcache3 inside marchingCubesOctree and written under its RWMutex by internal helpers only, so no write to a cache the render did not allocate itself exists (keeping it in the renderer or in a package-level variable shows up here); Render/Octree.v (cache3, dc3_evaluate: the cache is threaded as explicit state and proved not to change the result) + Render/GenEqOct.v (C05/C06/C07), Effects.v locks (C09/C10) *)
  (["C05"; "C06"; "C07"; "C09"; "C10"],
   SStruct "render" "dcache3"
     [("origin", "vec/v3.Vec"); ("resolution", "float64"); ("hdiag", "[]float64"); ("s", "sdf.SDF3"); ("cache", "map[vec/v3i.Vec]float64"); ("lock", "sync.RWMutex")]
     []);
  (* evaluation request: out is the re-sliced window of the layer the worker fills, wg the per-layer WaitGroup; Sys/Sched.v (each worker writes its own disjoint window; C06/C09), Sys/SchedProg.v *)
  (["C05"; "C06"; "C09"; "C10"; "C12"],
   SStruct "render" "evalReq"
     [("out", "[]float64"); ("p", "[]vec/v3.Vec"); ("fn", "func(vec/v3.Vec) float64"); ("wg", "*sync.WaitGroup")]
     [("out", ["render.(*MarchingCubesUniform).Render"]);
      ("wg", ["render.(*MarchingCubesUniform).Render"])]);
  (* two-layer value cache of the uniform renderer: created per render in marchingCubes; val0/val1 are swapped and refilled per x step: Render/Lattice.v + GenEqMC (layer indexing), Sys/Sched.v (filled by the pool) *)
  (["C05"; "C06"; "C09"; "C10"; "C12"],
   SStruct "render" "layerYZ"
     [("base", "vec/v3.Vec"); ("inc", "vec/v3.Vec"); ("steps", "vec/v3i.Vec"); ("val0", "[]float64"); ("val1", "[]float64")]
     [("val0", ["render.(*layerYZ).Evaluate"]);
      ("val1", ["render.(*layerYZ).Evaluate"])]);
  (* two-column value cache of the uniform 2D renderer: created per render in marchingSquares, written by internal helpers only (no write outside the render that allocated it); Render/MS.v + Render/Lattice.v (C08) *)
  (["C08"; "C09"],
   SStruct "render" "lineCache"
     [("base", "vec/v2.Vec"); ("inc", "vec/v2.Vec"); ("steps", "vec/v2i.Vec"); ("val0", "[]float64"); ("val1", "[]float64")]
     []);
  (["C07"; "C08"; "C09"],
   SStruct "render" "square"
     [("v", "vec/v2i.Vec"); ("n", "uint")]
     []);
  (* renderer options; Render replaces RCond == 0 by the default 1e-3 in the renderer object (idempotent default written on first use; Algo/DCScan.v allowed_state_reads lists exactly this read, DCModel takes the effective RCond as a parameter) *)
  (["C19"],
   SStruct "render/dc" "DualContouringV1"
     [("Simplify", "float64"); ("RCond", "float64"); ("LockVertices", "bool")]
     [("RCond", ["render/dc.(*DualContouringV1).Render"])]);
  (* renderer options plus the dc warn-once flags (farAway/qefFailed/raycastFailed/faceVertexNotFound): they only gate log output, never geometry: Algo/DCScan.v classifies every use as a warn-once guard (regenerated by dctab on every run) *)
  (["C19"],
   SStruct "render/dc" "DualContouringV2"
     [("meshCells", "int"); ("FarAway", "float64"); ("CenterPush", "float64"); ("RaycastScaleAndSigmoid", "float64"); ("RaycastStepScale", "float64"); ("RaycastEpsilon", "float64"); ("RaycastMaxSteps", "int"); ("maxCornerDistWarned", "bool"); ("qefFailedImplWarned", "bool"); ("qefFailedWarned", "bool"); ("farAwayWarned", "bool"); ("faceVertexNotFoundWarned", "bool"); ("raycastFailedWarned", "bool")]
     [("faceVertexNotFoundWarned", ["render/dc.(*DualContouringV2).Render"]);
      ("farAwayWarned", ["render/dc.(*DualContouringV2).Render"]);
      ("qefFailedImplWarned", ["render/dc.(*DualContouringV2).Render"]);
      ("qefFailedWarned", ["render/dc.(*DualContouringV2).Render"]);
      ("raycastFailedWarned", ["render/dc.(*DualContouringV2).Render"])]);
  (* octree node of DualContouringV1: built per render by dcNewOctree/Populate, collapsed in place by Simplify; Algo/DCOctree.v + DCPrune.v + DCProc* model build/simplify/contour as functions of the tree of this render *)
  (["C19"],
   SStruct "render/dc" "dcOctree"
     [("kind", "render/dc.dcOctreeNodeType"); ("minOffset", "vec/v3i.Vec"); ("size", "int"); ("meshSize", "int"); ("cellCounts", "vec/v3i.Vec"); ("children", "[8]*render/dc.dcOctree"); ("drawInfo", "*render/dc.dcOctreeDrawInfo"); ("rCond", "float64"); ("lockVertices", "bool")]
     [("children", ["render/dc.(*dcOctree).Populate"; "render/dc.(*dcOctree).Simplify"]);
      ("drawInfo", ["render/dc.(*dcOctree).Populate"; "render/dc.(*dcOctree).Simplify"]);
      ("kind", ["render/dc.(*dcOctree).Populate"; "render/dc.(*dcOctree).Simplify"])]);
  (* leaf data of the V1 octree (vertex index, position, QEF, normal): written while the tree of one render is built, simplified and indexed (Algo/DCOctree.v, DCVisits.v) *)
  (["C19"],
   SStruct "render/dc" "dcOctreeDrawInfo"
     [("index", "int"); ("corners", "int"); ("position", "vec/v3.Vec"); ("averageNormal", "vec/v3.Vec"); ("qef", "*render/dc.dcQefSolver")]
     [("averageNormal", ["render/dc.(*dcOctree).Simplify"]);
      ("corners", ["render/dc.(*dcOctree).Simplify"]);
      ("index", ["render/dc.(*dcOctree).GenerateMesh"]);
      ("position", ["render/dc.(*dcOctree).Simplify"]);
      ("qef", ["render/dc.(*dcOctree).Simplify"])]);
  (* QEF accumulator (ata/atb/btb/mass point) and its cached solution x: one solver per octree leaf, accumulated by Add/AddSolver, solved by Solve (gonum calls are counted as writes of ata); Algo/DCModel.v treats the solve as a function of the accumulated data *)
  (["C19"],
   SStruct "render/dc" "dcQefSolver"
     [("ata", "*gonum.org/v1/gonum/mat.SymDense"); ("atb", "vec/v3.Vec"); ("massPointSum", "vec/v3.Vec"); ("x", "vec/v3.Vec"); ("btb", "float64"); ("numPoints", "int"); ("hasSolution", "bool")]
     [("ata", ["render/dc.(*dcQefSolver).Add"; "render/dc.(*dcQefSolver).AddSolver"; "render/dc.(*dcQefSolver).GetError"; "render/dc.(*dcQefSolver).Solve"]);
      ("atb", ["render/dc.(*dcQefSolver).Add"; "render/dc.(*dcQefSolver).AddSolver"]);
      ("btb", ["render/dc.(*dcQefSolver).Add"; "render/dc.(*dcQefSolver).AddSolver"]);
      ("hasSolution", ["render/dc.(*dcQefSolver).Add"; "render/dc.(*dcQefSolver).AddSolver"; "render/dc.(*dcQefSolver).Solve"]);
      ("massPointSum", ["render/dc.(*dcQefSolver).Add"; "render/dc.(*dcQefSolver).AddSolver"]);
      ("numPoints", ["render/dc.(*dcQefSolver).Add"; "render/dc.(*dcQefSolver).AddSolver"]);
      ("x", ["render/dc.(*dcQefSolver).GetError"; "render/dc.(*dcQefSolver).Solve"])]);
  (* V2 evaluation cache: created per render in DualContouringV2.Render (no write outside the render that allocated it), memoises the pure field (Algo/DCScan.v: evaluation is a function of the point) *)
  (["C19"],
   SStruct "render/dc" "dcSdf"
     [("impl", "sdf.SDF3"); ("cache", "map[vec/v3.Vec]float64")]
     []);
  (["C19"],
   SStruct "render/dc" "dcVoxelInfo"
     [("cellIndex", "vec/v3i.Vec"); ("bufIndex", "int"); ("cellStart", "vec/v3.Vec"); ("cellSize", "vec/v3.Vec")]
     []);
  (["C01"; "C10"],
   SStruct "sdf" "ArcSpiralSDF2"
     [("spiral", "sdf.arcSpiral"); ("d", "float64"); ("start", "vec/p2.Vec"); ("end", "vec/p2.Vec"); ("bb", "sdf.Box2")]
     []);
  (* SetMin replaces the blend function after construction: Sdf/Shape.v carries the min function as a constructor parameter (the harness calls SetMin before the first Evaluate) *)
  (["C01"; "C02"; "C03"; "C10"; "C16"],
   SStruct "sdf" "ArraySDF2"
     [("sdf", "sdf.SDF2"); ("num", "vec/v2i.Vec"); ("step", "vec/v2.Vec"); ("min", "sdf.MinFunc"); ("bb", "sdf.Box2")]
     [("min", ["sdf.(*ArraySDF2).SetMin"])]);
  (* SetMin replaces the blend function after construction: Sdf/Shape.v carries the min function as a constructor parameter *)
  (["C01"; "C02"; "C03"; "C10"],
   SStruct "sdf" "ArraySDF3"
     [("sdf", "sdf.SDF3"); ("num", "vec/v3i.Vec"); ("step", "vec/v3.Vec"); ("min", "sdf.MinFunc"); ("bb", "sdf.Box3")]
     [("min", ["sdf.(*ArraySDF3).SetMin"])]);
  (* Bezier builder: Add/AddV2/Close build the vertex list, Polygon() converts handles to control points in place: ProfSkel + bezoracle (C17) model the builder script *)
  (["C01"; "C17"],
   SStruct "sdf" "Bezier"
     [("closed", "bool"); ("vlist", "[]sdf.BezierVertex")]
     [("closed", ["sdf.(*Bezier).Close"]);
      ("vlist", ["sdf.(*Bezier).AddV2"; "sdf.(*Bezier).Polygon"])]);
  (* coefficients set by Set, called when a spline is built from control points (BezierSpline construction; C17 model BezierPolynomial.Set) *)
  (["C01"; "C17"],
   SStruct "sdf" "BezierPolynomial"
     [("n", "int"); ("a", "float64"); ("b", "float64"); ("c", "float64"); ("d", "float64"); ("e", "float64")]
     [("a", ["sdf.(*BezierPolynomial).Set"]);
      ("b", ["sdf.(*BezierPolynomial).Set"]);
      ("c", ["sdf.(*BezierPolynomial).Set"]);
      ("d", ["sdf.(*BezierPolynomial).Set"]);
      ("e", ["sdf.(*BezierPolynomial).Set"]);
      ("n", ["sdf.(*BezierPolynomial).Set"])]);
  (["C01"; "C17"],
   SStruct "sdf" "BezierSpline"
     [("tolerance", "float64"); ("px", "sdf.BezierPolynomial"); ("py", "sdf.BezierPolynomial")]
     []);
  (* Bezier builder vertex: HandleFwd/HandleRev/Mid modify the vertex just added (builder calls; C17 model carries them as vertex attributes) *)
  (["C01"; "C17"],
   SStruct "sdf" "BezierVertex"
     [("vtype", "sdf.bezierVertexType"); ("vertex", "vec/v2.Vec"); ("handleFwd", "vec/v2.Vec"); ("handleRev", "vec/v2.Vec")]
     [("handleFwd", ["sdf.(*BezierVertex).HandleFwd"]);
      ("handleRev", ["sdf.(*BezierVertex).HandleRev"]);
      ("vtype", ["sdf.(*BezierVertex).Mid"])]);
  (["C01"; "C02"; "C03"; "C04"; "C07"; "C08"; "C10"; "C16"],
   SStruct "sdf" "Box2"
     [("Min", "vec/v2.Vec"); ("Max", "vec/v2.Vec")]
     []);
  (["C01"; "C02"; "C03"; "C05"; "C06"; "C07"; "C10"; "C14"; "C16"; "C18"; "C19"],
   SStruct "sdf" "Box3"
     [("Min", "vec/v3.Vec"); ("Max", "vec/v3.Vec")]
     []);
  (["C01"; "C02"; "C03"; "C10"; "C16"],
   SStruct "sdf" "BoxSDF2"
     [("size", "vec/v2.Vec"); ("round", "float64"); ("bb", "sdf.Box2")]
     []);
  (["C01"; "C02"; "C03"; "C10"],
   SStruct "sdf" "BoxSDF3"
     [("size", "vec/v3.Vec"); ("round", "float64"); ("bb", "sdf.Box3")]
     []);
  (* the memoising wrapper: map and counters written by Evaluate under mu (fix f1b96b7); Sdf/Reify.v RCache2 s is interpreted as its operand (memo of a pure function; key = bit patterns of the point, fix e9e2be4: C02), Lockset summaries check the lock (C10) *)
  (["C01"; "C02"; "C10"],
   SStruct "sdf" "CacheSDF2"
     [("sdf", "sdf.SDF2"); ("mu", "sync.Mutex"); ("cache", "map[sdf.cacheKey]float64"); ("reads", "uint"); ("hits", "uint")]
     [("cache", ["sdf.(*CacheSDF2).Evaluate"]);
      ("hits", ["sdf.(*CacheSDF2).Evaluate"]);
      ("mu", ["sdf.(*CacheSDF2).Evaluate"; "sdf.(*CacheSDF2).String"]);
      ("reads", ["sdf.(*CacheSDF2).Evaluate"])]);
  (["C01"; "C02"; "C03"; "C10"; "C16"],
   SStruct "sdf" "CircleSDF2"
     [("radius", "float64"); ("bb", "sdf.Box2")]
     []);
  (["C01"; "C02"; "C03"; "C10"],
   SStruct "sdf" "ConeSDF3"
     [("r0", "float64"); ("r1", "float64"); ("height", "float64"); ("round", "float64"); ("u", "vec/v2.Vec"); ("n", "vec/v2.Vec"); ("l", "float64"); ("bb", "sdf.Box3")]
     []);
  (* coefficients set by Set, called from the CubicSpline2D constructor only (builder step, not state of an evaluation) *)
  (["C01"; "C10"],
   SStruct "sdf" "CubicPolynomial"
     [("a", "float64"); ("b", "float64"); ("c", "float64"); ("d", "float64")]
     [("a", ["sdf.(*CubicPolynomial).Set"]);
      ("b", ["sdf.(*CubicPolynomial).Set"]);
      ("c", ["sdf.(*CubicPolynomial).Set"]);
      ("d", ["sdf.(*CubicPolynomial).Set"])]);
  (["C01"; "C10"],
   SStruct "sdf" "CubicSpline"
     [("idx", "int"); ("p0", "vec/v2.Vec"); ("p1", "vec/v2.Vec"); ("px", "sdf.CubicPolynomial"); ("py", "sdf.CubicPolynomial")]
     []);
  (* spline segments are built in the constructor; Evaluate/d1/d2/Polygonize take the address of a segment to call its pointer-receiver read methods (address-taking counted conservatively); nothing is stored *)
  (["C01"; "C10"],
   SStruct "sdf" "CubicSplineSDF2"
     [("spline", "[]sdf.CubicSpline"); ("maxiters", "int"); ("bb", "sdf.Box2")]
     [("spline", ["sdf.(*CubicSplineSDF2).Evaluate"; "sdf.(*CubicSplineSDF2).Polygonize"; "sdf.(*CubicSplineSDF2).d1"; "sdf.(*CubicSplineSDF2).d2"])]);
  (["C01"; "C02"; "C03"; "C10"; "C16"],
   SStruct "sdf" "CutSDF2"
     [("sdf", "sdf.SDF2"); ("a", "vec/v2.Vec"); ("n", "vec/v2.Vec"); ("bb", "sdf.Box2")]
     []);
  (["C01"; "C02"; "C03"; "C10"],
   SStruct "sdf" "CutSDF3"
     [("sdf", "sdf.SDF3"); ("a", "vec/v3.Vec"); ("n", "vec/v3.Vec"); ("bb", "sdf.Box3")]
     []);
  (["C01"; "C02"; "C03"; "C10"],
   SStruct "sdf" "CylinderSDF3"
     [("height", "float64"); ("radius", "float64"); ("round", "float64"); ("bb", "sdf.Box3")]
     []);
  (* SetMax replaces the blend function after construction: Sdf/Shape.v carries it as a constructor parameter *)
  (["C01"; "C02"; "C03"; "C10"; "C16"],
   SStruct "sdf" "DifferenceSDF2"
     [("s0", "sdf.SDF2"); ("s1", "sdf.SDF2"); ("max", "sdf.MaxFunc"); ("bb", "sdf.Box2")]
     [("max", ["sdf.(*DifferenceSDF2).SetMax"])]);
  (* SetMax replaces the blend function after construction: Sdf/Shape.v carries it as a constructor parameter *)
  (["C01"; "C02"; "C03"; "C10"],
   SStruct "sdf" "DifferenceSDF3"
     [("s0", "sdf.SDF3"); ("s1", "sdf.SDF3"); ("max", "sdf.MaxFunc"); ("bb", "sdf.Box3")]
     [("max", ["sdf.(*DifferenceSDF3).SetMax"])]);
  (["C01"; "C02"; "C03"; "C10"; "C16"],
   SStruct "sdf" "ElongateSDF2"
     [("sdf", "sdf.SDF2"); ("hp", "vec/v2.Vec"); ("hn", "vec/v2.Vec"); ("bb", "sdf.Box2")]
     []);
  (["C01"; "C02"; "C03"; "C10"],
   SStruct "sdf" "ElongateSDF3"
     [("sdf", "sdf.SDF3"); ("hp", "vec/v3.Vec"); ("hn", "vec/v3.Vec"); ("bb", "sdf.Box3")]
     []);
  (["C01"; "C02"; "C03"; "C10"],
   SStruct "sdf" "ExtrudeRoundedSDF3"
     [("sdf", "sdf.SDF2"); ("height", "float64"); ("round", "float64"); ("bb", "sdf.Box3")]
     []);
  (* SetExtrude replaces the extrusion mapping after construction: Sdf/Shape.v Extrude carries the mapping as a parameter *)
  (["C01"; "C02"; "C03"; "C10"],
   SStruct "sdf" "ExtrudeSDF3"
     [("sdf", "sdf.SDF2"); ("height", "float64"); ("extrude", "sdf.ExtrudeFunc"); ("bb", "sdf.Box3")]
     [("extrude", ["sdf.(*ExtrudeSDF3).SetExtrude"])]);
  (["C01"; "C10"],
   SStruct "sdf" "Flange1"
     [("distance", "float64"); ("centerRadius", "float64"); ("sideRadius", "float64"); ("a", "vec/v2.Vec"); ("u", "vec/v2.Vec"); ("l", "float64"); ("bb", "sdf.Box2")]
     []);
  (["C01"; "C10"],
   SStruct "sdf" "FlatFlankCamSDF2"
     [("distance", "float64"); ("baseRadius", "float64"); ("noseRadius", "float64"); ("a", "vec/v2.Vec"); ("u", "vec/v2.Vec"); ("l", "float64"); ("bb", "sdf.Box2")]
     []);
  (["C01"; "C10"],
   SStruct "sdf" "GearRackParms"
     [("NumberTeeth", "int"); ("Module", "float64"); ("PressureAngle", "float64"); ("Backlash", "float64"); ("BaseHeight", "float64")]
     []);
  (["C01"; "C10"],
   SStruct "sdf" "GearRackSDF2"
     [("tooth", "sdf.SDF2"); ("pitch", "float64"); ("length", "float64"); ("bb", "sdf.Box2")]
     []);
  (["C01"; "C10"],
   SStruct "sdf" "GyroidSDF3"
     [("k", "vec/v3.Vec")]
     []);
  (* SetMax replaces the blend function after construction: Sdf/Shape.v carries it as a constructor parameter *)
  (["C01"; "C02"; "C03"; "C10"; "C16"],
   SStruct "sdf" "IntersectionSDF2"
     [("s0", "sdf.SDF2"); ("s1", "sdf.SDF2"); ("max", "sdf.MaxFunc"); ("bb", "sdf.Box2")]
     [("max", ["sdf.(*IntersectionSDF2).SetMax"])]);
  (* SetMax replaces the blend function after construction: Sdf/Shape.v carries it as a constructor parameter *)
  (["C01"; "C02"; "C03"; "C10"],
   SStruct "sdf" "IntersectionSDF3"
     [("s0", "sdf.SDF3"); ("s1", "sdf.SDF3"); ("max", "sdf.MaxFunc"); ("bb", "sdf.Box3")]
     [("max", ["sdf.(*IntersectionSDF3).SetMax"])]);
  (* line buffer between renderer and sink: buf appended / flushed at threshold under lock, out is the sink channel: Sys/Buffer.v + Sys/BufferProg.v (programs translated by sysgen; C11 nothing lost/duplicated/reordered) *)
  (["C01"; "C03"; "C04"; "C07"; "C08"; "C09"; "C11"; "C12"; "C15"; "C16"],
   SStruct "sdf" "Line2Buffer"
     [("buf", "[]*sdf.Line2"); ("out", "chan<- []*sdf.Line2"); ("lock", "sync.Mutex")]
     [("buf", ["sdf.(*Line2Buffer).Close"; "sdf.(*Line2Buffer).Write"]);
      ("lock", ["sdf.(*Line2Buffer).Close"; "sdf.(*Line2Buffer).Write"]);
      ("out", ["sdf.(*Line2Buffer).Close"; "sdf.(*Line2Buffer).Write"])]);
  (["C01"; "C02"; "C03"; "C10"; "C16"],
   SStruct "sdf" "LineSDF2"
     [("l", "float64"); ("round", "float64"); ("bb", "sdf.Box2")]
     []);
  (["C01"; "C02"; "C03"; "C10"],
   SStruct "sdf" "LoftSDF3"
     [("sdf0", "sdf.SDF2"); ("sdf1", "sdf.SDF2"); ("height", "float64"); ("round", "float64"); ("bb", "sdf.Box3")]
     []);
  (["C01"; "C02"; "C03"; "C04"; "C07"; "C08"; "C16"],
   SStruct "sdf" "Map2"
     [("bb", "sdf.Box2"); ("grid", "vec/v2i.Vec"); ("delta", "vec/v2.Vec"); ("flipy", "bool")]
     []);
  (["C01"; "C03"; "C04"; "C10"],
   SStruct "sdf" "MeshSDF2"
     [("qt", "*sdf.qtNode"); ("bb", "sdf.Box2")]
     []);
  (["C01"; "C03"; "C04"; "C10"],
   SStruct "sdf" "MeshSDF2Slow"
     [("mesh", "[]*sdf.lineInfo"); ("bb", "sdf.Box2")]
     []);
  (["C01"; "C10"],
   SStruct "sdf" "MeshSDF3"
     [("mesh", "[]*sdf.Triangle3"); ("bb", "sdf.Box3")]
     []);
  (["C01"; "C10"],
   SStruct "sdf" "MeshSDF3Slow"
     [("mesh", "[]*sdf.Triangle3"); ("bb", "sdf.Box3")]
     []);
  (["C01"; "C02"; "C03"; "C10"; "C16"],
   SStruct "sdf" "OffsetSDF2"
     [("sdf", "sdf.SDF2"); ("offset", "float64"); ("bb", "sdf.Box2")]
     []);
  (["C01"; "C02"; "C03"; "C10"],
   SStruct "sdf" "OffsetSDF3"
     [("sdf", "sdf.SDF3"); ("offset", "float64"); ("bb", "sdf.Box3")]
     []);
  (* profile builder: Add/AddV2/Drop/Close/Reverse build the vertex list, Vertices() resolves relative vertices in place (idempotent: relative is cleared): Sdf/Poly.v + ProfSkel (profgen) model the builder as a fold over the script of calls (C17) *)
  (["C01"; "C04"; "C17"; "C18"],
   SStruct "sdf" "Polygon"
     [("closed", "bool"); ("reverse", "bool"); ("vlist", "[]sdf.PolygonVertex")]
     [("closed", ["sdf.(*Polygon).Close"]);
      ("reverse", ["sdf.(*Polygon).Reverse"]);
      ("vlist", ["sdf.(*Polygon).AddV2"; "sdf.(*Polygon).Drop"; "sdf.(*Polygon).Vertices"])]);
  (* profile builder vertex: Rel/Polar/Smooth/Chamfer/Arc modify the vertex just added (builder calls, modelled as vertex attributes in Sdf/Poly.v; C17); Vertices() rewrites relative vertices to absolute *)
  (["C01"; "C04"; "C17"; "C18"],
   SStruct "sdf" "PolygonVertex"
     [("relative", "bool"); ("vtype", "sdf.pvType"); ("vertex", "vec/v2.Vec"); ("facets", "int"); ("radius", "float64")]
     [("facets", ["sdf.(*PolygonVertex).Arc"; "sdf.(*PolygonVertex).Chamfer"; "sdf.(*PolygonVertex).Smooth"]);
      ("radius", ["sdf.(*PolygonVertex).Arc"; "sdf.(*PolygonVertex).Chamfer"; "sdf.(*PolygonVertex).Smooth"]);
      ("relative", ["sdf.(*Polygon).Vertices"; "sdf.(*PolygonVertex).Rel"]);
      ("vertex", ["sdf.(*Polygon).Vertices"; "sdf.(*PolygonVertex).Polar"]);
      ("vtype", ["sdf.(*Polygon).Vertices"; "sdf.(*PolygonVertex).Arc"; "sdf.(*PolygonVertex).Chamfer"; "sdf.(*PolygonVertex).Smooth"])]);
  (["C01"; "C02"; "C03"; "C10"; "C16"],
   SStruct "sdf" "RotateCopySDF2"
     [("sdf", "sdf.SDF2"); ("theta", "float64"); ("bb", "sdf.Box2")]
     []);
  (["C01"; "C02"; "C03"; "C10"],
   SStruct "sdf" "RotateCopySDF3"
     [("sdf", "sdf.SDF3"); ("theta", "float64"); ("bb", "sdf.Box3")]
     []);
  (* SetMin replaces the blend function after construction: Sdf/Shape.v carries it as a constructor parameter *)
  (["C01"; "C02"; "C03"; "C10"; "C16"],
   SStruct "sdf" "RotateUnionSDF2"
     [("sdf", "sdf.SDF2"); ("num", "int"); ("step", "sdf.M33"); ("min", "sdf.MinFunc"); ("bb", "sdf.Box2")]
     [("min", ["sdf.(*RotateUnionSDF2).SetMin"])]);
  (* SetMin replaces the blend function after construction: Sdf/Shape.v carries it as a constructor parameter *)
  (["C01"; "C02"; "C03"; "C10"],
   SStruct "sdf" "RotateUnionSDF3"
     [("sdf", "sdf.SDF3"); ("num", "int"); ("step", "sdf.M44"); ("min", "sdf.MinFunc"); ("bb", "sdf.Box3")]
     [("min", ["sdf.(*RotateUnionSDF3).SetMin"])]);
  (["C01"; "C02"; "C03"; "C10"; "C16"],
   SStruct "sdf" "ScaleUniformSDF2"
     [("sdf", "sdf.SDF2"); ("k", "float64"); ("invk", "float64"); ("bb", "sdf.Box2")]
     []);
  (["C01"; "C02"; "C03"; "C10"],
   SStruct "sdf" "ScaleUniformSDF3"
     [("sdf", "sdf.SDF3"); ("k", "float64"); ("invK", "float64"); ("bb", "sdf.Box3")]
     []);
  (["C01"; "C02"; "C10"; "C18"],
   SStruct "sdf" "ScrewSDF3"
     [("thread", "sdf.SDF2"); ("pitch", "float64"); ("lead", "float64"); ("length", "float64"); ("taper", "float64"); ("starts", "int"); ("bb", "sdf.Box3")]
     []);
  (["C01"; "C02"; "C03"; "C10"],
   SStruct "sdf" "ShellSDF3"
     [("sdf", "sdf.SDF3"); ("delta", "float64"); ("bb", "sdf.Box3")]
     []);
  (["C01"; "C02"; "C03"; "C10"; "C16"],
   SStruct "sdf" "SliceSDF2"
     [("sdf", "sdf.SDF3"); ("a", "vec/v3.Vec"); ("u", "vec/v3.Vec"); ("v", "vec/v3.Vec"); ("bb", "sdf.Box2")]
     []);
  (["C01"; "C02"; "C03"; "C10"],
   SStruct "sdf" "SorSDF3"
     [("sdf", "sdf.SDF2"); ("theta", "float64"); ("norm", "vec/v2.Vec"); ("bb", "sdf.Box3")]
     []);
  (["C01"; "C02"; "C03"; "C10"],
   SStruct "sdf" "SphereSDF3"
     [("radius", "float64"); ("bb", "sdf.Box3")]
     []);
  (["C01"; "C10"],
   SStruct "sdf" "Text"
     [("s", "string"); ("halign", "sdf.align")]
     []);
  (["C01"; "C02"; "C10"; "C18"],
   SStruct "sdf" "ThreadParameters"
     [("Name", "string"); ("Radius", "float64"); ("Pitch", "float64"); ("Taper", "float64"); ("HexFlat2Flat", "float64"); ("Units", "string")]
     []);
  (["C01"; "C10"],
   SStruct "sdf" "ThreeArcCamSDF2"
     [("distance", "float64"); ("baseRadius", "float64"); ("noseRadius", "float64"); ("flankRadius", "float64"); ("flankCenter", "vec/v2.Vec"); ("thetaBase", "float64"); ("thetaNose", "float64"); ("bb", "sdf.Box2")]
     []);
  (["C01"; "C02"; "C03"; "C10"; "C16"],
   SStruct "sdf" "TransformSDF2"
     [("sdf", "sdf.SDF2"); ("mInv", "sdf.M33"); ("bb", "sdf.Box2")]
     []);
  (["C01"; "C02"; "C03"; "C10"],
   SStruct "sdf" "TransformSDF3"
     [("sdf", "sdf.SDF3"); ("matrix", "sdf.M44"); ("inverse", "sdf.M44"); ("bb", "sdf.Box3")]
     []);
  (* triangle buffer between renderer and sink: buf appended / flushed at threshold under lock, out is the sink channel: Sys/Buffer.v + Sys/BufferProg.v (programs translated by sysgen; C11), Effects.v (C09) *)
  (["C05"; "C06"; "C07"; "C09"; "C11"; "C12"; "C13"; "C15"; "C19"],
   SStruct "sdf" "Triangle3Buffer"
     [("buf", "[]*sdf.Triangle3"); ("out", "chan<- []*sdf.Triangle3"); ("lock", "sync.Mutex")]
     [("buf", ["sdf.(*Triangle3Buffer).Close"; "sdf.(*Triangle3Buffer).Write"]);
      ("lock", ["sdf.(*Triangle3Buffer).Close"; "sdf.(*Triangle3Buffer).Write"]);
      ("out", ["sdf.(*Triangle3Buffer).Close"; "sdf.(*Triangle3Buffer).Write"])]);
  (* SetMin replaces min and sets blend (switches Evaluate to the exhaustive path): Sdf/Shape.v Union2 carries (min, blend); C16 pruning theorems are stated for blend = false; Evaluate itself writes nothing *)
  (["C01"; "C02"; "C03"; "C10"; "C16"],
   SStruct "sdf" "UnionSDF2"
     [("sdf", "[]sdf.SDF2"); ("min", "sdf.MinFunc"); ("blend", "bool"); ("bb", "sdf.Box2")]
     [("blend", ["sdf.(*UnionSDF2).SetMin"]);
      ("min", ["sdf.(*UnionSDF2).SetMin"])]);
  (* SetMin replaces the blend function after construction: Sdf/Shape.v carries it as a constructor parameter *)
  (["C01"; "C02"; "C03"; "C10"],
   SStruct "sdf" "UnionSDF3"
     [("sdf", "[]sdf.SDF3"); ("min", "sdf.MinFunc"); ("bb", "sdf.Box3")]
     [("min", ["sdf.(*UnionSDF3).SetMin"])]);
  (["C01"; "C02"; "C10"],
   SStruct "sdf" "VoxelSDF3"
     [("voxelCorners", "map[vec/v3i.Vec]float64"); ("bb", "sdf.Box3"); ("numVoxels", "vec/v3i.Vec")]
     []);
  (["C01"; "C10"],
   SStruct "sdf" "arcSpiral"
     [("a", "float64"); ("n", "float64"); ("k", "float64")]
     []);
  (["C01"; "C03"; "C04"; "C07"; "C08"; "C09"; "C11"; "C12"; "C15"; "C16"],
   SStruct "sdf" "geometryLine"
     [("segment", "bool"); ("length", "float64"); ("a", "vec/v2.Vec"); ("b", "vec/v2.Vec"); ("v", "vec/v2.Vec")]
     []);
  (["C01"; "C03"; "C04"; "C10"],
   SStruct "sdf" "lineInfo"
     [("line", "*sdf.Line2"); ("unitVector", "vec/v2.Vec"); ("length", "float64")]
     []);
  (* quadtree node of MeshSDF2: built by qtBuild in the constructor; Boxes() returns the addresses of the node boxes (address-taking counted conservatively); Sdf/PolyTreeR.v models the tree as an immutable value (C04) *)
  (["C01"; "C03"; "C04"; "C10"],
   SStruct "sdf" "qtNode"
     [("level", "int"); ("box", "sdf.Box2"); ("center", "vec/v2.Vec"); ("halfSide", "float64"); ("child", "[4]*sdf.qtNode"); ("leaf", "[]*sdf.lineInfo")]
     [("box", ["sdf.(*MeshSDF2).Boxes"])]);
  (["C01"; "C10"],
   SStruct "sdf" "triangleInfo"
     [("m", "sdf.M44"); ("t", "[3]vec/v2.Vec"); ("e", "[3]vec/v2.Vec"); ("n", "[3]vec/v2.Vec")]
     []);
  (["C01"; "C10"],
   SStruct "vec/p2" "Vec"
     [("R", "float64"); ("Theta", "float64")]
     []);
  (["C01"; "C02"; "C03"; "C04"; "C07"; "C08"; "C09"; "C10"; "C11"; "C12"; "C15"; "C16"; "C17"; "C18"],
   SStruct "vec/v2" "Vec"
     [("X", "float64"); ("Y", "float64")]
     []);
  (["C01"; "C02"; "C03"; "C04"; "C07"; "C08"; "C09"; "C10"; "C16"; "C19"],
   SStruct "vec/v2i" "Vec"
     [("X", "int"); ("Y", "int")]
     []);
  (* (ptr Vec).Set writes one component of the vector it is called on; used by render/dc on local vectors only (value type: every holder has its own copy) *)
  (["C01"; "C02"; "C03"; "C05"; "C06"; "C07"; "C09"; "C10"; "C11"; "C12"; "C13"; "C14"; "C15"; "C16"; "C18"; "C19"],
   SStruct "vec/v3" "Vec"
     [("X", "float64"); ("Y", "float64"); ("Z", "float64")]
     [("X", ["vec/v3.(*Vec).Set"]);
      ("Y", ["vec/v3.(*Vec).Set"]);
      ("Z", ["vec/v3.(*Vec).Set"])]);
  (["C01"; "C02"; "C03"; "C05"; "C06"; "C07"; "C09"; "C10"; "C12"; "C19"],
   SStruct "vec/v3i" "Vec"
     [("X", "int"); ("Y", "int"); ("Z", "int")]
     [])
].

(* struct types of the packages that are in no property's scope (4): render.DualContouring2D render.PNG render.dc2 render.node2 *)

(* a package this file does not know (a new internal package of the module, imported by the
   packages above) is in the scope of every property *)
Definition known_pkgs : list string := flat_map snd prop_pkgs.
Definition unknown_pkgs : list string :=
  filter (fun p => negb (mem p known_pkgs)) (map gv_pkg gen_vars).

Definition pkgs_of (P : string) : list string :=
  match assoc P prop_pkgs with Some l => l ++ unknown_pkgs | None => unknown_pkgs end.

(* the differences between the generated inventory, restricted to the scope of P, and the expected one *)
Definition state_diff (P : string) : list string :=
  inventory_diff P (pkgs_of P) exp_vars exp_structs gen_vars gen_structs.

Definition state_diff_C01 : list string := state_diff "C01".
Definition state_ok_C01 : bool := is_nil state_diff_C01.
Definition state_diff_C02 : list string := state_diff "C02".
Definition state_ok_C02 : bool := is_nil state_diff_C02.
Definition state_diff_C03 : list string := state_diff "C03".
Definition state_ok_C03 : bool := is_nil state_diff_C03.
Definition state_diff_C04 : list string := state_diff "C04".
Definition state_ok_C04 : bool := is_nil state_diff_C04.
Definition state_diff_C05 : list string := state_diff "C05".
Definition state_ok_C05 : bool := is_nil state_diff_C05.
Definition state_diff_C06 : list string := state_diff "C06".
Definition state_ok_C06 : bool := is_nil state_diff_C06.
Definition state_diff_C07 : list string := state_diff "C07".
Definition state_ok_C07 : bool := is_nil state_diff_C07.
Definition state_diff_C08 : list string := state_diff "C08".
Definition state_ok_C08 : bool := is_nil state_diff_C08.
Definition state_diff_C09 : list string := state_diff "C09".
Definition state_ok_C09 : bool := is_nil state_diff_C09.
Definition state_diff_C10 : list string := state_diff "C10".
Definition state_ok_C10 : bool := is_nil state_diff_C10.
Definition state_diff_C11 : list string := state_diff "C11".
Definition state_ok_C11 : bool := is_nil state_diff_C11.
Definition state_diff_C12 : list string := state_diff "C12".
Definition state_ok_C12 : bool := is_nil state_diff_C12.
Definition state_diff_C13 : list string := state_diff "C13".
Definition state_ok_C13 : bool := is_nil state_diff_C13.
Definition state_diff_C14 : list string := state_diff "C14".
Definition state_ok_C14 : bool := is_nil state_diff_C14.
Definition state_diff_C15 : list string := state_diff "C15".
Definition state_ok_C15 : bool := is_nil state_diff_C15.
Definition state_diff_C16 : list string := state_diff "C16".
Definition state_ok_C16 : bool := is_nil state_diff_C16.
Definition state_diff_C17 : list string := state_diff "C17".
Definition state_ok_C17 : bool := is_nil state_diff_C17.
Definition state_diff_C18 : list string := state_diff "C18".
Definition state_ok_C18 : bool := is_nil state_diff_C18.
Definition state_diff_C19 : list string := state_diff "C19".
Definition state_ok_C19 : bool := is_nil state_diff_C19.
Definition state_diff_C20 : list string := state_diff "C20".
Definition state_ok_C20 : bool := is_nil state_diff_C20.

(* ---- the comparison is not vacuous: every property has packages in scope, and struct types too
   (except C20: Delaunay2d works on arrays and slices only; its state is package-level only) *)
Definition tagged (P : string) : list (list string * sstruct) := filter (fun te => mem P (fst te)) exp_structs.

Example every_scope_inhabited :
  forallb (fun pp => negb (is_nil (snd pp)) && (String.eqb (fst pp) "C20" || negb (is_nil (tagged (fst pp))))) prop_pkgs = true.
Proof. vm_compute. reflexivity. Qed.

(* ---- and it sees the changes it is meant to see (doctored inventories, independent of the source) *)
Definition doctored_var := GVar "render" "delaunayDone" "[]bool" false true ["render.Delaunay2d"].
Definition readonly_var := GVar "render" "helperTable" "[4]int" true false [].
Definition doctored_union := SStruct "sdf" "UnionSDF2"
  [("sdf", "[]sdf.SDF2"); ("min", "sdf.MinFunc"); ("blend", "bool"); ("bb", "sdf.Box2"); ("vs", "[]sdf.Interval")]
  [("vs", ["sdf.(*UnionSDF2).Evaluate"])].
Definition doctored_octree := SStruct "render" "MarchingCubesOctree"
  [("meshCells", "int")] [("meshCells", ["render.(*MarchingCubesOctree).Render"])].
Definition reordered_union := SStruct "sdf" "UnionSDF2"
  [("bb", "sdf.Box2"); ("blend", "bool"); ("min", "sdf.MinFunc"); ("sdf", "[]sdf.SDF2")] [].

(* a new written package-level variable in a package in scope *)
Example sees_new_package_state :
  is_nil (inventory_diff "C20" (pkgs_of "C20") exp_vars exp_structs [doctored_var] []) = false.
Proof. vm_compute. reflexivity. Qed.
(* ... but not a new table nothing writes *)
Example tolerates_new_readonly_table :
  is_nil (var_diff "C20" (pkgs_of "C20") exp_vars readonly_var) = true.
Proof. vm_compute. reflexivity. Qed.
(* a scratch slice moved from a local into the struct *)
Example sees_new_field :
  is_nil (struct_diff "C16" [doctored_union] (["C16"], doctored_union)) = true /\
  existsb (fun te => negb (is_nil (struct_diff "C16" [doctored_union] te))) exp_structs = true.
Proof. vm_compute. split; reflexivity. Qed.
(* an existing field that becomes written outside its constructor *)
Example sees_field_becoming_mutable :
  existsb (fun te => negb (is_nil (struct_diff "C06" [doctored_octree] te))) (tagged "C06") = true.
Proof. vm_compute. reflexivity. Qed.
(* reordering fields, dropping a setter: no difference for that type *)
Example tolerates_reordered_fields :
  forallb (fun te => negb (String.eqb (s_name (snd te)) "UnionSDF2") || is_nil (struct_diff "C16" [reordered_union] te)) exp_structs = true.
Proof. vm_compute. reflexivity. Qed.
