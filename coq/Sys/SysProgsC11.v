(* SysProgsC11.v - the C11 facts about the programs extracted from the current Go source
   (Generated/SysProgs.v, harness/sysgen): the Write and Close methods of Triangle3Buffer and
   Line2Buffer are critical sections around the bodies whose uninterrupted run is Buffer.step
   (Sys/BufferProg.v), with the thresholds found in the constant declarations. *)
From Coq Require Import List Permutation.
From Sdfx Require Import Sys.SysLang Sys.Buffer Sys.BufferProg Generated.SysProgs Generated.BufferConsts.
From Sdfx Require Import Sys.Pipeline Sys.PipeProg Sys.SysProgsC12.
Import ListNotations.

(* decided for the body the source has, whatever its spelling (Sys/BufferProg.v: buffer_method) *)
Lemma T3_Write_method : is_write_method T3_Write tBufferSize.
Proof. unfold tBufferSize. buffer_method buffer_write_sem. Qed.

Lemma T3_Close_method : is_close_method T3_Close.
Proof. buffer_method buffer_close_sem. Qed.

Lemma L2_Write_method : is_write_method L2_Write lBufferSize.
Proof. unfold lBufferSize. buffer_method buffer_write_sem. Qed.

Lemma L2_Close_method : is_close_method L2_Close.
Proof. buffer_method buffer_close_sem. Qed.

(* the statement of Props/C11.v about a Write / Close pair of the source *)
Definition buffer_source_ok (pw pc : list stmt) (N : nat) : Prop :=
  (exists bw, strip pw = Do PLock :: bw ++ [Do PUnlock; Return] /\ plain bw = true /\
              forall A (s : Buffer.state A) (items : list A),
                seqs items bw (buf s, sent s) = (buf (Buffer.step N s (Write items)), sent (Buffer.step N s (Write items)))) /\
  (exists bc, strip pc = Do PLock :: bc ++ [Do PUnlock; Return] /\ plain bc = true /\
              forall A (s : Buffer.state A),
                seqs [] bc (buf s, sent s) = (buf (Buffer.step N s Close), sent (Buffer.step N s Close))).

Lemma buffer_source_ok_intro pw pc N : is_write_method pw N -> is_close_method pc -> buffer_source_ok pw pc N.
Proof.
  intros (bw & Ew & Pw & Sw) (bc & Ec & Pc & Sc). split.
  - exists bw. split; [exact Ew|]. split; [exact Pw|]. intros A s items. apply (Sw A s items).
  - exists bc. split; [exact Ec|]. split; [exact Pc|]. intros A s. apply (Sc A N s).
Qed.

Lemma T3_source_ok : buffer_source_ok T3_Write T3_Close tBufferSize.
Proof. apply buffer_source_ok_intro; [exact T3_Write_method | exact T3_Close_method]. Qed.

Lemma L2_source_ok : buffer_source_ok L2_Write L2_Close lBufferSize.
Proof. apply buffer_source_ok_intro; [exact L2_Write_method | exact L2_Close_method]. Qed.

Lemma T3_calls_atomic : forall (A : Type) (opss : list (list (op A))) (sched : list nat),
  let c := run_sched (strip T3_Write) (strip T3_Close) sched (init_cfg opss) in
  (c_lock c = None -> c_buf c = buf (Buffer.run tBufferSize (map snd (c_log c))) /\
                      c_sent c = sent (Buffer.run tBufferSize (map snd (c_log c)))) /\
  (finished c -> c_lock c = None /\ Merge opss (map snd (c_log c))).
Proof. intros A. exact (@source_calls_atomic A _ _ _ T3_Write_method T3_Close_method). Qed.

Lemma L2_calls_atomic : forall (A : Type) (opss : list (list (op A))) (sched : list nat),
  let c := run_sched (strip L2_Write) (strip L2_Close) sched (init_cfg opss) in
  (c_lock c = None -> c_buf c = buf (Buffer.run lBufferSize (map snd (c_log c))) /\
                      c_sent c = sent (Buffer.run lBufferSize (map snd (c_log c)))) /\
  (finished c -> c_lock c = None /\ Merge opss (map snd (c_log c))).
Proof. intros A. exact (@source_calls_atomic A _ _ _ L2_Write_method L2_Close_method). Qed.

Lemma T3_multi_producer : forall (A : Type) (pss : list (list (list A))) (sched : list nat),
  let c := run_sched (strip T3_Write) (strip T3_Close) sched (init_cfg (map (map (@Write A)) pss)) in
  finished c ->
  exists m : list (list A),
    Merge pss m /\
    c_buf c = buf (Buffer.run tBufferSize (map (@Write A) m)) /\ c_sent c = sent (Buffer.run tBufferSize (map (@Write A) m)) /\
    let d := delivered (Buffer.run tBufferSize (map (@Write A) m ++ [Close])) in
    d = concat m /\ Permutation (concat (map (@concat A) pss)) d /\ Forall (fun ps => Subseq (concat ps) d) pss.
Proof. intros A. exact (@source_multi_producer A _ _ _ T3_Write_method T3_Close_method). Qed.

Lemma L2_multi_producer : forall (A : Type) (pss : list (list (list A))) (sched : list nat),
  let c := run_sched (strip L2_Write) (strip L2_Close) sched (init_cfg (map (map (@Write A)) pss)) in
  finished c ->
  exists m : list (list A),
    Merge pss m /\
    c_buf c = buf (Buffer.run lBufferSize (map (@Write A) m)) /\ c_sent c = sent (Buffer.run lBufferSize (map (@Write A) m)) /\
    let d := delivered (Buffer.run lBufferSize (map (@Write A) m ++ [Close])) in
    d = concat m /\ Permutation (concat (map (@concat A) pss)) d /\ Forall (fun ps => Subseq (concat ps) d) pss.
Proof. intros A. exact (@source_multi_producer A _ _ _ L2_Write_method L2_Close_method). Qed.

(* non-vacuity: two goroutines writing through the extracted Triangle3Buffer.Write with a
   scheduler that alternates between them statement by statement; both finish. *)
Definition demo_sched : list nat := flat_map (fun _ => [0; 1]) (seq 0 40).

Lemma demo_finishes :
  let c := run_sched (strip T3_Write) (strip T3_Close) demo_sched
                     (init_cfg [[Write [1; 2]; Write [3]]; [Write [10]; Write []; Close]]) in
  (forall i, i < 2 -> match c_th c i with Some t => t_k t = [] /\ t_cur t = None /\ t_todo t = [] | None => False end) /\
  c_lock c = None /\ length (c_log c) = 5.
Proof.
  cbv zeta. split; [|split; vm_compute; reflexivity].
  intros i Hi. destruct i as [|[|i]]; [vm_compute; auto | vm_compute; auto | exfalso; inversion Hi as [|? H]; inversion H as [|? H']; inversion H'].
Qed.

(* ------------------------------------------------------------------ buffer and sink composed *)

(* One renderer writing ws through the buffer (threshold N) and closing it puts the batches
   sent (Buffer.run N (map Write ws ++ [Close])) on the channel; a call that delivers its batches
   therefore ends with the sink holding concat ws. *)
Lemma end_to_end_intro (A : Type) (N : nat) (dp wp : list stmt) :
  (exists d w, parse_driver (strip dp) = Some d /\ parse_writer (strip wp) = Some w /\
     forall (batches : list (list A)) (c : ist A),
       ireach (w_cons w) (w_opens w) (d_returns d) None (fun _ => false) None (iinit batches) c ->
       istuck (w_cons w) (w_opens w) (d_returns d) None (fun _ => false) None c ->
       i_m c = MRet /\ i_k c = Some KExit /\ i_wg c = 0 /\ i_out c = concat batches) ->
  exists d w, parse_driver (strip dp) = Some d /\ parse_writer (strip wp) = Some w /\
    forall (ws : list (list A)) (c : ist A),
      let batches := sent (Buffer.run N (map (@Write A) ws ++ [Close])) in
      ireach (w_cons w) (w_opens w) (d_returns d) None (fun _ => false) None (iinit batches) c ->
      istuck (w_cons w) (w_opens w) (d_returns d) None (fun _ => false) None c ->
      i_m c = MRet /\ i_k c = Some KExit /\ i_wg c = 0 /\ i_out c = concat ws.
Proof.
  intros (d & w & H1 & H2 & H). exists d, w. split; [exact H1|]. split; [exact H2|].
  intros ws c batches Hr Hs. destruct (H batches c Hr Hs) as (Ha & Hb & Hc & Hd).
  repeat split; auto. rewrite Hd. unfold batches. rewrite <- (single_producer N ws).
  unfold delivered. now rewrite consume_concat.
Qed.

Lemma end_to_end (A : Type) :
  Forall (fun dwn : list stmt * list stmt * nat =>
    exists d w, parse_driver (strip (fst (fst dwn))) = Some d /\ parse_writer (strip (snd (fst dwn))) = Some w /\
      forall (ws : list (list A)) (c : ist A),
        let batches := sent (Buffer.run (snd dwn) (map (@Write A) ws ++ [Close])) in
        ireach (w_cons w) (w_opens w) (d_returns d) None (fun _ => false) None (iinit batches) c ->
        istuck (w_cons w) (w_opens w) (d_returns d) None (fun _ => false) None c ->
        i_m c = MRet /\ i_k c = Some KExit /\ i_wg c = 0 /\ i_out c = concat ws)
    [(ToTriangles, WriteTriangles, tBufferSize); (ToSTL, writeSTL, tBufferSize); (To3MF, write3MF, tBufferSize);
     (ToDXF, writeDXF, lBufferSize); (ToSVG, writeSVG, lBufferSize)].
Proof.
  pose proof (sinks_deliver A) as H.
  repeat match goal with H : Forall _ (_ :: _) |- _ => inversion H; subst; clear H end.
  repeat constructor; cbn [fst snd] in *; apply end_to_end_intro; assumption.
Qed.
