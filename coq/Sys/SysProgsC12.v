(* SysProgsC12.v - the C12 facts about the programs extracted from the current Go source
   (Generated/SysProgs.v, harness/sysgen): every To* driver, paired with the writer function
   it names, is a call that always returns (Sys/PipeProg.v). *)
From Coq Require Import List String.
From Sdfx Require Import Sys.SysLang Sys.Pipeline Sys.PipeProg Sys.PoolProg Generated.SysProgs.
Import ListNotations.
Local Open Scope string_scope.

Ltac source_call := eapply source_call_returns_intro; vm_compute; reflexivity.

Lemma ToSTL_returns A : source_call_returns A ToSTL writeSTL "writeSTL" "Triangle3Buffer".
Proof. source_call. Qed.

Lemma To3MF_returns A : source_call_returns A To3MF write3MF "write3MF" "Triangle3Buffer".
Proof. source_call. Qed.

Lemma ToDXF_returns A : source_call_returns A ToDXF writeDXF "writeDXF" "Line2Buffer".
Proof. source_call. Qed.

Lemma ToSVG_returns A : source_call_returns A ToSVG writeSVG "writeSVG" "Line2Buffer".
Proof. source_call. Qed.

Lemma ToTriangles_returns A : source_call_returns A ToTriangles WriteTriangles "WriteTriangles" "Triangle3Buffer".
Proof. source_call. Qed.

(* ---- nothing fails: every sink ends up with exactly the batches (used by Props/C11.v) *)

Lemma deliver_intro (A : Type) dp wp wn bn : source_call_returns A dp wp wn bn ->
  exists d w, parse_driver (strip dp) = Some d /\ parse_writer (strip wp) = Some w /\
    forall (batches : list (list A)) (c : ist A),
      ireach (w_cons w) (w_opens w) (d_returns d) None (fun _ => false) None (iinit batches) c ->
      istuck (w_cons w) (w_opens w) (d_returns d) None (fun _ => false) None c ->
      i_m c = MRet /\ i_k c = Some KExit /\ i_wg c = 0 /\ i_out c = List.concat batches.
Proof.
  intros (d & w & H1 & H2 & _ & _ & _ & H). exists d, w. split; [exact H1|]. split; [exact H2|]. now apply call_delivers.
Qed.

Lemma sinks_deliver (A : Type) :
  Forall (fun dw : list stmt * list stmt =>
    exists d w, parse_driver (strip (fst dw)) = Some d /\ parse_writer (strip (snd dw)) = Some w /\
      forall (batches : list (list A)) (c : ist A),
        ireach (w_cons w) (w_opens w) (d_returns d) None (fun _ => false) None (iinit batches) c ->
        istuck (w_cons w) (w_opens w) (d_returns d) None (fun _ => false) None c ->
        i_m c = MRet /\ i_k c = Some KExit /\ i_wg c = 0 /\ i_out c = List.concat batches)
    [(ToTriangles, WriteTriangles); (ToSTL, writeSTL); (To3MF, write3MF); (ToDXF, writeDXF); (ToSVG, writeSVG)].
Proof.
  repeat constructor; cbn [fst snd].
  - exact (@deliver_intro A _ _ _ _ (ToTriangles_returns A)).
  - exact (@deliver_intro A _ _ _ _ (ToSTL_returns A)).
  - exact (@deliver_intro A _ _ _ _ (To3MF_returns A)).
  - exact (@deliver_intro A _ _ _ _ (ToDXF_returns A)).
  - exact (@deliver_intro A _ _ _ _ (ToSVG_returns A)).
Qed.

(* ---- the evaluation pool *)

Lemma routines_program : strip evalRoutines = routines_prog.
Proof. reflexivity. Qed.

Lemma marching_program : strip marchingCubes = marching_prog (OnceDo "evalRoutines").
Proof. reflexivity. Qed.

(* marchingCubes starts them once per process, before it evaluates the first layer *)
Lemma source_pool (ncpu : nat) (pl : pool) :
  pool_stmts "evalRoutines" (go_count ncpu (strip evalRoutines)) (strip marchingCubes) pl
    = Some (render_pool Repaired ncpu pl true) /\
  starts_before_eval (strip marchingCubes) = true.
Proof.
  split; [|reflexivity]. rewrite marching_program, routines_program, routines_count. apply pool_program_once.
Qed.

