(* Model of the output buffering between a renderer and a sink:
     sdf/triangle3.go  Triangle3Buffer.Write / Close, WriteTriangles
     sdf/line.go       Line2Buffer.Write / Close
   The two Go types are the same text up to the item type and the threshold
   constant (tBufferSize = 256, lBufferSize = 128), so there is one model over an
   abstract item type A and an arbitrary threshold N.

   Go:                                         model:
     a.lock.Lock()                               (one Write = one atomic step)
     a.buf = append(a.buf, in...)                b := buf ++ items
     if len(a.buf) >= tBufferSize {              if N <=? length b
       a.out <- a.buf                              sent := sent ++ [b]   (rendezvous: the
       a.buf = make(...)                           buf  := []             consumer has it)
     }
     a.lock.Unlock()
   Close:
     if len(a.buf) != 0 { a.out <- a.buf; a.buf = nil }

   The consumer loops (`for ts := range c { for _, t := range ts { append } }`) are
   `consume`.  The interleaving of the consumer goroutine with the producer is the
   subject of Sys/Pipeline.v; here the channel is the list `sent` of batches handed
   over so far. *)
From Coq Require Import List Arith Lia Bool Permutation NArith.
Import ListNotations.

Set Implicit Arguments.

(* ------------------------------------------------------------------ generic list facts *)

Section ListFacts.
  Context {X : Type}.

  (* l is a subsequence of m (order kept, not necessarily contiguous) *)
  Inductive Subseq : list X -> list X -> Prop :=
  | Subseq_nil : Subseq [] []
  | Subseq_skip : forall l m y, Subseq l m -> Subseq l (y :: m)
  | Subseq_take : forall l m x, Subseq l m -> Subseq (x :: l) (x :: m).

  Lemma Subseq_nil_l m : Subseq [] m.
  Proof. induction m; [apply Subseq_nil | apply Subseq_skip; assumption]. Qed.

  Lemma Subseq_refl l : Subseq l l.
  Proof. induction l; [apply Subseq_nil | apply Subseq_take; assumption]. Qed.

  Lemma Subseq_app l1 m1 l2 m2 : Subseq l1 m1 -> Subseq l2 m2 -> Subseq (l1 ++ l2) (m1 ++ m2).
  Proof.
    induction 1 as [|l m y _ IH|l m x _ IH]; intros H2; cbn.
    - assumption.
    - apply Subseq_skip, IH, H2.
    - apply Subseq_take, IH, H2.
  Qed.

  Lemma Subseq_app_r l m p : Subseq l m -> Subseq l (p ++ m).
  Proof. intros H. induction p; cbn; [assumption | apply Subseq_skip; assumption]. Qed.

  Lemma Subseq_length l m : Subseq l m -> length l <= length m.
  Proof. induction 1; cbn; lia. Qed.

  (* m is an interleaving of the lists ls: repeatedly take the head of one of them *)
  Inductive Merge : list (list X) -> list X -> Prop :=
  | Merge_done : forall ls, Forall (fun l => l = []) ls -> Merge ls []
  | Merge_pick : forall pre x l post m,
      Merge (pre ++ l :: post) m -> Merge (pre ++ (x :: l) :: post) (x :: m).

  Lemma concat_all_nil (ls : list (list X)) : Forall (fun l => l = []) ls -> concat ls = [].
  Proof. induction 1 as [|l ls Hl _ IH]; cbn; [reflexivity | now rewrite Hl, IH]. Qed.

  Lemma Merge_perm ls m : Merge ls m -> Permutation (concat ls) m.
  Proof.
    induction 1 as [ls Hnil | pre x l post m _ IH].
    - now rewrite concat_all_nil.
    - rewrite concat_app in *. cbn in *.
      apply Permutation_sym, Permutation_cons_app, Permutation_sym. exact IH.
  Qed.

  Lemma Merge_subseq ls m : Merge ls m -> Forall (fun l => Subseq l m) ls.
  Proof.
    induction 1 as [ls Hnil | pre x l post m _ IH].
    - eapply Forall_impl; [|exact Hnil]. intros l ->. constructor.
    - apply Forall_app in IH. destruct IH as [Hpre Hrest].
      inversion Hrest as [|? ? Hl Hpost]; subst.
      apply Forall_app. split; [|constructor].
      + eapply Forall_impl; [|exact Hpre]. intros; now constructor.
      + now constructor.
      + eapply Forall_impl; [|exact Hpost]. intros; now constructor.
  Qed.

  Lemma Merge_single l : Merge [l] l.
  Proof.
    induction l as [|x l IH].
    - constructor. repeat constructor.
    - apply (Merge_pick [] x l [] IH).
  Qed.
End ListFacts.

Lemma Permutation_concat {X} (l m : list (list X)) : Permutation l m -> Permutation (concat l) (concat m).
Proof.
  induction 1 as [|x l m _ IH|x y l|l m n _ IH1 _ IH2]; cbn.
  - constructor.
  - now apply Permutation_app_head.
  - rewrite !app_assoc. apply Permutation_app_tail, Permutation_app_comm.
  - now transitivity (concat m).
Qed.

Lemma Subseq_concat {X} (l m : list (list X)) : Subseq l m -> Subseq (concat l) (concat m).
Proof.
  induction 1 as [|l m y _ IH|l m x _ IH]; cbn.
  - constructor.
  - now apply Subseq_app_r.
  - apply Subseq_app; [apply Subseq_refl | assumption].
Qed.

Lemma concat_concat {X} (l : list (list (list X))) : concat (concat l) = concat (map (@concat X) l).
Proof. induction l as [|x l IH]; cbn; [reflexivity|]. now rewrite concat_app, IH. Qed.

(* ------------------------------------------------------------------ the buffer *)

Section Buffer.
  Variable A : Type.
  Variable N : nat.      (* tBufferSize / lBufferSize; the theorems need only 1 <= N *)

  Inductive op := Write (items : list A) | Close.

  Record state := mk { buf : list A; sent : list (list A); closed : bool }.

  Definition init : state := mk [] [] false.

  Definition step (s : state) (o : op) : state :=
    match o with
    | Write items =>
        let b := buf s ++ items in
        if N <=? length b                       (* len(a.buf) >= tBufferSize *)
        then mk [] (sent s ++ [b]) (closed s)
        else mk b (sent s) (closed s)
    | Close =>
        match buf s with                        (* len(a.buf) != 0 *)
        | [] => mk [] (sent s) true
        | _ :: _ => mk [] (sent s ++ [buf s]) true
        end
    end.

  Definition run_from (s : state) (ops : list op) : state := fold_left step ops s.
  Definition run (ops : list op) : state := run_from init ops.

  (* what the operations asked to be written, in order *)
  Definition writes_of (ops : list op) : list A :=
    flat_map (fun o => match o with Write i => i | Close => [] end) ops.

  (* consumer loops of WriteTriangles / writeSTL / write3MF / writeDXF / writeSVG *)
  Definition consume (batches : list (list A)) : list A :=
    fold_left (fun acc ts => fold_left (fun acc t => acc ++ [t]) ts acc) batches [].

  Definition delivered (s : state) : list A := consume (sent s).

  Lemma inner_loop (ts acc : list A) : fold_left (fun acc t => acc ++ [t]) ts acc = acc ++ ts.
  Proof.
    revert acc. induction ts as [|t ts IH]; intros acc; cbn.
    - now rewrite app_nil_r.
    - rewrite IH, <- app_assoc. reflexivity.
  Qed.

  Lemma consume_from (batches : list (list A)) (acc : list A) :
    fold_left (fun acc ts => fold_left (fun acc t => acc ++ [t]) ts acc) batches acc = acc ++ concat batches.
  Proof.
    revert acc. induction batches as [|b bs IH]; intros acc; cbn.
    - now rewrite app_nil_r.
    - rewrite IH, inner_loop, <- app_assoc. reflexivity.
  Qed.

  Lemma consume_concat batches : consume batches = concat batches.
  Proof. unfold consume. now rewrite consume_from. Qed.

  (* ---- the invariant: nothing is lost, duplicated or reordered, at any time *)

  Lemma step_invariant s o :
    concat (sent (step s o)) ++ buf (step s o)
    = (concat (sent s) ++ buf s) ++ match o with Write i => i | Close => [] end.
  Proof.
    destruct o as [items|]; cbn.
    - destruct (N <=? length (buf s ++ items)); cbn.
      + rewrite concat_app. cbn. rewrite !app_nil_r, app_assoc. reflexivity.
      + now rewrite app_assoc.
    - destruct (buf s) as [|x b] eqn:E; cbn.
      + now rewrite !app_nil_r.
      + rewrite concat_app. cbn. now rewrite !app_nil_r.
  Qed.

  Lemma run_from_invariant ops s :
    concat (sent (run_from s ops)) ++ buf (run_from s ops) = (concat (sent s) ++ buf s) ++ writes_of ops.
  Proof.
    revert s. induction ops as [|o ops IH]; intros s; cbn.
    - now rewrite app_nil_r.
    - unfold run_from in *. cbn. rewrite IH, step_invariant, <- app_assoc. reflexivity.
  Qed.

  Theorem buffer_invariant ops :
    concat (sent (run ops)) ++ buf (run ops) = writes_of ops.
  Proof. unfold run. now rewrite run_from_invariant. Qed.

  Lemma run_from_app s ops1 ops2 : run_from s (ops1 ++ ops2) = run_from (run_from s ops1) ops2.
  Proof. unfold run_from. apply fold_left_app. Qed.

  Lemma buf_after_close s : buf (step s Close) = [].
  Proof. cbn. destruct (buf s); reflexivity. Qed.

  Lemma closed_after_close s : closed (step s Close) = true.
  Proof. cbn. destruct (buf s); reflexivity. Qed.

  Lemma writes_of_app o1 o2 : writes_of (o1 ++ o2) = writes_of o1 ++ writes_of o2.
  Proof. unfold writes_of. apply flat_map_app. Qed.

  Lemma writes_of_map_Write ws : writes_of (map Write ws) = concat ws.
  Proof. induction ws as [|w ws IH]; cbn; [reflexivity | f_equal; exact IH]. Qed.

  (* after the final Close everything written so far has been handed to the consumer *)
  Theorem delivered_after_close ops :
    delivered (run (ops ++ [Close])) = writes_of ops.
  Proof.
    unfold delivered. rewrite consume_concat.
    pose proof (buffer_invariant (ops ++ [Close])) as H.
    unfold run in *. rewrite run_from_app in *. cbn [run_from fold_left] in *.
    rewrite buf_after_close, app_nil_r in H. rewrite H, writes_of_app. cbn. now rewrite app_nil_r.
  Qed.

  Theorem single_producer ws :
    delivered (run (map Write ws ++ [Close])) = concat ws.
  Proof. rewrite delivered_after_close. apply writes_of_map_Write. Qed.

  (* a second Close (or a Close with nothing pending) sends nothing *)
  Lemma close_idempotent s : step (step s Close) Close = step s Close.
  Proof. cbn. destruct (buf s); reflexivity. Qed.

  (* ---- shape of the batches on the channel *)

  Definition shape_ok (s : state) : Prop :=
    length (buf s) < N /\ Forall (fun b => b <> []) (sent s).

  Lemma step_shape s o : 1 <= N -> shape_ok s -> shape_ok (step s o).
  Proof.
    intros HN [Hb Hs]. unfold shape_ok. destruct o as [items|]; cbn.
    - destruct (N <=? length (buf s ++ items)) eqn:E; cbn.
      + split; [lia|]. apply Forall_app. split; [assumption|]. constructor; [|constructor].
        apply Nat.leb_le in E. intros Hnil. rewrite Hnil in E. cbn in E. lia.
      + apply Nat.leb_gt in E. split; assumption.
    - destruct (buf s) as [|x b] eqn:E; cbn.
      + split; [lia | assumption].
      + split; [lia|]. apply Forall_app. split; [assumption|]. constructor; [discriminate | constructor].
  Qed.

  Theorem batches_shape ops : 1 <= N -> shape_ok (run ops).
  Proof.
    intros HN. unfold run.
    assert (H : forall s, shape_ok s -> shape_ok (run_from s ops)).
    { induction ops as [|o ops IH]; intros s Hs; cbn; [assumption|]. apply IH, step_shape; assumption. }
    apply H. unfold shape_ok. cbn. split; [lia | constructor].
  Qed.

  (* every batch handed over by a Write holds at least N items *)
  Definition full_batches (s : state) : Prop := Forall (fun b => N <= length b) (sent s).

  Lemma writes_send_full ws : full_batches (run (map Write ws)).
  Proof.
    unfold run.
    assert (H : forall s, full_batches s -> full_batches (run_from s (map Write ws))).
    { induction ws as [|w ws IH]; intros s Hs; cbn; [assumption|]. apply IH.
      unfold full_batches in *. cbn. destruct (N <=? length (buf s ++ w)) eqn:E; cbn; [|assumption].
      apply Forall_app. split; [assumption|]. constructor; [now apply Nat.leb_le | constructor]. }
    apply H. constructor.
  Qed.

  (* an empty Write changes nothing (it cannot trigger a flush because |buf| < N) *)
  Lemma empty_write_noop s : 1 <= N -> shape_ok s -> step s (Write []) = s.
  Proof.
    intros HN [Hb _]. cbn. rewrite app_nil_r.
    destruct (N <=? length (buf s)) eqn:E; [apply Nat.leb_le in E; lia|]. now destruct s.
  Qed.

  (* ---- several producers: each Write is atomic (mutex), the scheduler picks the order *)

  Theorem multi_producer (pss : list (list (list A))) (m : list (list A)) :
    Merge pss m ->
    let d := delivered (run (map Write m ++ [Close])) in
    d = concat m /\
    Permutation (concat (map (@concat A) pss)) d /\
    Forall (fun ps => Subseq (concat ps) d) pss.
  Proof.
    intros HM d. subst d. rewrite single_producer. split; [reflexivity|]. split.
    - rewrite <- concat_concat. apply Permutation_concat, Merge_perm, HM.
    - apply Merge_subseq in HM. eapply Forall_impl; [|exact HM]. intros ps. apply Subseq_concat.
  Qed.
End Buffer.

Arguments Write {A} items.
Arguments Close {A}.

(* ------------------------------------------------------------------ STL header count *)

(* writeSTL: `var count uint32; ... count++` once per triangle written *)
Definition stl_count {A} (items : list A) : N :=
  fold_left (fun c _ => ((c + 1) mod 2 ^ 32)%N) items 0%N.

Lemma stl_count_from {A} (items : list A) (c : N) :
  (c < 2 ^ 32)%N ->
  fold_left (fun c _ => ((c + 1) mod 2 ^ 32)%N) items c = ((c + N.of_nat (length items)) mod 2 ^ 32)%N.
Proof.
  revert c. induction items as [|x l IH]; intros c Hc; cbn [fold_left length].
  - cbn. rewrite N.add_0_r. symmetry. now apply N.mod_small.
  - rewrite IH by (apply N.mod_lt; discriminate).
    rewrite Nat2N.inj_succ, N.add_mod_idemp_l by discriminate. f_equal. lia.
Qed.

Theorem stl_count_field {A} (items : list A) : stl_count items = (N.of_nat (length items) mod 2 ^ 32)%N.
Proof. unfold stl_count. rewrite stl_count_from by reflexivity. reflexivity. Qed.

(* ------------------------------------------------------------------ outcome checker used by the cases files *)

(* Items are numbers; the harness numbers the items of producer p as p * 2^20 + i.
   Given the scripted writes of every producer and the sequence a sink delivered,
   `parse` reconstructs the order in which the Writes took the mutex (each Write's
   items are contiguous in the delivered sequence) or fails. *)
Section Checker.
  Variable tag : N -> nat.

  Fixpoint take_prefix (w d : list N) : option (list N) :=
    match w, d with
    | [], _ => Some d
    | x :: w', y :: d' => if N.eqb x y then take_prefix w' d' else None
    | _ :: _, [] => None
    end.

  Lemma take_prefix_spec w d r : take_prefix w d = Some r -> d = w ++ r.
  Proof.
    revert d. induction w as [|x w IH]; intros d H; cbn in *.
    - now inversion H.
    - destruct d as [|y d]; [discriminate|]. destruct (N.eqb_spec x y); [|discriminate].
      subst. cbn. f_equal. now apply IH.
  Qed.

  Fixpoint replace {X} (i : nat) (x : X) (l : list X) : list X :=
    match l, i with
    | [], _ => []
    | _ :: r, 0 => x :: r
    | y :: r, S j => y :: replace j x r
    end.

  Lemma nth_error_split_replace {X} (l : list X) i x y :
    nth_error l i = Some x -> exists pre post, l = pre ++ x :: post /\ replace i y l = pre ++ y :: post.
  Proof.
    revert i. induction l as [|z l IH]; intros [|i] H; cbn in *; try discriminate.
    - inversion H; subst. now exists [], l.
    - destruct (IH i H) as (pre & post & -> & ->). now exists (z :: pre), post.
  Qed.

  Definition is_nil {X} (l : list X) : bool := match l with [] => true | _ => false end.

  Fixpoint parse (fuel : nat) (pss : list (list (list N))) (d : list N) : option (list (list N)) :=
    match d with
    | [] => if forallb is_nil pss then Some [] else None
    | x :: _ =>
        match fuel with
        | 0 => None
        | S f =>
            match nth_error pss (tag x) with
            | Some (w :: ws) =>
                match take_prefix w d with
                | Some rest =>
                    match parse f (replace (tag x) ws pss) rest with
                    | Some m => Some (w :: m)
                    | None => None
                    end
                | None => None
                end
            | _ => None
            end
        end
    end.

  Lemma parse_sound fuel pss d m : parse fuel pss d = Some m -> Merge pss m /\ concat m = d.
  Proof.
    revert pss d m. induction fuel as [|f IH]; intros pss d m H.
    - destruct d as [|x d]; cbn in H; [|discriminate].
      destruct (forallb is_nil pss) eqn:E; [|discriminate]. inversion H; subst. split; [|reflexivity].
      constructor. apply Forall_forall. intros l Hl.
      rewrite forallb_forall in E. specialize (E l Hl). now destruct l.
    - destruct d as [|x d].
      + cbn in H. destruct (forallb is_nil pss) eqn:E; [|discriminate]. inversion H; subst.
        split; [|reflexivity]. constructor. apply Forall_forall. intros l Hl.
        rewrite forallb_forall in E. specialize (E l Hl). now destruct l.
      + cbn [parse] in H.
        destruct (nth_error pss (tag x)) as [[|w ws]|] eqn:En; try discriminate.
        destruct (take_prefix w (x :: d)) as [rest|] eqn:Et; [|discriminate].
        destruct (parse f (replace (tag x) ws pss) rest) as [m'|] eqn:Ep; [|discriminate].
        inversion H; subst m. clear H.
        destruct (IH _ _ _ Ep) as [HM Hc].
        destruct (nth_error_split_replace _ _ ws En) as (pre & post & Hp & Hr).
        rewrite Hr in HM. subst pss. split.
        * now apply Merge_pick.
        * cbn. rewrite Hc. symmetry. now apply take_prefix_spec.
  Qed.
End Checker.

Definition not_nil {X} (l : list X) : bool := match l with [] => false | _ => true end.

(* empty Writes are no-ops of the buffer (empty_write_noop): drop them before matching *)
Definition drop_empty (pss : list (list (list N))) : list (list (list N)) := map (filter not_nil) pss.

Lemma concat_filter_not_nil {X} (l : list (list X)) : concat (filter not_nil l) = concat l.
Proof. induction l as [|[|x w] l IH]; cbn; [reflexivity | assumption | now rewrite IH]. Qed.

Lemma concat_drop_empty pss : map (@concat N) (drop_empty pss) = map (@concat N) pss.
Proof. unfold drop_empty. rewrite map_map. apply map_ext. intros. apply concat_filter_not_nil. Qed.

Definition item_tag (x : N) : nat := N.to_nat (x / 2 ^ 20).

Definition reconstruct (pss : list (list (list N))) (d : list N) : option (list (list N)) :=
  parse item_tag (S (length d)) (drop_empty pss) d.

(* a delivered sequence accepted by the checker is one the theorems allow *)
Theorem checker_sound pss d m :
  reconstruct pss d = Some m ->
  Merge (drop_empty pss) m /\ concat m = d /\
  Permutation (concat (map (@concat N) pss)) d /\
  Forall (fun ps => Subseq (concat ps) d) pss.
Proof.
  intros H. apply parse_sound in H. destruct H as [HM Hc]. split; [assumption|]. split; [assumption|].
  subst d. split.
  - rewrite <- concat_drop_empty, <- concat_concat. apply Permutation_concat, Merge_perm, HM.
  - apply Merge_subseq in HM. unfold drop_empty in HM. rewrite Forall_map in HM.
    eapply Forall_impl; [|exact HM]. intros ps Hs. cbn in Hs.
    apply Subseq_concat in Hs. now rewrite concat_filter_not_nil in Hs.
Qed.

(* ------------------------------------------------------------------ cases *)

(* run-length coded item lists: (first, count) stands for first, first+1, ... *)
Fixpoint expand_run (start : N) (n : nat) : list N :=
  match n with 0 => [] | S k => start :: expand_run (start + 1)%N k end.
Definition expand (runs : list (N * nat)) : list N := flat_map (fun r => expand_run (fst r) (snd r)) runs.

(* a case: id, threshold, producers (each a list of Writes, run-length coded),
   delivered sequence (run-length coded), batch lengths seen on the channel
   (None when the sink hides the channel), count field of the file (None when the
   sink has none) *)
Definition case := (N * nat * list (list (list (N * nat))) * list (N * nat) * option (list nat) * option N)%type.

Fixpoint list_eqb {X} (eqb : X -> X -> bool) (l m : list X) : bool :=
  match l, m with
  | [], [] => true
  | x :: l', y :: m' => eqb x y && list_eqb eqb l' m'
  | _, _ => false
  end.

Definition opt_eqb {X} (eqb : X -> X -> bool) (observed : option X) (model : X) : bool :=
  match observed with None => true | Some o => eqb o model end.

Definition case_ok (c : case) : bool :=
  let '(id, n, pss, d, batches, count) := c in
  let pss := map (map expand) pss in
  let d := expand d in
  match reconstruct pss d with
  | None => false
  | Some m =>
      let s := run n (map Write m ++ [Close]) in
      list_eqb N.eqb (delivered s) d
      && opt_eqb (list_eqb Nat.eqb) batches (map (@length N) (sent s))
      && opt_eqb N.eqb count (stl_count d)
  end.

Definition mismatches (cs : list case) : list N :=
  map (fun c => let '(id, _, _, _, _, _) := c in id) (filter (fun c => negb (case_ok c)) cs).

(* A scripted operation sequence on the real buffer (one goroutine, the harness owns the
   channel): Some n = Write of the next n numbered items, None = Close; observed: the
   batches that appeared on the channel, in order, with their contents. *)
Fixpoint number_ops (next : N) (ops : list (option nat)) : list (op N) :=
  match ops with
  | [] => []
  | Some n :: r => Write (expand_run next n) :: number_ops (next + N.of_nat n)%N r
  | None :: r => Close :: number_ops next r
  end.

Definition opcase := (N * nat * list (option nat) * list (list (N * nat)))%type.

Definition opcase_ok (c : opcase) : bool :=
  let '(id, n, ops, observed) := c in
  list_eqb (list_eqb N.eqb) (sent (run n (number_ops 0%N ops))) (map expand observed).

Definition mismatches_ops (cs : list opcase) : list N :=
  map (fun c => let '(id, _, _, _) := c in id) (filter (fun c => negb (opcase_ok c)) cs).
