(* SysLang.v - the deep-embedded mini language in which harness/sysgen writes down the
   control skeleton of the concurrency / pipeline code of the Go source
   (coq/Generated/SysProgs.v, regenerated from /repo on every run):

     sdf/triangle3.go  Triangle3Buffer.Write / Close, WriteTriangles
     sdf/line.go       Line2Buffer.Write / Close
     render/render.go  ToTriangles, ToSTL, To3MF, ToDXF, ToSVG
     render/stl.go 3mf.go dxf.go svg.go   writeSTL, write3MF, writeDXF, writeSVG
     render/march3.go  evalRoutines, layerYZ.Evaluate, marchingCubes

   A program is the list of statements of the Go function body IN SOURCE ORDER.  Every Go
   statement is either one of the protocol statements below or a `Data` statement; the
   extractor classifies a statement as Data only if it mentions none of the tracked objects
   of the function (mutex, buffer slice, channels, WaitGroup, request struct, error results),
   starts no goroutine, defers nothing and contains no return / break / continue / goto /
   panic; anything else it does not recognise aborts the translation (broken tie).

   The interpreters are in Sys/BufferProg.v (C11), Sys/PipeProg.v (C12) and
   Sys/SchedProg.v (C09); each of them gives a meaning to the statements of its own area
   and none to the others (a program using a foreign statement has no interpretation and
   the obligation that mentions it fails). *)
From Coq Require Import List String Arith Bool.
Import ListNotations.

Inductive cmp := CGe | CGt | CLe | CLt | CEq | CNe.

(* `len(x) c n` *)
Definition cmp_nat (c : cmp) (a n : nat) : bool :=
  match c with
  | CGe => n <=? a
  | CGt => n <? a
  | CLe => a <=? n
  | CLt => a <? n
  | CEq => a =? n
  | CNe => negb (a =? n)
  end.

Inductive prim :=
(* --- the buffers (receiver a; fields: mutex, slice, channel) *)
| PLock                       (* a.lock.Lock() *)
| PUnlock                     (* a.lock.Unlock() *)
| PAppendIn                   (* a.buf = append(a.buf, in...) *)
| PSendBuf                    (* a.out <- a.buf *)
| PResetBuf                   (* a.buf = make(T, 0, cap)  |  a.buf = nil *)
(* --- the To* drivers *)
| PCreate (writer : string)   (* output[, err] := writeXXX(&wg, ...) *)
| PRender (buffer : string)   (* r.Render(s, sdf.NewXBuffer(output)) *)
| PCloseChan                  (* close(output) *)
| PWgWait                     (* wg.Wait() *)
(* --- the writeXXX functions, before the go statement *)
| POpen (what : string)       (* a call that may fail: os.Create, go3mf.CreateWriter, the empty header write *)
| PMakeChan (cap : nat)       (* c := make(chan T [, cap]) *)
| PWgAdd (n : nat)            (* wg.Add(n) *)
(* --- the writer goroutines *)
| PWgDone                     (* wg.Done() *)
| PCloseFile                  (* f.Close() *)
| PWriteItem                  (* a call inside the item loop whose error result is tested: the write of one record *)
| PAccItem                    (* an item loop body made of Data statements only: the item is added to the sink's in-memory data *)
| PCount                      (* count++ *)
| PSetHdr                     (* hdr.Count = count *)
| PFinal (what : string)      (* a call after the loops whose error result is tested: seek, header rewrite, encode, save *)
(* --- render/march3.go *)
| PEvalStore                  (* r.out[i] = r.fn(p) *)
| PReqDone                    (* r.wg.Done() *)
| PNewReq                     (* eReq := evalReq{wg: new(sync.WaitGroup), fn: .., out: <the layer array>} *)
| PResetPts                   (* eReq.p = make([]v3.Vec, 0, batchSize) *)
| PAppendPt                   (* eReq.p = append(eReq.p, p) *)
| PReqAdd (n : nat)           (* eReq.wg.Add(n) *)
| PSendReq                    (* evalProcessCh <- eReq *)
| PShiftOut (n : nat)         (* eReq.out = eReq.out[n:] *)
| PReqWait                    (* eReq.wg.Wait() *)
| PCall (f : string)          (* f()  - a call of another target function *)
| PLayerEval                  (* l.Evaluate(s, x) *)
| POutWrite.                  (* output.Write(...) *)

Inductive stmt :=
| Data (what : string)
| Do (p : prim)
| IfLen (c : cmp) (n : nat) (th el : list stmt)   (* if len(<the tracked slice>) c n { th } else { el } *)
| IfErr (p : prim) (handler : list stmt)          (* x, err := p(); if err != nil { handler }   (both spellings) *)
| RangeChan (body : list stmt)                    (* for x := range <channel> { body } *)
| RangeItems (body : list stmt)                   (* for _, t := range x { body }   (x: what the channel delivered) *)
| Drain                                           (* for range <channel> { } *)
| ForPoints (body : list stmt)                    (* for y .. { for z .. { body } }  over the (ny+1)*(nz+1) points of a layer *)
| ForCPU (body : list stmt)                       (* for i := 0; i < runtime.NumCPU(); i++ { body } *)
| ForSteps (body : list stmt)                     (* for x := 0; x < n; x++ { body }  (any other counted loop) *)
| Go (body : list stmt)                           (* go func() { body }() *)
| OnceDo (f : string)                             (* <sync.Once>.Do(f) *)
| Defer (p : prim)                                (* defer p() *)
| Return                                          (* return [values]           (writeXXX: return c, nil) *)
| ReturnErr.                                      (* return nil, err *)

(* ------------------------------------------------------------------ decidable equality *)

Definition cmp_eqb (a b : cmp) : bool :=
  match a, b with
  | CGe, CGe | CGt, CGt | CLe, CLe | CLt, CLt | CEq, CEq | CNe, CNe => true
  | _, _ => false
  end.

Lemma cmp_eqb_eq a b : cmp_eqb a b = true -> a = b.
Proof. destruct a, b; cbn; intros H; try discriminate; reflexivity. Qed.

Definition prim_eqb (a b : prim) : bool :=
  match a, b with
  | PLock, PLock | PUnlock, PUnlock | PAppendIn, PAppendIn | PSendBuf, PSendBuf | PResetBuf, PResetBuf
  | PCloseChan, PCloseChan | PWgWait, PWgWait | PWgDone, PWgDone | PCloseFile, PCloseFile
  | PWriteItem, PWriteItem | PAccItem, PAccItem | PCount, PCount | PSetHdr, PSetHdr
  | PEvalStore, PEvalStore | PReqDone, PReqDone | PNewReq, PNewReq | PResetPts, PResetPts | PAppendPt, PAppendPt
  | PSendReq, PSendReq | PReqWait, PReqWait | PLayerEval, PLayerEval | POutWrite, POutWrite => true
  | PCreate x, PCreate y | PRender x, PRender y | POpen x, POpen y | PFinal x, PFinal y | PCall x, PCall y => String.eqb x y
  | PMakeChan x, PMakeChan y | PWgAdd x, PWgAdd y | PReqAdd x, PReqAdd y | PShiftOut x, PShiftOut y => Nat.eqb x y
  | _, _ => false
  end.

Lemma prim_eqb_eq a b : prim_eqb a b = true -> a = b.
Proof.
  destruct a, b; cbn; intros H; try discriminate; try reflexivity;
    try (apply String.eqb_eq in H; now subst); try (apply Nat.eqb_eq in H; now subst).
Qed.

(* ------------------------------------------------------------------ removing the Data statements *)

(* Data statements have no meaning for the protocols; the interpreters run `strip p`. *)
Fixpoint strip1 (s : stmt) : list stmt :=
  match s with
  | Data _ => []
  | IfLen c n th el => [IfLen c n (flat_map strip1 th) (flat_map strip1 el)]
  | IfErr p h => [IfErr p (flat_map strip1 h)]
  | RangeChan b => [RangeChan (flat_map strip1 b)]
  | RangeItems b => [RangeItems (flat_map strip1 b)]
  | ForPoints b => [ForPoints (flat_map strip1 b)]
  | ForCPU b => [ForCPU (flat_map strip1 b)]
  | ForSteps b => [ForSteps (flat_map strip1 b)]
  | Go b => [Go (flat_map strip1 b)]
  | s => [s]
  end.

Definition strip (p : list stmt) : list stmt := flat_map strip1 p.

