(* Sched.v - C09: the parallel layer evaluation of render/march3.go is independent of the schedule.

   1. batch_plan: the batches (offset, points) layerYZ.Evaluate sends to the workers,
      following the Go loop statement by statement; they cover the layer exactly,
      with disjoint index ranges, for any batch size >= 1 and any layer size.
   2. A machine with a shared request queue, any number of workers, requests of other
      renders arriving at any time; a schedule is an arbitrary list of actions.
      Whatever the schedule, once the layer's WaitGroup is released the layer array is
      map f points; the only values that ever appear in it are its old content and
      the correct ones.
   3. A render = layers evaluated one after the other, then a function of the layer
      arrays: any two schedule families give the same output.
   4. The whitelist of effects (Generated/Effects.v) under which 1-3 describe the code. *)
From Coq Require Import List String Bool Arith NArith Lia.
From Sdfx Require Import Sys.Lockset.
Import ListNotations.
Local Open Scope nat_scope.

(* ------------------------------------------------------------------ 1. the batch plan *)

Section Plan.
  Variable Pt : Type.

  Definition batch := (nat * list Pt)%type.       (* how far eReq.out was shifted; eReq.p *)

  (* for y, for z { eReq.p = append(eReq.p, p)
                    if len(eReq.p) == batchSize { send; eReq.out = eReq.out[batchSize:]; eReq.p = new } }
     if len(eReq.p) > 0 { send }                                                          *)
  Fixpoint plan_loop (B : nat) (pts : list Pt) (off : nat) (cur : list Pt) (acc : list batch) : list batch :=
    match pts with
    | [] => if 0 <? List.length cur then acc ++ [(off, cur)] else acc
    | p :: r =>
        let cur' := cur ++ [p] in
        if List.length cur' =? B then plan_loop B r (off + B) [] (acc ++ [(off, cur')])
        else plan_loop B r off cur' acc
    end.

  Definition batch_plan (B : nat) (pts : list Pt) : list batch := plan_loop B pts 0 [] [].

  Definition flat (l : list batch) : list Pt := List.concat (map snd l).

  (* the offset of each batch is the number of points in the batches before it *)
  Fixpoint offsets_ok (start : nat) (l : list batch) : Prop :=
    match l with
    | [] => True
    | (o, b) :: r => o = start /\ offsets_ok (start + List.length b) r
    end.

  Definition sizes_ok (B : nat) (l : list batch) : Prop :=
    Forall (fun b => 1 <= List.length (snd b) <= B) l.

  Lemma flat_app : forall l1 l2, flat (l1 ++ l2) = flat l1 ++ flat l2.
  Proof. intros. unfold flat. now rewrite map_app, concat_app. Qed.

  Lemma offsets_ok_app : forall l1 l2 s,
    offsets_ok s (l1 ++ l2) <-> offsets_ok s l1 /\ offsets_ok (s + List.length (flat l1)) l2.
  Proof.
    induction l1 as [| [o b] r IH]; intros l2 s; cbn [app offsets_ok].
    - unfold flat. cbn. rewrite Nat.add_0_r. tauto.
    - rewrite IH. unfold flat. cbn [map snd List.concat]. rewrite app_length.
      fold (flat r). rewrite Nat.add_assoc. tauto.
  Qed.

  Lemma plan_loop_spec : forall B, 1 <= B -> forall pts off cur acc,
    List.length cur < B -> offsets_ok 0 acc -> List.length (flat acc) = off -> sizes_ok B acc ->
    flat (plan_loop B pts off cur acc) = flat acc ++ cur ++ pts /\
    offsets_ok 0 (plan_loop B pts off cur acc) /\ sizes_ok B (plan_loop B pts off cur acc).
  Proof.
    intros B HB. induction pts as [| p r IH]; intros off cur acc Hcur Hoff Htot Hsz; cbn [plan_loop].
    - destruct (0 <? List.length cur) eqn:E.
      + apply Nat.ltb_lt in E. split; [| split].
        * rewrite flat_app. unfold flat at 2. cbn. now rewrite !app_nil_r.
        * apply offsets_ok_app. split; [exact Hoff |]. cbn. split; [lia | exact I].
        * apply Forall_app. split; [exact Hsz |]. constructor; [cbn; lia | constructor].
      + apply Nat.ltb_ge in E. assert (cur = []) by (destruct cur; [reflexivity | cbn in E; lia]). subst cur.
        cbn. rewrite app_nil_r. auto.
    - assert (Hlen : List.length (cur ++ [p]) = S (List.length cur)) by (rewrite app_length; cbn; lia).
      destruct (List.length (cur ++ [p]) =? B) eqn:E.
      + apply Nat.eqb_eq in E.
        destruct (IH (off + B) [] (acc ++ [(off, cur ++ [p])])) as (A1 & A2 & A3).
        * cbn. lia.
        * apply offsets_ok_app. split; [exact Hoff |]. cbn. split; [lia | exact I].
        * rewrite flat_app, app_length. unfold flat at 2. cbn. rewrite app_nil_r. lia.
        * apply Forall_app. split; [exact Hsz |]. constructor; [cbn; lia | constructor].
        * split; [| split; assumption]. rewrite A1, flat_app. unfold flat at 2. cbn.
          rewrite app_nil_r. rewrite <- !app_assoc. reflexivity.
      + apply Nat.eqb_neq in E.
        destruct (IH off (cur ++ [p]) acc) as (A1 & A2 & A3); try assumption; [lia |].
        split; [| split; assumption]. rewrite A1. rewrite <- !app_assoc. reflexivity.
  Qed.

  Lemma offsets_nth : forall l s, offsets_ok s l -> forall off b, In (off, b) l ->
    s <= off /\ forall i, i < List.length b -> nth_error (flat l) (off - s + i) = nth_error b i.
  Proof.
    induction l as [| [o b0] r IH]; intros s Hok off b Hin; [contradiction |].
    cbn [offsets_ok] in Hok. destruct Hok as [Ho Hr]. subst o. unfold flat. cbn [map snd List.concat]. fold (flat r).
    destruct Hin as [E | Hin].
    - inversion E; subst. split; [lia |]. intros i Hi. replace (off - off + i) with i by lia.
      now apply nth_error_app1.
    - destruct (IH _ Hr off b Hin) as [Hle Hn]. split; [lia |]. intros i Hi.
      rewrite nth_error_app2 by lia. rewrite <- (Hn i Hi). f_equal. lia.
  Qed.

  Lemma offsets_cover : forall l s, offsets_ok s l -> forall j, j < List.length (flat l) ->
    exists off b i, In (off, b) l /\ i < List.length b /\ s + j = off + i.
  Proof.
    induction l as [| [o b0] r IH]; intros s Hok j Hj; [cbn in Hj; lia |].
    cbn [offsets_ok] in Hok. destruct Hok as [Ho Hr]. subst o.
    unfold flat in Hj. cbn [map snd List.concat] in Hj. fold (flat r) in Hj. rewrite app_length in Hj.
    destruct (Nat.lt_ge_cases j (List.length b0)) as [Hlt | Hge].
    - exists s, b0, j. split; [left; reflexivity | split; [exact Hlt | reflexivity]].
    - destruct (IH _ Hr (j - List.length b0)) as (off & b & i & Hin & Hi & He); [lia |].
      exists off, b, i. split; [right; exact Hin | split; [exact Hi | lia]].
  Qed.

  Lemma offsets_disjoint : forall l1 o1 b1 l2 o2 b2 l3 s,
    offsets_ok s (l1 ++ (o1, b1) :: l2 ++ (o2, b2) :: l3) -> o1 + List.length b1 <= o2.
  Proof.
    intros l1 o1 b1 l2 o2 b2 l3 s H.
    apply offsets_ok_app in H. destruct H as [_ H]. cbn [offsets_ok] in H. destruct H as [E1 H]. subst o1.
    apply offsets_ok_app in H. destruct H as [_ H]. cbn [offsets_ok] in H. destruct H as [E2 _]. lia.
  Qed.

  (* The batches cover the layer exactly: concatenated they are the points in order, every
     offset is the number of points before it (so batch k writes [off_k, off_k + len_k), these
     ranges are pairwise disjoint and their union is [0, n)), no batch is empty or longer than B. *)
  Theorem batch_plan_covers : forall B pts, 1 <= B ->
    flat (batch_plan B pts) = pts /\
    offsets_ok 0 (batch_plan B pts) /\
    sizes_ok B (batch_plan B pts) /\
    (forall off b, In (off, b) (batch_plan B pts) ->
       forall i, i < List.length b -> nth_error pts (off + i) = nth_error b i) /\
    (forall j, j < List.length pts ->
       exists off b i, In (off, b) (batch_plan B pts) /\ i < List.length b /\ j = off + i) /\
    (forall l1 o1 b1 l2 o2 b2 l3, batch_plan B pts = l1 ++ (o1, b1) :: l2 ++ (o2, b2) :: l3 ->
       o1 + List.length b1 <= o2).
  Proof.
    intros B pts HB. unfold batch_plan.
    destruct (plan_loop_spec B HB pts 0 [] []) as (A1 & A2 & A3); [cbn; lia | exact I | reflexivity | constructor |].
    cbn in A1. split; [exact A1 |]. split; [exact A2 |]. split; [exact A3 |]. split; [| split].
    - intros off b Hin i Hi. destruct (offsets_nth _ _ A2 off b Hin) as [_ Hn].
      rewrite <- (Hn i Hi). rewrite A1. f_equal. lia.
    - intros j Hj. rewrite <- A1 in Hj. destruct (offsets_cover _ _ A2 j Hj) as (off & b & i & H1 & H2 & H3).
      exists off, b, i. auto.
    - intros l1 o1 b1 l2 o2 b2 l3 E. rewrite E in A2. exact (offsets_disjoint _ _ _ _ _ _ _ _ A2).
  Qed.
End Plan.

(* ------------------------------------------------------------------ 2. workers, queue, schedules *)

Section Machine.
  Variable Pt Val : Type.
  Variable f : Pt -> Val.              (* s.Evaluate: a function of the point (C10, and no rand/time/map-range in Effects.v) *)
  Variable B : nat.
  Hypothesis HB : 1 <= B.
  Variable points : list Pt.           (* the (ny+1)*(nz+1) points of the layer in loop order *)
  Variable mine : nat.                 (* identity of this layer's array (l.val1) *)

  Record req : Type := mkReq { r_arr : nat; r_off : nat; r_pts : list Pt; r_fn : Pt -> Val }.

  Definition memory := nat -> nat -> Val.      (* array, index *)
  Definition set (m : memory) (a j : nat) (v : Val) : memory :=
    fun a' j' => if (a' =? a) && (j' =? j) then v else m a' j'.

  Record st : Type := mkSt {
    s_q : list req;                              (* evalProcessCh *)
    s_pend : list req;                           (* batches the layer loop has not sent yet *)
    s_w : nat -> option (req * nat);             (* worker k: the request it is processing and its loop index *)
    s_m : memory;
    s_wr : list nat;                             (* ghost: indices of this layer written so far *)
    s_done : list req                            (* ghost: requests whose wg.Done() has been called *)
  }.

  Inductive action : Type :=
  | ASend                    (* evalProcessCh <- eReq (this layer) *)
  | AForeign (r : req)       (* another render sends a request *)
  | ATake (k : nat)          (* worker k: r := <-evalProcessCh *)
  | AWrite (k : nat)         (* worker k: r.out[i] = r.fn(p) *)
  | ADone (k : nat).         (* worker k: r.wg.Done() *)

  Definition exec (a : action) (s : st) : st :=
    match a with
    | ASend =>
        match s_pend s with
        | r :: rest => mkSt (s_q s ++ [r]) rest (s_w s) (s_m s) (s_wr s) (s_done s)
        | [] => s
        end
    | AForeign r => mkSt (s_q s ++ [r]) (s_pend s) (s_w s) (s_m s) (s_wr s) (s_done s)
    | ATake k =>
        match s_w s k, s_q s with
        | None, r :: rest => mkSt rest (s_pend s) (upd (s_w s) k (Some (r, 0))) (s_m s) (s_wr s) (s_done s)
        | _, _ => s
        end
    | AWrite k =>
        match s_w s k with
        | Some (r, i) =>
            match nth_error (r_pts r) i with
            | Some p => mkSt (s_q s) (s_pend s) (upd (s_w s) k (Some (r, S i)))
                             (set (s_m s) (r_arr r) (r_off r + i) (r_fn r p))
                             (if r_arr r =? mine then (r_off r + i) :: s_wr s else s_wr s) (s_done s)
            | None => s
            end
        | None => s
        end
    | ADone k =>
        match s_w s k with
        | Some (r, i) =>
            if List.length (r_pts r) <=? i
            then mkSt (s_q s) (s_pend s) (upd (s_w s) k None) (s_m s) (s_wr s) (r :: s_done s)
            else s
        | None => s
        end
    end.

  Definition run (sched : list action) (s : st) : st := fold_left (fun s a => exec a s) sched s.

  (* requests of other renders write into other arrays (slices of a different make()) *)
  Definition foreign_ok (a : action) : Prop :=
    match a with AForeign r => r_arr r <> mine | _ => True end.

  Definition plan_reqs : list req :=
    map (fun ob => mkReq mine (fst ob) (snd ob) f) (batch_plan Pt B points).

  (* the layer starts while the queue and the workers may be busy with other renders *)
  Definition init (qf : list req) (wf : nat -> option (req * nat)) (m0 : memory) : st :=
    mkSt qf plan_reqs wf m0 [] [].

  Definition held (s : st) (r : req) : Prop := exists k i, s_w s k = Some (r, i).

  Lemma plan_req_spec : forall r, In r plan_reqs ->
    r_arr r = mine /\ r_fn r = f /\
    forall i p, nth_error (r_pts r) i = Some p -> nth_error points (r_off r + i) = Some p.
  Proof.
    intros r Hin. unfold plan_reqs in Hin. apply in_map_iff in Hin. destruct Hin as [[off b] [E Hin]].
    subst r. cbn. split; [reflexivity | split; [reflexivity |]]. intros i p Hp.
    destruct (batch_plan_covers Pt B points HB) as (_ & _ & _ & Hn & _).
    rewrite (Hn off b Hin i); [exact Hp |]. apply nth_error_Some. rewrite Hp. discriminate.
  Qed.

  Record inv (m0 : memory) (s : st) : Prop := mkInv {
    i_val : forall j, In j (s_wr s) -> exists p, nth_error points j = Some p /\ s_m s mine j = f p;
    i_mine : forall r, (In r (s_q s) \/ In r (s_pend s) \/ held s r) -> r_arr r = mine -> In r plan_reqs;
    i_prog : forall k r i, s_w s k = Some (r, i) -> r_arr r = mine ->
             forall i', i' < i -> i' < List.length (r_pts r) -> In (r_off r + i') (s_wr s);
    i_done : forall r, In r (s_done s) -> r_arr r = mine ->
             forall i', i' < List.length (r_pts r) -> In (r_off r + i') (s_wr s);
    i_acct : forall r, In r plan_reqs -> In r (s_pend s) \/ In r (s_q s) \/ held s r \/ In r (s_done s);
    i_only : forall j, s_m s mine j = m0 mine j \/ exists p, nth_error points j = Some p /\ s_m s mine j = f p
  }.

  Lemma inv_init : forall qf wf m0,
    (forall r, In r qf -> r_arr r <> mine) ->
    (forall k r i, wf k = Some (r, i) -> r_arr r <> mine) ->
    inv m0 (init qf wf m0).
  Proof.
    intros qf wf m0 Hq Hw. constructor; cbn.
    - intros j [].
    - intros r [H | [H | (k & i & H)]] Ha; [exfalso; exact (Hq r H Ha) | exact H | exfalso; exact (Hw k r i H Ha)].
    - intros k r i H Ha. exfalso. exact (Hw k r i H Ha).
    - intros r [].
    - intros r H. left. exact H.
    - intros j. left. reflexivity.
  Qed.

  Lemma held_upd_other : forall s k x r, held s r -> s_w s k = None ->
    exists k' i, upd (s_w s) k x k' = Some (r, i).
  Proof.
    intros s k x r (k' & i & H) Hk. exists k', i. rewrite upd_other; [exact H |].
    intros E. subst. rewrite Hk in H. discriminate.
  Qed.

  Lemma exec_inv : forall m0 a s, foreign_ok a -> inv m0 s -> inv m0 (exec a s).
  Proof.
    intros m0 a s Hf [Hval Hmine Hprog Hdone Hacct Honly]. destruct a as [| rf | k | k | k]; cbn [exec].
    - (* send *)
      destruct (s_pend s) as [| r rest] eqn:Ep; [constructor; try assumption; now rewrite Ep |].
      constructor; unfold held in *; cbn [s_w s_q s_pend s_m s_wr s_done] in *; try assumption.
      + intros r' H Ha. apply Hmine; [| exact Ha]. destruct H as [H | [H | H]].
        * apply in_app_or in H. destruct H as [H | [E | []]]; [left; exact H | subst; right; left; left; reflexivity].
        * right; left; right; exact H.
        * right; right. exact H.
      + intros r' H. destruct (Hacct r' H) as [[E | H1] | [H1 | [H1 | H1]]].
        * subst. right; left. apply in_or_app. right. left. reflexivity.
        * left. exact H1.
        * right; left. apply in_or_app. left. exact H1.
        * right; right; left. exact H1.
        * right; right; right. exact H1.
    - (* a request of another render *)
      cbn in Hf. constructor; unfold held in *; cbn [s_w s_q s_pend s_m s_wr s_done] in *; try assumption.
      + intros r' H Ha. destruct H as [H | H].
        * apply in_app_or in H. destruct H as [H | [E | []]]; [apply Hmine; [left; exact H | exact Ha] | subst; contradiction].
        * apply Hmine; [right; exact H | exact Ha].
      + intros r' H. destruct (Hacct r' H) as [H1 | [H1 | H1]]; [left; exact H1 | | right; right; exact H1].
        right; left. apply in_or_app. left. exact H1.
    - (* take *)
      destruct (s_w s k) as [[r0 i0] |] eqn:Ek; [constructor; assumption |].
      destruct (s_q s) as [| r rest] eqn:Eq; [constructor; try assumption; now rewrite Eq |].
      constructor; unfold held in *; cbn [s_w s_q s_pend s_m s_wr s_done] in *; try assumption.
      + intros r' H Ha. apply Hmine; [| exact Ha]. destruct H as [H | [H | (k' & i & H)]].
        * left. right. exact H.
        * right; left. exact H.
        * destruct (Nat.eq_dec k' k) as [E | N].
          -- subst. rewrite upd_same in H. inversion H; subst. left. left. reflexivity.
          -- rewrite upd_other in H by exact N. right; right. exists k', i. exact H.
      + intros k' r' i H Ha i' Hi' Hl. destruct (Nat.eq_dec k' k) as [E | N].
        * subst. rewrite upd_same in H. inversion H; subst. lia.
        * rewrite upd_other in H by exact N. exact (Hprog k' r' i H Ha i' Hi' Hl).
      + intros r' H. destruct (Hacct r' H) as [H1 | [[E | H1] | [H1 | H1]]].
        * left. exact H1.
        * subst. right; right; left. exists k, 0. apply upd_same.
        * right; left. exact H1.
        * right; right; left. exact (held_upd_other s k _ r' H1 Ek).
        * right; right; right. exact H1.
    - (* write *)
      destruct (s_w s k) as [[r i] |] eqn:Ek; [| constructor; assumption].
      destruct (nth_error (r_pts r) i) as [p |] eqn:Ep; [| constructor; assumption].
      assert (Hheld : forall r', (exists k' i', upd (s_w s) k (Some (r, S i)) k' = Some (r', i')) -> held s r').
      { intros r' (k' & i' & H). destruct (Nat.eq_dec k' k) as [E | N].
        - subst. rewrite upd_same in H. inversion H; subst. exists k, i. exact Ek.
        - rewrite upd_other in H by exact N. exists k', i'. exact H. }
      assert (Hheld' : forall r', held s r' -> exists k' i', upd (s_w s) k (Some (r, S i)) k' = Some (r', i')).
      { intros r' (k' & i' & H). destruct (Nat.eq_dec k' k) as [E | N].
        - subst. rewrite Ek in H. inversion H; subst. exists k, (S i'). apply upd_same.
        - exists k', i'. rewrite upd_other by exact N. exact H. }
      destruct (r_arr r =? mine) eqn:Ea.
      + (* one of this layer's batches *)
        apply Nat.eqb_eq in Ea.
        assert (Hpl : In r plan_reqs) by (apply Hmine; [right; right; exists k, i; exact Ek | exact Ea]).
        destruct (plan_req_spec r Hpl) as (_ & Hfn & Hpts). specialize (Hpts i p Ep).
        assert (Hm : forall j, set (s_m s) (r_arr r) (r_off r + i) (r_fn r p) mine j =
                               if j =? r_off r + i then f p else s_m s mine j).
        { intros j. unfold set. rewrite Ea, Nat.eqb_refl, Hfn. cbn. reflexivity. }
        constructor; unfold held in *; cbn [s_w s_q s_pend s_m s_wr s_done] in *.
        * intros j Hj. rewrite Hm. destruct (j =? r_off r + i) eqn:Ej.
          -- apply Nat.eqb_eq in Ej. subst j. exists p. auto.
          -- destruct Hj as [E | Hj]; [apply Nat.eqb_neq in Ej; congruence | exact (Hval j Hj)].
        * intros r' H Ha'. apply Hmine; [| exact Ha']. destruct H as [H | [H | H]]; [left; exact H | right; left; exact H |].
          right; right. apply Hheld. exact H.
        * intros k' r' i0 H Ha' i' Hi' Hl. destruct (Nat.eq_dec k' k) as [E | N].
          -- subst. rewrite upd_same in H. inversion H; subst.
             destruct (Nat.eq_dec i' i) as [Ei | Ni]; [subst; left; reflexivity |].
             right. apply (Hprog k r' i Ek Ha' i'); [lia | exact Hl].
          -- rewrite upd_other in H by exact N. right. exact (Hprog k' r' i0 H Ha' i' Hi' Hl).
        * intros r' H Ha' i' Hi'. right. exact (Hdone r' H Ha' i' Hi').
        * intros r' H. destruct (Hacct r' H) as [H1 | [H1 | [H1 | H1]]]; [left; exact H1 | right; left; exact H1 | | right; right; right; exact H1].
          right; right; left. apply Hheld'. exact H1.
        * intros j. rewrite Hm. destruct (j =? r_off r + i) eqn:Ej.
          -- apply Nat.eqb_eq in Ej. subst j. right. exists p. auto.
          -- apply Honly.
      + (* a batch of another render: this layer's array is not touched *)
        apply Nat.eqb_neq in Ea.
        assert (Hm : forall j, set (s_m s) (r_arr r) (r_off r + i) (r_fn r p) mine j = s_m s mine j).
        { intros j. unfold set. destruct (mine =? r_arr r) eqn:E; [apply Nat.eqb_eq in E; congruence | reflexivity]. }
        constructor; unfold held in *; cbn [s_w s_q s_pend s_m s_wr s_done] in *.
        * intros j Hj. rewrite Hm. exact (Hval j Hj).
        * intros r' H Ha'. apply Hmine; [| exact Ha']. destruct H as [H | [H | H]]; [left; exact H | right; left; exact H |].
          right; right. apply Hheld. exact H.
        * intros k' r' i0 H Ha' i' Hi' Hl. destruct (Nat.eq_dec k' k) as [E | N].
          -- subst. rewrite upd_same in H. inversion H; subst. contradiction.
          -- rewrite upd_other in H by exact N. exact (Hprog k' r' i0 H Ha' i' Hi' Hl).
        * exact Hdone.
        * intros r' H. destruct (Hacct r' H) as [H1 | [H1 | [H1 | H1]]]; [left; exact H1 | right; left; exact H1 | | right; right; right; exact H1].
          right; right; left. apply Hheld'. exact H1.
        * intros j. rewrite Hm. apply Honly.
    - (* done *)
      destruct (s_w s k) as [[r i] |] eqn:Ek; [| constructor; assumption].
      destruct (List.length (r_pts r) <=? i) eqn:El; [| constructor; assumption].
      apply Nat.leb_le in El.
      constructor; unfold held in *; cbn [s_w s_q s_pend s_m s_wr s_done] in *; try assumption.
      + intros r' H Ha. apply Hmine; [| exact Ha]. destruct H as [H | [H | (k' & i' & H)]]; [left; exact H | right; left; exact H |].
        right; right. destruct (Nat.eq_dec k' k) as [E | N].
        * subst. rewrite upd_same in H. discriminate.
        * rewrite upd_other in H by exact N. exists k', i'. exact H.
      + intros k' r' i0 H Ha i' Hi' Hl. destruct (Nat.eq_dec k' k) as [E | N].
        * subst. rewrite upd_same in H. discriminate.
        * rewrite upd_other in H by exact N. exact (Hprog k' r' i0 H Ha i' Hi' Hl).
      + intros r' [E | H] Ha i' Hi'.
        * subst r'. apply (Hprog k r i Ek Ha i'); [lia | exact Hi'].
        * exact (Hdone r' H Ha i' Hi').
      + intros r' H. destruct (Hacct r' H) as [H1 | [H1 | [(k' & i' & H1) | H1]]];
          [left; exact H1 | right; left; exact H1 | | right; right; right; right; exact H1].
        destruct (Nat.eq_dec k' k) as [E | N].
        * subst. rewrite Ek in H1. inversion H1; subst. right; right; right. left. reflexivity.
        * right; right; left. exists k', i'. rewrite upd_other by exact N. exact H1.
  Qed.

  Lemma run_inv : forall m0 sched s, Forall foreign_ok sched -> inv m0 s -> inv m0 (run sched s).
  Proof.
    intros m0 sched. induction sched as [| a r IH]; intros s Hf Hi; [exact Hi |].
    inversion Hf; subst. cbn. apply IH; [assumption |]. apply exec_inv; assumption.
  Qed.

  (* eReq.wg.Wait() has returned: every batch of this layer was sent, received and completed *)
  Definition finished (s : st) : Prop :=
    s_pend s = [] /\ (forall r, In r (s_q s) -> r_arr r <> mine) /\
    (forall k r i, s_w s k = Some (r, i) -> r_arr r <> mine).

  Definition layer_out (s : st) : list Val := map (s_m s mine) (seq 0 (List.length points)).

  Lemma map_seq_nth : forall (l : list Pt) (g : nat -> Val),
    (forall j p, nth_error l j = Some p -> g j = f p) -> map g (seq 0 (List.length l)) = map f l.
  Proof.
    induction l as [| p r IH]; intros g Hg; [reflexivity |].
    cbn [List.length seq map]. rewrite (Hg 0 p eq_refl). f_equal.
    rewrite <- seq_shift, map_map. apply IH. intros j q Hq. apply (Hg (S j) q). exact Hq.
  Qed.

  Lemma finished_out : forall m0 s, inv m0 s -> finished s -> layer_out s = map f points.
  Proof.
    intros m0 s [Hval Hmine Hprog Hdone Hacct Honly] (Hp & Hq & Hw). unfold layer_out.
    apply map_seq_nth. intros j p Hj.
    destruct (batch_plan_covers Pt B points HB) as (_ & _ & _ & _ & Hcov & _).
    destruct (Hcov j) as (off & b & i & Hin & Hi & Ej); [apply nth_error_Some; rewrite Hj; discriminate |].
    set (r := mkReq mine off b f).
    assert (Hpl : In r plan_reqs) by (unfold plan_reqs; apply in_map_iff; exists (off, b); split; [reflexivity | exact Hin]).
    destruct (Hacct r Hpl) as [H | [H | [(k & i0 & H) | H]]].
    - rewrite Hp in H. contradiction.
    - exfalso. exact (Hq r H eq_refl).
    - exfalso. exact (Hw k r i0 H eq_refl).
    - assert (Hwr : In (off + i) (s_wr s)) by (apply (Hdone r H eq_refl i); exact Hi).
      rewrite <- Ej in Hwr. destruct (Hval j Hwr) as (p' & Hp' & Hv). rewrite Hj in Hp'. inversion Hp'; subst. exact Hv.
  Qed.

  (* Whatever the schedule - which worker takes which batch, in which order the writes of
     different batches interleave, how requests of other renders are mixed in, what the
     queue and the workers were doing when the layer started - once the WaitGroup is
     released the layer array holds exactly f of every point, in order. *)
  Theorem layer_schedule_independent : forall (qf : list req) (wf : nat -> option (req * nat)) (m0 : memory) (sched : list action),
    (forall r, In r qf -> r_arr r <> mine) ->
    (forall k r i, wf k = Some (r, i) -> r_arr r <> mine) ->
    Forall foreign_ok sched ->
    finished (run sched (init qf wf m0)) ->
    layer_out (run sched (init qf wf m0)) = map f points.
  Proof.
    intros qf wf m0 sched Hq Hw Hf Hfin.
    apply (finished_out m0); [| exact Hfin]. apply run_inv; [exact Hf | apply inv_init; assumption].
  Qed.

  (* At every moment of every schedule a cell of this layer's array holds either its old
     content or the correct value: nothing another render does is ever visible in it. *)
  Theorem foreign_requests_do_not_interfere : forall qf wf m0 sched,
    (forall r, In r qf -> r_arr r <> mine) ->
    (forall k r i, wf k = Some (r, i) -> r_arr r <> mine) ->
    Forall foreign_ok sched ->
    forall j, s_m (run sched (init qf wf m0)) mine j = m0 mine j \/
              exists p, nth_error points j = Some p /\ s_m (run sched (init qf wf m0)) mine j = f p.
  Proof.
    intros qf wf m0 sched Hq Hw Hf. apply (i_only m0). apply run_inv; [exact Hf | apply inv_init; assumption].
  Qed.

  (* non-vacuity: one worker, batches processed one after the other, is a finishing schedule *)
  Fixpoint seq_sched (reqs : list req) : list action :=
    match reqs with
    | [] => []
    | r :: rest => ASend :: ATake 0 :: repeat (AWrite 0) (List.length (r_pts r)) ++ ADone 0 :: seq_sched rest
    end.
End Machine.

(* ------------------------------------------------------------------ 3. a whole render *)

Section Render.
  Variable Pt Val Out : Type.
  Variable f : Pt -> Val.
  Variable B : nat.
  Hypothesis HB : 1 <= B.
  Variable post : list (list Val) -> Out.   (* everything after the WaitGroups: marching loop, buffer, writer (C11) *)

  (* what the scheduler, the other renders and the previous layers contribute to one layer evaluation *)
  Record env : Type := mkEnv {
    e_mine : nat;
    e_q : list (req Pt Val); e_w : nat -> option (req Pt Val * nat); e_m : memory Val;
    e_sched : list (action Pt Val)
  }.

  Definition env_ok (pts : list Pt) (e : env) : Prop :=
    (forall r, In r (e_q e) -> r_arr _ _ r <> e_mine e) /\
    (forall k r i, e_w e k = Some (r, i) -> r_arr _ _ r <> e_mine e) /\
    Forall (foreign_ok Pt Val (e_mine e)) (e_sched e) /\
    finished Pt Val (e_mine e) (run Pt Val (e_mine e) (e_sched e) (init Pt Val f B pts (e_mine e) (e_q e) (e_w e) (e_m e))).

  Definition layer (pts : list Pt) (e : env) : list Val :=
    layer_out Pt Val pts (e_mine e) (run Pt Val (e_mine e) (e_sched e) (init Pt Val f B pts (e_mine e) (e_q e) (e_w e) (e_m e))).

  Fixpoint layers (ls : list (list Pt)) (es : list env) : list (list Val) :=
    match ls, es with
    | pts :: lr, e :: er => layer pts e :: layers lr er
    | _, _ => []
    end.

  Definition render (ls : list (list Pt)) (es : list env) : Out := post (layers ls es).

  Fixpoint envs_ok (ls : list (list Pt)) (es : list env) : Prop :=
    match ls, es with
    | pts :: lr, e :: er => env_ok pts e /\ envs_ok lr er
    | [], [] => True
    | _, _ => False
    end.

  Lemma layers_spec : forall ls es, envs_ok ls es -> layers ls es = map (map f) ls.
  Proof.
    induction ls as [| pts lr IH]; intros es Hok; destruct es as [| e er]; cbn in *; try contradiction; [reflexivity |].
    destruct Hok as [(H1 & H2 & H3 & H4) Hr]. f_equal; [| exact (IH er Hr)].
    unfold layer. apply layer_schedule_independent; assumption.
  Qed.

  (* Two renders of the same model, under any two families of schedules / GOMAXPROCS /
     evaluation timings / concurrent and preceding renders, produce the same output. *)
  Theorem render_deterministic : forall ls es1 es2,
    envs_ok ls es1 -> envs_ok ls es2 -> render ls es1 = render ls es2.
  Proof.
    intros ls es1 es2 H1 H2. unfold render. now rewrite (layers_spec ls es1 H1), (layers_spec ls es2 H2).
  Qed.

  Theorem render_is_function_of_layers : forall ls es, envs_ok ls es -> render ls es = post (map (map f) ls).
  Proof. intros ls es H. unfold render. now rewrite (layers_spec ls es H). Qed.
End Render.

(* non-vacuity: the one-worker schedule finishes a 5-point layer with batch size 2 (3 batches) *)
Lemma sched_example :
  let pts := [10; 11; 12; 13; 14] in
  let s := run nat nat 0 (seq_sched nat nat (plan_reqs nat nat S 2 pts 0))
               (init nat nat S 2 pts 0 [] (fun _ => None) (fun _ _ => 0)) in
  finished nat nat 0 s /\ layer_out nat nat pts 0 s = [11; 12; 13; 14; 15] /\
  Forall (foreign_ok nat nat 0) (seq_sched nat nat (plan_reqs nat nat S 2 pts 0)) /\
  List.length (plan_reqs nat nat S 2 pts 0) = 3.
Proof.
  cbv zeta. split; [| split; [| split]].
  - unfold finished. split; [vm_compute; reflexivity |]. split.
    + intros r H. vm_compute in H. contradiction.
    + intros k r i H. destruct k; vm_compute in H; discriminate H.
  - vm_compute. reflexivity.
  - vm_compute. repeat constructor.
  - vm_compute. reflexivity.
Qed.

(* ------------------------------------------------------------------ 4. the effects the model assumes *)

Local Open Scope string_scope.

Definition prefix_in (ps : list string) (s : string) : bool := existsb (fun p => String.prefix p s) ps.

(* locations of objects that are created inside one Render / To* call and are reachable only
   from it (unexported working types of the renderers, the per-render buffers and file writers) *)
Definition render_private : list string := [
  "render.node2."; "render.dc2."; "render.lineCache."; "render.dcache2."; "render.dcache3.";
  "render.layerYZ."; "render.layerXY."; "render.SVG."; "render.DXF."; "render.STLHeader.";
  "render/dc.dcOctree."; "render/dc.dcOctreeDrawInfo."; "render/dc.dcVoxelInfo."; "render/dc.dcQefSolver.";
  "sdf.Triangle3Buffer."; "sdf.Line2Buffer.";
  "captured:"; "param:"; "escaped-local"; "local";
  "github.com/hpinc/go3mf."
].

(* warn-once flags and a defaulted tolerance of the dual-contouring renderer objects: they guard log output only *)
Definition render_flags : list string := [
  "render/dc.DualContouringV2.raycastFailedWarned"; "render/dc.DualContouringV2.qefFailedWarned";
  "render/dc.DualContouringV2.qefFailedImplWarned"; "render/dc.DualContouringV2.farAwayWarned";
  "render/dc.DualContouringV2.faceVertexNotFoundWarned"; "render/dc.DualContouringV1.RCond"
].

(* the functions that may start goroutines: the evaluation workers (the model's workers) and one writer per sink (C11) *)
Definition go_sites : list string := [
  "render.evalRoutines"; "render.writeSTL"; "render.write3MF"; "render.writeDXF"; "render.writeSVG";
  "sdf.WriteTriangles"
].

Definition chan_ok : list string := [
  "render.evalProcessCh"; "sdf.Triangle3Buffer.out"; "sdf.Line2Buffer.out"; "captured:"; "local-chan"; "param:"; "recv("
].

(* packages outside the analysis that the render path may call: output libraries and numerics; their
   determinism is covered by the run-time byte comparison only *)
Definition render_ext : list string := [
  "math"; "math/bits"; "sort"; "fmt"; "errors"; "strconv"; "strings"; "os"; "io"; "bufio"; "bytes"; "log"; "builtin";
  "encoding/binary"; "runtime";
  "gonum.org/v1/gonum/mat"; "github.com/yofu/dxf"; "github.com/yofu/dxf/drawing";
  "github.com/hpinc/go3mf"; "github.com/ajstarks/svgo/float"
].

Definition render_effect_ok (e : effect) : bool :=
  match e with
  | ERead _ _ _ => true
  | EWrite x ls fn =>
      negb (match ls with [] => true | _ => false end)          (* guarded by a mutex of its owner *)
      || prefix_in render_private x || mem x render_flags
      || String.prefix "recv(render.evalProcessCh)" x       (* memory received through the request queue: the worker's r.out[i] = r.fn(p) *)
  | EGo _ fn => prefix_in go_sites fn
  | EChan _ ch _ => prefix_in chan_ok ch
  | EMapRange _ _ => false
  | ERand _ _ => false
  | ETime _ _ => false
  | ESync _ _ _ => true
  | EInvoke _ _ => true
  | EFunVal _ _ => true
  | EExt pkg _ _ => mem pkg render_ext
  end.

(* what C09 needs of every Evaluate: a function of the point *)
Definition eval_effect_deterministic (e : effect) : bool :=
  match e with
  | EMapRange _ _ | ERand _ _ | ETime _ _ | EGo _ _ | EChan _ _ _ => false
  | EExt pkg _ _ => mem pkg pure_pkgs
  | _ => true
  end.

Definition summaries_ok (ok : effect -> bool) (ss : list summary) : bool :=
  forallb (fun s => forallb ok (snd s)) ss.

(* ------------------------------------------------------------------ correspondence: the real batch partition *)

(* (id, batch size, layer size n, slot in which the value of the j-th point of the loop was found, j = 0..n-1) *)
Definition case := (N * N * N * list N)%type.

Definition model_slots (B n : nat) : list N :=
  flat_map (fun ob => map (fun i => N.of_nat (fst ob + i)) (seq 0 (List.length (snd ob)))) (batch_plan nat B (seq 0 n)).

Fixpoint eq_listN (a b : list N) : bool :=
  match a, b with
  | [], [] => true
  | x :: r, y :: s => N.eqb x y && eq_listN r s
  | _, _ => false
  end.

Definition mismatches (cs : list case) : list N :=
  flat_map (fun c => let '(id, b, n, slots) := c in
                     if eq_listN (model_slots (N.to_nat b) (N.to_nat n)) slots then [] else [id]) cs.
