(* StateInvDefs.v - the inventory of mutable state: data types and the comparison.

   The Gallina models of this development are functions of their arguments.  They are faithful
   to the Go code only as long as the code keeps no state between calls beyond what the models
   mention.  harness/stategen lists, from the current source on every run, every package-level
   variable and every struct field of packages sdf, render, render/dc, obj, vec/*, and whether
   (and from which entry points) it is written in memory the writer did not allocate itself
   (coq/Generated/StateInv.v).  coq/Sys/StateInvSpec.v holds the expected, reviewed inventory,
   each piece of state with the model component that accounts for it.  This file defines the
   comparison:

     state_diff P = the list of differences, as readable strings, between the generated
                    inventory restricted to the scope of property P and the expected one.

   The comparison is an INCLUSION (generated state within expected state), keyed by package +
   name, insensitive to order:
     - a package-level variable of a package in P's scope that is written anywhere must be
       expected, with the same type, and every entry point that writes it must be expected
       (tagged with P: compared; expected but accounted for by other properties: ignored by P);
       variables nothing writes (lookup tables, error values) are not state;
     - every expected struct type tagged with P must exist; every field it has must be expected
       with the same type; every field written outside construction must be expected mutable,
       and every entry point that writes it must be expected.
   Less state than expected (a field or writer that disappeared) is not a difference. *)
From Coq Require Import List String Bool.
Import ListNotations.
Local Open Scope string_scope.

Record gvar := GVar {
  gv_pkg : string; gv_name : string; gv_type : string;
  gv_init : bool;              (* declared with an initialiser (informative) *)
  gv_mutated : bool;           (* something writes it / takes its address / calls a mutating method on it *)
  gv_writers : list string     (* nearest entry points from which such a write is reachable *)
}.

Record sstruct := SStruct {
  s_pkg : string; s_name : string;
  s_fields : list (string * string);          (* name, normalised type *)
  s_mut : list (string * list string)         (* fields written outside construction, with the writers *)
}.

Definition mem (x : string) (l : list string) : bool := existsb (String.eqb x) l.

Fixpoint assoc {A} (k : string) (l : list (string * A)) : option A :=
  match l with
  | [] => None
  | (k', v) :: r => if String.eqb k k' then Some v else assoc k r
  end.

Definition find_var (p n : string) (l : list gvar) : option gvar :=
  find (fun g => String.eqb (gv_pkg g) p && String.eqb (gv_name g) n) l.

Definition find_struct (p n : string) (l : list sstruct) : option sstruct :=
  find (fun s => String.eqb (s_pkg s) p && String.eqb (s_name s) n) l.

Definition join (l : list string) : string := String.concat ", " l.

(* writers not expected *)
Definition extra (gen expd : list string) : list string := filter (fun w => negb (mem w expd)) gen.

(* ---- package-level variables *)

Definition var_diff (P : string) (pkgs : list string) (expd : list (list string * gvar)) (g : gvar) : list string :=
  if negb (mem (gv_pkg g) pkgs) then [] else
  if negb (gv_mutated g) then [] else
  match find (fun e => String.eqb (gv_pkg (snd e)) (gv_pkg g) && String.eqb (gv_name (snd e)) (gv_name g)) expd with
  | None => ["new package-level state: var " ++ gv_pkg g ++ "." ++ gv_name g ++ " " ++ gv_type g
             ++ " written from " ++ join (gv_writers g)]
  | Some (tags, e) =>
      if negb (mem P tags) then [] else
      (if String.eqb (gv_type e) (gv_type g) then [] else
         ["var " ++ gv_pkg g ++ "." ++ gv_name g ++ " retyped: " ++ gv_type g ++ " (expected " ++ gv_type e ++ ")"])
      ++ (if gv_mutated e then [] else
         ["var " ++ gv_pkg g ++ "." ++ gv_name g ++ " expected read-only is now written from " ++ join (gv_writers g)])
      ++ (match (if gv_mutated e then extra (gv_writers g) (gv_writers e) else []) with
          | [] => []
          | ws => ["var " ++ gv_pkg g ++ "." ++ gv_name g ++ " has new writers: " ++ join ws]
          end)
  end.

(* ---- struct types *)

Definition field_diff (q : string) (e : sstruct) (f : string * string) : list string :=
  match assoc (fst f) (s_fields e) with
  | None => ["new field " ++ q ++ "." ++ fst f ++ " " ++ snd f]
  | Some t => if String.eqb t (snd f) then [] else
      ["field " ++ q ++ "." ++ fst f ++ " retyped: " ++ snd f ++ " (expected " ++ t ++ ")"]
  end.

Definition mut_diff (q : string) (e : sstruct) (m : string * list string) : list string :=
  match assoc (fst m) (s_mut e) with
  | None => ["field " ++ q ++ "." ++ fst m ++ " is now written outside construction, from " ++ join (snd m)]
  | Some ws => match extra (snd m) ws with
               | [] => []
               | x => ["field " ++ q ++ "." ++ fst m ++ " has new writers: " ++ join x]
               end
  end.

Definition struct_diff (P : string) (gen : list sstruct) (te : list string * sstruct) : list string :=
  let (tags, e) := te in
  if negb (mem P tags) then [] else
  let q := s_pkg e ++ "." ++ s_name e in
  match find_struct (s_pkg e) (s_name e) gen with
  | None => ["struct type " ++ q ++ " no longer exists (renamed or removed)"]
  | Some g => flat_map (field_diff q e) (s_fields g) ++ flat_map (mut_diff q e) (s_mut g)
  end.

Definition inventory_diff (P : string) (pkgs : list string)
    (exp_vars : list (list string * gvar)) (exp_structs : list (list string * sstruct))
    (gen_vars : list gvar) (gen_structs : list sstruct) : list string :=
  flat_map (var_diff P pkgs exp_vars) gen_vars ++ flat_map (struct_diff P gen_structs) exp_structs.

Definition is_nil {A} (l : list A) : bool := match l with [] => true | _ => false end.

Lemma is_nil_true : forall A (l : list A), l = [] -> is_nil l = true.
Proof. intros A l H. rewrite H. reflexivity. Qed.

(* ---- what the comparison guarantees (used to read a passing check) *)

Lemma flat_map_nil : forall A B (f : A -> list B) l, flat_map f l = [] -> forall x, In x l -> f x = [].
Proof.
  intros A B f l. induction l as [|a l IH]; simpl; intros H x Hin.
  - contradiction.
  - apply app_eq_nil in H. destruct H as [Ha Hl]. destruct Hin as [->|Hin]; auto.
Qed.

(* a passing comparison: every written package-level variable of a package in scope is expected *)
Lemma diff_nil_vars_expected : forall P pkgs ev es gv gs g,
  inventory_diff P pkgs ev es gv gs = [] -> In g gv ->
  mem (gv_pkg g) pkgs = true -> gv_mutated g = true ->
  exists te, In te ev /\ gv_pkg (snd te) = gv_pkg g /\ gv_name (snd te) = gv_name g.
Proof.
  intros P pkgs ev es gv gs g H Hin Hp Hm.
  unfold inventory_diff in H. apply app_eq_nil in H. destruct H as [Hv _].
  pose proof (flat_map_nil _ _ _ _ Hv g Hin) as Hg.
  unfold var_diff in Hg. rewrite Hp, Hm in Hg. simpl in Hg.
  destruct (find _ ev) as [te|] eqn:Hf.
  - apply find_some in Hf. destruct Hf as [Hi Hb].
    apply andb_true_iff in Hb. destruct Hb as [Hb1 Hb2].
    apply String.eqb_eq in Hb1. apply String.eqb_eq in Hb2.
    exists te. auto.
  - discriminate.
Qed.

(* a passing comparison: every field of an expected struct type in scope is expected, with its type *)
Lemma diff_nil_fields_expected : forall P pkgs ev es gv gs tags e g f,
  inventory_diff P pkgs ev es gv gs = [] -> In (tags, e) es -> mem P tags = true ->
  find_struct (s_pkg e) (s_name e) gs = Some g -> In f (s_fields g) ->
  assoc (fst f) (s_fields e) = Some (snd f).
Proof.
  intros P pkgs ev es gv gs tags e g f H Hin Ht Hf Hfl.
  unfold inventory_diff in H. apply app_eq_nil in H. destruct H as [_ Hs].
  pose proof (flat_map_nil _ _ _ _ Hs (tags, e) Hin) as He.
  unfold struct_diff in He. rewrite Ht, Hf in He. simpl in He.
  apply app_eq_nil in He. destruct He as [He _].
  pose proof (flat_map_nil _ _ _ _ He f Hfl) as Hd.
  unfold field_diff in Hd.
  destruct (assoc (fst f) (s_fields e)) as [t|]; [|discriminate].
  destruct (String.eqb t (snd f)) eqn:E; [|discriminate].
  apply String.eqb_eq in E. congruence.
Qed.

(* a passing comparison: every field written outside construction is expected mutable *)
Lemma diff_nil_mut_expected : forall P pkgs ev es gv gs tags e g m,
  inventory_diff P pkgs ev es gv gs = [] -> In (tags, e) es -> mem P tags = true ->
  find_struct (s_pkg e) (s_name e) gs = Some g -> In m (s_mut g) ->
  exists ws, assoc (fst m) (s_mut e) = Some ws /\ extra (snd m) ws = [].
Proof.
  intros P pkgs ev es gv gs tags e g m H Hin Ht Hf Hm.
  unfold inventory_diff in H. apply app_eq_nil in H. destruct H as [_ Hs].
  pose proof (flat_map_nil _ _ _ _ Hs (tags, e) Hin) as He.
  unfold struct_diff in He. rewrite Ht, Hf in He. simpl in He.
  apply app_eq_nil in He. destruct He as [_ He].
  pose proof (flat_map_nil _ _ _ _ He m Hm) as Hd.
  unfold mut_diff in Hd.
  destruct (assoc (fst m) (s_mut e)) as [ws|]; [|discriminate].
  exists ws. split; auto. destruct (extra (snd m) ws); [reflexivity|discriminate].
Qed.
