(* EffectsC09.v - the C09 facts about the effect summaries regenerated from the Go source
   (coq/Generated/Effects.v) on every run: the code reachable from Render / To* does nothing
   the scheduling model of Sys/Sched.v does not account for. *)
From Coq Require Import List String Bool Arith.
From Sdfx Require Import Sys.Lockset Sys.Sched Generated.Effects.
Import ListNotations.

(* reachable from every Render method of render, render/dc and from ToSTL/To3MF/ToDXF/ToSVG/ToTriangles:
   no range over a map, no math/rand, no time; goroutines are started only by the evaluation
   pool and by the one writer per sink; channel traffic only on the request queue, the buffer ->
   writer channels and the legacy output channels; every store that is not guarded by a mutex of
   its owner goes to an object private to the render - or is the worker's r.out[i] = r.fn(p),
   which is the write of the Sched machine *)
Lemma render_effects_whitelisted : summaries_ok render_effect_ok render_summaries = true.
Proof. vm_compute. reflexivity. Qed.

(* every Evaluate: no range over a map, rand, time, goroutine or channel: a function of the point *)
Lemma evaluate_effects_deterministic : summaries_ok eval_effect_deterministic evaluate_summaries = true.
Proof. vm_compute. reflexivity. Qed.

(* (the batch size and `1 <= batchSize` are now in Sys/SysProgsC09.v: harness/sysgen finds the
   constant from its use in the batching loop of layerYZ.Evaluate) *)

Lemma render_summaries_not_empty : render_summaries <> [].
Proof. discriminate. Qed.
