(* SysProgsC09.v - the C09 facts about the programs extracted from the current Go source
   (Generated/SysProgs.v, harness/sysgen): the batching loop of layerYZ.Evaluate, the
   evaluation routine and the way marchingCubes starts the routines are the programs whose
   meaning Sys/SchedProg.v relates to Sys/Sched.v. *)
From Coq Require Import List String Arith.
From Sdfx Require Import Sys.SysLang Sys.Lockset Sys.Sched Sys.PoolProg Sys.SchedProg Generated.SysProgs.
Import ListNotations.
Local Open Scope string_scope.

Lemma routines_program : strip evalRoutines = routines_prog.
Proof. reflexivity. Qed.

Lemma marching_program : strip marchingCubes = marching_prog (OnceDo "evalRoutines").
Proof. reflexivity. Qed.

(* the requests the extracted layerYZ.Evaluate sends are Sched.batch_plan, for every layer *)
Lemma source_layer_is_batch_plan (Pt : Type) (points : list Pt) :
  let s := lexec Pt points (strip layerYZ_Evaluate) (linit Pt) in
  l_sent Pt s = batch_plan Pt batchSize points /\ l_adds Pt s = List.length (l_sent Pt s) /\
  l_early Pt s = false /\ l_waited Pt s = true /\ l_req Pt s = true.
Proof. unfold batchSize. layer_like ltac:(eval vm_compute in batchSize). Qed.

(* evalRoutines starts one routine per CPU, each running the program of SchedProg section 2 *)
Lemma source_routines : strip evalRoutines = [ForCPU [Go worker_prog]] /\ forall ncpu, go_count ncpu (strip evalRoutines) = ncpu.
Proof. split; [reflexivity|]. intros ncpu. rewrite routines_program. apply routines_count. Qed.

(* marchingCubes itself starts no goroutine: layers are evaluated and cubes marched one after the other *)
Lemma source_marching_sequential : forall ncpu, go_count ncpu (strip marchingCubes) = 0.
Proof. intros ncpu. rewrite marching_program. reflexivity. Qed.

Lemma batch_size_positive : 1 <= batchSize.
Proof. apply Nat.leb_le. vm_compute. reflexivity. Qed.
