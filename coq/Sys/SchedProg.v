(* SchedProg.v - C09: meaning of the extracted programs of
   render/march3.go (Generated/SysProgs.v) and its relation to Sys/Sched.v.

   1. The batching loop of layerYZ.Evaluate: a sequential interpreter of the program (request
      creation, reset / append of the point slice, length test, WaitGroup.Add, send, shift of
      the output slice, loop over the points of the layer, final Wait) and the theorem that the
      requests it sends ARE Sched.batch_plan, for every layer and every batch size, that every
      send is preceded by its own Add and that the function ends in the Wait
      (`layer_program_is_batch_plan`).
   2. The evaluation routine: the receive loop / point loop / store / Done program as a
      position machine on the state of Sched.v; each of its steps is one of the actions ATake,
      AWrite, ADone of Sched.exec or invisible, the Done is reached only when every point of
      the request has been stored, so every interleaved execution of any number of such
      routines with the environment is Sched.run of a schedule (`workers_refine_sched`) and
      the schedule-independence theorems of Sched.v speak about the program text.
   (The pool - how many routines are started and how often - is Sys/PoolProg.v.) *)
From Coq Require Import List Arith Lia Bool.
From Sdfx Require Import Sys.SysLang Sys.Lockset Sys.Sched Sys.PoolProg.
Import ListNotations.
Local Open Scope nat_scope.

(* ------------------------------------------------------------------ 1. the batching loop *)

Section Layer.
  Variable Pt : Type.

  Record lst := mkL {
    l_req : bool;                     (* the request struct exists *)
    l_pts : list Pt;                  (* eReq.p *)
    l_off : nat;                      (* how far eReq.out has been shifted *)
    l_sent : list (batch Pt);         (* the requests put on the queue: (offset of out, copy of p) *)
    l_adds : nat;                     (* eReq.wg.Add calls *)
    l_early : bool;                   (* a request was sent before its Add *)
    l_waited : bool                   (* eReq.wg.Wait() was the last thing executed *)
  }.

  Definition linit : lst := mkL false [] 0 [] 0 false false.

  Definition lprim (cur : option Pt) (p : prim) (s : lst) : lst :=
    match p with
    | PNewReq => mkL true [] 0 (l_sent s) (l_adds s) (l_early s) false
    | PResetPts => mkL (l_req s) [] (l_off s) (l_sent s) (l_adds s) (l_early s) false
    | PAppendPt =>
        match cur with
        | Some x => mkL (l_req s) (l_pts s ++ [x]) (l_off s) (l_sent s) (l_adds s) (l_early s) false
        | None => s
        end
    | PReqAdd n => mkL (l_req s) (l_pts s) (l_off s) (l_sent s) (l_adds s + n) (l_early s) false
    | PSendReq =>
        mkL (l_req s) (l_pts s) (l_off s) (l_sent s ++ [(l_off s, l_pts s)]) (l_adds s)
            (l_early s || (l_adds s <=? List.length (l_sent s))) false
    | PShiftOut n => mkL (l_req s) (l_pts s) (l_off s + n) (l_sent s) (l_adds s) (l_early s) false
    | PReqWait => mkL (l_req s) (l_pts s) (l_off s) (l_sent s) (l_adds s) (l_early s) true
    | _ => s
    end.

  Variable points : list Pt.          (* the (ny+1)*(nz+1) points of the layer in loop order *)

  Fixpoint lexec1 (cur : option Pt) (st : stmt) (s : lst) : lst :=
    match st with
    | Do p => lprim cur p s
    | IfLen c n th el =>
        if cmp_nat c (List.length (l_pts s)) n
        then fold_left (fun s st => lexec1 cur st s) th s
        else fold_left (fun s st => lexec1 cur st s) el s
    | ForPoints body =>
        fold_left (fun s x => fold_left (fun s st => lexec1 (Some x) st s) body s) points s
    | _ => s
    end.
  Definition lexec (p : list stmt) (s : lst) : lst := fold_left (fun s st => lexec1 None st s) p s.

  (* the program of the source, up to Data statements *)
  Definition layer_prog (B : nat) : list stmt :=
    [Do PNewReq; Do PResetPts;
     ForPoints [Do PAppendPt;
                IfLen CEq B [Do (PReqAdd 1); Do PSendReq; Do (PShiftOut B); Do PResetPts] []];
     IfLen CGt 0 [Do (PReqAdd 1); Do PSendReq] [];
     Do PReqWait].

  Definition body_step (B : nat) (s : lst) (x : Pt) : lst :=
    fold_left (fun s st => lexec1 (Some x) st s)
              [Do PAppendPt; IfLen CEq B [Do (PReqAdd 1); Do PSendReq; Do (PShiftOut B); Do PResetPts] []] s.

  Definition flushed (s : lst) : list (batch Pt) :=
    if 0 <? List.length (l_pts s) then l_sent s ++ [(l_off s, l_pts s)] else l_sent s.

  Lemma loop_is_plan_loop B : forall pts s,
    l_adds s = List.length (l_sent s) -> l_early s = false ->
    let s' := fold_left (body_step B) pts s in
    flushed s' = plan_loop Pt B pts (l_off s) (l_pts s) (l_sent s) /\
    l_adds s' = List.length (l_sent s') /\ l_early s' = false /\ l_req s' = l_req s.
  Proof.
    induction pts as [|x r IH]; intros s Ha He; cbn [fold_left plan_loop].
    - unfold flushed. auto.
    - assert (Hs : body_step B s x =
                   if List.length (l_pts s ++ [x]) =? B
                   then mkL (l_req s) [] (l_off s + B) (l_sent s ++ [(l_off s, l_pts s ++ [x])]) (l_adds s + 1)
                            (l_early s || (l_adds s + 1 <=? List.length (l_sent s))) false
                   else mkL (l_req s) (l_pts s ++ [x]) (l_off s) (l_sent s) (l_adds s) (l_early s) false).
      { unfold body_step. cbn [fold_left lexec1 lprim l_pts cmp_nat].
        destruct (List.length (l_pts s ++ [x]) =? B); reflexivity. }
      rewrite Hs. clear Hs. destruct (List.length (l_pts s ++ [x]) =? B) eqn:E.
      + match goal with |- context [fold_left (body_step B) r ?t] => specialize (IH t) end.
        cbn [l_adds l_sent l_early l_off l_pts l_req] in IH. apply IH.
        * rewrite app_length. cbn. lia.
        * rewrite He. cbn. apply Nat.leb_gt. lia.
      + match goal with |- context [fold_left (body_step B) r ?t] => specialize (IH t) end.
        cbn [l_adds l_sent l_early l_off l_pts l_req] in IH. apply IH; assumption.
  Qed.

  (* The requests layerYZ.Evaluate puts on the queue are exactly Sched.batch_plan; one Add per
     request and before it; the function ends in Wait. *)
  Theorem layer_program_is_batch_plan B :
    let s := lexec (layer_prog B) linit in
    l_sent s = batch_plan Pt B points /\ l_adds s = List.length (l_sent s) /\
    l_early s = false /\ l_waited s = true /\ l_req s = true.
  Proof.
    unfold lexec, layer_prog. cbn [fold_left]. cbn [lexec1 lprim].
    change (fold_left (fun s0 x => fold_left (fun s1 st => lexec1 (Some x) st s1) _ s0) points ?t)
      with (fold_left (body_step B) points t).
    match goal with |- context [fold_left (body_step B) points ?t] =>
      destruct (loop_is_plan_loop B points t eq_refl eq_refl) as (H1 & H2 & H3 & H4); set (s1 := fold_left (body_step B) points t) in *
    end.
    cbn [l_off l_pts l_sent l_req] in H1, H4. fold (batch_plan Pt B points) in H1.
    unfold flushed in H1. cbn [cmp_nat].
    destruct (0 <? List.length (l_pts s1)) eqn:E; cbn [fold_left lexec1 lprim l_sent l_adds l_early l_waited l_req].
    - repeat split; auto.
      + rewrite app_length. cbn. lia.
      + rewrite H3. cbn. apply Nat.leb_gt. lia.
    - repeat split; auto.
  Qed.

  (* ---------------------------------------------------------------- any program with the same run *)

  (* The theorem above is about layer_prog B.  The program found in the source may spell the
     same loop differently (`len >= B` for `len == B`: the slice never grows beyond B; `len != 0`
     for `len > 0`; the branches of a negated test exchanged).  It is enough that
       - what stands before the loop over the points leaves the state of a fresh request,
       - one pass of its loop body is body_step B on every state with fewer than B points pending,
       - what follows the loop acts like `if len > 0 { Add; send }; Wait` on every such state. *)
  Definition run_list (cur : option Pt) (p : list stmt) (s : lst) : lst := fold_left (fun s st => lexec1 cur st s) p s.

  Definition layer_post : list stmt := [IfLen CGt 0 [Do (PReqAdd 1); Do PSendReq] []; Do PReqWait].

  Lemma body_step_eq B s x :
    body_step B s x =
      if List.length (l_pts s ++ [x]) =? B
      then mkL (l_req s) [] (l_off s + B) (l_sent s ++ [(l_off s, l_pts s ++ [x])]) (l_adds s + 1)
               (l_early s || (l_adds s + 1 <=? List.length (l_sent s))) false
      else mkL (l_req s) (l_pts s ++ [x]) (l_off s) (l_sent s) (l_adds s) (l_early s) false.
  Proof.
    unfold body_step. cbn [fold_left lexec1 lprim l_pts cmp_nat].
    destruct (List.length (l_pts s ++ [x]) =? B); reflexivity.
  Qed.

  Lemma loop_same B body : 1 <= B ->
    (forall s x, List.length (l_pts s) < B -> run_list (Some x) body s = body_step B s x) ->
    forall pts s, List.length (l_pts s) < B ->
      fold_left (fun s x => run_list (Some x) body s) pts s = fold_left (body_step B) pts s /\
      List.length (l_pts (fold_left (body_step B) pts s)) < B.
  Proof.
    intros HB Hbody. induction pts as [|x r IH]; intros s Hs; cbn [fold_left]; [split; [reflexivity | exact Hs]|].
    rewrite (Hbody s x Hs). apply IH. rewrite body_step_eq.
    destruct (List.length (l_pts s ++ [x]) =? B) eqn:E; cbn [l_pts]; [cbn; lia|].
    apply Nat.eqb_neq in E. rewrite app_length in *. cbn [List.length] in *. lia.
  Qed.

  Theorem layer_like_is_batch_plan B (p pre body post : list stmt) :
    1 <= B ->
    p = pre ++ ForPoints body :: post ->
    run_list None pre linit = mkL true [] 0 [] 0 false false ->
    (forall s x, List.length (l_pts s) < B -> run_list (Some x) body s = body_step B s x) ->
    (forall s, List.length (l_pts s) < B -> run_list None post s = run_list None layer_post s) ->
    let s := lexec p linit in
    l_sent s = batch_plan Pt B points /\ l_adds s = List.length (l_sent s) /\
    l_early s = false /\ l_waited s = true /\ l_req s = true.
  Proof.
    intros HB -> Hpre Hbody Hpost.
    assert (E : lexec (pre ++ ForPoints body :: post) linit = lexec (layer_prog B) linit).
    { unfold lexec. rewrite fold_left_app. cbn [fold_left]. cbn [lexec1].
      change (fold_left (fun s st => lexec1 None st s) pre linit) with (run_list None pre linit). rewrite Hpre.
      change (fold_left (fun s0 x => fold_left (fun s1 st => lexec1 (Some x) st s1) body s0) points ?t)
        with (fold_left (fun s0 x => run_list (Some x) body s0) points t).
      destruct (loop_same B body HB Hbody points (mkL true [] 0 [] 0 false false)) as [El Hl]; [cbn; lia|].
      rewrite El.
      change (fold_left (fun s st => lexec1 None st s) post ?t) with (run_list None post t).
      rewrite (Hpost _ Hl). unfold layer_prog. cbn [fold_left]. cbn [lexec1 lprim].
      reflexivity. }
    cbv zeta. rewrite E. apply layer_program_is_batch_plan.
  Qed.

  (* where the loop over the points stands in a program *)
  Fixpoint split_points (p : list stmt) : option (list stmt * list stmt * list stmt) :=
    match p with
    | [] => None
    | ForPoints b :: r => Some ([], b, r)
    | s :: r => match split_points r with Some (pre, b, post) => Some (s :: pre, b, post) | None => None end
    end.

  Lemma split_points_ok p : forall pre b post, split_points p = Some (pre, b, post) -> p = pre ++ ForPoints b :: post.
  Proof.
    induction p as [|s r IH]; intros pre b post H; [discriminate|].
    assert (G : forall pre' , split_points r = Some (pre', b, post) -> pre = s :: pre' -> s :: r = pre ++ ForPoints b :: post).
    { intros pre' H' ->. cbn. f_equal. now apply IH. }
    destruct s; cbn [split_points] in H;
      try (destruct (split_points r) as [[[pre' b'] post']|]; [|discriminate]; inversion H; subst; eapply G; reflexivity).
    inversion H; subst. reflexivity.
  Qed.
End Layer.

(* the three facts about a program of Generated/SysProgs.v, decided by computation and by case
   analysis on the comparisons of lengths *)
Ltac sched_nat_bools :=
  repeat match goal with
  | H : (_ <=? _) = true |- _ => apply Nat.leb_le in H
  | H : (_ <=? _) = false |- _ => apply Nat.leb_gt in H
  | H : (_ <? _) = true |- _ => apply Nat.ltb_lt in H
  | H : (_ <? _) = false |- _ => apply Nat.ltb_ge in H
  | H : (_ =? _) = true |- _ => apply Nat.eqb_eq in H
  | H : (_ =? _) = false |- _ => apply Nat.eqb_neq in H
  | H : negb _ = true |- _ => apply negb_true_iff in H
  | H : negb _ = false |- _ => apply negb_false_iff in H
  end.

Ltac sched_split_ifs :=
  repeat match goal with
  | |- context [if ?b then _ else _] => let E := fresh "E" in destruct b eqn:E
  end;
  try reflexivity; exfalso; sched_nat_bools; rewrite ?app_length in *; cbn [List.length] in *; lia.

Ltac layer_like B :=
  eapply (@layer_like_is_batch_plan _ _ B);
  [ apply Nat.leb_le; vm_compute; reflexivity
  | apply split_points_ok; vm_compute; reflexivity
  | vm_compute; reflexivity
  | let s := fresh "s" in let x := fresh "x" in let H := fresh "H" in
    intros s x H; rewrite body_step_eq; destruct s; unfold run_list;
    cbn [fold_left lexec1 lprim cmp_nat l_req l_pts l_off l_sent l_adds l_early l_waited] in *; sched_split_ifs
  | let s := fresh "s" in let H := fresh "H" in
    intros s H; destruct s; unfold run_list, layer_post;
    cbn [fold_left lexec1 lprim cmp_nat l_req l_pts l_off l_sent l_adds l_early l_waited] in *; sched_split_ifs ].

(* ------------------------------------------------------------------ 2. the evaluation routines *)

(* the program of one routine, up to Data statements: PoolProg.worker_prog =
   [RangeChan [RangeItems [Do PEvalStore]; Do PReqDone]] *)

Section Workers.
  Variable Pt Val : Type.
  Variable mine : nat.

  Notation st := (Sched.st Pt Val).
  Notation exec := (Sched.exec Pt Val mine).

  Inductive wpos :=
  | WIdle           (* at `for r := range evalProcessCh` *)
  | WLoop           (* at `for i, p = range r.p` *)
  | WStore          (* at `r.out[i] = r.fn(p)` *)
  | WDone.          (* at `r.wg.Done()` *)

  (* r.wg.Done() is executed unconditionally when control reaches it *)
  Definition done_effect (k : nat) (s : st) : st :=
    match s_w _ _ s k with
    | Some (r, i) => mkSt _ _ (s_q _ _ s) (s_pend _ _ s) (upd (s_w _ _ s) k None) (s_m _ _ s) (s_wr _ _ s) (r :: s_done _ _ s)
    | None => s
    end.

  (* one statement of routine k; None: blocked on the empty queue *)
  Definition wstep (k : nat) (s : st) (p : wpos) : option (st * wpos) :=
    match p with
    | WIdle =>
        match s_q _ _ s with
        | _ :: _ => Some (exec (ATake _ _ k) s, WLoop)
        | [] => None
        end
    | WLoop =>
        match s_w _ _ s k with
        | Some (r, i) => Some (s, if i <? List.length (r_pts _ _ r) then WStore else WDone)
        | None => None
        end
    | WStore => Some (exec (AWrite _ _ k) s, WLoop)
    | WDone => Some (done_effect k s, WIdle)
    end.

  (* what a routine is doing, in terms of Sched.v's worker table *)
  Definition pos_ok (s : st) (k : nat) (p : wpos) : Prop :=
    match p with
    | WIdle => s_w _ _ s k = None
    | WLoop => exists r i, s_w _ _ s k = Some (r, i)
    | WStore => exists r i, s_w _ _ s k = Some (r, i) /\ i < List.length (r_pts _ _ r)
    | WDone => exists r i, s_w _ _ s k = Some (r, i) /\ List.length (r_pts _ _ r) <= i
    end.

  Inductive event :=
  | EWorker (k : nat)                       (* routine k executes its next statement *)
  | EEnv (a : action Pt Val).               (* the layer loop sends, another render sends *)

  Definition env_action (a : action Pt Val) : bool :=
    match a with ASend _ _ | AForeign _ _ _ => true | _ => false end.

  Record sys := mkSys { y_s : st; y_p : nat -> wpos }.

  Definition estep (y : sys) (e : event) : sys :=
    match e with
    | EWorker k =>
        match wstep k (y_s y) (y_p y k) with
        | Some (s', p') => mkSys s' (upd (y_p y) k p')
        | None => y
        end
    | EEnv a => if env_action a then mkSys (exec a (y_s y)) (y_p y) else y
    end.

  Definition erun (es : list event) (y : sys) : sys := fold_left estep es y.

  Definition sys_ok (y : sys) : Prop := forall k, pos_ok (y_s y) k (y_p y k).

  Lemma exec_other_worker a s k :
    (forall k', a = ATake _ _ k' \/ a = AWrite _ _ k' \/ a = ADone _ _ k' -> k' <> k) ->
    s_w _ _ (exec a s) k = s_w _ _ s k.
  Proof.
    intros H. destruct a as [|r|k'|k'|k']; cbn.
    - destruct (s_pend _ _ s); reflexivity.
    - reflexivity.
    - assert (k' <> k) by (apply H; auto). destruct (s_w _ _ s k'), (s_q _ _ s); try reflexivity. cbn. apply upd_other; congruence.
    - assert (k' <> k) by (apply H; auto). destruct (s_w _ _ s k') as [[r i]|]; [|reflexivity].
      destruct (nth_error _ i); [|reflexivity]. cbn. apply upd_other; congruence.
    - assert (k' <> k) by (apply H; auto). destruct (s_w _ _ s k') as [[r i]|]; [|reflexivity].
      destruct (_ <=? i); [|reflexivity]. cbn. apply upd_other; congruence.
  Qed.

  (* each event is the empty schedule or one action of Sched.exec *)
  Lemma estep_is_exec y e : sys_ok y ->
    sys_ok (estep y e) /\
    (y_s (estep y e) = y_s y \/
     exists a, y_s (estep y e) = exec a (y_s y) /\
               match e with EWorker k => a = ATake _ _ k \/ a = AWrite _ _ k \/ a = ADone _ _ k | EEnv a' => a = a' /\ env_action a' = true end).
  Proof.
    intros Hok. destruct e as [k|a]; cbn [estep].
    - pose proof (Hok k) as Hk. destruct (y_p y k) eqn:Ep; cbn [wstep pos_ok] in *.
      + (* take *)
        destruct (s_q _ _ (y_s y)) as [|r rest] eqn:Eq; [split; [exact Hok | now left]|].
        split.
        * intros k'. cbn [y_s y_p]. destruct (Nat.eq_dec k' k) as [->|Hne].
          -- rewrite upd_same. cbn. rewrite Hk, Eq. cbn. rewrite upd_same. eauto.
          -- rewrite upd_other by exact Hne. specialize (Hok k').
             assert (Hw : s_w _ _ (exec (ATake _ _ k) (y_s y)) k' = s_w _ _ (y_s y) k').
             { apply exec_other_worker. intros k'' [H|[H|H]]; inversion H; subst; auto. }
             destruct (y_p y k'); cbn [pos_ok] in *; rewrite Hw; exact Hok.
        * right. exists (ATake _ _ k). cbn. auto.
      + (* loop head *)
        destruct Hk as (r & i & Hw). rewrite Hw. split; [|now left].
        intros k'. cbn [y_s y_p]. destruct (Nat.eq_dec k' k) as [->|Hne].
        * rewrite upd_same. destruct (i <? List.length (r_pts _ _ r)) eqn:E; cbn [pos_ok]; exists r, i; split; auto.
          -- now apply Nat.ltb_lt.
          -- now apply Nat.ltb_ge.
        * rewrite upd_other by exact Hne. apply Hok.
      + (* store *)
        destruct Hk as (r & i & Hw & Hi). split.
        * intros k'. cbn [y_s y_p]. destruct (Nat.eq_dec k' k) as [->|Hne].
          -- rewrite upd_same. cbn. rewrite Hw.
             destruct (nth_error (r_pts _ _ r) i) eqn:En; [|apply nth_error_None in En; lia].
             cbn. rewrite upd_same. eauto.
          -- rewrite upd_other by exact Hne. specialize (Hok k').
             assert (Hw' : s_w _ _ (exec (AWrite _ _ k) (y_s y)) k' = s_w _ _ (y_s y) k').
             { apply exec_other_worker. intros k'' [H|[H|H]]; inversion H; subst; auto. }
             destruct (y_p y k'); cbn [pos_ok] in *; rewrite Hw'; exact Hok.
        * right. exists (AWrite _ _ k). cbn. auto.
      + (* done: the guard of Sched.exec holds because the loop has run to its end *)
        destruct Hk as (r & i & Hw & Hi).
        assert (Hd : done_effect k (y_s y) = exec (ADone _ _ k) (y_s y)).
        { unfold done_effect. cbn. rewrite Hw. replace (List.length (r_pts _ _ r) <=? i) with true by (symmetry; now apply Nat.leb_le). reflexivity. }
        split.
        * intros k'. cbn [y_s y_p]. destruct (Nat.eq_dec k' k) as [->|Hne].
          -- rewrite upd_same. cbn. unfold done_effect. rewrite Hw. cbn. apply upd_same.
          -- rewrite upd_other by exact Hne. specialize (Hok k'). rewrite Hd.
             assert (Hw' : s_w _ _ (exec (ADone _ _ k) (y_s y)) k' = s_w _ _ (y_s y) k').
             { apply exec_other_worker. intros k'' [H|[H|H]]; inversion H; subst; auto. }
             destruct (y_p y k'); cbn [pos_ok] in *; rewrite Hw'; exact Hok.
        * right. exists (ADone _ _ k). cbn [y_s]. auto.
    - destruct (env_action a) eqn:Ea; [|split; [exact Hok | now left]]. split.
      + intros k. cbn [y_s y_p]. specialize (Hok k).
        assert (Hw : s_w _ _ (exec a (y_s y)) k = s_w _ _ (y_s y) k).
        { apply exec_other_worker. intros k' [H|[H|H]]; subst; discriminate. }
        destruct (y_p y k); cbn [pos_ok] in *; rewrite Hw; exact Hok.
      + right. exists a. auto.
  Qed.

  (* Any interleaving of the statements of any number of evaluation routines with the sends
     of this layer and of other renders is a schedule of Sched.v (which contains no foreign
     request the events did not contain). *)
  Theorem workers_refine_sched (es : list event) (y : sys) :
    sys_ok y ->
    Forall (fun e => match e with EEnv a => foreign_ok Pt Val mine a | _ => True end) es ->
    exists sched, y_s (erun es y) = Sched.run Pt Val mine sched (y_s y) /\
                  Forall (foreign_ok Pt Val mine) sched /\ sys_ok (erun es y).
  Proof.
    revert y. induction es as [|e es IH]; intros y Hok Hf.
    - exists []. cbn. auto.
    - inversion Hf as [|? ? He Hf']; subst. cbn [erun fold_left].
      destruct (estep_is_exec y e Hok) as [Hok' Hs].
      destruct (IH (estep y e) Hok' Hf') as (sched & Hr & Hfo & Hok'').
      destruct Hs as [Hs|(a & Hs & Ha)].
      + exists sched. unfold erun in *. rewrite Hr, Hs. auto.
      + exists (a :: sched). unfold erun in *. rewrite Hr, Hs. cbn. split; [reflexivity|]. split; [|exact Hok''].
        constructor; [|exact Hfo]. destruct e as [k|a'].
        * destruct Ha as [->|[->| ->]]; exact I.
        * destruct Ha as [-> _]. exact He.
  Qed.

  (* the routines idle, the table of Sched.v empty: a correct starting point *)
  Lemma sys_ok_idle (s : st) : (forall k, s_w _ _ s k = None) -> sys_ok (mkSys s (fun _ => WIdle)).
  Proof. intros H k. cbn. apply H. Qed.
End Workers.

