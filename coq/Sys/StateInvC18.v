(* StateInvC18.v - the inventory-of-mutable-state obligation of C18: the package-level variables and
   struct fields in the scope of C18 (coq/Sys/StateInvSpec.v), regenerated from the current source by
   harness/stategen on every run (coq/Generated/StateInv.v), contain no state beyond the expected,
   reviewed inventory.  When this fails coqc prints the differences (the value of state_diff_C18). *)
From Coq Require Import List String.
From Sdfx Require Import Sys.StateInvDefs Generated.StateInv Sys.StateInvSpec.
Import ListNotations.

Lemma C18_state_diff_nil : state_diff_C18 = [].
Proof. vm_compute. reflexivity. Qed.

Lemma C18_state_inventory : state_ok_C18 = true.
Proof. exact (is_nil_true _ _ C18_state_diff_nil). Qed.
