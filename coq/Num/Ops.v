(* One model text, three number systems (DESIGN.md 2.1): every numeric function
   of the model is written once over this record of operations. *)
From Coq Require Import ZArith Bool.

Record Ops : Type := mkOps {
  T : Type;
  o0 : T; o1 : T;
  oadd : T -> T -> T; osub : T -> T -> T; omul : T -> T -> T; odiv : T -> T -> T;
  oneg : T -> T; oabs : T -> T; osqrt : T -> T;
  oltb : T -> T -> bool; oleb : T -> T -> bool; oeqb : T -> T -> bool;
  omin : T -> T -> T; omax : T -> T -> T;      (* math.Min / math.Max *)
  ofZ : Z -> T;                               (* float64(int) *)
  otoZ : T -> Z;                               (* int(x): truncation toward o0 *)
  ofloor : T -> T; oceil : T -> T;
  ofmod : T -> T -> T;                         (* math.Mod *)
  osin : T -> T; ocos : T -> T; otan : T -> T;
  oatan : T -> T; oatan2 : T -> T -> T; oacos : T -> T;
  opi : T;
  omaxf : T                                 (* math.MaxFloat64, the fold sentinel *)
}.

Declare Scope ops_scope.
Delimit Scope ops_scope with o.
Module OpsNotations.
  Notation "x + y" := (oadd _ x y) : ops_scope.
  Notation "x - y" := (osub _ x y) : ops_scope.
  Notation "x * y" := (omul _ x y) : ops_scope.
  Notation "x / y" := (odiv _ x y) : ops_scope.
  Notation "- x" := (oneg _ x) : ops_scope.
  Notation "x <? y" := (oltb _ x y) (at level 70, no associativity) : ops_scope.
  Notation "x <=? y" := (oleb _ x y) (at level 70, no associativity) : ops_scope.
  Notation "x =? y" := (oeqb _ x y) (at level 70, no associativity) : ops_scope.
  Notation "x >? y" := (oltb _ y x) (at level 70, no associativity) : ops_scope.
  Notation "x >=? y" := (oleb _ y x) (at level 70, no associativity) : ops_scope.
End OpsNotations.

Section Derived.
  Context {O : Ops}.
  Import OpsNotations.
  Local Open Scope ops_scope.
  Definition two : T O := o1 O + o1 O.
  Definition half : T O := o1 O / two.
  Definition cst (n d : Z) : T O := ofZ O n / ofZ O d.   (* a decimal constant n/d, both < 2^53 *)
  Definition sq (x : T O) : T O := x * x.
  (* sdf.Clamp(x, a, b) = math.Max(a, math.Min(x, b))?  see utils.go: written at its use site *)
End Derived.
