(* GoMath: a Gallina port of Go 1.23's float64 `math` functions (pure-Go sources
   $GOROOT/src/math/{sin,tan,atan,atan2,asin,floor,mod,exp,log,pow,hypot,log10,
   frexp,ldexp,modf,trig_reduce,dim}.go) to Coq's primitive binary64 floats.

   Every definition follows the Go source statement by statement: same constants
   (the float64 value of each Go constant expression, written as an exact hex
   literal), same association of every sum and product, same branch order and the
   same `<` / `<=`.  amd64 with GOAMD64=v1 has no fused multiply-add, so each Go
   operator is one IEEE-754 round-to-nearest-even operation = one PrimFloat
   primitive.  Everything evaluates with vm_compute; the common paths use only
   PrimFloat and Uint63 primitives (no Z).

   Exactness against the real library (checked by harness/cmd/gomath on every run):
     bit for bit : sin cos tan atan atan2 asin acos floor ceil trunc round fmin fmax
                   fmod sqrt fabs of_Z to_Z hypot log_amd64 (and `log` on normal x)
     pure-Go port: exp log pow log2 are bit for bit equal to the pure-Go functions
                   exp/log/pow/log2 of the math package; the math.Exp that amd64
                   really runs is an assembly routine with another algorithm (FMA
                   when the CPU has it), so exp and the fractional-exponent branch
                   of pow agree with math.Exp / math.Pow only to the last bit or two
                   (measured and printed by the cases files as U_<fn>).
     math.Log on amd64 is assembly that follows log.go operation by operation, with
     two differences: it does not normalise subnormal arguments (so math.Log of a
     subnormal is simply wrong on amd64) and it tests f1 <= Sqrt2/2 instead of <.
     `log` is the pure-Go function, `log_amd64` is what amd64 executes.

   NaN results are the Coq `nan`; comparisons canonicalise NaN (`bits`). *)
From Coq Require Import Floats ZArith Uint63 List Bool.
Import ListNotations.
Local Open Scope float_scope.

(* ------------------------------------------------------------------ basics *)

Definition is_nan (x : float) : bool := negb (x =? x).                    (* f != f *)
Definition is_inf (x : float) : bool := PrimFloat.abs x =? infinity.      (* IsInf(x, 0) *)
Definition is_pinf (x : float) : bool := x =? infinity.                   (* IsInf(x, 1) *)
Definition is_ninf (x : float) : bool := x =? neg_infinity.               (* IsInf(x, -1) *)
Definition fabs (x : float) : float := PrimFloat.abs x.
Definition sqrt (x : float) : float := PrimFloat.sqrt x.
(* Signbit for a non-NaN argument *)
Definition signbit (x : float) : bool := if x =? 0 then 1 / x <? 0 else x <? 0.
(* Copysign(c, s) for c >= 0 and s not NaN *)
Definition copysign_pos (c s : float) : float := if signbit s then - c else c.

(* exponents travel as Uint63 numbers shifted by 2101, as frshiftexp/ldshiftexp do *)
Definition eshift : int := 2101%uint63.

(* uint64(p) / int64(p) for finite 0 <= p < 2^63: truncation, Uint63 primitives only.
   p = m * 2^(e-2101) with 1/2 <= m < 1, M = m * 2^53, hence p = M * 2^(e-2154). *)
Definition u63_trunc (p : float) : int :=
  let (m, e) := frshiftexp p in
  let M := normfr_mantissa m in
  if (e <=? 2101)%uint63 then 0%uint63
  else if (e <=? 2154)%uint63 then (M >> (2154 - e))%uint63
  else (M << (e - 2154))%uint63.

Definition two52 : float := 0x1p+52.
Definition two63 : float := 0x1p+63.
Definition z_two63 : Z := Eval compute in (2 ^ 63)%Z.
Definition z_two52 : Z := Eval compute in (2 ^ 52)%Z.
Definition z_m64 : Z := Eval compute in (2 ^ 64 - 1)%Z.
Definition z_m52 : Z := Eval compute in (2 ^ 52 - 1)%Z.
Definition z_m192 : Z := Eval compute in (2 ^ 192 - 1)%Z.

(* float64(z) for an int64 z (correctly rounded: of_uint63 rounds to nearest even) *)
Definition of_Z (z : Z) : float :=
  if (z <? 0)%Z then
    if (z =? - z_two63)%Z then - two63 else - of_uint63 (Uint63.of_Z (- z))
  else of_uint63 (Uint63.of_Z z).

(* int64(x): truncation toward zero for |x| < 2^63; outside that range (and for NaN)
   the amd64 CVTTSD2SQ instruction yields the "integer indefinite" -2^63. *)
Definition to_Z (x : float) : Z :=
  let a := PrimFloat.abs x in
  if a <? two63 then
    let n := Uint63.to_Z (u63_trunc a) in
    if x <? 0 then (- n)%Z else n
  else (- z_two63)%Z.

(* the 64 bits of a float (Float64bits), NaN canonicalised to Go's NaN() *)
Definition bits (x : float) : Z :=
  match Prim2SF x with
  | S754_nan => 0x7FF8000000000001%Z
  | S754_zero s => if s then z_two63 else 0%Z
  | S754_infinity s => if s then 0xFFF0000000000000%Z else 0x7FF0000000000000%Z
  | S754_finite s m e =>
      let m := Zpos m in
      let r := if (m <? z_two52)%Z then m
               else ((e + 1075) * z_two52 + (m - z_two52))%Z in
      if s then (z_two63 + r)%Z else r
  end.

(* Float64frombits *)
Definition of_bits (b : Z) : float :=
  let e := Z.land (Z.shiftr b 52) 0x7FF in
  let f := Z.land b z_m52 in
  let a :=
    if (e =? 0x7FF)%Z then (if (f =? 0)%Z then infinity else nan)
    else if (e =? 0)%Z then ldshiftexp (of_uint63 (Uint63.of_Z f)) (2101 - 1074)%uint63
    else ldshiftexp (of_uint63 (Uint63.of_Z (f + z_two52))) (Uint63.of_Z (2101 - 1075 + e)) in
  if Z.testbit b 63 then - a else a.

(* distance in units in the last place between two bit patterns (ordered encoding) *)
Definition okey (b : Z) : Z := if (b <? z_two63)%Z then b else (z_two63 - b)%Z.
Definition ulp_dist (a b : Z) : Z := Z.abs (okey a - okey b).

(* ------------------------------------------------------------------ floor.go, modf.go *)

(* integer part of f >= 0 (the `int` result of Modf): exact.  For f < 2^52 the sum
   f + 2^52 is f rounded to an integer (nearest even), corrected downwards. *)
Definition ipart (f : float) : float :=
  if f <? two52 then
    let t := (f + two52) - two52 in
    if f <? t then t - 1 else t
  else f.

Definition floor (x : float) : float :=
  if (x =? 0) || is_nan x || is_inf x then x
  else if x <? 0 then
    let d := ipart (- x) in
    let fract := (- x) - d in
    let d := if fract =? 0 then d else d + 1 in
    - d
  else ipart x.

Definition ceil (x : float) : float := - floor (- x).

Definition trunc (x : float) : float :=
  if (x =? 0) || is_nan x || is_inf x then x
  else if x <? 0 then - ipart (- x) else ipart x.

(* Round: half away from zero, sign of zero kept; |x| >= 2^52, Inf, NaN unchanged *)
Definition round (x : float) : float :=
  if is_nan x then x
  else
    let a := PrimFloat.abs x in
    if two52 <=? a then x
    else
      let t := ipart a in
      let r := if 0x1p-1 <=? a - t then t + 1 else t in
      if signbit x then - r else r.

(* Modf for finite f (both results) *)
Definition modf (f : float) : float * float :=
  if f <? 1 then
    if f <? 0 then let i := ipart (- f) in (- i, - ((- f) - i))
    else if f =? 0 then (f, f)
    else (0, f)
  else let i := ipart f in (i, f - i).

(* ------------------------------------------------------------------ dim.go *)

Definition fmax (x y : float) : float :=
  if is_pinf x || is_pinf y then infinity
  else if is_nan x || is_nan y then nan
  else if (x =? 0) && (x =? y) then (if signbit x then y else x)
  else if y <? x then x else y.

Definition fmin (x y : float) : float :=
  if is_ninf x || is_ninf y then neg_infinity
  else if is_nan x || is_nan y then nan
  else if (x =? 0) && (x =? y) then (if signbit x then x else y)
  else if x <? y then x else y.

(* ------------------------------------------------------------------ frexp.go, ldexp.go *)

(* Frexp: (frac, exp + 2101).  frshiftexp normalises subnormals as Go's normalize does. *)
Definition go_frexp (f : float) : float * int :=
  if (f =? 0) || is_inf f || is_nan f then (f, eshift) else frshiftexp f.

(* float64(e) for a shifted exponent *)
Definition float_of_sexp (e : int) : float :=
  if (eshift <=? e)%uint63 then of_uint63 (e - eshift) else - of_uint63 (eshift - e).

(* Ldexp(frac, exp) is the correctly rounded frac * 2^exp (overflow to Inf, gradual
   underflow), which is ldshiftexp / Z.ldexp. *)

(* ------------------------------------------------------------------ mod.go *)

Definition mod_step (r y yfr : float) (yexp : int) : float :=
  let (rfr, rexp) := frshiftexp r in
  let rexp := if rfr <? yfr then (rexp - 1)%uint63 else rexp in
  r - ldshiftexp y (rexp - yexp + eshift)%uint63.

(* `for r >= y { ... }`: at most 2^n iterations, leaves as soon as r < y *)
Fixpoint mod_iter (n : nat) (r y yfr : float) (yexp : int) : float :=
  if y <=? r then
    match n with
    | O => mod_step r y yfr yexp
    | S n' => mod_iter n' (mod_iter n' r y yfr yexp) y yfr yexp
    end
  else r.

Definition fmod (x y : float) : float :=
  if (y =? 0) || is_inf x || is_nan x || is_nan y then nan
  else
    let y := PrimFloat.abs y in
    let (yfr, yexp) := go_frexp y in
    let r := if x <? 0 then - x else x in
    let r := mod_iter 12 r y yfr yexp in
    if x <? 0 then - r else r.

(* ------------------------------------------------------------------ trig_reduce.go *)

Definition c_pi4 : float := 0x1.921fb54442d18p-1.    (* Pi/4 *)
Definition c_pi2 : float := 0x1.921fb54442d18p+0.    (* Pi/2 *)
Definition c_pi : float := 0x1.921fb54442d18p+1.     (* Pi *)
Definition c_3pi4 : float := 0x1.2d97c7f3321d2p+1.   (* 3*Pi/4 *)
Definition c_4_pi : float := 0x1.45f306dc9c883p+0.   (* 4/Pi *)
Definition reduceThreshold : float := 0x1p+29.

(* mPi4: the 20 64-bit digits of 4/Pi as one 1280-bit number *)
Definition mPi4 : Z :=
  0x000000000000000145f306dc9c882a53f84eafa3ea69bb81b6c52b3278872083fca2c757bd778ac36e48dc74849ba5c00c925dd413a32439fc3bd63962534e7dd1046bea5d768909d338e04d68befc827323ac7306a673e93908bf177bf250763ff12fffbc0b301fde5e2316b414da3eda6cfd9e4f96136e9e8c7ecd3cbfd45aea4f758fd7cbe2f67a0e73ef14a525d4d7f6bf623f1aba10ac06608df8f6d757%Z.

(* Payne-Hanek reduction for x >= reduceThreshold (any normal x >= Pi/4 works);
   64-bit integer arithmetic of the Go code done in Z with explicit masks. *)
Definition trig_reduce (x : float) : int * float :=
  if x <? c_pi4 then (0%uint63, x)
  else
    let b := bits x in
    let exp := (Z.land (Z.shiftr b 52) 0x7FF - 1023 - 52)%Z in
    let ix := (Z.land b z_m52 + z_two52)%Z in
    (* digit*64 + bitshift = exp + 61: the three digits z0 z1 z2 are the 192 bits of
       mPi4 that start exp+61 bits below its top *)
    let W := Z.land (Z.shiftr mPi4 (1280 - 192 - (exp + 61))) z_m192 in
    let z0 := Z.shiftr W 128 in
    let z1 := Z.land (Z.shiftr W 64) z_m64 in
    let z2 := Z.land W z_m64 in
    let z2hi := Z.shiftr (z2 * ix) 64 in
    let p1 := (z1 * ix)%Z in
    let z1hi := Z.shiftr p1 64 in
    let z1lo := Z.land p1 z_m64 in
    let z0lo := Z.land (z0 * ix) z_m64 in
    let s := (z1lo + z2hi)%Z in
    let lo := Z.land s z_m64 in
    let c := Z.shiftr s 64 in
    let hi := Z.land (z0lo + z1hi + c) z_m64 in
    let j := Z.shiftr hi 61 in
    let hi := Z.land (Z.lor (Z.shiftl hi 3) (Z.shiftr lo 61)) z_m64 in
    let lz := if (hi =? 0)%Z then 64%Z else (63 - Z.log2 hi)%Z in
    let e := (1023 - (lz + 1))%Z in
    let hi := if (lz =? 64)%Z then 0%Z
              else Z.land (Z.lor (Z.shiftl hi (lz + 1)) (Z.shiftr lo (64 - (lz + 1)))) z_m64 in
    let hi := Z.shiftr hi 12 in
    let hi := Z.lor hi (Z.shiftl e 52) in
    let z := of_bits hi in
    let odd := Z.odd j in
    let j := if odd then Z.land (j + 1) 7 else j in
    let z := if odd then z - 1 else z in
    (Uint63.of_Z j, z * c_pi4).

(* ------------------------------------------------------------------ sin.go *)

Definition PI4A : float := 0x1.921fb4p-1.
Definition PI4B : float := 0x1.4442dp-25.
Definition PI4C : float := 0x1.8469898cc517p-49.

Definition sin0 : float := 0x1.5d8fd1fd19ccdp-33.
Definition sin1 : float := Eval compute in (- 0x1.ae5e5a9291f5dp-26).
Definition sin2 : float := 0x1.71de3567d48a1p-19.
Definition sin3 : float := Eval compute in (- 0x1.a01a019bfdf03p-13).
Definition sin4 : float := 0x1.111111110f7dp-7.
Definition sin5 : float := Eval compute in (- 0x1.5555555555548p-3).
Definition cos0 : float := Eval compute in (- 0x1.8fa49a0861a9bp-37).
Definition cos1 : float := 0x1.1ee9d7b4e3f05p-29.
Definition cos2 : float := Eval compute in (- 0x1.27e4f7eac4bc6p-22).
Definition cos3 : float := 0x1.a01a019c844f5p-16.
Definition cos4 : float := Eval compute in (- 0x1.6c16c16c14f91p-10).
Definition cos5 : float := 0x1.555555555554bp-5.

(* Cody-Waite reduction, x < 2^29:  j = uint64(x*(4/Pi)); y = float64(j);
   if j&1 == 1 { j++; y++ };  z = ((x - y*PI4A) - y*PI4B) - y*PI4C.
   Returns j before the `j &= 7` of sin/cos (tan does not mask). *)
Definition cw_reduce (x : float) : int * float :=
  let j := u63_trunc (x * c_4_pi) in
  let y := of_uint63 j in
  let odd := (Uint63.land j 1 =? 1)%uint63 in
  let j := if odd then (j + 1)%uint63 else j in
  let y := if odd then y + 1 else y in
  (j, ((x - y * PI4A) - y * PI4B) - y * PI4C).

Definition sin_poly (z zz : float) : float :=
  z + z * zz * ((((((sin0 * zz) + sin1) * zz + sin2) * zz + sin3) * zz + sin4) * zz + sin5).
Definition cos_poly (zz : float) : float :=
  1 - 0x1p-1 * zz + zz * zz * ((((((cos0 * zz) + cos1) * zz + cos2) * zz + cos3) * zz + cos4) * zz + cos5).

Definition cos (x : float) : float :=
  if is_nan x || is_inf x then nan
  else
    let x := PrimFloat.abs x in
    let (j, z) := if reduceThreshold <=? x then trig_reduce x
                  else let (j, z) := cw_reduce x in (Uint63.land j 7, z) in
    let sign := false in
    let gt3 := (3 <? j)%uint63 in
    let j := if gt3 then (j - 4)%uint63 else j in
    let sign := if gt3 then negb sign else sign in
    let sign := if (1 <? j)%uint63 then negb sign else sign in
    let zz := z * z in
    let y := if (j =? 1)%uint63 || (j =? 2)%uint63 then sin_poly z zz else cos_poly zz in
    if sign then - y else y.

Definition sin (x : float) : float :=
  if (x =? 0) || is_nan x then x
  else if is_inf x then nan
  else
    let sign := x <? 0 in
    let x := if sign then - x else x in
    let (j, z) := if reduceThreshold <=? x then trig_reduce x
                  else let (j, z) := cw_reduce x in (Uint63.land j 7, z) in
    let gt3 := (3 <? j)%uint63 in
    let sign := if gt3 then negb sign else sign in
    let j := if gt3 then (j - 4)%uint63 else j in
    let zz := z * z in
    let y := if (j =? 1)%uint63 || (j =? 2)%uint63 then cos_poly zz else sin_poly z zz in
    if sign then - y else y.

(* ------------------------------------------------------------------ tan.go *)

Definition tanP0 : float := Eval compute in (- 0x1.992d8d24f3f38p+13).
Definition tanP1 : float := 0x1.199eca5fc9dddp+20.
Definition tanP2 : float := Eval compute in (- 0x1.11fead3299176p+24).
Definition tanQ1 : float := 0x1.ab8a5eeb36572p+13.
Definition tanQ2 : float := Eval compute in (- 0x1.427bc582abc96p+20).
Definition tanQ3 : float := 0x1.7d98fc2ead8efp+24.
Definition tanQ4 : float := Eval compute in (- 0x1.9afe03cbe5a31p+25).
Definition c_1em14 : float := 0x1.6849b86a12b9bp-47.   (* 1e-14 *)

Definition tan (x : float) : float :=
  if (x =? 0) || is_nan x then x
  else if is_inf x then nan
  else
    let sign := x <? 0 in
    let x := if sign then - x else x in
    let (j, z) := if reduceThreshold <=? x then trig_reduce x else cw_reduce x in
    let zz := z * z in
    let y := if c_1em14 <? zz
             then z + z * (zz * (((tanP0 * zz) + tanP1) * zz + tanP2) / ((((zz + tanQ1) * zz + tanQ2) * zz + tanQ3) * zz + tanQ4))
             else z in
    let y := if (Uint63.land j 2 =? 2)%uint63 then (- 1) / y else y in
    if sign then - y else y.

(* ------------------------------------------------------------------ atan.go *)

Definition atP0 : float := Eval compute in (- 0x1.c007fa1f72594p-1).
Definition atP1 : float := Eval compute in (- 0x1.028545b6b807ap+4).
Definition atP2 : float := Eval compute in (- 0x1.2c08c36880273p+6).
Definition atP3 : float := Eval compute in (- 0x1.eb8bf2d05ba25p+6).
Definition atP4 : float := Eval compute in (- 0x1.03669fd28ec8ep+6).
Definition atQ0 : float := 0x1.8dbc45b14603cp+4.
Definition atQ1 : float := 0x1.4a0dd43b8fa25p+7.
Definition atQ2 : float := 0x1.b0e18d2e2be3bp+8.
Definition atQ3 : float := 0x1.e563f13b049eap+8.
Definition atQ4 : float := 0x1.8519efbbd62ecp+7.
Definition Morebits : float := 0x1.1a62633145c07p-54.
Definition halfMorebits : float := 0x1.1a62633145c07p-55.   (* 0.5*Morebits *)
Definition Tan3pio8 : float := 0x1.3504f333f9de6p+1.
Definition c_0_66 : float := 0x1.51eb851eb851fp-1.
Definition c_0_7 : float := 0x1.6666666666666p-1.

Definition xatan (x : float) : float :=
  let z := x * x in
  let z := z * ((((atP0 * z + atP1) * z + atP2) * z + atP3) * z + atP4) / (((((z + atQ0) * z + atQ1) * z + atQ2) * z + atQ3) * z + atQ4) in
  x * z + x.

Definition satan (x : float) : float :=
  if x <=? c_0_66 then xatan x
  else if Tan3pio8 <? x then c_pi2 - xatan (1 / x) + Morebits
  else c_pi4 + xatan ((x - 1) / (x + 1)) + halfMorebits.

Definition atan (x : float) : float :=
  if x =? 0 then x
  else if 0 <? x then satan x
  else - satan (- x).

(* ------------------------------------------------------------------ asin.go *)

Definition asin (x : float) : float :=
  if x =? 0 then x
  else
    let sign := x <? 0 in
    let x := if sign then - x else x in
    if 1 <? x then nan
    else
      let temp := PrimFloat.sqrt (1 - x * x) in
      let temp := if c_0_7 <? x then c_pi2 - satan (temp / x) else satan (x / temp) in
      if sign then - temp else temp.

Definition acos (x : float) : float := c_pi2 - asin x.

(* ------------------------------------------------------------------ atan2.go *)

Definition atan2 (y x : float) : float :=
  if is_nan y || is_nan x then nan
  else if y =? 0 then
    (if (0 <=? x) && negb (signbit x) then copysign_pos 0 y else copysign_pos c_pi y)
  else if x =? 0 then copysign_pos c_pi2 y
  else if is_inf x then
    (if is_pinf x then (if is_inf y then copysign_pos c_pi4 y else copysign_pos 0 y)
     else (if is_inf y then copysign_pos c_3pi4 y else copysign_pos c_pi y))
  else if is_inf y then copysign_pos c_pi2 y
  else
    let q := atan (y / x) in
    if x <? 0 then (if q <=? 0 then q + c_pi else q - c_pi) else q.

(* ------------------------------------------------------------------ exp.go *)

Definition Ln2Hi : float := 0x1.62e42feep-1.
Definition Ln2Lo : float := 0x1.a39ef35793c76p-33.
Definition Log2e : float := 0x1.71547652b82fep+0.
Definition expOverflow : float := 0x1.62e42fefa39efp+9.
Definition expUnderflow : float := Eval compute in (- 0x1.74910d52d3051p+9).
Definition expNearZero : float := 0x1p-28.
Definition expNegNearZero : float := Eval compute in (- 0x1p-28).
Definition expP1 : float := 0x1.5555555555555p-3.
Definition expP2 : float := Eval compute in (- 0x1.6c16c16bebd93p-9).
Definition expP3 : float := 0x1.1566aaf25de2cp-14.
Definition expP4 : float := Eval compute in (- 0x1.bbd41c5d26bf1p-20).
Definition expP5 : float := 0x1.6376972bea4dp-25.

(* k is passed shifted by 2101 *)
Definition expmulti (hi lo : float) (k : int) : float :=
  let r := hi - lo in
  let t := r * r in
  let c := r - t * (expP1 + t * (expP2 + t * (expP3 + t * (expP4 + t * expP5)))) in
  let y := 1 - ((lo - (r * c) / (2 - c)) - hi) in
  ldshiftexp y k.

Definition exp (x : float) : float :=
  if is_nan x || is_pinf x then x
  else if is_ninf x then 0
  else if expOverflow <? x then infinity
  else if x <? expUnderflow then 0
  else if (expNegNearZero <? x) && (x <? expNearZero) then 1 + x
  else
    (* k = int(Log2e*x -+ 0.5), truncation toward zero; |k| <= 1075 *)
    let neg := x <? 0 in
    let ka := if neg then u63_trunc (- (Log2e * x - 0x1p-1)) else u63_trunc (Log2e * x + 0x1p-1) in
    let fa := of_uint63 ka in
    let fk := if neg then 0 - fa else fa in          (* float64(k); float64(0) = +0 *)
    let ks := if neg then (eshift - ka)%uint63 else (eshift + ka)%uint63 in
    let hi := x - fk * Ln2Hi in
    let lo := fk * Ln2Lo in
    expmulti hi lo ks.

(* ------------------------------------------------------------------ log.go *)

Definition L1 : float := 0x1.5555555555593p-1.
Definition L2 : float := 0x1.999999997fa04p-2.
Definition L3 : float := 0x1.2492494229359p-2.
Definition L4 : float := 0x1.c71c51d8e78afp-3.
Definition L5 : float := 0x1.7466496cb03dep-3.
Definition L6 : float := 0x1.39a09d078c69fp-3.
Definition L7 : float := 0x1.2f112df3e5244p-3.
Definition halfSqrt2 : float := 0x1.6a09e667f3bcdp-1.   (* Sqrt2/2 *)

(* the body of log after Frexp and the f1 < Sqrt2/2 adjustment *)
Definition log_core (f1 : float) (ki : int) : float :=
  let f := f1 - 1 in
  let k := float_of_sexp ki in
  let s := f / (2 + f) in
  let s2 := s * s in
  let s4 := s2 * s2 in
  let t1 := s2 * (L1 + s4 * (L3 + s4 * (L5 + s4 * L7))) in
  let t2 := s4 * (L2 + s4 * (L4 + s4 * L6)) in
  let R := t1 + t2 in
  let hfsq := 0x1p-1 * f * f in
  k * Ln2Hi - ((hfsq - (s * (hfsq + R) + k * Ln2Lo)) - f).

Definition log (x : float) : float :=
  if is_nan x || is_pinf x then x
  else if x <? 0 then nan
  else if x =? 0 then neg_infinity
  else
    let (f1, ki) := frshiftexp x in
    if f1 <? halfSqrt2 then log_core (f1 * 2) (ki - 1)%uint63 else log_core f1 ki.

(* what math.Log executes on amd64 (log_amd64.s): no normalisation of subnormal
   arguments (exponent field 0 is read as -1022, the fraction bits are or-ed into 0.5)
   and the comparison is f1 <= Sqrt2/2 *)
Definition log_amd64 (x : float) : float :=
  if is_nan x || is_pinf x then x
  else if x <? 0 then nan
  else if x =? 0 then neg_infinity
  else
    let (f1, ki) := if x <? 0x1p-1022 then (0x1p-1 + x * 0x1p+1021, (eshift - 1022)%uint63)
                    else frshiftexp x in
    if f1 <=? halfSqrt2 then log_core (f1 * 2) (ki - 1)%uint63 else log_core f1 ki.

(* ------------------------------------------------------------------ log10.go *)

Definition invLn2 : float := 0x1.71547652b82fep+0.   (* 1/Ln2 *)

Definition log2 (x : float) : float :=
  let (frac, e) := go_frexp x in
  if frac =? 0x1p-1 then float_of_sexp (e - 1)%uint63
  else log frac * invLn2 + float_of_sexp e.

Definition log2_amd64 (x : float) : float :=
  let (frac, e) := go_frexp x in
  if frac =? 0x1p-1 then float_of_sexp (e - 1)%uint63
  else log_amd64 frac * invLn2 + float_of_sexp e.

(* ------------------------------------------------------------------ hypot.go *)

Definition hypot (p q : float) : float :=
  let p := PrimFloat.abs p in
  let q := PrimFloat.abs q in
  if is_pinf p || is_pinf q then infinity
  else if is_nan p || is_nan q then nan
  else
    let p' := if p <? q then q else p in
    let q' := if p <? q then p else q in
    if p' =? 0 then 0
    else
      let q'' := q' / p' in
      p' * PrimFloat.sqrt (1 + q'' * q'').

(* ------------------------------------------------------------------ pow.go *)

Definition isOddInt (x : float) : bool :=
  if 0x1p+53 <=? PrimFloat.abs x then false
  else let (xi, xf) := modf x in (xf =? 0) && Z.odd (to_Z xi).

(* the `case x == 0` arm (y is neither 0 nor NaN) *)
Definition pow_zero (x y : float) : float :=
  if y <? 0 then (if signbit x && isOddInt y then neg_infinity else infinity)
  else (if signbit x && isOddInt y then x else 0).

(* for i := int64(yi); i != 0; i >>= 1 { ... } : recursion on the binary digits of i.
   Returns (a1, ae). *)
Fixpoint pow_loop (i : positive) (a1 x1 : float) (ae xe : Z) : float * Z :=
  if (xe <? -4096)%Z || (4096 <? xe)%Z then (a1, (ae + xe)%Z)
  else
    let bit := match i with xO _ => false | _ => true end in
    let a1 := if bit then a1 * x1 else a1 in
    let ae := if bit then (ae + xe)%Z else ae in
    match i with
    | xH => (a1, ae)
    | xO i' | xI i' =>
        let x1 := x1 * x1 in
        let xe := (2 * xe)%Z in
        let lt := x1 <? 0x1p-1 in
        let xe := if lt then (xe - 1)%Z else xe in
        let x1 := if lt then x1 + x1 else x1 in
        pow_loop i' a1 x1 ae xe
    end.

Definition pow_gen (fexp flog : float -> float) (x y : float) : float :=
  if (y =? 0) || (x =? 1) then 1
  else if y =? 1 then x
  else if is_nan x || is_nan y then nan
  else if x =? 0 then pow_zero x y
  else if is_inf y then
    (if x =? (- 1) then 1
     else if Bool.eqb (PrimFloat.abs x <? 1) (is_pinf y) then 0
     else infinity)
  else if is_inf x then
    (if is_ninf x then
       (* Pow(1/x, -y) = Pow(-0, -y) *)
       (let y' := - y in if y' =? 1 then (- 0) else pow_zero (- 0) y')
     else if y <? 0 then 0 else infinity)
  else if y =? 0x1p-1 then PrimFloat.sqrt x
  else if y =? (- 0x1p-1) then 1 / PrimFloat.sqrt x
  else
    let (yi, yf) := modf (PrimFloat.abs y) in
    if negb (yf =? 0) && (x <? 0) then nan
    else if two63 <=? yi then
      (if x =? (- 1) then 1
       else if Bool.eqb (PrimFloat.abs x <? 1) (0 <? y) then 0
       else infinity)
    else
      let big := negb (yf =? 0) && (0x1p-1 <? yf) in
      let yf' := if big then yf - 1 else yf in
      let yi' := if big then yi + 1 else yi in
      let a1 := if negb (yf =? 0) then fexp (yf' * flog x) else 1 in
      let (x1, xs) := go_frexp x in
      let xe := (Uint63.to_Z xs - 2101)%Z in
      let (a1, ae) := match to_Z yi' with
                      | Zpos i => pow_loop i a1 x1 0 xe
                      | _ => (a1, 0%Z)
                      end in
      let a1 := if y <? 0 then 1 / a1 else a1 in
      let ae := if y <? 0 then (- ae)%Z else ae in
      Z.ldexp a1 ae.

Definition pow : float -> float -> float := pow_gen exp log.

(* ------------------------------------------------------------------ correspondence *)

Definition case1 := (N * float * float)%type.            (* id, x, f(x) computed by Go *)
Definition case2 := (N * float * float * float)%type.    (* id, x, y, f(x,y) computed by Go *)
Definition caseZF := (N * Z * float)%type.               (* id, z, float64(z) *)
Definition caseFZ := (N * float * Z)%type.               (* id, x, int64(x) / class / Float64bits(x) *)
(* id, args, result of the pure-Go function, result of the function amd64 really runs *)
Definition case1u := (N * float * float * float)%type.
Definition case2u := (N * float * float * float * float)%type.

(* results are compared through their 64 bits (so -0 <> +0, NaN = NaN); Z literals are
   slow to parse, so the expected value travels as an exact hex float literal *)
Definition same (a b : float) : bool := (bits a =? bits b)%Z.
Definition udist (a b : float) : Z := ulp_dist (bits a) (bits b).

Definition mism1 (f : float -> float) (cs : list case1) : list N :=
  fold_right (fun c acc => let '(id, x, r) := c in
                           if same (f x) r then acc else id :: acc) [] cs.
Definition mism2 (f : float -> float -> float) (cs : list case2) : list N :=
  fold_right (fun c acc => let '(id, x, y, r) := c in
                           if same (f x y) r then acc else id :: acc) [] cs.
(* exact against the pure-Go function, within tol ulp of the real one *)
Definition mism1u (tol : Z) (f : float -> float) (cs : list case1u) : list N :=
  fold_right (fun c acc => let '(id, x, rp, rr) := c in
                           let v := f x in
                           if same v rp && (udist v rr <=? tol)%Z then acc else id :: acc) [] cs.
Definition mism2u (tol : Z) (f : float -> float -> float) (cs : list case2u) : list N :=
  fold_right (fun c acc => let '(id, x, y, rp, rr) := c in
                           let v := f x y in
                           if same v rp && (udist v rr <=? tol)%Z then acc else id :: acc) [] cs.
(* (largest distance in ulp to the real function, number of cases that differ) *)
Definition ulps1 (f : float -> float) (cs : list case1u) : Z * Z :=
  fold_right (fun c acc => let '(id, x, rp, rr) := c in
                           let d := udist (f x) rr in
                           (Z.max d (fst acc), if (d =? 0)%Z then snd acc else (snd acc + 1)%Z)) (0%Z, 0%Z) cs.
Definition ulps2 (f : float -> float -> float) (cs : list case2u) : Z * Z :=
  fold_right (fun c acc => let '(id, x, y, rp, rr) := c in
                           let d := udist (f x y) rr in
                           (Z.max d (fst acc), if (d =? 0)%Z then snd acc else (snd acc + 1)%Z)) (0%Z, 0%Z) cs.

Definition mm_sin := mism1 sin.
Definition mm_cos := mism1 cos.
Definition mm_tan := mism1 tan.
Definition mm_atan := mism1 atan.
Definition mm_asin := mism1 asin.
Definition mm_acos := mism1 acos.
Definition mm_floor := mism1 floor.
Definition mm_ceil := mism1 ceil.
Definition mm_trunc := mism1 trunc.
Definition mm_round := mism1 round.
Definition mm_sqrt := mism1 sqrt.
Definition mm_fabs := mism1 fabs.
Definition mm_log_amd64 := mism1 log_amd64.
Definition mm_log2_amd64 := mism1 log2_amd64.
Definition mm_atan2 := mism2 atan2.
Definition mm_fmin := mism2 fmin.
Definition mm_fmax := mism2 fmax.
Definition mm_fmod := mism2 fmod.
Definition mm_hypot := mism2 hypot.
Definition mm_of_Z (cs : list caseZF) : list N :=
  fold_right (fun c acc => let '(id, z, r) := c in
                           if same (of_Z z) r then acc else id :: acc) [] cs.
Definition mm_to_Z (cs : list caseFZ) : list N :=
  fold_right (fun c acc => let '(id, x, r) := c in
                           if (to_Z x =? r)%Z then acc else id :: acc) [] cs.
(* is_nan / is_inf: expected 0 = neither, 1 = NaN, 2 = Inf *)
Definition mm_class (cs : list caseFZ) : list N :=
  fold_right (fun c acc => let '(id, x, r) := c in
                           let k := if is_nan x then 1%Z else if is_inf x then 2%Z else 0%Z in
                           if (k =? r)%Z then acc else id :: acc) [] cs.
Definition mm_bits (cs : list caseFZ) : list N :=
  fold_right (fun c acc => let '(id, x, r) := c in
                           if (bits x =? r)%Z && (bits (of_bits r) =? r)%Z then acc else id :: acc) [] cs.
Definition mm_exp := mism1u 2 exp.
Definition mm_log := mism1u 1 log.
Definition mm_log2 := mism1u 1 log2.
Definition mm_pow := mism2u 8 pow.
Definition uu_exp := ulps1 exp.
Definition uu_log := ulps1 log.
Definition uu_log2 := ulps1 log2.
Definition uu_pow := ulps2 pow.

(* ------------------------------------------------------------------ lemmas *)
From Coq Require Import Lia.

(* an empty mismatch list means that every case agrees (what the cases files establish) *)
Lemma mism1_sound : forall f cs, mism1 f cs = [] ->
  Forall (fun c : case1 => let '(id, x, r) := c in bits (f x) = bits r) cs.
Proof.
  intros f cs; induction cs as [|c cs IH]; intros Hm; [constructor|].
  destruct c as [[id x] r]; cbn in Hm.
  destruct (same (f x) r) eqn:Hs; [|discriminate].
  constructor; [|exact (IH Hm)].
  unfold same in Hs. apply Z.eqb_eq in Hs. exact Hs.
Qed.

Lemma mism2_sound : forall f cs, mism2 f cs = [] ->
  Forall (fun c : case2 => let '(id, x, y, r) := c in bits (f x y) = bits r) cs.
Proof.
  intros f cs; induction cs as [|c cs IH]; intros Hm; [constructor|].
  destruct c as [[[id x] y] r]; cbn in Hm.
  destruct (same (f x y) r) eqn:Hs; [|discriminate].
  constructor; [|exact (IH Hm)].
  unfold same in Hs. apply Z.eqb_eq in Hs. exact Hs.
Qed.

Lemma mism1u_sound : forall tol f cs, mism1u tol f cs = [] ->
  Forall (fun c : case1u => let '(id, x, rp, rr) := c in
            bits (f x) = bits rp /\ (ulp_dist (bits (f x)) (bits rr) <= tol)%Z) cs.
Proof.
  intros tol f cs; induction cs as [|c cs IH]; intros Hm; [constructor|].
  destruct c as [[[id x] rp] rr]; cbn in Hm.
  destruct (same (f x) rp && (udist (f x) rr <=? tol)%Z) eqn:Hs; [|discriminate].
  constructor; [|exact (IH Hm)].
  apply andb_prop in Hs. destruct Hs as [Ha Hb].
  unfold same in Ha. apply Z.eqb_eq in Ha. apply Z.leb_le in Hb. split; assumption.
Qed.

(* ulp_dist is a pseudo-metric on bit patterns (+0 and -0 are at distance 0) *)
Lemma ulp_dist_refl : forall a, ulp_dist a a = 0%Z.
Proof. intros a; unfold ulp_dist; lia. Qed.
Lemma ulp_dist_sym : forall a b, ulp_dist a b = ulp_dist b a.
Proof. intros a b; unfold ulp_dist; lia. Qed.
Lemma ulp_dist_triangle : forall a b c, (ulp_dist a c <= ulp_dist a b + ulp_dist b c)%Z.
Proof. intros a b c; unfold ulp_dist; lia. Qed.
(* the ordered key is strictly increasing on the non-negative patterns and strictly
   decreasing on the negative ones, as the float order is *)
Lemma okey_pos_mono : forall a b, (0 <= a < b)%Z -> (b < z_two63)%Z -> (okey a < okey b)%Z.
Proof.
  intros a b Hab Hb; unfold okey.
  destruct (Z.ltb_spec a z_two63); destruct (Z.ltb_spec b z_two63); lia.
Qed.
Lemma okey_neg_anti : forall a b, (z_two63 <= a < b)%Z -> (okey b < okey a)%Z.
Proof.
  intros a b Hab; unfold okey.
  destruct (Z.ltb_spec a z_two63); destruct (Z.ltb_spec b z_two63); lia.
Qed.

(* finite-domain statements by reflection: P on lo, lo+1, ..., lo+2^k-1 *)
Fixpoint all_pow2 (k : nat) (P : Z -> bool) (lo : Z) : bool :=
  match k with
  | O => P lo
  | S k' => all_pow2 k' P lo && all_pow2 k' P (lo + 2 ^ Z.of_nat k')%Z
  end.

Lemma all_pow2_sound : forall k P lo, all_pow2 k P lo = true ->
  forall z, (lo <= z < lo + 2 ^ Z.of_nat k)%Z -> P z = true.
Proof.
  induction k as [|k IH]; intros P lo Hall z Hz.
  - cbn in Hz. assert (z = lo) by lia. subst z. exact Hall.
  - cbn [all_pow2] in Hall. apply andb_prop in Hall. destruct Hall as [Hl Hr].
    rewrite Nat2Z.inj_succ, Z.pow_succ_r in Hz by lia.
    destruct (Z.lt_ge_cases z (lo + 2 ^ Z.of_nat k)) as [Hlt|Hge].
    + apply (IH P lo Hl). lia.
    + apply (IH P (lo + 2 ^ Z.of_nat k)%Z Hr). lia.
Qed.

(* int64(float64(z)) = z for every 16-bit z *)
Lemma to_Z_of_Z_16 : forall z, (- 2 ^ 15 <= z < 2 ^ 15)%Z -> to_Z (of_Z z) = z.
Proof.
  intros z Hz.
  assert (Hc : all_pow2 16 (fun z => (to_Z (of_Z z) =? z)%Z) (- 2 ^ 15)%Z = true) by (vm_compute; reflexivity).
  apply Z.eqb_eq. apply (all_pow2_sound 16 _ _ Hc). change (2 ^ Z.of_nat 16)%Z with (2 ^ 16)%Z. lia.
Qed.

(* on the grid of multiples of 1/8 in [-1024, 1024) the four rounding functions are the
   integer operations they are named after (values compared with ==, so -0 = +0) *)
Definition grid_ok (k : Z) : bool :=
  let x := of_Z k / 0x1p+3 in
  (floor x =? of_Z (k / 8)) && (ceil x =? of_Z (- ((- k) / 8))) &&
  (trunc x =? of_Z (Z.quot k 8)) &&
  (round x =? of_Z (Z.quot (2 * k + Z.sgn k * 8) 16)).

Lemma rounding_grid : forall k, (- 2 ^ 13 <= k < 2 ^ 13)%Z -> grid_ok k = true.
Proof.
  intros k Hk.
  assert (Hc : all_pow2 14 grid_ok (- 2 ^ 13)%Z = true) by (vm_compute; reflexivity).
  apply (all_pow2_sound 14 _ _ Hc). change (2 ^ Z.of_nat 14)%Z with (2 ^ 14)%Z. lia.
Qed.

(* float64(z) of an integer below 2^53 has exactly the bits of the integer: sign,
   biased exponent of its bit length, fraction = the remaining bits (checked for 12-bit z) *)
Definition bits_of_int_ok (z : Z) : bool :=
  let b := bits (of_Z z) in
  if (z =? 0)%Z then (b =? 0)%Z
  else let a := Z.abs z in
       let l := Z.log2 a in
       (b =? (if (z <? 0)%Z then z_two63 else 0) + (l + 1023) * z_two52 + (a - 2 ^ l) * 2 ^ (52 - l))%Z.

Lemma bits_of_int_12 : forall z, (- 2 ^ 11 <= z < 2 ^ 11)%Z -> bits_of_int_ok z = true.
Proof.
  intros z Hz.
  assert (Hc : all_pow2 12 bits_of_int_ok (- 2 ^ 11)%Z = true) by (vm_compute; reflexivity).
  apply (all_pow2_sound 12 _ _ Hc). change (2 ^ Z.of_nat 12)%Z with (2 ^ 12)%Z. lia.
Qed.
