(* Loop combinators of the Go -> Gallina translators (harness/sdfgen) and the facts the
   equality proofs of Sdf/GenEq.v need about them.

     for _, x := range xs {..}    ->  fold_left (fun st x => ..) xs st0       (Coq.Lists.List)
     for i := range xs {..}       ->  range_loop xs 0 (fun i _ st => ..) st0
     for i, x := range xs {..}    ->  range_loop xs 0 (fun i x st => ..) st0
     for i := 0; i < n; i++ {..}  ->  count_loop (Z.to_nat n) 0 (fun i st => ..) st0
     xs[i] = v                    ->  list_set xs (Z.to_nat i) v
     xs[i]                        ->  nth (Z.to_nat i) xs zero

   `st` is the tuple of the variables of the enclosing scopes the loop body assigns.  Go ints
   are Z (no overflow is modelled: they are loop bounds and counts here).  An index that is out
   of range panics in Go; here `nth` returns the zero value and `list_set` leaves the list alone,
   so the correspondence is about executions that do not panic. *)
From Coq Require Import ZArith List Lia.
Import ListNotations.

(* n iterations, the counter starts at i *)
Fixpoint count_loop {A} (n : nat) (i : Z) (f : Z -> A -> A) (acc : A) : A :=
  match n with
  | 0%nat => acc
  | S n' => count_loop n' (i + 1)%Z f (f i acc)
  end.

(* one iteration per element, in order, with its index (starting at i) *)
Fixpoint range_loop {A S} (xs : list A) (i : Z) (f : Z -> A -> S -> S) (s : S) : S :=
  match xs with
  | [] => s
  | x :: r => range_loop r (i + 1)%Z f (f i x s)
  end.

Fixpoint list_set {A} (l : list A) (n : nat) (v : A) : list A :=
  match l, n with
  | [], _ => []
  | _ :: r, 0%nat => v :: r
  | x :: r, S n' => x :: list_set r n' v
  end.

Section Facts.
  Context {A S : Type}.

  Lemma list_set_length : forall (l : list A) n v, length (list_set l n v) = length l.
  Proof. induction l as [|x l IH]; intros [|n] v; cbn; auto. Qed.

  (* writing slot |pre| of pre ++ x :: post *)
  Lemma list_set_app : forall (pre post : list A) x v,
    list_set (pre ++ x :: post) (length pre) v = pre ++ v :: post.
  Proof. induction pre as [|y pre IH]; intros; cbn; [reflexivity | now rewrite IH]. Qed.

  Lemma nth_app_mid : forall (pre post : list A) x d, nth (length pre) (pre ++ x :: post) d = x.
  Proof. induction pre as [|y pre IH]; intros; cbn; auto. Qed.

  Lemma Z_to_nat_of_len : forall (l : list A), Z.to_nat (Z.of_nat (length l)) = length l.
  Proof. intros. apply Nat2Z.id. Qed.

  Lemma Z_to_nat_succ : forall n : nat, Z.to_nat (Z.of_nat n + 1) = Datatypes.S n.
  Proof. intros. lia. Qed.

  (* two bodies that agree on every (index, element, state) give the same loop *)
  Lemma range_loop_ext : forall (xs : list A) i (f g : Z -> A -> S -> S) s,
    (forall j x t, f j x t = g j x t) -> range_loop xs i f s = range_loop xs i g s.
  Proof. induction xs as [|x xs IH]; intros i f g s H; cbn; [reflexivity|]. rewrite H. now apply IH. Qed.

  Lemma count_loop_ext : forall n i (f g : Z -> S -> S) s,
    (forall j t, f j t = g j t) -> count_loop n i f s = count_loop n i g s.
  Proof. induction n as [|n IH]; intros i f g s H; cbn; [reflexivity|]. rewrite H. now apply IH. Qed.

  Lemma fold_left_ext : forall (xs : list A) (f g : S -> A -> S) s,
    (forall t x, f t x = g t x) -> fold_left f xs s = fold_left g xs s.
  Proof. induction xs as [|x xs IH]; intros f g s H; cbn; [reflexivity|]. rewrite H. now apply IH. Qed.

  (* a body that does not look at the index is a fold *)
  Lemma range_loop_fold : forall (xs : list A) i (f : S -> A -> S) s,
    range_loop xs i (fun _ x t => f t x) s = fold_left f xs s.
  Proof. induction xs as [|x xs IH]; intros; cbn; [reflexivity | apply IH]. Qed.

  (* a loop over xs that reads xs[i] (xs itself is not written by the body): the same loop on
     the element.  `pre` is the part of the slice already traversed. *)
  Lemma range_loop_nth_gen : forall (xs pre : list A) (d : A) (F : Z -> A -> S -> S) s,
    range_loop xs (Z.of_nat (length pre)) (fun i _ t => F i (nth (Z.to_nat i) (pre ++ xs) d) t) s =
    range_loop xs (Z.of_nat (length pre)) (fun i x t => F i x t) s.
  Proof.
    induction xs as [|x xs IH]; intros pre d F s; cbn; [reflexivity|].
    rewrite Nat2Z.id, nth_app_mid.
    replace (Z.of_nat (length pre) + 1)%Z with (Z.of_nat (length (pre ++ [x]))) by (rewrite app_length; cbn; lia).
    replace (pre ++ x :: xs) with ((pre ++ [x]) ++ xs) by (rewrite <- app_assoc; reflexivity).
    apply IH.
  Qed.

  Lemma range_loop_nth : forall (xs : list A) (d : A) (F : Z -> A -> S -> S) s,
    range_loop xs 0%Z (fun i _ t => F i (nth (Z.to_nat i) xs d) t) s = range_loop xs 0%Z F s.
  Proof. intros. exact (range_loop_nth_gen xs [] d F s). Qed.
End Facts.

(* for i := range v { v[i] = g(v[i]) }  is  map g *)
Lemma range_loop_set_map_gen : forall {A} (g : A -> A) (d : A) (xs pre : list A),
  range_loop xs (Z.of_nat (length pre))
             (fun i (_ : A) (v : list A) => list_set v (Z.to_nat i) (g (nth (Z.to_nat i) v d)))
             (pre ++ xs) = pre ++ map g xs.
Proof.
  intros A g d. induction xs as [|x xs IH]; intros pre; cbn; [reflexivity|].
  rewrite Nat2Z.id, nth_app_mid, list_set_app.
  replace (Z.of_nat (length pre) + 1)%Z with (Z.of_nat (length (pre ++ [g x]))) by (rewrite app_length; cbn; lia).
  replace (pre ++ g x :: xs) with ((pre ++ [g x]) ++ xs) by (rewrite <- app_assoc; reflexivity).
  rewrite IH, <- app_assoc. reflexivity.
Qed.

Lemma range_loop_set_map : forall {A} (g : A -> A) (d : A) (xs : list A),
  range_loop xs 0%Z (fun i (_ : A) (v : list A) => list_set v (Z.to_nat i) (g (nth (Z.to_nat i) v d))) xs = map g xs.
Proof. intros. exact (range_loop_set_map_gen g d xs []). Qed.

(* ys := make([]B, len(xs)); for i, x := range xs { ys[i] = g(x) }  is  map g xs *)
Lemma range_loop_fill_map_gen : forall {A B} (g : A -> B) (z : B) (xs : list A) (pre : list B),
  range_loop xs (Z.of_nat (length pre))
             (fun i (x : A) (ys : list B) => list_set ys (Z.to_nat i) (g x))
             (pre ++ repeat z (length xs)) = pre ++ map g xs.
Proof.
  intros A B g z. induction xs as [|x xs IH]; intros pre; cbn; [reflexivity|].
  rewrite Nat2Z.id, list_set_app.
  replace (Z.of_nat (length pre) + 1)%Z with (Z.of_nat (length (pre ++ [g x]))) by (rewrite app_length; cbn; lia).
  replace (pre ++ g x :: repeat z (length xs)) with ((pre ++ [g x]) ++ repeat z (length xs))
    by (rewrite <- app_assoc; reflexivity).
  rewrite IH, <- app_assoc. reflexivity.
Qed.

Lemma range_loop_fill_map : forall {A B} (g : A -> B) (z : B) (xs : list A),
  range_loop xs 0%Z (fun i (x : A) (ys : list B) => list_set ys (Z.to_nat i) (g x)) (repeat z (length xs)) = map g xs.
Proof. intros. exact (range_loop_fill_map_gen g z xs []). Qed.

(* out = out ++ [x] for every x: a copy *)
Lemma fold_left_append_copy : forall {A} (xs pre : list A),
  fold_left (fun acc x => acc ++ [x]) xs pre = pre ++ xs.
Proof.
  induction xs as [|x xs IH]; intros pre; cbn; [now rewrite app_nil_r|].
  rewrite IH, <- app_assoc. reflexivity.
Qed.

Lemma fold_left_map : forall {A B S} (f : S -> B -> S) (g : A -> B) (l : list A) (s : S),
  fold_left f (map g l) s = fold_left (fun t x => f t (g x)) l s.
Proof. intros A B S f g. induction l as [|x l IH]; intros; cbn; [reflexivity | apply IH]. Qed.

(* `for i, x := range xs { if i == 0 { d = g(x) } else { d = h(d, x) } }` *)
Lemma range_loop_first : forall {A S} (g : A -> S) (h : S -> A -> S) (F : Z -> A -> S -> S),
  (forall x s, F 0%Z x s = g x) -> (forall i x s, (0 < i)%Z -> F i x s = h s x) ->
  forall x0 r s0, range_loop (x0 :: r) 0%Z F s0 = fold_left h r (g x0).
Proof.
  intros A S g h F H0 H1 x0 r s0. cbn. rewrite H0. generalize (g x0).
  assert (G : forall r i s, (0 < i)%Z -> range_loop r i F s = fold_left h r s).
  { induction r0 as [|x r0 IH]; intros i s Hi; cbn; [reflexivity|]. rewrite H1 by exact Hi. apply IH. lia. }
  intro s. apply G. lia.
Qed.

(* stripping loop `for _, x := range xs { out = append(out, x) }` over a mapped list *)
Lemma fold_left_strip : forall {A B} (pf : A -> B) (F : list B -> B -> list B),
  (forall acc a, F acc (pf a) = acc ++ [pf a]) ->
  forall l pre, fold_left F (map pf l) pre = pre ++ map pf l.
Proof.
  intros A B pf F HF. induction l as [|x l IH]; intros pre; cbn; [now rewrite app_nil_r|].
  rewrite HF, IH, <- app_assoc. reflexivity.
Qed.

Lemma list_set_app_at : forall {A} (pre post : list A) x v n, n = length pre ->
  list_set (pre ++ x :: post) n v = pre ++ v :: post.
Proof. intros; subst. apply list_set_app. Qed.

Lemma nth_app_mid_at : forall {A} (pre post : list A) x d n, n = length pre -> nth n (pre ++ x :: post) d = x.
Proof. intros; subst. apply nth_app_mid. Qed.

Lemma Zeqb_of_nat : forall a b : nat, Z.eqb (Z.of_nat a) (Z.of_nat b) = Nat.eqb a b.
Proof.
  intros a b. destruct (Nat.eqb_spec a b) as [E|E]; [subst; apply Z.eqb_refl | apply Z.eqb_neq; lia].
Qed.

Lemma Z_of_nat_len_snoc : forall {A} (pre : list A) x, (Z.of_nat (length pre) + 1)%Z = Z.of_nat (length (pre ++ [x])).
Proof. intros. rewrite app_length. cbn. lia. Qed.

(* a loop over l whose body does not depend on the index (it may read l[i] instead of the element) is a fold *)
Lemma range_loop_as_fold_gen : forall {A S} (l : list A) (d : A) (h : S -> A -> S) (F : Z -> A -> S -> S),
  (forall i x s, nth (Z.to_nat i) l d = x -> F i x s = h s x) ->
  forall xs pre s, l = pre ++ xs -> range_loop xs (Z.of_nat (length pre)) F s = fold_left h xs s.
Proof.
  intros A S l d h F HF. induction xs as [|x xs IH]; intros pre s Hl; [reflexivity|].
  cbn [range_loop fold_left].
  rewrite (HF _ x) by (rewrite Nat2Z.id; subst l; apply nth_app_mid).
  rewrite (Z_of_nat_len_snoc pre x). apply IH. rewrite <- app_assoc. exact Hl.
Qed.

Lemma range_loop_as_fold : forall {A S} (l : list A) (d : A) (h : S -> A -> S) (F : Z -> A -> S -> S),
  (forall i x s, nth (Z.to_nat i) l d = x -> F i x s = h s x) ->
  forall s, range_loop l 0%Z F s = fold_left h l s.
Proof. intros A S l d h F HF s. exact (range_loop_as_fold_gen l d h F HF l [] s eq_refl). Qed.

(* `for i := range l { if i == 0 { d = g(l[i]) } else { d = h(d, l[i]) } }`, the body reading l[i] or the element *)
Lemma range_loop_first_at : forall {A S} (l : list A) (d : A) (g : A -> S) (h : S -> A -> S) (F : Z -> A -> S -> S),
  (forall x s, nth 0 l d = x -> F 0%Z x s = g x) ->
  (forall i x s, (0 < i)%Z -> nth (Z.to_nat i) l d = x -> F i x s = h s x) ->
  forall x0 r s0, l = x0 :: r -> range_loop l 0%Z F s0 = fold_left h r (g x0).
Proof.
  intros A S l d g h F H0 H1 x0 r s0 Hl. rewrite Hl at 1. cbn [range_loop].
  rewrite (H0 x0) by (subst l; reflexivity).
  assert (G : forall xs pre s, pre <> [] -> l = pre ++ xs ->
              range_loop xs (Z.of_nat (length pre)) F s = fold_left h xs s).
  { induction xs as [|x xs IH]; intros pre s Hne Hp; [reflexivity|].
    cbn [range_loop fold_left].
    rewrite (H1 _ x).
    - rewrite (Z_of_nat_len_snoc pre x). apply IH.
      + destruct pre; discriminate.
      + rewrite <- app_assoc. exact Hp.
    - destruct pre; [contradiction | cbn [length]; lia].
    - rewrite Nat2Z.id. rewrite Hp. apply nth_app_mid. }
  exact (G r [x0] (g x0) ltac:(discriminate) Hl).
Qed.
