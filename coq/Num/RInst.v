(* The real-number instance: every theorem is a statement about this one. *)
From Coq Require Import Reals ZArith Lra Lia Bool.
From Sdfx Require Import Num.Ops.
Open Scope R_scope.

Definition Rltb (x y : R) : bool := if Rlt_dec x y then true else false.
Definition Rleb (x y : R) : bool := if Rle_dec x y then true else false.
Definition Reqb (x y : R) : bool := if Req_EM_T x y then true else false.

Definition Rfloor (x : R) : R := IZR (Int_part x).
Definition Rceil (x : R) : R := - IZR (Int_part (- x)).
Definition Rtrunc (x : R) : Z := if Rle_dec 0 x then Int_part x else (- Int_part (- x))%Z.

(* atan2 y x by quadrant, (-PI, PI] *)
Definition Ratan2 (y x : R) : R :=
  if Rlt_dec 0 x then atan (y / x)
  else if Rlt_dec x 0 then (if Rle_dec 0 y then atan (y / x) + PI else atan (y / x) - PI)
  else if Rlt_dec 0 y then PI / 2
  else if Rlt_dec y 0 then - PI / 2
  else 0.

(* math.Mod: x - y * trunc(x / y), sign of x *)
Definition Rfmod (x y : R) : R := x - y * IZR (Rtrunc (x / y)).

Definition Rmaxfloat : R := IZR (2 ^ 1024 - 2 ^ 971).

Definition ROps : Ops := {|
  T := R; o0 := 0; o1 := 1;
  oadd := Rplus; osub := Rminus; omul := Rmult; odiv := Rdiv;
  oneg := Ropp; oabs := Rabs; osqrt := R_sqrt.sqrt;
  oltb := Rltb; oleb := Rleb; oeqb := Reqb;
  omin := Rmin; omax := Rmax;
  ofZ := IZR; otoZ := Rtrunc;
  ofloor := Rfloor; oceil := Rceil; ofmod := Rfmod;
  osin := Rtrigo_def.sin; ocos := Rtrigo_def.cos; otan := Rtrigo1.tan;
  oatan := Ratan.atan; oatan2 := Ratan2; oacos := Ratan.acos;
  opi := PI;
  omaxf := Rmaxfloat
|}.
Canonical Structure ROps.

Lemma Rltb_true x y : Rltb x y = true <-> x < y.
Proof. unfold Rltb; destruct (Rlt_dec x y); split; intros; try easy; lra. Qed.
Lemma Rltb_false x y : Rltb x y = false <-> y <= x.
Proof. unfold Rltb; destruct (Rlt_dec x y); split; intros; try easy; lra. Qed.
Lemma Rleb_true x y : Rleb x y = true <-> x <= y.
Proof. unfold Rleb; destruct (Rle_dec x y); split; intros; try easy; lra. Qed.
Lemma Rleb_false x y : Rleb x y = false <-> y < x.
Proof. unfold Rleb; destruct (Rle_dec x y); split; intros; try easy; lra. Qed.
Lemma Reqb_true x y : Reqb x y = true <-> x = y.
Proof. unfold Reqb; destruct (Req_EM_T x y); split; intros; try easy. Qed.
Lemma Reqb_false x y : Reqb x y = false <-> x <> y.
Proof. unfold Reqb; destruct (Req_EM_T x y); split; intros; try easy. Qed.

(* destruct every boolean comparison of the ROps instance appearing in the goal *)
Ltac rcmp :=
  repeat match goal with
  | |- context [Rltb ?x ?y] => let H := fresh "C" in destruct (Rltb x y) eqn:H; [apply Rltb_true in H | apply Rltb_false in H]
  | |- context [Rleb ?x ?y] => let H := fresh "C" in destruct (Rleb x y) eqn:H; [apply Rleb_true in H | apply Rleb_false in H]
  | |- context [Reqb ?x ?y] => let H := fresh "C" in destruct (Reqb x y) eqn:H; [apply Reqb_true in H | apply Reqb_false in H]
  end.
(* one comparison at a time (avoids the exponential blow-up of rcmp) *)
Ltac rcmp1 :=
  match goal with
  | |- context [Rltb ?x ?y] => let H := fresh "C" in destruct (Rltb x y) eqn:H; [apply Rltb_true in H | apply Rltb_false in H]
  | |- context [Rleb ?x ?y] => let H := fresh "C" in destruct (Rleb x y) eqn:H; [apply Rleb_true in H | apply Rleb_false in H]
  | |- context [Reqb ?x ?y] => let H := fresh "C" in destruct (Reqb x y) eqn:H; [apply Reqb_true in H | apply Reqb_false in H]
  end.

(* `ring`/`field` need the carrier to be syntactically R *)
Ltac rnorm := change (T ROps) with R in *.
Ltac rring := rnorm; ring.
Ltac rfield := rnorm; field.

Lemma Rfloor_spec x : Rfloor x <= x < Rfloor x + 1.
Proof. unfold Rfloor. destruct (base_Int_part x). lra. Qed.
