(* Exact rationals: executable specifications (sqrt/trig-free code only). *)
From Coq Require Import QArith Qround Qabs ZArith Bool.
From Sdfx Require Import Num.Ops.

Definition Qltb (x y : Q) : bool := negb (Qle_bool y x).
Definition Qabs' (x : Q) : Q := Qabs x.
Definition Qminb (x y : Q) : Q := if Qle_bool x y then x else y.
Definition Qmaxb (x y : Q) : Q := if Qle_bool x y then y else x.
Definition Qtrunc (x : Q) : Z := if Qle_bool 0 x then Qfloor x else (- Qfloor (- x))%Z.
Definition Qfmod (x y : Q) : Q := Qred (x - y * inject_Z (Qtrunc (x / y))).
Definition r2 (f : Q -> Q -> Q) (x y : Q) : Q := Qred (f x y).
Definition unused1 (x : Q) : Q := 0%Q.   (* sqrt and trigonometry are never executed at Q *)
Definition unused2 (x y : Q) : Q := 0%Q.

Definition QOps : Ops := {|
  T := Q; o0 := 0%Q; o1 := 1%Q;
  oadd := r2 Qplus; osub := r2 Qminus; omul := r2 Qmult; odiv := r2 Qdiv;
  oneg := Qopp; oabs := Qabs'; osqrt := unused1;
  oltb := Qltb; oleb := Qle_bool; oeqb := Qeq_bool;
  omin := Qminb; omax := Qmaxb;
  ofZ := inject_Z; otoZ := Qtrunc;
  ofloor := fun x => inject_Z (Qfloor x); oceil := fun x => inject_Z (Qceiling x);
  ofmod := Qfmod;
  osin := unused1; ocos := unused1; otan := unused1;
  oatan := unused1; oatan2 := unused2; oacos := unused1;
  opi := 0%Q;
  omaxf := inject_Z (2 ^ 1024 - 2 ^ 971)
|}.
Canonical Structure QOps.
