(* IEEE binary64 instance (Coq primitive floats, evaluated with vm_compute):
   bit-exact replay of what the Go code computes.  Trigonometry: Num/GoMath.v. *)
From Coq Require Import ZArith Floats Bool.
From Sdfx Require Import Num.Ops Num.GoMath.

Definition FOps : Ops := {|
  T := float; o0 := PrimFloat.zero; o1 := PrimFloat.one;
  oadd := PrimFloat.add; osub := PrimFloat.sub; omul := PrimFloat.mul; odiv := PrimFloat.div;
  oneg := PrimFloat.opp; oabs := PrimFloat.abs; osqrt := PrimFloat.sqrt;
  oltb := PrimFloat.ltb; oleb := PrimFloat.leb; oeqb := PrimFloat.eqb;
  omin := GoMath.fmin; omax := GoMath.fmax;
  ofZ := GoMath.of_Z; otoZ := GoMath.to_Z;
  ofloor := GoMath.floor; oceil := GoMath.ceil; ofmod := GoMath.fmod;
  osin := GoMath.sin; ocos := GoMath.cos; otan := GoMath.tan;
  oatan := GoMath.atan; oatan2 := GoMath.atan2; oacos := GoMath.acos;
  opi := 0x1.921fb54442d18p+1%float;
  omaxf := 0x1.fffffffffffffp+1023%float
|}.
Canonical Structure FOps.

(* ---- comparison of implementation floats with model floats *)
Definition fsame (x y : float) : bool :=
  (PrimFloat.is_nan x && PrimFloat.is_nan y) ||
  (PrimFloat.eqb x y && Bool.eqb (PrimFloat.get_sign x) (PrimFloat.get_sign y)).
(* agreement up to a harmless algebraic rewrite: relative 1e-12 (absolute below 1e-300) *)
Definition fclose (x y : float) : bool :=
  fsame x y ||
  PrimFloat.leb (PrimFloat.abs (x - y))
    (0x1.19799812dea11p-40 * (PrimFloat.abs x + PrimFloat.abs y) + 0x1p-1000)%float.

(* exact value of a finite float as a rational *)
From Coq Require Import QArith.
Definition F2Q (x : float) : Q :=
  match Prim2SF x with
  | SpecFloat.S754_finite s m e =>
      let z := if s then Z.neg m else Z.pos m in
      if (0 <=? e)%Z then inject_Z (z * 2 ^ e) else Qred (z # (Pos.pow 2 (Z.to_pos (- e))))
  | _ => 0%Q
  end.
