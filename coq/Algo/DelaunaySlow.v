(* render/delaunay.go Delaunay2dSlow (O'Rourke, Code 5.1: the lower convex hull of the points lifted
   onto the paraboloid z = x^2 + y^2, by testing every triple against every point), over the Ops
   record.  render/utils.go nextCombination enumerates the 3-subsets of 0..n-1 in lexicographic
   order starting at (0,1,2): here the three nested ranges. *)
From Coq Require Import ZArith List Bool Arith.
From Sdfx Require Import Num.Ops Geo.Vec.
Import OpsNotations ListNotations.
Local Open Scope ops_scope.

(* all i0 < i1 < i2 < n, lexicographically *)
Definition combos3 (n : nat) : list (nat * nat * nat) :=
  flat_map (fun i0 =>
    flat_map (fun i1 =>
      map (fun i2 => (i0, i1, i2)) (seq (S i1) (n - S i1)))
      (seq (S i0) (n - S i0)))
    (seq 0 n).

Section Slow.
  Context {O : Ops}.
  Notation T := (T O).
  Notation V2 := (V2 O).
  Notation V3 := (V3 O).

  (* conv.V2ToV3(vs[i], z[i]) with z[i] = vs[i].Length2() *)
  Definition lifted (vs : list V2) (i : nat) : V3 :=
    let v := nth i vs v2zero in mkV3 (vx v) (vy v) (v2len2 v).

  (* the body of the loop for the triple c: Some t = "t is appended" *)
  Definition slow_tri (vs : list V2) (c : nat * nat * nat) : option (nat * nat * nat) :=
    let '(i0, i1, i2) := c in
    let p0 := lifted vs i0 in
    let p1 := lifted vs i1 in
    let p2 := lifted vs i2 in
    let norm := v3cross (v3sub p1 p0) (v3sub p2 p1) in
    let flip := wz norm >? o0 O in
    let t := if flip then (i0, i2, i1) else (i0, i1, i2) in
    let norm := if flip then v3muls norm (- o1 O) else norm in
    let hull := forallb (fun i =>
                  (Nat.eqb i i0 || Nat.eqb i i1 || Nat.eqb i i2)
                  || negb (v3dot (v3sub (lifted vs i) p0) norm >? o0 O))
                  (seq 0 (length vs)) in
    if hull then Some t else None.

  Fixpoint keep_some {A} (l : list (option A)) : list A :=
    match l with
    | [] => []
    | Some x :: r => x :: keep_some r
    | None :: r => keep_some r
    end.

  (* None = error "number of vertices < 3" *)
  Definition delaunay2d_slow (vs : list V2) : option (list (nat * nat * nat)) :=
    if Nat.ltb (length vs) 3 then None
    else Some (keep_some (map (slow_tri vs) (combos3 (length vs)))).
End Slow.
