(* Real-number theorems about the slow reference triangulation (model Algo/DelaunaySlow.v):
   the lifting argument.  A triple is appended iff no other point lies strictly inside the
   circle through its three points, and the triple is stored clockwise. *)
From Coq Require Import Reals Lra Lia List Bool ZArith Nsatz Arith FinFun.
From Sdfx Require Import Num.Ops Num.RInst Geo.Vec Geo.NormR Algo.Delaunay Algo.DelaunayR Algo.DelaunaySlow.
Import ListNotations.
Open Scope R_scope.

(* twice the signed area of a b c (positive = counter-clockwise): the z component of
   (p1 - p0) x (p2 - p1) in the code *)
Definition orient (a b c : RV2) : R := (vx b - vx a) * (vy c - vy b) - (vy b - vy a) * (vx c - vx b).
Definition L (p : RV2) : V3 ROps := mkV3 (vx p) (vy p) (vx p * vx p + vy p * vy p).
Definition P (vs : list RV2) (i : nat) : RV2 := List.nth i vs (@v2zero ROps).
Definition equidistant (cc a b c : RV2) : Prop := d2 cc a = d2 cc b /\ d2 cc a = d2 cc c.

Lemma lifted_L vs i : @lifted ROps vs i = L (P vs i).
Proof. reflexivity. Qed.

Lemma lift_identity a b c d cc :
  equidistant cc a b c ->
  @v3dot ROps (v3sub (L d) (L a)) (v3cross (v3sub (L b) (L a)) (v3sub (L c) (L b)))
  = orient a b c * (d2 d cc - d2 a cc).
Proof.
  destruct a as [ax ay], b as [bx by_], c as [cx cy], d as [dx dy], cc as [ux uy].
  unfold equidistant, d2, orient, L, v3dot, v3cross, v3sub. cbn. intros [H1 H2]. nsatz.
Qed.

Lemma cross_z a b c : wz (@v3cross ROps (v3sub (L b) (L a)) (v3sub (L c) (L b))) = orient a b c.
Proof. destruct a, b, c. unfold orient, L, v3cross, v3sub. cbn. ring. Qed.

Lemma dot_muls_neg (x n : V3 ROps) : @v3dot ROps x (v3muls n (- 1)) = - @v3dot ROps x n.
Proof. destruct x, n. unfold v3dot, v3muls. cbn. ring. Qed.

(* non-collinear points have a circumcentre, and only one *)
Lemma circumcentre_exists a b c : orient a b c <> 0 -> exists cc, equidistant cc a b c.
Proof.
  destruct a as [ax ay], b as [bx by_], c as [cx cy]. unfold orient, equidistant, d2. cbn. intros H.
  set (D := 2 * ((bx - ax) * (cy - by_) - (by_ - ay) * (cx - bx))).
  assert (HD : D <> 0) by (unfold D; lra).
  set (A := ax * ax + ay * ay). set (B := bx * bx + by_ * by_). set (C := cx * cx + cy * cy).
  exists (mkV2 ((A * (by_ - cy) + B * (cy - ay) + C * (ay - by_)) / D)
               ((A * (cx - bx) + B * (ax - cx) + C * (bx - ax)) / D)).
  cbn. unfold A, B, C, D. split; field; exact H.
Qed.

Lemma circumcentre_unique a b c cc cc' :
  orient a b c <> 0 -> equidistant cc a b c -> equidistant cc' a b c -> cc = cc'.
Proof.
  destruct a as [ax ay], b as [bx by_], c as [cx cy], cc as [ux uy], cc' as [wx wy].
  unfold orient, equidistant, d2. cbn. intros H [H1 H2] [H3 H4].
  assert (E1 : (ux - wx) * (bx - ax) + (uy - wy) * (by_ - ay) = 0) by nsatz.
  assert (E2 : (ux - wx) * (cx - ax) + (uy - wy) * (cy - ay) = 0) by nsatz.
  assert (X : (ux - wx) * ((bx - ax) * (cy - by_) - (by_ - ay) * (cx - bx)) = 0) by nsatz.
  assert (Y : (uy - wy) * ((bx - ax) * (cy - by_) - (by_ - ay) * (cx - bx)) = 0) by nsatz.
  apply Rmult_integral in X. apply Rmult_integral in Y.
  f_equal; lra.
Qed.

(* the "no vertex below this plane" test of one triple *)
Definition empty_circle (vs : list RV2) (i0 i1 i2 : nat) (cc : RV2) : Prop :=
  forall i, (i < length vs)%nat -> i <> i0 -> i <> i1 -> i <> i2 -> ~ d2 (P vs i) cc < d2 (P vs i0) cc.

Theorem slow_tri_spec vs i0 i1 i2 cc :
  orient (P vs i0) (P vs i1) (P vs i2) <> 0 ->
  equidistant cc (P vs i0) (P vs i1) (P vs i2) ->
  ((exists t, @slow_tri ROps vs (i0, i1, i2) = Some t) <-> empty_circle vs i0 i1 i2 cc).
Proof.
  intros Ho He. unfold slow_tri. rewrite !lifted_L.
  change (oltb ROps) with Rltb. change (o0 ROps) with 0. change (oneg ROps (o1 ROps)) with (- 1).
  rewrite cross_z.
  set (N := @v3cross ROps (v3sub (L (P vs i1)) (L (P vs i0))) (v3sub (L (P vs i2)) (L (P vs i1)))).
  set (o := orient (P vs i0) (P vs i1) (P vs i2)) in *.
  match goal with |- (exists t, (if ?h then _ else _) = _) <-> _ => set (hull := h) end.
  assert (Hh : hull = true <-> empty_circle vs i0 i1 i2 cc).
  { unfold hull, empty_circle. rewrite forallb_forall. split.
    - intros H i Hi n0 n1 n2. specialize (H i). rewrite in_seq in H.
      specialize (H ltac:(lia)).
      apply orb_prop in H. destruct H as [H|H].
      + exfalso. apply orb_prop in H. destruct H as [H|H]; [apply orb_prop in H; destruct H as [H|H]|];
          apply Nat.eqb_eq in H; congruence.
      + apply negb_true_iff in H. apply Rltb_false in H. rewrite lifted_L in H.
        destruct (Rltb 0 o) eqn:Eo.
        * apply Rltb_true in Eo. rewrite dot_muls_neg in H. unfold N in H.
          rewrite (lift_identity _ _ _ _ cc He) in H. fold o in H. nra.
        * apply Rltb_false in Eo. unfold N in H.
          rewrite (lift_identity _ _ _ _ cc He) in H. fold o in H. nra.
    - intros H i Hi. rewrite in_seq in Hi.
      destruct (Nat.eqb i i0) eqn:E0; [reflexivity|].
      destruct (Nat.eqb i i1) eqn:E1; [reflexivity|].
      destruct (Nat.eqb i i2) eqn:E2; [reflexivity|]. cbn [orb].
      apply Nat.eqb_neq in E0, E1, E2.
      specialize (H i ltac:(lia) E0 E1 E2).
      apply negb_true_iff. apply Rltb_false. rewrite lifted_L.
      destruct (Rltb 0 o) eqn:Eo.
      + apply Rltb_true in Eo. rewrite dot_muls_neg. unfold N.
        rewrite (lift_identity _ _ _ _ cc He). fold o. nra.
      + apply Rltb_false in Eo. unfold N.
        rewrite (lift_identity _ _ _ _ cc He). fold o. nra. }
  destruct hull.
  - split; [intros _; apply Hh; reflexivity | intros _; eexists; reflexivity].
  - split; [intros [t X]; discriminate X | intros X; apply Hh in X; discriminate X].
Qed.

(* the appended triple is the clockwise one of (i0,i1,i2), (i0,i2,i1) *)
Theorem slow_tri_clockwise vs i0 i1 i2 t0 t1 t2 :
  @slow_tri ROps vs (i0, i1, i2) = Some (t0, t1, t2) ->
  ((t0, t1, t2) = (i0, i1, i2) \/ (t0, t1, t2) = (i0, i2, i1)) /\
  orient (P vs t0) (P vs t1) (P vs t2) <= 0.
Proof.
  unfold slow_tri. rewrite !lifted_L.
  change (oltb ROps) with Rltb. change (o0 ROps) with 0. rewrite cross_z.
  match goal with |- (if ?h then _ else _) = _ -> _ => destruct h end; [|discriminate].
  destruct (Rltb 0 (orient (P vs i0) (P vs i1) (P vs i2))) eqn:Eo; intros [= <- <- <-].
  - apply Rltb_true in Eo. split; [right; reflexivity|].
    revert Eo. destruct (P vs i0), (P vs i1), (P vs i2). unfold orient. cbn. intros. nra.
  - apply Rltb_false in Eo. split; [left; reflexivity | exact Eo].
Qed.

(* ---- the enumeration *)
Lemma combos3_spec n i0 i1 i2 : In (i0, i1, i2) (combos3 n) <-> (i0 < i1 < i2 /\ i2 < n)%nat.
Proof.
  unfold combos3. rewrite in_flat_map. split.
  - intros (a & Ha & H). rewrite in_flat_map in H. destruct H as (b & Hb & H).
    rewrite in_map_iff in H. destruct H as (c & E & Hc). inversion E; subst.
    rewrite in_seq in Ha, Hb, Hc. lia.
  - intros H. exists i0. split; [rewrite in_seq; lia|].
    rewrite in_flat_map. exists i1. split; [rewrite in_seq; lia|].
    rewrite in_map_iff. exists i2. split; [reflexivity | rewrite in_seq; lia].
Qed.

Lemma in_keep_some {A} (l : list (option A)) x : In x (keep_some l) <-> In (Some x) l.
Proof.
  induction l as [|[y|] l IH]; cbn.
  - tauto.
  - rewrite IH. split; [intros [->|H]; auto | intros [[= ->]|H]; auto].
  - rewrite IH. split; [auto | intros [H|H]; [discriminate|auto]].
Qed.

(* no three points collinear *)
Definition general_position (vs : list RV2) : Prop :=
  forall i0 i1 i2, (i0 < i1 < i2 /\ i2 < length vs)%nat -> orient (P vs i0) (P vs i1) (P vs i2) <> 0.

(* the whole output: exactly the clockwise triples whose circumcircle contains no other point
   strictly inside, each once *)
Theorem slow_spec vs ts :
  @delaunay2d_slow ROps vs = Some ts -> general_position vs ->
  forall t0 t1 t2, In (t0, t1, t2) ts <->
    exists i0 i1 i2, (i0 < i1 < i2 /\ i2 < length vs)%nat /\
      ((t0, t1, t2) = (i0, i1, i2) \/ (t0, t1, t2) = (i0, i2, i1)) /\
      orient (P vs t0) (P vs t1) (P vs t2) < 0 /\
      forall cc, equidistant cc (P vs i0) (P vs i1) (P vs i2) -> empty_circle vs i0 i1 i2 cc.
Proof.
  unfold delaunay2d_slow. destruct (Nat.ltb (length vs) 3); [discriminate|]. intros [= <-] G t0 t1 t2.
  rewrite in_keep_some, in_map_iff. split.
  - intros ([[i0 i1] i2] & E & Hc). apply combos3_spec in Hc.
    exists i0, i1, i2. split; [exact Hc|].
    pose proof (slow_tri_clockwise _ _ _ _ _ _ _ E) as [Hs Ho]. split; [exact Hs|].
    pose proof (G _ _ _ Hc) as Hn. split.
    + destruct Hs as [[= -> -> ->]|[= -> -> ->]].
      * lra.
      * assert (orient (P vs i0) (P vs i2) (P vs i1) = - orient (P vs i0) (P vs i1) (P vs i2)).
        { destruct (P vs i0), (P vs i1), (P vs i2). unfold orient. cbn. ring. }
        lra.
    + intros cc He. apply (slow_tri_spec vs i0 i1 i2 cc Hn He). eexists; exact E.
  - intros (i0 & i1 & i2 & Hc & Hs & Ho & He).
    exists (i0, i1, i2). split; [|apply combos3_spec; exact Hc].
    pose proof (G _ _ _ Hc) as Hn.
    destruct (circumcentre_exists _ _ _ Hn) as [cc Hcc].
    destruct (proj2 (slow_tri_spec vs i0 i1 i2 cc Hn Hcc) (He cc Hcc)) as [[[u0 u1] u2] E].
    rewrite E. f_equal.
    pose proof (slow_tri_clockwise _ _ _ _ _ _ _ E) as [Hs' Ho'].
    assert (X : orient (P vs i0) (P vs i2) (P vs i1) = - orient (P vs i0) (P vs i1) (P vs i2)).
    { destruct (P vs i0), (P vs i1), (P vs i2). unfold orient. cbn. ring. }
    destruct Hs as [[= -> -> ->]|[= -> -> ->]]; destruct Hs' as [[= -> -> ->]|[= -> -> ->]];
      try reflexivity; exfalso; lra.
Qed.

(* each triple at most once: the enumeration has no repetition *)
Lemma NoDup_app' {A} (l m : list A) :
  NoDup l -> NoDup m -> (forall x, In x l -> ~ In x m) -> NoDup (l ++ m).
Proof.
  induction l as [|a l IH]; cbn; intros Hl Hm Hd; [exact Hm|].
  inversion Hl; subst. constructor.
  - rewrite in_app_iff. intros [X|X]; [auto | exact (Hd a (or_introl eq_refl) X)].
  - apply IH; auto.
Qed.

Lemma NoDup_flat_map {A B} (f : A -> list B) (l : list A) :
  NoDup l -> (forall a, In a l -> NoDup (f a)) ->
  (forall a a' b, In a l -> In a' l -> In b (f a) -> In b (f a') -> a = a') ->
  NoDup (flat_map f l).
Proof.
  induction l as [|a l IH]; cbn; intros Hn Hf Hd; [constructor|].
  inversion Hn as [|? ? Hna Hnl]; subst. apply NoDup_app'.
  - apply Hf. left; reflexivity.
  - apply IH; auto. intros a1 a2 b G1 G2. apply Hd; auto.
  - intros b Hb X. rewrite in_flat_map in X. destruct X as (a' & Ha' & Hb').
    assert (a = a') by (apply (Hd a a' b); auto). subst. auto.
Qed.

Lemma combos3_nodup n : NoDup (combos3 n).
Proof.
  unfold combos3. apply NoDup_flat_map.
  - apply seq_NoDup.
  - intros i0 _. apply NoDup_flat_map.
    + apply seq_NoDup.
    + intros i1 _. apply Injective_map_NoDup; [|apply seq_NoDup].
      intros x y [= E]. exact E.
    + intros a a' b _ _ H1 H2. rewrite in_map_iff in H1, H2.
      destruct H1 as (x & <- & _). destruct H2 as (y & [= E _] & _). symmetry; exact E.
  - intros a a' b _ _ H1 H2. rewrite in_flat_map in H1, H2.
    destruct H1 as (x & _ & G1). destruct H2 as (y & _ & G2).
    rewrite in_map_iff in G1, G2. destruct G1 as (u & <- & _). destruct G2 as (w & [= E _ _] & _).
    symmetry; exact E.
Qed.

Lemma keep_some_map_nodup {A B} (f : A -> option B) (l : list A) :
  NoDup l -> (forall a a' b, In a l -> In a' l -> f a = Some b -> f a' = Some b -> a = a') ->
  NoDup (keep_some (map f l)).
Proof.
  induction l as [|a l IH]; cbn; intros Hn Hi; [constructor|].
  inversion Hn as [|? ? Hna Hnl]; subst.
  assert (IH' : NoDup (keep_some (map f l))).
  { apply IH; auto. intros a1 a2 b G1 G2. apply Hi; auto. }
  destruct (f a) as [b|] eqn:E; [|exact IH'].
  constructor; [|exact IH'].
  rewrite in_keep_some, in_map_iff. intros (a' & E' & Ha').
  assert (a = a') by (apply (Hi a a' b); auto). subst. auto.
Qed.

Theorem slow_nodup vs ts : @delaunay2d_slow ROps vs = Some ts -> NoDup ts.
Proof.
  unfold delaunay2d_slow. destruct (Nat.ltb (length vs) 3); [discriminate|]. intros [= <-].
  apply keep_some_map_nodup; [apply combos3_nodup|].
  intros [[a0 a1] a2] [[b0 b1] b2] [[t0 t1] t2] Ha Hb Ea Eb.
  apply combos3_spec in Ha, Hb.
  destruct (slow_tri_clockwise _ _ _ _ _ _ _ Ea) as [[E1|E1] _];
  destruct (slow_tri_clockwise _ _ _ _ _ _ _ Eb) as [[E2|E2] _];
  inversion E1; inversion E2; subst; try reflexivity; exfalso; lia.
Qed.

(* ---- completeness up to rotation: every clockwise triple of distinct indices whose circumcircle
   is empty occurs in the slow output in its least-index-first rotation (the form
   TriangleI.Canonical produces), so a triangulation made of such triples is a subset of the
   slow output as a canonical set. *)
Lemma orient_rot a b c : orient b c a = orient a b c.
Proof. destruct a, b, c. unfold orient. cbn. ring. Qed.
Lemma orient_swap a b c : orient a c b = - orient a b c.
Proof. destruct a, b, c. unfold orient. cbn. ring. Qed.

Definition empty_about (vs : list RV2) (a b c : nat) : Prop :=
  forall cc, equidistant cc (P vs a) (P vs b) (P vs c) ->
  forall i, (i < length vs)%nat -> i <> a -> i <> b -> i <> c -> ~ d2 (P vs i) cc < d2 (P vs a) cc.

Lemma d2_sym a b : d2 a b = d2 b a.
Proof. unfold d2. ring. Qed.

Lemma empty_about_rot vs a b c : empty_about vs a b c -> empty_about vs b c a.
Proof.
  unfold empty_about, equidistant. intros H cc [E1 E2] i Hi n1 n2 n3.
  assert (E : equidistant cc (P vs a) (P vs b) (P vs c)) by (unfold equidistant; split; lra).
  specialize (H cc E i Hi n3 n1 n2).
  pose proof (d2_sym cc (P vs a)). pose proof (d2_sym cc (P vs b)). pose proof (d2_sym cc (P vs c)). lra.
Qed.
Lemma empty_about_swap vs a b c : empty_about vs a b c -> empty_about vs a c b.
Proof.
  unfold empty_about, equidistant. intros H cc [E1 E2] i Hi n1 n2 n3.
  apply (H cc (conj E2 E1) i Hi n1 n3 n2).
Qed.

Lemma slow_has_sorted vs ts i0 i1 i2 :
  @delaunay2d_slow ROps vs = Some ts -> general_position vs ->
  (i0 < i1 < i2 /\ i2 < length vs)%nat -> empty_about vs i0 i1 i2 ->
  (orient (P vs i0) (P vs i1) (P vs i2) < 0 -> In (i0, i1, i2) ts) /\
  (orient (P vs i0) (P vs i2) (P vs i1) < 0 -> In (i0, i2, i1) ts).
Proof.
  intros Hs G Hc He. split; intros Ho; apply (slow_spec vs ts Hs G); exists i0, i1, i2.
  - split; [exact Hc|]. split; [left; reflexivity|]. split; [exact Ho|].
    intros cc Hcc. exact (He cc Hcc).
  - split; [exact Hc|]. split; [right; reflexivity|]. split; [exact Ho|].
    intros cc Hcc. exact (He cc Hcc).
Qed.

Theorem slow_complete vs ts a b c :
  @delaunay2d_slow ROps vs = Some ts -> general_position vs ->
  (a < length vs)%nat -> (b < length vs)%nat -> (c < length vs)%nat -> a <> b -> b <> c -> a <> c ->
  orient (P vs a) (P vs b) (P vs c) < 0 -> empty_about vs a b c ->
  In (a, b, c) ts \/ In (b, c, a) ts \/ In (c, a, b) ts.
Proof.
  intros Hs G la lb lc nab nbc nac Ho He.
  pose proof (empty_about_rot _ _ _ _ He) as He1.
  pose proof (empty_about_rot _ _ _ _ He1) as He2.
  pose proof (orient_rot (P vs a) (P vs b) (P vs c)) as R1.
  pose proof (orient_rot (P vs b) (P vs c) (P vs a)) as R2.
  destruct (lt_dec a b) as [ab|ab]; destruct (lt_dec b c) as [bc|bc]; destruct (lt_dec a c) as [ac|ac]; try lia.
  - (* a < b < c *) left. apply (slow_has_sorted vs ts a b c Hs G); [lia | exact He | exact Ho].
  - (* a < c < b : least a, stored (a, b, c) as (i0, i2, i1) with i1 = c, i2 = b *)
    left. apply (slow_has_sorted vs ts a c b Hs G); [lia | apply empty_about_swap; exact He | exact Ho].
  - (* c < a < b : rotation (c, a, b) sorted *)
    right; right. apply (slow_has_sorted vs ts c a b Hs G); [lia | exact He2 | lra].
  - (* b < a, b < c, a < c : b < a < c, rotation (b, c, a) = (i0, i2, i1) *)
    right; left. apply (slow_has_sorted vs ts b a c Hs G); [lia | apply empty_about_swap; exact He1 | lra].
  - (* b < c < a : rotation (b, c, a) sorted *)
    right; left. apply (slow_has_sorted vs ts b c a Hs G); [lia | exact He1 | lra].
  - (* c < b < a : rotation (c, a, b) = (i0, i2, i1) with i1 = b, i2 = a *)
    right; right. apply (slow_has_sorted vs ts c b a Hs G); [lia | apply empty_about_swap; exact He2 | lra].
Qed.
