(* Dual contouring on a regular lattice (render/dc): the abstract dual mesh.

   Lattice points p in [0..nx]x[0..ny]x[0..nz] carry a sign s p (true = solid,
   "d.Evaluate(p) < 0").  A cell c = (i,j,k) spans [c, c+1]^3 and owns one mesh
   vertex, so mesh vertices are cell indices.  For every lattice edge (a, p) (from
   p to p + unit a) that is surrounded by four cells of the lattice and whose end
   signs differ the dual mesh has one quad joining the four incident cells, as two
   triangles, oriented from solid to void.

   Proved here, for EVERY sign assignment on EVERY lattice size:
     dual_face_cancel   the four dual edges crossing one lattice face cancel
                        (16 sign patterns of the face x 3 axes);
     dual_mesh_closed   with an outside boundary every directed edge of the mesh
                        is matched by its reverse (same multiplicity);
     dual_tri_normal    every triangle's normal (in cell-index space) is the unit
                        vector of its lattice edge pointing from solid to void;
     closed_pushforward identification of vertices (any map on vertices) keeps a
                        closed mesh closed.
   The two renderers are tied to this mesh in Algo/DCModel.v (v2_quad_rule) and
   Algo/DCOctree.v, Algo/DCVisits.v (v1_process_edge_rule, v1_traversal).    *)
From Coq Require Import List ZArith Lia Bool Permutation.
Import ListNotations.
Open Scope Z_scope.

(* ------------------------------------------------------------------ cells *)
Definition cell := (Z * Z * Z)%type.
Definition cadd (p q : cell) : cell := match p, q with (a, b, c), (d, e, f) => (a + d, b + e, c + f) end.
Definition csub (p q : cell) : cell := match p, q with (a, b, c), (d, e, f) => (a - d, b - e, c - f) end.
Definition ceqb (p q : cell) : bool := match p, q with (a, b, c), (d, e, f) => (a =? d) && (b =? e) && (c =? f) end.

Lemma ceqb_eq p q : ceqb p q = true <-> p = q.
Proof.
  destruct p as [[a b] c], q as [[d e] f]; unfold ceqb.
  rewrite !andb_true_iff, !Z.eqb_eq. split; [intros [[-> ->] ->]; reflexivity | intros [= -> -> ->]; auto].
Qed.
Lemma ceqb_refl p : ceqb p p = true.
Proof. now apply ceqb_eq. Qed.
Lemma ceqb_neq p q : ceqb p q = false <-> p <> q.
Proof. rewrite <- ceqb_eq. destruct (ceqb p q); split; congruence. Qed.

Inductive axis := AX | AY | AZ.
Definition unit (a : axis) : cell := match a with AX => (1, 0, 0) | AY => (0, 1, 0) | AZ => (0, 0, 1) end.
(* the two transverse axes, ordered so that ax1 x ax2 = a (right handed) *)
Definition ax1 (a : axis) : axis := match a with AX => AY | AY => AZ | AZ => AX end.
Definition ax2 (a : axis) : axis := match a with AX => AZ | AY => AX | AZ => AY end.
Definition coord (a : axis) (p : cell) : Z := let '(x, y, z) := p in match a with AX => x | AY => y | AZ => z end.

(* ------------------------------------------------------------------ finite sums and ranges *)
Definition zsum {A} (f : A -> Z) (l : list A) : Z := fold_right (fun x acc => f x + acc) 0 l.

Lemma zsum_cons {A} (f : A -> Z) x l : zsum f (x :: l) = f x + zsum f l.
Proof. reflexivity. Qed.
Lemma zsum_app {A} (f : A -> Z) l m : zsum f (l ++ m) = zsum f l + zsum f m.
Proof. induction l as [|x l IH]; [reflexivity|]. cbn [app]. rewrite !zsum_cons, IH. ring. Qed.
Lemma zsum_flat_map {A B} (f : B -> Z) (g : A -> list B) l : zsum f (flat_map g l) = zsum (fun x => zsum f (g x)) l.
Proof. induction l as [|x l IH]; [reflexivity|]. cbn [flat_map]. now rewrite zsum_app, zsum_cons, IH. Qed.
Lemma zsum_map {A B} (f : B -> Z) (g : A -> B) l : zsum f (map g l) = zsum (fun x => f (g x)) l.
Proof. induction l as [|x l IH]; [reflexivity|]. cbn [map]. now rewrite !zsum_cons, IH. Qed.
Lemma zsum_ext {A} (f g : A -> Z) l : (forall x, In x l -> f x = g x) -> zsum f l = zsum g l.
Proof.
  induction l as [|x l IH]; intros H; [reflexivity|]. rewrite !zsum_cons.
  rewrite (H x) by now left. rewrite IH; [reflexivity|]. intros; apply H; now right.
Qed.
Lemma zsum_zero {A} (l : list A) : zsum (fun _ => 0) l = 0.
Proof. induction l as [|x l IH]; [reflexivity|]. rewrite zsum_cons, IH. reflexivity. Qed.
Lemma zsum_plus {A} (f g : A -> Z) l : zsum (fun x => f x + g x) l = zsum f l + zsum g l.
Proof. induction l as [|x l IH]; [reflexivity|]. rewrite !zsum_cons, IH. ring. Qed.
Lemma zsum_minus {A} (f g : A -> Z) l : zsum (fun x => f x - g x) l = zsum f l - zsum g l.
Proof. induction l as [|x l IH]; [reflexivity|]. rewrite !zsum_cons, IH. ring. Qed.
Lemma zsum_scal {A} (f : A -> Z) k l : zsum (fun x => f x * k) l = zsum f l * k.
Proof. induction l as [|x l IH]; [reflexivity|]. rewrite !zsum_cons, IH. ring. Qed.
Lemma zsum_perm {A} (f : A -> Z) l m : Permutation l m -> zsum f l = zsum f m.
Proof. induction 1; rewrite ?zsum_cons; lia. Qed.

Definition zrange (n : Z) : list Z := map Z.of_nat (seq 0 (Z.to_nat n)).

Lemma in_zrange i n : In i (zrange n) <-> 0 <= i < n.
Proof.
  unfold zrange. rewrite in_map_iff. split.
  - intros (k & <- & Hk). apply in_seq in Hk. lia.
  - intros H. exists (Z.to_nat i). split; [lia|]. apply in_seq. lia.
Qed.

Lemma zrange_succ n : 0 <= n -> zrange (n + 1) = zrange n ++ [n].
Proof.
  intros H. unfold zrange. replace (Z.to_nat (n + 1)) with (S (Z.to_nat n)) by lia.
  rewrite seq_S, map_app. cbn. now rewrite Z2Nat.id.
Qed.
Lemma zrange_nonpos n : n <= 0 -> zrange n = [].
Proof. intros H. unfold zrange. now replace (Z.to_nat n) with O by lia. Qed.

(* induction over the upper bound of a range *)
Lemma zrange_ind (P : Z -> Prop) : P 0 -> (forall n, 0 <= n -> P n -> P (n + 1)) -> forall n, 0 <= n -> P n.
Proof. intros H0 HS n Hn. now apply natlike_ind. Qed.

Lemma zsum_zrange_single n i0 (g : Z -> Z) :
  zsum (fun i => if i =? i0 then g i else 0) (zrange n) = if (0 <=? i0) && (i0 <? n) then g i0 else 0.
Proof.
  destruct (Z.le_gt_cases n 0) as [Hn|Hn].
  - rewrite zrange_nonpos by exact Hn. cbn.
    destruct (Z.leb_spec 0 i0), (Z.ltb_spec i0 n); cbn; try reflexivity; lia.
  - assert (H : 0 <= n) by lia. clear Hn. revert n H. apply zrange_ind.
    + cbn. destruct (Z.leb_spec 0 i0), (Z.ltb_spec i0 0); cbn; try reflexivity; lia.
    + intros n Hn IH. rewrite zrange_succ, zsum_app, IH by exact Hn. cbn.
      destruct (Z.eqb_spec n i0) as [->|Hne].
      * destruct (Z.leb_spec 0 i0), (Z.ltb_spec i0 i0), (Z.ltb_spec i0 (i0 + 1)); cbn; lia.
      * destruct (Z.leb_spec 0 i0), (Z.ltb_spec i0 n), (Z.ltb_spec i0 (n + 1)); cbn; lia.
Qed.

(* the cells (or points) of an nx x ny x nz block, x-major, z-minor: the loop order of placeVertices *)
Definition grid (n : cell) : list cell :=
  let '(nx, ny, nz) := n in
  flat_map (fun x => flat_map (fun y => map (fun z => (x, y, z)) (zrange nz)) (zrange ny)) (zrange nx).
Definition ingrid (n p : cell) : bool :=
  let '(nx, ny, nz) := n in let '(x, y, z) := p in
  (0 <=? x) && (x <? nx) && ((0 <=? y) && (y <? ny)) && ((0 <=? z) && (z <? nz)).

Lemma in_grid n p : In p (grid n) <-> ingrid n p = true.
Proof.
  destruct n as [[nx ny] nz], p as [[x y] z]; unfold grid, ingrid.
  rewrite !andb_true_iff, !Z.leb_le, !Z.ltb_lt. split.
  - intros H. apply in_flat_map in H as (x' & Hx & H). apply in_flat_map in H as (y' & Hy & H).
    apply in_map_iff in H as (z' & E & Hz). apply in_zrange in Hx, Hy, Hz. injection E as <- <- <-. lia.
  - intros H. apply in_flat_map. exists x; split; [apply in_zrange; lia|].
    apply in_flat_map. exists y; split; [apply in_zrange; lia|].
    apply in_map_iff. exists z; split; [reflexivity | apply in_zrange; lia].
Qed.

Lemma zsum_grid_single n p0 (g : cell -> Z) :
  zsum (fun p => if ceqb p p0 then g p else 0) (grid n) = if ingrid n p0 then g p0 else 0.
Proof.
  destruct n as [[nx ny] nz], p0 as [[x0 y0] z0]; unfold grid, ingrid.
  rewrite zsum_flat_map.
  rewrite (zsum_ext _ (fun x => if x =? x0 then (if (0 <=? y0) && (y0 <? ny) then if (0 <=? z0) && (z0 <? nz) then g (x, y0, z0) else 0 else 0) else 0)).
  - rewrite zsum_zrange_single.
    destruct ((0 <=? x0) && (x0 <? nx)), ((0 <=? y0) && (y0 <? ny)), ((0 <=? z0) && (z0 <? nz)); reflexivity.
  - intros x _. rewrite zsum_flat_map.
    rewrite (zsum_ext _ (fun y => if y =? y0 then (if x =? x0 then if (0 <=? z0) && (z0 <? nz) then g (x, y, z0) else 0 else 0) else 0)).
    + rewrite zsum_zrange_single. destruct (x =? x0), ((0 <=? y0) && (y0 <? ny)); reflexivity.
    + intros y _. rewrite zsum_map.
      rewrite (zsum_ext _ (fun z => if z =? z0 then (if (x =? x0) && (y =? y0) then g (x, y, z) else 0) else 0)).
      * rewrite zsum_zrange_single. destruct (x =? x0), (y =? y0), ((0 <=? z0) && (z0 <? nz)); reflexivity.
      * intros z _. unfold ceqb. destruct (x =? x0), (y =? y0), (z =? z0); reflexivity.
Qed.

(* ------------------------------------------------------------------ the dual mesh *)
Definition tri := (cell * cell * cell)%type.
Definition quad := (cell * cell * cell * cell)%type.

(* the four cells around the lattice edge (a, p), counter-clockwise seen from +a *)
Definition quad_cells (a : axis) (p : cell) : quad :=
  let b := unit (ax1 a) in let c := unit (ax2 a) in
  (csub p (cadd b c), csub p c, p, csub p b).
Definition rev_quad (q : quad) : quad := let '(A, B, C, D) := q in (A, D, C, B).
Definition fan (q : quad) : list tri := let '(A, B, C, D) := q in [(A, B, C); (A, C, D)].

(* lattice edge (a,p) surrounded by four cells of the n-lattice *)
Definition interior (n : cell) (a : axis) (p : cell) : bool :=
  (0 <=? coord a p) && (coord a p <? coord a n)
  && ((1 <=? coord (ax1 a) p) && (coord (ax1 a) p <? coord (ax1 a) n))
  && ((1 <=? coord (ax2 a) p) && (coord (ax2 a) p <? coord (ax2 a) n)).

Definition edge_tris (n : cell) (s : cell -> bool) (a : axis) (p : cell) : list tri :=
  if interior n a p then
    match s p, s (cadd p (unit a)) with
    | true, false => fan (quad_cells a p)             (* solid at the low end: normal +a *)
    | false, true => fan (rev_quad (quad_cells a p))  (* solid at the high end: normal -a *)
    | _, _ => []
    end
  else [].

Definition points (n : cell) : list cell := grid (cadd n (1, 1, 1)).
Definition axes : list axis := [AX; AY; AZ].
Definition dual_mesh (n : cell) (s : cell -> bool) : list tri :=
  flat_map (fun a => flat_map (edge_tris n s a) (points n)) axes.

(* lattice point in range / on the boundary of the sampled block *)
Definition inlat (n p : cell) : bool := ingrid (cadd n (1, 1, 1)) p.
Definition onbdry (n p : cell) : bool :=
  let '(nx, ny, nz) := n in let '(x, y, z) := p in
  (x =? 0) || (x =? nx) || (y =? 0) || (y =? ny) || (z =? 0) || (z =? nz).
Definition boundary_outside (n : cell) (s : cell -> bool) : Prop :=
  forall p, inlat n p = true -> onbdry n p = true -> s p = false.

(* ------------------------------------------------------------------ directed-edge counts *)
Definition ind (p q : cell) : Z := if ceqb p q then 1 else 0.
Definition dhit (u v x y : cell) : Z := if ceqb x u && ceqb y v then 1 else 0.
Definition tri_dcount (u v : cell) (t : tri) : Z := let '(a, b, c) := t in dhit u v a b + dhit u v b c + dhit u v c a.
(* number of directed edges u -> v among the triangles *)
Definition dcount (ts : list tri) (u v : cell) : Z := zsum (tri_dcount u v) ts.
Definition closed (ts : list tri) : Prop := forall u v, dcount ts u v = dcount ts v u.

Lemma dhit_swap u v x y : dhit v u y x = dhit u v x y.
Proof. unfold dhit. now rewrite andb_comm. Qed.
Lemma dhit_nonneg u v x y : 0 <= dhit u v x y <= 1.
Proof. unfold dhit. destruct (_ && _); lia. Qed.

Lemma dcount_app l m u v : dcount (l ++ m) u v = dcount l u v + dcount m u v.
Proof. apply zsum_app. Qed.
Lemma dcount_perm l m u v : Permutation l m -> dcount l u v = dcount m u v.
Proof. apply zsum_perm. Qed.
Lemma closed_perm l m : Permutation l m -> closed l -> closed m.
Proof. intros P H u v. rewrite <- !(dcount_perm l m _ _ P). apply H. Qed.

(* dhit of two cells of the same quad: the edge is u->v iff p is pinned and v-u is the step *)
Lemma dhit_shift u v p x y k1 k2 : x = csub p k1 -> y = csub p k2 ->
  dhit u v x y = ind p (cadd u k1) * ind (csub v u) (csub k1 k2).
Proof.
  intros -> ->. unfold dhit, ind.
  assert (E : ceqb (csub p k1) u && ceqb (csub p k2) v = ceqb p (cadd u k1) && ceqb (csub v u) (csub k1 k2)).
  { apply eq_true_iff_eq. rewrite !andb_true_iff, !ceqb_eq.
    destruct u as [[ux uy] uz], v as [[vx vy] vz], p as [[px py] pz], k1 as [[a1 b1] c1], k2 as [[a2 b2] c2]; cbn.
    split; intros [H1 H2]; injection H1 as ? ? ?; injection H2 as ? ? ?; split; repeat (f_equal; try lia). }
  rewrite E. destruct (ceqb p (cadd u k1)), (ceqb (csub v u) (csub k1 k2)); reflexivity.
Qed.
Lemma cadd_0 p : cadd p (0, 0, 0) = p.
Proof. destruct p as [[x y] z]; cbn; repeat (f_equal; try lia). Qed.
Lemma csub_0 p : csub p (0, 0, 0) = p.
Proof. destruct p as [[x y] z]; cbn; repeat (f_equal; try lia). Qed.

(* ------------------------------------------------------------------ the signed crossing of an edge *)
Definition b2z (b : bool) : Z := if b then 1 else 0.
Definition sigma (n : cell) (s : cell -> bool) (a : axis) (p : cell) : Z :=
  if interior n a p then b2z (s p) - b2z (s (cadd p (unit a))) else 0.

(* THE FACE LEMMA, combinatorial core: around a lattice face with corner signs
   b00 b10 / b01 b11 the four signed crossings of its edges, taken with the
   direction in which their quads cross the face, cancel (16 patterns). *)
Lemma dual_face_cancel_patterns : forall b00 b10 b01 b11 : bool,
  (b2z b10 - b2z b11) - (b2z b00 - b2z b01) + (b2z b00 - b2z b10) - (b2z b01 - b2z b11) = 0.
Proof. intros [] [] [] []; reflexivity. Qed.

Lemma interior_inlat n a p : interior n a p = true -> inlat n p = true /\ inlat n (cadd p (unit a)) = true.
Proof.
  destruct n as [[nx ny] nz], p as [[x y] z]; unfold interior, inlat, ingrid; destruct a; cbn;
    rewrite !andb_true_iff, !Z.leb_le, !Z.ltb_lt; lia.
Qed.

(* with an outside boundary a lattice edge that is not interior has no sign change *)
Lemma sigma_full n s a p : boundary_outside n s ->
  inlat n p = true -> inlat n (cadd p (unit a)) = true ->
  sigma n s a p = b2z (s p) - b2z (s (cadd p (unit a))).
Proof.
  intros Hb Hp Hq. unfold sigma. destruct (interior n a p) eqn:Hi; [reflexivity|].
  assert (Hbd : onbdry n p = true /\ onbdry n (cadd p (unit a)) = true).
  { destruct n as [[nx ny] nz], p as [[x y] z]. unfold interior in Hi. unfold inlat, ingrid in Hp, Hq.
    unfold onbdry. destruct a; cbn in *;
      rewrite !andb_true_iff, !Z.leb_le, !Z.ltb_lt in Hp, Hq;
      rewrite !andb_false_iff, !Z.leb_gt, !Z.ltb_ge in Hi;
      rewrite !orb_true_iff, !Z.eqb_eq; lia. }
  destruct Hbd as [B1 B2]. rewrite (Hb _ Hp B1), (Hb _ Hq B2). reflexivity.
Qed.

(* face between cell w and cell w + unit d: a1 is the axis whose quads cross it in the +d sense at
   their first side, a2 the one whose quads cross it at their second side *)
Definition fa1 (d : axis) : axis := ax2 d.   (* ax1 (fa1 d) = d *)
Definition fa2 (d : axis) : axis := ax1 d.   (* ax2 (fa2 d) = d *)

Definition face_sum (n : cell) (s : cell -> bool) (d : axis) (w : cell) : Z :=
  let a1 := fa1 d in let a2 := fa2 d in
  sigma n s a1 (cadd w (cadd (unit d) (unit (ax2 a1)))) - sigma n s a1 (cadd w (unit d))
  + sigma n s a2 (cadd w (unit d)) - sigma n s a2 (cadd w (cadd (unit d) (unit (ax1 a2)))).

(* rewrite every argument of s that is arithmetically equal to P into P itself *)
Ltac norm_s s P :=
  repeat match goal with
  | |- context [s ?q] => lazymatch q with P => fail | _ => replace q with P by (repeat (f_equal; try lia)) end
  end.

Lemma dual_face_cancel n s d w : boundary_outside n s -> face_sum n s d w = 0.
Proof.
  intros Hb. unfold face_sum.
  destruct (ingrid n w && ingrid n (cadd w (unit d))) eqn:Hin.
  - (* both cells in range: all four edges are lattice edges; telescoping *)
    apply andb_true_iff in Hin as [H1 H2].
    destruct n as [[nx ny] nz], w as [[x y] z]. unfold ingrid in H1, H2.
    destruct d; cbn in H1, H2 |- *;
      rewrite !andb_true_iff, !Z.leb_le, !Z.ltb_lt in H1, H2;
      rewrite !(sigma_full _ _ _ _ Hb);
      try (unfold inlat, ingrid; cbn; rewrite !andb_true_iff, !Z.leb_le, !Z.ltb_lt; lia);
      cbn.
    + norm_s s (x+1,y,z). norm_s s (x+1,y+1,z). norm_s s (x+1,y,z+1). norm_s s (x+1,y+1,z+1).
      pose proof (dual_face_cancel_patterns (s (x+1,y,z)) (s (x+1,y+1,z)) (s (x+1,y,z+1)) (s (x+1,y+1,z+1))). lia.
    + norm_s s (x,y+1,z). norm_s s (x,y+1,z+1). norm_s s (x+1,y+1,z). norm_s s (x+1,y+1,z+1).
      pose proof (dual_face_cancel_patterns (s (x,y+1,z)) (s (x,y+1,z+1)) (s (x+1,y+1,z)) (s (x+1,y+1,z+1))). lia.
    + norm_s s (x,y,z+1). norm_s s (x+1,y,z+1). norm_s s (x,y+1,z+1). norm_s s (x+1,y+1,z+1).
      pose proof (dual_face_cancel_patterns (s (x,y,z+1)) (s (x+1,y,z+1)) (s (x,y+1,z+1)) (s (x+1,y+1,z+1))). lia.
  - (* one of the two cells is outside the block: none of the four edges is interior *)
    assert (Z0 : forall a p, interior n a p = false -> sigma n s a p = 0) by (intros a p H; unfold sigma; now rewrite H).
    apply andb_false_iff in Hin.
    destruct n as [[nx ny] nz], w as [[x y] z]. unfold ingrid in Hin.
    destruct d; cbn in Hin |- *;
      rewrite !andb_false_iff, !Z.leb_gt, !Z.ltb_ge in Hin;
      rewrite !Z0; try reflexivity; unfold interior; cbn;
      rewrite !andb_false_iff, !Z.leb_gt, !Z.ltb_ge; lia.
Qed.

(* ------------------------------------------------------------------ balance of one quad *)
Definition Dd (u v x y : cell) : Z := dhit u v x y - dhit u v y x.

Lemma fan_bal u v A B C D :
  dcount (fan (A, B, C, D)) u v - dcount (fan (A, B, C, D)) v u = Dd u v A B + Dd u v B C + Dd u v C D + Dd u v D A.
Proof.
  unfold dcount, fan, Dd. rewrite !zsum_cons. cbn [zsum fold_right tri_dcount].
  rewrite (dhit_swap u v B A), (dhit_swap u v C B), (dhit_swap u v A C), (dhit_swap u v C A),
          (dhit_swap u v D C), (dhit_swap u v A D). ring.
Qed.

Definition quad_bal (u v : cell) (a : axis) (p : cell) : Z :=
  let '(q0, q1, q2, q3) := quad_cells a p in Dd u v q0 q1 + Dd u v q1 q2 + Dd u v q2 q3 + Dd u v q3 q0.

Lemma edge_bal n s a p u v :
  dcount (edge_tris n s a p) u v - dcount (edge_tris n s a p) v u = sigma n s a p * quad_bal u v a p.
Proof.
  unfold edge_tris, sigma, quad_bal. destruct (quad_cells a p) as [[[q0 q1] q2] q3].
  destruct (interior n a p); [|reflexivity].
  destruct (s p), (s (cadd p (unit a))); cbn [b2z rev_quad]; try reflexivity.
  - rewrite fan_bal. ring.
  - rewrite fan_bal. unfold Dd. ring.
Qed.

(* ------------------------------------------------------------------ summing over the lattice *)
Lemma sigma_outside n s a p : inlat n p = false -> sigma n s a p = 0.
Proof.
  intros H. unfold sigma. destruct (interior n a p) eqn:Hi; [|reflexivity].
  apply interior_inlat in Hi. destruct Hi; congruence.
Qed.

Lemma sum_sigma_ind n s a P C :
  zsum (fun p => sigma n s a p * (ind p P * C)) (points n) = sigma n s a P * C.
Proof.
  rewrite (zsum_ext _ (fun p => if ceqb p P then sigma n s a p * C else 0)).
  - unfold points. rewrite zsum_grid_single. fold (inlat n P).
    destruct (inlat n P) eqn:Hl; [reflexivity|]. rewrite sigma_outside by exact Hl. reflexivity.
  - intros p _. unfold ind. destruct (ceqb p P); ring.
Qed.

(* closed form of the contribution of all edges of axis a to the pair (u, v) *)
Definition Sbal (n : cell) (s : cell -> bool) (a : axis) (u v : cell) : Z :=
  let b := unit (ax1 a) in let c := unit (ax2 a) in let dl := csub v u in let z := (0, 0, 0) in
  let s0 := sigma n s a (cadd u (cadd b c)) in let s1 := sigma n s a (cadd u c) in
  let s2 := sigma n s a u in let s3 := sigma n s a (cadd u b) in
    s0 * ind dl (csub (cadd b c) c) - s1 * ind dl (csub c (cadd b c))
  + (s1 * ind dl (csub c z) - s2 * ind dl (csub z c))
  + (s2 * ind dl (csub z b) - s3 * ind dl (csub b z))
  + (s3 * ind dl (csub b (cadd b c)) - s0 * ind dl (csub (cadd b c) b)).

Lemma axis_bal n s a u v :
  zsum (fun p => sigma n s a p * quad_bal u v a p) (points n) = Sbal n s a u v.
Proof.
  unfold quad_bal, quad_cells, Dd, Sbal.
  set (b := unit (ax1 a)). set (c := unit (ax2 a)). set (z := (0, 0, 0)).
  rewrite (zsum_ext _ (fun p =>
      sigma n s a p * (ind p (cadd u (cadd b c)) * ind (csub v u) (csub (cadd b c) c))
    - sigma n s a p * (ind p (cadd u c) * ind (csub v u) (csub c (cadd b c)))
    + (sigma n s a p * (ind p (cadd u c) * ind (csub v u) (csub c z))
    - sigma n s a p * (ind p (cadd u z) * ind (csub v u) (csub z c)))
    + (sigma n s a p * (ind p (cadd u z) * ind (csub v u) (csub z b))
    - sigma n s a p * (ind p (cadd u b) * ind (csub v u) (csub b z)))
    + (sigma n s a p * (ind p (cadd u b) * ind (csub v u) (csub b (cadd b c)))
    - sigma n s a p * (ind p (cadd u (cadd b c)) * ind (csub v u) (csub (cadd b c) b))))).
  - rewrite !zsum_plus, !zsum_minus, !sum_sigma_ind. unfold z. rewrite !cadd_0. reflexivity.
  - intros p _.
    rewrite (dhit_shift u v p _ _ (cadd b c) c eq_refl eq_refl).
    rewrite (dhit_shift u v p _ _ c (cadd b c) eq_refl eq_refl).
    rewrite (dhit_shift u v p (csub p c) p c z eq_refl (eq_sym (csub_0 p))).
    rewrite (dhit_shift u v p p (csub p c) z c (eq_sym (csub_0 p)) eq_refl).
    rewrite (dhit_shift u v p p (csub p b) z b (eq_sym (csub_0 p)) eq_refl).
    rewrite (dhit_shift u v p (csub p b) p b z eq_refl (eq_sym (csub_0 p))).
    rewrite (dhit_shift u v p _ _ b (cadd b c) eq_refl eq_refl).
    rewrite (dhit_shift u v p _ _ (cadd b c) b eq_refl eq_refl).
    ring.
Qed.

Lemma mesh_bal n s u v :
  dcount (dual_mesh n s) u v - dcount (dual_mesh n s) v u = Sbal n s AX u v + Sbal n s AY u v + Sbal n s AZ u v.
Proof.
  unfold dual_mesh, dcount, axes. cbn [flat_map]. rewrite app_nil_r, !zsum_app, !zsum_flat_map.
  rewrite <- !axis_bal.
  assert (E : forall a, zsum (fun p => zsum (tri_dcount u v) (edge_tris n s a p)) (points n)
                      - zsum (fun p => zsum (tri_dcount v u) (edge_tris n s a p)) (points n)
                      = zsum (fun p => sigma n s a p * quad_bal u v a p) (points n)).
  { intros a. rewrite <- zsum_minus. apply zsum_ext. intros p _. apply edge_bal. }
  rewrite <- !E. ring.
Qed.

Local Arguments sigma : simpl never.
Local Arguments cadd : simpl nomatch.

(* v = u + unit d: exactly the four edges of the face between the two cells contribute *)
Lemma S_face n s d u : boundary_outside n s ->
  Sbal n s AX u (cadd u (unit d)) + Sbal n s AY u (cadd u (unit d)) + Sbal n s AZ u (cadd u (unit d)) = 0.
Proof.
  intros Hb. pose proof (dual_face_cancel n s d u Hb) as F. unfold face_sum in F.
  assert (E : csub (cadd u (unit d)) u = unit d) by (destruct u as [[x y] z], d; cbn; repeat (f_equal; try lia)).
  unfold Sbal. rewrite E. destruct d; cbn in F |- *; lia.
Qed.

Definition is_unit (k : cell) : bool :=
  ceqb k (1,0,0) || ceqb k (0,1,0) || ceqb k (0,0,1) || ceqb k (-1,0,0) || ceqb k (0,-1,0) || ceqb k (0,0,-1).

Lemma S_far n s a u v : is_unit (csub v u) = false -> Sbal n s a u v = 0.
Proof.
  unfold is_unit. rewrite !orb_false_iff. intros [[[[[H1 H2] H3] H4] H5] H6].
  unfold Sbal, ind. destruct a; cbn; rewrite ?H1, ?H2, ?H3, ?H4, ?H5, ?H6; ring.
Qed.

(* ------------------------------------------------------------------ THE LIFT *)
Theorem dual_mesh_closed n s : boundary_outside n s -> closed (dual_mesh n s).
Proof.
  intros Hb u v.
  assert (Pos : forall u d, dcount (dual_mesh n s) u (cadd u (unit d)) = dcount (dual_mesh n s) (cadd u (unit d)) u).
  { intros w d. pose proof (mesh_bal n s w (cadd w (unit d))) as M. rewrite (S_face n s d w Hb) in M. lia. }
  destruct (is_unit (csub v u)) eqn:Hu.
  - unfold is_unit in Hu. rewrite !orb_true_iff, !ceqb_eq in Hu.
    assert (Fw : forall d, csub v u = unit d -> v = cadd u (unit d)).
    { intros d H. destruct u as [[x y] z], v as [[x' y'] z'], d; cbn in *; injection H as ? ? ?; repeat (f_equal; try lia). }
    assert (Bw : forall d k, csub v u = k -> k = csub (0,0,0) (unit d) -> u = cadd v (unit d)).
    { intros d k H ->. destruct u as [[x y] z], v as [[x' y'] z'], d; cbn in *; injection H as ? ? ?; repeat (f_equal; try lia). }
    destruct Hu as [[[[[H|H]|H]|H]|H]|H].
    + rewrite (Fw AX H). apply Pos.
    + rewrite (Fw AY H). apply Pos.
    + rewrite (Fw AZ H). apply Pos.
    + rewrite (Bw AX _ H eq_refl). symmetry. apply Pos.
    + rewrite (Bw AY _ H eq_refl). symmetry. apply Pos.
    + rewrite (Bw AZ _ H eq_refl). symmetry. apply Pos.
  - pose proof (mesh_bal n s u v) as M. rewrite !(S_far n s _ u v Hu) in M. lia.
Qed.

(* ------------------------------------------------------------------ orientation *)
Definition cross (p q : cell) : cell :=
  let '(a, b, c) := p in let '(d, e, f) := q in (b * f - c * e, c * d - a * f, a * e - b * d).
Definition tri_normal (t : tri) : cell := let '(A, B, C) := t in cross (csub B A) (csub C A).

(* every triangle of the quad of edge (a,p) has normal +a when the low end is solid, -a otherwise:
   normals point from solid to void *)
Lemma dual_tri_normal n s a p t : In t (edge_tris n s a p) ->
  tri_normal t = if s p then unit a else csub (0, 0, 0) (unit a).
Proof.
  unfold edge_tris. destruct (interior n a p); [|intros []].
  destruct p as [[x y] z]. intros H.
  destruct (s (x, y, z)), (s (cadd (x, y, z) (unit a))); try contradiction;
    destruct a; cbn in H; destruct H as [<-|[<-|[]]]; cbn; repeat (f_equal; try lia).
Qed.

(* ------------------------------------------------------------------ identification of vertices *)
Definition dedges (ts : list tri) : list (cell * cell) :=
  flat_map (fun t : tri => let '(a, b, c) := t in [(a, b); (b, c); (c, a)]) ts.
Definition swap (e : cell * cell) : cell * cell := (snd e, fst e).
Definition pair_eqb (e f : cell * cell) : bool := ceqb (fst e) (fst f) && ceqb (snd e) (snd f).

Lemma cell_eq_dec (p q : cell) : {p = q} + {p <> q}.
Proof. destruct (ceqb p q) eqn:E; [left; now apply ceqb_eq | right; now apply ceqb_neq]. Defined.
Lemma pair_eq_dec (e f : cell * cell) : {e = f} + {e <> f}.
Proof. decide equality; apply cell_eq_dec. Defined.

Lemma dcount_count ts u v : dcount ts u v = Z.of_nat (count_occ pair_eq_dec (dedges ts) (u, v)).
Proof.
  induction ts as [|[[a b] c] ts IH]; [reflexivity|].
  unfold dcount in *. rewrite zsum_cons, IH. cbn [dedges flat_map app tri_dcount].
  change (flat_map _ ts) with (dedges ts).
  assert (H : forall x y l, Z.of_nat (count_occ pair_eq_dec ((x, y) :: l) (u, v)) = dhit u v x y + Z.of_nat (count_occ pair_eq_dec l (u, v))).
  { intros x y l. cbn [count_occ]. unfold dhit. destruct (pair_eq_dec (x, y) (u, v)) as [E|E].
    - injection E as -> ->. rewrite !ceqb_refl. cbn [andb]. lia.
    - destruct (ceqb x u) eqn:E1, (ceqb y v) eqn:E2; cbn [andb]; try lia.
      apply ceqb_eq in E1, E2. subst. contradiction. }
  rewrite !H. ring.
Qed.

Lemma count_occ_swap l u v :
  count_occ pair_eq_dec (map swap l) (u, v) = count_occ pair_eq_dec l (v, u).
Proof.
  induction l as [|[x y] l IH]; [reflexivity|].
  change (map swap ((x, y) :: l)) with ((y, x) :: map swap l). cbn [count_occ].
  destruct (pair_eq_dec (y, x) (u, v)) as [E|E], (pair_eq_dec (x, y) (v, u)) as [E'|E']; rewrite IH; try reflexivity.
  - injection E as -> ->. congruence.
  - injection E' as -> ->. congruence.
Qed.

Lemma closed_iff_perm ts : closed ts <-> Permutation (dedges ts) (map swap (dedges ts)).
Proof.
  rewrite (Permutation_count_occ pair_eq_dec). split.
  - intros H [u v]. specialize (H u v). rewrite !dcount_count in H. rewrite count_occ_swap. lia.
  - intros H u v. rewrite !dcount_count. f_equal. rewrite (H (u, v)). apply count_occ_swap.
Qed.

Definition map_tri (f : cell -> cell) (t : tri) : tri := let '(a, b, c) := t in (f a, f b, f c).

(* a closed mesh stays closed under ANY map of its vertices (merging coincident or
   tolerance-equal vertices cannot open it) *)
Theorem closed_pushforward f ts : closed ts -> closed (map (map_tri f) ts).
Proof.
  rewrite !closed_iff_perm. intros H.
  assert (E : forall l, dedges (map (map_tri f) l) = map (fun e => (f (fst e), f (snd e))) (dedges l)).
  { induction l as [|[[a b] c] l IH]; [reflexivity|]. cbn [map dedges flat_map map_tri app fst snd].
    fold (dedges (map (map_tri f) l)). fold (dedges l). now rewrite IH. }
  rewrite E, map_map.
  replace (map (fun x => swap (f (fst x), f (snd x))) (dedges ts))
    with (map (fun e => (f (fst e), f (snd e))) (map swap (dedges ts))) by (rewrite map_map; reflexivity).
  now apply Permutation_map.
Qed.
