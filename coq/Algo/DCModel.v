(* Models of the two dual-contouring renderers of render/dc over the REGENERATED
   tables (Generated/DCTables.v), in cell-index space (mesh vertex = cell index):

     v2_mesh   generateTriangles of dc3v2.go: loop over the cells that own a vertex
               (x-major order of placeVertices), three far edges per cell, lookup of the
               three neighbour cells, two triangles, flip rule;
     v1_mesh   contourCellProc / dcContourFaceProc / dcContourEdgeProc /
               dcContourProcessEdge of dc3v1.go on the full-depth octree that
               Populate builds (no simplification).  The octree pruned by Populate's
               out-of-volume filter on non-cubic volumes: Algo/DCPrune.v; the four Go
               functions translated from the source and proved equal to this model:
               Generated/DCProc.v, Algo/DCProcEq.v.

   Theorems: v2_quad_rule (for every lattice and sign assignment v2_mesh is the dual
   mesh of Algo/DualGrid.v as a multiset of triangles), v1_tables_geometry,
   v1_process_edge_rule, v1_traversal (Algo/DCOctree.v, Algo/DCVisits.v: every depth, every sign
   assignment), and the determinism scan.  Vertex positions (QEF / SVD) are not modelled. *)
From Coq Require Import List ZArith NArith Lia Bool Permutation FMapPositive.
From Sdfx Require Import Generated.DCTables.
From Sdfx Require Import Algo.DualGrid.
Import ListNotations.
Open Scope Z_scope.

(* ------------------------------------------------------------------ table access *)
Definition nthZ {A} (l : list A) (i : Z) (d : A) : A := nth (Z.to_nat i) l d.
Definition vec3 (l : list Z) : cell := (nthZ l 0 0, nthZ l 1 0, nthZ l 2 0).

(* "corners |= 1 << i" for every solid corner i *)
Definition mask (bs : list bool) : N :=
  fold_left (fun (acc : N) (ib : nat * bool) => if snd ib then N.lor acc (N.shiftl 1 (N.of_nat (fst ib))) else acc)
            (combine (seq 0 (List.length bs)) bs) 0%N.
(* (m >> i) & 1 *)
Definition bit (m : N) (i : Z) : bool := N.testbit m (Z.to_N i).

Lemma mask_bits : forall b0 b1 b2 b3 b4 b5 b6 b7 : bool,
  map (bit (mask [b0; b1; b2; b3; b4; b5; b6; b7])) [0; 1; 2; 3; 4; 5; 6; 7] = [b0; b1; b2; b3; b4; b5; b6; b7].
Proof. intros [] [] [] [] [] [] [] []; vm_compute; reflexivity. Qed.

Definition all_equal (bs : list bool) : bool := forallb (fun b => b) bs || forallb negb bs.
Lemma mask_full_or_empty : forall b0 b1 b2 b3 b4 b5 b6 b7 : bool,
  let l := [b0; b1; b2; b3; b4; b5; b6; b7] in
  ((mask l =? 0) || (mask l =? 255))%N = all_equal l.
Proof. intros [] [] [] [] [] [] [] []; vm_compute; reflexivity. Qed.

(* ================================================================== V2 *)
Section V2.
  Variable n : cell.            (* number of cells per axis *)
  Variable s : cell -> bool.    (* sign at lattice points: true = "Evaluate < 0" *)

  (* computeCornersInside *)
  Definition corner_signs (c : cell) : list bool := map (fun k => s (cadd c (vec3 k))) dcCorners.
  Definition corners_inside (c : cell) : N := mask (corner_signs c).
  (* placeVertex returns a vertex unless inside == 0 || inside == MaxUint8 *)
  Definition has_vertex (c : cell) : bool :=
    let m := corners_inside c in negb ((m =? 0) || (m =? 255))%N.
  (* infoI[c] *)
  Definition lookup (c : cell) : option cell := if ingrid n c && has_vertex c then Some c else None.

  Definition flip (t : tri) : tri := let '(a, b, c) := t in (a, c, b).

  Definition v2_edge (c : cell) (ai : Z) : list tri :=
    let inside := corners_inside c in
    let edge := nthZ dcFarEdges ai [] in
    let ex := nthZ edge 0 0 in let ey := nthZ edge 1 0 in
    if Bool.eqb (bit inside ex) (bit inside ey) then []        (* not a crossing *)
    else
      let off j := vec3 (nthZ dcV2NeighbourOffsets (3 * ai + j) []) in
      match lookup (cadd c (off 0)), lookup (cadd c (off 1)), lookup (cadd c (off 2)) with
      | Some k1, Some k2, Some k3 =>
          let k := [c; k1; k2; k3] in
          let t := map (fun o => (nthZ k (nthZ o 0 0) c, nthZ k (nthZ o 1 0) c, nthZ k (nthZ o 2 0) c)) dcV2TriangleOrder in
          if negb (Bool.eqb (bit inside ex) (Z.odd ai)) then map flip t else t
      | _, _, _ => []                                          (* "there will be holes" *)
      end.

  Definition v2_cell (c : cell) : list tri :=
    if has_vertex c then flat_map (v2_edge c) [0; 1; 2] else [].
  Definition v2_mesh : list tri := flat_map v2_cell (grid n).
End V2.

(* ------------------------------------------------------------------ v2: the tables in use *)
Lemma v2_tables_current :
  dcCorners = [[0;0;0];[0;0;1];[0;1;0];[0;1;1];[1;0;0];[1;0;1];[1;1;0];[1;1;1]] /\
  dcFarEdges = [[3;7];[5;7];[6;7]] /\
  dcV2NeighbourOffsets = [[0;0;1];[0;1;0];[0;1;1]; [0;0;1];[1;0;0];[1;0;1]; [0;1;0];[1;0;0];[1;1;0]] /\
  dcV2TriangleOrder = [[0;1;3];[0;3;2]].
Proof. repeat split; reflexivity. Qed.

(* axis and far-corner offset of far edge ai *)
Definition far_axis (ai : Z) : axis := if ai =? 0 then AX else if ai =? 1 then AY else AZ.
Definition far_off (ai : Z) : cell := if ai =? 0 then (0, 1, 1) else if ai =? 1 then (1, 0, 1) else (1, 1, 0).

Lemma corner_signs_eq s x y z :
  corner_signs s (x, y, z) =
  [s (x, y, z); s (x, y, z + 1); s (x, y + 1, z); s (x, y + 1, z + 1);
   s (x + 1, y, z); s (x + 1, y, z + 1); s (x + 1, y + 1, z); s (x + 1, y + 1, z + 1)].
Proof. unfold corner_signs. cbn. rewrite !Z.add_0_r. reflexivity. Qed.

Lemma has_vertex_eq s c : has_vertex s c = negb (all_equal (corner_signs s c)).
Proof.
  unfold has_vertex, corners_inside. destruct c as [[x y] z]. rewrite corner_signs_eq.
  now rewrite mask_full_or_empty.
Qed.

Lemma bit_inside s x y z :
  map (bit (corners_inside s (x, y, z))) [0; 1; 2; 3; 4; 5; 6; 7] = corner_signs s (x, y, z).
Proof. unfold corners_inside. rewrite corner_signs_eq. apply mask_bits. Qed.

(* two corners of different sign: the cell owns a vertex *)
Lemma has_vertex_of_change s c i j :
  (i < 8)%nat -> (j < 8)%nat -> nth i (corner_signs s c) false <> nth j (corner_signs s c) false ->
  has_vertex s c = true.
Proof.
  intros Hi Hj Hne. rewrite has_vertex_eq. destruct c as [[x y] z]. rewrite corner_signs_eq in *.
  destruct (s (x, y, z)), (s (x, y, z + 1)), (s (x, y + 1, z)), (s (x, y + 1, z + 1)),
           (s (x + 1, y, z)), (s (x + 1, y, z + 1)), (s (x + 1, y + 1, z)), (s (x + 1, y + 1, z + 1));
    try reflexivity; exfalso; apply Hne;
    do 8 (destruct i as [|i]; [do 8 (destruct j as [|j]; [reflexivity|]); lia|]); lia.
Qed.

(* ------------------------------------------------------------------ v2: one far edge *)
Lemma lookup_some n s c : ingrid n c = true -> has_vertex s c = true -> lookup n s c = Some c.
Proof. intros H1 H2. unfold lookup. now rewrite H1, H2. Qed.
Lemma lookup_none n s c : ingrid n c = false -> lookup n s c = None.
Proof. intros H1. unfold lookup. now rewrite H1. Qed.

Lemma v2_two_tris (c k1 k2 k3 : cell) :
  map (fun o => (nthZ [c; k1; k2; k3] (nthZ o 0 0) c, nthZ [c; k1; k2; k3] (nthZ o 1 0) c, nthZ [c; k1; k2; k3] (nthZ o 2 0) c))
      dcV2TriangleOrder = [(c, k1, k3); (c, k3, k2)].
Proof. reflexivity. Qed.

Ltac tri_eq := repeat (f_equal; try lia).
Ltac all_nil := repeat match goal with |- context [match ?l with _ => _ end] => destruct l end; constructor.
Ltac grid_true := unfold ingrid; rewrite !andb_true_iff, !Z.leb_le, !Z.ltb_lt; lia.

(* the quad of far edge ai of cell c is the quad of the lattice edge (far_axis ai, c + far_off ai) *)
Lemma v2_edge_spec n s c ai : ingrid n c = true -> In ai [0; 1; 2] ->
  Permutation (v2_edge n s c ai) (edge_tris n s (far_axis ai) (cadd c (far_off ai))).
Proof.
  intros Hc Hai. destruct c as [[x y] z]. destruct n as [[nx ny] nz].
  pose proof (bit_inside s x y z) as B. rewrite corner_signs_eq in B. injection B as B0 B1 B2 B3 B4 B5 B6 B7.
  assert (Hc' := Hc). unfold ingrid in Hc'. rewrite !andb_true_iff, !Z.leb_le, !Z.ltb_lt in Hc'.
  destruct Hai as [<-|[<-|[<-|[]]]]; unfold v2_edge, edge_tris.
  - (* far edge 0: corners 3-7, along x *)
    change (far_axis 0) with AX. change (far_off 0) with (0,1,1).
    change (nthZ dcFarEdges 0 []) with [3;7].
    change (nthZ [3;7] 0 0) with 3. change (nthZ [3;7] 1 0) with 7. rewrite B3, B7.
    change (vec3 (nthZ dcV2NeighbourOffsets (3 * 0 + 0) [])) with (0,0,1).
    change (vec3 (nthZ dcV2NeighbourOffsets (3 * 0 + 1) [])) with (0,1,0).
    change (vec3 (nthZ dcV2NeighbourOffsets (3 * 0 + 2) [])) with (0,1,1).
    cbn [cadd unit Z.odd Z.eqb]. rewrite ?Z.add_0_r.
    destruct (s (x, y + 1, z + 1)) eqn:EP, (s (x + 1, y + 1, z + 1)) eqn:EQ; cbn [eqb negb];
      try (destruct (interior _ _ _); constructor).
    + destruct (interior (nx, ny, nz) AX (x, y + 1, z + 1)) eqn:Hi.
      * unfold interior in Hi. cbn in Hi. rewrite !andb_true_iff, !Z.leb_le, !Z.ltb_lt in Hi.
        rewrite !lookup_some; try grid_true.
        -- rewrite v2_two_tris. cbn. eapply perm_trans; [apply perm_swap|]. apply Permutation_refl'. tri_eq.
        -- apply (has_vertex_of_change s _ 0 4); [lia|lia|]. rewrite corner_signs_eq. cbn [nth]. congruence.
        -- apply (has_vertex_of_change s _ 1 5); [lia|lia|]. rewrite corner_signs_eq. cbn [nth]. congruence.
        -- apply (has_vertex_of_change s _ 2 6); [lia|lia|]. rewrite corner_signs_eq. cbn [nth]. congruence.
      * unfold interior in Hi. cbn in Hi. rewrite !andb_false_iff, !Z.leb_gt, !Z.ltb_ge in Hi.
        destruct (ingrid (nx, ny, nz) (x, y, z + 1)) eqn:G1; [|rewrite (lookup_none _ _ _ G1); all_nil].
        destruct (ingrid (nx, ny, nz) (x, y + 1, z)) eqn:G2; [|rewrite (lookup_none _ _ _ G2); all_nil].
        exfalso. unfold ingrid in G1, G2. rewrite !andb_true_iff, !Z.leb_le, !Z.ltb_lt in G1, G2. lia.
    + destruct (interior (nx, ny, nz) AX (x, y + 1, z + 1)) eqn:Hi.
      * unfold interior in Hi. cbn in Hi. rewrite !andb_true_iff, !Z.leb_le, !Z.ltb_lt in Hi.
        rewrite !lookup_some; try grid_true.
        -- rewrite v2_two_tris. cbn. apply Permutation_refl'. tri_eq.
        -- apply (has_vertex_of_change s _ 0 4); [lia|lia|]. rewrite corner_signs_eq. cbn [nth]. congruence.
        -- apply (has_vertex_of_change s _ 1 5); [lia|lia|]. rewrite corner_signs_eq. cbn [nth]. congruence.
        -- apply (has_vertex_of_change s _ 2 6); [lia|lia|]. rewrite corner_signs_eq. cbn [nth]. congruence.
      * unfold interior in Hi. cbn in Hi. rewrite !andb_false_iff, !Z.leb_gt, !Z.ltb_ge in Hi.
        destruct (ingrid (nx, ny, nz) (x, y, z + 1)) eqn:G1; [|rewrite (lookup_none _ _ _ G1); all_nil].
        destruct (ingrid (nx, ny, nz) (x, y + 1, z)) eqn:G2; [|rewrite (lookup_none _ _ _ G2); all_nil].
        exfalso. unfold ingrid in G1, G2. rewrite !andb_true_iff, !Z.leb_le, !Z.ltb_lt in G1, G2. lia.
  - (* far edge 1: corners 5-7, along y *)
    change (far_axis 1) with AY. change (far_off 1) with (1,0,1).
    change (nthZ dcFarEdges 1 []) with [5;7].
    change (nthZ [5;7] 0 0) with 5. change (nthZ [5;7] 1 0) with 7. rewrite B5, B7.
    change (vec3 (nthZ dcV2NeighbourOffsets (3 * 1 + 0) [])) with (0,0,1).
    change (vec3 (nthZ dcV2NeighbourOffsets (3 * 1 + 1) [])) with (1,0,0).
    change (vec3 (nthZ dcV2NeighbourOffsets (3 * 1 + 2) [])) with (1,0,1).
    cbn [cadd unit Z.odd Z.eqb]. rewrite ?Z.add_0_r.
    destruct (s (x + 1, y, z + 1)) eqn:EP, (s (x + 1, y + 1, z + 1)) eqn:EQ; cbn [eqb negb];
      try (destruct (interior _ _ _); constructor).
    + destruct (interior (nx, ny, nz) AY (x + 1, y, z + 1)) eqn:Hi.
      * unfold interior in Hi. cbn in Hi. rewrite !andb_true_iff, !Z.leb_le, !Z.ltb_lt in Hi.
        rewrite !lookup_some; try grid_true.
        -- rewrite v2_two_tris. cbn. apply Permutation_refl'. tri_eq.
        -- apply (has_vertex_of_change s _ 0 2); [lia|lia|]. rewrite corner_signs_eq. cbn [nth]. congruence.
        -- apply (has_vertex_of_change s _ 1 3); [lia|lia|]. rewrite corner_signs_eq. cbn [nth]. congruence.
        -- apply (has_vertex_of_change s _ 4 6); [lia|lia|]. rewrite corner_signs_eq. cbn [nth]. congruence.
      * unfold interior in Hi. cbn in Hi. rewrite !andb_false_iff, !Z.leb_gt, !Z.ltb_ge in Hi.
        destruct (ingrid (nx, ny, nz) (x, y, z + 1)) eqn:G1; [|rewrite (lookup_none _ _ _ G1); all_nil].
        destruct (ingrid (nx, ny, nz) (x + 1, y, z)) eqn:G2; [|rewrite (lookup_none _ _ _ G2); all_nil].
        exfalso. unfold ingrid in G1, G2. rewrite !andb_true_iff, !Z.leb_le, !Z.ltb_lt in G1, G2. lia.
    + destruct (interior (nx, ny, nz) AY (x + 1, y, z + 1)) eqn:Hi.
      * unfold interior in Hi. cbn in Hi. rewrite !andb_true_iff, !Z.leb_le, !Z.ltb_lt in Hi.
        rewrite !lookup_some; try grid_true.
        -- rewrite v2_two_tris. cbn. eapply perm_trans; [apply perm_swap|]. apply Permutation_refl'. tri_eq.
        -- apply (has_vertex_of_change s _ 0 2); [lia|lia|]. rewrite corner_signs_eq. cbn [nth]. congruence.
        -- apply (has_vertex_of_change s _ 1 3); [lia|lia|]. rewrite corner_signs_eq. cbn [nth]. congruence.
        -- apply (has_vertex_of_change s _ 4 6); [lia|lia|]. rewrite corner_signs_eq. cbn [nth]. congruence.
      * unfold interior in Hi. cbn in Hi. rewrite !andb_false_iff, !Z.leb_gt, !Z.ltb_ge in Hi.
        destruct (ingrid (nx, ny, nz) (x, y, z + 1)) eqn:G1; [|rewrite (lookup_none _ _ _ G1); all_nil].
        destruct (ingrid (nx, ny, nz) (x + 1, y, z)) eqn:G2; [|rewrite (lookup_none _ _ _ G2); all_nil].
        exfalso. unfold ingrid in G1, G2. rewrite !andb_true_iff, !Z.leb_le, !Z.ltb_lt in G1, G2. lia.
  - (* far edge 2: corners 6-7, along z *)
    change (far_axis 2) with AZ. change (far_off 2) with (1,1,0).
    change (nthZ dcFarEdges 2 []) with [6;7].
    change (nthZ [6;7] 0 0) with 6. change (nthZ [6;7] 1 0) with 7. rewrite B6, B7.
    change (vec3 (nthZ dcV2NeighbourOffsets (3 * 2 + 0) [])) with (0,1,0).
    change (vec3 (nthZ dcV2NeighbourOffsets (3 * 2 + 1) [])) with (1,0,0).
    change (vec3 (nthZ dcV2NeighbourOffsets (3 * 2 + 2) [])) with (1,1,0).
    cbn [cadd unit Z.odd Z.eqb]. rewrite ?Z.add_0_r.
    destruct (s (x + 1, y + 1, z)) eqn:EP, (s (x + 1, y + 1, z + 1)) eqn:EQ; cbn [eqb negb];
      try (destruct (interior _ _ _); constructor).
    + destruct (interior (nx, ny, nz) AZ (x + 1, y + 1, z)) eqn:Hi.
      * unfold interior in Hi. cbn in Hi. rewrite !andb_true_iff, !Z.leb_le, !Z.ltb_lt in Hi.
        rewrite !lookup_some; try grid_true.
        -- rewrite v2_two_tris. cbn. eapply perm_trans; [apply perm_swap|]. apply Permutation_refl'. tri_eq.
        -- apply (has_vertex_of_change s _ 0 1); [lia|lia|]. rewrite corner_signs_eq. cbn [nth]. congruence.
        -- apply (has_vertex_of_change s _ 2 3); [lia|lia|]. rewrite corner_signs_eq. cbn [nth]. congruence.
        -- apply (has_vertex_of_change s _ 4 5); [lia|lia|]. rewrite corner_signs_eq. cbn [nth]. congruence.
      * unfold interior in Hi. cbn in Hi. rewrite !andb_false_iff, !Z.leb_gt, !Z.ltb_ge in Hi.
        destruct (ingrid (nx, ny, nz) (x, y + 1, z)) eqn:G1; [|rewrite (lookup_none _ _ _ G1); all_nil].
        destruct (ingrid (nx, ny, nz) (x + 1, y, z)) eqn:G2; [|rewrite (lookup_none _ _ _ G2); all_nil].
        exfalso. unfold ingrid in G1, G2. rewrite !andb_true_iff, !Z.leb_le, !Z.ltb_lt in G1, G2. lia.
    + destruct (interior (nx, ny, nz) AZ (x + 1, y + 1, z)) eqn:Hi.
      * unfold interior in Hi. cbn in Hi. rewrite !andb_true_iff, !Z.leb_le, !Z.ltb_lt in Hi.
        rewrite !lookup_some; try grid_true.
        -- rewrite v2_two_tris. cbn. apply Permutation_refl'. tri_eq.
        -- apply (has_vertex_of_change s _ 0 1); [lia|lia|]. rewrite corner_signs_eq. cbn [nth]. congruence.
        -- apply (has_vertex_of_change s _ 2 3); [lia|lia|]. rewrite corner_signs_eq. cbn [nth]. congruence.
        -- apply (has_vertex_of_change s _ 4 5); [lia|lia|]. rewrite corner_signs_eq. cbn [nth]. congruence.
      * unfold interior in Hi. cbn in Hi. rewrite !andb_false_iff, !Z.leb_gt, !Z.ltb_ge in Hi.
        destruct (ingrid (nx, ny, nz) (x, y + 1, z)) eqn:G1; [|rewrite (lookup_none _ _ _ G1); all_nil].
        destruct (ingrid (nx, ny, nz) (x + 1, y, z)) eqn:G2; [|rewrite (lookup_none _ _ _ G2); all_nil].
        exfalso. unfold ingrid in G1, G2. rewrite !andb_true_iff, !Z.leb_le, !Z.ltb_lt in G1, G2. lia.
Qed.

(* a cell without a vertex has no crossing far edge: looping over all cells or over `info` is the same *)
Lemma v2_cell_eq n s c : v2_cell n s c = flat_map (v2_edge n s c) [0; 1; 2].
Proof.
  unfold v2_cell. destruct (has_vertex s c) eqn:H; [reflexivity|].
  rewrite has_vertex_eq in H. apply negb_false_iff in H. destruct c as [[x y] z].
  pose proof (bit_inside s x y z) as B. rewrite corner_signs_eq in B, H. injection B as B0 B1 B2 B3 B4 B5 B6 B7.
  cbn [flat_map]. unfold v2_edge.
  change (nthZ dcFarEdges 0 []) with [3;7]. change (nthZ dcFarEdges 1 []) with [5;7]. change (nthZ dcFarEdges 2 []) with [6;7].
  change (nthZ [3;7] 0 0) with 3. change (nthZ [3;7] 1 0) with 7.
  change (nthZ [5;7] 0 0) with 5. change (nthZ [5;7] 1 0) with 7.
  change (nthZ [6;7] 0 0) with 6. change (nthZ [6;7] 1 0) with 7.
  rewrite B3, B5, B6, B7.
  destruct (s (x, y, z)), (s (x, y, z + 1)), (s (x, y + 1, z)), (s (x, y + 1, z + 1)),
           (s (x + 1, y, z)), (s (x + 1, y, z + 1)), (s (x + 1, y + 1, z)), (s (x + 1, y + 1, z + 1));
    try discriminate H; reflexivity.
Qed.

(* ------------------------------------------------------------------ regrouping of nested loops *)
Lemma flat_map_app_perm {A B} (g h : A -> list B) l :
  Permutation (flat_map (fun c => g c ++ h c) l) (flat_map g l ++ flat_map h l).
Proof.
  induction l as [|x l IH]; [constructor|]. cbn [flat_map].
  rewrite IH. rewrite <- !app_assoc. apply Permutation_app_head.
  rewrite !app_assoc. apply Permutation_app_tail. apply Permutation_app_comm.
Qed.

Lemma flat_map_perm_ext {A B} (g h : A -> list B) l :
  (forall x, In x l -> Permutation (g x) (h x)) -> Permutation (flat_map g l) (flat_map h l).
Proof.
  induction l as [|x l IH]; intros H; [constructor|]. cbn [flat_map].
  apply Permutation_app; [apply H; now left | apply IH; intros; apply H; now right].
Qed.

Lemma flat_map_nil {A B} (g : A -> list B) l : (forall x, In x l -> g x = []) -> flat_map g l = [].
Proof.
  induction l as [|x l IH]; intros H; [reflexivity|]. cbn [flat_map].
  rewrite (H x) by now left. apply IH. intros; apply H; now right.
Qed.

Lemma flat_map_ext_in {A B} (g h : A -> list B) l : (forall x, In x l -> g x = h x) -> flat_map g l = flat_map h l.
Proof.
  induction l as [|x l IH]; intros H; [reflexivity|]. cbn [flat_map].
  rewrite (H x) by now left. f_equal. apply IH. intros; apply H; now right.
Qed.

Lemma zrange_succ_front m : 0 <= m -> zrange (m + 1) = 0 :: map (fun i => i + 1) (zrange m).
Proof.
  intros H. unfold zrange. replace (Z.to_nat (m + 1)) with (S (Z.to_nat m)) by lia.
  cbn [seq map]. f_equal. rewrite <- seq_shift, !map_map. apply map_ext. intros; lia.
Qed.

(* the last index contributes nothing *)
Lemma flat_map_drop_last {B} (G : Z -> list B) m : G m = [] -> flat_map G (zrange (m + 1)) = flat_map G (zrange m).
Proof.
  intros H. destruct (Z.le_gt_cases 0 m) as [Hm|Hm].
  - rewrite zrange_succ by exact Hm. rewrite flat_map_app. cbn. now rewrite H, !app_nil_r.
  - rewrite !zrange_nonpos by lia. reflexivity.
Qed.
(* the first index contributes nothing: shift *)
Lemma flat_map_drop_first {B} (G : Z -> list B) m : G 0 = [] ->
  flat_map G (zrange (m + 1)) = flat_map (fun i => G (i + 1)) (zrange m).
Proof.
  intros H. destruct (Z.le_gt_cases 0 m) as [Hm|Hm].
  - rewrite zrange_succ_front by exact Hm. cbn [flat_map]. rewrite H. cbn [app].
    rewrite flat_map_concat_map, map_map, <- flat_map_concat_map. reflexivity.
  - rewrite !zrange_nonpos by lia. reflexivity.
Qed.

Lemma edge_tris_not_interior n s a p : interior n a p = false -> edge_tris n s a p = [].
Proof. intros H. unfold edge_tris. now rewrite H. Qed.

Ltac not_interior := apply edge_tris_not_interior; unfold interior; cbn;
  rewrite !andb_false_iff, !Z.leb_gt, !Z.ltb_ge; lia.

Lemma flat_map_flat_map {A B C} (f : B -> list C) (g : A -> list B) l :
  flat_map f (flat_map g l) = flat_map (fun x => flat_map f (g x)) l.
Proof. induction l as [|x l IH]; [reflexivity|]. cbn [flat_map]. now rewrite flat_map_app, IH. Qed.
Lemma flat_map_map {A B C} (f : B -> list C) (g : A -> B) l : flat_map f (map g l) = flat_map (fun x => f (g x)) l.
Proof. induction l as [|x l IH]; [reflexivity|]. cbn [flat_map map]. now rewrite IH. Qed.

Lemma grid_flat_map {B} (f : cell -> list B) nx ny nz :
  flat_map f (grid (nx, ny, nz)) =
  flat_map (fun x => flat_map (fun y => flat_map (fun z => f (x, y, z)) (zrange nz)) (zrange ny)) (zrange nx).
Proof.
  unfold grid. rewrite flat_map_flat_map. apply flat_map_ext_in. intros x _.
  rewrite flat_map_flat_map. apply flat_map_ext_in. intros y _. apply flat_map_map.
Qed.

(* per axis: all lattice points versus the far edges of all cells, same order *)
Lemma axis_reindex n s ai : In ai [0; 1; 2] ->
  flat_map (edge_tris n s (far_axis ai)) (points n) =
  flat_map (fun c => edge_tris n s (far_axis ai) (cadd c (far_off ai))) (grid n).
Proof.
  intros Hai. destruct n as [[nx ny] nz]. unfold points. cbn [cadd]. rewrite !grid_flat_map.
  destruct Hai as [<-|[<-|[<-|[]]]].
  - change (far_axis 0) with AX. change (far_off 0) with (0, 1, 1).
    rewrite flat_map_drop_last.
    2:{ apply flat_map_nil. intros y _. apply flat_map_nil. intros z _. not_interior. }
    apply flat_map_ext_in. intros x _.
    rewrite flat_map_drop_first.
    2:{ apply flat_map_nil. intros z _. not_interior. }
    apply flat_map_ext_in. intros y _.
    rewrite flat_map_drop_first by not_interior.
    apply flat_map_ext_in. intros z _. cbn [cadd]. rewrite Z.add_0_r. reflexivity.
  - change (far_axis 1) with AY. change (far_off 1) with (1, 0, 1).
    rewrite flat_map_drop_first.
    2:{ apply flat_map_nil. intros y _. apply flat_map_nil. intros z _. not_interior. }
    apply flat_map_ext_in. intros x _.
    rewrite flat_map_drop_last.
    2:{ apply flat_map_nil. intros z _. not_interior. }
    apply flat_map_ext_in. intros y _.
    rewrite flat_map_drop_first by not_interior.
    apply flat_map_ext_in. intros z _. cbn [cadd]. rewrite Z.add_0_r. reflexivity.
  - change (far_axis 2) with AZ. change (far_off 2) with (1, 1, 0).
    rewrite flat_map_drop_first.
    2:{ apply flat_map_nil. intros y _. apply flat_map_nil. intros z _. not_interior. }
    apply flat_map_ext_in. intros x _.
    rewrite flat_map_drop_first.
    2:{ apply flat_map_nil. intros z _. not_interior. }
    apply flat_map_ext_in. intros y _.
    rewrite flat_map_drop_last by not_interior.
    apply flat_map_ext_in. intros z _. cbn [cadd]. rewrite Z.add_0_r. reflexivity.
Qed.

(* ------------------------------------------------------------------ THE V2 RULE *)
Theorem v2_quad_rule n s : Permutation (v2_mesh n s) (dual_mesh n s).
Proof.
  unfold v2_mesh, dual_mesh, axes. cbn [flat_map]. rewrite app_nil_r.
  change AX with (far_axis 0). change AY with (far_axis 1). change AZ with (far_axis 2).
  rewrite !axis_reindex by (cbn; tauto).
  transitivity (flat_map (fun c => edge_tris n s (far_axis 0) (cadd c (far_off 0)) ++
                                   (edge_tris n s (far_axis 1) (cadd c (far_off 1)) ++
                                    edge_tris n s (far_axis 2) (cadd c (far_off 2)))) (grid n)).
  - apply flat_map_perm_ext. intros c Hc. apply in_grid in Hc.
    rewrite v2_cell_eq. cbn [flat_map]. rewrite app_nil_r.
    repeat apply Permutation_app; apply v2_edge_spec; cbn; tauto.
  - rewrite flat_map_app_perm. apply Permutation_app_head. apply flat_map_app_perm.
Qed.

Corollary v2_mesh_closed n s : boundary_outside n s -> closed (v2_mesh n s).
Proof. intros H. eapply closed_perm; [apply Permutation_sym, v2_quad_rule | now apply dual_mesh_closed]. Qed.

(* ================================================================== V1 *)
(* Octree node handle: Some (level, minOffset) with size = 2^level in leaf cells;
   None = nil pointer.  Populate allocates every child; a size-1 child without a
   sign change stays an Internal node whose eight children are nil
   (computeOctreeLeaf returns before setting kind = Leaf). *)
Definition node := option (nat * cell).
Inductive kind := Internal | Leaf.

Definition pow2 (l : nat) : Z := 2 ^ Z.of_nat l.
Definition cscale (k : Z) (p : cell) : cell := let '(x, y, z) := p in (k * x, k * y, k * z).
Definition child_off (i : Z) : cell := vec3 (nthZ dcChildMinOffsets i []).
Definition edge_corners (e : Z) : Z * Z := let r := nthZ dcEdgevmap e [] in (nthZ r 0 0, nthZ r 1 0).

(* computeOctreeLeaf: corners |= 1<<i for solid corner minOffset + dcChildMinOffsets[i] *)
Definition leaf_corners (s : cell -> bool) (c : cell) : N := mask (map (fun k => s (cadd c (vec3 k))) dcChildMinOffsets).

Section V1.
  Variable lc : cell -> N.     (* drawInfo.corners of the size-1 cell at an offset: leaf_corners s *)

  Definition nonempty (c : cell) : bool := let m := lc c in negb ((m =? 0) || (m =? 255))%N.

  Definition node_kind (l : nat) (c : cell) : kind :=
    match l with O => if nonempty c then Leaf else Internal | _ => Internal end.
  Definition is_nil (nd : node) : bool := match nd with None => true | Some _ => false end.
  Definition is_internal (nd : node) : bool :=
    match nd with Some (l, c) => match node_kind l c with Internal => true | Leaf => false end | None => false end.
  Definition child (nd : node) (i : Z) : node :=
    match nd with
    | Some (S l, off) => Some (l, cadd off (cscale (pow2 l) (child_off i)))
    | _ => None
    end.
  Definition sub (nd : node) (i : Z) : node := if is_internal nd then child nd i else nd.
  Definition node_cell (nd : node) : cell := match nd with Some (_, c) => c | None => (0, 0, 0) end.
  Definition node_size (nd : node) : Z := match nd with Some (l, _) => pow2 l | None => 0 end.

  (* dcContourProcessEdge: the loop over the four nodes, then the emission *)
  Definition pe_step (nd : list node) (dir : Z) (st : Z * Z * bool * list bool) (i : Z) : Z * Z * bool * list bool :=
    let '(minSize, minIndex, flp, sc) := st in
    let x := nthZ nd i None in
    let edge := nthZ (nthZ dcProcessEdgeMask dir []) i 0 in
    let '(c1, c2) := edge_corners edge in
    let m1 := bit (lc (node_cell x)) c1 in
    let m2 := bit (lc (node_cell x)) c2 in
    let '(minSize', minIndex', flp') := if node_size x <? minSize then (node_size x, i, m1) else (minSize, minIndex, flp) in
    (minSize', minIndex', flp', sc ++ [xorb m1 m2]).

  Fixpoint triples (l : list cell) : list tri :=
    match l with a :: b :: c :: r => (a, b, c) :: triples r | _ => [] end.

  Definition process_edge (nd : list node) (dir : Z) : list tri :=
    let '(_, minIndex, flp, sc) := fold_left (pe_step nd dir) [0; 1; 2; 3] (9223372036854775807, 0, false, []) in
    if nthZ sc minIndex false then
      let order := if negb flp then firstn 6 dcV1ProcessEdgeOrder else skipn 6 dcV1ProcessEdgeOrder in
      triples (map (fun k => node_cell (nthZ nd k None)) order)
    else [].

  Fixpoint edge_proc (fuel : nat) (nd : list node) (dir : Z) : list tri :=
    if existsb is_nil nd then []
    else if forallb (fun x => negb (is_internal x)) nd then process_edge nd dir
    else match fuel with
         | O => []
         | S f =>
             flat_map (fun i =>
               let row := nthZ (nthZ dcEdgeProcEdgeMask dir []) i [] in
               edge_proc f (map (fun j => sub (nthZ nd j None) (nthZ row j 0)) [0; 1; 2; 3]) (nthZ row 4 0)) [0; 1]
         end.

  Fixpoint face_proc (fuel : nat) (nd : list node) (dir : Z) : list tri :=
    if existsb is_nil nd then []
    else if existsb is_internal nd then
      match fuel with
      | O => []
      | S f =>
          flat_map (fun i =>
            let row := nthZ (nthZ dcFaceProcFaceMask dir []) i [] in
            face_proc f (map (fun j => sub (nthZ nd j None) (nthZ row j 0)) [0; 1]) (nthZ row 2 0)) [0; 1; 2; 3]
          ++
          flat_map (fun i =>
            let row := nthZ (nthZ dcFaceProcEdgeMask dir []) i [] in
            let order := nthZ dcFaceProcOrders (nthZ row 0 0) [] in
            edge_proc f (map (fun j => sub (nthZ nd (nthZ order j 0) None) (nthZ row (1 + j) 0)) [0; 1; 2; 3]) (nthZ row 5 0))
            [0; 1; 2; 3]
      end
    else [].

  Fixpoint cell_proc (fuel : nat) (nd : node) : list tri :=
    if is_nil nd then []
    else if is_internal nd then
      match fuel with
      | O => []
      | S f =>
          flat_map (fun i => cell_proc f (child nd i)) [0; 1; 2; 3; 4; 5; 6; 7]
          ++ flat_map (fun i => let row := nthZ dcCellProcFaceMask i [] in
                        face_proc f [child nd (nthZ row 0 0); child nd (nthZ row 1 0)] (nthZ row 2 0))
                      [0; 1; 2; 3; 4; 5; 6; 7; 8; 9; 10; 11]
          ++ flat_map (fun i => let row := nthZ dcCellProcEdgeMask i [] in
                        edge_proc f (map (fun j => child nd (nthZ row j 0)) [0; 1; 2; 3]) (nthZ row 4 0))
                      [0; 1; 2; 3; 4; 5]
      end
    else [].

  (* GenerateMesh on the octree of depth d (2^d cells per axis) *)
  Definition v1_mesh_lc (d : nat) : list tri := cell_proc (S d) (Some (d, (0, 0, 0))).
End V1.
Definition v1_mesh (s : cell -> bool) (d : nat) : list tri := v1_mesh_lc (leaf_corners s) d.

(* evaluation only: tabulate a function on the cells of the n-block once *)
Definition cell_key (n c : cell) : positive :=
  let '(nx, ny, nz) := n in let '(x, y, z) := c in Z.to_pos ((x * ny + y) * nz + z + 1).
Definition memo_cells (n : cell) (f : cell -> N) : cell -> N :=
  let m := fold_left (fun (acc : PositiveMap.t N) c => PositiveMap.add (cell_key n c) (f c) acc) (grid n) (PositiveMap.empty N) in
  fun c => if ingrid n c then match PositiveMap.find (cell_key n c) m with Some v => v | None => f c end else f c.

(* ------------------------------------------------------------------ correspondence *)
(* sign grid as a bit mask over the points of the n-lattice, x-major: bit ((x*(ny+1)+y)*(nz+1)+z).
   The bits are unpacked once into a positive-indexed map (lookup in logarithmic time). *)
Fixpoint pos_bits (p : positive) : list bool :=
  match p with xH => [true] | xO q => false :: pos_bits q | xI q => true :: pos_bits q end.
Definition bits_map (bits : N) : PositiveMap.t bool :=
  match bits with
  | N0 => PositiveMap.empty bool
  | Npos p => snd (fold_left (fun (acc : positive * PositiveMap.t bool) (b : bool) =>
                     (Pos.succ (fst acc), if b then PositiveMap.add (fst acc) true (snd acc) else snd acc))
                   (pos_bits p) (1%positive, PositiveMap.empty bool))
  end.
Definition grid_sign (n : cell) (bits : N) : cell -> bool :=
  let m := bits_map bits in
  fun p => let '(nx, ny, nz) := n in let '(x, y, z) := p in
    if inlat n p then
      match PositiveMap.find (Z.to_pos ((x * (ny + 1) + y) * (nz + 1) + z + 1)) m with Some b => b | None => false end
    else false.

Definition tri_eqb (t u : tri) : bool :=
  let '(a, b, c) := t in let '(d, e, f) := u in ceqb a d && ceqb b e && ceqb c f.
Fixpoint tris_eqb (l m : list tri) : bool :=
  match l, m with
  | [], [] => true
  | x :: l', y :: m' => tri_eqb x y && tris_eqb l' m'
  | _, _ => false
  end.

(* V2 case: id, cells per axis, sign bits, triangles observed (cell triples, in emission order) *)
Definition case2 := (N * cell * N * list tri)%type.
Definition mismatches2 (cs : list case2) : list N :=
  map (fun c : case2 => let '(id, _, _, _) := c in id)
      (filter (fun c : case2 => let '(id, n, bits, obs) := c in negb (tris_eqb (v2_mesh n (grid_sign n bits)) obs)) cs).

(* V1 case: id, depth, sign bits over the (2^d+1)^3 points, triangles observed *)
Definition case1 := (N * nat * N * list tri)%type.
Definition mismatches1 (cs : list case1) : list N :=
  map (fun c : case1 => let '(id, _, _, _) := c in id)
      (filter (fun c : case1 => let '(id, d, bits, obs) := c in
         let n := (pow2 d, pow2 d, pow2 d) in
         negb (tris_eqb (v1_mesh_lc (memo_cells n (leaf_corners (grid_sign n bits))) d) obs)) cs).

(* closedness of the observed index triangles, decided inside Coq as well: every directed edge
   that occurs is matched (used as a cross-check of the harness's own oracle) *)
Definition closedb (ts : list tri) : bool :=
  forallb (fun e : cell * cell => dcount ts (fst e) (snd e) =? dcount ts (snd e) (fst e)) (dedges ts).

