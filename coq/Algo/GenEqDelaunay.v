(* The syntactic tie for the Delaunay code: TriangleIByIndex.Less, TriangleI.Canonical,
   superTriangle (render/delaunay.go), Triangle2.Circumcenter / InCircumcircle (sdf/triangle2.go),
   VecSet.Min / Max (vec/v2/v2.go).  The definitions generated from the Go AST
   (Generated/RenderExpr.v, harness/rendergen) equal the model of Algo/Canon.v, Algo/Delaunay.v for
   all arguments over an arbitrary Ops. *)
From Coq Require Import ZArith List Bool Lia.
From Sdfx Require Import Num.Ops Geo.Vec Geo.Box Geo.Mat Render.RgLib Algo.Canon Algo.Delaunay Generated.RenderExpr.
Import OpsNotations ListNotations.
Local Open Scope ops_scope.

Section GenEqDelaunay.
  Context {O : Ops}.
  Notation T := (T O).
  Notation V2 := (V2 O).

  Lemma Less_eq : forall (a : list (Z * Z * Z)) (i j : Z),
      rg_render_TriangleIByIndex_Less a i j = Canon.less (znth i a (0, 0, 0)%Z) (znth j a (0, 0, 0)%Z).
  Proof.
    intros. unfold rg_render_TriangleIByIndex_Less. autounfold with rg_helpers. cbv zeta.
    generalize (znth i a (0, 0, 0)%Z) (znth j a (0, 0, 0)%Z). intros [[a0 a1] a2] [[b0 b1] b2].
    unfold Canon.less. cbn [fst snd]. z_cases TRANSL_render_Less.
  Qed.
  Lemma Canonical_eq : forall t : Canon.tri, rg_render_TriangleI_Canonical t = Canon.canon t.
  Proof.
    intros [[a b] c]. unfold rg_render_TriangleI_Canonical, Canon.canon. autounfold with rg_helpers.
    cbv zeta. cbn [fst snd]. z_cases TRANSL_render_Canonical.
  Qed.

  Lemma Circumcenter_eq : forall p1 p2 p3 : V2,
      rg_sdf_Triangle2_Circumcenter (p1, p2, p3) = circumcenter p1 p2 p3.
  Proof.
    intros. unfold rg_sdf_Triangle2_Circumcenter, circumcenter.
    unfold Delaunay.eps. cbn [fst snd].
    by_cases TRANSL_render_Circumcenter.
  Qed.
  Lemma InCircumcircle_eq : forall p1 p2 p3 p : V2,
      rg_sdf_Triangle2_InCircumcircle (p1, p2, p3) p = in_circumcircle p1 p2 p3 p.
  Proof.
    intros. unfold rg_sdf_Triangle2_InCircumcircle, in_circumcircle. rewrite Circumcenter_eq.
    unfold Delaunay.eps. cbn [fst snd].
    destruct (circumcenter p1 p2 p3); by_cases TRANSL_render_InCircumcircle.
  Qed.

  Lemma VecSet_Min_eq : forall vs : list V2, rg_v2_VecSet_Min vs = v2set_min vs.
  Proof. intros [|a r]; same_as TRANSL_render_VecSet_Min. Qed.
  Lemma VecSet_Max_eq : forall vs : list V2, rg_v2_VecSet_Max vs = v2set_max vs.
  Proof. intros [|a r]; same_as TRANSL_render_VecSet_Max. Qed.

  (* superTriangle for at least two vertices (the model's domain) *)
  Lemma superTriangle_eq : forall vs : list V2, (2 <= length vs)%nat ->
      rg_render_superTriangle vs = Some (super_triangle vs).
  Proof.
    intros vs H. unfold rg_render_superTriangle, super_triangle. autounfold with rg_helpers. cbv zeta.
    destruct vs as [|a [|b r]]; cbn [length] in H; try lia.
    (* len(vs) is at least 2: whatever tests the code makes on it (if chain, switch) are decided *)
    unfold zlen. cbn [length]. z_split.
    all: rewrite ?VecSet_Min_eq, ?VecSet_Max_eq.
    all: same_as TRANSL_render_superTriangle.
  Qed.
End GenEqDelaunay.
