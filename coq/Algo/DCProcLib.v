(* Meaning of the constructs harness/dctab/proc.go emits (Generated/DCProc.v) for the Go code of the
   V1 octree traversal.  Hand-written, part of the translator's trusted base:

     int, uint, named integer types    Z (no overflow)
     [n]T, []T                         list T
     a[i]                              gnth zero a i      (Go panics out of range; here the zero value)
     a[i] = e  (a an array variable)   a := gupd a i e    (out of range: a unchanged)
     a[lo:hi]                          gslice a lo hi
     for i := lo; i < hi; i++ { B }    gfor lo hi (fun state i => B) state, state = the variables of
                                       enclosing scopes that B assigns (the index buffer included)
     buf grows by append of e           buf := buf ++ [e] *)
From Coq Require Import List ZArith.
Import ListNotations.
Open Scope Z_scope.

Definition gnth {A} (d : A) (l : list A) (i : Z) : A := nth (Z.to_nat i) l d.
Fixpoint upd_nat {A} (l : list A) (n : nat) (x : A) : list A :=
  match l, n with
  | [], _ => []
  | _ :: r, O => x :: r
  | y :: r, S n' => y :: upd_nat r n' x
  end.
Definition gupd {A} (l : list A) (i : Z) (x : A) : list A := upd_nat l (Z.to_nat i) x.
Definition gslice {A} (l : list A) (lo hi : Z) : list A := firstn (Z.to_nat (hi - lo)) (skipn (Z.to_nat lo) l).
Definition grange (lo hi : Z) : list Z := map (fun k => lo + Z.of_nat k) (seq 0 (Z.to_nat (hi - lo))).
Definition gfor {S} (lo hi : Z) (body : S -> Z -> S) (s : S) : S := fold_left body (grange lo hi) s.
