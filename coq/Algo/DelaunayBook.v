(* Bookkeeping of render/delaunay.go Delaunay2d (model: Algo/Delaunay.v), for ALL inputs and
   independent of the number system: nothing here looks inside in_circumcircle.
     1. swap_remove / strip   : the final super-triangle removal returns exactly (as a multiset)
                                the triangles with all indices < n;
     2. scan                  : the cavity search partitions the working list into kept and
                                removed triangles, returns the edges of the removed ones in removal
                                order, updates the done flags, and never runs out of fuel;
     3. tag_outer             : the O(m^2) duplicate tagging keeps exactly the entries whose
                                undirected edge occurs once - PROVIDED no edge occurs 3+ times
                                (tag_outer_triple shows the third copy survives otherwise);
     4. add_vertex            : kept ++ one triangle (e0,e1,i) per surviving edge; lengths;
     5. delaunay2d            : every returned index is in [0, n).
   Proofs by induction on fuel / list structure; no size bounds. *)
From Coq Require Import List Permutation ZArith Lia Bool Arith.
From Sdfx Require Import Num.Ops Geo.Vec Algo.Delaunay.
Import ListNotations.

Section ListFacts.
  Context {A : Type}.
  Implicit Types l : list A.

  Lemma set_nth_length : forall l j (x : A), length (set_nth l j x) = length l.
  Proof. induction l as [|y r IH]; intros [|j] x; cbn; auto. Qed.

  Lemma set_nth_app : forall l1 (y x : A) l2, set_nth (l1 ++ y :: l2) (length l1) x = l1 ++ x :: l2.
  Proof. induction l1 as [|z r IH]; intros; cbn; [reflexivity|]. now rewrite IH. Qed.

  Lemma set_nth_beyond : forall l j (x : A), length l <= j -> set_nth l j x = l.
  Proof.
    induction l as [|y r IH]; intros [|j] x H; cbn in *; auto; try lia.
    rewrite IH; auto; lia.
  Qed.

  Lemma nth_app_mid : forall l1 (y d : A) l2, nth (length l1) (l1 ++ y :: l2) d = y.
  Proof. induction l1; intros; cbn; auto. Qed.

  Lemma swap_remove_length : forall (d : A) l j, length (swap_remove d l j) = length l - 1.
  Proof.
    intros d l j. unfold swap_remove.
    assert (H : forall m : list A, length (removelast m) = length m - 1).
    { induction m as [|y [|z r] IH]; cbn in *; auto. lia. }
    now rewrite H, set_nth_length.
  Qed.

  Lemma swap_remove_cons_S : forall (d y : A) r j, j < length r ->
    swap_remove d (y :: r) (S j) = y :: swap_remove d r j.
  Proof.
    intros d y r j Hj. unfold swap_remove.
    assert (Hx : nth (length (y :: r) - 1) (y :: r) d = nth (length r - 1) r d).
    { destruct r as [|z r]; [cbn in Hj; lia|]. cbn [length].
      replace (S (S (length r)) - 1) with (S (S (length r) - 1)) by lia. reflexivity. }
    rewrite Hx. cbn [set_nth].
    remember (set_nth r j (nth (length r - 1) r d)) as m eqn:Em.
    assert (Hm : length m = length r) by (subst m; now rewrite set_nth_length).
    destruct m as [|m0 m']; [cbn in Hm; lia|]. reflexivity.
  Qed.

  Lemma swap_remove_0 : forall (d y : A) r, Permutation r (swap_remove d (y :: r) 0).
  Proof.
    intros d y r. unfold swap_remove. cbn [length set_nth].
    replace (S (length r) - 1) with (length r) by lia.
    destruct r as [|z r] using rev_ind; [cbn; constructor|].
    clear IHr. rewrite app_length; cbn [length]. 
    replace (length r + 1) with (S (length r)) by lia. cbn [nth].
    rewrite nth_app_mid. rewrite app_comm_cons, removelast_last.
    symmetry. apply Permutation_cons_append.
  Qed.

  (* element j is removed, everything else is kept (as a multiset) *)
  Lemma swap_remove_perm : forall (d : A) l j, j < length l ->
    Permutation l (nth j l d :: swap_remove d l j).
  Proof.
    intros d l. induction l as [|y r IH]; intros j Hj; [cbn in Hj; lia|].
    destruct j as [|j].
    - cbn [nth]. constructor. apply swap_remove_0.
    - cbn [length] in Hj. rewrite swap_remove_cons_S by lia. cbn [nth].
      rewrite perm_swap. constructor. apply IH. lia.
  Qed.

  Lemma swap_remove_spec : forall (d : A) l j, j < length l ->
    Permutation l (nth j l d :: swap_remove d l j) /\ length (swap_remove d l j) = length l - 1.
  Proof. intros. split; [now apply swap_remove_perm|apply swap_remove_length]. Qed.

  Lemma swap_remove_app : forall (d : A) pre post, post <> [] ->
    swap_remove d (pre ++ post) (length pre) = pre ++ swap_remove d post 0.
  Proof.
    intros d pre post Hp. induction pre as [|y r IH]; [reflexivity|].
    cbn [app length]. rewrite swap_remove_cons_S.
    - now rewrite IH.
    - rewrite app_length. destruct post; [congruence|cbn; lia].
  Qed.

  Lemma Permutation_filter' : forall (f : A -> bool) l m, Permutation l m ->
    Permutation (filter f l) (filter f m).
  Proof.
    intros f l m H. induction H; cbn.
    - constructor.
    - destruct (f x); auto.
    - destruct (f x), (f y); auto. apply perm_swap.
    - etransitivity; eauto.
  Qed.

  Lemma Permutation_flat_map' : forall {B} (f : A -> list B) l m, Permutation l m ->
    Permutation (flat_map f l) (flat_map f m).
  Proof.
    intros B f l m H. induction H; cbn.
    - constructor.
    - now apply Permutation_app_head.
    - rewrite !app_assoc. apply Permutation_app_tail, Permutation_app_comm.
    - etransitivity; eauto.
  Qed.

  Lemma filter_all : forall (f : A -> bool) l, Forall (fun x => f x = true) l -> filter f l = l.
  Proof. intros f l H. induction H; cbn; auto. now rewrite H, IHForall. Qed.
End ListFacts.

(* ------------------------------------------------------------------ strip *)
Section Strip.
  Variable n : Z.
  Definition touches_super (t : tri) : bool :=
    let '(a, b, c) := t in ((n <=? a) || (n <=? b) || (n <=? c))%Z.
  Definition inner_tri (t : tri) : bool := negb (touches_super t).
  Definition all_below (t : tri) : Prop := let '(a, b, c) := t in (a < n /\ b < n /\ c < n)%Z.

  Lemma inner_tri_iff : forall t, inner_tri t = true <-> all_below t.
  Proof.
    intros [[a b] c]. unfold inner_tri, touches_super, all_below.
    rewrite negb_true_iff, !orb_false_iff, !Z.leb_gt. tauto.
  Qed.

  Lemma strip_step : forall fuel pre post, length post <= fuel ->
    Forall (fun t => inner_tri t = true) pre ->
    Permutation (strip fuel n (pre ++ post) (length pre)) (pre ++ filter inner_tri post).
  Proof.
    induction fuel as [|fuel IH]; intros pre post Hf Hpre.
    - destruct post; [|cbn in Hf; lia]. reflexivity.
    - cbn [strip]. destruct post as [|x post'].
      + rewrite app_nil_r, Nat.leb_refl. cbn. now rewrite app_nil_r.
      + destruct (Nat.leb_spec (length (pre ++ x :: post')) (length pre)) as [H|_].
        { rewrite app_length in H; cbn in H; lia. }
        rewrite nth_app_mid. destruct x as [[a b] c].
        assert (Ex : inner_tri (a, b, c) = negb ((n <=? a) || (n <=? b) || (n <=? c))%Z) by reflexivity.
        cbn [filter]. rewrite Ex.
        destruct ((n <=? a) || (n <=? b) || (n <=? c))%Z eqn:Eb; cbn [negb].
        * rewrite swap_remove_app by discriminate.
          assert (Hp : Permutation post' (swap_remove (0, 0, 0)%Z ((a, b, c) :: post') 0))
            by apply swap_remove_0.
          rewrite IH; auto.
          -- apply Permutation_app_head. symmetry. now apply Permutation_filter'.
          -- rewrite swap_remove_length. cbn in *; lia.
        * pose proof (IH (pre ++ [(a, b, c)]) post') as IH'.
          rewrite <- !app_assoc, app_length, Nat.add_1_r in IH'. cbn [app length] in IH'.
          apply IH'.
          -- cbn in Hf; lia.
          -- apply Forall_app; split; [exact Hpre|]. constructor; [|constructor].
             exact Ex.
  Qed.

  (* general start index: everything before j has already been examined *)
  Theorem strip_from : forall fuel ts j, j <= length ts -> length ts - j <= fuel ->
    Forall all_below (firstn j ts) ->
    Permutation (strip fuel n ts j) (filter inner_tri ts) /\ Forall all_below (strip fuel n ts j).
  Proof.
    intros fuel ts j Hj Hf Hpre.
    assert (Hpre' : Forall (fun t => inner_tri t = true) (firstn j ts)).
    { eapply Forall_impl; [|exact Hpre]. intros t. apply inner_tri_iff. }
    assert (P : Permutation (strip fuel n ts j) (filter inner_tri ts)).
    { pose proof (strip_step fuel (firstn j ts) (skipn j ts)) as S1.
      rewrite firstn_skipn, firstn_length, Nat.min_l, skipn_length in S1 by lia.
      rewrite S1; auto.
      rewrite <- (firstn_skipn j ts) at 3.
      rewrite filter_app, (filter_all _ _ Hpre'). reflexivity. }
    split; [exact P|].
    eapply Permutation_Forall; [symmetry; exact P|].
    apply Forall_forall. intros t Ht. apply filter_In in Ht. now apply inner_tri_iff.
  Qed.

  Theorem strip_exact : forall fuel ts, length ts <= fuel ->
    Permutation (strip fuel n ts 0) (filter inner_tri ts) /\ Forall all_below (strip fuel n ts 0).
  Proof. intros. apply strip_from; cbn; auto; lia. Qed.
End Strip.

(* ------------------------------------------------------------------ scan *)
Definition edges3 (t : tri) : list edge := let '(a, b, c) := t in [(a, b); (b, c); (c, a)].

Section Scan.
  Context {O : Ops}.
  Variable vs : list (V2 O).
  Variable v : V2 O.

  Definition dflt : tri * bool := ((0, 0, 0)%Z, false).

  (* the circumcircle test of triangle t against the vertex being inserted *)
  Definition icc (t : tri) : bool * bool :=
    let '(a, b, c) := t in in_circumcircle (vnth vs a) (vnth vs b) (vnth vs c) v.

  (* what one visit does to an entry: what stays in the list / what leaves it *)
  Definition keepf (e : tri * bool) : list (tri * bool) :=
    if snd e then [e] else if fst (icc (fst e)) then [] else [(fst e, snd (icc (fst e)))].
  Definition remf (e : tri * bool) : list tri :=
    if snd e then [] else if fst (icc (fst e)) then [fst e] else [].

  Lemma scan_step : forall fuel pre post es, length post <= fuel ->
    exists kept removed,
      scan fuel vs v (pre ++ post) (length pre) es = (pre ++ kept, es ++ flat_map edges3 removed) /\
      Permutation (flat_map keepf post) kept /\
      Permutation (flat_map remf post) removed.
  Proof.
    induction fuel as [|fuel IH]; intros pre post es Hf.
    - destruct post; [|cbn in Hf; lia]. exists [], []. cbn. rewrite !app_nil_r. repeat split; constructor.
    - cbn [scan]. destruct post as [|x post'].
      + rewrite app_nil_r, Nat.leb_refl. exists [], []. cbn. rewrite !app_nil_r. repeat split; constructor.
      + destruct (Nat.leb_spec (length (pre ++ x :: post')) (length pre)) as [H|_].
        { rewrite app_length in H; cbn in H; lia. }
        rewrite nth_app_mid. destruct x as [[[a b] c] dn].
        change (in_circumcircle (vnth vs a) (vnth vs b) (vnth vs c) v) with (icc (a, b, c)).
        destruct dn.
        * pose proof (IH (pre ++ [((a, b, c), true)]) post' es) as IH'.
          rewrite <- !app_assoc, app_length, Nat.add_1_r in IH'. cbn [app length] in IH'.
          destruct IH' as (kept & removed & E & Pk & Pr); [cbn in Hf; lia|].
          exists (((a, b, c), true) :: kept), removed. split; [|split].
          -- cbv iota. eapply eq_trans; [exact E|]. now rewrite <- app_assoc.
          -- cbn [flat_map]. unfold keepf at 1. cbn [fst snd app]. now constructor.
          -- cbn [flat_map]. unfold remf at 1. cbn [fst snd app]. exact Pr.
        * destruct (icc (a, b, c)) as [inside complete] eqn:Ei.
          destruct inside.
          -- cbv iota. rewrite set_nth_app, swap_remove_app by discriminate.
             pose proof (swap_remove_0 dflt ((a, b, c, complete)) post') as Hp.
             fold dflt.
             destruct (IH pre (swap_remove dflt ((a, b, c, complete) :: post') 0)
                          (es ++ [(a, b); (b, c); (c, a)])) as (kept & removed & E & Pk & Pr).
             { rewrite swap_remove_length. cbn in *; lia. }
             exists kept, ((a, b, c) :: removed). split; [|split].
             ++ cbv iota. eapply eq_trans; [exact E|]. now rewrite <- app_assoc.
             ++ cbn [flat_map]. unfold keepf at 1. cbn [fst snd]. rewrite Ei. cbn [fst snd app].
                rewrite <- Pk. now apply Permutation_flat_map'.
             ++ cbn [flat_map]. unfold remf at 1. cbn [fst snd]. rewrite Ei. cbn [fst snd app].
                constructor. rewrite <- Pr. now apply Permutation_flat_map'.
          -- cbv iota. rewrite set_nth_app.
             pose proof (IH (pre ++ [((a, b, c), complete)]) post' es) as IH'.
             rewrite <- !app_assoc, app_length, Nat.add_1_r in IH'. cbn [app length] in IH'.
             destruct IH' as (kept & removed & E & Pk & Pr); [cbn in Hf; lia|].
             exists (((a, b, c), complete) :: kept), removed. split; [|split].
             ++ cbv iota. eapply eq_trans; [exact E|]. now rewrite <- app_assoc.
             ++ cbn [flat_map]. unfold keepf at 1. cbn [fst snd]. rewrite Ei. cbn [fst snd app].
                now constructor.
             ++ cbn [flat_map]. unfold remf at 1. cbn [fst snd]. rewrite Ei. cbn [fst snd app].
                exact Pr.
  Qed.

  (* (e): the loop stops because j reaches the end of the list; more fuel changes nothing *)
  Lemma scan_fuel : forall fuel1 fuel2 ts j es, length ts - j <= fuel1 -> length ts - j <= fuel2 ->
    scan fuel1 vs v ts j es = scan fuel2 vs v ts j es.
  Proof.
    induction fuel1 as [|fuel1 IH]; intros fuel2 ts j es H1 H2.
    - destruct fuel2; [reflexivity|]. cbn [scan].
      destruct (Nat.leb_spec (length ts) j); [reflexivity|lia].
    - cbn [scan]. destruct (Nat.leb_spec (length ts) j) as [H|H].
      + destruct fuel2; [reflexivity|]. cbn [scan].
        destruct (Nat.leb_spec (length ts) j); [reflexivity|lia].
      + destruct fuel2 as [|fuel2]; [lia|]. cbn [scan].
        destruct (Nat.leb_spec (length ts) j); [lia|].
        destruct (nth j ts (0%Z, 0%Z, 0%Z, false)) as [[[a b] c] dn].
        destruct dn; [apply IH; lia|].
        destruct (in_circumcircle (vnth vs a) (vnth vs b) (vnth vs c) v) as [inside complete].
        destruct inside; apply IH; rewrite ?swap_remove_length, ?set_nth_length; lia.
  Qed.

  Lemma keepf_cases : forall e k, In k (keepf e) ->
    (snd e = true /\ k = e) \/
    (snd e = false /\ fst (icc (fst e)) = false /\ k = (fst e, snd (icc (fst e)))).
  Proof.
    intros [t dn] k. unfold keepf. cbn [fst snd]. destruct dn.
    - intros [<-|[]]. now left.
    - destruct (fst (icc t)); [intros []|]. intros [<-|[]]. now right.
  Qed.

  Lemma remf_cases : forall e t, In t (remf e) ->
    snd e = false /\ fst (icc t) = true /\ t = fst e.
  Proof.
    intros [t0 dn] t. unfold remf. cbn [fst snd]. destruct dn; [intros []|].
    destruct (fst (icc t0)) eqn:E; [|intros []]. intros [<-|[]]. auto.
  Qed.

  Lemma keep_rem_partition : forall ts,
    Permutation (map fst ts) (map fst (flat_map keepf ts) ++ flat_map remf ts).
  Proof.
    induction ts as [|[t dn] ts IH]; [constructor|].
    cbn [map flat_map fst]. unfold keepf at 1, remf at 1. cbn [fst snd].
    destruct dn; [cbn; now constructor|].
    destruct (fst (icc t)); cbn [app map fst].
    - now apply Permutation_cons_app.
    - now constructor.
  Qed.

  (* The scan for one vertex, as add_vertex calls it. *)
  Theorem scan_partition : forall ts,
    exists kept removed,
      scan (S (length ts)) vs v ts 0 [] = (kept, flat_map edges3 removed) /\
      Permutation (flat_map keepf ts) kept /\
      Permutation (flat_map remf ts) removed /\
      (* a *) Permutation (map fst ts) (map fst kept ++ removed) /\
      (* c *) (forall t, In t removed -> In (t, false) ts /\ fst (icc t) = true) /\
      (* d *) (forall k, In k kept ->
                 (snd k = true /\ In k ts) \/
                 (In (fst k, false) ts /\ fst (icc (fst k)) = false /\ snd k = snd (icc (fst k)))) /\
      (* e *) (forall fuel, S (length ts) <= fuel ->
                 scan fuel vs v ts 0 [] = scan (S (length ts)) vs v ts 0 []).
  Proof.
    intros ts.
    destruct (scan_step (S (length ts)) [] ts []) as (kept & removed & E & Pk & Pr); [lia|].
    cbn [app length] in E.
    exists kept, removed. repeat split; auto.
    - rewrite <- Pk, <- Pr. apply keep_rem_partition.
    - apply (Permutation_in _ (Permutation_sym Pr)) in H. apply in_flat_map in H.
      destruct H as (e & He & Ht). apply remf_cases in Ht. destruct Ht as (Hd & _ & ->).
      destruct e as [t0 dn]; cbn in *; now subst.
    - apply (Permutation_in _ (Permutation_sym Pr)) in H. apply in_flat_map in H.
      destruct H as (e & He & Ht). now apply remf_cases in Ht.
    - intros k Hk. apply (Permutation_in _ (Permutation_sym Pk)) in Hk. apply in_flat_map in Hk.
      destruct Hk as (e & He & Hk). apply keepf_cases in Hk.
      destruct Hk as [[Hd ->]|(Hd & Hi & ->)]; [left; auto|right].
      destruct e as [t0 dn]; cbn in *; subst; auto.
    - intros fuel Hf. apply scan_fuel; lia.
  Qed.
End Scan.

(* ------------------------------------------------------------------ duplicate-edge tagging *)
Section Tag.
  Open Scope Z_scope.
  Definition tag : edge := (-1, -1).
  Definition rev_edge (e : edge) : edge := (snd e, fst e).

  (* edge_dup is "same undirected edge" *)
  Lemma dup_iff : forall x y, edge_dup x y = true <-> (y = x \/ y = rev_edge x).
  Proof.
    intros [a b] [c d]. unfold edge_dup, rev_edge. cbn [fst snd].
    rewrite orb_true_iff, !andb_true_iff, !Z.eqb_eq. split.
    - intros [[-> ->]|[-> ->]]; auto.
    - intros [H|H]; inversion H; auto.
  Qed.
  Lemma dup_refl : forall x, edge_dup x x = true.
  Proof. intros. apply dup_iff. auto. Qed.
  Lemma rev_rev : forall x, rev_edge (rev_edge x) = x.
  Proof. now intros [a b]. Qed.
  Lemma dup_sym : forall x y, edge_dup x y = edge_dup y x.
  Proof.
    intros x y. apply eq_true_iff_eq. rewrite !dup_iff. split; intros [->| ->]; auto;
      rewrite rev_rev; auto.
  Qed.
  Lemma dup_class : forall x y z, edge_dup x y = true -> edge_dup x z = edge_dup y z.
  Proof.
    intros x y z H. apply dup_iff in H. apply eq_true_iff_eq. rewrite !dup_iff.
    destruct H as [->| ->]; [tauto|]. rewrite rev_rev. tauto.
  Qed.
  Lemma dup_tag_l : forall y, edge_dup tag y = true -> y = tag.
  Proof. intros y H. apply dup_iff in H. destruct H as [->| ->]; reflexivity. Qed.
  Lemma dup_tag_r : forall x, x <> tag -> edge_dup x tag = false.
  Proof.
    intros x H. destruct (edge_dup x tag) eqn:E; [|reflexivity].
    rewrite dup_sym in E. apply dup_tag_l in E. congruence.
  Qed.

  (* the j-loop body as a function on (es[j], es[j+1..]) *)
  Fixpoint inner (x : edge) (rest : list edge) : edge * list edge :=
    match rest with
    | [] => (x, [])
    | y :: r => if edge_dup x y then let '(x', r') := inner tag r in (x', tag :: r')
                else let '(x', r') := inner x r in (x', y :: r')
    end.

  Lemma tag_inner_is_inner : forall rest fuel pre x mid, (length rest <= fuel)%nat ->
    tag_inner (pre ++ x :: mid ++ rest) (length pre) (length pre + S (length mid)) fuel =
    pre ++ fst (inner x rest) :: mid ++ snd (inner x rest).
  Proof.
    induction rest as [|y r IH]; intros fuel pre x mid Hf.
    - cbn [inner fst snd]. destruct fuel; [reflexivity|]. cbn [tag_inner].
      destruct (Nat.leb_spec (length (pre ++ x :: mid ++ [])) (length pre + S (length mid))) as [_|H];
        [reflexivity|].
      rewrite !app_length in H; cbn in H; rewrite app_length in H; cbn in H; lia.
    - destruct fuel as [|fuel]; [cbn in Hf; lia|]. cbn [tag_inner].
      destruct (Nat.leb_spec (length (pre ++ x :: mid ++ y :: r)) (length pre + S (length mid))) as [H|_].
      { rewrite !app_length in H; cbn in H; rewrite app_length in H; cbn in H; lia. }
      rewrite nth_app_mid.
      assert (Hk : forall (u : edge) w, (pre ++ u :: mid ++ w :: r) = ((pre ++ u :: mid) ++ w :: r)).
      { intros. now rewrite <- app_assoc. }
      assert (Hl : forall u : edge, (length pre + S (length mid))%nat = length (pre ++ u :: mid)).
      { intros. rewrite app_length. reflexivity. }
      assert (Ek : nth (length pre + S (length mid)) (pre ++ x :: mid ++ y :: r) (0, 0) = y).
      { rewrite Hk, (Hl x). apply nth_app_mid. }
      rewrite Ek. cbn [inner].
      assert (Hs : forall u : edge, S (length pre + S (length mid)) = (length pre + S (length (mid ++ [u])))%nat).
      { intros. rewrite app_length. cbn. lia. }
      assert (Hm : forall (u w : edge), pre ++ u :: mid ++ w :: r = pre ++ u :: (mid ++ [w]) ++ r).
      { intros. now rewrite <- app_assoc. }
      destruct (edge_dup x y).
      + rewrite set_nth_app.
        rewrite Hk, (Hl (-1, -1)), set_nth_app, <- Hk, <- (Hl (-1, -1)).
        rewrite (Hs tag), Hm. fold tag. rewrite IH by (cbn in Hf; lia).
        destruct (inner tag r) as [x' r']. cbn [fst snd]. now rewrite <- app_assoc.
      + rewrite (Hs y), Hm. rewrite IH by (cbn in Hf; lia).
        destruct (inner x r) as [x' r']. cbn [fst snd]. now rewrite <- app_assoc.
  Qed.

  Lemma inner_tag : forall rest, inner tag rest = (tag, rest).
  Proof.
    induction rest as [|y r IH]; [reflexivity|]. cbn [inner]. rewrite IH.
    destruct (edge_dup tag y) eqn:E; [|reflexivity]. apply dup_tag_l in E. now subst.
  Qed.

  Lemma inner_none : forall x rest, (forall y, In y rest -> edge_dup x y = false) ->
    inner x rest = (x, rest).
  Proof.
    induction rest as [|y r IH]; intros H; [reflexivity|]. cbn [inner].
    rewrite (H y) by now left. rewrite IH; [reflexivity|]. intros; apply H; now right.
  Qed.

  Lemma inner_one : forall x r1 y r2, (forall z, In z r1 -> edge_dup x z = false) ->
    edge_dup x y = true -> inner x (r1 ++ y :: r2) = (tag, r1 ++ tag :: r2).
  Proof.
    induction r1 as [|z r1 IH]; intros y r2 H Hy.
    - cbn [app inner]. now rewrite Hy, inner_tag.
    - cbn [app inner]. rewrite (H z) by now left. rewrite IH; auto. intros; apply H; now right.
  Qed.

  Lemma inner_length : forall rest x, length (snd (inner x rest)) = length rest.
  Proof.
    induction rest as [|y r IH]; intros x; [reflexivity|]. cbn [inner].
    destruct (edge_dup x y).
    - specialize (IH tag). destruct (inner tag r). cbn in *. now rewrite IH.
    - specialize (IH x). destruct (inner x r). cbn in *. now rewrite IH.
  Qed.

  (* number of entries that are the same undirected edge as e *)
  Definition cnt (e : edge) (l : list edge) : nat := length (filter (edge_dup e) l).
  Definition once_or_tag (l : list edge) (e : edge) : edge := if Nat.eqb (cnt e l) 1 then e else tag.

  Lemma cnt_cons : forall e x l, cnt e (x :: l) = ((if edge_dup e x then 1 else 0) + cnt e l)%nat.
  Proof. intros. unfold cnt. cbn [filter]. now destruct (edge_dup e x). Qed.
  Lemma cnt_app : forall e l m, cnt e (l ++ m) = (cnt e l + cnt e m)%nat.
  Proof. intros. unfold cnt. now rewrite filter_app, app_length. Qed.
  Lemma cnt_zero : forall e l, cnt e l = 0%nat -> forall y, In y l -> edge_dup e y = false.
  Proof.
    induction l as [|x l IH]; intros H y [].
    - subst. rewrite cnt_cons in H. destruct (edge_dup e y); [lia|reflexivity].
    - rewrite cnt_cons in H. apply IH; auto. lia.
  Qed.
  Lemma cnt_split : forall e l m, cnt e l = S m -> exists r1 y r2,
    l = r1 ++ y :: r2 /\ edge_dup e y = true /\ (forall z, In z r1 -> edge_dup e z = false) /\ cnt e r2 = m.
  Proof.
    induction l as [|x l IH]; intros m H; [discriminate|]. rewrite cnt_cons in H.
    destruct (edge_dup e x) eqn:E.
    - exists [], x, l. repeat split; auto; try (cbn in H; lia). intros z [].
    - destruct (IH m H) as (r1 & y & r2 & -> & Hy & Hr1 & Hr2).
      exists (x :: r1), y, r2. repeat split; auto. intros z [<-|Hz]; auto.
  Qed.
  Lemma cnt_tag : forall e l, e <> tag -> cnt e (tag :: l) = cnt e l.
  Proof. intros. now rewrite cnt_cons, dup_tag_r. Qed.
  Lemma once_tag : forall l, once_or_tag l tag = tag.
  Proof. intros. unfold once_or_tag. now destruct (Nat.eqb _ _). Qed.

  (* invariant of the outer loop: positions before j are final, the tail still to be processed
     contains original entries and tags; every original entry's class has at most 2 members *)
  Lemma tag_outer_step : forall n pre post, (length post <= n)%nat ->
    (forall e, In e post -> e <> tag -> (cnt e post <= 2)%nat) ->
    tag_outer (pre ++ post) (length pre) n = pre ++ map (once_or_tag post) post.
  Proof.
    induction n as [|n IH]; intros pre post Hn Hc.
    - destruct post; [reflexivity|cbn in Hn; lia].
    - cbn [tag_outer]. destruct post as [|x rest].
      + destruct (Nat.leb_spec (length (pre ++ [])) (S (length pre))) as [_|H]; [reflexivity|].
        rewrite app_length in H; cbn in H; lia.
      + destruct rest as [|y0 rest0].
        { destruct (Nat.leb_spec (length (pre ++ [x])) (S (length pre))) as [_|H].
          - cbn [map]. unfold once_or_tag. rewrite cnt_cons, dup_refl. reflexivity.
          - rewrite app_length in H; cbn in H; lia. }
        remember (y0 :: rest0) as rest eqn:Er.
        destruct (Nat.leb_spec (length (pre ++ x :: rest)) (S (length pre))) as [H|_].
        { rewrite app_length in H; subst rest; cbn in H; lia. }
        assert (Ei : tag_inner (pre ++ x :: rest) (length pre) (S (length pre)) (length (pre ++ x :: rest))
                     = pre ++ fst (inner x rest) :: snd (inner x rest)).
        { pose proof (tag_inner_is_inner rest (length (pre ++ x :: rest)) pre x []) as T.
          cbn [app length] in T. rewrite Nat.add_1_r in T. apply T.
          rewrite app_length. cbn. lia. }
        rewrite Ei. clear Ei.
        assert (Hstep : forall x' r', length r' = length rest ->
                  (forall e, In e r' -> e <> tag -> (cnt e r' <= 2)%nat) ->
                  x' :: map (once_or_tag r') r' = map (once_or_tag (x :: rest)) (x :: rest) ->
                  tag_outer (pre ++ x' :: r') (S (length pre)) n = pre ++ map (once_or_tag (x :: rest)) (x :: rest)).
        { intros x' r' Hl Hc' Hm.
          pose proof (IH (pre ++ [x']) r') as IH'.
          rewrite <- !app_assoc, app_length, Nat.add_1_r in IH'. cbn [app length] in IH'.
          rewrite IH'; auto.
          - now rewrite Hm.
          - cbn in Hn. lia. }
        cbn [map].
        destruct (edge_dup x tag) eqn:Extag.
        { (* x is already a tag *)
          rewrite dup_sym in Extag. apply dup_tag_l in Extag. subst x.
          rewrite inner_tag. cbn [fst snd]. apply Hstep; auto.
          - intros e He Hne. rewrite <- (cnt_tag e rest Hne). apply Hc; auto. now right.
          - cbn [map]. rewrite once_tag. f_equal. apply map_ext_in. intros e He. unfold once_or_tag.
            destruct (edge_dup e tag) eqn:Ee.
            + rewrite dup_sym in Ee. apply dup_tag_l in Ee. subst e. now destruct (Nat.eqb _ _), (Nat.eqb _ _).
            + now rewrite cnt_cons, Ee. }
        assert (Hx : x <> tag) by (intros ->; now rewrite dup_refl in Extag).
        pose proof (Hc x (or_introl eq_refl) Hx) as Hcx. rewrite cnt_cons, dup_refl in Hcx.
        destruct (cnt x rest) as [|[|m]] eqn:Ecx; [| |lia].
        { (* no partner *)
          rewrite inner_none by (now apply cnt_zero). cbn [fst snd].
          assert (Hsame : forall e, In e rest -> cnt e (x :: rest) = cnt e rest).
          { intros e He. rewrite cnt_cons, dup_sym, (cnt_zero x rest Ecx e He). reflexivity. }
          apply Hstep; auto.
          - intros e He Hne. rewrite <- Hsame by auto. apply Hc; auto. now right.
          - cbn [map]. f_equal.
            + unfold once_or_tag. now rewrite cnt_cons, dup_refl, Ecx.
            + apply map_ext_in. intros e He. unfold once_or_tag. now rewrite Hsame. }
        (* exactly one partner y, later in the list *)
        destruct (cnt_split x rest 0 Ecx) as (r1 & y & r2 & -> & Hy & Hr1 & Hr2).
        rewrite inner_one by auto. cbn [fst snd].
        assert (Hr2' : forall z, In z r2 -> edge_dup x z = false) by (now apply cnt_zero).
        assert (Hsame : forall e, In e r1 \/ In e r2 -> e <> tag ->
                  cnt e (x :: r1 ++ y :: r2) = cnt e (r1 ++ tag :: r2)).
        { intros e He Hne. rewrite cnt_cons, !cnt_app, !cnt_cons.
          assert (Hex : edge_dup e x = false).
          { rewrite dup_sym. destruct He; auto. }
          assert (Hey : edge_dup e y = false).
          { rewrite dup_sym, <- (dup_class x y e Hy), dup_sym. exact Hex. }
          rewrite Hex, Hey, dup_tag_r by auto. reflexivity. }
        apply Hstep.
        * rewrite !app_length. reflexivity.
        * intros e He Hne. apply in_app_or in He.
          assert (He' : In e r1 \/ In e r2) by (destruct He as [|[<-|]]; auto; congruence).
          rewrite <- Hsame by auto. apply Hc; auto. right. apply in_or_app.
          destruct He'; [left|right; right]; auto.
        * cbn [map]. f_equal.
          -- unfold once_or_tag. rewrite cnt_cons, dup_refl, Ecx. reflexivity.
          -- rewrite !map_app. cbn [map]. rewrite once_tag.
            assert (Hyt : once_or_tag (x :: r1 ++ y :: r2) y = tag).
            { unfold once_or_tag.
              assert (Hcy : cnt y (x :: r1 ++ y :: r2) = 2%nat).
              { unfold cnt. rewrite (filter_ext _ _ (fun z => eq_sym (dup_class x y z Hy))).
                fold (cnt x (x :: r1 ++ y :: r2)). now rewrite cnt_cons, dup_refl, Ecx. }
              now rewrite Hcy. }
            rewrite Hyt.
            assert (Hmap : forall r, (forall e, In e r -> In e r1 \/ In e r2) ->
                      map (once_or_tag (r1 ++ tag :: r2)) r = map (once_or_tag (x :: r1 ++ y :: r2)) r).
            { intros r Hr. apply map_ext_in. intros e He. unfold once_or_tag.
              destruct (edge_dup e tag) eqn:Ee.
              ++ rewrite dup_sym in Ee. apply dup_tag_l in Ee. subst e.
                 now destruct (Nat.eqb _ _), (Nat.eqb _ _).
              ++ rewrite Hsame; auto. intros ->. now rewrite dup_refl in Ee. }
            rewrite (Hmap r1), (Hmap r2); auto.
  Qed.

  (* The duplicate tagging loop: entries whose undirected edge occurs exactly once survive in
     place, every other entry becomes (-1,-1) - provided no undirected edge occurs 3+ times. *)
  Theorem tag_outer_spec : forall es,
    (forall e, In e es -> e <> tag -> (cnt e es <= 2)%nat) ->
    tag_outer es 0 (length es) = map (once_or_tag es) es.
  Proof. intros es H. apply (tag_outer_step (length es) [] es); auto. Qed.

  Definition nonneg_edge (e : edge) : bool := negb ((fst e <? 0) || (snd e <? 0)).

  Lemma filter_map_select : forall (c : edge -> bool) l,
    Forall (fun e => nonneg_edge e = true) l ->
    filter nonneg_edge (map (fun e => if c e then e else tag) l) = filter c l.
  Proof.
    intros c l H. induction H as [|x l Hx Hl IH]; [reflexivity|]. cbn [map filter].
    destruct (c x); [rewrite Hx|cbn]; now rewrite IH.
  Qed.

  Theorem tag_outer_boundary : forall es,
    Forall (fun e => nonneg_edge e = true) es ->
    (forall e, In e es -> (cnt e es <= 2)%nat) ->
    tag_outer es 0 (length es) = map (once_or_tag es) es /\
    filter nonneg_edge (tag_outer es 0 (length es)) = filter (fun e => Nat.eqb (cnt e es) 1) es.
  Proof.
    intros es Hn Hc. assert (E : tag_outer es 0 (length es) = map (once_or_tag es) es).
    { apply tag_outer_spec. auto. }
    split; [exact E|]. rewrite E. unfold once_or_tag. now apply filter_map_select.
  Qed.

  (* the hypothesis is needed: the third copy of an edge survives *)
  Example tag_outer_triple :
    tag_outer [(0, 1); (1, 0); (0, 1); (1, 2)] 0 4 = [tag; tag; (0, 1); (1, 2)] /\
    cnt (0, 1) [(0, 1); (1, 0); (0, 1); (1, 2)] = 3%nat.
  Proof. split; vm_compute; reflexivity. Qed.
End Tag.

(* tagging only ever overwrites entries with (-1,-1): true without any hypothesis *)
Section TagMonotone.
  Definition tagged_from (l m : list edge) : Prop := Forall2 (fun a b => b = a \/ b = tag) l m.

  Lemma tagged_refl : forall l, tagged_from l l.
  Proof. induction l; constructor; auto. Qed.
  Lemma tagged_trans : forall l m k, tagged_from l m -> tagged_from m k -> tagged_from l k.
  Proof.
    intros l m k H. revert k. induction H as [|a b l m Hab H IH]; intros k Hk; inversion Hk; subst.
    - constructor.
    - constructor; [|now apply IH]. destruct Hab as [->| ->]; intuition.
  Qed.
  Lemma tagged_set : forall l j, tagged_from l (set_nth l j (-1, -1)%Z).
  Proof.
    induction l as [|a l IH]; intros [|j]; cbn [set_nth].
    - constructor.
    - constructor.
    - constructor; [now right|apply tagged_refl].
    - constructor; [now left|apply IH].
  Qed.
  Lemma tagged_inner : forall n es j k, tagged_from es (tag_inner es j k n).
  Proof.
    induction n as [|n IH]; intros es j k; cbn [tag_inner]; [apply tagged_refl|].
    destruct (Nat.leb (length es) k); [apply tagged_refl|].
    eapply tagged_trans; [|apply IH].
    destruct (edge_dup _ _); [|apply tagged_refl].
    eapply tagged_trans; apply tagged_set.
  Qed.
  Lemma tagged_outer : forall n es j, tagged_from es (tag_outer es j n).
  Proof.
    induction n as [|n IH]; intros es j; cbn [tag_outer]; [apply tagged_refl|].
    destruct (Nat.leb (length es) (S j)); [apply tagged_refl|].
    eapply tagged_trans; [apply tagged_inner|apply IH].
  Qed.
  Lemma tagged_survivor : forall l m e, tagged_from l m -> In e m -> nonneg_edge e = true -> In e l.
  Proof.
    intros l m e H. induction H as [|a b l m Hab H IH]; intros Hin Hn; [destruct Hin|].
    destruct Hin as [<-|Hin]; [|right; auto].
    destruct Hab as [->| ->]; [now left|discriminate].
  Qed.
End TagMonotone.

(* ------------------------------------------------------------------ add_vertex *)
Section AddVertex.
  Context {O : Ops}.
  Variable vs : list (V2 O).

  Definition new_tri (i : Z) (e : edge) : tri * bool := ((fst e, snd e, i), false).
  Definition once (es : list edge) (e : edge) : bool := Nat.eqb (cnt e es) 1.
  Definition tri_nonneg (t : tri) : Prop := let '(a, b, c) := t in (0 <= a /\ 0 <= b /\ 0 <= c)%Z.

  Lemma edges3_nonneg : forall removed, Forall tri_nonneg removed ->
    Forall (fun e => nonneg_edge e = true) (flat_map edges3 removed).
  Proof.
    intros removed H. induction H as [|[[a b] c] l (Ha & Hb & Hc) Hl IH]; [constructor|].
    cbn [flat_map edges3 app].
    assert (X : forall p q, (0 <= p)%Z -> (0 <= q)%Z -> nonneg_edge (p, q) = true).
    { intros p q Hp Hq. unfold nonneg_edge. cbn [fst snd].
      apply negb_true_iff, orb_false_iff. split; apply Z.ltb_ge; assumption. }
    repeat constructor; auto.
  Qed.

  Lemma edges3_in : forall e removed, In e (flat_map edges3 removed) ->
    exists t, In t removed /\ In e (edges3 t).
  Proof. intros e removed H. apply in_flat_map in H. exact H. Qed.

  Theorem add_vertex_shape : forall i ts,
    let v := vnth vs i in
    exists kept removed,
      let es := flat_map edges3 removed in
      scan (S (length ts)) vs v ts 0 [] = (kept, es) /\
      Permutation (map fst ts) (map fst kept ++ removed) /\
      (forall t, In t removed -> In (t, false) ts /\ fst (icc vs v t) = true) /\
      (forall k, In k kept ->
         (snd k = true /\ In k ts) \/
         (In (fst k, false) ts /\ fst (icc vs v (fst k)) = false /\ snd k = snd (icc vs v (fst k)))) /\
      (* without any hypothesis: old triangles that stay, then one new triangle (e0,e1,i), not
         done, per surviving entry of the edge buffer; every survivor is an edge of a removed triangle *)
      (exists bnd,
         add_vertex vs i ts = kept ++ map (new_tri i) bnd /\
         bnd = filter nonneg_edge (tag_outer es 0 (length es)) /\
         (forall e, In e bnd -> nonneg_edge e = true /\ exists t, In t removed /\ In e (edges3 t)) /\
         length (add_vertex vs i ts) = (length ts - length removed + length bnd)%nat) /\
      (* when no undirected edge occurs three times among the removed triangles and indices are
         non-negative, the survivors are exactly the edges occurring once, in buffer order *)
      (Forall tri_nonneg (map fst ts) -> (forall e, In e es -> (cnt e es <= 2)%nat) ->
         add_vertex vs i ts = kept ++ map (new_tri i) (filter (once es) es) /\
         length (add_vertex vs i ts) = (length ts - length removed + length (filter (once es) es))%nat).
  Proof.
    intros i ts v.
    destruct (scan_partition vs v ts) as (kept & removed & E & _ & _ & Pa & Hc & Hd & _).
    exists kept, removed. intros es.
    assert (Hlen : length ts = (length kept + length removed)%nat).
    { apply Permutation_length in Pa. now rewrite app_length, !map_length in Pa. }
    assert (Eadd : add_vertex vs i ts =
                   kept ++ map (new_tri i) (filter nonneg_edge (tag_outer es 0 (length es)))).
    { unfold add_vertex. fold v. rewrite E. reflexivity. }
    split; [exact E|]. split; [exact Pa|]. split; [exact Hc|]. split; [exact Hd|]. split.
    - exists (filter nonneg_edge (tag_outer es 0 (length es))). split; [exact Eadd|].
      split; [reflexivity|]. split.
      + intros e He. apply filter_In in He. destruct He as [He Hn]. split; [exact Hn|].
        apply edges3_in. eapply tagged_survivor; eauto. apply tagged_outer.
      + rewrite Eadd, app_length, map_length. lia.
    - intros Hnn Hcnt.
      assert (Hes : Forall (fun e => nonneg_edge e = true) es).
      { apply edges3_nonneg. apply Forall_forall. intros t Ht.
        rewrite Forall_forall in Hnn. apply Hnn.
        apply (Permutation_in _ (Permutation_sym Pa)). apply in_or_app. now right. }
      destruct (tag_outer_boundary es Hes Hcnt) as [_ F].
      rewrite Eadd, F. split; [reflexivity|].
      rewrite app_length, map_length. fold (once es). lia.
  Qed.

  (* every triangle in the list after inserting vertex i is an old one or has i as third index *)
  Corollary add_vertex_third_index : forall i ts k, In k (add_vertex vs i ts) ->
    (exists dn, In (fst k, dn) ts) \/ (exists e0 e1, k = ((e0, e1, i), false) /\ (0 <= e0 /\ 0 <= e1)%Z).
  Proof.
    intros i ts k Hk.
    destruct (add_vertex_shape i ts) as (kept & removed & _ & _ & _ & Hd & (bnd & Ea & _ & Hb & _) & _).
    rewrite Ea in Hk. apply in_app_or in Hk. destruct Hk as [Hk|Hk].
    - left. destruct (Hd k Hk) as [[Hs Hin]|[Hin _]].
      + exists (snd k). now destruct k.
      + now exists false.
    - right. apply in_map_iff in Hk. destruct Hk as ([e0 e1] & <- & He).
      exists e0, e1. split; [reflexivity|]. destruct (Hb _ He) as [Hn _].
      unfold nonneg_edge in Hn. cbn [fst snd] in Hn.
      apply negb_true_iff, orb_false_iff in Hn. destruct Hn as [H0 H1].
      apply Z.ltb_ge in H0, H1. auto.
  Qed.

  (* non-negative indices are preserved, so the index hypothesis of add_vertex_shape holds along
     the whole run from the super triangle (n, n+1, n+2) *)
  Lemma add_vertex_nonneg : forall i ts, (0 <= i)%Z -> Forall tri_nonneg (map fst ts) ->
    Forall tri_nonneg (map fst (add_vertex vs i ts)).
  Proof.
    intros i ts Hi H. rewrite Forall_forall in *. intros t Ht.
    apply in_map_iff in Ht. destruct Ht as (k & <- & Hk).
    destruct (add_vertex_third_index i ts k Hk) as [[dn Hin]|(e0 & e1 & -> & H0 & H1)].
    - apply H. apply in_map_iff. exists (fst k, dn). auto.
    - cbn. auto.
  Qed.

  Lemma add_vertices_nonneg : forall n i ts, (0 <= i)%Z -> Forall tri_nonneg (map fst ts) ->
    Forall tri_nonneg (map fst (add_vertices vs n i ts)).
  Proof.
    induction n as [|n IH]; intros i ts Hi H; cbn [add_vertices]; [exact H|].
    apply IH; [lia|]. now apply add_vertex_nonneg.
  Qed.
End AddVertex.

(* ------------------------------------------------------------------ the whole run *)
Section Run.
  Context {O : Ops}.

  (* Delaunay2d returns exactly (as a multiset) the triangles of the last working list that do not
     touch the super triangle, and every index it returns is a valid index into the input. *)
  Theorem delaunay2d_strip : forall vs : list (V2 O),
    let n := Z.of_nat (length vs) in
    let '(p0, p1, p2) := super_triangle vs in
    let ts := add_vertices (vs ++ [p0; p1; p2]) (length vs) 0 [((n, n + 1, n + 2)%Z, false)] in
    Permutation (delaunay2d vs) (filter (inner_tri n) (map fst ts)) /\
    Forall (fun t => let '(a, b, c) := t in (0 <= a < n /\ 0 <= b < n /\ 0 <= c < n)%Z) (delaunay2d vs).
  Proof.
    intros vs n. unfold delaunay2d. fold n. destruct (super_triangle vs) as [[p0 p1] p2].
    set (ts := add_vertices _ _ _ _).
    destruct (strip_exact n (S (length ts)) (map fst ts)) as [P F]; [rewrite map_length; lia|].
    split; [exact P|].
    assert (NN : Forall tri_nonneg (map fst ts)).
    { apply add_vertices_nonneg; [lia|]. repeat constructor; lia. }
    rewrite Forall_forall in *. intros t Ht.
    pose proof (F t Ht) as Hb.
    assert (Hn : tri_nonneg t).
    { apply NN. apply (Permutation_in _ P) in Ht. now apply filter_In in Ht. }
    destruct t as [[a b] c]. cbn in Hb, Hn. lia.
  Qed.
End Run.

(* ------------------------------------------------------------------ non-vacuity, exact rationals *)
From Coq Require Import QArith.
From Sdfx Require Import Num.QInst.

Module BookExample.
  Definition qv (x y : Z) : V2 QOps := mkV2 (inject_Z x) (inject_Z y).
  (* five x-sorted points, all on the hull, followed by their super triangle (indices 5,6,7) *)
  Definition pts : list (V2 QOps) := [qv 0 0; qv 1 2; qv 2 (-1); qv 30 1; qv 31 0].
  Definition vs : list (V2 QOps) := let '(a, b, c) := @super_triangle QOps pts in pts ++ [a; b; c].
  (* the working list after vertices 0..3 have been inserted *)
  Definition t4 : list (tri * bool) := @add_vertices QOps vs 4 0 [((5, 6, 7)%Z, false)].

  Definition kept : list (tri * bool) :=
    [((5, 6, 0), false); ((0, 6, 1), false); ((7, 5, 2), false); ((5, 0, 2), false);
     ((0, 1, 2), true); ((2, 1, 3), true); ((1, 6, 3), false)]%Z.
  Definition removed : list tri := [(6, 7, 3); (7, 2, 3)]%Z.
  Definition es : list edge := flat_map edges3 removed.

  Example t4_value :
    t4 = [((5, 6, 0), false); ((0, 6, 1), false); ((7, 5, 2), false); ((5, 0, 2), false);
          ((0, 1, 2), true); ((6, 7, 3), false); ((7, 2, 3), false); ((1, 6, 3), false);
          ((2, 1, 3), false)]%Z.
  Proof. vm_compute. reflexivity. Qed.

  (* inserting vertex 4: (0,1,2) is skipped because it is already done, (2,1,3) becomes done,
     two triangles are removed (the tail element swapped in is re-examined) *)
  Example scan_vertex4 :
    @scan QOps (S (length t4)) vs (vnth vs 4) t4 0 [] = (kept, es) /\
    forallb (fun t => fst (icc vs (vnth vs 4) t)) removed = true /\
    forallb (fun k : tri * bool => negb (fst (icc vs (vnth vs 4) (fst k)))) kept = true /\
    flat_map (keepf vs (vnth vs 4)) t4 <> kept /\
    flat_map (remf vs (vnth vs 4)) t4 = removed.
  Proof. vm_compute. repeat split. discriminate. Qed.

  (* the hypotheses of the conditional part of add_vertex_shape hold, the shared edge (7,3)/(3,7)
     is dropped and four triangles with third index 4 are appended *)
  Example add_vertex4 :
    forallb (fun e => Nat.leb (cnt e es) 2) es = true /\
    filter (once es) es = [(6, 7); (3, 6); (7, 2); (2, 3)]%Z /\
    @add_vertex QOps vs 4 t4 = kept ++ map (new_tri 4) [(6, 7); (3, 6); (7, 2); (2, 3)]%Z /\
    length (@add_vertex QOps vs 4 t4) = (length t4 - length removed + 4)%nat.
  Proof. vm_compute. repeat split. Qed.

  Example delaunay2d_value : @delaunay2d QOps pts = [(2, 3, 4); (2, 1, 3); (0, 1, 2)]%Z.
  Proof. vm_compute. reflexivity. Qed.

  (* strip on a list that needs a removal at the last position and at a swapped-in position *)
  Example strip_value :
    strip 6 3 [(0, 1, 2); (3, 0, 1); (1, 2, 0); (4, 3, 1); (2, 5, 0)]%Z 0 = [(0, 1, 2); (1, 2, 0)]%Z.
  Proof. vm_compute. reflexivity. Qed.
End BookExample.
