(* Determinism of render/dc, as far as a syntactic scan of its production files can show it.
   harness/dctab walks the type-checked syntax trees of the CURRENT source and emits, in
   Generated/DCTables.v, every `go` statement, `select`, channel receive, `range` over a map,
   use of package runtime, and import of math/rand, time, sync, sync/atomic, os, crypto/rand,
   runtime, unsafe.  Both renderers are sequential loops; with none of these constructs the
   triangle sequence is a function of the values the SDF returns and of the renderer value.
   Renderer STATE: a field of a type with a Render method that some function assigns survives
   the call.  The scan lists every read of such a field; a read is harmless only as the
   warn-once guard `if !r.f { log...; r.f = true }` (classified by the translator from the
   syntax: no else, body = log calls and that store) or when listed here by name:
     DualContouringV1.RCond@Render  the default 1e-3 is stored when the field is 0 and then
                                    read: idempotent, the second call sees what the first used.
   Any other read (e.g. a flag consulted to choose between ray cast and bisection) and any
   store to a package-level variable breaks dc_deterministic. *)
From Coq Require Import List String Bool.
From Sdfx Require Import Generated.DCTables.
Import ListNotations.
Open Scope string_scope.

Definition is_nil {A} (l : list A) : bool := match l with [] => true | _ => false end.
Definition mem (x : string) (l : list string) : bool := existsb (String.eqb x) l.
Definition nondeterministic_imports : list string :=
  ["math/rand"; "math/rand/v2"; "time"; "sync"; "sync/atomic"; "os"; "crypto/rand"; "runtime"; "unsafe"].

Definition allowed_state_reads : list string := ["DualContouringV1.RCond@Render"].

Definition dc_scan_clean : bool :=
  is_nil dcScan_globalwrite &&
  forallb (fun r => mem r allowed_state_reads) dcScan_stateread &&
  is_nil dcScan_go && is_nil dcScan_select && is_nil dcScan_maprange && is_nil dcScan_recv &&
  is_nil dcScan_badimport && is_nil dcScan_runtime &&
  forallb (fun i => negb (mem i nondeterministic_imports)) dcScanImports &&
  (* the files that hold the two renderers were among the files scanned *)
  mem "dc3v1.go" dcScanFiles && mem "dc3v2.go" dcScanFiles.

Lemma dc_deterministic : dc_scan_clean = true.
Proof. vm_compute. reflexivity. Qed.

Lemma dc_scan_clean_meaning : dc_scan_clean = true ->
  dcScan_go = [] /\ dcScan_select = [] /\ dcScan_maprange = [] /\ dcScan_recv = [] /\ dcScan_runtime = [] /\
  dcScan_globalwrite = [] /\ (forall r, In r dcScan_stateread -> In r allowed_state_reads) /\
  forall i, In i dcScanImports -> ~ In i nondeterministic_imports.
Proof.
  unfold dc_scan_clean. rewrite !andb_true_iff. intros ((((((((((W & SR) & G) & S) & M) & R) & B) & U) & I) & _) & _).
  assert (N : forall (l : list string), is_nil l = true -> l = []) by (intros [|? ?]; [reflexivity | discriminate]).
  repeat split; try now apply N.
  { intros r Hr. rewrite forallb_forall in SR. specialize (SR r Hr). unfold mem in SR.
    apply existsb_exists in SR as (x & Hx & E). apply String.eqb_eq in E. now subst. }
  intros i Hi Hbad. rewrite forallb_forall in I. specialize (I i Hi). apply negb_true_iff in I.
  unfold mem in I. assert (existsb (String.eqb i) nondeterministic_imports = true).
  { apply existsb_exists. exists i. split; [exact Hbad | apply String.eqb_refl]. }
  congruence.
Qed.
