(* Theorems about the octree renderer DualContouringV1 (dc3v1.go) over the regenerated tables:
   v1_tables_geometry, the sign-free traversal (cvis/fvis/evis), the equality of the modelled
   traversal with it (every depth), v1_process_edge_rule, and v1_traversal_if_visits (the V1 mesh is
   the dual mesh once the visit list is known to enumerate every interior minimal edge once; that
   fact is proved for every depth in Algo/DCVisits.v, which states v1_traversal). *)
From Coq Require Import List ZArith NArith Lia Bool Permutation.
From Sdfx Require Import Generated.DCTables.
From Sdfx Require Import Algo.DualGrid.
From Sdfx Require Import Algo.DCModel.
Import ListNotations.
Open Scope Z_scope.

(* ================================================================== V1: theorems *)
Definition dirZ (a : axis) : Z := match a with AX => 0 | AY => 1 | AZ => 2 end.
Definition axis_of (d : Z) : axis := if d =? 0 then AX else if d =? 1 then AY else AZ.
(* node order of dcContourEdgeProc / dcContourProcessEdge around an edge of axis a:
   node j sits at (j&1) along ax2 a and (j>>1) along ax1 a *)
Definition slots (a : axis) (p : cell) : list cell := let '(q0, q1, q2, q3) := quad_cells a p in [q0; q3; q1; q2].
Definition slot_off (a : axis) (j : Z) : cell :=
  cadd (cscale (Z.land j 1) (unit (ax2 a))) (cscale (Z.shiftr j 1) (unit (ax1 a))).

(* ------------------------------------------------------------------ geometry of the tables *)
Definition zseq (n : Z) : list Z := zrange n.
Definition cells_distinct (l : list cell) : bool :=
  forallb (fun i => forallb (fun j => (i =? j) || negb (ceqb (nthZ l i (0,0,0)) (nthZ l j (0,0,0)))) (zseq (Z.of_nat (length l)))) (zseq (Z.of_nat (length l))).
Definition rows_distinct (l : list (list Z)) : bool :=
  forallb (fun i => forallb (fun j => (i =? j) || negb (if list_eq_dec Z.eq_dec (nthZ l i []) (nthZ l j []) then true else false))
                            (zseq (Z.of_nat (length l)))) (zseq (Z.of_nat (length l))).

(* child i sits at the bits of i: x = bit 2, y = bit 1, z = bit 0 (also the corner numbering) *)
Definition child_offsets_ok : bool :=
  (Z.of_nat (length dcChildMinOffsets) =? 8) &&
  forallb (fun i => ceqb (child_off i) (Z.land (Z.shiftr i 2) 1, Z.land (Z.shiftr i 1) 1, Z.land i 1)) (zseq 8).
(* edge e = 4*axis + k joins corner c1 (coordinate 0 along the axis) to c1 + unit axis; 12 distinct edges *)
Definition edgevmap_ok : bool :=
  (Z.of_nat (length dcEdgevmap) =? 12) && rows_distinct dcEdgevmap &&
  forallb (fun e => let '(c1, c2) := edge_corners e in let a := axis_of (e / 4) in
             (coord a (child_off c1) =? 0) && ceqb (child_off c2) (cadd (child_off c1) (unit a))) (zseq 12).
(* node j of an edge call owns the shared edge as its local edge processEdgeMask[dir][j]:
   that edge has axis dir and sits at the corner of node j that faces the other three nodes *)
Definition process_edge_mask_ok : bool :=
  forallb (fun d => let a := axis_of d in
    forallb (fun j => let e := nthZ (nthZ dcProcessEdgeMask d []) j 0 in
               (e / 4 =? d) &&
               ceqb (child_off (fst (edge_corners e))) (csub (cadd (unit (ax1 a)) (unit (ax2 a))) (slot_off a j))) (zseq 4)) (zseq 3).
(* the 12 interior faces of a cell: children (c0, c0 + unit dir) *)
Definition cell_face_mask_ok : bool :=
  (Z.of_nat (length dcCellProcFaceMask) =? 12) && rows_distinct dcCellProcFaceMask &&
  forallb (fun r => let a := axis_of (nthZ r 2 0) in
             (0 <=? nthZ r 2 0) && (nthZ r 2 0 <? 3) && (Z.of_nat (length r) =? 3) &&
             ceqb (child_off (nthZ r 1 0)) (cadd (child_off (nthZ r 0 0)) (unit a))) dcCellProcFaceMask.
(* the 6 interior edges of a cell: the four children around it, in node order *)
Definition cell_edge_mask_ok : bool :=
  (Z.of_nat (length dcCellProcEdgeMask) =? 6) && rows_distinct dcCellProcEdgeMask &&
  forallb (fun r => let d := nthZ r 4 0 in let a := axis_of d in
             (0 <=? d) && (d <? 3) && (Z.of_nat (length r) =? 5) &&
             let h := coord a (child_off (nthZ r 0 0)) in
             forallb (fun j => ceqb (child_off (nthZ r j 0)) (cadd (cscale h (unit a)) (slot_off a j))) (zseq 4)) dcCellProcEdgeMask.
(* face between node 0 (low side along dir) and node 1: the four sub-faces pair child c0 of node 0
   (high half) with child c1 of node 1 (low half), same transverse position, same direction *)
Definition face_face_mask_ok : bool :=
  (Z.of_nat (length dcFaceProcFaceMask) =? 3) &&
  forallb (fun d => let a := axis_of d in let rows := nthZ dcFaceProcFaceMask d [] in
    (Z.of_nat (length rows) =? 4) && rows_distinct rows &&
    forallb (fun r => (nthZ r 2 0 =? d) && (Z.of_nat (length r) =? 3) &&
               ceqb (child_off (nthZ r 0 0)) (cadd (child_off (nthZ r 1 0)) (unit a))) rows) (zseq 3).
(* the four edges inside that face: node j is child c_j of face node order[j]; in the 2-node block
   (positions in child units, node 1 shifted by 2 along dir) the four sit in node order around an
   edge of axis edir lying in the common face (dir coordinate 2) through its middle *)
Definition face_edge_mask_ok : bool :=
  (Z.of_nat (length dcFaceProcEdgeMask) =? 3) && (Z.of_nat (length dcFaceProcOrders) =? 2) &&
  forallb (fun d => let a := axis_of d in let rows := nthZ dcFaceProcEdgeMask d [] in
    (Z.of_nat (length rows) =? 4) &&
    cells_distinct (map (fun r => (nthZ r 5 0, coord (axis_of (nthZ r 5 0)) (child_off (nthZ r 1 0)), 0)) rows) &&
    forallb (fun r => let ed := nthZ r 5 0 in let ea := axis_of ed in
               let order := nthZ dcFaceProcOrders (nthZ r 0 0) [] in
               let pos j := cadd (cscale (2 * nthZ order j 0) (unit a)) (child_off (nthZ r (1 + j) 0)) in
               let base := pos 0 in
               (0 <=? ed) && (ed <? 3) && negb (ed =? d) && (Z.of_nat (length r) =? 6) && (Z.of_nat (length order) =? 4) &&
               forallb (fun j => (0 <=? nthZ order j 0) && (nthZ order j 0 <? 2) && ceqb (pos j) (cadd base (slot_off ea j))) (zseq 4) &&
               (* the shared edge base + unit ax1 + unit ax2 has dir coordinate 2 and middle transverse coordinate 1 *)
               ceqb (let '(x, y, z) := cadd base (cadd (unit (ax1 ea)) (unit (ax2 ea))) in
                     match ea with AX => (0, y, z) | AY => (x, 0, z) | AZ => (x, y, 0) end)
                    (let '(x, y, z) := cadd (unit a) (1, 1, 1) in
                     match ea with AX => (0, y, z) | AY => (x, 0, z) | AZ => (x, y, 0) end)) rows) (zseq 3).
(* the two halves of an edge shared by four nodes in node order: child c_j of node j is the child of
   node j touching the edge, both rows keep the direction, and they take the two halves *)
Definition edge_edge_mask_ok : bool :=
  (Z.of_nat (length dcEdgeProcEdgeMask) =? 3) &&
  forallb (fun d => let a := axis_of d in let rows := nthZ dcEdgeProcEdgeMask d [] in
    (Z.of_nat (length rows) =? 2) &&
    negb (coord a (child_off (nthZ (nthZ rows 0 []) 0 0)) =? coord a (child_off (nthZ (nthZ rows 1 []) 0 0))) &&
    forallb (fun r => (nthZ r 4 0 =? d) && (Z.of_nat (length r) =? 5) &&
               let h := coord a (child_off (nthZ r 0 0)) in
               forallb (fun j => ceqb (child_off (nthZ r j 0))
                                      (cadd (cscale h (unit a)) (csub (cadd (unit (ax1 a)) (unit (ax2 a))) (slot_off a j)))) (zseq 4)) rows) (zseq 3).

Definition dc_tables_geometry : bool :=
  child_offsets_ok && edgevmap_ok && process_edge_mask_ok && cell_face_mask_ok && cell_edge_mask_ok &&
  face_face_mask_ok && face_edge_mask_ok && edge_edge_mask_ok.

Lemma v1_tables_geometry : dc_tables_geometry = true.
Proof. vm_compute. reflexivity. Qed.

(* ------------------------------------------------------------------ the traversal without signs *)
Definition visit := (Z * list cell)%type.   (* direction, the four leaf cells in node order *)
Definition coff_l (l : nat) (off : cell) (i : Z) : cell := cadd off (cscale (pow2 l) (child_off i)).

Fixpoint evis (l : nat) (o : list cell) (dir : Z) : list visit :=
  match l with
  | O => [(dir, o)]
  | S l' => flat_map (fun i => let row := nthZ (nthZ dcEdgeProcEdgeMask dir []) i [] in
              evis l' (map (fun j => coff_l l' (nthZ o j (0,0,0)) (nthZ row j 0)) [0; 1; 2; 3]) (nthZ row 4 0)) [0; 1]
  end.
Fixpoint fvis (l : nat) (o : list cell) (dir : Z) : list visit :=
  match l with
  | O => []
  | S l' =>
      flat_map (fun i => let row := nthZ (nthZ dcFaceProcFaceMask dir []) i [] in
         fvis l' (map (fun j => coff_l l' (nthZ o j (0,0,0)) (nthZ row j 0)) [0; 1]) (nthZ row 2 0)) [0; 1; 2; 3]
      ++
      flat_map (fun i => let row := nthZ (nthZ dcFaceProcEdgeMask dir []) i [] in
         let order := nthZ dcFaceProcOrders (nthZ row 0 0) [] in
         evis l' (map (fun j => coff_l l' (nthZ o (nthZ order j 0) (0,0,0)) (nthZ row (1 + j) 0)) [0; 1; 2; 3]) (nthZ row 5 0)) [0; 1; 2; 3]
  end.
Fixpoint cvis (l : nat) (off : cell) : list visit :=
  match l with
  | O => []
  | S l' =>
      flat_map (fun i => cvis l' (coff_l l' off i)) [0; 1; 2; 3; 4; 5; 6; 7]
      ++ flat_map (fun i => let row := nthZ dcCellProcFaceMask i [] in
           fvis l' [coff_l l' off (nthZ row 0 0); coff_l l' off (nthZ row 1 0)] (nthZ row 2 0)) [0; 1; 2; 3; 4; 5; 6; 7; 8; 9; 10; 11]
      ++ flat_map (fun i => let row := nthZ dcCellProcEdgeMask i [] in
           evis l' (map (fun j => coff_l l' off (nthZ row j 0)) [0; 1; 2; 3]) (nthZ row 4 0)) [0; 1; 2; 3; 4; 5]
  end.

(* what the traversal must visit: every interior minimal edge once, with its four cells in node order *)
Definition expected_visits (n : cell) : list visit :=
  flat_map (fun a => flat_map (fun p => if interior n a p then [(dirZ a, slots a p)] else []) (points n)) axes.

Definition visit_eq_dec (v w : visit) : {v = w} + {v <> w}.
Proof. decide equality; [apply (list_eq_dec cell_eq_dec) | apply Z.eq_dec]. Defined.

Definition cube (d : nat) : cell := (pow2 d, pow2 d, pow2 d).

(* ------------------------------------------------------------------ the modelled traversal is the sign-free
   traversal followed by the per-edge emission (every depth, every leaf table) *)
Lemma map4 {A B} (F : A -> Z -> B) a0 a1 a2 a3 d (row : list Z) :
  map (fun j => F (nthZ [a0; a1; a2; a3] j d) (nthZ row j 0)) [0; 1; 2; 3] =
  [F a0 (nthZ row 0 0); F a1 (nthZ row 1 0); F a2 (nthZ row 2 0); F a3 (nthZ row 3 0)].
Proof. reflexivity. Qed.
Lemma map2 {A B} (F : A -> Z -> B) a0 a1 d (row : list Z) :
  map (fun j => F (nthZ [a0; a1] j d) (nthZ row j 0)) [0; 1] = [F a0 (nthZ row 0 0); F a1 (nthZ row 1 0)].
Proof. reflexivity. Qed.

Section Trav.
  Variable lc : cell -> N.
  Definition lf (c : cell) : node := Some (0%nat, c).
  (* dcContourEdgeProc on four size-1 nodes *)
  Definition emit (v : visit) : list tri :=
    let '(dir, o) := v in if forallb (nonempty lc) o then process_edge lc (map lf o) dir else [].

  Lemma sub_S l c k : sub lc (Some (S l, c)) k = Some (l, coff_l l c k).
  Proof. reflexivity. Qed.
  Lemma sub_0 c k : sub lc (Some (0%nat, c)) k = if nonempty lc c then Some (0%nat, c) else None.
  Proof. unfold sub, is_internal, node_kind. destruct (nonempty lc c); reflexivity. Qed.
  Lemma edge_proc_nil f nd dir : existsb is_nil nd = true -> edge_proc lc f nd dir = [].
  Proof. intros H. destruct f; cbn [edge_proc]; now rewrite H. Qed.
  Lemma face_proc_nil f nd dir : existsb is_nil nd = true -> face_proc lc f nd dir = [].
  Proof. intros H. destruct f; cbn [face_proc]; now rewrite H. Qed.
  Lemma cell_proc_nil f : cell_proc lc f None = [].
  Proof. destruct f; reflexivity. Qed.

  Lemma edge_proc_vis l : forall f o0 o1 o2 o3 dir, (l <= f)%nat ->
    edge_proc lc f [Some (l, o0); Some (l, o1); Some (l, o2); Some (l, o3)] dir = flat_map emit (evis l [o0; o1; o2; o3] dir).
  Proof.
    induction l as [|l IH]; intros f o0 o1 o2 o3 dir Hf.
    - cbn [evis flat_map emit map forallb]. rewrite app_nil_r.
      assert (E : forallb (fun x => negb (is_internal lc x)) [Some (0%nat, o0); Some (0%nat, o1); Some (0%nat, o2); Some (0%nat, o3)]
                  = nonempty lc o0 && (nonempty lc o1 && (nonempty lc o2 && (nonempty lc o3 && true)))).
      { cbn [forallb]. unfold is_internal, node_kind.
        destruct (nonempty lc o0), (nonempty lc o1), (nonempty lc o2), (nonempty lc o3); reflexivity. }
      destruct f as [|f]; cbn [edge_proc existsb is_nil orb]; rewrite E;
        destruct (nonempty lc o0) eqn:E0, (nonempty lc o1) eqn:E1, (nonempty lc o2) eqn:E2, (nonempty lc o3) eqn:E3;
        cbn [andb]; try reflexivity;
        cbn [flat_map]; rewrite !edge_proc_nil; try reflexivity;
        rewrite (map4 (sub lc)), !sub_0, ?E0, ?E1, ?E2, ?E3; reflexivity.
    - destruct f as [|f]; [lia|]. cbn [edge_proc evis existsb is_nil orb forallb].
      change (is_internal lc (Some (S l, o0))) with true. cbn [negb andb].
      rewrite flat_map_flat_map. apply flat_map_ext_in. intros i _.
      rewrite (map4 (sub lc)), !sub_S.
      rewrite (map4 (fun c k => coff_l l c k)).
      apply IH. lia.
  Qed.

  Ltac tabs := cbv [nthZ nth Z.to_nat Pos.to_nat Pos.iter_op Init.Nat.add Z.add Pos.add Pos.succ Pos.add_carry map
                    dcFaceProcFaceMask dcFaceProcEdgeMask dcFaceProcOrders dcEdgeProcEdgeMask dcCellProcFaceMask dcCellProcEdgeMask].

  Lemma face_proc_vis l : forall f o0 o1 dir, (l <= f)%nat -> In dir [0; 1; 2] ->
    face_proc lc f [Some (l, o0); Some (l, o1)] dir = flat_map emit (fvis l [o0; o1] dir).
  Proof.
    induction l as [|l IH]; intros f o0 o1 dir Hf Hd.
    - cbn [fvis flat_map].
      assert (E : existsb (is_internal lc) [Some (0%nat, o0); Some (0%nat, o1)] = negb (nonempty lc o0) || (negb (nonempty lc o1) || false)).
      { cbn [existsb]. unfold is_internal, node_kind. destruct (nonempty lc o0), (nonempty lc o1); reflexivity. }
      assert (Nn : existsb is_nil [Some (0%nat, o0); Some (0%nat, o1)] = false) by reflexivity.
      destruct f as [|f]; cbn [face_proc]; rewrite Nn, E;
        destruct (nonempty lc o0) eqn:E0, (nonempty lc o1) eqn:E1; cbn [negb orb]; try reflexivity.
      all: cbn [flat_map]; rewrite !face_proc_nil, !edge_proc_nil; try reflexivity.
      all: destruct Hd as [<-|[<-|[<-|[]]]]; tabs; rewrite !sub_0, ?E0, ?E1; reflexivity.
    - destruct f as [|f]; [lia|]. cbn [face_proc fvis existsb is_nil orb].
      change (is_internal lc (Some (S l, o0))) with true. cbn [orb].
      rewrite flat_map_app, !flat_map_flat_map. f_equal.
      + apply flat_map_ext_in. intros i Hi.
        rewrite (map2 (sub lc)), !sub_S. rewrite (map2 (fun c k => coff_l l c k)).
        apply IH; [lia|].
        destruct Hd as [<-|[<-|[<-|[]]]]; destruct Hi as [<-|[<-|[<-|[<-|[]]]]]; tabs; cbn; tauto.
      + apply flat_map_ext_in. intros i Hi.
        destruct Hd as [<-|[<-|[<-|[]]]]; destruct Hi as [<-|[<-|[<-|[<-|[]]]]]; tabs;
          rewrite !sub_S; apply edge_proc_vis; lia.
  Qed.

  Lemma cell_proc_vis l : forall f off, (l <= f)%nat ->
    cell_proc lc f (Some (l, off)) = flat_map emit (cvis l off).
  Proof.
    induction l as [|l IH]; intros f off Hf.
    - cbn [cvis flat_map]. destruct f as [|f]; cbn [cell_proc is_nil]; unfold is_internal, node_kind;
        destruct (nonempty lc off); try reflexivity.
      cbn [child flat_map]. rewrite !cell_proc_nil, !face_proc_nil, !edge_proc_nil; reflexivity.
    - destruct f as [|f]; [lia|]. cbn [cell_proc cvis is_nil].
      change (is_internal lc (Some (S l, off))) with true. cbv iota.
      rewrite !flat_map_app, !flat_map_flat_map. f_equal; [|f_equal].
      + apply flat_map_ext_in. intros i _. apply IH. lia.
      + apply flat_map_ext_in. intros i Hi. apply face_proc_vis; [lia|].
        repeat (destruct Hi as [<-|Hi]; [tabs; cbn; tauto|]). destruct Hi.
      + apply flat_map_ext_in. intros i Hi. rewrite (map_ext _ (fun j => Some (l, coff_l l off (nthZ (nthZ dcCellProcEdgeMask i []) j 0)))) by reflexivity.
        cbn [map]. apply edge_proc_vis. lia.
  Qed.

  Theorem v1_mesh_is_visits d : v1_mesh_lc lc d = flat_map emit (cvis d (0, 0, 0)).
  Proof. apply cell_proc_vis. lia. Qed.
End Trav.

(* ------------------------------------------------------------------ dcContourProcessEdge *)
Lemma leaf_signs_eq (s : cell -> bool) x y z :
  map (fun k => s (cadd (x, y, z) (vec3 k))) dcChildMinOffsets =
  [s (x, y, z); s (x, y, z + 1); s (x, y + 1, z); s (x, y + 1, z + 1);
   s (x + 1, y, z); s (x + 1, y, z + 1); s (x + 1, y + 1, z); s (x + 1, y + 1, z + 1)].
Proof. cbn. rewrite !Z.add_0_r. reflexivity. Qed.

Lemma leaf_bits s x y z :
  map (bit (leaf_corners s (x, y, z))) [0; 1; 2; 3; 4; 5; 6; 7] =
  [s (x, y, z); s (x, y, z + 1); s (x, y + 1, z); s (x, y + 1, z + 1);
   s (x + 1, y, z); s (x + 1, y, z + 1); s (x + 1, y + 1, z); s (x + 1, y + 1, z + 1)].
Proof. unfold leaf_corners. rewrite leaf_signs_eq. apply mask_bits. Qed.

Lemma nonempty_eq s x y z :
  nonempty (leaf_corners s) (x, y, z) =
  negb (all_equal [s (x, y, z); s (x, y, z + 1); s (x, y + 1, z); s (x, y + 1, z + 1);
                   s (x + 1, y, z); s (x + 1, y, z + 1); s (x + 1, y + 1, z); s (x + 1, y + 1, z + 1)]).
Proof. unfold nonempty, leaf_corners. rewrite leaf_signs_eq. now rewrite mask_full_or_empty. Qed.

Ltac pe_compute :=
  unfold process_edge, slots, quad_cells, lf; cbn [map dirZ];
  cbv [fold_left pe_step nthZ nth Z.to_nat Pos.to_nat Pos.iter_op Init.Nat.add dcProcessEdgeMask edge_corners dcEdgevmap
       node_cell node_size pow2 Z.of_nat Z.pow Z.pow_pos Pos.iter Z.mul Z.ltb Z.compare Pos.compare Pos.compare_cont app];
  cbn [csub cadd unit ax1 ax2].

(* the quad emitted for four size-1 leaves in node order around the lattice edge (a, p):
   the dual quad of that edge, oriented from solid to void; nothing without a sign change *)
Theorem v1_process_edge_rule s a p :
  Permutation (process_edge (leaf_corners s) (map lf (slots a p)) (dirZ a))
              (match s p, s (cadd p (unit a)) with
               | true, false => fan (quad_cells a p)
               | false, true => fan (rev_quad (quad_cells a p))
               | _, _ => []
               end).
Proof.
  destruct p as [[x y] z]. destruct a.
  - pe_compute.
    set (X := x - (0 + 0)). set (Y := y - (1 + 0)). set (Z0 := z - (0 + 1)).
    pose proof (leaf_bits s X Y Z0) as B. injection B as _ _ _ B3 _ _ _ B7.
    rewrite B3, B7. subst X Y Z0.
    replace (x - (0 + 0), y - (1 + 0) + 1, z - (0 + 1) + 1) with (x, y, z) by tri_eq.
    replace (x - (0 + 0) + 1, y - (1 + 0) + 1, z - (0 + 1) + 1) with (x + 1, y + 0, z + 0) by tri_eq.
    destruct (s (x, y, z)), (s (x + 1, y + 0, z + 0)); cbn; try apply perm_nil.
    + eapply perm_trans; [apply perm_swap|]. apply Permutation_refl'. tri_eq.
    + apply Permutation_refl'. tri_eq.
  - pe_compute.
    set (X := x - (0 + 1)). set (Y := y - (0 + 0)). set (Z0 := z - (1 + 0)).
    pose proof (leaf_bits s X Y Z0) as B. injection B as _ _ _ _ _ B5 _ B7.
    rewrite B5, B7. subst X Y Z0.
    replace (x - (0 + 1) + 1, y - (0 + 0), z - (1 + 0) + 1) with (x, y, z) by tri_eq.
    replace (x - (0 + 1) + 1, y - (0 + 0) + 1, z - (1 + 0) + 1) with (x + 0, y + 1, z + 0) by tri_eq.
    destruct (s (x, y, z)), (s (x + 0, y + 1, z + 0)); cbn; try apply perm_nil.
    + eapply perm_trans; [apply perm_swap|]. apply Permutation_refl'. tri_eq.
    + apply Permutation_refl'. tri_eq.
  - pe_compute.
    set (X := x - (1 + 0)). set (Y := y - (0 + 1)). set (Z0 := z - (0 + 0)).
    pose proof (leaf_bits s X Y Z0) as B. injection B as _ _ _ _ _ _ B6 B7.
    rewrite B6, B7. subst X Y Z0.
    replace (x - (1 + 0) + 1, y - (0 + 1) + 1, z - (0 + 0)) with (x, y, z) by tri_eq.
    replace (x - (1 + 0) + 1, y - (0 + 1) + 1, z - (0 + 0) + 1) with (x + 0, y + 0, z + 1) by tri_eq.
    destruct (s (x, y, z)), (s (x + 0, y + 0, z + 1)); cbn; try apply perm_nil.
    + eapply perm_trans; [apply perm_swap|]. apply Permutation_refl'. tri_eq.
    + apply Permutation_refl'. tri_eq.
Qed.

(* ------------------------------------------------------------------ V1 = dual mesh *)
Lemma all_equal_false_of_diff (l : list bool) i j : (i < length l)%nat -> (j < length l)%nat ->
  nth i l false <> nth j l false -> all_equal l = false.
Proof.
  intros Hi Hj H. destruct (all_equal l) eqn:E; [|reflexivity]. exfalso. apply H.
  unfold all_equal in E. apply orb_true_iff in E as [E|E]; rewrite forallb_forall in E.
  - rewrite (E _ (nth_In l false Hi)), (E _ (nth_In l false Hj)). reflexivity.
  - pose proof (E _ (nth_In l false Hi)) as A. pose proof (E _ (nth_In l false Hj)) as B.
    apply negb_true_iff in A, B. congruence.
Qed.

Lemma sneq (s : cell -> bool) P1 P2 Q1 Q2 : s P1 <> s P2 -> P1 = Q1 -> P2 = Q2 -> s Q1 <> s Q2.
Proof. congruence. Qed.

(* a sign change on the edge makes its four cells leaves *)
Lemma slots_nonempty s a p : s p <> s (cadd p (unit a)) ->
  forallb (nonempty (leaf_corners s)) (slots a p) = true.
Proof.
  intros H. destruct p as [[x y] z]. destruct a; unfold slots, quad_cells; cbn [forallb csub cadd unit ax1 ax2];
    rewrite !nonempty_eq.
  - rewrite (all_equal_false_of_diff _ 3 7), (all_equal_false_of_diff _ 2 6), (all_equal_false_of_diff _ 1 5), (all_equal_false_of_diff _ 0 4);
      try reflexivity; try (cbn; lia); cbn [nth]; (eapply sneq; [exact H | cbn; tri_eq | cbn; tri_eq]).
  - rewrite (all_equal_false_of_diff _ 5 7), (all_equal_false_of_diff _ 1 3), (all_equal_false_of_diff _ 4 6), (all_equal_false_of_diff _ 0 2);
      try reflexivity; try (cbn; lia); cbn [nth]; (eapply sneq; [exact H | cbn; tri_eq | cbn; tri_eq]).
  - rewrite (all_equal_false_of_diff _ 6 7), (all_equal_false_of_diff _ 4 5), (all_equal_false_of_diff _ 2 3), (all_equal_false_of_diff _ 0 1);
      try reflexivity; try (cbn; lia); cbn [nth]; (eapply sneq; [exact H | cbn; tri_eq | cbn; tri_eq]).
Qed.

Lemma emit_edge n s a p :
  Permutation (flat_map (emit (leaf_corners s)) (if interior n a p then [(dirZ a, slots a p)] else []))
              (edge_tris n s a p).
Proof.
  unfold edge_tris. destruct (interior n a p); [|apply perm_nil].
  cbn [flat_map emit]. rewrite app_nil_r.
  pose proof (v1_process_edge_rule s a p) as R.
  destruct (s p) eqn:E1, (s (cadd p (unit a))) eqn:E2.
  - apply Permutation_sym, Permutation_nil in R. rewrite R. destruct (forallb _ _); apply perm_nil.
  - rewrite slots_nonempty by congruence. exact R.
  - rewrite slots_nonempty by congruence. exact R.
  - apply Permutation_sym, Permutation_nil in R. rewrite R. destruct (forallb _ _); apply perm_nil.
Qed.

Lemma perm_flat_map {A B} (f : A -> list B) l m : Permutation l m -> Permutation (flat_map f l) (flat_map f m).
Proof.
  induction 1 as [|x l m _ IH|x y l|l m k _ IH1 _ IH2]; cbn [flat_map].
  - constructor.
  - now apply Permutation_app_head.
  - rewrite !app_assoc. apply Permutation_app_tail, Permutation_app_comm.
  - now transitivity (flat_map f m).
Qed.

(* the expected visits, emitted, are the dual mesh: every lattice size *)
Lemma expected_is_dual n s :
  Permutation (flat_map (emit (leaf_corners s)) (expected_visits n)) (dual_mesh n s).
Proof.
  unfold expected_visits, dual_mesh. rewrite flat_map_flat_map.
  apply flat_map_perm_ext. intros a _. rewrite flat_map_flat_map.
  apply flat_map_perm_ext. intros p _. apply emit_edge.
Qed.

(* THE V1 TRAVERSAL, every depth, EVERY sign assignment: the index triangles of contourCellProc are
   the dual mesh, as a multiset, provided the sign-free visit list enumerates every interior minimal
   edge of the 2^d lattice once (Algo/DCVisits.v: v1_visits, for every d). *)
Theorem v1_traversal_if_visits d s :
  Permutation (cvis d (0, 0, 0)) (expected_visits (cube d)) -> Permutation (v1_mesh s d) (dual_mesh (cube d) s).
Proof.
  intros V. unfold v1_mesh. rewrite v1_mesh_is_visits.
  eapply perm_trans; [|apply expected_is_dual]. now apply perm_flat_map.
Qed.
