(* Model of render/delaunay.go: TriangleI.Canonical, TriangleIByIndex.Less,
   TriangleISet.Canonical (sort) and TriangleISet.Equals.  Integers only. *)
From Coq Require Import List ZArith Lia Bool Permutation Sorted.
Import ListNotations.
Open Scope Z_scope.

Definition tri := (Z * Z * Z)%type.

(* TriangleI.Canonical: the three branches of the Go code, in order. *)
Definition canon (t : tri) : tri :=
  let '(a, b, c) := t in
  if (a <? b) && (a <? c) then (a, b, c)
  else if (b <? a) && (b <? c) then (b, c, a)
  else (c, a, b).

(* TriangleIByIndex.Less (lexicographic on the three indices) *)
Definition less (s t : tri) : bool :=
  let '(a0, a1, a2) := s in
  let '(b0, b1, b2) := t in
  if a0 <? b0 then true
  else if (a0 =? b0) && (a1 <? b1) then true
  else if (a0 =? b0) && (a1 =? b1) && (a2 <? b2) then true
  else false.

(* The pre-repair Less of the pinned commit (third clause forgot a[i][0]==a[j][0]). *)
Definition less_pinned (s t : tri) : bool :=
  let '(a0, a1, a2) := s in
  let '(b0, b1, b2) := t in
  if a0 <? b0 then true
  else if (a0 =? b0) && (a1 <? b1) then true
  else if (a1 =? b1) && (a2 <? b2) then true
  else false.

Section Sort.
  Variable lt : tri -> tri -> bool.
  (* insertion sort: what sort.Sort runs for up to 12 elements; the theorems
     below hold for any routine returning a sorted permutation. *)
  Fixpoint insert (x : tri) (l : list tri) : list tri :=
    match l with
    | [] => [x]
    | y :: r => if lt x y then x :: y :: r else y :: insert x r
    end.
  Fixpoint isort (l : list tri) : list tri :=
    match l with
    | [] => []
    | x :: r => insert x (isort r)
    end.
End Sort.

Definition tri_eqb (s t : tri) : bool :=
  let '(a0, a1, a2) := s in
  let '(b0, b1, b2) := t in
  (a0 =? b0) && (a1 =? b1) && (a2 =? b2).

Fixpoint list_eqb (l m : list tri) : bool :=
  match l, m with
  | [], [] => true
  | x :: l', y :: m' => tri_eqb x y && list_eqb l' m'
  | _, _ => false
  end.

Definition canonical_set (lt : tri -> tri -> bool) (ts : list tri) : list tri :=
  isort lt (map canon ts).

(* TriangleISet.Equals *)
Definition equals_with (lt : tri -> tri -> bool) (ts s : list tri) : bool :=
  if negb (Nat.eqb (length ts) (length s)) then false
  else list_eqb (canonical_set lt ts) (canonical_set lt s).

Definition equals := equals_with less.

(* rotations of a triple *)
Definition rot1 (t : tri) : tri := let '(a, b, c) := t in (b, c, a).
Definition rot2 (t : tri) : tri := let '(a, b, c) := t in (c, a, b).
Definition is_rotation (s t : tri) : Prop := s = t \/ s = rot1 t \/ s = rot2 t.
Definition distinct3 (t : tri) : Prop := let '(a, b, c) := t in a <> b /\ b <> c /\ a <> c.

(* ---------------------------------------------------------------- lemmas *)

Lemma canon_is_rotation t : is_rotation (canon t) t.
Proof.
  destruct t as [[a b] c]; unfold canon, is_rotation, rot1, rot2.
  destruct ((a <? b) && (a <? c)); [now left|].
  destruct ((b <? a) && (b <? c)); [right; now left | right; now right].
Qed.

Lemma canon_least_first t : distinct3 t ->
  let '(a, b, c) := canon t in a < b /\ a < c.
Proof.
  destruct t as [[a b] c]; unfold canon, distinct3; intros (Hab & Hbc & Hac).
  destruct (a <? b) eqn:E1; destruct (a <? c) eqn:E2; cbn [andb];
  destruct (b <? a) eqn:E3; destruct (b <? c) eqn:E4; cbn [andb]; lia.
Qed.

Lemma canon_rot1 t : distinct3 t -> canon (rot1 t) = canon t.
Proof.
  destruct t as [[a b] c]; unfold canon, rot1, distinct3; intros (Hab & Hbc & Hac).
  destruct (a <? b) eqn:E1; destruct (a <? c) eqn:E2;
  destruct (b <? a) eqn:E3; destruct (b <? c) eqn:E4;
  destruct (c <? a) eqn:E5; destruct (c <? b) eqn:E6; cbn [andb]; try reflexivity; lia.
Qed.

Lemma distinct3_rot1 t : distinct3 t -> distinct3 (rot1 t).
Proof. destruct t as [[a b] c]; unfold distinct3, rot1; intuition. Qed.

Lemma canon_rotation_invariant s t : distinct3 t -> is_rotation s t -> canon s = canon t.
Proof.
  intros Hd [->|[->| ->]]; [reflexivity | now apply canon_rot1 |].
  replace (rot2 t) with (rot1 (rot1 t)) by (destruct t as [[a b] c]; reflexivity).
  rewrite canon_rot1 by now apply distinct3_rot1. now apply canon_rot1.
Qed.

(* less is the strict lexicographic order *)
Definition lex (s t : tri) : Prop :=
  let '(a0, a1, a2) := s in
  let '(b0, b1, b2) := t in
  a0 < b0 \/ (a0 = b0 /\ a1 < b1) \/ (a0 = b0 /\ a1 = b1 /\ a2 < b2).

Lemma less_lex s t : less s t = true <-> lex s t.
Proof.
  destruct s as [[a0 a1] a2], t as [[b0 b1] b2]; unfold less, lex.
  destruct (a0 <? b0) eqn:E1; destruct (a0 =? b0) eqn:E2; destruct (a1 <? b1) eqn:E3;
  destruct (a1 =? b1) eqn:E4; destruct (a2 <? b2) eqn:E5; cbn [andb]; split; intros; try discriminate; try lia; try reflexivity.
Qed.

Lemma less_irrefl t : less t t = false.
Proof. destruct (less t t) eqn:E; [|reflexivity]. apply less_lex in E. destruct t as [[a b] c]; unfold lex in E; lia. Qed.

Lemma less_trans r s t : less r s = true -> less s t = true -> less r t = true.
Proof.
  rewrite !less_lex. destruct r as [[a0 a1] a2], s as [[b0 b1] b2], t as [[c0 c1] c2]; unfold lex; lia.
Qed.

Lemma less_total s t : less s t = false -> less t s = false -> s = t.
Proof.
  intros H1 H2.
  assert (N1 : ~ lex s t) by (intro X; apply less_lex in X; congruence).
  assert (N2 : ~ lex t s) by (intro X; apply less_lex in X; congruence).
  destruct s as [[a0 a1] a2], t as [[b0 b1] b2]; unfold lex in *.
  assert (a0 = b0) by lia. assert (a1 = b1) by lia. assert (a2 = b2) by lia. congruence.
Qed.

(* sortedness w.r.t. "not greater" *)
Definition le_tri (s t : tri) : Prop := less t s = false.

Lemma insert_perm x l : Permutation (insert less x l) (x :: l).
Proof.
  induction l as [|y r IH]; cbn [insert]; [reflexivity|].
  destruct (less x y); [reflexivity|]. rewrite IH. apply perm_swap.
Qed.

Lemma isort_perm l : Permutation (isort less l) l.
Proof.
  induction l as [|x r IH]; cbn [isort]; [reflexivity|].
  rewrite insert_perm. now constructor.
Qed.

Lemma insert_sorted x l : Sorted le_tri l -> Sorted le_tri (insert less x l).
Proof.
  induction l as [|y r IH]; cbn [insert]; intros Hs.
  - repeat constructor.
  - destruct (less x y) eqn:E.
    + constructor; [exact Hs|]. constructor. unfold le_tri.
      destruct (less y x) eqn:E2; [|reflexivity].
      pose proof (less_trans _ _ _ E E2) as X. rewrite less_irrefl in X. discriminate.
    + inversion Hs as [|? ? Hr Hhd]; subst. constructor; [now apply IH|].
      destruct r as [|z r']; cbn [insert].
      * constructor. exact E.
      * destruct (less x z); constructor; [exact E|]. now inversion Hhd.
Qed.

Lemma isort_sorted l : Sorted le_tri (isort less l).
Proof. induction l as [|x r IH]; cbn [isort]; [constructor | now apply insert_sorted]. Qed.

Lemma le_tri_trans : Relations_1.Transitive le_tri.
Proof.
  intros r s t H1 H2. unfold le_tri in *.
  destruct (less t r) eqn:E; [|reflexivity].
  (* t < r, not (s < r), not (t < s): by totality compare s and r *)
  destruct (less r s) eqn:E1.
  - pose proof (less_trans _ _ _ E E1). congruence.
  - pose proof (less_total _ _ H1 E1) as <-. congruence.
Qed.

(* a sorted list for a total order is determined by its multiset *)
Lemma sorted_perm_unique l m :
  Sorted le_tri l -> Sorted le_tri m -> Permutation l m -> l = m.
Proof.
  revert m. induction l as [|x l IH]; intros m Hl Hm Hp.
  - apply Permutation_nil in Hp. now subst.
  - destruct m as [|y m]; [apply Permutation_sym, Permutation_nil in Hp; discriminate|].
    apply Sorted_StronglySorted in Hl; [|exact le_tri_trans].
    apply Sorted_StronglySorted in Hm; [|exact le_tri_trans].
    inversion Hl as [|? ? Hl' Hxl]; subst. inversion Hm as [|? ? Hm' Hym]; subst.
    assert (Exy : x = y).
    { assert (Hx : In x (y :: m)) by (eapply Permutation_in; [exact Hp | now left]).
      assert (Hy : In y (x :: l)) by (eapply Permutation_in; [apply Permutation_sym; exact Hp | now left]).
      destruct Hx as [->|Hx]; [reflexivity|]. destruct Hy as [->|Hy]; [reflexivity|].
      rewrite Forall_forall in Hxl, Hym. apply less_total.
      - specialize (Hym _ Hx). exact Hym.
      - specialize (Hxl _ Hy). exact Hxl. }
    subst y. f_equal. apply IH.
    + now apply StronglySorted_Sorted.
    + now apply StronglySorted_Sorted.
    + now apply Permutation_cons_inv in Hp.
Qed.

Lemma tri_eqb_refl t : tri_eqb t t = true.
Proof. destruct t as [[a b] c]; unfold tri_eqb; now rewrite !Z.eqb_refl. Qed.

Lemma tri_eqb_eq s t : tri_eqb s t = true <-> s = t.
Proof.
  destruct s as [[a0 a1] a2], t as [[b0 b1] b2]; unfold tri_eqb. split.
  - intros H. apply andb_prop in H as [H H3]. apply andb_prop in H as [H1 H2].
    apply Z.eqb_eq in H1, H2, H3. congruence.
  - intros [= -> -> ->]. now rewrite !Z.eqb_refl.
Qed.

Lemma list_eqb_eq l m : list_eqb l m = true <-> l = m.
Proof.
  revert m; induction l as [|x l IH]; destruct m as [|y m]; cbn [list_eqb]; split; try easy.
  - intros H. apply andb_prop in H as [H1 H2]. apply tri_eqb_eq in H1. apply IH in H2. congruence.
  - intros [= -> ->]. rewrite tri_eqb_refl. now apply IH.
Qed.

Lemma canonical_set_perm ts ts' :
  Permutation (map canon ts) (map canon ts') -> canonical_set less ts = canonical_set less ts'.
Proof.
  intros Hp. unfold canonical_set. apply sorted_perm_unique; try apply isort_sorted.
  rewrite !isort_perm. exact Hp.
Qed.

(* ts' is obtained from ts by reordering the triangles and rotating each triple *)
Definition reorder_rotate (ts ts' : list tri) : Prop :=
  exists us, Forall2 is_rotation us ts /\ Permutation us ts'.

Lemma map_canon_rot us ts : Forall distinct3 ts -> Forall2 is_rotation us ts -> map canon us = map canon ts.
Proof.
  intros Hd H; induction H as [|u t us ts Hut _ IH]; [reflexivity|].
  inversion Hd; subst. cbn [map]. f_equal; [now apply canon_rotation_invariant | now apply IH].
Qed.

Lemma equals_invariant ts ts' s :
  Forall distinct3 ts -> reorder_rotate ts ts' -> equals ts' s = equals ts s.
Proof.
  intros Hd (us & Hrot & Hperm). unfold equals, equals_with.
  assert (Hlen : length ts' = length ts).
  { rewrite <- (Permutation_length Hperm). clear -Hrot. induction Hrot; cbn; congruence. }
  rewrite Hlen. destruct (negb _); [reflexivity|].
  f_equal. apply canonical_set_perm.
  rewrite <- (map_canon_rot us ts Hd Hrot). apply Permutation_map, Permutation_sym, Hperm.
Qed.

Lemma equals_refl_reordered ts ts' :
  Forall distinct3 ts -> reorder_rotate ts ts' -> equals ts' ts = true.
Proof.
  intros Hd Hr. rewrite (equals_invariant ts ts' ts Hd Hr).
  unfold equals, equals_with. rewrite Nat.eqb_refl. cbn [negb]. now apply list_eqb_eq.
Qed.

Lemma equals_sound ts s : equals ts s = true -> Permutation (map canon ts) (map canon s).
Proof.
  unfold equals, equals_with. destruct (negb _); [discriminate|].
  intros H. apply list_eqb_eq in H. unfold canonical_set in H.
  rewrite <- (isort_perm (map canon ts)), H. apply isort_perm.
Qed.

(* the pinned Less is not a strict weak order: Equals with it is false on a permuted copy *)
Definition witness_a : list tri := [(0,5,9); (1,5,3); (0,6,2)].
Definition witness_b : list tri := [(1,5,3); (0,6,2); (0,5,9)].
Lemma pinned_less_refuted : equals_with less_pinned witness_a witness_b = false.
Proof. vm_compute. reflexivity. Qed.
Lemma repaired_on_witness : equals witness_a witness_b = true.
Proof. vm_compute. reflexivity. Qed.

(* ------------------------------------------------------- correspondence *)
(* a case: id, ts, s, the boolean Go's Equals returned, Go's canonical form of ts *)
Definition case := (N * list tri * list tri * bool * list tri)%type.
Definition case_ok (c : case) : bool :=
  let '(id, ts, s, r, cs) := c in
  Bool.eqb (equals ts s) r && list_eqb (canonical_set less ts) cs.
Definition mismatches (cs : list case) : list N :=
  map (fun c => let '(id, _, _, _, _) := c in id) (filter (fun c => negb (case_ok c)) cs).

(* TriangleIByIndex.Less on its own (round str4): id, the two triples, the boolean Go's Less returned *)
Definition lcase := (N * tri * tri * bool)%type.
Definition lmismatches (cs : list lcase) : list N :=
  map (fun c : lcase => let '(id, _, _, _) := c in id)
      (filter (fun c : lcase => let '(_, s, t, r) := c in negb (Bool.eqb (less s t) r)) cs).
