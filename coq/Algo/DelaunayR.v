(* Real-number facts about sdf/triangle2.go Circumcenter / InCircumcircle (model Algo/Delaunay.v). *)
From Coq Require Import Reals Lra Lia List Bool ZArith.
From Sdfx Require Import Num.Ops Num.RInst Geo.Vec Geo.NormR Algo.Delaunay.
Open Scope R_scope.

Definition d2 (a b : RV2) : R := (vx a - vx b) * (vx a - vx b) + (vy a - vy b) * (vy a - vy b).
Definition reps : R := 1 / 1000000000000.

Lemma eps_eq : @eps ROps = reps.
Proof. unfold eps, cst, reps; cbn. reflexivity. Qed.
Lemma reps_pos : 0 < reps.
Proof. unfold reps. lra. Qed.

(* the y-differences the code divides by are either exactly zero (the branch taken is exact)
   or outside the epsilon band (the general formulas are used) *)
Definition well_conditioned (p1 p2 p3 : RV2) : Prop :=
  (vy p1 = vy p2 \/ reps <= Rabs (vy p1 - vy p2)) /\
  (vy p2 = vy p3 \/ reps <= Rabs (vy p2 - vy p3)) /\
  (* not collinear *)
  (vx p2 - vx p1) * (vy p3 - vy p2) <> (vx p3 - vx p2) * (vy p2 - vy p1).

Lemma abs_lt_eps_zero a b : (a = b \/ reps <= Rabs (a - b)) -> Rabs (a - b) < reps -> a = b.
Proof. intros [H|H] H2; [exact H | lra]. Qed.
Lemma abs_ge_eps_neq a b : ~ Rabs (a - b) < reps -> a <> b.
Proof. intros H E. subst. apply H. replace (b - b) with 0 by ring. rewrite Rabs_R0. apply reps_pos. Qed.

Theorem circumcenter_equidistant p1 p2 p3 c :
  well_conditioned p1 p2 p3 -> @circumcenter ROps p1 p2 p3 = Some c ->
  d2 c p1 = d2 c p2 /\ d2 c p2 = d2 c p3.
Proof.
  destruct p1 as [x1 y1], p2 as [x2 y2], p3 as [x3 y3]. unfold well_conditioned, circumcenter, d2.
  cbn. change (1 / 1000000000000) with reps.
  intros (W1 & W2 & W3).
  destruct (Rltb (Rabs (y1 - y2)) reps) eqn:C1; [apply Rltb_true in C1 | apply Rltb_false in C1];
  (destruct (Rltb (Rabs (y2 - y3)) reps) eqn:C2; [apply Rltb_true in C2 | apply Rltb_false in C2]); cbn [andb].
  - intros X; discriminate X.
  - pose proof (abs_lt_eps_zero _ _ W1 C1) as E. subst y2.
    assert (N : y3 <> y1) by (intro; subst; apply W3; ring).
    intros [= <-]. cbn [vx vy]. split; field; lra.
  - pose proof (abs_lt_eps_zero _ _ W2 C2) as E. subst y3.
    assert (N : y2 <> y1) by (intro; subst; apply W3; ring).
    intros [= <-]. cbn [vx vy]. split; field; lra.
  - assert (N1 : y1 <> y2) by (apply abs_ge_eps_neq; lra).
    assert (N2 : y2 <> y3) by (apply abs_ge_eps_neq; lra).
    assert (N3 : - (x2 - x1) / (y2 - y1) - - (x3 - x2) / (y3 - y2) <> 0).
    { intro E. apply W3.
      assert (E2 : (x2 - x1) * (y3 - y2) - (x3 - x2) * (y2 - y1) = 0).
      { replace ((x2 - x1) * (y3 - y2) - (x3 - x2) * (y2 - y1))
          with (- (- (x2 - x1) / (y2 - y1) - - (x3 - x2) / (y3 - y2)) * ((y2 - y1) * (y3 - y2))) by (field; lra).
        rewrite E. ring. }
      lra. }
    destruct (Rltb (Rabs (y2 - y3)) (Rabs (y1 - y2))); intros [= <-]; cbn [vx vy];
    split; field; repeat split; try lra; try exact N3.
Qed.

(* the `done` flag: every later point in x order is outside the circle through the vertices *)
Theorem done_flag_sound p1 p2 p3 p c :
  @circumcenter ROps p1 p2 p3 = Some c ->
  snd (@in_circumcircle ROps p1 p2 p3 p) = true ->
  forall q, vx p <= vx q -> d2 p1 c < d2 q c.
Proof.
  intros Hc. unfold in_circumcircle. rewrite Hc. cbn [snd].
  change (oltb ROps) with Rltb. cbn. intros H q Hq.
  apply andb_prop in H. destruct H as [H1 H2]. apply Rltb_true in H1, H2.
  unfold d2. pose proof (Rle_0_sqr (vy q - vy c)) as S. unfold Rsqr in S.
  assert ((vx p - vx c) * (vx p - vx c) <= (vx q - vx c) * (vx q - vx c)).
  { apply Rmult_le_compat; lra. }
  lra.
Qed.

(* `inside` is the circle test with the epsilon slack *)
Theorem inside_iff p1 p2 p3 p c :
  @circumcenter ROps p1 p2 p3 = Some c ->
  (fst (@in_circumcircle ROps p1 p2 p3 p) = true <-> d2 p c - d2 p1 c <= reps).
Proof.
  intros Hc. unfold in_circumcircle. rewrite Hc. cbn [fst]. cbn.
  change (1 / 1000000000000) with reps. unfold d2. rewrite Rleb_true. reflexivity.
Qed.

(* ---- the super triangle contains every vertex (strictly), for any point set of positive extent *)
Lemma fold_min_le (l : list RV2) (a : RV2) :
  vx (fold_left (@v2min ROps) l a) <= vx a /\ vy (fold_left (@v2min ROps) l a) <= vy a /\
  forall v, In v l -> vx (fold_left (@v2min ROps) l a) <= vx v /\ vy (fold_left (@v2min ROps) l a) <= vy v.
Proof.
  revert a; induction l as [|x l IH]; intros a; cbn [fold_left]; [split; [lra | split; [lra | intros ? []]]|].
  destruct (IH (v2min a x)) as (H1 & H2 & H3). unfold v2min in *; cbn [vx vy] in *.
  change (omin ROps) with Rmin in *.
  pose proof (Rmin_l (vx a) (vx x)). pose proof (Rmin_r (vx a) (vx x)).
  pose proof (Rmin_l (vy a) (vy x)). pose proof (Rmin_r (vy a) (vy x)).
  split; [lra|]. split; [lra|]. intros v [<-|Hv]; [split; lra | apply H3, Hv].
Qed.
Lemma fold_max_ge (l : list RV2) (a : RV2) :
  vx a <= vx (fold_left (@v2max ROps) l a) /\ vy a <= vy (fold_left (@v2max ROps) l a) /\
  forall v, In v l -> vx v <= vx (fold_left (@v2max ROps) l a) /\ vy v <= vy (fold_left (@v2max ROps) l a).
Proof.
  revert a; induction l as [|x l IH]; intros a; cbn [fold_left]; [split; [lra | split; [lra | intros ? []]]|].
  destruct (IH (v2max a x)) as (H1 & H2 & H3). unfold v2max in *; cbn [vx vy] in *.
  change (omax ROps) with Rmax in *.
  pose proof (Rmax_l (vx a) (vx x)). pose proof (Rmax_r (vx a) (vx x)).
  pose proof (Rmax_l (vy a) (vy x)). pose proof (Rmax_r (vy a) (vy x)).
  split; [lra|]. split; [lra|]. intros v [<-|Hv]; [split; lra | apply H3, Hv].
Qed.

(* signed area test: v strictly to the left of a -> b *)
Definition left_of (a b v : RV2) : Prop := 0 < (vx b - vx a) * (vy v - vy a) - (vy b - vy a) * (vx v - vx a).

Theorem supertriangle_contains (vs : list RV2) :
  (exists u w, In u vs /\ In w vs /\ (vx u <> vx w \/ vy u <> vy w)) ->
  let '(p0, p1, p2) := @super_triangle ROps vs in
  forall v, In v vs -> left_of p0 p2 v /\ left_of p2 p1 v /\ left_of p1 p0 v.
Proof.
  intros (u & w & Hu & Hw & Hne). unfold super_triangle.
  set (mn := @Mat.v2set_min ROps vs). set (mx := @Mat.v2set_max ROps vs).
  assert (Hmn : forall v, In v vs -> vx mn <= vx v /\ vy mn <= vy v).
  { intros v Hv. unfold mn, Mat.v2set_min. destruct (fold_min_le vs (hd v2zero vs)) as (_ & _ & H). apply H, Hv. }
  assert (Hmx : forall v, In v vs -> vx v <= vx mx /\ vy v <= vy mx).
  { intros v Hv. unfold mx, Mat.v2set_max. destruct (fold_max_ge vs (hd v2zero vs)) as (_ & _ & H). apply H, Hv. }
  clearbody mn mx. cbn.
  set (sx := vx mx - vx mn). set (sy := vy mx - vy mn).
  assert (Hs : 0 <= sx /\ 0 <= sy /\ 0 < Rmax sx sy).
  { destruct (Hmn u Hu), (Hmx u Hu), (Hmn w Hw), (Hmx w Hw). unfold sx, sy.
    pose proof (Rmax_l (vx mx - vx mn) (vy mx - vy mn)). pose proof (Rmax_r (vx mx - vx mn) (vy mx - vy mn)).
    split; [lra | split; [lra |]]. destruct Hne as [N|N].
    - assert (vx u < vx w \/ vx w < vx u) as [?|?] by lra; lra.
    - assert (vy u < vy w \/ vy w < vy u) as [?|?] by lra; lra. }
  destruct Hs as (Hsx & Hsy & Hm). set (m := Rmax sx sy) in *.
  assert (Hmx' : sx <= m) by apply Rmax_l. assert (Hmy' : sy <= m) by apply Rmax_r.
  intros v Hv. destruct (Hmn v Hv) as [A1 A2]. destruct (Hmx v Hv) as [B1 B2].
  unfold left_of; cbn. unfold sx, sy in *.
  set (k := m * (1 + 1) * 4096) in *.
  assert (Hk : 8192 * m = k) by (unfold k; ring).
  set (cx := vx mn + (vx mx - vx mn) * (1 / (1 + 1))) in *.
  set (cy := vy mn + (vy mx - vy mn) * (1 / (1 + 1))) in *.
  assert (Cx : - m <= vx v - cx <= m) by (unfold cx; lra).
  assert (Cy : - m <= vy v - cy <= m) by (unfold cy; lra).
  set (dx := vx v - cx) in *. set (dy := vy v - cy) in *.
  replace (vx v) with (cx + dx) by (unfold dx; ring). replace (vy v) with (cy + dy) by (unfold dy; ring).
  assert (K : 0 < k) by lra.
  assert (Km : k = 8192 * m) by lra.
  split; [|split].
  - match goal with |- 0 < ?e => replace e with (2 * k * (dy + k)) by ring end.
    apply Rmult_lt_0_compat; lra.
  - match goal with |- 0 < ?e => replace e with (k * (k - dy - 2 * dx)) by ring end.
    apply Rmult_lt_0_compat; lra.
  - match goal with |- 0 < ?e => replace e with (k * (k - dy + 2 * dx)) by ring end.
    apply Rmult_lt_0_compat; lra.
Qed.
