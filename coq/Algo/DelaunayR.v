(* Real-number facts about sdf/triangle2.go Circumcenter / InCircumcircle (model Algo/Delaunay.v). *)
From Coq Require Import Reals Lra Lia List Bool ZArith.
From Sdfx Require Import Num.Ops Num.RInst Geo.Vec Geo.NormR Algo.Delaunay.
Open Scope R_scope.

Definition d2 (a b : RV2) : R := (vx a - vx b) * (vx a - vx b) + (vy a - vy b) * (vy a - vy b).
Definition reps : R := 1 / 1000000000000.

Lemma eps_eq : @eps ROps = reps.
Proof. unfold eps, cst, reps; cbn. reflexivity. Qed.
Lemma reps_pos : 0 < reps.
Proof. unfold reps. lra. Qed.

(* the y-differences the code divides by are either exactly zero (the branch taken is exact)
   or outside the epsilon band (the general formulas are used) *)
Definition well_conditioned (p1 p2 p3 : RV2) : Prop :=
  (vy p1 = vy p2 \/ reps <= Rabs (vy p1 - vy p2)) /\
  (vy p2 = vy p3 \/ reps <= Rabs (vy p2 - vy p3)) /\
  (* not collinear *)
  (vx p2 - vx p1) * (vy p3 - vy p2) <> (vx p3 - vx p2) * (vy p2 - vy p1).

Lemma abs_lt_eps_zero a b : (a = b \/ reps <= Rabs (a - b)) -> Rabs (a - b) < reps -> a = b.
Proof. intros [H|H] H2; [exact H | lra]. Qed.
Lemma abs_ge_eps_neq a b : ~ Rabs (a - b) < reps -> a <> b.
Proof. intros H E. subst. apply H. replace (b - b) with 0 by ring. rewrite Rabs_R0. apply reps_pos. Qed.

Theorem circumcenter_equidistant p1 p2 p3 c :
  well_conditioned p1 p2 p3 -> @circumcenter ROps p1 p2 p3 = Some c ->
  d2 c p1 = d2 c p2 /\ d2 c p2 = d2 c p3.
Proof.
  destruct p1 as [x1 y1], p2 as [x2 y2], p3 as [x3 y3]. unfold well_conditioned, circumcenter, d2.
  cbn. change (1 / 1000000000000) with reps.
  intros (W1 & W2 & W3).
  destruct (Rltb (Rabs (y1 - y2)) reps) eqn:C1; [apply Rltb_true in C1 | apply Rltb_false in C1];
  (destruct (Rltb (Rabs (y2 - y3)) reps) eqn:C2; [apply Rltb_true in C2 | apply Rltb_false in C2]); cbn [andb].
  - intros X; discriminate X.
  - pose proof (abs_lt_eps_zero _ _ W1 C1) as E. subst y2.
    assert (N : y3 <> y1) by (intro; subst; apply W3; ring).
    intros [= <-]. cbn [vx vy]. split; field; lra.
  - pose proof (abs_lt_eps_zero _ _ W2 C2) as E. subst y3.
    assert (N : y2 <> y1) by (intro; subst; apply W3; ring).
    intros [= <-]. cbn [vx vy]. split; field; lra.
  - assert (N1 : y1 <> y2) by (apply abs_ge_eps_neq; lra).
    assert (N2 : y2 <> y3) by (apply abs_ge_eps_neq; lra).
    assert (N3 : - (x2 - x1) / (y2 - y1) - - (x3 - x2) / (y3 - y2) <> 0).
    { intro E. apply W3.
      assert (E2 : (x2 - x1) * (y3 - y2) - (x3 - x2) * (y2 - y1) = 0).
      { replace ((x2 - x1) * (y3 - y2) - (x3 - x2) * (y2 - y1))
          with (- (- (x2 - x1) / (y2 - y1) - - (x3 - x2) / (y3 - y2)) * ((y2 - y1) * (y3 - y2))) by (field; lra).
        rewrite E. ring. }
      lra. }
    destruct (Rltb (Rabs (y2 - y3)) (Rabs (y1 - y2))); intros [= <-]; cbn [vx vy];
    split; field; repeat split; try lra; try exact N3.
Qed.

(* the `done` flag: every later point in x order is outside the circle through the vertices *)
Theorem done_flag_sound p1 p2 p3 p c :
  @circumcenter ROps p1 p2 p3 = Some c ->
  snd (@in_circumcircle ROps p1 p2 p3 p) = true ->
  forall q, vx p <= vx q -> d2 p1 c < d2 q c.
Proof.
  intros Hc. unfold in_circumcircle. rewrite Hc. cbn [snd].
  change (oltb ROps) with Rltb. cbn. intros H q Hq.
  apply andb_prop in H. destruct H as [H1 H2]. apply Rltb_true in H1, H2.
  unfold d2. pose proof (Rle_0_sqr (vy q - vy c)) as S. unfold Rsqr in S.
  assert ((vx p - vx c) * (vx p - vx c) <= (vx q - vx c) * (vx q - vx c)).
  { apply Rmult_le_compat; lra. }
  lra.
Qed.

(* `inside` is the circle test with the epsilon slack *)
Theorem inside_iff p1 p2 p3 p c :
  @circumcenter ROps p1 p2 p3 = Some c ->
  (fst (@in_circumcircle ROps p1 p2 p3 p) = true <-> d2 p c - d2 p1 c <= reps).
Proof.
  intros Hc. unfold in_circumcircle. rewrite Hc. cbn [fst]. cbn.
  change (1 / 1000000000000) with reps. unfold d2. rewrite Rleb_true. reflexivity.
Qed.
