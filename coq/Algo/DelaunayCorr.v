(* Correspondence for the Delaunay part of C20: the FOps model of Delaunay2d against the
   triangle list the Go function returned for the same x-sorted points. *)
From Coq Require Import List ZArith NArith Floats Bool.
From Sdfx Require Import Num.Ops Num.FInst Geo.Vec Algo.Delaunay.
Import ListNotations.

Definition fv2 (x y : float) : V2 FOps := mkV2 x y.
Definition dcase := (N * list (float * float) * list (Z * Z * Z))%type.
Definition tri_eqb (s t : Z * Z * Z) : bool :=
  let '(a0, a1, a2) := s in let '(b0, b1, b2) := t in (a0 =? b0)%Z && (a1 =? b1)%Z && (a2 =? b2)%Z.
Fixpoint tris_eqb (l m : list (Z * Z * Z)) : bool :=
  match l, m with
  | [], [] => true
  | x :: l', y :: m' => tri_eqb x y && tris_eqb l' m'
  | _, _ => false
  end.
Definition dok (c : dcase) : bool :=
  let '(id, pts, gts) := c in
  tris_eqb (@delaunay2d FOps (map (fun p : float * float => fv2 (fst p) (snd p)) pts)) gts.
Definition dmismatches (cs : list dcase) : list N :=
  map (fun c : dcase => let '(id, _, _) := c in id) (filter (fun c => negb (dok c)) cs).

(* predicate cases: id, p1 p2 p3 p, go inside, go done *)
Definition pcase := (N * (float * float) * (float * float) * (float * float) * (float * float) * bool * bool)%type.
Definition pmismatches (cs : list pcase) : list N :=
  map (fun c : pcase => let '(id, _, _, _, _, _, _) := c in id)
      (filter (fun c : pcase =>
                 let '(id, a, b, c3, p, gi, gd) := c in
                 let '(mi, md) := @in_circumcircle FOps (fv2 (fst a) (snd a)) (fv2 (fst b) (snd b))
                                                   (fv2 (fst c3) (snd c3)) (fv2 (fst p) (snd p)) in
                 negb (Bool.eqb mi gi && Bool.eqb md gd)) cs).

(* super triangle cases: id, x-sorted points, the six coordinates Go's superTriangle returned *)
Definition scase := (N * list (float * float) * (float * float * float * float * float * float))%type.
Definition smismatches (cs : list scase) : list N :=
  map (fun c : scase => let '(id, _, _) := c in id)
      (filter (fun c : scase =>
                 let '(id, pts, (ax, ay, bx, by_, cx, cy)) := c in
                 let '(p0, p1, p2) := @super_triangle FOps (map (fun p : float * float => fv2 (fst p) (snd p)) pts) in
                 negb (fsame (vx p0) ax && fsame (vy p0) ay && fsame (vx p1) bx && fsame (vy p1) by_
                       && fsame (vx p2) cx && fsame (vy p2) cy)) cs).

(* slow reference cases: id, points (as given to Delaunay2dSlow), Some triangle list / None = error *)
From Sdfx Require Import Algo.DelaunaySlow.
Definition slcase := (N * list (float * float) * option (list (nat * nat * nat)))%type.
Definition ntri_eqb (s t : nat * nat * nat) : bool :=
  let '(a0, a1, a2) := s in let '(b0, b1, b2) := t in Nat.eqb a0 b0 && Nat.eqb a1 b1 && Nat.eqb a2 b2.
Fixpoint ntris_eqb (l m : list (nat * nat * nat)) : bool :=
  match l, m with
  | [], [] => true
  | x :: l', y :: m' => ntri_eqb x y && ntris_eqb l' m'
  | _, _ => false
  end.
Definition slok (c : slcase) : bool :=
  let '(id, pts, g) := c in
  match @delaunay2d_slow FOps (map (fun p : float * float => fv2 (fst p) (snd p)) pts), g with
  | Some l, Some m => ntris_eqb l m
  | None, None => true
  | _, _ => false
  end.
Definition slmismatches (cs : list slcase) : list N :=
  map (fun c : slcase => let '(id, _, _) := c in id) (filter (fun c => negb (slok c)) cs).
