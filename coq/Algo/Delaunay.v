(* render/delaunay.go Delaunay2d (Bowyer-Watson with a super triangle) and
   sdf/triangle2.go Circumcenter / InCircumcircle, over the Ops record. *)
From Coq Require Import ZArith List Bool.
From Sdfx Require Import Num.Ops Geo.Vec Geo.Box Geo.Mat.
Import OpsNotations ListNotations.
Local Open Scope ops_scope.

Section Delaunay.
  Context {O : Ops}.
  Notation T := (T O).
  Notation V2 := (V2 O).

  Definition eps : T := cst 1 1000000000000.   (* sdf: const epsilon = 1e-12 *)

  (* Triangle2.Circumcenter: None = "coincident points" error *)
  Definition circumcenter (p1 p2 p3 : V2) : option V2 :=
    let x1 := vx p1 in let x2 := vx p2 in let x3 := vx p3 in
    let y1 := vy p1 in let y2 := vy p2 in let y3 := vy p3 in
    let fabsy1y2 := oabs O (y1 - y2) in
    let fabsy2y3 := oabs O (y2 - y3) in
    if (fabsy1y2 <? eps) && (fabsy2y3 <? eps) then None
    else if fabsy1y2 <? eps then
      let m2 := - (x3 - x2) / (y3 - y2) in
      let mx2 := (x2 + x3) / two in
      let my2 := (y2 + y3) / two in
      let xc := (x2 + x1) / two in
      let yc := m2 * (xc - mx2) + my2 in
      Some (mkV2 xc yc)
    else if fabsy2y3 <? eps then
      let m1 := - (x2 - x1) / (y2 - y1) in
      let mx1 := (x1 + x2) / two in
      let my1 := (y1 + y2) / two in
      let xc := (x3 + x2) / two in
      let yc := m1 * (xc - mx1) + my1 in
      Some (mkV2 xc yc)
    else
      let m1 := - (x2 - x1) / (y2 - y1) in
      let m2 := - (x3 - x2) / (y3 - y2) in
      let mx1 := (x1 + x2) / two in
      let mx2 := (x2 + x3) / two in
      let my1 := (y1 + y2) / two in
      let my2 := (y2 + y3) / two in
      let xc := (m1 * mx1 - m2 * mx2 + my2 - my1) / (m1 - m2) in
      let yc := if fabsy1y2 >? fabsy2y3 then m1 * (xc - mx1) + my1 else m2 * (xc - mx2) + my2 in
      Some (mkV2 xc yc).

  (* Triangle2.InCircumcircle: (inside, done) *)
  Definition in_circumcircle (p1 p2 p3 p : V2) : bool * bool :=
    match circumcenter p1 p2 p3 with
    | None => (false, true)
    | Some c =>
        let dx := vx p1 - vx c in
        let dy := vy p1 - vy c in
        let r2 := dx * dx + dy * dy in
        let dx := vx p - vx c in
        let dy := vy p - vy c in
        let d2 := dx * dx + dy * dy in
        ((d2 - r2) <=? eps, (dx >? o0 O) && ((dx * dx) >? r2))
    end.

  (* superTriangle for at least two vertices *)
  Definition super_triangle (vs : list V2) : V2 * V2 * V2 :=
    let b := mkBox2 (v2set_min vs) (v2set_max vs) in
    let p := box2_center b in
    let k := v2maxcomp (box2_size b) * two in
    let k := k * ofZ O 4096 in
    (v2add p (mkV2 (- k) (- k)), v2add p (mkV2 (o0 O) k), v2add p (mkV2 k (- k))).

  Definition tri := (Z * Z * Z)%type.
  Definition edge := (Z * Z)%type.

  Definition vnth (vs : list V2) (i : Z) : V2 := nth (Z.to_nat i) vs v2zero.

  (* remove element j by copying the last element into its place *)
  Fixpoint set_nth {A} (l : list A) (j : nat) (x : A) : list A :=
    match l, j with
    | [], _ => []
    | _ :: r, 0%nat => x :: r
    | y :: r, S j' => y :: set_nth r j' x
    end.
  Definition swap_remove {A} (d : A) (l : list A) (j : nat) : list A :=
    let n := length l in
    removelast (set_nth l j (nth (n - 1) l d)).

  (* the scan over the current triangles for vertex v: j walks the list, removed
     triangles are replaced by the tail element and re-examined; fuel = initial length + 1 *)
  Fixpoint scan (fuel : nat) (vs : list V2) (v : V2) (ts : list (tri * bool)) (j : nat)
           (es : list edge) : list (tri * bool) * list edge :=
    match fuel with
    | 0%nat => (ts, es)
    | S fuel' =>
        if Nat.leb (length ts) j then (ts, es)
        else
          let '((a, b, c), dn) := nth j ts ((0, 0, 0)%Z, false) in
          if dn then scan fuel' vs v ts (S j) es
          else
            let '(inside, complete) := in_circumcircle (vnth vs a) (vnth vs b) (vnth vs c) v in
            if inside then
              scan fuel' vs v (swap_remove ((0, 0, 0)%Z, false) (set_nth ts j ((a, b, c), complete)) j) j
                   (es ++ [(a, b); (b, c); (c, a)])
            else scan fuel' vs v (set_nth ts j ((a, b, c), complete)) (S j) es
    end.

  (* tag duplicate edges: -1,-1 *)
  Definition edge_dup (x y : edge) : bool :=
    ((fst x =? snd y)%Z && (snd x =? fst y)%Z) || ((snd x =? snd y)%Z && (fst x =? fst y)%Z).
  Fixpoint tag_inner (es : list edge) (j k : nat) (n : nat) : list edge :=
    match n with
    | 0%nat => es
    | S n' =>
        if Nat.leb (length es) k then es
        else
          let ej := nth j es (0, 0)%Z in
          let ek := nth k es (0, 0)%Z in
          let es := if edge_dup ej ek then set_nth (set_nth es j (-1, -1)%Z) k (-1, -1)%Z else es in
          tag_inner es j (S k) n'
    end.
  Fixpoint tag_outer (es : list edge) (j : nat) (n : nat) : list edge :=
    match n with
    | 0%nat => es
    | S n' =>
        if Nat.leb (length es) (S j) then es
        else tag_outer (tag_inner es j (S j) (length es)) (S j) n'
    end.

  Definition add_vertex (vs : list V2) (i : Z) (ts : list (tri * bool)) : list (tri * bool) :=
    let v := vnth vs i in
    let '(ts, es) := scan (S (length ts)) vs v ts 0 [] in
    let es := tag_outer es 0 (length es) in
    ts ++ map (fun e : edge => ((fst e, snd e, i), false))
              (filter (fun e : edge => negb ((fst e <? 0)%Z || (snd e <? 0)%Z)) es).

  Fixpoint add_vertices (vs : list V2) (n : nat) (i : Z) (ts : list (tri * bool)) : list (tri * bool) :=
    match n with
    | 0%nat => ts
    | S n' => add_vertices vs n' (i + 1)%Z (add_vertex vs i ts)
    end.

  (* final removal of triangles touching the super triangle *)
  Fixpoint strip (fuel : nat) (n : Z) (ts : list tri) (j : nat) : list tri :=
    match fuel with
    | 0%nat => ts
    | S fuel' =>
        if Nat.leb (length ts) j then ts
        else
          let '(a, b, c) := nth j ts (0, 0, 0)%Z in
          if (n <=? a)%Z || (n <=? b)%Z || (n <=? c)%Z
          then strip fuel' n (swap_remove (0, 0, 0)%Z ts j) j
          else strip fuel' n ts (S j)
    end.

  (* Delaunay2d on an x-sorted vertex list of at least two vertices *)
  Definition delaunay2d (vs : list V2) : list tri :=
    let n := Z.of_nat (length vs) in
    let '(p0, p1, p2) := super_triangle vs in
    let vs' := vs ++ [p0; p1; p2] in
    let ts := add_vertices vs' (length vs) 0 [((n, n + 1, n + 2)%Z, false)] in
    strip (S (length ts)) n (map fst ts) 0.
End Delaunay.
