(* The V1 traversal visits every interior minimal edge exactly once, for EVERY octree depth.

   cvis / fvis / evis (Algo/DCOctree.v) are the sign-free visit lists of contourCellProc /
   dcContourFaceProc / dcContourEdgeProc over the regenerated dc*Mask tables.  Here, by
   induction over the level, at an arbitrary origin:

     evis l [four size-2^l cells in node order around the edge starting at P, axis a]
            = the 2^l minimal edges (a, P + k a), 0 <= k < 2^l, each once;
     fvis l [o0; o0 + 2^l d]
            = the minimal edges lying in the open face shared by the two cubes, each once;
     cvis l off
            = the minimal edges interior to the cube of size 2^l at off, each once

   (cell of size 2N = 8 cells + 12 faces + 6 edges of size N; face = 4 faces + 4 edges; edge = 2
   edges).  "Each once" is stated with multiplicities: the number of occurrences of the visit
   (dirZ a, slots a p) is a product of three one-dimensional 0/1 indicators (half-open range along
   the edge axis, open range / single value across), every element of the list is such a visit,
   and the induction step is the product of the one-dimensional splittings
       [o, o+2N) = [o, o+N) + [o+N, o+2N)      (o, o+2N) = (o, o+N) + {o+N} + (o+N, o+2N).
   The tables enter only by evaluation of the child indices they select, so the proof does not
   depend on the order of their rows.  *)
From Coq Require Import List ZArith Lia Bool Permutation.
From Sdfx Require Import Generated.DCTables.
From Sdfx Require Import Algo.DualGrid.
From Sdfx Require Import Algo.DCModel.
From Sdfx Require Import Algo.DCOctree.
Import ListNotations.
Open Scope Z_scope.

(* ------------------------------------------------------------------ visits of lattice edges *)
Definition mk (a : axis) (p : cell) : visit := (dirZ a, slots a p).

Lemma mk_inj a p a' p' : mk a p = mk a' p' -> a = a' /\ p = p'.
Proof.
  unfold mk, slots, quad_cells. intros H. injection H as Hd _ _ _ Hp.
  split; [destruct a, a'; try reflexivity; discriminate Hd | exact Hp].
Qed.

Definition cnt (L : list visit) (v : visit) : Z := Z.of_nat (count_occ visit_eq_dec L v).

Lemma cnt_nil v : cnt [] v = 0.
Proof. reflexivity. Qed.
Lemma cnt_app L1 L2 v : cnt (L1 ++ L2) v = cnt L1 v + cnt L2 v.
Proof. unfold cnt. rewrite count_occ_app. lia. Qed.
Lemma cnt_single_same v : cnt [v] v = 1.
Proof. unfold cnt. cbn [count_occ]. destruct (visit_eq_dec v v); [reflexivity | contradiction]. Qed.
Lemma cnt_single_other w v : w <> v -> cnt [w] v = 0.
Proof. intros H. unfold cnt. cbn [count_occ]. destruct (visit_eq_dec w v); [contradiction | reflexivity]. Qed.
Lemma cnt_flat_map {A} (f : A -> list visit) l v : cnt (flat_map f l) v = zsum (fun x => cnt (f x) v) l.
Proof. induction l as [|x l IH]; [reflexivity|]. cbn [flat_map]. now rewrite cnt_app, zsum_cons, IH. Qed.

(* L consists of edge visits only, with multiplicities ind *)
Record spec (ind : axis -> cell -> Z) (L : list visit) : Prop := {
  spec_cnt : forall a p, cnt L (mk a p) = ind a p;
  spec_mk : forall v, In v L -> exists a p, v = mk a p }.

Lemma spec_nil : spec (fun _ _ => 0) [].
Proof. split; [reflexivity | intros v []]. Qed.
Lemma spec_app i1 i2 L1 L2 : spec i1 L1 -> spec i2 L2 -> spec (fun a p => i1 a p + i2 a p) (L1 ++ L2).
Proof.
  intros [C1 M1] [C2 M2]. split.
  - intros a p. now rewrite cnt_app, C1, C2.
  - intros v H. apply in_app_or in H as [H|H]; auto.
Qed.
Lemma spec_ext i1 i2 L : (forall a p, i1 a p = i2 a p) -> spec i1 L -> spec i2 L.
Proof. intros E [C M]. split; [intros a p; now rewrite C | exact M]. Qed.

(* equal multiplicities: same multiset *)
Lemma spec_perm ind L1 L2 : spec ind L1 -> spec ind L2 -> Permutation L1 L2.
Proof.
  intros [C1 M1] [C2 M2]. apply (Permutation_count_occ visit_eq_dec). intros v.
  destruct (in_dec visit_eq_dec v (L1 ++ L2)) as [Hin|Hin].
  - assert (E : exists a p, v = mk a p) by (apply in_app_or in Hin as [H|H]; auto).
    destruct E as (a & p & ->). pose proof (C1 a p) as A. pose proof (C2 a p) as B. unfold cnt in A, B. lia.
  - assert (~ In v L1 /\ ~ In v L2) as [H1 H2] by (split; intro; apply Hin, in_or_app; tauto).
    apply (count_occ_not_In visit_eq_dec) in H1, H2. congruence.
Qed.

(* ------------------------------------------------------------------ one-dimensional indicators *)
Definition indA (o n x : Z) : Z := if (o <=? x) && (x <? o + n) then 1 else 0.   (* o <= x < o+n *)
Definition indO (o n x : Z) : Z := if (o <? x) && (x <? o + n) then 1 else 0.    (* o <  x < o+n *)
Definition indE (o x : Z) : Z := if x =? o then 1 else 0.                        (* x = o *)

Lemma indA_split o m x : 0 <= m -> indA o (2 * m) x = indA o m x + indA (o + m) m x.
Proof.
  intros H. unfold indA.
  destruct (Z.leb_spec o x), (Z.ltb_spec x (o + 2 * m)), (Z.ltb_spec x (o + m)),
           (Z.leb_spec (o + m) x), (Z.ltb_spec x (o + m + m)); cbn; lia.
Qed.
Lemma indO_split o m x : 1 <= m -> indO o (2 * m) x = indO o m x + indE (o + m) x + indO (o + m) m x.
Proof.
  intros H. unfold indO, indE.
  destruct (Z.ltb_spec o x), (Z.ltb_spec x (o + 2 * m)), (Z.ltb_spec x (o + m)),
           (Z.ltb_spec (o + m) x), (Z.ltb_spec x (o + m + m)), (Z.eqb_spec x (o + m)); cbn; lia.
Qed.
Lemma indO_1 o x : indO o 1 x = 0.
Proof. unfold indO. destruct (Z.ltb_spec o x), (Z.ltb_spec x (o + 1)); cbn; lia. Qed.
Lemma indA_1 o x : indA o 1 x = indE o x.
Proof. unfold indA, indE. destruct (Z.leb_spec o x), (Z.ltb_spec x (o + 1)), (Z.eqb_spec x o); cbn; lia. Qed.
Lemma indE_same o : indE o o = 1.
Proof. unfold indE. now rewrite Z.eqb_refl. Qed.
Lemma indE_other o x : x <> o -> indE o x = 0.
Proof. intros H. unfold indE. destruct (Z.eqb_spec x o); [contradiction | reflexivity]. Qed.

(* ------------------------------------------------------------------ the three kinds of region *)
(* minimal edges (a, p) interior to the cube [o, o+n]^3 *)
Definition ind_cell (n : Z) (o : cell) (a : axis) (p : cell) : Z :=
  let '(ox, oy, oz) := o in let '(x, y, z) := p in
  match a with
  | AX => indA ox n x * indO oy n y * indO oz n z
  | AY => indO ox n x * indA oy n y * indO oz n z
  | AZ => indO ox n x * indO oy n y * indA oz n z
  end.
(* minimal edges in the open face between the cubes of size n at o and at o + n d *)
Definition ind_face (n : Z) (o : cell) (d : axis) (a : axis) (p : cell) : Z :=
  let '(ox, oy, oz) := o in let '(x, y, z) := p in
  match d, a with
  | AX, AY => indE (ox + n) x * indA oy n y * indO oz n z
  | AX, AZ => indE (ox + n) x * indO oy n y * indA oz n z
  | AY, AX => indA ox n x * indE (oy + n) y * indO oz n z
  | AY, AZ => indO ox n x * indE (oy + n) y * indA oz n z
  | AZ, AX => indA ox n x * indO oy n y * indE (oz + n) z
  | AZ, AY => indO ox n x * indA oy n y * indE (oz + n) z
  | _, _ => 0
  end.
(* the n minimal edges of axis d on the segment from P to P + n d *)
Definition ind_edge (n : Z) (P : cell) (d : axis) (a : axis) (p : cell) : Z :=
  let '(ox, oy, oz) := P in let '(x, y, z) := p in
  match d, a with
  | AX, AX => indA ox n x * indE oy y * indE oz z
  | AY, AY => indE ox x * indA oy n y * indE oz z
  | AZ, AZ => indE ox x * indE oy y * indA oz n z
  | _, _ => 0
  end.

(* four cubes of size n in the node order of dcContourEdgeProc around the edge of axis a that starts at P
   (node 3 has its minimum corner at P) *)
Definition arr (a : axis) (P : cell) (n : Z) : list cell :=
  let b := unit (ax1 a) in let c := unit (ax2 a) in
  [csub P (cscale n (cadd b c)); csub P (cscale n b); csub P (cscale n c); P].

Lemma arr_1 a P : arr a P 1 = slots a P.
Proof. destruct P as [[x y] z]. unfold arr. destruct a; cbn; repeat (f_equal; try lia). Qed.

Lemma pow2_S l : pow2 (S l) = 2 * pow2 l.
Proof. unfold pow2. rewrite Nat2Z.inj_succ, Z.pow_succ_r by lia. reflexivity. Qed.
Lemma pow2_pos l : 1 <= pow2 l.
Proof. unfold pow2. pose proof (Z.pow_pos_nonneg 2 (Z.of_nat l)). lia. Qed.
Lemma pow2_0 : pow2 0 = 1.
Proof. reflexivity. Qed.

Lemma list4_inj {A} (a b c d a' b' c' d' : A) : [a; b; c; d] = [a'; b'; c'; d'] -> a = a' /\ b = b' /\ c = c'.
Proof. intros H. injection H as -> -> -> _. auto. Qed.

Lemma dir_cases dir : 0 <= dir < 3 -> dir = 0 \/ dir = 1 \/ dir = 2.
Proof. lia. Qed.

Local Arguments indA : simpl never.
Local Arguments indO : simpl never.
Local Arguments indE : simpl never.

(* evaluation of the tables at closed indices; the cells stay variables *)
Ltac tabs := cbv [nthZ nth Z.to_nat Pos.to_nat Pos.iter_op Init.Nat.add Z.add Pos.add Pos.succ Pos.add_carry map
                  dcFaceProcFaceMask dcFaceProcEdgeMask dcFaceProcOrders dcEdgeProcEdgeMask dcCellProcFaceMask dcCellProcEdgeMask].
Ltac child_offs :=
  change (child_off 0) with (0, 0, 0) in *; change (child_off 1) with (0, 0, 1) in *;
  change (child_off 2) with (0, 1, 0) in *; change (child_off 3) with (0, 1, 1) in *;
  change (child_off 4) with (1, 0, 0) in *; change (child_off 5) with (1, 0, 1) in *;
  change (child_off 6) with (1, 1, 0) in *; change (child_off 7) with (1, 1, 1) in *.
(* equality of explicit cells / lists of cells *)
Ltac red_cells := cbv [cadd csub cscale unit ax1 ax2 axis_of Z.eqb Pos.eqb].
Ltac red_cells_in H := cbv [cadd csub cscale unit ax1 ax2 axis_of Z.eqb Pos.eqb] in H.
Ltac cells_eq EC := rewrite ?EC; unfold arr; child_offs; red_cells; repeat (f_equal; try lia).
(* 2^l becomes a variable M >= 1; EC exposes it inside coff_l *)
Ltac abstract_pow2 l M Mpos EC :=
  pose proof (pow2_pos l) as Mpos; rewrite pow2_S in *;
  assert (EC : forall off i, coff_l l off i = cadd off (cscale (pow2 l) (child_off i))) by reflexivity;
  generalize dependent (pow2 l); intros M.
(* bring every offset argument of an indicator to ring normal form *)
Ltac norm_atoms :=
  repeat match goal with
  | |- context [indA ?o _ _] => progress ring_simplify o
  | |- context [indO ?o _ _] => progress ring_simplify o
  | |- context [indE ?o _] => progress ring_simplify o
  end.

(* spec of f 0 ++ (f 1 ++ ... ++ []) from the specs of the pieces *)
Ltac spec_build IH IF IE :=
  first [apply spec_nil | eapply spec_app; [first [eapply IH | eapply IF | eapply IE] | spec_build IH IF IE]].

(* ------------------------------------------------------------------ dcContourEdgeProc *)
Lemma spec_single a P : spec (ind_edge 1 P a) [mk a P].
Proof.
  split.
  - intros a' p. destruct (visit_eq_dec (mk a P) (mk a' p)) as [E|E].
    + rewrite <- E, cnt_single_same. apply mk_inj in E as [<- <-].
      destruct P as [[x y] z]. destruct a; cbn; rewrite indA_1, !indE_same; reflexivity.
    + rewrite cnt_single_other by exact E.
      destruct P as [[x y] z], p as [[x' y'] z']. destruct a, a'; cbn; try reflexivity; rewrite indA_1.
      all: destruct (Z.eq_dec x' x) as [->|Hx]; [|rewrite (indE_other x x') by exact Hx; ring].
      all: destruct (Z.eq_dec y' y) as [->|Hy]; [|rewrite (indE_other y y') by exact Hy; ring].
      all: destruct (Z.eq_dec z' z) as [->|Hz]; [|rewrite (indE_other z z') by exact Hz; ring].
      all: contradiction E; reflexivity.
  - intros v [<-|[]]. now exists a, P.
Qed.

Lemma evis_spec l : forall dir o0 o1 o2 P, 0 <= dir < 3 ->
  [o0; o1; o2; P] = arr (axis_of dir) P (pow2 l) ->
  spec (ind_edge (pow2 l) P (axis_of dir)) (evis l [o0; o1; o2; P] dir).
Proof.
  induction l as [|l IH]; intros dir o0 o1 o2 P Hd H.
  - cbn [evis]. rewrite H, pow2_0, arr_1.
    replace dir with (dirZ (axis_of dir)) at 2 by (destruct (dir_cases dir Hd) as [->|[->| ->]]; reflexivity).
    apply spec_single.
  - abstract_pow2 l M Mpos EC. intros IH H Mpos EC.
    destruct (dir_cases dir Hd) as [->|[->| ->]]; cbn [evis flat_map]; tabs.
    all: eapply spec_ext; [|eapply spec_app; [eapply IH|eapply spec_app; [eapply IH|apply spec_nil]]];
      try lia.
    all: try (destruct P as [[x y] z]; unfold arr in H; red_cells_in H; apply list4_inj in H as (-> & -> & ->); solve [cells_eq EC]).
    all: intros a p; destruct P as [[x y] z], p as [[px py] pz]; rewrite !EC; child_offs; red_cells;
      destruct a; cbv beta iota delta [ind_edge]; try reflexivity;
      norm_atoms; rewrite indA_split by lia; norm_atoms; ring.
Qed.

(* ------------------------------------------------------------------ dcContourFaceProc *)
Lemma fvis_spec l : forall dir o0 o1, 0 <= dir < 3 ->
  o1 = cadd o0 (cscale (pow2 l) (unit (axis_of dir))) ->
  spec (ind_face (pow2 l) o0 (axis_of dir)) (fvis l [o0; o1] dir).
Proof.
  induction l as [|l IH]; intros dir o0 o1 Hd H.
  - cbn [fvis]. eapply spec_ext; [|apply spec_nil]. intros a p. rewrite pow2_0.
    destruct o0 as [[x y] z], p as [[px py] pz].
    destruct (dir_cases dir Hd) as [->|[->| ->]]; destruct a; red_cells; cbv beta iota delta [ind_face]; rewrite ?indO_1; ring.
  - pose proof (evis_spec l) as IE. abstract_pow2 l M Mpos EC. intros IH H IE Mpos EC.
    destruct (dir_cases dir Hd) as [->|[->| ->]]; cbn [fvis flat_map]; tabs.
    all: eapply spec_ext;
      [|eapply spec_app;
         [eapply spec_app; [eapply IH|eapply spec_app; [eapply IH|eapply spec_app; [eapply IH|eapply spec_app; [eapply IH|apply spec_nil]]]]
         |eapply spec_app; [eapply IE|eapply spec_app; [eapply IE|eapply spec_app; [eapply IE|eapply spec_app; [eapply IE|apply spec_nil]]]]]];
      try lia.
    all: try (subst o1; destruct o0 as [[x y] z]; solve [cells_eq EC]).
    all: intros a p; subst o1; destruct o0 as [[x y] z], p as [[px py] pz]; rewrite !EC; child_offs; red_cells;
      destruct a; cbv beta iota delta [ind_face ind_edge]; try reflexivity;
      norm_atoms; rewrite ?indA_split, ?indO_split by lia; norm_atoms; ring.
Qed.

(* ------------------------------------------------------------------ contourCellProc *)
Lemma cvis_spec l : forall off, spec (ind_cell (pow2 l) off) (cvis l off).
Proof.
  induction l as [|l IH]; intros off.
  - cbn [cvis]. eapply spec_ext; [|apply spec_nil]. intros a p. rewrite pow2_0.
    destruct off as [[x y] z], p as [[px py] pz]. destruct a; cbv beta iota delta [ind_cell]; rewrite ?indO_1; ring.
  - pose proof (evis_spec l) as IE. pose proof (fvis_spec l) as IF. abstract_pow2 l M Mpos EC. intros IH IE IF Mpos EC.
    cbn [cvis flat_map]; tabs.
    eapply spec_ext; [|eapply spec_app; [spec_build IH IF IE|eapply spec_app; spec_build IH IF IE]]; try lia.
    all: try (destruct off as [[x y] z]; solve [cells_eq EC]).
    intros a p; destruct off as [[x y] z], p as [[px py] pz]; rewrite !EC; child_offs; red_cells;
      destruct a; cbv beta iota delta [ind_cell ind_face ind_edge];
      norm_atoms; rewrite ?indA_split, ?indO_split by lia; norm_atoms; ring.
Qed.

(* ------------------------------------------------------------------ the expected visits *)
Lemma axis_eq_dec (a b : axis) : {a = b} + {a <> b}.
Proof. decide equality. Defined.

Lemma cnt_expected_one n a p a0 p0 :
  cnt (if interior n a p then [mk a p] else []) (mk a0 p0) =
  if ceqb p p0 then (if interior n a p then if axis_eq_dec a a0 then 1 else 0 else 0) else 0.
Proof.
  destruct (interior n a p).
  - destruct (ceqb p p0) eqn:E.
    + apply ceqb_eq in E as ->. destruct (axis_eq_dec a a0) as [->|Ha]; [apply cnt_single_same|].
      apply cnt_single_other. intros H. apply mk_inj in H as [H _]. contradiction.
    + apply cnt_single_other. intros H. apply mk_inj in H as [_ H]. apply ceqb_neq in E. contradiction.
  - rewrite cnt_nil. destruct (ceqb p p0); reflexivity.
Qed.

Lemma expected_spec n : spec (fun a p => if interior n a p then 1 else 0) (expected_visits n).
Proof.
  split.
  - intros a0 p0.
    change (expected_visits n) with (flat_map (fun a => flat_map (fun p => if interior n a p then [mk a p] else []) (points n)) axes).
    unfold axes. rewrite cnt_flat_map. cbn [zsum fold_right].
    rewrite !cnt_flat_map.
    rewrite !(zsum_ext _ _ _ (fun p _ => cnt_expected_one n _ p a0 p0)).
    unfold points. rewrite !zsum_grid_single. fold (inlat n p0).
    assert (I : forall a, interior n a p0 = true -> inlat n p0 = true) by (intros a H; now apply interior_inlat in H).
    destruct a0; cbn [axis_eq_dec axis_rec axis_rect].
    all: destruct (inlat n p0) eqn:E; [destruct (interior n AX p0), (interior n AY p0), (interior n AZ p0); reflexivity|].
    + destruct (interior n AX p0) eqn:F; [pose proof (I _ F); congruence | reflexivity].
    + destruct (interior n AY p0) eqn:F; [pose proof (I _ F); congruence | reflexivity].
    + destruct (interior n AZ p0) eqn:F; [pose proof (I _ F); congruence | reflexivity].
  - intros v H. unfold expected_visits in H. apply in_flat_map in H as (a & _ & H).
    apply in_flat_map in H as (p & _ & H). destruct (interior n a p); [|destruct H].
    destruct H as [<-|[]]. now exists a, p.
Qed.

Lemma b2z_and3 (b1 b2 b3 : bool) :
  (if b1 then 1 else 0) * (if b2 then 1 else 0) * (if b3 then 1 else 0) = if b1 && b2 && b3 then 1 else 0.
Proof. destruct b1, b2, b3; reflexivity. Qed.
Lemma indO_0 n x : indO 0 n x = if (1 <=? x) && (x <? n) then 1 else 0.
Proof. unfold indO. cbn [Z.add]. destruct (Z.ltb_spec 0 x), (Z.leb_spec 1 x); try reflexivity; lia. Qed.
Lemma indA_0 n x : indA 0 n x = if (0 <=? x) && (x <? n) then 1 else 0.
Proof. reflexivity. Qed.

Lemma ind_cell_interior n a p : ind_cell n (0, 0, 0) a p = if interior (n, n, n) a p then 1 else 0.
Proof.
  destruct p as [[x y] z]. destruct a; cbn [ind_cell interior coord ax1 ax2]; rewrite !indO_0, !indA_0, b2z_and3.
  - reflexivity.
  - unfold interior; cbn [coord ax1 ax2].
    destruct ((0 <=? y) && (y <? n)), ((1 <=? x) && (x <? n)), ((1 <=? z) && (z <? n)); reflexivity.
  - unfold interior; cbn [coord ax1 ax2].
    destruct ((0 <=? z) && (z <? n)), ((1 <=? x) && (x <? n)), ((1 <=? y) && (y <? n)); reflexivity.
Qed.

(* ------------------------------------------------------------------ THE VISIT LEMMA, every depth *)
Theorem v1_visits d : Permutation (cvis d (0, 0, 0)) (expected_visits (cube d)).
Proof.
  eapply spec_perm; [|apply expected_spec].
  eapply spec_ext; [|apply cvis_spec]. intros a p. apply ind_cell_interior.
Qed.

(* ------------------------------------------------------------------ THE V1 TRAVERSAL, every depth *)
(* every octree depth d (2^d cells per axis), EVERY sign assignment: the index triangles of
   contourCellProc on the full-depth octree are the dual mesh, as a multiset *)
Theorem v1_traversal d s : Permutation (v1_mesh s d) (dual_mesh (cube d) s).
Proof. apply v1_traversal_if_visits, v1_visits. Qed.

Corollary v1_mesh_closed d s : boundary_outside (cube d) s -> closed (v1_mesh s d).
Proof.
  intros Hb. eapply closed_perm; [apply Permutation_sym, v1_traversal | now apply dual_mesh_closed].
Qed.
