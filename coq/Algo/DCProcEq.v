(* The Go code of the V1 octree traversal, translated from the current source (Generated/DCProc.v by
   harness/dctab/proc.go), equals the hand-written model of Algo/DCModel.v that the C19 theorems are
   about: process_edge, edge_proc, face_proc, cell_proc - and, more generally, the model over an octree
   with pruned nodes (Algo/DCPrune.v: edge_proc_p, face_proc_p, cell_proc_p; pr = nothing pruned gives
   the former).  The abstract octree handle is instantiated by the model's nodes (Some (level,
   minOffset) / None), the vertex index of a leaf by an arbitrary numbering enc of its cell. *)
From Coq Require Import List ZArith NArith Lia Bool.
From Sdfx Require Import Generated.DCTables.
From Sdfx Require Import Generated.DCProc.
From Sdfx Require Import Algo.DCProcLib.
From Sdfx Require Import Algo.DualGrid.
From Sdfx Require Import Algo.DCModel.
From Sdfx Require Import Algo.DCOctree.
From Sdfx Require Import Algo.DCPrune.
Import ListNotations.
Open Scope Z_scope.

Lemma land_shiftr_bit (m : N) (c : Z) : 0 <= c ->
  Z.land (Z.shiftr (Z.of_N m) c) 1 = Z.b2z (N.testbit m (Z.to_N c)).
Proof.
  intros H. change 1 with (Z.ones 1) at 1. rewrite Z.land_ones by lia.
  change (2 ^ 1) with 2. rewrite <- Z.bit0_mod, Z.shiftr_spec by lia.
  rewrite Z.add_0_l. now rewrite Z.testbit_of_N'.
Qed.

Section Eq.
  Variable lc : cell -> N.
  Variable enc : cell -> Z.
  Variable pr : nat -> cell -> bool.   (* nodes whose children Populate left nil *)

  Definition kindZ (nd : node) : Z := if is_internal lc nd then 0 else 2.
  Definition cornersZ (nd : node) : Z := Z.of_N (lc (node_cell nd)).
  Definition indexZ (nd : node) : Z := enc (node_cell nd).
  Definition childrenL (nd : node) : list node := map (child_p pr nd) [0; 1; 2; 3; 4; 5; 6; 7].
  Definition mops : dcOps :=
    {| o_ptr := node; o_pnil := None; o_is_nil := is_nil;
       o_fld_drawInfo_corners := cornersZ; o_fld_size := node_size; o_fld_drawInfo_index := indexZ;
       o_fld_kind := kindZ; o_fld_children := childrenL |}.

  Definition enc_tri (t : tri) : list Z := let '(a, b, c) := t in [enc a; enc b; enc c].
  Definition encl (ts : list tri) : list Z := flat_map enc_tri ts.
  Lemma encl_app l m : encl (l ++ m) = encl l ++ encl m.
  Proof. apply flat_map_app. Qed.

  Lemma dir_cases dir : 0 <= dir < 3 -> dir = 0 \/ dir = 1 \/ dir = 2.
  Proof. lia. Qed.

  Ltac redx := cbv beta iota zeta delta
    [gnth gupd upd_nat gslice gfor grange fold_left nth firstn skipn map seq Z.to_nat Z.of_nat Pos.to_nat Pos.of_succ_nat Pos.iter_op
     Init.Nat.add Z.add Z.sub Z.opp Z.pos_sub Z.succ_double Z.pred_double Z.double Pos.add Pos.succ Pos.add_carry Pos.pred_double
     nthZ fst snd
     dcProcessEdgeMask dcEdgevmap dcEdgeProcEdgeMask dcFaceProcFaceMask dcFaceProcEdgeMask dcFaceProcOrders dcCellProcFaceMask dcCellProcEdgeMask
     dcV1ProcessEdgeOrder edge_corners
     mops o_ptr o_pnil o_is_nil o_fld_drawInfo_corners o_fld_size o_fld_drawInfo_index o_fld_kind o_fld_children
     childrenL pe_step].

  (* counted loops with constant bounds: unroll, the body stays a beta redex applied to a concrete index *)
  Ltac unroll := unfold gfor;
    repeat match goal with |- context [grange ?a ?b] => let r := eval vm_compute in (grange a b) in change (grange a b) with r end;
    cbn [fold_left].

  Ltac split_ltb := repeat (redx; match goal with |- context [if Z.ltb ?a ?b then _ else _] => destruct (Z.ltb a b) end).
  Ltac bits := unfold cornersZ, bit; rewrite ?land_shiftr_bit by lia; cbn;
    repeat match goal with |- context [N.testbit ?m ?i] => generalize (N.testbit m i); intros [] end.

  Ltac refold := repeat match goal with
    | |- context [gen_dcContourProcessEdge ?o] => lazymatch o with mops => fail | _ => change o with mops end
    | |- context [gen_dcContourEdgeProc ?o] => lazymatch o with mops => fail | _ => change o with mops end
    | |- context [gen_dcContourFaceProc ?o] => lazymatch o with mops => fail | _ => change o with mops end
    | |- context [gen_contourCellProc ?o] => lazymatch o with mops => fail | _ => change o with mops end
    end.

  Lemma encl_nil : encl [] = [].
  Proof. reflexivity. Qed.
  Theorem gen_process_edge_eq n0 n1 n2 n3 dir buf : 0 <= dir < 3 ->
    gen_dcContourProcessEdge mops [n0; n1; n2; n3] dir buf = buf ++ encl (process_edge lc [n0; n1; n2; n3] dir).
  Proof.
    intros Hd. unfold gen_dcContourProcessEdge, process_edge.
    destruct (dir_cases dir Hd) as [->|[->| ->]]; unroll; split_ltb; redx; bits; cbn;
      rewrite ?app_nil_r, <- ?app_assoc; reflexivity.
  Qed.

  (* buf threaded through the calls = concatenation of what the calls emit *)
  Ltac finish IH :=
    rewrite ?gen_process_edge_eq by lia; rewrite ?IH by lia;
    rewrite ?encl_app, ?encl_nil, ?app_nil_r, ?app_assoc; reflexivity.

  (* ---------------------------------------------------------------- dcContourEdgeProc *)
  Lemma kind_internal nd : (kindZ nd =? 0) = is_internal lc nd.
  Proof. unfold kindZ. destruct (is_internal lc nd); reflexivity. Qed.
  Lemma kind_leaf nd : (kindZ nd =? 2) = negb (is_internal lc nd).
  Proof. unfold kindZ. destruct (is_internal lc nd); reflexivity. Qed.
  Lemma kind_pseudo nd : (kindZ nd =? 1) = false.
  Proof. unfold kindZ. destruct (is_internal lc nd); reflexivity. Qed.

  (* the generated functions spend one unit of fuel per call, the model one per recursion level *)
  Definition E (g : nat) (nd : list node) (dir : Z) : list tri :=
    match g with O => [] | S f => edge_proc_p lc pr f nd dir end.
  Lemma edge_proc_unfold f nd dir :
    edge_proc_p lc pr f nd dir =
    if existsb is_nil nd then []
    else if forallb (fun x => negb (is_internal lc x)) nd then process_edge lc nd dir
    else flat_map (fun i => let row := nthZ (nthZ dcEdgeProcEdgeMask dir []) i [] in
           E f (map (fun j => sub_p lc pr (nthZ nd j None) (nthZ row j 0)) [0; 1; 2; 3]) (nthZ row 4 0)) [0; 1].
  Proof. destruct f; reflexivity. Qed.

  Theorem gen_edge_proc_eq g : forall n0 n1 n2 n3 dir buf, 0 <= dir < 3 ->
    gen_dcContourEdgeProc mops g [n0; n1; n2; n3] dir buf = buf ++ encl (E g [n0; n1; n2; n3] dir).
  Proof.
    induction g as [|f IH]; intros n0 n1 n2 n3 dir buf Hd.
    - cbn. now rewrite app_nil_r.
    - cbn [gen_dcContourEdgeProc E]. rewrite edge_proc_unfold.
      destruct (dir_cases dir Hd) as [->|[->| ->]]; unroll; redx; rewrite ?kind_internal;
        cbn [forallb existsb flat_map map]; unfold sub_p; refold;
        (destruct (is_nil n0), (is_nil n1), (is_nil n2), (is_nil n3); cbn [orb]; try (now rewrite app_nil_r));
        destruct (is_internal lc n0), (is_internal lc n1), (is_internal lc n2), (is_internal lc n3);
        cbn [negb andb orb]; redx; refold; finish IH.
  Qed.

  (* ---------------------------------------------------------------- dcContourFaceProc *)
  Definition F (g : nat) (nd : list node) (dir : Z) : list tri :=
    match g with O => [] | S f => face_proc_p lc pr f nd dir end.
  Lemma face_proc_unfold f nd dir :
    face_proc_p lc pr f nd dir =
    if existsb is_nil nd then []
    else if existsb (is_internal lc) nd then
      flat_map (fun i => let row := nthZ (nthZ dcFaceProcFaceMask dir []) i [] in
         F f (map (fun j => sub_p lc pr (nthZ nd j None) (nthZ row j 0)) [0; 1]) (nthZ row 2 0)) [0; 1; 2; 3]
      ++ flat_map (fun i => let row := nthZ (nthZ dcFaceProcEdgeMask dir []) i [] in
           let order := nthZ dcFaceProcOrders (nthZ row 0 0) [] in
           E f (map (fun j => sub_p lc pr (nthZ nd (nthZ order j 0) None) (nthZ row (1 + j) 0)) [0; 1; 2; 3]) (nthZ row 5 0)) [0; 1; 2; 3]
    else [].
  Proof. destruct f; reflexivity. Qed.

  Ltac finish2 IH :=
    rewrite ?IH by lia; rewrite ?gen_edge_proc_eq by lia;
    rewrite ?encl_app, ?encl_nil, ?app_nil_r, ?app_assoc; reflexivity.

  Theorem gen_face_proc_eq g : forall n0 n1 dir buf, 0 <= dir < 3 ->
    gen_dcContourFaceProc mops g [n0; n1] dir buf = buf ++ encl (F g [n0; n1] dir).
  Proof.
    induction g as [|f IH]; intros n0 n1 dir buf Hd.
    - cbn. now rewrite app_nil_r.
    - cbn [gen_dcContourFaceProc F]. rewrite face_proc_unfold.
      destruct (dir_cases dir Hd) as [->|[->| ->]]; unroll; redx;
        rewrite ?kind_internal, ?kind_leaf, ?kind_pseudo, ?orb_false_r;
        cbn [forallb existsb flat_map map]; unfold sub_p; refold;
        (destruct (is_nil n0), (is_nil n1); cbn [orb]; try (now rewrite app_nil_r));
        destruct (is_internal lc n0), (is_internal lc n1);
        cbn [negb andb orb]; redx; refold; finish2 IH.
  Qed.

  (* ---------------------------------------------------------------- contourCellProc *)
  Definition C (g : nat) (nd : node) : list tri :=
    match g with O => [] | S f => cell_proc_p lc pr f nd end.
  Lemma cell_proc_unfold f nd :
    cell_proc_p lc pr f nd =
    if is_nil nd then []
    else if is_internal lc nd then
      flat_map (fun i => C f (child_p pr nd i)) [0; 1; 2; 3; 4; 5; 6; 7]
      ++ flat_map (fun i => let row := nthZ dcCellProcFaceMask i [] in
           F f [child_p pr nd (nthZ row 0 0); child_p pr nd (nthZ row 1 0)] (nthZ row 2 0)) [0; 1; 2; 3; 4; 5; 6; 7; 8; 9; 10; 11]
      ++ flat_map (fun i => let row := nthZ dcCellProcEdgeMask i [] in
           E f (map (fun j => child_p pr nd (nthZ row j 0)) [0; 1; 2; 3]) (nthZ row 4 0)) [0; 1; 2; 3; 4; 5]
    else [].
  Proof. destruct f; reflexivity. Qed.

  Ltac finish3 IH :=
    rewrite ?IH; rewrite ?gen_face_proc_eq by lia; rewrite ?gen_edge_proc_eq by lia;
    rewrite ?encl_app, ?encl_nil, ?app_nil_r, ?app_assoc; reflexivity.

  Theorem gen_cell_proc_eq g : forall nd buf,
    gen_contourCellProc mops g nd buf = buf ++ encl (C g nd).
  Proof.
    induction g as [|f IH]; intros nd buf.
    - cbn. now rewrite app_nil_r.
    - cbn [gen_contourCellProc C]. rewrite cell_proc_unfold.
      unroll; redx; rewrite ?kind_internal; cbn [flat_map map]; refold.
      destruct (is_nil nd); [now rewrite app_nil_r|].
      destruct (is_internal lc nd); [|now rewrite app_nil_r].
      redx; refold. finish3 IH.
  Qed.
End Eq.

(* ------------------------------------------------------------------ against the model without pruning *)
Definition pr0 (l : nat) (off : cell) : bool := false.
Lemma pr0_dead lc l off : pr0 l off = true -> deadb lc l off = true.
Proof. discriminate. Qed.

(* the generated code on the full-depth octree (nothing pruned) and the model of Algo/DCModel.v; the fuel
   is written out: one more unit on the generated side *)
Corollary gen_edge_proc_S lc enc f (n0 n1 n2 n3 : node) dir buf : 0 <= dir < 3 ->
  gen_dcContourEdgeProc (mops lc enc pr0) (S f) [n0; n1; n2; n3] dir buf = buf ++ encl enc (edge_proc lc f [n0; n1; n2; n3] dir).
Proof.
  intros Hd. rewrite (gen_edge_proc_eq lc enc pr0 (S f)) by exact Hd. unfold E.
  assert (D : dir3 dir) by (unfold dir3; cbn [In]; lia).
  apply f_equal. apply f_equal. exact (edge_prune lc pr0 (pr0_dead lc) f n0 n1 n2 n3 n0 n1 n2 n3 dir D (Rel_refl _ _) (Rel_refl _ _) (Rel_refl _ _) (Rel_refl _ _)).
Qed.
Corollary gen_face_proc_S lc enc f (n0 n1 : node) dir buf : 0 <= dir < 3 ->
  gen_dcContourFaceProc (mops lc enc pr0) (S f) [n0; n1] dir buf = buf ++ encl enc (face_proc lc f [n0; n1] dir).
Proof.
  intros Hd. rewrite (gen_face_proc_eq lc enc pr0 (S f)) by exact Hd. unfold F.
  assert (D : dir3 dir) by (unfold dir3; cbn [In]; lia).
  apply f_equal. apply f_equal. exact (face_prune lc pr0 (pr0_dead lc) f n0 n1 n0 n1 dir D (Rel_refl _ _) (Rel_refl _ _)).
Qed.
Corollary gen_cell_proc_S lc enc f (nd : node) buf :
  gen_contourCellProc (mops lc enc pr0) (S f) nd buf = buf ++ encl enc (cell_proc lc f nd).
Proof.
  rewrite (gen_cell_proc_eq lc enc pr0 (S f)). unfold C. apply f_equal. apply f_equal. exact (prune_cell lc pr0 (pr0_dead lc) f nd).
Qed.

(* GenerateMesh's call root.contourCellProc(indexBuffer) with an empty buffer on the octree of depth d in which
   the nodes selected by pr have no children, every one of them dead (no sign change below it): the
   translated code emits the index triangles of the model on the FULL octree, vertex by vertex, for any
   numbering enc of the leaf cells and any fuel that exceeds the depth *)
Theorem gen_v1_mesh lc enc pr d fuel : (forall l off, pr l off = true -> deadb lc l off = true) -> (d <= fuel)%nat ->
  gen_contourCellProc (mops lc enc pr) (S fuel) (Some (d, (0, 0, 0))) [] = encl enc (v1_mesh_lc lc d).
Proof.
  intros Hp H. rewrite gen_cell_proc_eq. unfold C. cbn [app]. apply f_equal. etransitivity; [exact (prune_cell lc pr Hp fuel (Some (d, (0, 0, 0))))|].
  rewrite v1_mesh_is_visits. now rewrite cell_proc_vis.
Qed.

(* the fuel written out, against the model over a pruned octree (any pr) *)
Corollary gen_edge_proc_pS lc enc pr f (n0 n1 n2 n3 : node) dir buf : 0 <= dir < 3 ->
  gen_dcContourEdgeProc (mops lc enc pr) (S f) [n0; n1; n2; n3] dir buf = buf ++ encl enc (edge_proc_p lc pr f [n0; n1; n2; n3] dir).
Proof. apply (gen_edge_proc_eq lc enc pr (S f)). Qed.
Corollary gen_face_proc_pS lc enc pr f (n0 n1 : node) dir buf : 0 <= dir < 3 ->
  gen_dcContourFaceProc (mops lc enc pr) (S f) [n0; n1] dir buf = buf ++ encl enc (face_proc_p lc pr f [n0; n1] dir).
Proof. apply (gen_face_proc_eq lc enc pr (S f)). Qed.
Corollary gen_cell_proc_pS lc enc pr f (nd : node) buf :
  gen_contourCellProc (mops lc enc pr) (S f) nd buf = buf ++ encl enc (cell_proc_p lc pr f nd).
Proof. apply (gen_cell_proc_eq lc enc pr (S f)). Qed.

(* Render on a volume of cc cells per axis inside the cubic octree of 2^d cells per axis, the field outside
   beyond the volume: the octree pruned by Populate's filter gives the index triangles of the full octree *)
Corollary gen_v1_mesh_populate s enc d cc fuel :
  (let '(cx, cy, cz) := cc in 0 <= cx <= pow2 d /\ 0 <= cy <= pow2 d /\ 0 <= cz <= pow2 d) ->
  (forall x y z, (let '(cx, cy, cz) := cc in x > cx \/ y > cy \/ z > cz) -> s (x, y, z) = false) ->
  (d <= fuel)%nat ->
  gen_contourCellProc (mops (leaf_corners s) enc (populate_pruned (pow2 d) cc)) (S fuel) (Some (d, (0, 0, 0))) [] =
  encl enc (v1_mesh s d).
Proof.
  intros Hc Ho Hf. apply gen_v1_mesh; [|exact Hf].
  intros l off. now apply populate_pruned_dead.
Qed.
