(* Populate's out-of-volume filter (dc3v1.go): a node of size >= 2 that lies beyond the sampled volume
   returns before it allocates children, so it stays an Internal node whose eight children are nil.
   Model: the traversal of Algo/DCModel.v over an octree in which the children of the nodes selected
   by a predicate pr are nil (cell_proc_p / face_proc_p / edge_proc_p; pr = nothing gives the model
   back), and the theorem that such pruning changes nothing, triangle by triangle, as long as every
   pruned node is dead: no size-1 cell below it has a sign change.  populate_pruned is the predicate of
   the Go code; its nodes are dead when the field is outside (>= 0) beyond the sampled volume. *)
From Coq Require Import List ZArith NArith Lia Bool.
From Sdfx Require Import Generated.DCTables.
From Sdfx Require Import Algo.DualGrid.
From Sdfx Require Import Algo.DCModel.
From Sdfx Require Import Algo.DCOctree.
Import ListNotations.
Open Scope Z_scope.

Section Prune.
  Variable lc : cell -> N.
  Variable pr : nat -> cell -> bool.   (* Populate returned early at the node of level l at off *)

  Definition child_p (nd : node) (i : Z) : node :=
    match nd with
    | Some (S l, off) => if pr (S l) off then None else Some (l, cadd off (cscale (pow2 l) (child_off i)))
    | _ => None
    end.
  Definition sub_p (nd : node) (i : Z) : node := if is_internal lc nd then child_p nd i else nd.

  Fixpoint edge_proc_p (fuel : nat) (nd : list node) (dir : Z) : list tri :=
    if existsb is_nil nd then []
    else if forallb (fun x => negb (is_internal lc x)) nd then process_edge lc nd dir
    else match fuel with
         | O => []
         | S f =>
             flat_map (fun i =>
               let row := nthZ (nthZ dcEdgeProcEdgeMask dir []) i [] in
               edge_proc_p f (map (fun j => sub_p (nthZ nd j None) (nthZ row j 0)) [0; 1; 2; 3]) (nthZ row 4 0)) [0; 1]
         end.

  Fixpoint face_proc_p (fuel : nat) (nd : list node) (dir : Z) : list tri :=
    if existsb is_nil nd then []
    else if existsb (is_internal lc) nd then
      match fuel with
      | O => []
      | S f =>
          flat_map (fun i =>
            let row := nthZ (nthZ dcFaceProcFaceMask dir []) i [] in
            face_proc_p f (map (fun j => sub_p (nthZ nd j None) (nthZ row j 0)) [0; 1]) (nthZ row 2 0)) [0; 1; 2; 3]
          ++
          flat_map (fun i =>
            let row := nthZ (nthZ dcFaceProcEdgeMask dir []) i [] in
            let order := nthZ dcFaceProcOrders (nthZ row 0 0) [] in
            edge_proc_p f (map (fun j => sub_p (nthZ nd (nthZ order j 0) None) (nthZ row (1 + j) 0)) [0; 1; 2; 3]) (nthZ row 5 0))
            [0; 1; 2; 3]
      end
    else [].

  Fixpoint cell_proc_p (fuel : nat) (nd : node) : list tri :=
    if is_nil nd then []
    else if is_internal lc nd then
      match fuel with
      | O => []
      | S f =>
          flat_map (fun i => cell_proc_p f (child_p nd i)) [0; 1; 2; 3; 4; 5; 6; 7]
          ++ flat_map (fun i => let row := nthZ dcCellProcFaceMask i [] in
                        face_proc_p f [child_p nd (nthZ row 0 0); child_p nd (nthZ row 1 0)] (nthZ row 2 0))
                      [0; 1; 2; 3; 4; 5; 6; 7; 8; 9; 10; 11]
          ++ flat_map (fun i => let row := nthZ dcCellProcEdgeMask i [] in
                        edge_proc_p f (map (fun j => child_p nd (nthZ row j 0)) [0; 1; 2; 3]) (nthZ row 4 0))
                      [0; 1; 2; 3; 4; 5]
      end
    else [].

  (* ---------------------------------------------------------------- dead nodes *)
  (* no size-1 cell below the node of level l at off has a sign change *)
  Fixpoint deadb (l : nat) (off : cell) : bool :=
    match l with
    | O => negb (nonempty lc off)
    | S l' => forallb (fun i => deadb l' (coff_l l' off i)) [0; 1; 2; 3; 4; 5; 6; 7]
    end.
  Definition dead (nd : node) : Prop := match nd with Some (l, off) => deadb l off = true | None => True end.

  Definition idx8 (i : Z) : Prop := In i [0; 1; 2; 3; 4; 5; 6; 7].

  Lemma dead_child nd i : idx8 i -> dead nd -> dead (child nd i).
  Proof.
    intros Hi H. destruct nd as [[[|l] off]|]; cbn [child dead]; trivial.
    cbn [dead deadb] in H. rewrite forallb_forall in H. apply (H i Hi).
  Qed.
  Lemma dead_sub nd i : idx8 i -> dead nd -> dead (sub lc nd i).
  Proof. intros Hi H. unfold sub. destruct (is_internal lc nd); [now apply dead_child | exact H]. Qed.
  (* a dead node that is present is Internal *)
  Lemma dead_internal nd : dead nd -> is_nil nd = false -> is_internal lc nd = true.
  Proof.
    destruct nd as [[[|l] off]|]; cbn [dead deadb is_nil is_internal node_kind]; try discriminate; try reflexivity.
    intros H _. apply negb_true_iff in H. now rewrite H.
  Qed.

  Ltac tabs := cbv [nthZ nth Z.to_nat Pos.to_nat Pos.iter_op Init.Nat.add Z.add Pos.add Pos.succ Pos.add_carry map
                    dcFaceProcFaceMask dcFaceProcEdgeMask dcFaceProcOrders dcEdgeProcEdgeMask dcCellProcFaceMask dcCellProcEdgeMask].
  Definition dir3 (dir : Z) : Prop := In dir [0; 1; 2].
  Ltac idx := solve [unfold idx8, dir3; cbn; tauto].
  Ltac dead_one := first [apply dead_sub; [idx | assumption] | apply dead_child; [idx | assumption]].
  Ltac dead_disj := first [solve [dead_one] | left; solve [dead_one] | right; dead_disj].
  Ltac dirs Hd := destruct Hd as [<-|[<-|[<-|[]]]].
  Ltac each_in Hi := repeat (destruct Hi as [<-|Hi]); [..|destruct Hi].

  (* every call of the traversal that involves a dead node emits nothing *)
  Lemma edge_dead f : forall n0 n1 n2 n3 dir, dir3 dir -> dead n0 \/ dead n1 \/ dead n2 \/ dead n3 ->
    edge_proc lc f [n0; n1; n2; n3] dir = [].
  Proof.
    induction f as [|f IH]; intros n0 n1 n2 n3 dir Hd H; cbn [edge_proc];
      (destruct (existsb is_nil [n0; n1; n2; n3]) eqn:N; [reflexivity|]);
      cbn [existsb] in N; rewrite !orb_false_iff in N; destruct N as (N0 & N1 & N2 & N3 & _);
      assert (I : forallb (fun x => negb (is_internal lc x)) [n0; n1; n2; n3] = false)
        by (cbn [forallb]; destruct H as [H|[H|[H|H]]];
            [rewrite (dead_internal n0 H N0) | rewrite (dead_internal n1 H N1) | rewrite (dead_internal n2 H N2) | rewrite (dead_internal n3 H N3)];
            cbn [negb andb]; rewrite ?andb_false_r; reflexivity);
      rewrite I; [reflexivity|].
    apply flat_map_nil. intros i Hi. dirs Hd; each_in Hi; tabs; (apply IH; [idx|]);
      destruct H as [H|[H|[H|H]]]; dead_disj.
  Qed.

  Lemma face_dead f : forall n0 n1 dir, dir3 dir -> dead n0 \/ dead n1 -> face_proc lc f [n0; n1] dir = [].
  Proof.
    induction f as [|f IH]; intros n0 n1 dir Hd H; cbn [face_proc];
      (destruct (existsb is_nil [n0; n1]); [reflexivity|]);
      (destruct (existsb (is_internal lc) [n0; n1]); [|reflexivity]); [reflexivity|].
    rewrite !flat_map_nil; [reflexivity| |].
    - intros i Hi. dirs Hd; each_in Hi; tabs; (apply edge_dead; [idx|]); destruct H as [H|H]; dead_disj.
    - intros i Hi. dirs Hd; each_in Hi; tabs; (apply IH; [idx|]); destruct H as [H|H]; dead_disj.
  Qed.

  Lemma cell_dead f : forall nd, dead nd -> cell_proc lc f nd = [].
  Proof.
    induction f as [|f IH]; intros nd H; cbn [cell_proc];
      (destruct (is_nil nd); [reflexivity|]); (destruct (is_internal lc nd); [|reflexivity]); [reflexivity|].
    rewrite !flat_map_nil; [reflexivity| | |].
    - intros i Hi. each_in Hi; tabs; (apply edge_dead; [idx|]); dead_disj.
    - intros i Hi. each_in Hi; tabs; (apply face_dead; [idx|]); dead_disj.
    - intros i Hi. apply IH. now apply dead_child.
  Qed.

  (* ---------------------------------------------------------------- pruning dead nodes changes nothing *)
  Hypothesis pr_dead : forall l off, pr l off = true -> deadb l off = true.

  (* a node of the pruned octree against the node of the full octree at the same place *)
  Definition Rel (a' a : node) : Prop := a' = a \/ (a' = None /\ dead a).
  Lemma Rel_refl a : Rel a a.
  Proof. now left. Qed.
  Lemma child_Rel nd i : idx8 i -> Rel (child_p nd i) (child nd i).
  Proof.
    intros Hi. destruct nd as [[[|l] off]|]; cbn [child_p child]; try apply Rel_refl.
    destruct (pr (S l) off) eqn:P; [|apply Rel_refl].
    right. split; [reflexivity|]. apply (dead_child (Some (S l, off)) i Hi). cbn [dead]. now apply pr_dead.
  Qed.
  Lemma sub_Rel nd i : idx8 i -> Rel (sub_p nd i) (sub lc nd i).
  Proof. intros Hi. unfold sub_p, sub. destruct (is_internal lc nd); [now apply child_Rel | apply Rel_refl]. Qed.

  Lemma edge_proc_p_nil f nd dir : existsb is_nil nd = true -> edge_proc_p f nd dir = [].
  Proof. intros H. destruct f; cbn [edge_proc_p]; now rewrite H. Qed.
  Lemma face_proc_p_nil f nd dir : existsb is_nil nd = true -> face_proc_p f nd dir = [].
  Proof. intros H. destruct f; cbn [face_proc_p]; now rewrite H. Qed.
  Lemma cell_proc_p_nil f : cell_proc_p f None = [].
  Proof. destruct f; reflexivity. Qed.

  Ltac rs := first [apply sub_Rel; idx | apply child_Rel; idx].

  Lemma edge_prune f : forall a0' a1' a2' a3' a0 a1 a2 a3 dir, dir3 dir ->
    Rel a0' a0 -> Rel a1' a1 -> Rel a2' a2 -> Rel a3' a3 ->
    edge_proc_p f [a0'; a1'; a2'; a3'] dir = edge_proc lc f [a0; a1; a2; a3] dir.
  Proof.
    induction f as [|f IH]; intros a0' a1' a2' a3' a0 a1 a2 a3 dir Hd Rl0 Rl1 Rl2 Rl3.
    all: assert (Hc : (a0' = a0 /\ a1' = a1 /\ a2' = a2 /\ a3' = a3) \/
                  (existsb is_nil [a0'; a1'; a2'; a3'] = true /\ (dead a0 \/ dead a1 \/ dead a2 \/ dead a3)))
        by (destruct Rl0 as [->|[-> D0]], Rl1 as [->|[-> D1]], Rl2 as [->|[-> D2]], Rl3 as [->|[-> D3]];
            first [left; repeat split; reflexivity | right; split; [cbn [existsb is_nil]; rewrite ?orb_true_r; reflexivity | tauto]]).
    all: destruct Hc as [(-> & -> & -> & ->)|[N D]]; [|rewrite edge_proc_p_nil by exact N; symmetry; now apply edge_dead].
    - reflexivity.
    - cbn [edge_proc_p edge_proc].
      destruct (existsb is_nil [a0; a1; a2; a3]); [reflexivity|].
      destruct (forallb (fun x => negb (is_internal lc x)) [a0; a1; a2; a3]); [reflexivity|].
      apply flat_map_ext_in. intros i Hi. dirs Hd; each_in Hi; tabs; (apply IH; [idx|..]); rs.
  Qed.

  Lemma face_prune f : forall a0' a1' a0 a1 dir, dir3 dir -> Rel a0' a0 -> Rel a1' a1 ->
    face_proc_p f [a0'; a1'] dir = face_proc lc f [a0; a1] dir.
  Proof.
    induction f as [|f IH]; intros a0' a1' a0 a1 dir Hd Rl0 Rl1.
    all: assert (Hc : (a0' = a0 /\ a1' = a1) \/ (existsb is_nil [a0'; a1'] = true /\ (dead a0 \/ dead a1)))
        by (destruct Rl0 as [->|[-> D0]], Rl1 as [->|[-> D1]];
            first [left; repeat split; reflexivity | right; split; [cbn [existsb is_nil]; rewrite ?orb_true_r; reflexivity | tauto]]).
    all: destruct Hc as [(-> & ->)|[N D]]; [|rewrite face_proc_p_nil by exact N; symmetry; now apply face_dead].
    - reflexivity.
    - cbn [face_proc_p face_proc].
      destruct (existsb is_nil [a0; a1]); [reflexivity|].
      destruct (existsb (is_internal lc) [a0; a1]); [|reflexivity].
      f_equal; apply flat_map_ext_in; intros i Hi; dirs Hd; each_in Hi; tabs.
      all: first [apply IH; [idx|..]; rs | apply edge_prune; [idx|..]; rs].
  Qed.

  Lemma cell_prune f : forall a' a, Rel a' a -> cell_proc_p f a' = cell_proc lc f a.
  Proof.
    induction f as [|f IH]; intros a' a [->|[-> D]]; try (rewrite cell_proc_p_nil; symmetry; now apply cell_dead).
    - reflexivity.
    - cbn [cell_proc_p cell_proc].
      destruct (is_nil a); [reflexivity|]. destruct (is_internal lc a); [|reflexivity].
      f_equal; [|f_equal]; apply flat_map_ext_in; intros i Hi.
      + apply IH. now apply child_Rel.
      + each_in Hi; tabs; (apply face_prune; [idx|..]); rs.
      + each_in Hi; tabs; (apply edge_prune; [idx|..]); rs.
  Qed.

  (* THE PRUNING THEOREM: triangle by triangle, in order *)
  Theorem prune_cell f nd : cell_proc_p f nd = cell_proc lc f nd.
  Proof. apply cell_prune, Rel_refl. Qed.
End Prune.

(* ------------------------------------------------------------------ the filter of Populate *)
(* `minOffset.X > (meshSize+cellCounts.X)/2 || maxOffset.X < (meshSize-cellCounts.X)/2 || ...` with
   maxOffset = minOffset + meshSize (the size of the ROOT, also in child nodes), for a node at off; the
   filter does not look at the node's own size.  Every node of the octree has a non-negative offset,
   which is written into the predicate (there it is the Go condition). *)
Definition populate_pruned (m : Z) (cc : cell) (l : nat) (off : cell) : bool :=
  let '(x, y, z) := off in let '(cx, cy, cz) := cc in
  (0 <=? x) && (0 <=? y) && (0 <=? z) &&
  ((x >? Z.quot (m + cx) 2) || (x + m <? Z.quot (m - cx) 2) ||
   (y >? Z.quot (m + cy) 2) || (y + m <? Z.quot (m - cy) 2) ||
   (z >? Z.quot (m + cz) 2) || (z + m <? Z.quot (m - cz) 2)).

Lemma pow2_nonneg l : 0 <= pow2 l.
Proof. unfold pow2. apply Z.pow_nonneg. lia. Qed.

Ltac child_offs :=
  change (child_off 0) with (0, 0, 0) in *; change (child_off 1) with (0, 0, 1) in *;
  change (child_off 2) with (0, 1, 0) in *; change (child_off 3) with (0, 1, 1) in *;
  change (child_off 4) with (1, 0, 0) in *; change (child_off 5) with (1, 0, 1) in *;
  change (child_off 6) with (1, 1, 0) in *; change (child_off 7) with (1, 1, 1) in *.

Section PopulateDead.
  Variable s : cell -> bool.
  Variable m : Z.
  Variable cc : cell.
  (* the octree of size m covers the cc lattice, and the field is outside beyond it *)
  Hypothesis cc_le : let '(cx, cy, cz) := cc in 0 <= cx <= m /\ 0 <= cy <= m /\ 0 <= cz <= m.
  Hypothesis outside : forall x y z, (let '(cx, cy, cz) := cc in x > cx \/ y > cy \/ z > cz) -> s (x, y, z) = false.

  Definition beyond (off : cell) : Prop :=
    let '(x, y, z) := off in let '(cx, cy, cz) := cc in x > cx \/ y > cy \/ z > cz.

  Lemma dead_beyond l : forall off, beyond off -> deadb (leaf_corners s) l off = true.
  Proof.
    induction l as [|l IH]; intros [[x y] z] H; cbn [deadb].
    - rewrite nonempty_eq, negb_involutive. unfold beyond in H. destruct cc as [[cx cy] cz].
      rewrite !outside by lia. reflexivity.
    - apply forallb_forall. intros i Hi. apply IH.
      pose proof (pow2_nonneg l) as P.
      unfold beyond in *. destruct cc as [[cx cy] cz].
      repeat (destruct Hi as [<-|Hi]; [unfold coff_l; child_offs; cbn [cadd cscale]; lia|]). destruct Hi.
  Qed.

  Theorem populate_pruned_dead l off : populate_pruned m cc l off = true -> deadb (leaf_corners s) l off = true.
  Proof.
    intros H. apply dead_beyond. destruct off as [[x y] z]. unfold populate_pruned in H. unfold beyond.
    destruct cc as [[cx cy] cz]. destruct cc_le as (Hx & Hy & Hz).
    rewrite !andb_true_iff, !orb_true_iff, !Z.leb_le, !Z.gtb_lt, !Z.ltb_lt in H.
    destruct H as [[[X0 Y0] Z0] H].
    pose proof (Z.quot_pos (m + cx) 2). pose proof (Z.quot_pos (m + cy) 2). pose proof (Z.quot_pos (m + cz) 2).
    assert (Q : forall c, 0 <= c <= m -> c <= Z.quot (m + c) 2 /\ Z.quot (m - c) 2 <= m).
    { intros c Hc. rewrite !Z.quot_div_nonneg by lia. split.
      - apply Z.div_le_lower_bound; lia.
      - apply Z.div_le_upper_bound; lia. }
    pose proof (Q cx Hx). pose proof (Q cy Hy). pose proof (Q cz Hz). lia.
  Qed.
End PopulateDead.

(* ------------------------------------------------------------------ correspondence on non-cubic volumes *)
(* V1 case: id, depth d of the cubic octree, cell counts cc of the rendered volume per axis (powers of
   two, the largest is 2^d), the lattice the sign bits are given on (cc itself, or the whole cube: then the
   padding beyond the volume carries signs too and pruned nodes need not be dead), sign bits, triangles
   observed.  The model is the traversal over the octree pruned by Populate's filter. *)
Definition case1p := (N * nat * cell * cell * N * list tri)%type.
Definition v1_mesh_pruned (lc : cell -> N) (d : nat) (cc : cell) : list tri :=
  cell_proc_p lc (populate_pruned (pow2 d) cc) (S d) (Some (d, (0, 0, 0))).
Definition mismatches1p (cs : list case1p) : list N :=
  map (fun c : case1p => let '(id, _, _, _, _, _) := c in id)
      (filter (fun c : case1p => let '(id, d, cc, lat, bits, obs) := c in
         negb (tris_eqb (v1_mesh_pruned (memo_cells (cube d) (leaf_corners (grid_sign lat bits))) d cc) obs)) cs).
