(* Cases evaluated by coqc for the reified stratum of C01: a dumped object is one term over exact
   rationals (every float64 parameter converted without loss).  Per case
     (a) the term is mapped to primitive floats and interpreted by the model: its box and its
         values at the sample points must reproduce BoundingBox() / Evaluate() of the Go object
         (within the absolute tolerance of the case: some constructor arguments are recovered from
         the private fields with rounding, e.g. an inverted matrix) - a wrong dump is caught here;
     (b) the checker wfb2/wfb3 (Sdf/ReifyCheck.v) runs on the rational term; its verdict must be the
         one the harness predicted (and recorded in the evidence). *)
From Coq Require Import List ZArith NArith QArith Floats Bool.
From Sdfx Require Import Num.Ops Num.FInst Num.QInst Num.GoMath Geo.Vec Geo.Box Geo.Mat Sdf.Union2 Sdf.Shape
  Sdf.Poly Sdf.Prim2X Sdf.Reify Sdf.ReifyCheck Sdf.ReifyBuild.
Import ListNotations.

(* m * 2^e as an exact rational *)
Definition qd (m e : Z) : Q :=
  if (0 <=? e)%Z then inject_Z (m * 2 ^ e) else Qmake m (Z.to_pos (2 ^ (- e))).

(* the float64 with the value of a dyadic rational whose odd part has at most 53 bits (exact) *)
Definition Q2F (q : Q) : float :=
  let n := Qnum q in
  if (n =? 0)%Z then 0%float
  else
    let a := Z.abs n in
    let tz := Z.log2 (Z.land a (- a)) in
    let m := Z.shiftr a tz in
    let f := Z.ldexp (GoMath.of_Z m) (tz - Z.log2 (Zpos (Qden q))) in
    if (n <? 0)%Z then (- f)%float else f.

Definition fl2 : QS2 -> RShape2 FOps := @rmap2 QOps FOps Q2F.
Definition fl3 : QS3 -> RShape3 FOps := @rmap3 QOps FOps Q2F.

(* constructors at Q, short names for the generated files *)
Definition qv2 (x y : Q) : V2 QOps := mkV2 x y.
Definition qv3 (x y z : Q) : V3 QOps := mkV3 x y z.
Definition qb2 (a b c d : Q) : Box2 QOps := mkBox2 (mkV2 a b) (mkV2 c d).
Definition qb3 (a b c d e f : Q) : Box3 QOps := mkBox3 (mkV3 a b c) (mkV3 d e f).
Definition qseg (a b c d : Q) : Seg QOps := (mkV2 a b, mkV2 c d).
Definition qMinDef : MinK QOps := MinDef.
Definition qMinPoly (k : Q) : MinK QOps := MinPoly k.
Definition qMinRound (k : Q) : MinK QOps := MinRound k.
Definition qMinChamfer (k : Q) : MinK QOps := MinChamfer k.
Definition qMaxDef : MaxK QOps := MaxDef.
Definition qMaxPoly (k : Q) : MaxK QOps := MaxPoly k.

(* the primitives of Sdf/Prim2X.v at Q *)
Definition qFlatFlankCam (d b n : Q) : QS2 := RPrim2 (PFlatFlankCam (O := QOps) d b n).
Definition qThreeArcCam (d b n f : Q) : QS2 := RPrim2 (PThreeArcCam (O := QOps) d b n f).
Definition qFlange1 (d c s : Q) : QS2 := RPrim2 (PFlange1 (O := QOps) d c s).
Definition qArcSpiral (a k s e d : Q) : QS2 := RPrim2 (PArcSpiral (O := QOps) a k s e d).

Inductive rtree := T2 (t : QS2) | T3 (t : QS3).

(* id, tree, Go box (4 or 6 numbers: min then max), absolute tolerance, points (coordinates then the
   Go value), the status predicted by the harness *)
Definition rcase := (N * rtree * list float * float * list (list float) * N)%type.

Definition zero_env : Env FOps := mkEnv (fun _ _ => 0%float) (fun _ _ => 0%float).

Definition near (tol x y : float) : bool :=
  fsame x y || PrimFloat.leb (PrimFloat.abs (x - y)) tol.

Definition box_ok (cmp : float -> float -> bool) (m g : list float) : bool :=
  Nat.eqb (length m) (length g) && forallb (fun xy => cmp (fst xy) (snd xy)) (combine m g).

Definition rok (exact : bool) (c : rcase) : bool :=
  let '(id, t, gb, tol, pts, st) := c in
  let cmp := if exact then fsame else near tol in
  match t with
  | T3 t =>
      match interp3 zero_env (fl3 t) with
      | None => false
      | Some o =>
          let b := bb3 o in
          box_ok cmp [wx (b3min b); wy (b3min b); wz (b3min b); wx (b3max b); wy (b3max b); wz (b3max b)] gb &&
          (negb (opaque_free3 t) ||
           forallb (fun q => match q with
                             | [x; y; z; g] => cmp (ev3 o (mkV3 x y z)) g
                             | _ => false
                             end) pts)
      end
  | T2 t =>
      match interp2 zero_env (fl2 t) with
      | None => false
      | Some o =>
          let b := bb2 o in
          box_ok cmp [vx (b2min b); vy (b2min b); vx (b2max b); vy (b2max b)] gb &&
          (negb (opaque_free2 t) ||
           forallb (fun q => match q with
                             | [x; y; g] => cmp (ev2 o (mkV2 x y)) g
                             | _ => false
                             end) pts)
      end
  end.

(* 0 = certified for all points of space; 1 = certified relative to the opaque leaves being
   enclosed by their boxes; 2 = outside the class of the theorem *)
Definition rstatus (t : rtree) : N :=
  match t with
  | T3 t => if wfb3 t then (if opaque_free3 t then 0 else 1) else 2
  | T2 t => if wfb2 t then (if opaque_free2 t then 0 else 1) else 2
  end%N.

Definition rid (c : rcase) : N := let '(id, _, _, _, _, _) := c in id.
Definition rmismatches (cs : list rcase) : list N := map rid (filter (fun c => negb (rok false c)) cs).
Definition rinexact (cs : list rcase) : list N := map rid (filter (fun c => negb (rok true c)) cs).
Definition rstatus_mismatches (cs : list rcase) : list N :=
  map rid (filter (fun c => let '(_, t, _, _, _, st) := c in negb (N.eqb (rstatus t) st)) cs).

(* a tree the checker accepts must also pass the constructors' own argument checks over the reals
   (Sdf/ReifyBuild.v: then the certificate has a witness); listed when it does not *)
Definition rbuilds (t : rtree) : bool :=
  match t with
  | T3 t => negb (wfb3 t) || buildsb3 t
  | T2 t => negb (wfb2 t) || buildsb2 t
  end.
Definition rbuild_mismatches (cs : list rcase) : list N :=
  map rid (filter (fun c => let '(_, t, _, _, _, _) := c in negb (rbuilds t)) cs).
