(* Whole-program theorem over the reals for Polygon.Vertices() (sdf/poly.go):
   relToAbs, then createArcs (Sdf/BuildWhole.v: arcs_spec), then smoothVertices.

   smoothVertices looks at the CURRENT neighbours of a vertex: a fillet made earlier has already
   replaced a neighbour by its tangent point, so the edge it tests against is shorter and the
   vertex it computes directions from has moved.  Over the reals (distinct, non-collinear
   corners) the moved neighbour lies on the same edge, so the directions, the angle, the centre
   and all fillet points are those computed from the ORIGINAL neighbours; what changes is only
   the room left on the edge.  Hence, for EVERY input list: the output is the concatenation, in
   order, of one block per input vertex - the vertex itself, or the facets+1 fillet points of the
   per-vertex theorems (Sdf/BuildR.v) for its original neighbours - fillets that share an edge
   never overlap, and every smooth vertex that was kept does not fit into what is left. *)
From Coq Require Import Reals Lra Lia List Bool ZArith Psatz Arith.
From Sdfx Require Import Num.Ops.
From Sdfx Require Import Num.RInst.
From Sdfx Require Import Geo.Vec.
From Sdfx Require Import Sdf.Build.
From Sdfx Require Import Sdf.BuildR.
From Sdfx Require Import Sdf.BuildWhole.
Import ListNotations.
Open Scope R_scope.

Notation PVR := (PV ROps).

(* ------------------------------------------------------------------ geometry *)
Lemma len_nonneg (w : V) : 0 <= v2len w.
Proof. unfold v2len. cbn [osqrt ROps]. apply sqrt_pos. Qed.

Lemma len_sym (a b : V) : v2len (v2sub a b) = v2len (v2sub b a).
Proof. destruct a, b. unfold v2len. cbn [osqrt ROps]. f_equal. rops. ring. Qed.

Lemma len2_sym (a b : V) : v2len2 (v2sub a b) = v2len2 (v2sub b a).
Proof. destruct a, b. rops. ring. Qed.

Lemma len_scale (w : V) k : 0 <= k -> v2len (v2muls w k) = k * v2len w.
Proof.
  intros Hk. destruct w as [x y]. unfold v2len. cbn [osqrt ROps]. rops.
  replace (x * k * (x * k) + y * k * (y * k)) with ((k * k) * (x * x + y * y)) by ring.
  rewrite sqrt_mult by nra. rewrite sqrt_square by lra. reflexivity.
Qed.

(* scaling by a positive factor does not change the direction *)
Lemma dir_scale (w : V) k : 0 < k -> 0 < v2len2 w -> v2normalize (v2muls w k) = v2normalize w.
Proof.
  intros Hk Hw. pose proof (len_pos w Hw) as HL.
  unfold v2normalize. rewrite len_scale by lra.
  set (L := v2len w) in *. clearbody L. destruct w as [x y]. apply V_eq; rops; field; lra.
Qed.

(* the neighbour a of v after a fillet at a has cut tau off the edge a-v: same direction seen
   from v, and the edge is shorter by tau *)
Lemma trimmed (a v : V) tau : 0 < v2len2 (v2sub a v) -> 0 <= tau < v2len (v2sub a v) ->
  smooth_v0 (v2add a (v2muls (smooth_v0 v a) tau)) v = smooth_v0 a v /\
  v2len (v2sub (v2add a (v2muls (smooth_v0 v a) tau)) v) = v2len (v2sub a v) - tau.
Proof.
  intros H2 Ht. pose proof (len_pos _ H2) as HL.
  assert (E : v2sub (v2add a (v2muls (smooth_v0 v a) tau)) v
              = v2muls (v2sub a v) ((v2len (v2sub a v) - tau) / v2len (v2sub a v))).
  { unfold smooth_v0, v2normalize. rewrite (len_sym v a).
    set (L := v2len (v2sub a v)) in *. clearbody L. destruct a as [ax ay], v as [px py].
    apply V_eq; rops; field; lra. }
  assert (K : 0 < (v2len (v2sub a v) - tau) / v2len (v2sub a v)).
  { apply Rdiv_lt_0_compat; lra. }
  split.
  - unfold smooth_v0 at 1. rewrite E. apply dir_scale; assumption.
  - rewrite E, len_scale by lra. clear E K. set (L := v2len (v2sub a v)) in *. clearbody L. rops. field. lra.
Qed.

(* the fillet depends on the neighbours only through the two edge directions *)
Lemma smooth_points_dirs (vp vp' v vn vn' : V) r f :
  smooth_v0 vp' v = smooth_v0 vp v -> smooth_v0 vn' v = smooth_v0 vn v ->
  smooth_points vp' v vn' r f = smooth_points vp v vn r f /\
  smooth_d1 vp' v vn' r = smooth_d1 vp v vn r.
Proof.
  intros E0 E1.
  unfold smooth_points, smooth_tangent, smooth_centre, smooth_dtheta, smooth_d1, smooth_theta.
  rewrite E0, E1. split; reflexivity.
Qed.

Lemma add_zero (p u : V) : p = v2add p (v2muls u 0).
Proof. destruct p, u. apply V_eq; rops; ring. Qed.

Lemma smooth_d1_pos (vp v vn : V) r : corner_ok vp v vn -> 0 < r -> 0 < smooth_d1 vp v vn r.
Proof.
  intros (H0 & H1 & NC) Hr.
  assert (U0 : is_unit (smooth_v0 vp v)) by (apply normalize_unit; exact H0).
  assert (U1 : is_unit (smooth_v0 vn v)) by (apply normalize_unit; exact H1).
  unfold smooth_d1, smooth_theta.
  set (u0 := smooth_v0 vp v) in *. set (u1 := smooth_v0 vn v) in *. clearbody u0 u1.
  destruct u0 as [a b], u1 as [c d]. unfold is_unit in U0, U1. revert NC. rops. intros NC.
  destruct (corner_half a b c d U0 U1 NC) as (C & S & _).
  two_is_2. unfold tan. apply Rdiv_lt_0_compat; [exact Hr|]. apply Rdiv_lt_0_compat; assumption.
Qed.

(* ------------------------------------------------------------------ blocks indexed by 0..n-1 *)
Section FlatSeq.
  Context {A : Type}.

  Lemma flat_seq_split (f : nat -> list A) a n j : (a <= j < a + n)%nat ->
    flat_map f (seq a n) = flat_map f (seq a (j - a)) ++ f j ++ flat_map f (seq (S j) (a + n - S j)).
  Proof.
    intros H. replace n with ((j - a) + S (a + n - S j))%nat at 1 by lia.
    rewrite seq_app, flat_map_app. replace (a + (j - a))%nat with j by lia. reflexivity.
  Qed.

  Lemma flat_seq_locate (f : nat -> list A) : forall n a i x, nth_error (flat_map f (seq a n)) i = Some x ->
    exists j k, (a <= j < a + n)%nat /\ i = (length (flat_map f (seq a (j - a))) + k)%nat /\
                nth_error (f j) k = Some x.
  Proof.
    induction n; intros a i x H; [destruct i; discriminate|].
    cbn [seq flat_map] in H.
    destruct (Nat.lt_ge_cases i (length (f a))) as [Hi|Hi].
    - rewrite nth_error_app1 in H by exact Hi. exists a, i. replace (a - a)%nat with 0%nat by lia.
      split; [lia|]. split; [reflexivity | exact H].
    - rewrite nth_error_app2 in H by exact Hi. destruct (IHn (S a) _ x H) as (j & k & Hj & Ei & Hk).
      exists j, k. split; [lia|]. split; [|exact Hk].
      replace (j - a)%nat with (S (j - S a)) by lia. cbn [seq flat_map]. rewrite app_length. lia.
  Qed.

  Lemma flat_map_ext_seq (f g : nat -> list A) : forall n a, (forall j, (a <= j < a + n)%nat -> g j = f j) ->
    flat_map g (seq a n) = flat_map f (seq a n).
  Proof.
    induction n; intros a H; [reflexivity|]. cbn [seq flat_map]. rewrite (H a) by lia.
    f_equal. apply IHn. intros j Hj. apply H. lia.
  Qed.
End FlatSeq.

Lemma if_cong {A : Type} (b : bool) (x y z : A) : (b = true -> x = y) -> (if b then x else z) = (if b then y else z).
Proof. destruct b; intros H; [apply H; reflexivity | reflexivity]. Qed.
Lemma option_map_if {A B : Type} (f : A -> B) (b : bool) (x : option A) :
  option_map f (if b then x else None) = if b then option_map f x else None.
Proof. destruct b; reflexivity. Qed.

Definition first_pos (l : list PVR) : option V := option_map (@pv_v ROps) (nth_error l 0).

Lemma first_pos_app (a b : list PVR) : a <> [] -> first_pos (a ++ b) = first_pos a.
Proof. destruct a; [congruence | reflexivity]. Qed.

Lemma prev_in_app closed (a b : list PVR) : a <> [] ->
  option_map (@pv_v ROps) (prev_vertex closed (a ++ b) (length a)) = last_pos a.
Proof.
  intros Ha. unfold last_pos. destruct (length a) as [|j] eqn:E; [destruct a; [congruence | discriminate]|].
  cbn [prev_vertex]. rewrite nth_error_app1 by lia. replace (S j - 1)%nat with j by lia. reflexivity.
Qed.

(* ------------------------------------------------------------------ the input, by index *)
Definition dpv : PVR := plain (mkV2 0 0).
Definition vtx (l0 : list PVR) (j : nat) : PVR := nth j l0 dpv.
Definition pos_of (l0 : list PVR) (j : nat) : V := pv_v (vtx l0 j).
(* prevVertex / nextVertex as index maps *)
Definition pidx (l0 : list PVR) (j : nat) : nat := if Nat.eqb j 0 then (length l0 - 1)%nat else (j - 1)%nat.
Definition nidx (l0 : list PVR) (j : nat) : nat := if Nat.eqb j (length l0 - 1) then 0%nat else S j.
Definition has_prev (closed : bool) (j : nat) : bool := closed || negb (Nat.eqb j 0).
Definition has_next (closed : bool) (l0 : list PVR) (j : nat) : bool := closed || negb (Nat.eqb j (length l0 - 1)).

(* per-vertex quantities, from the ORIGINAL neighbours *)
Definition cornerD (l0 : list PVR) (j : nat) : R :=
  smooth_d1 (pos_of l0 (pidx l0 j)) (pos_of l0 j) (pos_of l0 (nidx l0 j)) (pv_radius (vtx l0 j)).
Definition fillet (l0 : list PVR) (j : nat) : list V :=
  smooth_points (pos_of l0 (pidx l0 j)) (pos_of l0 j) (pos_of l0 (nidx l0 j))
                (pv_radius (vtx l0 j)) (pv_facets (vtx l0 j)).
Definition Lp (l0 : list PVR) (j : nat) : R := v2len (v2sub (pos_of l0 (pidx l0 j)) (pos_of l0 j)).
Definition Ln (l0 : list PVR) (j : nat) : R := v2len (v2sub (pos_of l0 (nidx l0 j)) (pos_of l0 j)).

(* the class of inputs: every vertex marked Smooth that has both neighbours is a proper corner
   (neighbours distinct from it, not collinear), radius > 0, facets >= 1, and its tangent
   distance is not EXACTLY the length of an adjacent edge (then the tangent point would
   coincide with the neighbouring vertex and that vertex would see a zero-length edge) *)
Definition smooth_input_ok (closed : bool) (l0 : list PVR) : Prop :=
  forall j, (j < length l0)%nat -> is_smooth (vtx l0 j) = true ->
    has_prev closed j = true -> has_next closed l0 j = true ->
    corner_ok (pos_of l0 (pidx l0 j)) (pos_of l0 j) (pos_of l0 (nidx l0 j)) /\
    0 < pv_radius (vtx l0 j) /\ (1 <= pv_facets (vtx l0 j))%Z /\
    cornerD l0 j <> Lp l0 j /\ cornerD l0 j <> Ln l0 j.

Lemma prev_vertex_idx closed (l0 : list PVR) j : (j < length l0)%nat ->
  prev_vertex closed l0 j = if has_prev closed j then Some (vtx l0 (pidx l0 j)) else None.
Proof.
  intros Hj. unfold prev_vertex, has_prev, pidx, vtx. destruct j as [|j]; cbn [Nat.eqb negb].
  - rewrite orb_false_r. destruct closed; [|reflexivity]. apply nth_error_nth'. lia.
  - rewrite orb_true_r. replace (S j - 1)%nat with j by lia. apply nth_error_nth'. lia.
Qed.

Lemma next_vertex_idx closed (l0 : list PVR) j : (j < length l0)%nat ->
  next_vertex closed l0 j = if has_next closed l0 j then Some (vtx l0 (nidx l0 j)) else None.
Proof.
  intros Hj. unfold next_vertex, has_next, nidx, vtx. destruct (Nat.eqb j (length l0 - 1)) eqn:E; cbn [negb].
  - rewrite orb_false_r. destruct closed; [|reflexivity]. apply nth_error_nth'. lia.
  - rewrite orb_true_r. apply Nat.eqb_neq in E. apply nth_error_nth'. lia.
Qed.

Lemma idx_facts (l0 : list PVR) j : (j < length l0)%nat ->
  (pidx l0 j < length l0)%nat /\ (nidx l0 j < length l0)%nat /\
  nidx l0 (pidx l0 j) = j /\ pidx l0 (nidx l0 j) = j.
Proof.
  intros Hj. unfold pidx, nidx.
  destruct (Nat.eqb j 0) eqn:E0; [apply Nat.eqb_eq in E0 | apply Nat.eqb_neq in E0];
  destruct (Nat.eqb j (length l0 - 1)) eqn:E1; [apply Nat.eqb_eq in E1 | apply Nat.eqb_neq in E1 | apply Nat.eqb_eq in E1 | apply Nat.eqb_neq in E1].
  all: repeat split; try lia.
  all: repeat match goal with |- context [Nat.eqb ?a ?b] => let E := fresh "E" in destruct (Nat.eqb a b) eqn:E; [apply Nat.eqb_eq in E | apply Nat.eqb_neq in E] end; lia.
Qed.

(* ------------------------------------------------------------------ smoothVertices *)
Section SmoothWhole.
  Variable closed : bool.
  Variable l0 : list PVR.
  Hypothesis OK : smooth_input_ok closed l0.
  Notation n := (length l0).
  Notation pos := (pos_of l0).

  (* the state of the computation: which vertices have been replaced by their fillet *)
  Definition trim (dn : nat -> bool) (j : nat) : R := if dn j then cornerD l0 j else 0.
  Definition blk (dn : nat -> bool) (j : nat) : list PVR :=
    if dn j then map plain (fillet l0 j) else [vtx l0 j].
  Definition cur (dn : nat -> bool) : list PVR := flat_map (blk dn) (seq 0 n).
  Definition upd (dn : nat -> bool) (m : nat) : nat -> bool := fun j => if Nat.eqb j m then true else dn j.

  (* last point of block j (towards the next vertex) and first point (towards the previous one) *)
  Definition exitp (dn : nat -> bool) (j : nat) : V :=
    v2add (pos j) (v2muls (smooth_v0 (pos (nidx l0 j)) (pos j)) (trim dn j)).
  Definition entryp (dn : nat -> bool) (j : nat) : V :=
    v2add (pos j) (v2muls (smooth_v0 (pos (pidx l0 j)) (pos j)) (trim dn j)).

  Record sinv (dn : nat -> bool) (l : list PVR) : Prop := {
    si_cur : l = cur dn;
    si_done : forall j, (j < n)%nat -> dn j = true ->
      is_smooth (vtx l0 j) = true /\ has_prev closed j = true /\ has_next closed l0 j = true /\
      cornerD l0 j < Lp l0 j /\ cornerD l0 j < Ln l0 j;
    si_room : forall j, (j < n)%nat -> has_next closed l0 j = true ->
      trim dn j + trim dn (nidx l0 j) <= Ln l0 j }.

  Lemma done_facts dn l j : sinv dn l -> (j < n)%nat -> dn j = true ->
    corner_ok (pos (pidx l0 j)) (pos j) (pos (nidx l0 j)) /\ 0 < pv_radius (vtx l0 j) /\
    (1 <= pv_facets (vtx l0 j))%Z /\ 0 < cornerD l0 j.
  Proof.
    intros HI Hj Hd. destruct (si_done dn l HI j Hj Hd) as (Hs & HP & HN & _).
    destruct (OK j Hj Hs HP HN) as (CO & Hr & Hf & _).
    split; [exact CO|]. split; [exact Hr|]. split; [exact Hf|]. apply smooth_d1_pos; assumption.
  Qed.

  Lemma trim_nonneg dn l j : sinv dn l -> (j < n)%nat -> 0 <= trim dn j.
  Proof.
    intros HI Hj. unfold trim. destruct (dn j) eqn:Hd; [|lra].
    destruct (done_facts dn l j HI Hj Hd) as (_ & _ & _ & H). lra.
  Qed.

  Lemma blk_ends dn l j : sinv dn l -> (j < n)%nat ->
    last_pos (blk dn j) = Some (exitp dn j) /\ first_pos (blk dn j) = Some (entryp dn j).
  Proof.
    intros HI Hj. unfold blk, exitp, entryp, trim. destruct (dn j) eqn:Hd.
    - destruct (done_facts dn l j HI Hj Hd) as (CO & Hr & Hf & _).
      unfold last_pos, first_pos. rewrite map_length. unfold fillet. rewrite smooth_points_length.
      rewrite !nth_error_map.
      rewrite (nth_error_nth' _ (mkV2 0 0 : V)) by (rewrite smooth_points_length; lia).
      rewrite (nth_error_nth' _ (mkV2 0 0 : V)) by (rewrite smooth_points_length; lia).
      replace (Z.to_nat (pv_facets (vtx l0 j) + 1) - 1)%nat with (Z.to_nat (pv_facets (vtx l0 j))) by lia.
      rewrite smooth_ends_at_tangent by assumption. rewrite smooth_starts_at_tangent by lia.
      split; reflexivity.
    - unfold last_pos, first_pos. cbn [length Nat.sub nth_error option_map].
      split; f_equal; apply add_zero.
  Qed.

  Lemma blk_nonempty dn l j : sinv dn l -> (j < n)%nat -> blk dn j <> [].
  Proof.
    intros HI Hj E. destruct (blk_ends dn l j HI Hj) as (_ & F). rewrite E in F. discriminate.
  Qed.

  Lemma cur_split dn m : (m < n)%nat ->
    cur dn = flat_map (blk dn) (seq 0 m) ++ blk dn m ++ flat_map (blk dn) (seq (S m) (n - S m)).
  Proof.
    intros Hm. unfold cur. rewrite (flat_seq_split (blk dn) 0 n m) by lia.
    replace (m - 0)%nat with m by lia. reflexivity.
  Qed.

  (* the current neighbours of an untouched vertex m are the exit point of the block before it and
     the entry point of the block after it *)
  Lemma prev_at dn l m : sinv dn l -> (m < n)%nat -> dn m = false ->
    option_map (@pv_v ROps) (prev_vertex closed l (length (flat_map (blk dn) (seq 0 m)))) =
    if has_prev closed m then Some (exitp dn (pidx l0 m)) else None.
  Proof.
    intros HI Hm Hd. rewrite (si_cur dn l HI).
    destruct m as [|m'].
    - cbn [seq flat_map length prev_vertex]. unfold has_prev. cbn [Nat.eqb negb]. rewrite orb_false_r.
      rewrite option_map_if. apply if_cong. intros _.
      change (option_map (@pv_v ROps) (nth_error (cur dn) (length (cur dn) - 1))) with (last_pos (cur dn)).
      unfold cur. replace n with (S (n - 1)) at 1 by lia. rewrite seq_S, flat_map_app. cbn [flat_map Nat.add].
      rewrite app_nil_r. rewrite last_pos_app by (apply (blk_nonempty dn l); [exact HI | lia]).
      unfold pidx. cbn [Nat.eqb]. apply (blk_ends dn l); [exact HI | lia].
    - rewrite (cur_split dn (S m')) by exact Hm.
      rewrite prev_in_app.
      + rewrite seq_S, flat_map_app. cbn [flat_map Nat.add]. rewrite app_nil_r.
        rewrite last_pos_app by (apply (blk_nonempty dn l); [exact HI | lia]).
        unfold has_prev, pidx. cbn [Nat.eqb negb]. rewrite orb_true_r.
        replace (S m' - 1)%nat with m' by lia. apply (blk_ends dn l); [exact HI | lia].
      + rewrite seq_S, flat_map_app. cbn [flat_map Nat.add]. rewrite app_nil_r.
        intros E. apply app_eq_nil in E. destruct E as [_ E].
        revert E. apply (blk_nonempty dn l); [exact HI | lia].
  Qed.

  Lemma next_at dn l m : sinv dn l -> (m < n)%nat -> dn m = false ->
    option_map (@pv_v ROps) (next_vertex closed l (length (flat_map (blk dn) (seq 0 m)))) =
    if has_next closed l0 m then Some (entryp dn (nidx l0 m)) else None.
  Proof.
    intros HI Hm Hd. rewrite (si_cur dn l HI). rewrite (cur_split dn m Hm).
    set (A := flat_map (blk dn) (seq 0 m)). set (B := flat_map (blk dn) (seq (S m) (n - S m))).
    assert (EB : blk dn m = [vtx l0 m]) by (unfold blk; rewrite Hd; reflexivity). rewrite EB.
    unfold next_vertex. rewrite !app_length. cbn [length].
    destruct (Nat.eq_dec m (n - 1)) as [El|Nl].
    - assert (B = []) by (unfold B; replace (n - S m)%nat with 0%nat by lia; reflexivity).
      rewrite H. cbn [length]. replace (length A + (1 + 0) - 1)%nat with (length A) by lia.
      assert (Eqb : Nat.eqb m (n - 1) = true) by (apply Nat.eqb_eq; exact El).
      rewrite Nat.eqb_refl. unfold has_next, nidx. rewrite Eqb. cbn [negb]. rewrite orb_false_r.
      rewrite option_map_if. apply if_cong. intros _.
      replace (A ++ [vtx l0 m] ++ []) with (cur dn)
        by (rewrite (cur_split dn m Hm), EB; fold A; fold B; rewrite H; reflexivity).
      change (option_map (@pv_v ROps) (nth_error (cur dn) 0)) with (first_pos (cur dn)).
      unfold cur. replace n with (S (n - 1)) at 1 by lia. cbn [seq flat_map].
      rewrite first_pos_app by (apply (blk_nonempty dn l); [exact HI | lia]).
      apply (blk_ends dn l); [exact HI | lia].
    - assert (EB2 : B = blk dn (S m) ++ flat_map (blk dn) (seq (S (S m)) (n - S (S m)))).
      { unfold B. replace (n - S m)%nat with (S (n - S (S m))) by lia. reflexivity. }
      assert (NB : blk dn (S m) <> []) by (apply (blk_nonempty dn l); [exact HI | lia]).
      assert (LB : (0 < length B)%nat).
      { rewrite EB2, app_length. destruct (blk dn (S m)); [congruence | cbn; lia]. }
      destruct (Nat.eqb (length A) (length A + (1 + length B) - 1)) eqn:E; [apply Nat.eqb_eq in E; lia|].
      replace (S (length A)) with (length A + 1)%nat by lia. rewrite nth_error_app_len.
      change (nth_error ([vtx l0 m] ++ B) 1) with (nth_error B 0).
      change (option_map (@pv_v ROps) (nth_error B 0)) with (first_pos B).
      rewrite EB2, first_pos_app by exact NB.
      unfold has_next, nidx. pose proof Nl as Nl'. apply Nat.eqb_neq in Nl'. rewrite Nl'. cbn [negb]. rewrite orb_true_r.
      apply (blk_ends dn l); [exact HI | lia].
  Qed.

  (* a vertex still marked Smooth in the current list is an untouched input vertex *)
  Lemma locate dn l i v : sinv dn l -> nth_error l i = Some v -> is_smooth v = true ->
    exists m, (m < n)%nat /\ dn m = false /\ v = vtx l0 m /\ i = length (flat_map (blk dn) (seq 0 m)).
  Proof.
    intros HI Hv Hs. rewrite (si_cur dn l HI) in Hv. unfold cur in Hv.
    destruct (flat_seq_locate (blk dn) n 0 i v Hv) as (j & k & Hj & Ei & Hk).
    replace (j - 0)%nat with j in Ei by lia. unfold blk in Hk. destruct (dn j) eqn:Hd.
    - rewrite nth_error_map in Hk. destruct (nth_error (fillet l0 j) k); [|discriminate].
      cbn in Hk. injection Hk as <-. discriminate.
    - destruct k as [|k]; [|destruct k; discriminate]. cbn in Hk. injection Hk as <-.
      exists j. repeat split; [lia | exact Hd | lia].
  Qed.

  Lemma pos_self_len2 (p : V) : v2len2 (v2sub p p) = 0.
  Proof. destruct p. rops. ring. Qed.

  (* what smoothVertex sees at an untouched smooth vertex m: the directions (hence all fillet
     points) are those of the original neighbours; the fit test compares the tangent distance
     with the room left on the two edges *)
  Lemma nbr_analysis dn l m vp vn : sinv dn l -> (m < n)%nat -> dn m = false ->
    is_smooth (vtx l0 m) = true ->
    prev_vertex closed l (length (flat_map (blk dn) (seq 0 m))) = Some vp ->
    next_vertex closed l (length (flat_map (blk dn) (seq 0 m))) = Some vn ->
    has_prev closed m = true /\ has_next closed l0 m = true /\
    smooth_points (pv_v vp) (pos m) (pv_v vn) (pv_radius (vtx l0 m)) (pv_facets (vtx l0 m)) = fillet l0 m /\
    (smooth_fits (pv_v vp) (pos m) (pv_v vn) (pv_radius (vtx l0 m)) = true <->
     cornerD l0 m <= Lp l0 m - trim dn (pidx l0 m) /\ cornerD l0 m <= Ln l0 m - trim dn (nidx l0 m)) /\
    0 <= trim dn (pidx l0 m) /\ 0 <= trim dn (nidx l0 m).
  Proof.
    intros HI Hm Hdm Hs Hp Hn.
    pose proof (prev_at dn l m HI Hm Hdm) as PA. rewrite Hp in PA. cbn [option_map] in PA.
    destruct (has_prev closed m) eqn:HP; [|discriminate]. injection PA as PA.
    pose proof (next_at dn l m HI Hm Hdm) as NA. rewrite Hn in NA. cbn [option_map] in NA.
    destruct (has_next closed l0 m) eqn:HN; [|discriminate]. injection NA as NA.
    destruct (OK m Hm Hs HP HN) as (CO & Hr & Hfac & NEp & NEn).
    destruct (idx_facts l0 m Hm) as (Hpm & Hnm & Enp & Epn).
    pose proof CO as (C0 & C1 & _).
    assert (Tp : 0 <= trim dn (pidx l0 m) < Lp l0 m).
    { split; [apply (trim_nonneg dn l); assumption|]. unfold trim. destruct (dn (pidx l0 m)) eqn:Hd.
      - destruct (si_done dn l HI _ Hpm Hd) as (_ & _ & _ & _ & H). unfold Ln in H. rewrite Enp in H.
        unfold Lp. rewrite len_sym. exact H.
      - unfold Lp. apply len_pos. exact C0. }
    assert (Tn : 0 <= trim dn (nidx l0 m) < Ln l0 m).
    { split; [apply (trim_nonneg dn l); assumption|]. unfold trim. destruct (dn (nidx l0 m)) eqn:Hd.
      - destruct (si_done dn l HI _ Hnm Hd) as (_ & _ & _ & H & _). unfold Lp in H. rewrite Epn in H.
        unfold Ln. rewrite len_sym. exact H.
      - unfold Ln. apply len_pos. exact C1. }
    unfold exitp in PA. rewrite Enp in PA. unfold entryp in NA. rewrite Epn in NA.
    destruct (trimmed (pos (pidx l0 m)) (pos m) (trim dn (pidx l0 m)) C0 Tp) as (Dp & Lenp).
    destruct (trimmed (pos (nidx l0 m)) (pos m) (trim dn (nidx l0 m)) C1 Tn) as (Dn & Lenn).
    rewrite <- PA in Dp, Lenp. rewrite <- NA in Dn, Lenn.
    destruct (smooth_points_dirs _ _ _ _ _ (pv_radius (vtx l0 m)) (pv_facets (vtx l0 m)) Dp Dn) as (EPts & ED).
    fold (fillet l0 m) in EPts. fold (cornerD l0 m) in ED.
    split; [reflexivity|]. split; [reflexivity|]. split; [exact EPts|]. split; [|lra].
    unfold smooth_fits. rewrite ED, Lenp, Lenn. cbn [oltb ROps]. fold (Lp l0 m). fold (Ln l0 m).
    rewrite negb_true_iff, orb_false_iff, !Rltb_false. reflexivity.
  Qed.

  (* one call of smoothVertex keeps the invariant *)
  Lemma sinv_step l i : (exists dn, sinv dn l) -> exists dn, sinv dn (fst (smooth_vertex closed l i)).
  Proof.
    intros (dn & HI).
    destruct (smooth_step_cases closed l i) as [E|(v & vp & vn & Hv & Hs & Hp & Hn & Hf & E)];
      rewrite E; cbn [fst]; [exists dn; exact HI|].
    destruct (locate dn l i v HI Hv Hs) as (m & Hm & Hdm & -> & ->).
    destruct (nbr_analysis dn l m vp vn HI Hm Hdm Hs Hp Hn) as (HP & HN & EPts & FITI & Tp0 & Tn0).
    change (pv_v (vtx l0 m)) with (pos m) in *.
    destruct FITI as [FIT _]. specialize (FIT Hf).
    destruct (OK m Hm Hs HP HN) as (CO & Hr & Hfac & NEp & NEn).
    destruct (idx_facts l0 m Hm) as (Hpm & Hnm & Enp & Epn).
    pose proof CO as (C0 & C1 & _).
    rewrite EPts.
    assert (Npm : pidx l0 m <> m).
    { intros Eq. rewrite Eq in C0. rewrite pos_self_len2 in C0. lra. }
    assert (Nnm : nidx l0 m <> m).
    { intros Eq. rewrite Eq in C1. rewrite pos_self_len2 in C1. lra. }
    assert (TU : forall j, j <> m -> trim (upd dn m) j = trim dn j).
    { intros j Hj. unfold trim, upd. apply Nat.eqb_neq in Hj. rewrite Hj. reflexivity. }
    assert (TM : trim (upd dn m) m = cornerD l0 m).
    { unfold trim, upd. rewrite Nat.eqb_refl. reflexivity. }
    exists (upd dn m). constructor.
    - (* the list *)
      rewrite (si_cur dn l HI). rewrite (cur_split dn m Hm), (cur_split (upd dn m) m Hm).
      assert (EB : blk dn m = [vtx l0 m]) by (unfold blk; rewrite Hdm; reflexivity). rewrite EB.
      set (A := flat_map (blk dn) (seq 0 m)). set (B := flat_map (blk dn) (seq (S m) (n - S m))).
      replace (length A) with (length A + 0)%nat at 1 by lia. rewrite firstn_app_len. cbn [firstn]. rewrite app_nil_r.
      replace (S (length A)) with (length A + 1)%nat by lia. rewrite skipn_app_len. cbn [app skipn].
      rewrite (flat_map_ext_seq (blk dn) (blk (upd dn m)) m 0).
      2:{ intros j Hj. unfold blk, upd. destruct (Nat.eqb j m) eqn:Ej; [apply Nat.eqb_eq in Ej; lia | reflexivity]. }
      rewrite (flat_map_ext_seq (blk dn) (blk (upd dn m)) (n - S m) (S m)).
      2:{ intros j Hj. unfold blk, upd. destruct (Nat.eqb j m) eqn:Ej; [apply Nat.eqb_eq in Ej; lia | reflexivity]. }
      fold A. fold B. unfold blk, upd. rewrite Nat.eqb_refl. reflexivity.
    - (* replaced vertices *)
      intros j Hj Hd. unfold upd in Hd. destruct (Nat.eqb j m) eqn:Ej.
      + apply Nat.eqb_eq in Ej. subst j. repeat split; try assumption; lra.
      + apply (si_done dn l HI j Hj Hd).
    - (* room on every edge *)
      intros j Hj HNj. destruct (Nat.eq_dec j m) as [->|Nj].
      + rewrite TM, (TU _ Nnm). lra.
      + rewrite (TU j Nj). destruct (Nat.eq_dec (nidx l0 j) m) as [Em|Nm].
        * rewrite Em, TM. destruct (idx_facts l0 j Hj) as (_ & _ & _ & Ej). rewrite Em in Ej.
          rewrite <- Ej in *. unfold Ln. rewrite Em. unfold Lp in FIT. rewrite len_sym. lra.
        * rewrite (TU _ Nm). apply (si_room dn l HI j Hj HNj).
  Qed.

  (* at a fixed point every smooth vertex that is still there does not fit into the room left *)
  Lemma kept_does_not_fit dn l m : sinv dn l ->
    (forall i, smooth_vertex closed l i = (l, false)) ->
    (m < n)%nat -> dn m = false -> is_smooth (vtx l0 m) = true ->
    has_prev closed m = true -> has_next closed l0 m = true ->
    Lp l0 m - trim dn (pidx l0 m) < cornerD l0 m \/ Ln l0 m - trim dn (nidx l0 m) < cornerD l0 m.
  Proof.
    intros HI FP Hm Hdm Hs HP HN.
    set (i := length (flat_map (blk dn) (seq 0 m))).
    assert (Hv : nth_error l i = Some (vtx l0 m)).
    { rewrite (si_cur dn l HI), (cur_split dn m Hm). unfold i.
      replace (length (flat_map (blk dn) (seq 0 m))) with (length (flat_map (blk dn) (seq 0 m)) + 0)%nat by lia.
      rewrite nth_error_app_len. unfold blk. rewrite Hdm. reflexivity. }
    pose proof (prev_at dn l m HI Hm Hdm) as PA. rewrite HP in PA. fold i in PA.
    destruct (prev_vertex closed l i) as [vp|] eqn:Hp; [|discriminate].
    pose proof (next_at dn l m HI Hm Hdm) as NA. rewrite HN in NA. fold i in NA.
    destruct (next_vertex closed l i) as [vn|] eqn:Hn; [|discriminate].
    destruct (nbr_analysis dn l m vp vn HI Hm Hdm Hs Hp Hn) as (_ & _ & _ & FITI & _).
    pose proof (FP i) as F. unfold smooth_vertex in F. rewrite Hv in F.
    unfold is_smooth in Hs. rewrite Hs, Hn, Hp in F. cbn [negb] in F. unfold smooth_geom in F.
    change (pv_v (vtx l0 m)) with (pos m) in F.
    destruct (smooth_fits (pv_v vp) (pos m) (pv_v vn) (pv_radius (vtx l0 m))) eqn:Hf; [discriminate|].
    destruct (Rle_dec (cornerD l0 m) (Lp l0 m - trim dn (pidx l0 m))) as [A|A]; [|left; lra].
    destruct (Rle_dec (cornerD l0 m) (Ln l0 m - trim dn (nidx l0 m))) as [B|B]; [|right; lra].
    destruct FITI as [_ G]. specialize (G (conj A B)). discriminate.
  Qed.
End SmoothWhole.

Lemma flat_singletons (l : list PVR) : flat_map (fun j => [vtx l j]) (seq 0 (length l)) = l.
Proof.
  assert (G : forall (k : list PVR) a, flat_map (fun j => [nth (j - a) k dpv]) (seq a (length k)) = k).
  { induction k as [|x k IH]; intros a; [reflexivity|]. cbn [length seq flat_map].
    replace (a - a)%nat with 0%nat by lia. cbn [nth app]. f_equal.
    rewrite <- (IH (S a)) at 2. apply flat_map_ext_seq. intros j Hj.
    replace (j - a)%nat with (S (j - S a)) by lia. reflexivity. }
  transitivity (flat_map (fun j => [nth (j - 0) l dpv]) (seq 0 (length l))); [|apply G].
  apply flat_map_ext_seq. intros j _. unfold vtx.
  replace (j - 0)%nat with j by lia. reflexivity.
Qed.

(* ------------------------------------------------------------------ the theorem *)
(* For every list in the class smooth_input_ok: smoothVertices terminates with the
   concatenation, in input order, of one block per vertex - the vertex itself or the fillet points
   of the per-vertex theorems computed from its ORIGINAL neighbours; a replaced vertex was marked
   Smooth, has both neighbours and its tangent distance is below both adjacent edge lengths;
   fillets sharing an edge do not overlap (the tangent distances add up to at most the edge);
   a smooth vertex that was kept does not fit into the room the neighbouring fillets left;
   and the result is a fixed point of smoothVertex. *)
Theorem smooth_vertices_whole closed (l0 : list PVR) : smooth_input_ok closed l0 ->
  exists dn : nat -> bool,
    let tr := fun j => if dn j then cornerD l0 j else 0 in
    smooth_vertices closed l0 =
      flat_map (fun j => if dn j then map plain (fillet l0 j) else [vtx l0 j]) (seq 0 (length l0)) /\
    (forall j, (j < length l0)%nat -> dn j = true ->
       is_smooth (vtx l0 j) = true /\ has_prev closed j = true /\ has_next closed l0 j = true /\
       cornerD l0 j < Lp l0 j /\ cornerD l0 j < Ln l0 j) /\
    (forall j, (j < length l0)%nat -> has_next closed l0 j = true -> tr j + tr (nidx l0 j) <= Ln l0 j) /\
    (forall j, (j < length l0)%nat -> dn j = false -> is_smooth (vtx l0 j) = true ->
       has_prev closed j = true -> has_next closed l0 j = true ->
       Lp l0 j - tr (pidx l0 j) < cornerD l0 j \/ Ln l0 j - tr (nidx l0 j) < cornerD l0 j) /\
    (forall i, smooth_vertex closed (smooth_vertices closed l0) i = (smooth_vertices closed l0, false)).
Proof.
  intros OK.
  assert (I0 : exists dn, sinv closed l0 dn l0).
  { exists (fun _ => false). constructor.
    - unfold cur, blk. symmetry. apply flat_singletons.
    - intros j _ H. discriminate.
    - intros j Hj _. unfold trim. rewrite Rplus_0_l. apply len_nonneg. }
  destruct (until_done_inv (smooth_vertex closed) (fun l => exists dn, sinv closed l0 dn l) nsmooth
              (fun l i H => sinv_step closed l0 OK l i H)
              (fun l' i _ => smooth_step_mu closed l' i) (S (length l0)) l0 I0) as (lk & (dn & HI) & Hq & E).
  { pose proof (nsmooth_le l0). lia. }
  destruct (quiet_pass (smooth_vertex closed) (smooth_false_same closed) (length lk) 0 lk Hq) as [F _].
  fold (smooth_vertices closed l0) in E. rewrite F in E.
  destruct (smooth_vertices_fixed_point closed l0) as [FP _].
  exists dn. cbv zeta. rewrite E in *.
  split; [exact (si_cur closed l0 dn lk HI)|].
  split; [exact (si_done closed l0 dn lk HI)|].
  split; [exact (si_room closed l0 dn lk HI)|].
  split; [|exact FP].
  intros j Hj Hd Hs HP HN. exact (kept_does_not_fit closed l0 OK dn lk j HI FP Hj Hd Hs HP HN).
Qed.

(* ------------------------------------------------------------------ Polygon.Vertices() *)
Lemma map_flat_map {A B C : Type} (f : B -> C) (g : A -> list B) (l : list A) :
  map f (flat_map g l) = flat_map (fun x => map f (g x)) l.
Proof. induction l as [|x l IH]; [reflexivity|]. cbn [flat_map]. rewrite map_app, IH. reflexivity. Qed.

Lemma map_pos_plain (pts : list V) : map (@pv_v ROps) (map plain pts) = pts.
Proof. induction pts as [|p pts IH]; [reflexivity|]. cbn [map]. rewrite IH. reflexivity. Qed.

(* the vertex positions of the output: one block per vertex of the list l2 that smoothVertices
   received, dn telling which vertices were replaced by their fillet *)
Definition whole_blocks (dn : nat -> bool) (l2 : list PVR) : list V :=
  flat_map (fun j => if dn j then fillet l2 j else [pos_of l2 j]) (seq 0 (length l2)).

Definition fillets_ok (closed : bool) (l2 : list PVR) (dn : nat -> bool) : Prop :=
  let tr := fun j => if dn j then cornerD l2 j else 0 in
  (forall j, (j < length l2)%nat -> dn j = true ->
     is_smooth (vtx l2 j) = true /\ has_prev closed j = true /\ has_next closed l2 j = true /\
     cornerD l2 j < Lp l2 j /\ cornerD l2 j < Ln l2 j) /\
  (forall j, (j < length l2)%nat -> has_next closed l2 j = true -> tr j + tr (nidx l2 j) <= Ln l2 j) /\
  (forall j, (j < length l2)%nat -> dn j = false -> is_smooth (vtx l2 j) = true ->
     has_prev closed j = true -> has_next closed l2 j = true ->
     Lp l2 j - tr (pidx l2 j) < cornerD l2 j \/ Ln l2 j - tr (nidx l2 j) < cornerD l2 j).

(* Polygon.Vertices() as a whole: relToAbs (l1), createArcs (l2 = arcs_spec l1: every arc vertex
   preceded by its arc points, computed from the original previous vertex), smoothVertices (one
   block per vertex of l2), then the optional reversal.  No loop, no fuel in the statement. *)
Theorem vertices_whole closed reverse (l l1 : list PVR) :
  rel_to_abs closed l = Some l1 ->
  let l2 := arcs_spec (wrap_prev closed l1) l1 in
  smooth_input_ok closed l2 ->
  exists dn : nat -> bool,
    vertices (mkPolygon closed reverse l) =
      Some (if reverse then rev (whole_blocks dn l2) else whole_blocks dn l2) /\
    fillets_ok closed l2 dn.
Proof.
  intros HR l2 OK. destruct (smooth_vertices_whole closed l2 OK) as (dn & E & P1 & P2 & P3 & _).
  exists dn. split; [|exact (conj P1 (conj P2 P3))].
  unfold vertices, fixups. cbn [pg_closed pg_vlist pg_reverse]. rewrite HR, create_arcs_spec.
  fold l2. rewrite E. rewrite map_flat_map. unfold whole_blocks.
  rewrite (flat_map_ext _ (fun j => if dn j then fillet l2 j else [pos_of l2 j])); [reflexivity|].
  intros j. destruct (dn j); [apply map_pos_plain | reflexivity].
Qed.

(* a polygon whose first vertex of an open list is relative panics (nil pointer) *)
Lemma vertices_panics closed reverse (l : list PVR) :
  rel_to_abs closed l = None -> vertices (mkPolygon closed reverse l) = None.
Proof. intros H. unfold vertices, fixups. cbn [pg_closed pg_vlist]. rewrite H. reflexivity. Qed.

(* without Smooth marks the output is arcs_spec itself: every vertex once, arcs expanded *)
Theorem vertices_arcs_only closed reverse (l l1 : list PVR) :
  rel_to_abs closed l = Some l1 -> nsmooth l1 = 0%nat ->
  vertices (mkPolygon closed reverse l) =
    Some (let vs := map (@pv_v ROps) (arcs_spec (wrap_prev closed l1) l1) in if reverse then rev vs else vs).
Proof.
  intros HR HS. unfold vertices, fixups. cbn [pg_closed pg_vlist pg_reverse]. rewrite HR, create_arcs_spec.
  cbv zeta.
  assert (Z : forall p (k : list PVR), nsmooth k = 0%nat -> nsmooth (arcs_spec p k) = 0%nat).
  { intros p k; revert p; induction k as [|v k IH]; intros p H; [reflexivity|]. cbn [arcs_spec].
    change (v :: k) with ([v] ++ k) in H. rewrite nsmooth_app in H. rewrite nsmooth_app, IH by lia.
    destruct (is_arc v) eqn:Ea.
    - unfold arc_block. rewrite nsmooth_app. destruct p; [rewrite nsmooth_plain|]; unfold nsmooth; cbn; reflexivity.
    - lia. }
  specialize (Z (wrap_prev closed l1) l1 HS).
  set (k := arcs_spec (wrap_prev closed l1) l1) in *. clearbody k.
  enough (EN : smooth_vertices closed k = k) by (rewrite EN; reflexivity).
  unfold smooth_vertices. apply until_done_noop. intros i. unfold smooth_vertex.
  destruct (nth_error k i) as [v|] eqn:Hv; [|reflexivity].
  assert (is_smooth v = false).
  { destruct (is_smooth v) eqn:Es; [|reflexivity]. exfalso.
    destruct (nth_error_split k i v Hv) as [El _]. rewrite El in Z.
    change (v :: skipn (S i) k) with ([v] ++ skipn (S i) k) in Z. rewrite !nsmooth_app in Z.
    unfold nsmooth in Z at 2. cbn in Z. rewrite Es in Z. cbn in Z. lia. }
  unfold is_smooth in H. rewrite H. reflexivity.
Qed.

(* ------------------------------------------------------------------ the class is inhabited *)
(* a right-angle corner: proper, and its tangent distance is the radius *)
Lemma perp_corner (p v n : V) r :
  v2dot (v2sub p v) (v2sub n v) = 0 -> 0 < v2len2 (v2sub p v) -> 0 < v2len2 (v2sub n v) ->
  corner_ok p v n /\ smooth_d1 p v n r = r.
Proof.
  intros HD H0 H1. pose proof (len_pos _ H0) as L0. pose proof (len_pos _ H1) as L1.
  assert (DOT : v2dot (smooth_v0 p v) (smooth_v0 n v) = 0).
  { unfold smooth_v0, v2normalize.
    set (a := v2len (v2sub p v)) in *. set (b := v2len (v2sub n v)) in *. clearbody a b.
    destruct (v2sub p v) as [x0 y0], (v2sub n v) as [x1 y1]. revert HD. rops. intros HD.
    replace (x0 * (1 / a) * (x1 * (1 / b)) + y0 * (1 / a) * (y1 * (1 / b)))
      with ((x0 * x1 + y0 * y1) / (a * b)) by (field; lra).
    rewrite HD. field. lra. }
  split.
  - split; [exact H0|]. split; [exact H1|].
    pose proof (lagrange (smooth_v0 n v) (smooth_v0 p v) (normalize_unit _ H1) (normalize_unit _ H0)) as LG.
    assert (D2 : v2dot (smooth_v0 n v) (smooth_v0 p v) = 0).
    { rewrite <- DOT. destruct (smooth_v0 n v), (smooth_v0 p v). rops. ring. }
    rewrite D2 in LG. intros E. rewrite E in LG. lra.
  - unfold smooth_d1, smooth_theta. rewrite DOT. rops. rewrite acos_0.
    replace (PI / 2 / (1 + 1)) with (PI / 4) by field. rewrite tan_PI4. field.
Qed.

Lemma len_of_sq (w : V) L : 0 <= L -> v2len2 w = L * L -> v2len w = L.
Proof. intros HL H. unfold v2len. rewrite H. cbn [osqrt ROps]. apply sqrt_square, HL. Qed.

(* a closed square of side 4 with all four corners marked Smooth(1, 2): adjacent fillets on
   every edge *)
Definition sq_corner (x y : R) : PVR := mkPV false PvSmooth (mkV2 x y) 2%Z 1.
Definition square : list PVR := [sq_corner 0 0; sq_corner 4 0; sq_corner 4 4; sq_corner 0 4].

Lemma square_facts j : (j < 4)%nat ->
  corner_ok (pos_of square (pidx square j)) (pos_of square j) (pos_of square (nidx square j)) /\
  cornerD square j = 1 /\ Lp square j = 4 /\ Ln square j = 4 /\ is_smooth (vtx square j) = true.
Proof.
  intros Hj.
  assert (C : (j = 0 \/ j = 1 \/ j = 2 \/ j = 3)%nat) by lia.
  destruct C as [ -> | [ -> | [ -> | -> ] ] ];
    unfold cornerD, Lp, Ln, pos_of, vtx, pidx, nidx;
    cbn [square length Nat.eqb Nat.sub nth pv_v pv_radius pv_facets sq_corner];
    match goal with |- corner_ok ?p ?v ?n /\ _ =>
      destruct (perp_corner p v n 1) as (CO & ED); [rops; ring | rops; lra | rops; lra |];
      rewrite ED;
      rewrite (len_of_sq (v2sub p v) 4) by (try lra; rops; ring);
      rewrite (len_of_sq (v2sub n v) 4) by (try lra; rops; ring)
    end;
    (split; [exact CO|]); repeat split; reflexivity.
Qed.

Example square_input_ok : smooth_input_ok true square.
Proof.
  intros j Hj _ _ _. destruct (square_facts j Hj) as (CO & ED & EP & EN & _).
  split; [exact CO|]. rewrite ED, EP, EN.
  assert (C : (j = 0 \/ j = 1 \/ j = 2 \/ j = 3)%nat) by (cbn in Hj; lia).
  destruct C as [ -> | [ -> | [ -> | -> ] ] ]; cbn; repeat split; try lra; try lia.
Qed.

(* what the theorem gives for it: every corner is replaced (a corner that was kept would have to
   be short of room, but 4 - 1 >= 1 on every edge), so the result is the four fillets in order *)
Example square_all_filleted :
  smooth_vertices true square = flat_map (fun j => map plain (fillet square j)) (seq 0 4).
Proof.
  destruct (smooth_vertices_whole true square square_input_ok) as (dn & E & _ & _ & P3 & _).
  cbv zeta in P3. rewrite E. change (length square) with 4%nat in *.
  assert (TR : forall k, (k < 4)%nat -> 0 <= (if dn k then cornerD square k else 0) <= 1).
  { intros k Hk. destruct (square_facts k Hk) as (_ & ED & _). rewrite ED. destruct (dn k); lra. }
  assert (ALL : forall j, (j < 4)%nat -> dn j = true).
  { intros j Hj. destruct (dn j) eqn:Hd; [reflexivity|]. exfalso.
    destruct (square_facts j Hj) as (_ & ED & EP & EN & SM).
    destruct (idx_facts square j Hj) as (Hp & Hn & _).
    specialize (P3 j Hj Hd SM eq_refl eq_refl). rewrite ED, EP, EN in P3.
    pose proof (TR _ Hp). pose proof (TR _ Hn). lra. }
  apply flat_map_ext_seq. intros j Hj. rewrite ALL by lia. reflexivity.
Qed.
