(* sdf/voxel.go: VoxelSDF3 (pre-computed lattice of values, trilinear interpolation).
   Model over Ops following NewVoxelSDF3 / Evaluate statement by statement; a missing map
   entry reads as 0 (Go's zero value), here the table is a total function. *)
From Coq Require Import ZArith List Bool.
From Sdfx Require Import Num.Ops Geo.Vec Geo.Box.
Import OpsNotations ListNotations.
Local Open Scope ops_scope.

Section Voxel.
  Context {O : Ops}.
  Notation T := (T O).
  Notation V3 := (V3 O).
  Definition I3 := (Z * Z * Z)%type.
  Definition i3add (a b : I3) : I3 :=
    let '(ax, ay, az) := a in let '(bx, by_, bz) := b in ((ax + bx)%Z, (ay + by_)%Z, (az + bz)%Z).
  (* conv.V3ToV3i / conv.V3iToV3 *)
  Definition v3toi (v : V3) : I3 := (otoZ O (wx v), otoZ O (wy v), otoZ O (wz v)).
  Definition itov3 (i : I3) : V3 := let '(x, y, z) := i in mkV3 (ofZ O x) (ofZ O y) (ofZ O z).

  Record voxel := mkVoxel { vtab : I3 -> T; vmin : V3; vmax : V3; vnum : I3 }.

  (* NewVoxelSDF3: number of cells and position of a lattice corner *)
  Definition voxel_cells (bmin bmax : V3) (meshCells : Z) : I3 :=
    let size := v3sub bmax bmin in
    let resolution := v3maxcomp size / ofZ O meshCells in
    let '(cx, cy, cz) := v3toi (v3muls size (o1 O / resolution)) in   (* DivScalar(b) = MulScalar(1/b) *)
    (Z.max cx 1, Z.max cy 1, Z.max cz 1).              (* at least one cell per axis *)
  Definition voxel_corner (bmin bmax : V3) (cells idx : I3) : V3 :=
    let size := v3sub bmax bmin in
    v3add bmin (v3div (v3mul size (itov3 idx)) (itov3 cells)).

  (* the 8 corners of the cell whose low corner is `s` *)
  Definition cell_corners (s : I3) : list I3 :=
    [ s; i3add s (0,0,1)%Z; i3add s (0,1,0)%Z; i3add s (0,1,1)%Z;
      i3add s (1,0,0)%Z; i3add s (1,0,1)%Z; i3add s (1,1,0)%Z; i3add s (1,1,1)%Z ].

  (* the cell index and the displacement inside the cell *)
  Definition voxel_locate (m : voxel) (p : V3) : I3 * V3 :=
    let voxelSize := v3div (v3sub (vmax m) (vmin m)) (itov3 (vnum m)) in
    let startIndex := v3toi (v3div (v3sub p (vmin m)) voxelSize) in
    let voxelStart := v3add (vmin m) (v3mul voxelSize (itov3 startIndex)) in
    (startIndex, v3div (v3sub p voxelStart) voxelSize).

  Definition trilinear (c : I3 -> T) (s : I3) (d : V3) : T :=
    let c000 := c s in
    let c001 := c (i3add s (0,0,1)%Z) in
    let c010 := c (i3add s (0,1,0)%Z) in
    let c011 := c (i3add s (0,1,1)%Z) in
    let c100 := c (i3add s (1,0,0)%Z) in
    let c101 := c (i3add s (1,0,1)%Z) in
    let c110 := c (i3add s (1,1,0)%Z) in
    let c111 := c (i3add s (1,1,1)%Z) in
    let c00 := c000 * (o1 O - wx d) + c100 * wx d in
    let c01 := c001 * (o1 O - wx d) + c101 * wx d in
    let c10 := c010 * (o1 O - wx d) + c110 * wx d in
    let c11 := c011 * (o1 O - wx d) + c111 * wx d in
    let c0 := c00 * (o1 O - wy d) + c10 * wy d in
    let c1 := c01 * (o1 O - wy d) + c11 * wy d in
    c0 * (o1 O - wz d) + c1 * wz d.

  (* VoxelSDF3.evaluateVoxel: interpolation for a point of the bounding box *)
  Definition voxel_cell_eval (m : voxel) (p : V3) : T :=
    let '(s, d) := voxel_locate m p in trilinear (vtab m) s d.

  (* VoxelSDF3.Evaluate: outside the box, the value at the nearest box point plus the distance to it *)
  Definition voxel_eval (m : voxel) (p : V3) : T :=
    if negb (box3_contains (mkBox3 (vmin m) (vmax m)) p)
    then let q := v3clamp p (vmin m) (vmax m) in voxel_cell_eval m q + v3len (v3sub p q)
    else voxel_cell_eval m p.

  (* a table given as an association list (what the hook dumps); missing entries are 0 *)
  Definition i3eqb (a b : I3) : bool :=
    let '(ax, ay, az) := a in let '(bx, by_, bz) := b in (ax =? bx)%Z && (ay =? by_)%Z && (az =? bz)%Z.
  Fixpoint tab_lookup (l : list (I3 * T)) (i : I3) : T :=
    match l with
    | [] => o0 O
    | (k, v) :: r => if i3eqb i k then v else tab_lookup r i
    end.
End Voxel.

(* ------------------------------------------------------------------ over the reals *)
From Coq Require Import Reals Lra Lia.
From Sdfx Require Import Num.RInst Geo.NormR.
Local Close Scope ops_scope.
Open Scope R_scope.

Lemma Int_part_IZR z : Int_part (IZR z) = z.
Proof.
  destruct (base_Int_part (IZR z)) as [L U].
  assert (A : (Int_part (IZR z) <= z)%Z) by (apply le_IZR; exact L).
  assert (B : (z < Int_part (IZR z) + 1)%Z) by (apply lt_IZR; rewrite plus_IZR; lra).
  lia.
Qed.
Lemma Rtrunc_IZR z : (0 <= z)%Z -> Rtrunc (IZR z) = z.
Proof.
  intros H. unfold Rtrunc. destruct (Rle_dec 0 (IZR z)) as [_|N]; [apply Int_part_IZR|].
  exfalso. apply N. apply IZR_le. exact H.
Qed.
Lemma Rtrunc_floor x : 0 <= x -> IZR (Rtrunc x) <= x < IZR (Rtrunc x) + 1.
Proof.
  intros H. unfold Rtrunc. destruct (Rle_dec 0 x); [|lra]. destruct (base_Int_part x). lra.
Qed.

(* one axis of voxel_locate *)
Definition loc1 (lo hi : R) (n : Z) (x : R) : Z * R :=
  let vs := (hi - lo) / IZR n in
  let i := Rtrunc ((x - lo) / vs) in
  (i, (x - (lo + vs * IZR i)) / vs).

Lemma voxel_locate_axes (m : @voxel ROps) (p : RV3) :
  let '(nx, ny, nz) := vnum m in
  @voxel_locate ROps m p =
  ((fst (loc1 (wx (vmin m)) (wx (vmax m)) nx (wx p)),
    fst (loc1 (wy (vmin m)) (wy (vmax m)) ny (wy p)),
    fst (loc1 (wz (vmin m)) (wz (vmax m)) nz (wz p))),
   mkV3 (snd (loc1 (wx (vmin m)) (wx (vmax m)) nx (wx p)))
        (snd (loc1 (wy (vmin m)) (wy (vmax m)) ny (wy p)))
        (snd (loc1 (wz (vmin m)) (wz (vmax m)) nz (wz p)))).
Proof.
  unfold voxel_locate. destruct (vnum m) as [[nx ny] nz]. reflexivity.
Qed.

Lemma loc1_corner lo hi n i : lo < hi -> (0 < n)%Z -> (0 <= i)%Z ->
  loc1 lo hi n (lo + (hi - lo) / IZR n * IZR i) = (i, 0).
Proof.
  intros H N I. unfold loc1.
  assert (NR : 0 < IZR n) by (apply IZR_lt; exact N).
  set (vs := (hi - lo) / IZR n). assert (VS : 0 < vs) by (apply Rdiv_lt_0_compat; lra).
  replace ((lo + vs * IZR i - lo) / vs) with (IZR i) by (field; lra).
  rewrite Rtrunc_IZR by exact I. f_equal. field. lra.
Qed.
Lemma loc1_inside lo hi n x : lo < hi -> (0 < n)%Z -> lo <= x ->
  let '(i, d) := loc1 lo hi n x in (0 <= i)%Z /\ 0 <= d < 1.
Proof.
  intros H N X. unfold loc1.
  assert (NR : 0 < IZR n) by (apply IZR_lt; exact N).
  set (vs := (hi - lo) / IZR n). assert (VS : 0 < vs) by (apply Rdiv_lt_0_compat; lra).
  set (t := (x - lo) / vs). assert (T0 : 0 <= t) by (apply Rmult_le_pos; [lra | left; apply Rinv_0_lt_compat, VS]).
  destruct (Rtrunc_floor t T0) as [L U]. set (i := Rtrunc t) in *.
  assert (E : (x - (lo + vs * IZR i)) / vs = t - IZR i) by (unfold t; field; lra).
  rewrite E. split; [|lra].
  assert (-1 < IZR i) by lra. assert ((-1 < i)%Z) by (apply lt_IZR; exact H0). lia.
Qed.

(* NewVoxelSDF3 never produces an axis without cells *)
Lemma voxel_cells_pos {O : Ops} (bmin bmax : V3 O) meshCells :
  let '(x, y, z) := voxel_cells bmin bmax meshCells in (0 < x)%Z /\ (0 < y)%Z /\ (0 < z)%Z.
Proof. unfold voxel_cells. destruct (v3toi _) as [[cx cy] cz]. lia. Qed.

Definition pos3 (n : I3) : Prop := let '(x, y, z) := n in (0 < x)%Z /\ (0 < y)%Z /\ (0 < z)%Z.
Definition nonneg3 (n : I3) : Prop := let '(x, y, z) := n in (0 <= x)%Z /\ (0 <= y)%Z /\ (0 <= z)%Z.
Definition lt3 (a b : RV3) : Prop := wx a < wx b /\ wy a < wy b /\ wz a < wz b.
Definition le3 (a b : RV3) : Prop := wx a <= wx b /\ wy a <= wy b /\ wz a <= wz b.

(* the lattice point with index i, as Evaluate lays the lattice out *)
Definition lattice_point (m : @voxel ROps) (i : I3) : RV3 :=
  let '(nx, ny, nz) := vnum m in let '(ix, iy, iz) := i in
  mkV3 (wx (vmin m) + (wx (vmax m) - wx (vmin m)) / IZR nx * IZR ix)
       (wy (vmin m) + (wy (vmax m) - wy (vmin m)) / IZR ny * IZR iy)
       (wz (vmin m) + (wz (vmax m) - wz (vmin m)) / IZR nz * IZR iz).

Definition le_i3 (a b : I3) : Prop :=
  let '(ax, ay, az) := a in let '(bx, by_, bz) := b in (ax <= bx)%Z /\ (ay <= by_)%Z /\ (az <= bz)%Z.

Lemma contains_true (m : @voxel ROps) (p : RV3) : le3 (vmin m) p -> le3 p (vmax m) ->
  @box3_contains ROps (mkBox3 (vmin m) (vmax m)) p = true.
Proof.
  intros (A1 & A2 & A3) (B1 & B2 & B3). unfold box3_contains. cbn [b3min b3max]. change (oleb ROps) with Rleb.
  repeat (apply andb_true_intro; split); apply Rleb_true; assumption.
Qed.
Lemma voxel_eval_inside (m : @voxel ROps) (p : RV3) : le3 (vmin m) p -> le3 p (vmax m) ->
  @voxel_eval ROps m p = @voxel_cell_eval ROps m p.
Proof. intros A B. unfold voxel_eval. rewrite contains_true by assumption. reflexivity. Qed.

Lemma lattice_axis lo hi n i : lo < hi -> (0 < n)%Z -> (0 <= i <= n)%Z ->
  lo <= lo + (hi - lo) / IZR n * IZR i <= hi.
Proof.
  intros H N [I0 I1]. assert (NR : 0 < IZR n) by (apply IZR_lt; exact N).
  assert (A : 0 <= IZR i) by (apply IZR_le; exact I0). assert (B : IZR i <= IZR n) by (apply IZR_le; exact I1).
  assert (VS : 0 < (hi - lo) / IZR n) by (apply Rdiv_lt_0_compat; lra).
  assert (E : (hi - lo) / IZR n * IZR n = hi - lo) by (field; lra).
  split; nra.
Qed.

(* at a lattice corner the voxel SDF returns the stored corner value *)
Theorem voxel_at_corner (m : @voxel ROps) (i : I3) :
  lt3 (vmin m) (vmax m) -> pos3 (vnum m) -> nonneg3 i -> le_i3 i (vnum m) ->
  @voxel_eval ROps m (lattice_point m i) = vtab m i.
Proof.
  intros (Hx & Hy & Hz) P I J.
  assert (IN : le3 (vmin m) (lattice_point m i) /\ le3 (lattice_point m i) (vmax m)).
  { unfold lattice_point, le3, pos3, nonneg3, le_i3 in *. destruct (vnum m) as [[nx ny] nz]. destruct i as [[ix iy] iz].
    destruct P as (Px & Py & Pz). destruct I as (Ix & Iy & Iz). destruct J as (Jx & Jy & Jz). cbn [wx wy wz].
    pose proof (lattice_axis _ _ nx ix Hx Px (conj Ix Jx)). pose proof (lattice_axis _ _ ny iy Hy Py (conj Iy Jy)).
    pose proof (lattice_axis _ _ nz iz Hz Pz (conj Iz Jz)). repeat split; lra. }
  rewrite voxel_eval_inside by tauto. clear IN J.
  unfold voxel_cell_eval. pose proof (voxel_locate_axes m (lattice_point m i)) as A.
  unfold lattice_point in *. destruct (vnum m) as [[nx ny] nz]. destruct i as [[ix iy] iz].
  destruct P as (Px & Py & Pz). destruct I as (Ix & Iy & Iz). cbn [wx wy wz] in A.
  rewrite !loc1_corner in A by assumption. cbn [fst snd] in A. rewrite A.
  unfold trilinear. cbn [wx wy wz]. cbn. ring.
Qed.

Lemma lerp_range lo hi a b d : 0 <= d <= 1 -> lo <= a <= hi -> lo <= b <= hi ->
  lo <= a * (1 - d) + b * d <= hi.
Proof. intros D A B. split; nra. Qed.

(* inside a cell the trilinear value lies between the least and the greatest of its eight corners *)
Theorem trilinear_in_range (c : I3 -> R) (s : I3) (d : RV3) lo hi :
  0 <= wx d <= 1 -> 0 <= wy d <= 1 -> 0 <= wz d <= 1 ->
  (forall k, In k (cell_corners s) -> lo <= c k <= hi) ->
  lo <= @trilinear ROps c s d <= hi.
Proof.
  intros Dx Dy Dz C. unfold trilinear. cbv zeta.
  change (o1 ROps) with 1. change (omul ROps) with Rmult. change (oadd ROps) with Rplus. change (osub ROps) with Rminus.
  assert (C0 := C s ltac:(cbn; auto)).
  assert (C1 := C (i3add s (0,0,1)%Z) ltac:(cbn; auto)).
  assert (C2 := C (i3add s (0,1,0)%Z) ltac:(cbn; auto)).
  assert (C3 := C (i3add s (0,1,1)%Z) ltac:(cbn; auto 10)).
  assert (C4 := C (i3add s (1,0,0)%Z) ltac:(cbn; auto 10)).
  assert (C5 := C (i3add s (1,0,1)%Z) ltac:(cbn; auto 10)).
  assert (C6 := C (i3add s (1,1,0)%Z) ltac:(cbn; auto 10)).
  assert (C7 := C (i3add s (1,1,1)%Z) ltac:(cbn; auto 10)).
  apply lerp_range; [assumption | |]; (apply lerp_range; [assumption | |]; apply lerp_range; assumption).
Qed.

Theorem voxel_in_range (m : @voxel ROps) (p : RV3) lo hi :
  lt3 (vmin m) (vmax m) -> pos3 (vnum m) -> le3 (vmin m) p -> le3 p (vmax m) ->
  let s := fst (@voxel_locate ROps m p) in
  nonneg3 s /\
  ((forall k, In k (cell_corners s) -> lo <= vtab m k <= hi) -> lo <= @voxel_eval ROps m p <= hi).
Proof.
  intros (Hx & Hy & Hz) P L U. rewrite voxel_eval_inside by assumption. destruct L as (Lx & Ly & Lz).
  cbv zeta. unfold voxel_cell_eval.
  pose proof (voxel_locate_axes m p) as A. destruct (vnum m) as [[nx ny] nz]. destruct P as (Px & Py & Pz).
  pose proof (loc1_inside _ _ nx (wx p) Hx Px Lx) as Bx.
  pose proof (loc1_inside _ _ ny (wy p) Hy Py Ly) as By.
  pose proof (loc1_inside _ _ nz (wz p) Hz Pz Lz) as Bz.
  rewrite A. destruct (loc1 _ _ nx _) as [ix dx]. destruct (loc1 _ _ ny _) as [iy dy]. destruct (loc1 _ _ nz _) as [iz dz].
  cbn [fst snd]. split; [cbn; tauto|]. intros C.
  apply trilinear_in_range; cbn [wx wy wz]; try lra; exact C.
Qed.

(* outside the box: the value at the nearest point of the box plus the Euclidean distance to it *)
Theorem voxel_outside (m : @voxel ROps) (p : RV3) :
  @box3_contains ROps (mkBox3 (vmin m) (vmax m)) p = false ->
  let q := @v3clamp ROps p (vmin m) (vmax m) in
  @voxel_eval ROps m p = @voxel_cell_eval ROps m q + dist3 p q.
Proof. intros H. unfold voxel_eval. rewrite H. reflexivity. Qed.
