(* The thread database (sdf/screw.go: initThreadLookup, UTSAdd/ISOAdd/NPTAdd, ToMillimetre).
   Rows and the field expressions come from Generated/Threads.v (regenerated from the Go source
   on every run).  Finite facts: boolean checkers run by vm_compute + soundness lemmas. *)
From Coq Require Import ZArith QArith Qabs String Ascii List Bool Lia Reals Lra.
From Sdfx Require Import Num.Ops.
From Sdfx Require Import Num.QInst.
From Sdfx Require Import Num.RInst.
From Sdfx Require Import Generated.Threads.
Import ListNotations.
Local Open Scope Q_scope.
Local Open Scope string_scope.

(* ------------------------------------------------------------------ rows as exact rationals *)

Definition row := (string * addfn * (Q * Q * Q))%type.
Definition row_name (r : row) : string := let '(n, _, _) := r in n.
Definition row_fn (r : row) : addfn := let '(_, f, _) := r in f.
Definition row_diameter (r : row) : Q := let '(_, _, (a, _, _)) := r in a.
Definition row_second (r : row) : Q := let '(_, _, (_, b, _)) := r in b.   (* tpi, or pitch for ISO *)
Definition row_ftof (r : row) : Q := let '(_, _, (_, _, c)) := r in c.

(* the exact constant n/d as the Add function receives it *)
Definition q2q (q : Q) : Q := @cst QOps (Qnum q) (Zpos (Qden q)).
(* the database entry of a row, in exact rational arithmetic *)
Definition build_q (r : row) : ThreadParameters QOps :=
  let '(n, f, (a, b, c)) := r in @apply_add QOps f n (q2q a) (q2q b) (q2q c).

Lemma q2q_eq q : q2q q == q.
Proof.
  assert (E : q2q q = Qred (Qdiv (inject_Z (Qnum q)) (inject_Z (Zpos (Qden q))))) by reflexivity.
  rewrite E. etransitivity; [apply Qred_correct|].
  destruct q as [n d]; cbn. unfold Qdiv, Qmult, Qinv, Qeq; cbn. lia.
Qed.

(* ------------------------------------------------------------------ a parser of M<d>x<P> *)

Definition digit_of (c : ascii) : option Z :=
  let n := N_of_ascii c in
  if ((48 <=? n) && (n <=? 57))%N then Some (Z.of_N n - 48)%Z else None.

(* longest run of digits: value so far, number of digits read, rest *)
Fixpoint read_digits (s : string) (acc : Z) (cnt : nat) : Z * nat * string :=
  match s with
  | String c r =>
    match digit_of c with
    | Some d => read_digits r (10 * acc + d)%Z (S cnt)
    | None => (acc, cnt, s)
    end
  | EmptyString => (acc, cnt, s)
  end.

(* <digits>[.<digits>] -> value, rest *)
Definition parse_dec (s : string) : option (Q * string) :=
  let '(ip, n, r) := read_digits s 0%Z 0%nat in
  match n with
  | Datatypes.O => None
  | _ =>
    match r with
    | String "." r' =>
      let '(fp, m, r'') := read_digits r' 0%Z 0%nat in
      match m with
      | Datatypes.O => None
      | _ => Some (Qred (inject_Z ip + Qmake fp (Pos.pow 10 (Pos.of_nat m))), r'')
      end
    | _ => Some (inject_Z ip, r)
    end
  end.

(* "M<d>x<P>" -> (nominal diameter, pitch) in millimetres *)
Definition parse_iso (s : string) : option (Q * Q) :=
  match s with
  | String "M" r =>
    match parse_dec r with
    | Some (d, String "x" r') =>
      match parse_dec r' with
      | Some (p, EmptyString) => Some (d, p)
      | _ => None
      end
    | _ => None
    end
  | _ => None
  end.

(* specification of the parser: printing digit lists and reading them back *)
Definition digit_char (d : Z) : ascii := ascii_of_N (Z.to_N (d + 48)).
Fixpoint digits_str (ds : list Z) (tail : string) : string :=
  match ds with
  | [] => tail
  | d :: r => String (digit_char d) (digits_str r tail)
  end.
Definition is_digit (d : Z) : Prop := (0 <= d <= 9)%Z.
Definition digits_val (ds : list Z) (acc : Z) : Z := fold_left (fun a d => (10 * a + d)%Z) ds acc.
(* value of <ip>.<fp> *)
Definition dec_val (ip fp : list Z) : Q :=
  match fp with
  | [] => inject_Z (digits_val ip 0)
  | _ => inject_Z (digits_val ip 0) + Qmake (digits_val fp 0) (Pos.pow 10 (Pos.of_nat (List.length fp)))
  end.
Definition dec_str (ip fp : list Z) (tail : string) : string :=
  match fp with
  | [] => digits_str ip tail
  | _ => digits_str ip (String "." (digits_str fp tail))
  end.
(* the next character does not continue the number *)
Definition stops (tail : string) : Prop :=
  match tail with
  | EmptyString => True
  | String c _ => digit_of c = None /\ c <> "."%char
  end.

Lemma digit_of_char d : is_digit d -> digit_of (digit_char d) = Some d.
Proof.
  unfold is_digit. intros H.
  assert (E : (d = 0 \/ d = 1 \/ d = 2 \/ d = 3 \/ d = 4 \/ d = 5 \/ d = 6 \/ d = 7 \/ d = 8 \/ d = 9)%Z) by lia.
  repeat (destruct E as [E | E]; [subst d; reflexivity|]). subst d; reflexivity.
Qed.

Lemma read_digits_str ds : Forall is_digit ds -> forall tail acc cnt,
  (match tail with EmptyString => True | String c _ => digit_of c = None end) ->
  read_digits (digits_str ds tail) acc cnt = (digits_val ds acc, (cnt + List.length ds)%nat, tail).
Proof.
  induction 1 as [| d ds Hd Hds IH]; intros tail acc cnt Ht; cbn [digits_str digits_val fold_left List.length].
  - rewrite Nat.add_0_r. destruct tail as [| c r]; cbn; [reflexivity|]. rewrite Ht. reflexivity.
  - cbn [read_digits]. rewrite (digit_of_char d Hd). rewrite IH by exact Ht.
    unfold digits_val. f_equal. f_equal. lia.
Qed.

Lemma parse_dec_spec ip fp tail : ip <> [] -> Forall is_digit ip -> Forall is_digit fp -> stops tail ->
  exists q, parse_dec (dec_str ip fp tail) = Some (q, tail) /\ q == dec_val ip fp.
Proof.
  intros Hne Hip Hfp Hst. unfold parse_dec, dec_str, dec_val.
  destruct fp as [| f fp'].
  - rewrite (read_digits_str ip Hip tail 0%Z 0%nat).
    2:{ destruct tail; [exact I | apply Hst]. }
    cbn [Nat.add]. destruct ip as [| i ip']; [contradiction|]. cbn [List.length].
    destruct tail as [| c r].
    + eexists; split; [reflexivity | reflexivity].
    + destruct Hst as [_ Hdot].
      destruct (ascii_dec c "."%char) as [-> | Hc]; [contradiction|].
      exists (inject_Z (digits_val (i :: ip') 0)). split; [| reflexivity].
      destruct c as [[] [] [] [] [] [] [] []]; try reflexivity. contradiction Hc; reflexivity.
  - rewrite (read_digits_str ip Hip _ 0%Z 0%nat) by reflexivity.
    cbn [Nat.add]. destruct ip as [| i ip']; [contradiction|]. cbn [List.length].
    rewrite (read_digits_str (f :: fp') Hfp tail 0%Z 0%nat).
    2:{ destruct tail; [exact I | apply Hst]. }
    cbn [Nat.add List.length].
    eexists; split; [reflexivity|]. apply Qred_correct.
Qed.

(* reading back a printed designation M<d>x<P> gives the printed numbers *)
Lemma parse_iso_spec dI dF pI pF : dI <> [] -> pI <> [] ->
  Forall is_digit dI -> Forall is_digit dF -> Forall is_digit pI -> Forall is_digit pF ->
  exists d p, parse_iso (String "M" (dec_str dI dF (String "x" (dec_str pI pF EmptyString)))) = Some (d, p)
              /\ d == dec_val dI dF /\ p == dec_val pI pF.
Proof.
  intros HdI HpI FdI FdF FpI FpF. unfold parse_iso.
  destruct (parse_dec_spec dI dF (String "x" (dec_str pI pF EmptyString)) HdI FdI FdF) as [d [E1 Q1]].
  { cbn. split; [reflexivity | discriminate]. }
  destruct (parse_dec_spec pI pF EmptyString HpI FpI FpF I) as [p [E2 Q2]].
  rewrite E1, E2. exists d, p. auto.
Qed.

(* ------------------------------------------------------------------ reference data *)

(* ASME B1.1 unified coarse and fine series: designation -> (major diameter [inch], threads per inch).
   Numbered sizes: diameter = 0.060 + 0.013 N. *)
Definition uts_reference : list (string * (Q * Q)) := [
  ("unc_4_40", (112#1000, 40#1)); ("unc_6_32", (138#1000, 32#1)); ("unc_8_32", (164#1000, 32#1));
  ("unc_10_24", (190#1000, 24#1));
  ("unc_1/4", (1#4, 20#1)); ("unc_5/16", (5#16, 18#1)); ("unc_3/8", (3#8, 16#1)); ("unc_7/16", (7#16, 14#1));
  ("unc_1/2", (1#2, 13#1)); ("unc_9/16", (9#16, 12#1)); ("unc_5/8", (5#8, 11#1)); ("unc_3/4", (3#4, 10#1));
  ("unc_7/8", (7#8, 9#1)); ("unc_1", (1#1, 8#1));
  ("unf_4_48", (112#1000, 48#1)); ("unf_6_40", (138#1000, 40#1)); ("unf_8_36", (164#1000, 36#1));
  ("unf_10_32", (190#1000, 32#1));
  ("unf_1/4", (1#4, 28#1)); ("unf_5/16", (5#16, 24#1)); ("unf_3/8", (3#8, 24#1)); ("unf_7/16", (7#16, 20#1));
  ("unf_1/2", (1#2, 20#1)); ("unf_9/16", (9#16, 18#1)); ("unf_5/8", (5#8, 18#1)); ("unf_3/4", (3#4, 16#1));
  ("unf_7/8", (7#8, 14#1)); ("unf_1", (1#1, 12#1)) ].

(* ASME B1.20.1 NPT: designation -> (outside diameter of the pipe [inch], threads per inch); taper 1 in 16
   on the diameter = 1 in 32 on the radius *)
Definition npt_reference : list (string * (Q * Q)) := [
  ("npt_1/8", (405#1000, 27#1)); ("npt_1/4", (540#1000, 18#1)); ("npt_3/8", (675#1000, 18#1));
  ("npt_1/2", (840#1000, 14#1)); ("npt_3/4", (1050#1000, 14#1)); ("npt_1", (1315#1000, 23#2));
  ("npt_1_1/4", (1660#1000, 23#2)); ("npt_1_1/2", (1900#1000, 23#2)); ("npt_2", (2375#1000, 23#2));
  ("npt_2_1/2", (2875#1000, 8#1)); ("npt_3", (3500#1000, 8#1)); ("npt_4", (4500#1000, 8#1)) ].

Fixpoint assoc (k : string) (l : list (string * (Q * Q))) : option (Q * Q) :=
  match l with
  | [] => None
  | (k', v) :: r => if String.eqb k k' then Some v else assoc k r
  end.

(* ------------------------------------------------------------------ what a row must satisfy *)

(* radius = d/2, pitch = p, millimetres, no taper *)
Definition entry_is (t : ThreadParameters QOps) (name : string) (radius pitch : Q) (units : string) : Prop :=
  Name t = name /\ Radius t == radius /\ Pitch t == pitch /\ Units t = units.
Definition entry_isb (t : ThreadParameters QOps) (name : string) (radius pitch : Q) (units : string) : bool :=
  String.eqb (Name t) name && Qeq_bool (Radius t) radius && Qeq_bool (Pitch t) pitch && String.eqb (Units t) units.
Lemma entry_isb_sound t n r p u : entry_isb t n r p u = true -> entry_is t n r p u.
Proof.
  unfold entry_isb, entry_is. rewrite !andb_true_iff. intros [[[H1 H2] H3] H4].
  apply String.eqb_eq in H1, H4. apply Qeq_bool_iff in H2, H3. auto.
Qed.

Definition iso_row_ok (r : row) : Prop :=
  exists d p, parse_iso (row_name r) = Some (d, p) /\
              entry_is (build_q r) (row_name r) (d / 2) p "mm" /\ Taper (build_q r) == 0.
Definition iso_row_okb (r : row) : bool :=
  match parse_iso (row_name r) with
  | Some (d, p) => entry_isb (build_q r) (row_name r) (d / 2) p "mm" && Qeq_bool (Taper (build_q r)) 0
  | None => false
  end.

Definition ref_row_ok (ref : list (string * (Q * Q))) (r : row) : Prop :=
  exists d tpi, assoc (row_name r) ref = Some (d, tpi) /\
                entry_is (build_q r) (row_name r) (d / 2) (1 / tpi) "inch".
Definition ref_row_okb (ref : list (string * (Q * Q))) (r : row) : bool :=
  match assoc (row_name r) ref with
  | Some (d, tpi) => entry_isb (build_q r) (row_name r) (d / 2) (1 / tpi) "inch"
  | None => false
  end.

Definition is_fn (f : addfn) (r : row) : bool :=
  match f, row_fn r with
  | ISOAdd_row, ISOAdd_row | UTSAdd_row, UTSAdd_row | NPTAdd_row, NPTAdd_row => true
  | _, _ => false
  end.
Lemma is_fn_true f r : is_fn f r = true <-> row_fn r = f.
Proof. unfold is_fn. destruct f, (row_fn r); split; intros; try reflexivity; try discriminate. Qed.

(* ---- soundness of the three checkers *)
Lemma iso_rows_sound rows :
  forallb (fun r => implb (is_fn ISOAdd_row r) (iso_row_okb r)) rows = true ->
  forall r, In r rows -> row_fn r = ISOAdd_row -> iso_row_ok r.
Proof.
  intros H r Hin Hf. rewrite forallb_forall in H. specialize (H r Hin).
  apply is_fn_true in Hf. rewrite Hf in H. cbn in H.
  unfold iso_row_okb in H. unfold iso_row_ok.
  destruct (parse_iso (row_name r)) as [[d p] |]; [| discriminate].
  apply andb_true_iff in H. destruct H as [H1 H2].
  exists d, p. split; [reflexivity|]. split; [apply entry_isb_sound; exact H1 | apply Qeq_bool_iff; exact H2].
Qed.

Lemma ref_rows_sound f ref rows :
  forallb (fun r => implb (is_fn f r) (ref_row_okb ref r)) rows = true ->
  forall r, In r rows -> row_fn r = f -> ref_row_ok ref r.
Proof.
  intros H r Hin Hf. rewrite forallb_forall in H. specialize (H r Hin).
  apply is_fn_true in Hf. rewrite Hf in H. cbn in H.
  unfold ref_row_okb in H. unfold ref_row_ok.
  destruct (assoc (row_name r) ref) as [[d tpi] |]; [| discriminate].
  exists d, tpi. split; [reflexivity | apply entry_isb_sound; exact H].
Qed.

(* ---- the database of this source tree *)
Lemma iso_rows_match_name : forall r, In r thread_rows -> row_fn r = ISOAdd_row -> iso_row_ok r.
Proof. apply iso_rows_sound. vm_compute. reflexivity. Qed.

Lemma uts_rows_match_standard : forall r, In r thread_rows -> row_fn r = UTSAdd_row -> ref_row_ok uts_reference r.
Proof. apply ref_rows_sound. vm_compute. reflexivity. Qed.

Lemma npt_rows_match_standard : forall r, In r thread_rows -> row_fn r = NPTAdd_row -> ref_row_ok npt_reference r.
Proof. apply ref_rows_sound. vm_compute. reflexivity. Qed.

(* the designation decides the family: M... rows are ISO rows, unc_/unf_ unified, npt_ pipe *)
Definition family_okb (r : row) : bool :=
  match row_name r with
  | String "M" _ => is_fn ISOAdd_row r
  | String "u" (String "n" (String "c" (String "_" _))) => is_fn UTSAdd_row r
  | String "u" (String "n" (String "f" (String "_" _))) => is_fn UTSAdd_row r
  | String "n" (String "p" (String "t" (String "_" _))) => is_fn NPTAdd_row r
  | _ => false
  end.
Definition family_ok (r : row) : Prop :=
  (exists s, row_name r = String "M" s /\ row_fn r = ISOAdd_row) \/
  (exists s, (row_name r = "unc_" ++ s \/ row_name r = "unf_" ++ s) /\ row_fn r = UTSAdd_row) \/
  (exists s, row_name r = "npt_" ++ s /\ row_fn r = NPTAdd_row).
Lemma family_okb_sound r : family_okb r = true -> family_ok r.
Proof.
  unfold family_okb, family_ok. destruct (row_name r) as [| c s] eqn:E; [discriminate|].
  destruct c as [[] [] [] [] [] [] [] []]; try discriminate.
  - (* M *) intros H. left. exists s. split; [reflexivity | apply is_fn_true; exact H].
  - (* u *) destruct s as [| c1 s]; [discriminate|].
    destruct c1 as [[] [] [] [] [] [] [] []]; try discriminate.
    destruct s as [| c2 s]; [discriminate|].
    destruct c2 as [[] [] [] [] [] [] [] []]; try discriminate;
      (destruct s as [| c3 s]; [discriminate|]);
      destruct c3 as [[] [] [] [] [] [] [] []]; try discriminate;
      intros H; right; left; exists s; (split; [| apply is_fn_true; exact H]); [left | right]; reflexivity.
  - (* n *) destruct s as [| c1 s]; [discriminate|].
    destruct c1 as [[] [] [] [] [] [] [] []]; try discriminate.
    destruct s as [| c2 s]; [discriminate|].
    destruct c2 as [[] [] [] [] [] [] [] []]; try discriminate.
    destruct s as [| c3 s]; [discriminate|].
    destruct c3 as [[] [] [] [] [] [] [] []]; try discriminate.
    intros H; right; right; exists s; split; [reflexivity | apply is_fn_true; exact H].
Qed.
Lemma rows_family : forall r, In r thread_rows -> family_ok r.
Proof.
  intros r Hin. apply family_okb_sound.
  assert (H : forallb family_okb thread_rows = true) by (vm_compute; reflexivity).
  rewrite forallb_forall in H. exact (H r Hin).
Qed.

(* no designation is added twice (a Go map would silently keep the later row) *)
Fixpoint nodupb (l : list string) : bool :=
  match l with
  | [] => true
  | x :: r => negb (existsb (String.eqb x) r) && nodupb r
  end.
Lemma nodupb_sound l : nodupb l = true -> NoDup l.
Proof.
  induction l as [| x r IH]; cbn; intros H; [constructor|].
  apply andb_true_iff in H. destruct H as [H1 H2]. constructor; [| exact (IH H2)].
  intros Hin. apply negb_true_iff in H1.
  assert (E : existsb (String.eqb x) r = true).
  { apply existsb_exists. exists x. split; [exact Hin | apply String.eqb_refl]. }
  rewrite E in H1. discriminate.
Qed.
Lemma rows_names_distinct : NoDup (map row_name thread_rows).
Proof. apply nodupb_sound. vm_compute. reflexivity. Qed.

(* no row makes its Add function panic (the guarded arguments are positive), and every length is positive *)
Definition row_arg (r : row) (i : nat) : Q :=
  match i with 0%nat => row_diameter r | 1%nat => row_second r | _ => row_ftof r end.
Definition positive_okb (r : row) : bool :=
  forallb (fun i => negb (Qle_bool (row_arg r i) 0)) (add_guards (row_fn r)) &&
  negb (Qle_bool (Radius (build_q r)) 0) && negb (Qle_bool (Pitch (build_q r)) 0).
Definition positive_ok (r : row) : Prop :=
  (forall i, In i (add_guards (row_fn r)) -> 0 < row_arg r i) /\ 0 < Radius (build_q r) /\ 0 < Pitch (build_q r).
Lemma negb_Qle_bool x : negb (Qle_bool x 0) = true -> 0 < x.
Proof.
  intros H. apply negb_true_iff in H. apply Qnot_le_lt. intros Hle.
  apply Qle_bool_iff in Hle. rewrite Hle in H. discriminate.
Qed.
Lemma rows_positive : forall r, In r thread_rows -> positive_ok r.
Proof.
  assert (H : forallb positive_okb thread_rows = true) by (vm_compute; reflexivity).
  intros r Hin. rewrite forallb_forall in H. specialize (H r Hin).
  unfold positive_okb in H. rewrite !andb_true_iff in H. destruct H as [[H1 H2] H3].
  split; [| split; apply negb_Qle_bool; assumption].
  intros i Hi. rewrite forallb_forall in H1. apply negb_Qle_bool. exact (H1 i Hi).
Qed.

(* ------------------------------------------------------------------ the Add functions, for ALL arguments (reals) *)

Local Open Scope R_scope.

(* the generated field expressions are arithmetic over the constants 0, 1, 2, 1/2, n/d: the proofs
   below only use their values, so an algebraically equivalent rewrite of the Go text still passes *)
Ltac rconst := cbn; unfold cst, half, two; cbn.

Lemma radius_is_half_diameter : forall f n (a b c : R), Radius (@apply_add ROps f n a b c) = a / 2.
Proof. intros [] n a b c; rconst; lra. Qed.

Lemma pitch_is_inverse_tpi : forall f n (a b c : R), f <> ISOAdd_row -> Pitch (@apply_add ROps f n a b c) = 1 / b.
Proof.
  intros [] n a b c Hf; try contradiction; rconst; unfold Rdiv; try rewrite Rinv_1; try lra;
    destruct (Req_dec b 0) as [-> | Hb]; try (rewrite Rinv_0; lra); field; exact Hb.
Qed.

Lemma iso_pitch_is_pitch : forall n (a b c : R), Pitch (@apply_add ROps ISOAdd_row n a b c) = b.
Proof. intros; rconst; lra. Qed.

Lemma npt_taper_is_1_in_32 : forall n (a b c : R), tan (Taper (@apply_add ROps NPTAdd_row n a b c)) = 1 / 32.
Proof.
  intros. rconst.
  match goal with |- tan (atan ?x) = _ => rewrite (tan_atan x) end. lra.
Qed.

Lemma straight_taper_zero : forall f n (a b c : R), f <> NPTAdd_row -> Taper (@apply_add ROps f n a b c) = 0.
Proof. intros [] n a b c Hf; try contradiction; rconst; lra. Qed.

Lemma add_units : forall f n (a b c : R),
  Units (@apply_add ROps f n a b c) = match f with ISOAdd_row => "mm"%string | _ => "inch"%string end.
Proof. intros [] n a b c; reflexivity. Qed.

(* ------------------------------------------------------------------ ToMillimetre *)

Lemma to_mm_scales : forall t : ThreadParameters ROps, Units t <> "mm"%string ->
  let m := ToMillimetre t in
  Radius m = Radius t * 25.4 /\ Pitch m = Pitch t * 25.4 /\ HexFlat2Flat m = HexFlat2Flat t * 25.4 /\
  Taper m = Taper t /\ Name m = Name t /\ Units m = "mm"%string.
Proof.
  intros t Hu. unfold ToMillimetre. destruct (String.eqb (Units t) "mm") eqn:E.
  - apply String.eqb_eq in E. contradiction.
  - rconst. repeat split; lra.
Qed.

Lemma to_mm_keeps_mm : forall (O : Ops) (t : ThreadParameters O), Units t = "mm"%string -> ToMillimetre t = t.
Proof. intros O t Hu. unfold ToMillimetre. destruct t; cbn in Hu |- *; subst; reflexivity. Qed.

Lemma to_mm_units : forall (O : Ops) (t : ThreadParameters O), Units (ToMillimetre t) = "mm"%string.
Proof.
  intros O t. unfold ToMillimetre. destruct (String.eqb (Units t) "mm") eqn:E; cbn.
  - apply String.eqb_eq. exact E.
  - reflexivity.
Qed.

Lemma to_mm_idempotent : forall (O : Ops) (t : ThreadParameters O), ToMillimetre (ToMillimetre t) = ToMillimetre t.
Proof. intros O t. apply to_mm_keeps_mm. apply to_mm_units. Qed.

(* the generated unit constants *)
Lemma mm_per_inch : MillimetresPerInch_q == 254 # 10 /\ InchesPerMillimetre_q * MillimetresPerInch_q == 1.
Proof. split; vm_compute; reflexivity. Qed.

(* the database has rows of all three families *)
Lemma rows_example :
  exists a b c, In a thread_rows /\ row_fn a = ISOAdd_row /\ In b thread_rows /\ row_fn b = UTSAdd_row /\
                In c thread_rows /\ row_fn c = NPTAdd_row.
Proof.
  destruct (find (is_fn ISOAdd_row) thread_rows) as [a |] eqn:Ea; [| vm_compute in Ea; discriminate].
  destruct (find (is_fn UTSAdd_row) thread_rows) as [b |] eqn:Eb; [| vm_compute in Eb; discriminate].
  destruct (find (is_fn NPTAdd_row) thread_rows) as [c |] eqn:Ec; [| vm_compute in Ec; discriminate].
  apply find_some in Ea, Eb, Ec. exists a, b, c.
  destruct Ea as [Ia Fa], Eb as [Ib Fb], Ec as [Ic Fc].
  apply is_fn_true in Fa, Fb, Fc. tauto.
Qed.
