(* C01 over the reals, part 4: the extrusion family (Extrude, TwistExtrude, ScaleExtrude,
   ScaleTwistExtrude, ExtrudeRounded, Loft). *)
From Coq Require Import Reals Lra Lia List Bool ZArith Psatz.
From Sdfx Require Import Num.Ops Num.RInst Geo.Vec Geo.Box Geo.BoxR Geo.MinMaxR Geo.NormR Geo.Mat
  Sdf.Union2 Sdf.Shape Sdf.ShapeR Sdf.EncloseR.
Import ListNotations.
Open Scope R_scope.

(* ------------------------------------------------------------ Extrude3D
   Go's Extrude3D family does not validate the height: the box is ordered iff height >= 0. *)
Lemma extrude_enc s h o : 0 <= h -> @k_extrude ROps s h = Some o -> enc2 s -> enc3 o.
Proof.
  intros Hh H [[Hx Hy] Hs]. unfold k_extrude, extrude_ev, ex_normal in H; cbn in H. injection H as <-.
  split; cbn [bb3 ev3]; [unfold ordered3; cbn; lra|].
  intros p Hp. pose proof (Rmax_l (ev2 s (mkV2 (wx p) (wy p))) (Rabs (wz p) - h / (1 + 1))).
  pose proof (Rmax_r (ev2 s (mkV2 (wx p) (wy p))) (Rabs (wz p) - h / (1 + 1))).
  destruct (Hs (mkV2 (wx p) (wy p)) ltac:(lra)) as [Ix Iy]. cbn in Ix, Iy.
  assert (Az : Rabs (wz p) < h / (1 + 1)) by lra. apply Rabs_lt_inv in Az.
  unfold in_box3; cbn. lra.
Qed.
Lemma extrude_lbinf s h o : 0 <= h -> @k_extrude ROps s h = Some o -> lbinf_2 s -> lbinf_3 o.
Proof.
  intros Hh H Hs. unfold k_extrude, extrude_ev, ex_normal in H; cbn in H. injection H as <-.
  destruct Hs as [[Hx Hy] Hs']. pose proof (conj (conj Hx Hy) Hs' : lbinf_2 s) as Hs.
  apply lbinf3_intro; cbn [bb3 ev3]; [unfold ordered3; cbn; lra|].
  intros p Hout. unfold slab3; cbn.
  pose proof (Rmax_l (ev2 s (mkV2 (wx p) (wy p))) (Rabs (wz p) - h / (1 + 1))).
  pose proof (Rmax_r (ev2 s (mkV2 (wx p) (wy p))) (Rabs (wz p) - h / (1 + 1))).
  pose proof (Rabs_ge_l (wz p)). pose proof (Rabs_ge_r (wz p)).
  destruct (classic_in_box2 (bb2 s) (mkV2 (wx p) (wy p))) as [Hin|Hout2].
  - destruct Hin as [Ix Iy]; cbn in Ix, Iy.
    assert (Hz : ~ (- (h / (1 + 1)) <= wz p <= h / (1 + 1))) by (intros Hz; apply Hout; unfold in_box3; cbn; lra).
    repeat split; lra.
  - pose proof (lbinf2_elim s _ Hs Hout2) as (A & B & C & D); cbn in A, B, C, D. repeat split; lra.
Qed.

(* ------------------------------------------------------------ the farthest corner of a box *)
Lemma sq_le_ends (lo hi q : R) : lo <= q <= hi -> q * q <= lo * lo \/ q * q <= hi * hi.
Proof. intros H. destruct (Rle_dec 0 q); [right | left]; nra. Qed.

Lemma max_radius_bound b q : in_box2 b q -> len2 q <= @box2_max_radius ROps b.
Proof.
  intros [Hx Hy]. unfold box2_max_radius, box2_vertices; cbn [fold_left].
  change (omax ROps) with Rmax. change (o0 ROps) with 0.
  set (l00 := v2len (b2min b)). set (l10 := v2len _). set (l01 := v2len _). set (l11 := v2len (b2max b)).
  pose proof (Rmax_l (Rmax (Rmax (Rmax 0 l00) l10) l01) l11). pose proof (Rmax_r (Rmax (Rmax (Rmax 0 l00) l10) l01) l11).
  pose proof (Rmax_l (Rmax (Rmax 0 l00) l10) l01). pose proof (Rmax_r (Rmax (Rmax 0 l00) l10) l01).
  pose proof (Rmax_l (Rmax 0 l00) l10). pose proof (Rmax_r (Rmax 0 l00) l10). pose proof (Rmax_r 0 l00).
  assert (M : forall cx cy : R, vx q * vx q <= cx * cx -> vy q * vy q <= cy * cy -> len2 q <= len2 (mkV2 cx cy)).
  { intros cx cy A B. unfold len2; cbn. apply sqrt_le_1_alt. lra. }
  destruct (sq_le_ends _ _ _ Hx) as [Ax|Ax]; destruct (sq_le_ends _ _ _ Hy) as [Ay|Ay];
    pose proof (M _ _ Ax Ay) as L.
  - change (len2 _) with l00 in L at 2. lra.
  - change (len2 {| vx := vx (b2min b); vy := vy (b2max b) |}) with l01 in L. lra.
  - change (len2 {| vx := vx (b2max b); vy := vy (b2min b) |}) with l10 in L. lra.
  - change (len2 _) with l11 in L at 2. lra.
Qed.
Lemma max_radius_nonneg b : 0 <= @box2_max_radius ROps b.
Proof.
  unfold box2_max_radius, box2_vertices; cbn [fold_left]. change (omax ROps) with Rmax. change (o0 ROps) with 0.
  eapply Rle_trans; [|apply Rmax_l]. eapply Rle_trans; [|apply Rmax_l]. eapply Rle_trans; [|apply Rmax_l]. apply Rmax_l.
Qed.

(* rotation preserves the radius *)
Lemma rotate_len (a : R) (p : RV2) : len2 (@m22_mulposition ROps (@mk_rotate ROps a) p) = len2 p.
Proof.
  unfold len2, m22_mulposition, mk_rotate; cbn. f_equal.
  pose proof (sin2_cos2 a) as S. unfold Rsqr in S.
  replace ((cos a * vx p + - sin a * vy p) * (cos a * vx p + - sin a * vy p) +
           (sin a * vx p + cos a * vy p) * (sin a * vx p + cos a * vy p))
    with ((sin a * sin a + cos a * cos a) * (vx p * vx p + vy p * vy p)) by ring.
  rewrite S. ring.
Qed.

(* ------------------------------------------------------------ TwistExtrude3D *)
Lemma twistextrude_enc s h tw o : 0 <= h -> @k_twistextrude ROps s h tw = Some o -> enc2 s -> enc3 o.
Proof.
  intros Hh H [_ Hs]. unfold k_twistextrude in H. injection H as <-.
  pose proof (max_radius_nonneg (bb2 s)) as Hl. remember (box2_max_radius (bb2 s)) as l eqn:El.
  split; cbn [bb3 ev3]; [unfold ordered3; cbn; lra|].
  intros p Hp. unfold extrude_ev, ex_twist in Hp. change (omax ROps) with Rmax in Hp.
  match type of Hp with Rmax ?a ?b < 0 => pose proof (Rmax_l a b); pose proof (Rmax_r a b) end.
  match type of Hp with Rmax (ev2 s ?q) _ < 0 => pose proof (Hs q ltac:(lra)) as Hq; apply max_radius_bound in Hq end.
  rewrite rotate_len in Hq. rewrite <- El in Hq.
  pose proof (abs_le_len2_x (mkV2 (wx p) (wy p))) as X. pose proof (abs_le_len2_y (mkV2 (wx p) (wy p))) as Y. cbn [vx vy] in X, Y.
  assert (Ax : Rabs (wx p) <= l) by lra. assert (Ay : Rabs (wy p) <= l) by lra. apply Rabs_le_inv in Ax, Ay.
  assert (Az : Rabs (wz p) < h / 2) by (cbn in *; lra). apply Rabs_lt_inv in Az.
  unfold in_box3; cbn. lra.
Qed.

(* ------------------------------------------------------------ ScaleExtrude3D, ScaleTwistExtrude3D
   Not validated by Go: height > 0 and both scale factors > 0 are needed (with a negative factor
   the per-height scale 1/(mix(1, 1/s, t)) has a pole inside the extrusion). *)
Lemma factor_inv (h s z : R) : 0 < h -> 0 < s -> - (h / 2) <= z <= h / 2 ->
  let f := (1 / s - 1) * (1 / h) * z + (1 / s * (1 / (1 + 1)) + 1 / (1 + 1)) in
  0 < f /\ Rmin 1 s <= 1 / f <= Rmax 1 s.
Proof.
  intros Hh Hs Hz f. set (t := z / h + / 2).
  assert (Ht : 0 <= t <= 1).
  { unfold t. assert (- / 2 <= z / h <= / 2); [|lra]. unfold Rdiv.
    assert (0 < / h) by (apply Rinv_0_lt_compat; lra).
    assert (h * / h = 1) by (rnorm; field; lra). split; nra. }
  set (u := s + (1 - s) * t).
  assert (Ef : f = u / s) by (unfold f, u, t; field; lra).
  assert (Hu : Rmin 1 s <= u <= Rmax 1 s) by (unfold u, Rmin, Rmax; destruct (Rle_dec 1 s); nra).
  assert (Hu0 : 0 < u) by (unfold Rmin in Hu; destruct (Rle_dec 1 s); lra).
  assert (Hf : 0 < f) by (rewrite Ef; apply Rdiv_lt_0_compat; lra).
  split; [exact Hf|]. replace (1 / f) with (s / u) by (rewrite Ef; field; lra).
  assert (Hi : 0 < / u) by (apply Rinv_0_lt_compat; lra).
  assert (E1 : u * / u = 1) by (rnorm; field; lra). unfold Rdiv.
  revert Hu. unfold Rmin, Rmax. destruct (Rle_dec 1 s); intros Hu.
  - assert (0 <= (s - u) * / u) by (apply Rmult_le_pos; lra).
    assert (0 <= (u - 1) * / u) by (apply Rmult_le_pos; lra).
    assert (0 <= s * (1 - / u)) by (apply Rmult_le_pos; lra). split; lra.
  - assert (0 <= (u - s) * / u) by (apply Rmult_le_pos; lra).
    assert (0 <= (1 - u) * / u) by (apply Rmult_le_pos; lra).
    assert (0 <= s * (/ u - 1)) by (apply Rmult_le_pos; lra). split; lra.
Qed.

Lemma scaled_between (lo hi q g s : R) : lo <= q <= hi -> 0 < g -> Rmin 1 s <= g <= Rmax 1 s ->
  Rmin lo (lo * s) <= q * g <= Rmax hi (hi * s).
Proof.
  intros Hq Hg Hb.
  pose proof (Rmin_l lo (lo * s)). pose proof (Rmin_r lo (lo * s)).
  pose proof (Rmax_l hi (hi * s)). pose proof (Rmax_r hi (hi * s)).
  assert (G : 1 <= g <= s \/ s <= g <= 1) by (revert Hb; unfold Rmin, Rmax; destruct (Rle_dec 1 s); intros; lra).
  assert (A : Rmin lo (lo * s) <= lo * g) by (destruct (Rle_dec 0 lo); destruct G; nra).
  assert (B : hi * g <= Rmax hi (hi * s)) by (destruct (Rle_dec 0 hi); destruct G; nra).
  split; nra.
Qed.

Lemma mul_div_cancel (x f : R) : 0 < f -> x * f * (1 / f) = x.
Proof. intros; field; lra. Qed.

Lemma scaleextrude_enc s h sc o : 0 < h -> 0 < vx sc -> 0 < vy sc ->
  @k_scaleextrude ROps s h sc = Some o -> enc2 s -> enc3 o.
Proof.
  intros Hh Hsx Hsy H [[Hx Hy] Hs]. unfold k_scaleextrude in H. injection H as <-.
  split; cbn [bb3 ev3].
  - unfold ordered3; cbn. pose proof (Rmin_l (vx (b2min (bb2 s))) (vx (b2min (bb2 s)) * vx sc)).
    pose proof (Rmax_l (vx (b2max (bb2 s))) (vx (b2max (bb2 s)) * vx sc)).
    pose proof (Rmin_l (vy (b2min (bb2 s))) (vy (b2min (bb2 s)) * vy sc)).
    pose proof (Rmax_l (vy (b2max (bb2 s))) (vy (b2max (bb2 s)) * vy sc)). lra.
  - intros p Hp. unfold extrude_ev, ex_scale in Hp. cbn in Hp.
    match type of Hp with Rmax ?a ?b < 0 => pose proof (Rmax_l a b); pose proof (Rmax_r a b) end.
    assert (Az : Rabs (wz p) < h / 2) by lra. apply Rabs_lt_inv in Az.
    match type of Hp with Rmax (ev2 s ?q) _ < 0 => destruct (Hs q ltac:(lra)) as [Ix Iy] end. cbn in Ix, Iy.
    destruct (factor_inv h (vx sc) (wz p) Hh Hsx ltac:(lra)) as [Fx Gx].
    destruct (factor_inv h (vy sc) (wz p) Hh Hsy ltac:(lra)) as [Fy Gy]. cbv zeta in *.
    set (fx := (1 / vx sc - 1) * (1 / h) * wz p + (1 / vx sc * (1 / (1 + 1)) + 1 / (1 + 1))) in *.
    set (fy := (1 / vy sc - 1) * (1 / h) * wz p + (1 / vy sc * (1 / (1 + 1)) + 1 / (1 + 1))) in *.
    assert (Gx0 : 0 < 1 / fx) by (apply Rdiv_lt_0_compat; lra).
    assert (Gy0 : 0 < 1 / fy) by (apply Rdiv_lt_0_compat; lra).
    pose proof (scaled_between _ _ _ _ _ Ix Gx0 Gx) as Bx. pose proof (scaled_between _ _ _ _ _ Iy Gy0 Gy) as By.
    rewrite mul_div_cancel in Bx by exact Fx.
    rewrite mul_div_cancel in By by exact Fy.
    unfold in_box3; cbn. lra.
Qed.

Lemma abs_scaled (q g s : R) : 0 < g -> Rmin 1 s <= g <= Rmax 1 s -> 0 < s -> Rabs (q * g) <= Rabs q * Rmax 1 s.
Proof.
  intros Hg Hb Hs. rewrite Rabs_mult. rewrite (Rabs_pos_eq g) by lra.
  apply Rmult_le_compat_l; [apply Rabs_pos | lra].
Qed.

Lemma scaletwistextrude_enc s h tw sc o : 0 < h -> 0 < vx sc -> 0 < vy sc ->
  @k_scaletwistextrude ROps s h tw sc = Some o -> enc2 s -> enc3 o.
Proof.
  intros Hh Hsx Hsy H [_ Hs]. unfold k_scaletwistextrude in H. injection H as <-.
  pose proof (max_radius_nonneg (bb2 s)) as Hl. remember (box2_max_radius (bb2 s)) as l eqn:El.
  change (omul ROps) with Rmult. change (omax ROps) with Rmax. change (oabs ROps) with Rabs. change (o1 ROps) with 1.
  rewrite (Rabs_pos_eq (vx sc)) by lra. rewrite (Rabs_pos_eq (vy sc)) by lra.
  set (M := Rmax 1 (Rmax (vx sc) (vy sc))).
  assert (HM : 1 <= M) by apply Rmax_l.
  assert (HMx : Rmax 1 (vx sc) <= M).
  { unfold M. apply Rmax_lub; [apply Rmax_l|]. eapply Rle_trans; [apply Rmax_l | apply Rmax_r]. }
  assert (HMy : Rmax 1 (vy sc) <= M).
  { unfold M. apply Rmax_lub; [apply Rmax_l|]. eapply Rle_trans; [apply (Rmax_r (vx sc)) | apply Rmax_r]. }
  split; cbn [bb3 ev3]; [unfold ordered3; cbn; nra|].
  intros p Hp. unfold extrude_ev, ex_scaletwist in Hp. change (omax ROps) with Rmax in Hp.
  match type of Hp with Rmax ?a ?b < 0 => pose proof (Rmax_l a b); pose proof (Rmax_r a b) end.
  match type of Hp with Rmax (ev2 s ?q) _ < 0 => pose proof (Hs q ltac:(lra)) as Hq; apply max_radius_bound in Hq end.
  rewrite rotate_len in Hq. rewrite <- El in Hq.
  assert (Az : Rabs (wz p) < h / 2) by (cbn in *; lra). apply Rabs_lt_inv in Az.
  destruct (factor_inv h (vx sc) (wz p) Hh Hsx ltac:(lra)) as [Fx Gx].
  destruct (factor_inv h (vy sc) (wz p) Hh Hsy ltac:(lra)) as [Fy Gy]. cbv zeta in *.
  cbn in Hq.
  set (fx := (1 / vx sc - 1) * (1 / h) * wz p + (1 / vx sc * (1 / (1 + 1)) + 1 / (1 + 1))) in *.
  set (fy := (1 / vy sc - 1) * (1 / h) * wz p + (1 / vy sc * (1 / (1 + 1)) + 1 / (1 + 1))) in *.
  assert (Gx0 : 0 < 1 / fx) by (apply Rdiv_lt_0_compat; lra).
  assert (Gy0 : 0 < 1 / fy) by (apply Rdiv_lt_0_compat; lra).
  pose proof (abs_le_len2_x (mkV2 (wx p * fx) (wy p * fy))) as X.
  pose proof (abs_le_len2_y (mkV2 (wx p * fx) (wy p * fy))) as Y. cbn [vx vy] in X, Y.
  unfold len2 in X, Y; cbn [vx vy] in X, Y.
  pose proof (abs_scaled (wx p * fx) _ _ Gx0 Gx Hsx) as Bx. pose proof (abs_scaled (wy p * fy) _ _ Gy0 Gy Hsy) as By.
  rewrite mul_div_cancel in Bx by exact Fx. rewrite mul_div_cancel in By by exact Fy.
  assert (Px : Rabs (wx p * fx) <= l) by (eapply Rle_trans; [exact X | exact Hq]).
  assert (Py : Rabs (wy p * fy) <= l) by (eapply Rle_trans; [exact Y | exact Hq]).
  pose proof (Rmax_l 1 (vx sc)). pose proof (Rmax_l 1 (vy sc)).
  assert (Ax : Rabs (wx p) <= l * M).
  { eapply Rle_trans; [exact Bx|]. apply Rmult_le_compat; [apply Rabs_pos | lra | exact Px | exact HMx]. }
  assert (Ay : Rabs (wy p) <= l * M).
  { eapply Rle_trans; [exact By|]. apply Rmult_le_compat; [apply Rabs_pos | lra | exact Py | exact HMy]. }
  apply Rabs_le_inv in Ax, Ay. unfold in_box3; cbn. lra.
Qed.

(* ------------------------------------------------------------ ExtrudeRounded3D, Loft3D *)
Lemma clamp_bounds01 (x : R) : 0 <= @clamp ROps x (o0 ROps) (o1 ROps) <= 1.
Proof. unfold clamp; cbn. rcmp1; [lra|]. rcmp1; lra. Qed.

Lemma rounded_ge (a b round : R) : Rmax a b - round <= @rounded_combine ROps a b round.
Proof.
  unfold rounded_combine; cbn.
  pose proof (le_sqrt2_l a b). pose proof (le_sqrt2_r a b).
  assert (forall d, a <= d -> b <= d -> Rmax a b - round <= d - round) as M
    by (intros d A B; pose proof (Rmax_lub _ _ _ A B); lra).
  rcmp1; rcmp1; apply M; try lra; try apply Rmax_l; try apply Rmax_r.
Qed.

Definition rounded_box (bb : RBox2) (sh round : R) : RBox3 :=
  mkBox3 (v3subs (mkV3 (vx (b2min bb)) (vy (b2min bb)) (- sh)) round)
         (v3adds (mkV3 (vx (b2max bb)) (vy (b2max bb)) sh) round).

(* a rounded extrusion of a field A that satisfies the slab inequalities of bb outside bb *)
Lemma rounded_ext_lbinf (A : RV3 -> R) bb sh round : 0 <= round -> 0 <= sh -> ordered2 bb ->
  (forall p, ~ in_box2 bb (mkV2 (wx p) (wy p)) ->
     vx (b2min bb) - wx p <= A p /\ wx p - vx (b2max bb) <= A p /\
     vy (b2min bb) - wy p <= A p /\ wy p - vy (b2max bb) <= A p) ->
  lbinf_3 (mkObj3 (fun p => @rounded_combine ROps (A p) (Rabs (wz p) - sh) round) (rounded_box bb sh round)).
Proof.
  intros Hr Hsh [Hx Hy] HA. apply lbinf3_intro; cbn [bb3 ev3]; [unfold ordered3; cbn; lra|].
  intros p Hout. unfold slab3, rounded_box, v3subs, v3adds; cbn [ev3 bb3 b3min b3max wx wy wz].
  change (osub ROps) with Rminus. change (oadd ROps) with Rplus. change (oneg ROps) with Ropp.
  pose proof (rounded_ge (A p) (Rabs (wz p) - sh) round) as G.
  pose proof (Rmax_l (A p) (Rabs (wz p) - sh)). pose proof (Rmax_r (A p) (Rabs (wz p) - sh)).
  pose proof (Rabs_ge_l (wz p)). pose proof (Rabs_ge_r (wz p)).
  destruct (classic_in_box2 bb (mkV2 (wx p) (wy p))) as [Hin|Hout2].
  - destruct Hin as [Ix Iy]; cbn in Ix, Iy.
    assert (Hz : ~ (- sh - round <= wz p <= sh + round)) by (intros Hz; apply Hout; unfold in_box3; cbn; lra).
    repeat split; lra.
  - destruct (HA p Hout2) as (A1 & A2 & A3 & A4). repeat split; lra.
Qed.

Lemma extruderounded_lbinf s h round o : 0 <= h ->
  @k_extruderounded ROps s h round = Some o -> lbinf_2 s -> lbinf_3 o.
Proof.
  intros Hh H Hs. unfold k_extruderounded in H. destruct (oeqb ROps round (o0 ROps)) eqn:E0.
  - eapply extrude_lbinf; eassumption.
  - kinv H. cbn in K, K0, K1. bfalse.
    apply (rounded_ext_lbinf (fun p => ev2 s (mkV2 (wx p) (wy p))) (bb2 s) (h / two - round) round);
      [lra | rewrite two_eq in *; cbn in *; lra | apply Hs|].
    intros p Hout. apply (lbinf2_elim s _ Hs Hout).
Qed.
(* with round = 0 this is Extrude3D: plain enclosure of the profile suffices *)
Lemma extruderounded0_enc s h o : 0 <= h -> @k_extruderounded ROps s h 0 = Some o -> enc2 s -> enc3 o.
Proof.
  intros Hh H Hs. unfold k_extruderounded in H.
  assert (E : oeqb ROps 0 (o0 ROps) = true) by (apply Reqb_true; reflexivity). rewrite E in H.
  eapply extrude_enc; eassumption.
Qed.

Lemma loft_lbinf s0 s1 h round o :
  @k_loft ROps s0 s1 h round = Some o -> lbinf_2 s0 -> lbinf_2 s1 -> lbinf_3 o.
Proof.
  intros H H0 H1. unfold k_loft in H. kinv H. cbn in K, K0, K1. bfalse.
  set (bb := box2_extend (bb2 s0) (bb2 s1)).
  assert (Hbb : ordered2 bb).
  { destruct H0 as [[? ?] _], H1 as [[? ?] _]. unfold bb, ordered2; cbn.
    pose proof (Rmin_l (vx (b2min (bb2 s0))) (vx (b2min (bb2 s1)))). pose proof (Rmax_l (vx (b2max (bb2 s0))) (vx (b2max (bb2 s1)))).
    pose proof (Rmin_l (vy (b2min (bb2 s0))) (vy (b2min (bb2 s1)))). pose proof (Rmax_l (vy (b2max (bb2 s0))) (vy (b2max (bb2 s1)))). lra. }
  apply (rounded_ext_lbinf _ bb (h / two - round) round); [lra | rewrite two_eq in *; cbn in *; lra | exact Hbb|].
  intros p Hout.
  assert (O0 : ~ in_box2 (bb2 s0) (mkV2 (wx p) (wy p))).
  { intros Hin; apply Hout. revert Hin. unfold bb, in_box2; cbn.
    pose proof (Rmin_l (vx (b2min (bb2 s0))) (vx (b2min (bb2 s1)))). pose proof (Rmax_l (vx (b2max (bb2 s0))) (vx (b2max (bb2 s1)))).
    pose proof (Rmin_l (vy (b2min (bb2 s0))) (vy (b2min (bb2 s1)))). pose proof (Rmax_l (vy (b2max (bb2 s0))) (vy (b2max (bb2 s1)))). lra. }
  assert (O1 : ~ in_box2 (bb2 s1) (mkV2 (wx p) (wy p))).
  { intros Hin; apply Hout. revert Hin. unfold bb, in_box2; cbn.
    pose proof (Rmin_r (vx (b2min (bb2 s0))) (vx (b2min (bb2 s1)))). pose proof (Rmax_r (vx (b2max (bb2 s0))) (vx (b2max (bb2 s1)))).
    pose proof (Rmin_r (vy (b2min (bb2 s0))) (vy (b2min (bb2 s1)))). pose proof (Rmax_r (vy (b2max (bb2 s0))) (vy (b2max (bb2 s1)))). lra. }
  pose proof (lbinf2_elim s0 _ H0 O0) as (A0 & B0 & C0 & D0). pose proof (lbinf2_elim s1 _ H1 O1) as (A1 & B1 & C1 & D1).
  cbn in A0, B0, C0, D0, A1, B1, C1, D1. unfold mix. change (oadd ROps) with Rplus. change (omul ROps) with Rmult.
  change (osub ROps) with Rminus.
  match goal with |- context [if ?c then ?e else @clamp ROps ?x ?a ?b] =>
    set (k := if c then e else @clamp ROps x a b) in *;
    assert (Hk : 0 <= k <= 1) by (unfold k; destruct c; [lra | apply (clamp_bounds01 x)]) end.
  set (a0 := ev2 s0 _) in *. set (a1 := ev2 s1 _) in *.
  assert (M : forall v : R, v <= a0 -> v <= a1 -> v <= a0 + k * (a1 - a0)).
  { intros v V0 V1. assert (0 <= (1 - k) * (a0 - v)) by (apply Rmult_le_pos; lra).
    assert (0 <= k * (a1 - v)) by (apply Rmult_le_pos; lra). lra. }
  unfold bb; cbn.
  pose proof (Rmin_l (vx (b2min (bb2 s0))) (vx (b2min (bb2 s1)))). pose proof (Rmax_l (vx (b2max (bb2 s0))) (vx (b2max (bb2 s1)))).
  pose proof (Rmin_l (vy (b2min (bb2 s0))) (vy (b2min (bb2 s1)))). pose proof (Rmax_l (vy (b2max (bb2 s0))) (vy (b2max (bb2 s1)))).
  pose proof (Rmin_r (vx (b2min (bb2 s0))) (vx (b2min (bb2 s1)))). pose proof (Rmax_r (vx (b2max (bb2 s0))) (vx (b2max (bb2 s1)))).
  pose proof (Rmin_r (vy (b2min (bb2 s0))) (vy (b2min (bb2 s1)))). pose proof (Rmax_r (vy (b2max (bb2 s0))) (vy (b2max (bb2 s1)))).
  repeat split; apply M; lra.
Qed.

(* with round = 0 plain enclosure of both profiles suffices for a loft *)
Lemma rounded_neg0 (a b : R) : @rounded_combine ROps a b 0 < 0 -> a < 0 /\ b < 0.
Proof.
  unfold rounded_combine; cbn. pose proof (sqrt_pos (a * a + b * b)). pose proof (Rmax_l a b). pose proof (Rmax_r a b).
  rcmp1; rcmp1; intros; lra.
Qed.
Lemma loft0_enc s0 s1 h o : @k_loft ROps s0 s1 h 0 = Some o -> enc2 s0 -> enc2 s1 -> enc3 o.
Proof.
  intros H [[X0 Y0] H0] [[X1 Y1] H1]. unfold k_loft in H. kinv H. cbn in K, K0, K1. bfalse.
  pose proof (Rmin_l (vx (b2min (bb2 s0))) (vx (b2min (bb2 s1)))). pose proof (Rmax_l (vx (b2max (bb2 s0))) (vx (b2max (bb2 s1)))).
  pose proof (Rmin_l (vy (b2min (bb2 s0))) (vy (b2min (bb2 s1)))). pose proof (Rmax_l (vy (b2max (bb2 s0))) (vy (b2max (bb2 s1)))).
  pose proof (Rmin_r (vx (b2min (bb2 s0))) (vx (b2min (bb2 s1)))). pose proof (Rmax_r (vx (b2max (bb2 s0))) (vx (b2max (bb2 s1)))).
  pose proof (Rmin_r (vy (b2min (bb2 s0))) (vy (b2min (bb2 s1)))). pose proof (Rmax_r (vy (b2max (bb2 s0))) (vy (b2max (bb2 s1)))).
  split; cbn [bb3 ev3]; [unfold ordered3; cbn; lra|].
  intros p Hp. apply rounded_neg0 in Hp. destruct Hp as [Ha Hb].
  unfold mix in Ha. change (oadd ROps) with Rplus in Ha. change (omul ROps) with Rmult in Ha. change (osub ROps) with Rminus in Ha.
  match type of Ha with context [if ?c then ?e else @clamp ROps ?x ?a ?b] =>
    set (k := if c then e else @clamp ROps x a b) in *;
    assert (Hk : 0 <= k <= 1) by (unfold k; destruct c; [unfold k05, half, two; cbn; lra | apply (clamp_bounds01 x)]) end.
  set (a0 := ev2 s0 _) in *. set (a1 := ev2 s1 _) in *.
  assert (Az : Rabs (wz p) < h / 2) by (cbn in Hb; lra). apply Rabs_lt_inv in Az.
  assert (Hor : a0 < 0 \/ a1 < 0).
  { destruct (Rlt_dec a0 0); [now left | right]. destruct (Rlt_dec a1 0); [assumption | exfalso].
    assert (0 <= (1 - k) * a0) by (apply Rmult_le_pos; lra). assert (0 <= k * a1) by (apply Rmult_le_pos; lra). lra. }
  unfold in_box3; cbn.
  destruct Hor as [Hn|Hn]; [destruct (H0 _ Hn) as [Ix Iy] | destruct (H1 _ Hn) as [Ix Iy]]; cbn in Ix, Iy; lra.
Qed.
