(* Whole-program theorems for Bezier.Polygon() (sdf/bezier.go).

   Part 1 (any number system): the endpoint/midpoint state machine.  The fuel of the model's
   loop is never exhausted and the loop is a function that can be written without state
   (spans): the control list is cut at every end point, each inner end point closing one span
   and opening the next.  After fixups() the list starts and ends with an end point, so the
   "bad vertex type" errors of the loop are unreachable, every span has at least two control
   points, the spans chained together (shared end points once) are exactly the control
   polygon, in order; Polygon() panics exactly when a span has more than five control points.

   Part 2 (reals): the polyline is the concatenation of the samples of the non-point spans in
   order, each junction vertex once; the adaptive subdivision emits at most 2^d + 1 vertices
   at recursion depth d (513 per span, the Go guard `n > 8`); when no coefficient is zeroed
   and no span degenerates to a point the polyline starts at the first control point and ends
   at the last one - for a closed curve that is the first vertex again. *)
From Coq Require Import Reals Lra Lia List Bool ZArith Arith Sorted.
From Sdfx Require Import Num.Ops.
From Sdfx Require Import Num.RInst.
From Sdfx Require Import Geo.Vec.
From Sdfx Require Import Sdf.Build.
From Sdfx Require Import Sdf.Bezier.
From Sdfx Require Import Sdf.BezierR.
Import ListNotations.
Local Open Scope nat_scope.

(* ------------------------------------------------------------------ the state machine *)
Section Machine.
  Context {O : Ops}.
  Notation BV := (BV O).
  Notation V2 := (V2 O).

  (* cur: the control points of the open span, last one first *)
  Fixpoint spans_from (cur : list V2) (l : list BV) : list (list V2) :=
    match l with
    | [] => []
    | v :: r => if bv_mid v then spans_from (bv_v v :: cur) r
                else rev (bv_v v :: cur) :: spans_from [bv_v v] r
    end.
  Definition spans (l : list BV) : option (list (list V2)) :=
    match l with
    | [] => Some []
    | v :: r => if bv_mid v then None else Some (spans_from [bv_v v] r)
    end.

  Lemma split_open : forall (l : list BV) cur acc fuel, 2 * length l <= fuel ->
    split fuel l (Some cur) acc = Some (rev acc ++ spans_from cur l).
  Proof.
    induction l as [|v r IH]; intros cur acc fuel Hf.
    - destruct fuel; cbn [split spans_from]; rewrite app_nil_r; reflexivity.
    - cbn [length] in Hf. destruct fuel as [|f]; [lia|]. cbn [split spans_from].
      destruct (bv_mid v) eqn:Hm.
      + apply IH. lia.
      + destruct r as [|w r'].
        * cbn [spans_from].
          change (rev (rev (bv_v v :: cur) :: acc)) with (rev acc ++ [rev (bv_v v :: cur)]). reflexivity.
        * destruct f as [|f']; [cbn [length] in Hf; lia|]. cbn [split]. rewrite Hm.
          rewrite IH by (cbn [length] in *; lia).
          change (rev (rev (bv_v v :: cur) :: acc)) with (rev acc ++ [rev (bv_v v :: cur)]).
          rewrite <- app_assoc. reflexivity.
  Qed.

  (* the loop of Polygon() never runs out of fuel and computes spans *)
  Theorem split_splines_spec (l : list BV) : split_splines l = spans l.
  Proof.
    unfold split_splines, spans. destruct l as [|v r]; [reflexivity|].
    cbn [length]. replace (2 * S (length r) + 2) with (S (2 * length r + 3)) by lia. cbn [split].
    destruct (bv_mid v); [reflexivity|]. rewrite split_open by lia. reflexivity.
  Qed.

  Theorem split_more_fuel (l : list BV) k : split (2 * length l + 2 + k) l None [] = split_splines l.
  Proof.
    rewrite split_splines_spec. unfold spans. destruct l as [|v r]; [destruct k; reflexivity|].
    cbn [length]. replace (2 * S (length r) + 2 + k) with (S (2 * length r + 3 + k)) by lia. cbn [split].
    destruct (bv_mid v); [reflexivity|]. rewrite split_open by lia. reflexivity.
  Qed.

  (* spans chained: the first one, then the others without their first point *)
  Definition join (ss : list (list V2)) : list V2 := hd [] ss ++ flat_map (@tl V2) (tl ss).

  Lemma spans_from_facts : forall (l : list BV) cur d dv, cur <> [] -> l <> [] -> bv_mid (last l d) = false ->
    let ss := spans_from cur l in
    ss <> [] /\ join ss = rev cur ++ map (@bv_v O) l /\ Forall (fun s => 2 <= length s) ss /\
    hd dv (hd [] ss) = hd dv (rev cur ++ map (@bv_v O) l) /\
    last (last ss []) dv = bv_v (last l d).
  Proof.
    induction l as [|v r IH]; intros cur d dv Hc Hl Hlast; [congruence|]. cbn [spans_from].
    destruct (bv_mid v) eqn:Hm.
    - destruct r as [|w r']; [cbn in Hlast; congruence|].
      assert (Hlast' : bv_mid (last (w :: r') d) = false) by exact Hlast.
      destruct (IH (bv_v v :: cur) d dv ltac:(discriminate) ltac:(discriminate) Hlast') as (A & B & C & D & E).
      cbv zeta. split; [exact A|]. split; [|split; [exact C|split]].
      + rewrite B. cbn [rev map]. rewrite <- app_assoc. reflexivity.
      + rewrite D. cbn [rev map]. rewrite <- app_assoc. reflexivity.
      + rewrite E. reflexivity.
    - cbv zeta. split; [discriminate|].
      assert (L2 : 2 <= length (rev (bv_v v :: cur))).
      { rewrite rev_length. cbn [length]. destruct cur; [congruence | cbn; lia]. }
      destruct r as [|w r'].
      + cbn [spans_from]. unfold join. cbn [hd tl flat_map last map]. rewrite app_nil_r.
        split; [reflexivity|]. split; [constructor; [exact L2 | constructor]|].
        split; [reflexivity|]. cbn [rev]. rewrite last_last. reflexivity.
      + assert (Hlast' : bv_mid (last (w :: r') d) = false) by exact Hlast.
        destruct (IH [bv_v v] d (bv_v v) ltac:(discriminate) ltac:(discriminate) Hlast') as (A & B & C & D & E).
        destruct (IH [bv_v v] d dv ltac:(discriminate) ltac:(discriminate) Hlast') as (_ & _ & _ & _ & E').
        cbv zeta in A, B, C, D, E, E'.
        set (ss := spans_from [bv_v v] (w :: r')) in *.
        split; [|split; [constructor; assumption|split]].
        * unfold join. cbn [hd tl]. unfold join in B. cbn [rev app] in B, D.
          destruct ss as [|s ss']; [congruence|]. cbn [hd tl flat_map] in *.
          inversion C as [|? ? Hs _]; subst.
          destruct s as [|a s']; [cbn in Hs; lia|]. cbn [hd] in D. subst a. cbn [tl].
          cbn [app] in B. injection B as B. rewrite B. cbn [rev map]. rewrite <- app_assoc. reflexivity.
        * cbn [hd]. cbn [rev map].
          assert (RN : rev cur <> []).
          { intros E0. apply (f_equal (@rev V2)) in E0. rewrite rev_involutive in E0. cbn in E0. congruence. }
          destruct (rev cur); [congruence | reflexivity].
        * destruct ss as [|s ss']; [congruence|].
          change (last (rev (bv_v v :: cur) :: s :: ss') []) with (last (s :: ss') []). exact E'.
  Qed.

  (* a control list that starts and ends with an end point: no error, >= 2 points per span,
     the chained spans are the control polygon, first/last point = first/last control point *)
  Theorem spans_cover (e : BV) (r : list BV) dv : r <> [] ->
    bv_mid e = false -> bv_mid (last (e :: r) e) = false ->
    exists ss, spans (e :: r) = Some ss /\ ss <> [] /\
      join ss = map (@bv_v O) (e :: r) /\ Forall (fun s => 2 <= length s) ss /\
      hd dv (hd [] ss) = bv_v e /\ last (last ss []) dv = bv_v (last (e :: r) e).
  Proof.
    intros Hr He Hl. unfold spans. rewrite He. eexists. split; [reflexivity|].
    assert (Hl' : bv_mid (last r e) = false).
    { destruct r; [congruence | exact Hl]. }
    destruct (spans_from_facts r [bv_v e] e dv ltac:(discriminate) Hr Hl') as (A & B & C & D & E).
    cbv zeta in *. split; [exact A|]. split; [exact B|]. split; [exact C|]. split; [exact D|].
    rewrite E. destruct r; [congruence | reflexivity].
  Qed.

  (* ---- fixups(): handles, closure, validate *)
  Lemma last_app_single {A : Type} (l : list A) (x d : A) : last (l ++ [x]) d = x.
  Proof. apply last_last. Qed.

  Theorem bfixups_shape closed (l l' : list BV) : bfixups closed l = Some l' ->
    exists e r, l' = e :: r /\ r <> [] /\ bv_mid e = false /\ bv_mid (last l' e) = false.
  Proof.
    unfold bfixups. destruct (closure closed (handles l)) as [l1|] eqn:EC; [|discriminate].
    destruct (validate closed l1) eqn:EV; [|discriminate]. intros H. injection H as <-.
    unfold validate in EV. destruct l1 as [|e [|x r]]; try discriminate.
    destruct (bv_mid e) eqn:He; [discriminate|].
    exists e, (x :: r). split; [reflexivity|]. split; [discriminate|]. split; [exact He|].
    destruct closed.
    - (* closed: closure() made the last vertex an end point *)
      clear EV. unfold closure in EC. cbn [negb] in EC.
      destruct (handles l) as [|f [|y q]]; try discriminate.
      destruct (bv_mid f) eqn:Hf; [discriminate|].
      destruct (bv_mid (last (f :: y :: q) f)) eqn:Hlast; cbn [negb] in EC.
      + assert (EQ : (f :: y :: q) ++ [f] = e :: x :: r) by congruence.
        assert (E2 : last (e :: x :: r) e = f) by (rewrite <- EQ; apply last_last).
        rewrite E2. exact Hf.
      + destruct (v2equals _ _ _); cbn [negb] in EC.
        * assert (EQ : f :: y :: q = e :: x :: r) by congruence.
          rewrite <- EQ. assert (f = e) by congruence. subst f. exact Hlast.
        * assert (EQ : (f :: y :: q) ++ [f] = e :: x :: r) by congruence.
          assert (E2 : last (e :: x :: r) e = f) by (rewrite <- EQ; apply last_last).
          rewrite E2. exact Hf.
    - cbn [negb andb] in EV. destruct (bv_mid (last (e :: x :: r) e)); [discriminate | reflexivity].
  Qed.
End Machine.

(* ------------------------------------------------------------------ Polygon() over the reals *)
Local Open Scope R_scope.
Notation V := (V2 ROps).
Notation BVR := (BV ROps).

Lemma new_spline_len (cps : list V) :
  ((1 <= length cps <= 5)%nat -> exists s, new_spline cps = Some s) /\
  ((5 < length cps)%nat -> new_spline cps = None) /\
  (forall s, new_spline cps = Some s -> (1 <= length cps <= 5)%nat).
Proof.
  destruct cps as [|a [|b [|c [|d [|e [|f r]]]]]]; cbn [length].
  all: split; [intros H; try lia; eexists; reflexivity|].
  all: split; [intros H; try lia; reflexivity|].
  all: intros s H; try lia; try discriminate.
Qed.

Lemma all_some_Forall2 {A B : Type} (f : A -> option B) (l : list A) (r : list B) :
  all_some (map f l) = Some r <-> Forall2 (fun a b => f a = Some b) l r.
Proof.
  revert r; induction l as [|a l IH]; intros r; cbn [map all_some].
  - split; [intros H; injection H as <-; constructor | intros H; inversion H; reflexivity].
  - destruct (f a) as [b|] eqn:E.
    + destruct (all_some (map f l)) as [r'|] eqn:E2.
      * split; [intros H; injection H as <-; constructor; [exact E | apply IH; reflexivity]|].
        intros H. inversion H as [|? b' ? r2 Hb Hr]; subst. apply IH in Hr. rewrite E in Hb.
        injection Hb as <-. injection Hr as <-. reflexivity.
      * split; [discriminate|]. intros H. inversion H as [|? b' ? r2 Hb Hr]; subst.
        apply IH in Hr. discriminate.
    + split; [discriminate|]. intros H. inversion H as [|? b' ? r2 Hb Hr]; subst. rewrite E in Hb. discriminate.
Qed.

Lemma all_some_none {A B : Type} (f : A -> option B) (l : list A) :
  Exists (fun a => f a = None) l -> all_some (map f l) = None.
Proof.
  induction 1 as [a l H|a l H IH]; cbn [map all_some]; [rewrite H; reflexivity|].
  destruct (f a); [rewrite IH|]; reflexivity.
Qed.

(* Polygon() of a curve whose spans all have at most five control points *)
Lemma bezier_polygon_verts closed (l l' : list BVR) rs cps ss :
  bfixups closed l = Some l' -> spans l' = Some cps ->
  Forall2 (fun c s => new_spline c = Some s) cps ss ->
  bezier_polygon closed l rs = Verts (render_pts (curves ss) rs).
Proof.
  intros HF HS HA. unfold bezier_polygon. rewrite HF, split_splines_spec, HS.
  apply all_some_Forall2 in HA. rewrite HA. rewrite render_eq. reflexivity.
Qed.

(* The outcome of Polygon() for EVERY control list and every sequence of random draws:
   an error exactly when fixups() fails; otherwise the control list l' is cut into spans that
   chain up to l' itself, and Polygon() panics (order > 4) exactly when some span has more than
   five control points, else returns the samples of the non-point spans in order. *)
Theorem bezier_polygon_whole closed (l : list BVR) rs :
  (bfixups closed l = None /\ bezier_polygon closed l rs = Error) \/
  (exists l' cps, bfixups closed l = Some l' /\ spans l' = Some cps /\ cps <> [] /\
     join cps = map (@bv_v ROps) l' /\ Forall (fun c => (2 <= length c)%nat) cps /\
     ((Exists (fun c => (5 < length c)%nat) cps /\ bezier_polygon closed l rs = Panic) \/
      (exists ss, Forall2 (fun c s => new_spline c = Some s) cps ss /\
                  bezier_polygon closed l rs = Verts (render_pts (curves ss) rs)))).
Proof.
  destruct (bfixups closed l) as [l'|] eqn:HF.
  - right. destruct (bfixups_shape closed l l' HF) as (e & r & -> & Hr & He & Hl).
    destruct (spans_cover e r (bv_v e) Hr He Hl) as (cps & HS & HN & HJ & HL & _ & _).
    exists (e :: r), cps. split; [reflexivity|]. split; [exact HS|]. split; [exact HN|].
    split; [exact HJ|]. split; [exact HL|].
    destruct (Forall_Exists_dec (fun c : list V => (length c <= 5)%nat) (fun c => le_dec (length c) 5) cps) as [F|E].
    + right.
      assert (G : exists ss, Forall2 (fun c s => new_spline c = Some s) cps ss).
      { clear HS HJ HN. induction cps as [|c cps IH]; [exists []; constructor|].
        inversion F as [|? ? F1 F2]; subst. inversion HL as [|? ? L1 L2]; subst.
        destruct (IH L2 F2) as (ss & Hss).
        destruct (new_spline_len c) as (A & _ & _). destruct (A ltac:(lia)) as (s & Hs).
        exists (s :: ss). constructor; assumption. }
      destruct G as (ss & Hss). exists ss. split; [exact Hss|].
      apply (bezier_polygon_verts closed l (e :: r) rs cps ss HF HS Hss).
    + left. split.
      * apply Exists_exists in E. destruct E as (c & Hc & Hn). apply Exists_exists. exists c. split; [exact Hc | lia].
      * unfold bezier_polygon. rewrite HF, split_splines_spec, HS.
        rewrite all_some_none; [reflexivity|].
        apply Exists_exists in E. destruct E as (c & Hc & Hn). apply Exists_exists. exists c. split; [exact Hc|].
        destruct (new_spline_len c) as (_ & B & _). apply B. lia.
  - left. split; [reflexivity|]. unfold bezier_polygon. rewrite HF. reflexivity.
Qed.

(* ---- the adaptive subdivision is bounded: at most 2^d + 1 vertices at remaining depth d *)
Lemma pow2_pos d : (1 <= 2 ^ d)%nat.
Proof. induction d; cbn; lia. Qed.

Lemma sample_length : forall d (s : Spline ROps) t0 t1 p0 p1 rs, 0 <= t0 < t1 ->
  (1 <= length (fst (sample d s t0 t1 p0 p1 rs)) <= 2 ^ d + (if Reqb t0 0 then 1 else 0))%nat.
Proof.
  assert (EM : forall t0 (p0 p1 : V), length (emit t0 p0 p1) = (1 + (if Reqb t0 0 then 1 else 0))%nat).
  { intros. unfold emit. cbn [oeqb o0 ROps]. destruct (Reqb t0 0); reflexivity. }
  induction d as [|d IH]; intros s t0 t1 p0 p1 rs H; cbn [sample];
    destruct (flat_test s t0 t1 p0 p1 rs) as [flat rs1]; destruct flat; cbn [fst];
    try (rewrite EM; pose proof (pow2_pos d); cbn [Nat.pow]; lia);
    try (rewrite EM; cbn [Nat.pow]; lia).
  set (tmid := odiv ROps (oadd ROps t0 t1) two).
  assert (HM : t0 < tmid < t1) by (unfold tmid; rops; lra).
  pose proof (IH s t0 tmid p0 (sp_f0 s tmid) rs1 ltac:(lra)) as K1.
  destruct (sample d s t0 tmid p0 (sp_f0 s tmid) rs1) as [l1 rs2]. cbn [fst] in K1.
  pose proof (IH s tmid t1 (sp_f0 s tmid) p1 rs2 ltac:(lra)) as K2.
  destruct (sample d s tmid t1 (sp_f0 s tmid) p1 rs2) as [l2 rs3]. cbn [fst] in K2 |- *.
  destruct (Reqb tmid 0) eqn:C; [apply Reqb_true in C; lra|].
  rewrite app_length. cbn [Nat.pow]. lia.
Qed.

Theorem sample01_length (s : Spline ROps) rs : (2 <= length (fst (sample01 s rs)) <= 513)%nat.
Proof.
  split.
  - destruct (sample01_shape s rs) as (mid & E). rewrite E. cbn [length]. rewrite app_length. cbn. lia.
  - unfold sample01. change (o0 ROps) with 0. change (o1 ROps) with 1.
    pose proof (sample_length max_depth s 0 1 (sp_f0 s 0) (sp_f0 s 1) rs ltac:(lra)) as H.
    destruct (Reqb_true 0 0) as [_ E]. rewrite (E eq_refl) in H. unfold max_depth in *. cbn [Nat.pow] in H. lia.
Qed.

(* the polyline of a non-empty list of curves: first point f(0) of the first curve, last point
   f(1) of the last one, at most 512 vertices per curve plus one *)
Lemma render_pts_shape : forall (ss : list (Spline ROps)) rs s0, ss <> [] ->
  exists mid, render_pts ss rs = sp_f0 (hd s0 ss) 0 :: mid ++ [sp_f0 (last ss s0) 1] /\
              (length (render_pts ss rs) <= 512 * length ss + 1)%nat.
Proof.
  induction ss as [|s r IH]; intros rs s0 N; [contradiction|]. cbn [render_pts hd].
  pose proof (sample01_shape s rs) as (mid & E). pose proof (sample01_length s rs) as (_ & HL).
  destruct (sample01 s rs) as [vs rs']. cbn [fst] in E, HL. subst vs.
  destruct r as [|s2 r].
  - exists mid. split; [reflexivity|]. cbn [length] in *. lia.
  - destruct (IH rs' s0 ltac:(discriminate)) as (mid2 & E2 & L2).
    change (sp_f0 s 0 :: mid ++ [sp_f0 s 1]) with ((sp_f0 s 0 :: mid) ++ [sp_f0 s 1]).
    rewrite removelast_last. rewrite E2 in *.
    exists (mid ++ sp_f0 (hd s0 (s2 :: r)) 0 :: mid2). split.
    + change (last (s :: s2 :: r) s0) with (last (s2 :: r) s0). cbn [app]. rewrite <- app_assoc. reflexivity.
    + cbn [length] in HL. rewrite app_length in HL. cbn [length] in HL.
      rewrite app_length. cbn [length] in *. lia.
Qed.

(* ---- where the polyline starts and ends *)
Definition exact_span (cps : list V) : Prop :=
  exists px py, bp_raw (map (@vx ROps) cps) = Some px /\ bp_zero px = px /\
                bp_raw (map (@vy ROps) cps) = Some py /\ bp_zero py = py.

Lemma hd_map {A B : Type} (f : A -> B) (l : list A) d : l <> [] -> hd (f d) (map f l) = f (hd d l).
Proof. destruct l; [congruence | reflexivity]. Qed.
Lemma last_map {A B : Type} (f : A -> B) (l : list A) d : last (map f l) (f d) = f (last l d).
Proof. induction l as [|a l IH]; [reflexivity|]. destruct l; [reflexivity|]. exact IH. Qed.
Lemma hd_indep {A : Type} (l : list A) d d' : l <> [] -> hd d l = hd d' l.
Proof. destruct l; [congruence | reflexivity]. Qed.
Lemma last_indep {A : Type} (l : list A) d d' : l <> [] -> last l d = last l d'.
Proof. induction l as [|a l IH]; [congruence|]. intros _. destruct l; [reflexivity|]. apply IH. discriminate. Qed.

(* a span in which Set() zeroes nothing starts at its first and ends at its last control point *)
Lemma span_endpoints (cps : list V) (s : Spline ROps) d : (2 <= length cps <= 5)%nat ->
  exact_span cps -> new_spline cps = Some s -> sp_f0 s 0 = hd d cps /\ sp_f0 s 1 = last cps d.
Proof.
  intros HL (px & py & RX & ZX & RY & ZY) HS. unfold new_spline in HS.
  destruct (bp_set (map (@vx ROps) cps)) as [qx|] eqn:SX; [|discriminate].
  destruct (bp_set (map (@vy ROps) cps)) as [qy|] eqn:SY; [|discriminate].
  injection HS as <-. unfold sp_f0. cbn [sp_x sp_y].
  assert (NE : cps <> []) by (intros E; rewrite E in HL; cbn in HL; lia).
  destruct (set_exact_when_nothing_zeroed (map (@vx ROps) cps) px qx ltac:(rewrite map_length; lia) RX ZX SX) as (_ & X0 & X1).
  destruct (set_exact_when_nothing_zeroed (map (@vy ROps) cps) py qy ltac:(rewrite map_length; lia) RY ZY SY) as (_ & Y0 & Y1).
  assert (NX : map (@vx ROps) cps <> []) by (destruct cps; [congruence | discriminate]).
  assert (NY : map (@vy ROps) cps <> []) by (destruct cps; [congruence | discriminate]).
  rewrite (hd_indep _ 0 (vx d) NX), hd_map in X0 by exact NE.
  rewrite (hd_indep _ 0 (vy d) NY), hd_map in Y0 by exact NE.
  rewrite (last_indep _ 0 (vx d) NX), last_map in X1.
  rewrite (last_indep _ 0 (vy d) NY), last_map in Y1.
  rewrite X0, Y0, X1, Y1. split; [destruct (hd d cps) | destruct (last cps d)]; reflexivity.
Qed.

Lemma Forall2_len {A B : Type} (P : A -> B -> Prop) (l1 : list A) (l2 : list B) :
  Forall2 P l1 l2 -> length l1 = length l2.
Proof. induction 1; cbn; congruence. Qed.

Lemma Forall2_hd_last {A B : Type} (P : A -> B -> Prop) (l1 : list A) (l2 : list B) d1 d2 :
  Forall2 P l1 l2 -> l1 <> [] -> P (hd d1 l1) (hd d2 l2) /\ P (last l1 d1) (last l2 d2).
Proof.
  induction 1 as [|a b l1 l2 Hab H IH]; intros N; [congruence|]. split; [exact Hab|].
  destruct l1 as [|a' l1']; inversion H; subst; [exact Hab|].
  apply IH. discriminate.
Qed.

(* The whole curve: when no coefficient is zeroed (exact_span) and no span degenerates to a point,
   the polyline of Polygon() starts at the first control point and ends at the last control
   point of the control list after fixups() - for a closed curve, closure() has made that the
   first vertex (C17_closed_curve_closes), so the polyline closes. *)
Theorem bezier_polygon_endpoints closed (l l' : list BVR) rs cps ss e r :
  bfixups closed l = Some l' -> l' = e :: r -> spans l' = Some cps ->
  Forall2 (fun c s => new_spline c = Some s) cps ss ->
  Forall exact_span cps -> curves ss = ss ->
  exists mid, bezier_polygon closed l rs = Verts (bv_v e :: mid ++ [bv_v (last l' e)]) /\
              (length mid + 2 <= 512 * length cps + 1)%nat.
Proof.
  intros HF -> HS HA HE HC.
  rewrite (bezier_polygon_verts closed l (e :: r) rs cps ss HF HS HA), HC.
  destruct (bfixups_shape closed l (e :: r) HF) as (e' & r' & EQ & Hr & He & Hl).
  injection EQ as <- <-.
  destruct (spans_cover e r (bv_v e) Hr He Hl) as (cps' & HS' & HN & _ & HL & H0 & H1).
  rewrite HS in HS'. injection HS' as <-.
  assert (NS : ss <> []) by (intros E; subst ss; inversion HA; congruence).
  destruct ss as [|s0 ss0]; [congruence|].
  destruct (render_pts_shape (s0 :: ss0) rs s0 NS) as (mid & E & LEN). rewrite E.
  destruct (Forall2_hd_last _ cps (s0 :: ss0) [] s0 HA HN) as (Ph & Pl).
  assert (Lh : (2 <= length (hd [] cps) <= 5)%nat).
  { split; [|destruct (new_spline_len (hd [] cps)) as (_ & _ & C); apply (C _ Ph)].
    destruct cps as [|c cps0]; [congruence|]. inversion HL; assumption. }
  assert (Ll : (2 <= length (last cps []) <= 5)%nat).
  { split; [|destruct (new_spline_len (last cps [])) as (_ & _ & C); apply (C _ Pl)].
    rewrite Forall_forall in HL. apply HL. apply (@exists_last _ cps) in HN. destruct HN as (q & z & ->).
    rewrite last_last. apply in_or_app. right. left. reflexivity. }
  assert (Eh : exact_span (hd [] cps)).
  { rewrite Forall_forall in HE. apply HE. destruct cps; [congruence | left; reflexivity]. }
  assert (El : exact_span (last cps [])).
  { rewrite Forall_forall in HE. apply HE. apply (@exists_last _ cps) in HN. destruct HN as (q & z & ->).
    rewrite last_last. apply in_or_app. right. left. reflexivity. }
  destruct (span_endpoints _ _ (bv_v e) Lh Eh Ph) as (S0 & _).
  destruct (span_endpoints _ _ (bv_v e) Ll El Pl) as (_ & S1).
  rewrite S0, S1, H0, H1. exists mid. split; [reflexivity|].
  rewrite E in LEN. cbn [length] in LEN. rewrite app_length in LEN. cbn [length] in LEN.
  rewrite (Forall2_len _ _ _ HA). cbn [length]. lia.
Qed.

(* ------------------------------------------------------------------ the hypotheses are satisfiable *)
(* an open straight span from (1,1) to (3,3): all hypotheses of bezier_polygon_endpoints hold *)
Definition ex_curve : list (BV ROps) :=
  [mkBV false (mkV2 1 1) v2zero v2zero; mkBV false (mkV2 3 3) v2zero v2zero].

Definition ex_p : BPoly ROps :=
  match bp_raw ([1; 3] : list (T ROps)) with Some p => p | None => mkBP 0%nat 0 0 0 0 0 end.

Lemma ex_p_exact : bp_zero ex_p = ex_p /\ bp_n (bp_reduce ex_p) = 1%nat.
Proof.
  split.
  - unfold ex_p, bp_zero, bp_sum, zero_small, epsilon, cst. cbn.
    unfold Rltb. repeat destruct (Rlt_dec _ _); try reflexivity; exfalso;
    repeat match goal with H : Rabs _ / _ < _ |- _ => revert H end;
    unfold Rabs; repeat destruct (Rcase_abs _); try lra; intros;
    repeat match goal with H : _ / ?y < _ |- _ =>
      apply (Rmult_lt_compat_r y) in H; [unfold Rdiv in H; rewrite Rmult_assoc, Rinv_l, Rmult_1_r in H by lra|lra] end; lra.
  - unfold ex_p, bp_reduce, is0. cbn. destruct (Reqb_false (-(1) + 3) 0) as [_ E]. rewrite E by lra. reflexivity.
Qed.

Example endpoints_hyp_satisfiable :
  exists cps ss e r,
    bfixups false ex_curve = Some (e :: r) /\ spans (e :: r) = Some cps /\
    Forall2 (fun c s => new_spline c = Some s) cps ss /\ Forall exact_span cps /\ curves ss = ss.
Proof.
  destruct ex_p_exact as (Z & N).
  assert (NE : @ne0 ROps 0 = false).
  { unfold ne0. cbn [oeqb o0 ROps]. destruct (Reqb_true 0 0) as [_ E]. rewrite (E eq_refl). reflexivity. }
  assert (BF : bfixups false ex_curve = Some ex_curve).
  { assert (EX : forall (m : bool) (q : V2 ROps), expand (mkBV m q v2zero v2zero) = [mkBV m q v2zero v2zero]).
    { intros m q. unfold expand. cbn [bv_rev bv_fwd bv_mid bv_v].
      change (vx (@v2zero ROps)) with 0. rewrite NE. reflexivity. }
    unfold bfixups, handles, ex_curve. cbn [flat_map]. rewrite !EX. reflexivity. }
  exists [[mkV2 1 1; mkV2 3 3]], [mkSpline spline_tol (bp_reduce (bp_zero ex_p)) (bp_reduce (bp_zero ex_p))],
         (mkBV false (mkV2 1 1) v2zero v2zero), [mkBV false (mkV2 3 3) v2zero v2zero].
  split; [exact BF|]. split; [reflexivity|]. split.
  - constructor; [|constructor]. reflexivity.
  - split.
    + constructor; [|constructor]. exists ex_p, ex_p. repeat split; try reflexivity; exact Z.
    + unfold curves. cbn [filter]. unfold is_point. cbn [sp_x sp_y]. rewrite Z, N. reflexivity.
Qed.
