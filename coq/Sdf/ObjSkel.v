(* Skeleton terms for the generators of package obj that build threaded parts (obj.Nut, obj.Bolt):
   which thread profile and which Screw3D, cut from / joined with which bodies.  The terms are
   produced from the Go AST by harness/threadgen (Generated/ObjThread.v); Sdf/ObjMate.v gives them
   a meaning and proves the mating statement. *)
From Coq Require Import ZArith List String.
From Sdfx Require Import Num.Ops.
From Sdfx Require Import Geo.Vec.

Section ObjSkel.
  Context {O : Ops}.

  (* sdf.ISOThread(radius, pitch, external) *)
  Inductive Sk2 := SkISOThread (radius pitch : T O) (external : bool).

  Inductive Sk3 :=
  | SkNil                                                              (* a nil SDF3: Union3D skips it *)
  | SkScrew3D (thread : Sk2) (length taper pitch : T O) (starts : Z)   (* sdf.Screw3D(thread, length, taper, pitch, starts) *)
  | SkDifference3D (a b : Sk3)                                         (* sdf.Difference3D(a, b) *)
  | SkUnion3D (l : list Sk3)                                           (* sdf.Union3D(l...) *)
  | SkTranslate3D (a : Sk3) (d : V3 O)                                 (* sdf.Transform3D(a, sdf.Translate3d(d)) *)
  | SkCall3 (name : string) (nums : list (T O)) (strs : list string) (subs : list Sk3).
                                                                       (* any other constructor, with its numeric, string and shape arguments *)
End ObjSkel.

Arguments Sk2 : clear implicits.
Arguments Sk3 : clear implicits.
