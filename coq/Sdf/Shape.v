(* sdf/sdf2.go, sdf/sdf3.go, sdf/utils.go: primitives and combinators.
   An object is what a Go constructor returns: its Evaluate (a closure over the fields
   the constructor pre-computed) and its stored bounding box.  Each `k_xxx` follows the Go
   constructor + Evaluate statement by statement (same association of sums, same branch
   order, same < vs <=).  `None` = the constructor returned an error / nil.
   Shape2/Shape3 are the expression trees (deep embedding), `build` maps a tree to its object. *)
From Coq Require Import ZArith List Bool.
From Sdfx Require Import Num.Ops Geo.Vec Geo.Box Geo.Mat Sdf.Union2.
Import OpsNotations ListNotations.
Local Open Scope ops_scope.

Section Shape.
  Context {O : Ops}.
  Notation T := (T O).
  Notation V2 := (V2 O).
  Notation V3 := (V3 O).
  Notation Box2 := (Box2 O).
  Notation Box3 := (Box3 O).
  Notation M22 := (@Mat.M22 O).
  Notation M33 := (@Mat.M33 O).
  Notation M44 := (@Mat.M44 O).

  Record Obj2 := mkObj2 { ev2 : V2 -> T; bb2 : Box2 }.
  Record Obj3 := mkObj3 { ev3 : V3 -> T; bb3 : Box3 }.

  Definition tau : T := two * opi O.
  Definition k05 : T := half.                      (* the literal 0.5 *)
  Definition sqrt_half : T := cst 7071067811865476 10000000000000000.

  (* ---------------------------------------------------------------- blends *)
  Inductive MinK := MinDef | MinPoly (k : T) | MinRound (k : T) | MinChamfer (k : T).
  Inductive MaxK := MaxDef | MaxPoly (k : T).

  Definition min_apply (m : MinK) (a b : T) : T :=
    match m with
    | MinDef => omin O a b
    | MinPoly k => poly a b k
    | MinRound k =>
        let u := v2max (mkV2 (k - a) (k - b)) (mkV2 (o0 O) (o0 O)) in
        omax O k (omin O a b) - v2len u
    | MinChamfer k => omin O (omin O a b) ((a - k + b) * sqrt_half)
    end.
  Definition max_apply (m : MaxK) (a b : T) : T :=
    match m with
    | MaxDef => omax O a b
    | MaxPoly k => - (poly (- a) (- b) k)
    end.
  Definition min_is_blend (m : MinK) : bool := match m with MinDef => false | _ => true end.

  (* sdf.SawTooth *)
  Definition sawtooth (x period : T) : T :=
    let x := x + period / two in
    let t := x / period in
    period * (t - ofloor O t) - period / two.

  (* ---------------------------------------------------------------- basic fields *)
  Definition sdf_box2d (p s : V2) : T :=
    let p := v2abs p in
    let d := v2sub p s in
    let k := vy s - vx s in
    if (vx d >? o0 O) && (vy d >? o0 O) then v2len d
    else if (vy p - vx p) >? k then vy d
    else vx d.

  Definition sdf_box3d (p s : V3) : T :=
    let d := v3sub (v3abs p) s in
    let gx := wx d >? o0 O in let gy := wy d >? o0 O in let gz := wz d >? o0 O in
    if gx && gy && gz then v3len d
    else if gx && gy then v2len (mkV2 (wx d) (wy d))
    else if gx && gz then v2len (mkV2 (wx d) (wz d))
    else if gy && gz then v2len (mkV2 (wy d) (wz d))
    else if gx then wx d
    else if gy then wy d
    else if gz then wz d
    else v3maxcomp d.

  (* ---------------------------------------------------------------- 2D primitives *)
  Definition k_circle (radius : T) : option Obj2 :=
    if radius <? o0 O then None
    else
      let d := mkV2 radius radius in
      Some (mkObj2 (fun p => v2len p - radius) (mkBox2 (v2neg d) d)).

  Definition k_box2 (size : V2) (round : T) : option Obj2 :=
    let size := v2muls size k05 in
    let ssize := v2subs size round in
    Some (mkObj2 (fun p => sdf_box2d p ssize - round) (mkBox2 (v2neg size) size)).

  Definition k_line2 (l round : T) : option Obj2 :=
    let sl := l / two in
    Some (mkObj2 (fun p =>
                    let p := v2abs p in
                    if vx p <=? sl then vy p - round
                    else v2len (v2sub p (mkV2 sl (o0 O))) - round)
                 (mkBox2 (mkV2 (- sl - round) (- round)) (mkV2 (sl + round) round))).

  (* ---------------------------------------------------------------- 2D combinators *)
  Definition k_offset2 (s : Obj2) (offset : T) : option Obj2 :=
    let bb := bb2 s in
    Some (mkObj2 (fun p => ev2 s p - offset)
                 (newbox2 (box2_center bb) (v2adds (box2_size bb) (two * offset)))).

  Definition k_intersect2 (m : MaxK) (s0 s1 : Obj2) : option Obj2 :=
    Some (mkObj2 (fun p => max_apply m (ev2 s0 p) (ev2 s1 p)) (bb2 s0)).

  Definition k_difference2 (m : MaxK) (s0 s1 : Obj2) : option Obj2 :=
    Some (mkObj2 (fun p => max_apply m (ev2 s0 p) (- (ev2 s1 p))) (bb2 s0)).

  Definition k_cut2 (s : Obj2) (a v : V2) : option Obj2 :=
    let v := v2normalize v in
    let n := mkV2 (- (vy v)) (vx v) in
    Some (mkObj2 (fun p => omax O (v2dot (v2sub p a) n) (ev2 s p)) (bb2 s)).

  Definition k_transform2 (s : Obj2) (m : M33) : option Obj2 :=
    let minv := m33_inverse m in
    Some (mkObj2 (fun p => ev2 s (m33_mulposition minv p)) (m33_mulbox m (bb2 s))).

  Definition k_scaleuniform2 (s : Obj2) (k : T) : option Obj2 :=
    let m := mk_scale2d (mkV2 k k) in
    let invk := o1 O / k in
    Some (mkObj2 (fun p => ev2 s (v2muls p invk) * k) (m33_mulbox m (bb2 s))).

  (* nested counting loops: j = 0..nx-1, k = 0..ny-1 *)
  Fixpoint count_loop {A} (n : nat) (i : Z) (f : Z -> A -> A) (acc : A) : A :=
    match n with
    | 0%nat => acc
    | S n' => count_loop n' (i + 1)%Z f (f i acc)
    end.

  Definition k_array2 (mk : MinK) (s : Obj2) (nx ny : Z) (step : V2) : option Obj2 :=
    if (nx <=? 0)%Z || (ny <=? 0)%Z then None
    else
      let bb0 := bb2 s in
      let bb1 := box2_translate bb0 (v2mul step (mkV2 (ofZ O (nx - 1)) (ofZ O (ny - 1)))) in
      Some (mkObj2 (fun p =>
                      count_loop (Z.to_nat nx) 0 (fun j d =>
                        count_loop (Z.to_nat ny) 0 (fun k d =>
                          let x := v2sub p (mkV2 (ofZ O j * vx step) (ofZ O k * vy step)) in
                          min_apply mk d (ev2 s x)) d) (omaxf O))
                   (box2_extend bb0 bb1)).

  (* bounding box of a rotate/union: the vertex set is multiplied by step each round *)
  Fixpoint rotunion_box2 (n : nat) (step : M33) (v : list V2) (bmin bmax : V2) : V2 * V2 :=
    match n with
    | 0%nat => (bmin, bmax)
    | S n' => rotunion_box2 n' step (map (m33_mulposition step) v)
                            (v2min bmin (v2set_min v)) (v2max bmax (v2set_max v))
    end.

  Fixpoint rotunion_loop2 (mk : MinK) (f : V2 -> T) (n : nat) (sstep rot : M33) (p : V2) (d : T) : T :=
    match n with
    | 0%nat => d
    | S n' =>
        let x := m33_mulposition rot p in
        let d := min_apply mk d (f x) in
        rotunion_loop2 mk f n' sstep (m33_mul rot sstep) p d
    end.

  Definition k_rotateunion2 (mk : MinK) (s : Obj2) (num : Z) (step : M33) : option Obj2 :=
    if (num <=? 0)%Z then None
    else
      let sstep := m33_inverse step in
      let v := box2_vertices (bb2 s) in
      let v0 := hd v2zero v in
      let '(bmin, bmax) := rotunion_box2 (Z.to_nat num) step v v0 v0 in
      Some (mkObj2 (fun p => rotunion_loop2 mk (ev2 s) (Z.to_nat num) sstep mk_identity2d p (omaxf O))
                   (mkBox2 bmin bmax)).

  Definition k_rotatecopy2 (s : Obj2) (n : Z) : option Obj2 :=
    if (n <=? 0)%Z then None
    else
      let theta := tau / ofZ O n in
      let rmax := fold_left (fun rmax v => let l := v2len v in if l >? rmax then l else rmax)
                            (box2_vertices (bb2 s)) (o0 O) in
      Some (mkObj2 (fun p =>
                      let r := v2len p in
                      let th := sawtooth (oatan2 O (vy p) (vx p)) theta in
                      ev2 s (mkV2 (r * ocos O th) (r * osin O th)))
                   (mkBox2 (mkV2 (- rmax) (- rmax)) (mkV2 rmax rmax))).

  Definition k_elongate2 (s : Obj2) (h : V2) : option Obj2 :=
    let h := v2abs h in
    let hp := v2muls h k05 in
    let hn := v2muls h (- k05) in
    let bb := bb2 s in
    Some (mkObj2 (fun p => ev2 s (v2sub p (v2clamp p hn hp)))
                 (box2_extend (box2_translate bb hp) (box2_translate bb hn))).

  (* Union2D: nil-stripping is done by the caller; 0 operands -> nil; 1 operand -> itself *)
  Definition k_union2 (mk : MinK) (l : list Obj2) : option Obj2 :=
    match l with
    | [] => None
    | [s] => Some s
    | s0 :: _ =>
        let bb := fold_left (fun bb x => box2_extend bb (bb2 x)) l (bb2 s0) in
        Some (mkObj2 (fun p =>
                        evaluate (min_is_blend mk) (min_apply mk)
                                 (map (fun x => (box2_minmax (bb2 x) p, ev2 x p)) l))
                     bb)
    end.

  (* ---------------------------------------------------------------- 3D primitives *)
  Definition v3_lte_zero (a : V3) : bool := (wx a <=? o0 O) || (wy a <=? o0 O) || (wz a <=? o0 O).

  Definition k_sphere (radius : T) : option Obj3 :=
    if radius <=? o0 O then None
    else
      let d := mkV3 radius radius radius in
      Some (mkObj3 (fun p => v3len p - radius) (mkBox3 (v3neg d) d)).

  Definition k_box3 (size : V3) (round : T) : option Obj3 :=
    if v3_lte_zero size then None
    else if round <? o0 O then None
    else
      let size := v3muls size k05 in
      let ssize := v3subs size round in
      Some (mkObj3 (fun p => sdf_box3d p ssize - round) (mkBox3 (v3neg size) size)).

  Definition k_cylinder (height radius round : T) : option Obj3 :=
    if radius <=? o0 O then None
    else if round <? o0 O then None
    else if round >? radius then None
    else if height <? two * round then None
    else
      let sh := (height / two) - round in
      let sr := radius - round in
      let d := mkV3 radius radius (height / two) in
      Some (mkObj3 (fun p => sdf_box2d (mkV2 (v2len (mkV2 (wx p) (wy p))) (wz p)) (mkV2 sr sh) - round)
                   (mkBox3 (v3neg d) d)).

  Definition k_cone (height r0 r1 round : T) : option Obj3 :=
    if height <=? o0 O then None
    else if round <? o0 O then None
    else if height <? two * round then None
    else
      let sh := (height / two) - round in
      let u := v2normalize (v2sub (mkV2 r1 (height / two)) (mkV2 r0 (- (height / two)))) in
      let n := mkV2 (vy u) (- (vx u)) in
      let ofs := round / vx n in
      let sr0 := r0 - (o1 O + vy n) * ofs in
      let sr1 := r1 - (o1 O - vy n) * ofs in
      let l := v2len (v2sub (mkV2 sr1 sh) (mkV2 sr0 (- sh))) in
      let r := omax O (sr0 + round) (sr1 + round) in
      Some (mkObj3
        (fun p =>
           let p2 := mkV2 (v2len (mkV2 (wx p) (wy p))) (wz p) in
           if (vy p2 >=? sh) && (vx p2 <=? sr1) then vy p2 - sh - round
           else if (vy p2 <=? - sh) && (vx p2 <=? sr0) then - vy p2 - sh - round
           else
             let v := v2sub p2 (mkV2 sr0 (- sh)) in
             let dslope := v2dot v n in
             if (dslope <? o0 O) && (oabs O (vy p2) <? sh)
             then - (omin O (- dslope) (sh - oabs O (vy p2))) - round
             else
               let t := v2dot v u in
               if (t >=? o0 O) && (t <=? l) then dslope - round
               else if t <? o0 O then v2len v - round
               else v2len (v2sub p2 (mkV2 sr1 sh)) - round)
        (mkBox3 (mkV3 (- r) (- r) (- (height / two))) (mkV3 r r (height / two)))).

  (* ---------------------------------------------------------------- 2D -> 3D *)
  Definition k_revolve (s : Obj2) (theta0 : T) : option Obj3 :=
    if theta0 <? o0 O then None
    else
      let theta := ofmod O (oabs O theta0) tau in
      let sn := osin O theta in
      let cs := ocos O theta in
      let norm := mkV2 (- sn) cs in
      let vset :=
        if theta =? o0 O then [mkV2 (o1 O) (o1 O); mkV2 (- o1 O) (- o1 O)]
        else
          [mkV2 (o0 O) (o0 O); mkV2 (o1 O) (o0 O); mkV2 cs sn]
          ++ (if theta >? k05 * opi O then [mkV2 (o0 O) (o1 O)] else [])
          ++ (if theta >? opi O then [mkV2 (- o1 O) (o0 O)] else [])
          ++ (if theta >? cst 3 2 * opi O then [mkV2 (o0 O) (- o1 O)] else []) in
      let bb := bb2 s in
      let l := omax O (oabs O (vx (b2min bb))) (oabs O (vx (b2max bb))) in
      let vmin := v2muls (v2set_min vset) l in
      let vmax := v2muls (v2set_max vset) l in
      Some (mkObj3
        (fun p =>
           let x := osqrt O (wx p * wx p + wy p * wy p) in
           let a := ev2 s (mkV2 x (wz p)) in
           let b := if theta =? o0 O then a
                    else
                      let d := v2dot norm (mkV2 (wx p) (wy p)) in
                      if theta <? opi O then omax O (- wy p) d else omin O (- wy p) d in
           omax O a b)
        (mkBox3 (mkV3 (vx vmin) (vy vmin) (vy (b2min bb))) (mkV3 (vx vmax) (vy vmax) (vy (b2max bb))))).

  (* extrusion mappings (sdf/utils.go) *)
  Definition ex_normal (p : V3) : V2 := mkV2 (wx p) (wy p).
  Definition ex_twist (height twist : T) : V3 -> V2 :=
    let k := twist / height in
    fun p => m22_mulposition (mk_rotate (wz p * k)) (mkV2 (wx p) (wy p)).
  Definition ex_scale (height : T) (scale : V2) : V3 -> V2 :=
    let inv := mkV2 (o1 O / vx scale) (o1 O / vy scale) in
    let m := v2divs (v2sub inv (mkV2 (o1 O) (o1 O))) height in
    let b := v2adds (v2muls inv k05) k05 in
    fun p => v2mul (mkV2 (wx p) (wy p)) (v2add (v2muls m (wz p)) b).
  Definition ex_scaletwist (height twist : T) (scale : V2) : V3 -> V2 :=
    let k := twist / height in
    let inv := mkV2 (o1 O / vx scale) (o1 O / vy scale) in
    let m := v2divs (v2sub inv (mkV2 (o1 O) (o1 O))) height in
    let b := v2adds (v2muls inv k05) k05 in
    fun p =>
      let pnew := v2mul (mkV2 (wx p) (wy p)) (v2add (v2muls m (wz p)) b) in
      m22_mulposition (mk_rotate (wz p * k)) pnew.

  Definition extrude_ev (s : Obj2) (sh : T) (ex : V3 -> V2) : V3 -> T :=
    fun p =>
      let a := ev2 s (ex p) in
      let b := oabs O (wz p) - sh in
      omax O a b.

  Definition k_extrude (s : Obj2) (height : T) : option Obj3 :=
    let sh := height / two in
    let bb := bb2 s in
    Some (mkObj3 (extrude_ev s sh ex_normal)
                 (mkBox3 (mkV3 (vx (b2min bb)) (vy (b2min bb)) (- sh)) (mkV3 (vx (b2max bb)) (vy (b2max bb)) sh))).

  (* the radius used by the twisted extrusions: the farthest corner of the profile box
     from the axis (repaired: the pinned commit used |bb.Max| only) *)
  Definition box2_max_radius (bb : Box2) : T :=
    fold_left (fun l v => omax O l (v2len v)) (box2_vertices bb) (o0 O).

  Definition k_twistextrude (s : Obj2) (height twist : T) : option Obj3 :=
    let sh := height / two in
    let l := box2_max_radius (bb2 s) in
    Some (mkObj3 (extrude_ev s sh (ex_twist height twist))
                 (mkBox3 (mkV3 (- l) (- l) (- sh)) (mkV3 l l sh))).

  Definition k_scaleextrude (s : Obj2) (height : T) (scale : V2) : option Obj3 :=
    let sh := height / two in
    let bb := bb2 s in
    let bb := box2_extend bb (mkBox2 (v2mul (b2min bb) scale) (v2mul (b2max bb) scale)) in
    Some (mkObj3 (extrude_ev s sh (ex_scale height scale))
                 (mkBox3 (mkV3 (vx (b2min bb)) (vy (b2min bb)) (- sh)) (mkV3 (vx (b2max bb)) (vy (b2max bb)) sh))).

  Definition k_scaletwistextrude (s : Obj2) (height twist : T) (scale : V2) : option Obj3 :=
    let sh := height / two in
    let bb := bb2 s in
    let l := box2_max_radius bb in
    let l := l * omax O (o1 O) (omax O (oabs O (vx scale)) (oabs O (vy scale))) in
    Some (mkObj3 (extrude_ev s sh (ex_scaletwist height twist scale))
                 (mkBox3 (mkV3 (- l) (- l) (- sh)) (mkV3 l l sh))).

  (* shared tail of ExtrudeRounded / Loft *)
  Definition rounded_combine (a b round : T) : T :=
    let d := if b >? o0 O
             then (if a <? o0 O then b else osqrt O ((a * a) + (b * b)))
             else (if a <? o0 O then omax O a b else a) in
    d - round.

  Definition k_extruderounded (s : Obj2) (height round : T) : option Obj3 :=
    if round =? o0 O then k_extrude s height
    else if height <=? o0 O then None
    else if round <? o0 O then None
    else if height <? two * round then None
    else
      let sh := (height / two) - round in
      let bb := bb2 s in
      Some (mkObj3 (fun p =>
                      let a := ev2 s (mkV2 (wx p) (wy p)) in
                      let b := oabs O (wz p) - sh in
                      rounded_combine a b round)
                   (mkBox3 (v3subs (mkV3 (vx (b2min bb)) (vy (b2min bb)) (- sh)) round)
                           (v3adds (mkV3 (vx (b2max bb)) (vy (b2max bb)) sh) round))).

  Definition k_loft (s0 s1 : Obj2) (height round : T) : option Obj3 :=
    if height <=? o0 O then None
    else if round <? o0 O then None
    else if height <? two * round then None
    else
      let sh := (height / two) - round in
      let bb := box2_extend (bb2 s0) (bb2 s1) in
      Some (mkObj3 (fun p =>
                      let k := if sh =? o0 O then k05 else clamp ((k05 * wz p / sh) + k05) (o0 O) (o1 O) in
                      let a0 := ev2 s0 (mkV2 (wx p) (wy p)) in
                      let a1 := ev2 s1 (mkV2 (wx p) (wy p)) in
                      let a := mix a0 a1 k in
                      let b := oabs O (wz p) - sh in
                      rounded_combine a b round)
                   (mkBox3 (v3subs (mkV3 (vx (b2min bb)) (vy (b2min bb)) (- sh)) round)
                           (v3adds (mkV3 (vx (b2max bb)) (vy (b2max bb)) sh) round))).

  (* ---------------------------------------------------------------- 3D combinators *)
  Definition k_transform3 (s : Obj3) (m : M44) : option Obj3 :=
    let inv := m44_inverse m in
    Some (mkObj3 (fun p => ev3 s (m44_mulposition inv p)) (m44_mulbox m (bb3 s))).

  Definition k_scaleuniform3 (s : Obj3) (k : T) : option Obj3 :=
    let m := mk_scale3d (mkV3 k k k) in
    let invk := o1 O / k in
    Some (mkObj3 (fun p => ev3 s (v3muls p invk) * k) (m44_mulbox m (bb3 s))).

  Definition k_union3 (mk : MinK) (l : list Obj3) : option Obj3 :=
    match l with
    | [] => None
    | [s] => Some s
    | s0 :: r =>
        let bb := fold_left (fun bb x => box3_extend bb (bb3 x)) l (bb3 s0) in
        Some (mkObj3 (fun p => fold_left (fun d x => min_apply mk d (ev3 x p)) r (ev3 s0 p)) bb)
    end.

  Definition k_difference3 (m : MaxK) (s0 s1 : Obj3) : option Obj3 :=
    Some (mkObj3 (fun p => max_apply m (ev3 s0 p) (- (ev3 s1 p))) (bb3 s0)).

  Definition k_intersect3 (m : MaxK) (s0 s1 : Obj3) : option Obj3 :=
    Some (mkObj3 (fun p => max_apply m (ev3 s0 p) (ev3 s1 p)) (bb3 s0)).

  Definition k_cut3 (s : Obj3) (a n : V3) : option Obj3 :=
    let n := v3neg (v3normalize n) in
    Some (mkObj3 (fun p => omax O (v3dot (v3sub p a) n) (ev3 s p)) (bb3 s)).

  Definition k_elongate3 (s : Obj3) (h : V3) : option Obj3 :=
    let h := v3abs h in
    let hp := v3muls h k05 in
    let hn := v3muls h (- k05) in
    let bb := bb3 s in
    Some (mkObj3 (fun p => ev3 s (v3sub p (v3clamp p hn hp)))
                 (box3_extend (box3_translate bb hp) (box3_translate bb hn))).

  Definition k_array3 (mk : MinK) (s : Obj3) (nx ny nz : Z) (step : V3) : option Obj3 :=
    if (nx <=? 0)%Z || (ny <=? 0)%Z || (nz <=? 0)%Z then None
    else
      let bb0 := bb3 s in
      let bb1 := box3_translate bb0 (v3mul step (mkV3 (ofZ O (nx - 1)) (ofZ O (ny - 1)) (ofZ O (nz - 1)))) in
      Some (mkObj3 (fun p =>
                      count_loop (Z.to_nat nx) 0 (fun j d =>
                        count_loop (Z.to_nat ny) 0 (fun k d =>
                          count_loop (Z.to_nat nz) 0 (fun l d =>
                            let x := v3sub p (mkV3 (ofZ O j * wx step) (ofZ O k * wy step) (ofZ O l * wz step)) in
                            min_apply mk d (ev3 s x)) d) d) (omaxf O))
                   (box3_extend bb0 bb1)).

  Fixpoint rotunion_box3 (n : nat) (step : M44) (v : list V3) (bmin bmax : V3) : V3 * V3 :=
    match n with
    | 0%nat => (bmin, bmax)
    | S n' => rotunion_box3 n' step (map (m44_mulposition step) v)
                            (v3min bmin (v3set_min v)) (v3max bmax (v3set_max v))
    end.

  Fixpoint rotunion_loop3 (mk : MinK) (f : V3 -> T) (n : nat) (sstep rot : M44) (p : V3) (d : T) : T :=
    match n with
    | 0%nat => d
    | S n' =>
        let x := m44_mulposition rot p in
        let d := min_apply mk d (f x) in
        rotunion_loop3 mk f n' sstep (m44_mul rot sstep) p d
    end.

  Definition k_rotateunion3 (mk : MinK) (s : Obj3) (num : Z) (step : M44) : option Obj3 :=
    if (num <=? 0)%Z then None
    else
      let sstep := m44_inverse step in
      let v := box3_vertices (bb3 s) in
      let v0 := hd v3zero v in
      let '(bmin, bmax) := rotunion_box3 (Z.to_nat num) step v v0 v0 in
      Some (mkObj3 (fun p => rotunion_loop3 mk (ev3 s) (Z.to_nat num) sstep mk_identity3d p (omaxf O))
                   (mkBox3 bmin bmax)).

  Definition k_rotatecopy3 (s : Obj3) (num : Z) : option Obj3 :=
    if (num <=? 0)%Z then None
    else
      let theta := tau / ofZ O num in
      let bb := bb3 s in
      let rmax := fold_left (fun rmax v => let l := v2len (mkV2 (wx v) (wy v)) in if l >? rmax then l else rmax)
                            (box3_vertices bb) (o0 O) in
      Some (mkObj3 (fun p =>
                      let p2d := mkV2 (wx p) (wy p) in
                      let r := v2len p2d in
                      let th := sawtooth (oatan2 O (vy p2d) (vx p2d)) theta in
                      ev3 s (mkV3 (r * ocos O th) (r * osin O th) (wz p)))
                   (mkBox3 (mkV3 (- rmax) (- rmax) (wz (b3min bb))) (mkV3 rmax rmax (wz (b3max bb))))).

  Definition k_offset3 (s : Obj3) (offset : T) : option Obj3 :=
    let bb := bb3 s in
    Some (mkObj3 (fun p => ev3 s p - offset)
                 (newbox3 (box3_center bb) (v3adds (box3_size bb) (two * offset)))).

  Definition k_shell3 (s : Obj3) (thickness : T) : option Obj3 :=
    if thickness <=? o0 O then None
    else
      let delta := k05 * thickness in
      Some (mkObj3 (fun p => oabs O (ev3 s p) - delta)
                   (box3_enlarge (bb3 s) (mkV3 thickness thickness thickness))).

  (* Slice2D *)
  Definition k_slice2 (s : Obj3) (a n : V3) : option Obj2 :=
    let u0 := if wx n =? o0 O then mkV3 (o1 O) (o0 O) (o0 O)
              else if wy n =? o0 O then mkV3 (o0 O) (o1 O) (o0 O)
              else if wz n =? o0 O then mkV3 (o0 O) (o0 O) (o1 O)
              else mkV3 (wy n) (- wx n) (o0 O) in
    let v0 := v3cross n u0 in
    let u := v3normalize u0 in
    let v := v3normalize v0 in
    let nn := v3normalize n in
    let verts := map (fun vt =>
                        let va := v3sub vt a in
                        let pa := v3sub va (v3muls nn (v3dot nn va)) in
                        mkV2 (v3dot pa u) (v3dot pa v)) (box3_vertices (bb3 s)) in
    Some (mkObj2 (fun p => ev3 s (v3add (v3add a (v3muls u (vx p))) (v3muls v (vy p))))
                 (mkBox2 (v2set_min verts) (v2set_max verts))).

  (* ---------------------------------------------------------------- expression trees *)
  Inductive Shape2 :=
  | Circle (r : T) | Box2D (size : V2) (round : T) | Line2D (l round : T)
  | Offset2 (s : Shape2) (off : T)
  | Intersect2 (m : MaxK) (s0 s1 : Shape2) | Difference2 (m : MaxK) (s0 s1 : Shape2)
  | Cut2 (s : Shape2) (a v : V2)
  | Transform2 (s : Shape2) (m : M33)
  | ScaleUniform2 (s : Shape2) (k : T)
  | Array2 (mk : MinK) (s : Shape2) (nx ny : Z) (step : V2)
  | RotateUnion2 (mk : MinK) (s : Shape2) (num : Z) (step : M33)
  | RotateCopy2 (s : Shape2) (n : Z)
  | Elongate2 (s : Shape2) (h : V2)
  | Union2 (mk : MinK) (l : list Shape2)
  | Slice2 (s : Shape3) (a n : V3)
  with Shape3 :=
  | Sphere (r : T) | Box3D (size : V3) (round : T) | Cylinder (h r round : T) | Cone (h r0 r1 round : T)
  | Revolve (s : Shape2) (theta : T)
  | Extrude (s : Shape2) (h : T) | TwistExtrude (s : Shape2) (h twist : T)
  | ScaleExtrude (s : Shape2) (h : T) (scale : V2) | ScaleTwistExtrude (s : Shape2) (h twist : T) (scale : V2)
  | ExtrudeRounded (s : Shape2) (h round : T) | Loft (s0 s1 : Shape2) (h round : T)
  | Transform3 (s : Shape3) (m : M44) | ScaleUniform3 (s : Shape3) (k : T)
  | Union3 (mk : MinK) (l : list Shape3)
  | Difference3 (m : MaxK) (s0 s1 : Shape3) | Intersect3 (m : MaxK) (s0 s1 : Shape3)
  | Cut3 (s : Shape3) (a n : V3) | Elongate3 (s : Shape3) (h : V3)
  | Array3 (mk : MinK) (s : Shape3) (nx ny nz : Z) (step : V3)
  | RotateUnion3 (mk : MinK) (s : Shape3) (num : Z) (step : M44)
  | RotateCopy3 (s : Shape3) (n : Z)
  | Offset3 (s : Shape3) (off : T) | Shell3 (s : Shape3) (thickness : T).

  Definition obind {A B} (x : option A) (f : A -> option B) : option B :=
    match x with Some a => f a | None => None end.
  Fixpoint omap_all {A} (l : list (option A)) : option (list A) :=
    match l with
    | [] => Some []
    | x :: r => obind x (fun a => obind (omap_all r) (fun r' => Some (a :: r')))
    end.

  Fixpoint build2 (s : Shape2) : option Obj2 :=
    match s with
    | Circle r => k_circle r
    | Box2D size round => k_box2 size round
    | Line2D l round => k_line2 l round
    | Offset2 s off => obind (build2 s) (fun o => k_offset2 o off)
    | Intersect2 m s0 s1 => obind (build2 s0) (fun a => obind (build2 s1) (fun b => k_intersect2 m a b))
    | Difference2 m s0 s1 => obind (build2 s0) (fun a => obind (build2 s1) (fun b => k_difference2 m a b))
    | Cut2 s a v => obind (build2 s) (fun o => k_cut2 o a v)
    | Transform2 s m => obind (build2 s) (fun o => k_transform2 o m)
    | ScaleUniform2 s k => obind (build2 s) (fun o => k_scaleuniform2 o k)
    | Array2 mk s nx ny step => obind (build2 s) (fun o => k_array2 mk o nx ny step)
    | RotateUnion2 mk s num step => obind (build2 s) (fun o => k_rotateunion2 mk o num step)
    | RotateCopy2 s n => obind (build2 s) (fun o => k_rotatecopy2 o n)
    | Elongate2 s h => obind (build2 s) (fun o => k_elongate2 o h)
    | Union2 mk l => obind (omap_all (map build2 l)) (fun os => k_union2 mk os)
    | Slice2 s a n => obind (build3 s) (fun o => k_slice2 o a n)
    end
  with build3 (s : Shape3) : option Obj3 :=
    match s with
    | Sphere r => k_sphere r
    | Box3D size round => k_box3 size round
    | Cylinder h r round => k_cylinder h r round
    | Cone h r0 r1 round => k_cone h r0 r1 round
    | Revolve s theta => obind (build2 s) (fun o => k_revolve o theta)
    | Extrude s h => obind (build2 s) (fun o => k_extrude o h)
    | TwistExtrude s h tw => obind (build2 s) (fun o => k_twistextrude o h tw)
    | ScaleExtrude s h sc => obind (build2 s) (fun o => k_scaleextrude o h sc)
    | ScaleTwistExtrude s h tw sc => obind (build2 s) (fun o => k_scaletwistextrude o h tw sc)
    | ExtrudeRounded s h round => obind (build2 s) (fun o => k_extruderounded o h round)
    | Loft s0 s1 h round => obind (build2 s0) (fun a => obind (build2 s1) (fun b => k_loft a b h round))
    | Transform3 s m => obind (build3 s) (fun o => k_transform3 o m)
    | ScaleUniform3 s k => obind (build3 s) (fun o => k_scaleuniform3 o k)
    | Union3 mk l => obind (omap_all (map build3 l)) (fun os => k_union3 mk os)
    | Difference3 m s0 s1 => obind (build3 s0) (fun a => obind (build3 s1) (fun b => k_difference3 m a b))
    | Intersect3 m s0 s1 => obind (build3 s0) (fun a => obind (build3 s1) (fun b => k_intersect3 m a b))
    | Cut3 s a n => obind (build3 s) (fun o => k_cut3 o a n)
    | Elongate3 s h => obind (build3 s) (fun o => k_elongate3 o h)
    | Array3 mk s nx ny nz step => obind (build3 s) (fun o => k_array3 mk o nx ny nz step)
    | RotateUnion3 mk s num step => obind (build3 s) (fun o => k_rotateunion3 mk o num step)
    | RotateCopy3 s n => obind (build3 s) (fun o => k_rotatecopy3 o n)
    | Offset3 s off => obind (build3 s) (fun o => k_offset3 o off)
    | Shell3 s th => obind (build3 s) (fun o => k_shell3 o th)
    end.
End Shape.

Arguments Obj2 : clear implicits.
Arguments Obj3 : clear implicits.
Arguments Shape2 : clear implicits.
Arguments Shape3 : clear implicits.
Arguments MinK : clear implicits.
Arguments MaxK : clear implicits.
