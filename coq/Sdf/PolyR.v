(* Proofs over the reals about Sdf/Poly.v (polygon SDF: crossing number, segment distance,
   clipping into a quadtree, ray-directed walk, pruned nearest-piece search). *)
From Coq Require Import Reals Lra Lia List Bool ZArith Permutation Psatz.
From Sdfx Require Import Num.Ops Num.RInst Geo.Vec Geo.Box Geo.MinMaxR Geo.BoxR Sdf.Poly.
Import ListNotations.
Open Scope R_scope.

Notation V := (V2 ROps).
Notation SegR := (Seg ROps).
Notation LI := (LineInfo ROps).

Ltac unops :=
  change (oadd ROps) with Rplus in *; change (osub ROps) with Rminus in *;
  change (omul ROps) with Rmult in *; change (odiv ROps) with Rdiv in *;
  change (oneg ROps) with Ropp in *; change (oabs ROps) with Rabs in *;
  change (osqrt ROps) with R_sqrt.sqrt in *;
  change (oltb ROps) with Rltb in *; change (oleb ROps) with Rleb in *; change (oeqb ROps) with Reqb in *;
  change (omin ROps) with Rmin in *; change (omax ROps) with Rmax in *;
  change (o0 ROps) with 0 in *; change (o1 ROps) with 1 in *; change (T ROps) with R in *.

(* ------------------------------------------------------------ (1) half-open crossing rule *)
Definition crossR (ax ay bx by_ px py : R) : R := (bx - ax) * (py - ay) - (by_ - ay) * (px - ax).

(* the increment as a function of the two end levels and (the sign of) a cross product k *)
Definition cs (ay by_ py k : R) : Z :=
  if Rleb ay py then (if Rltb py by_ && Rltb 0 k then 1%Z else 0%Z)
  else (if Rleb by_ py && Rltb k 0 then (-1)%Z else 0%Z).

Lemma cross_spec_cs (l : SegR) (p : V) :
  cross_spec l p = cs (vy (fst l)) (vy (snd l)) (vy p)
                      (crossR (vx (fst l)) (vy (fst l)) (vx (snd l)) (vy (snd l)) (vx p) (vy p)).
Proof.
  destruct l as [[ax ay] [bx by_]], p as [px py]. unfold cross_spec, cs, crossR, v2cross, v2sub; cbn.
  reflexivity.
Qed.

Lemma cs_scale ay by_ py k s : 0 < s -> cs ay by_ py (s * k) = cs ay by_ py k.
Proof.
  intros Hs. unfold cs.
  assert (E1 : Rltb 0 (s * k) = Rltb 0 k).
  { destruct (Rltb 0 k) eqn:E; [apply Rltb_true in E; apply Rltb_true; nra | apply Rltb_false in E; apply Rltb_false; nra]. }
  assert (E2 : Rltb (s * k) 0 = Rltb k 0).
  { destruct (Rltb k 0) eqn:E; [apply Rltb_true in E; apply Rltb_true; nra | apply Rltb_false in E; apply Rltb_false; nra]. }
  rewrite E1, E2. reflexivity.
Qed.

Lemma cs_level ay py k : cs ay ay py k = 0%Z.
Proof. unfold cs. rcmp; cbn; try reflexivity; lra. Qed.

(* lineInfo.winding is the specification increment, for every segment (also a degenerate one)
   and every point *)
Theorem winding_eq_spec (l : SegR) (p : V) : winding (new_line_info l) p = cross_spec l p.
Proof.
  rewrite cross_spec_cs.
  destruct l as [[ax ay] [bx by_]], p as [px py].
  unfold winding, new_line_info, v2normalize, v2len, v2len2, v2dot, v2muls, v2sub; cbn. unops.
  set (vv := (bx - ax) * (bx - ax) + (by_ - ay) * (by_ - ay)).
  set (k := crossR ax ay bx by_ px py).
  set (dn := (px - ax) * ((by_ - ay) * (1 / sqrt vv)) + (py - ay) * - ((bx - ax) * (1 / sqrt vv))).
  assert (Hvv : 0 <= vv) by (unfold vv; nra).
  destruct (Req_dec by_ ay) as [E|NE].
  - (* horizontal (or degenerate): no crossing on either side *)
    subst by_. rewrite cs_level. rcmp; cbn; try reflexivity; lra.
  - assert (Hpos : 0 < vv) by (unfold vv; assert (0 < (by_ - ay) * (by_ - ay)) by nra; nra).
    assert (HL : 0 < sqrt vv) by (apply sqrt_lt_R0; exact Hpos).
    assert (Hdn : dn = - k * (1 / sqrt vv)) by (unfold dn, k, crossR; field; lra).
    assert (Hi : 0 < 1 / sqrt vv) by (apply Rdiv_lt_0_compat; lra).
    unfold cs.
    assert (E1 : Rltb dn 0 = Rltb 0 k).
    { rewrite Hdn. destruct (Rltb 0 k) eqn:E; [apply Rltb_true in E; apply Rltb_true; nra | apply Rltb_false in E; apply Rltb_false; nra]. }
    assert (E2 : Rltb 0 dn = Rltb k 0).
    { rewrite Hdn. destruct (Rltb k 0) eqn:E; [apply Rltb_true in E; apply Rltb_true; nra | apply Rltb_false in E; apply Rltb_false; nra]. }
    rewrite E1, E2. reflexivity.
Qed.

Definition sumZ (l : list Z) : Z := fold_right Z.add 0%Z l.

Lemma fold_sum {A} (f : A -> Z) (l : list A) (w : Z) :
  fold_left (fun w x => (w + f x)%Z) l w = (w + sumZ (map f l))%Z.
Proof. revert w; induction l as [|x l IH]; intros w; cbn; [lia|]. rewrite IH. lia. Qed.

(* summed over any list of edges (in particular a closed chain): the slow loop's winding number is
   the specification crossing number *)
Theorem halfopen_crossing_spec (ls : list SegR) (p : V) :
  snd (slow_loop (convert_lines ls) p) = wn_spec ls p.
Proof.
  unfold slow_loop, wn_spec, convert_lines.
  assert (G : forall (l : list SegR) d w,
             snd (fold_left (fun (s : R * Z) li => (Rmin (fst s) (min_distance2 li p), (snd s + winding li p)%Z))
                            (map new_line_info l) (d, w))
             = fold_left (fun w l => (w + cross_spec l p)%Z) l w).
  { induction l as [|x l IH]; intros d w; cbn [map fold_left fst snd]; [reflexivity|].
    rewrite IH. rewrite winding_eq_spec. reflexivity. }
  apply G.
Qed.

(* telescoping: on a closed chain of vertices the number of edges that start at or below a level
   and end above it equals the number that start above and end at or below it, so the half-open
   rule gives every vertex level to exactly one of the two edges meeting there *)
Fixpoint closed_edges_from (first : V) (vs : list V) : list SegR :=
  match vs with
  | [] => []
  | [a] => [(a, first)]
  | a :: ((b :: _) as r) => (a, b) :: closed_edges_from first r
  end.
Definition closed_edges (vs : list V) : list SegR :=
  match vs with [] => [] | v0 :: _ => closed_edges_from v0 vs end.
Definition below (y : R) (q : V) : Z := if Rleb (vy q) y then 1%Z else 0%Z.
Definition updown (y : R) (l : SegR) : Z := (below y (fst l) - below y (snd l))%Z.

Lemma closed_from_balance first a vs y :
  sumZ (map (updown y) (closed_edges_from first (a :: vs))) = (below y a - below y first)%Z.
Proof.
  revert a; induction vs as [|b vs IH]; intros a; cbn [closed_edges_from map sumZ fold_right].
  - unfold updown; cbn. lia.
  - specialize (IH b). cbn [closed_edges_from] in IH. unfold sumZ in IH. rewrite IH. unfold updown; cbn. lia.
Qed.
Theorem closed_chain_level_balance (vs : list V) (y : R) :
  sumZ (map (updown y) (closed_edges vs)) = 0%Z.
Proof.
  destruct vs as [|v0 vs]; [reflexivity|]. unfold closed_edges. rewrite closed_from_balance. lia.
Qed.
