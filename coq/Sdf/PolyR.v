(* Proofs over the reals about Sdf/Poly.v (polygon SDF: crossing number, segment distance,
   clipping into a quadtree, ray-directed walk, pruned nearest-piece search). *)
From Coq Require Import Reals Lra Lia List Bool ZArith Permutation Psatz.
From Sdfx Require Import Num.Ops Num.RInst Geo.Vec Geo.Box Geo.MinMaxR Geo.BoxR Sdf.Poly.
Import ListNotations.
Open Scope R_scope.

Notation V := (V2 ROps).
Notation SegR := (Seg ROps).
Notation LI := (LineInfo ROps).

Ltac unops :=
  change (oadd ROps) with Rplus in *; change (osub ROps) with Rminus in *;
  change (omul ROps) with Rmult in *; change (odiv ROps) with Rdiv in *;
  change (oneg ROps) with Ropp in *; change (oabs ROps) with Rabs in *;
  change (osqrt ROps) with R_sqrt.sqrt in *;
  change (oltb ROps) with Rltb in *; change (oleb ROps) with Rleb in *; change (oeqb ROps) with Reqb in *;
  change (omin ROps) with Rmin in *; change (omax ROps) with Rmax in *;
  change (o0 ROps) with 0 in *; change (o1 ROps) with 1 in *; change (T ROps) with R in *.

Lemma sq_nn (x : R) : 0 <= x * x.
Proof. pose proof (Rle_0_sqr x) as H; unfold Rsqr in H; exact H. Qed.
Lemma sq_pos (x : R) : x <> 0 -> 0 < x * x.
Proof. intros H. pose proof (Rlt_0_sqr x H) as H1; unfold Rsqr in H1; exact H1. Qed.

(* ------------------------------------------------------------ (1) half-open crossing rule *)
Definition crossR (ax ay bx by_ px py : R) : R := (bx - ax) * (py - ay) - (by_ - ay) * (px - ax).

(* the increment as a function of the two end levels and (the sign of) a cross product k *)
Definition cs (ay by_ py k : R) : Z :=
  if Rleb ay py then (if Rltb py by_ && Rltb 0 k then 1%Z else 0%Z)
  else (if Rleb by_ py && Rltb k 0 then (-1)%Z else 0%Z).

Lemma cross_spec_cs (l : SegR) (p : V) :
  cross_spec l p = cs (vy (fst l)) (vy (snd l)) (vy p)
                      (crossR (vx (fst l)) (vy (fst l)) (vx (snd l)) (vy (snd l)) (vx p) (vy p)).
Proof.
  destruct l as [[ax ay] [bx by_]], p as [px py]. unfold cross_spec, cs, crossR, v2cross, v2sub; cbn.
  reflexivity.
Qed.

Lemma cs_scale ay by_ py k s : 0 < s -> cs ay by_ py (s * k) = cs ay by_ py k.
Proof.
  intros Hs. unfold cs.
  assert (E1 : Rltb 0 (s * k) = Rltb 0 k).
  { destruct (Rltb 0 k) eqn:E; [apply Rltb_true in E; apply Rltb_true; nra | apply Rltb_false in E; apply Rltb_false; nra]. }
  assert (E2 : Rltb (s * k) 0 = Rltb k 0).
  { destruct (Rltb k 0) eqn:E; [apply Rltb_true in E; apply Rltb_true; nra | apply Rltb_false in E; apply Rltb_false; nra]. }
  rewrite E1, E2. reflexivity.
Qed.

Lemma cs_level ay py k : cs ay ay py k = 0%Z.
Proof. unfold cs. rcmp; cbn; try reflexivity; lra. Qed.

(* lineInfo.winding is the specification increment, for every segment (also a degenerate one)
   and every point *)
Theorem winding_eq_spec (l : SegR) (p : V) : winding (new_line_info l) p = cross_spec l p.
Proof.
  rewrite cross_spec_cs.
  destruct l as [[ax ay] [bx by_]], p as [px py].
  unfold winding, new_line_info, v2normalize, v2len, v2len2, v2dot, v2muls, v2sub; cbn. unops.
  remember ((bx - ax) * (bx - ax) + (by_ - ay) * (by_ - ay)) as vv eqn:Evv.
  remember (crossR ax ay bx by_ px py) as k eqn:Ek.
  remember ((px - ax) * ((by_ - ay) * (1 / sqrt vv)) + (py - ay) * - ((bx - ax) * (1 / sqrt vv))) as dn eqn:Edn.
  assert (Hvv : 0 <= vv) by (pose proof (sq_nn (bx - ax)); pose proof (sq_nn (by_ - ay)); lra).
  destruct (Req_dec by_ ay) as [E|NE].
  - (* horizontal (or degenerate): no crossing on either side *)
    subst by_. rewrite cs_level. rcmp; cbn; try reflexivity; lra.
  - assert (Hpos : 0 < vv) by (pose proof (sq_nn (bx - ax)); assert (0 < (by_ - ay) * (by_ - ay)) by (apply sq_pos; lra); lra).
    assert (HL : 0 < sqrt vv) by (apply sqrt_lt_R0; exact Hpos).
    assert (Hdn : dn = - k * (1 / sqrt vv)) by (rewrite Edn, Ek; unfold crossR; field; lra).
    assert (Hi : 0 < 1 / sqrt vv) by (apply Rdiv_lt_0_compat; lra).
    unfold cs.
    assert (E1 : Rltb dn 0 = Rltb 0 k).
    { rewrite Hdn. destruct (Rltb 0 k) eqn:E; [apply Rltb_true in E; apply Rltb_true; nra | apply Rltb_false in E; apply Rltb_false; nra]. }
    assert (E2 : Rltb 0 dn = Rltb k 0).
    { rewrite Hdn. destruct (Rltb k 0) eqn:E; [apply Rltb_true in E; apply Rltb_true; nra | apply Rltb_false in E; apply Rltb_false; nra]. }
    rewrite E1, E2. reflexivity.
Qed.

Definition sumZ (l : list Z) : Z := fold_right Z.add 0%Z l.

Lemma fold_sum {A} (f : A -> Z) (l : list A) (w : Z) :
  fold_left (fun w x => (w + f x)%Z) l w = (w + sumZ (map f l))%Z.
Proof. revert w; induction l as [|x l IH]; intros w; cbn [fold_left map]; [unfold sumZ; cbn; lia|]. rewrite IH. unfold sumZ; cbn [fold_right]. lia. Qed.

(* summed over any list of edges (in particular a closed chain): the slow loop's winding number is
   the specification crossing number *)
Theorem halfopen_crossing_spec (ls : list SegR) (p : V) :
  snd (slow_loop (convert_lines ls) p) = wn_spec ls p.
Proof.
  unfold slow_loop, wn_spec, convert_lines.
  assert (G : forall (l : list SegR) d w,
             snd (fold_left (fun (s : R * Z) li => (Rmin (fst s) (min_distance2 li p), (snd s + winding li p)%Z))
                            (map new_line_info l) (d, w))
             = fold_left (fun w l => (w + cross_spec l p)%Z) l w).
  { induction l as [|x l IH]; intros d w; cbn [map fold_left fst snd]; [reflexivity|].
    rewrite IH. rewrite winding_eq_spec. reflexivity. }
  apply G.
Qed.

(* telescoping: on a closed chain of vertices the number of edges that start at or below a level
   and end above it equals the number that start above and end at or below it, so the half-open
   rule gives every vertex level to exactly one of the two edges meeting there *)
Fixpoint closed_edges_from (first : V) (vs : list V) : list SegR :=
  match vs with
  | [] => []
  | [a] => [(a, first)]
  | a :: ((b :: _) as r) => (a, b) :: closed_edges_from first r
  end.
Definition closed_edges (vs : list V) : list SegR :=
  match vs with [] => [] | v0 :: _ => closed_edges_from v0 vs end.
Definition below (y : R) (q : V) : Z := if Rleb (vy q) y then 1%Z else 0%Z.
Definition updown (y : R) (l : SegR) : Z := (below y (fst l) - below y (snd l))%Z.

Lemma closed_from_balance first a vs y :
  sumZ (map (updown y) (closed_edges_from first (a :: vs))) = (below y a - below y first)%Z.
Proof.
  revert a; induction vs as [|b vs IH]; intros a; cbn [closed_edges_from map sumZ fold_right].
  - unfold updown; cbn. lia.
  - specialize (IH b). cbn [closed_edges_from] in IH. unfold sumZ in IH. rewrite IH. unfold updown; cbn. lia.
Qed.
Theorem closed_chain_level_balance (vs : list V) (y : R) :
  sumZ (map (updown y) (closed_edges vs)) = 0%Z.
Proof.
  destruct vs as [|v0 vs]; [reflexivity|]. unfold closed_edges. rewrite closed_from_balance. lia.
Qed.

(* ------------------------------------------------------------ (3) splitting a segment: winding *)
Definition between (A B C : V) (s : R) : Prop :=
  0 < s < 1 /\ vx C = vx A + s * (vx B - vx A) /\ vy C = vy A + s * (vy B - vy A).

Lemma cs_split ay cy by_ py k : (ay <= cy <= by_) \/ (by_ <= cy <= ay) ->
  (cs ay cy py k + cs cy by_ py k = cs ay by_ py k)%Z.
Proof.
  intros H. unfold cs.
  destruct (Rleb ay py) eqn:C1; [apply Rleb_true in C1 | apply Rleb_false in C1];
  (destruct (Rleb cy py) eqn:C2; [apply Rleb_true in C2 | apply Rleb_false in C2]);
  (destruct (Rleb by_ py) eqn:C3; [apply Rleb_true in C3 | apply Rleb_false in C3]);
  (destruct (Rltb py cy) eqn:C4; [apply Rltb_true in C4 | apply Rltb_false in C4]);
  (destruct (Rltb py by_) eqn:C5; [apply Rltb_true in C5 | apply Rltb_false in C5]);
  try (exfalso; destruct H; lra);
  destruct (Rltb 0 k) eqn:C6; destruct (Rltb k 0) eqn:C7; cbn; try reflexivity;
  apply Rltb_true in C6; apply Rltb_true in C7; lra.
Qed.

(* the half-open rule at the cut: the two pieces together count exactly what the segment counts *)
Theorem cross_spec_split (A B C p : V) (s : R) : between A B C s ->
  (cross_spec (A, C) p + cross_spec (C, B) p = cross_spec (A, B) p)%Z.
Proof.
  intros ((Hs0 & Hs1) & Hx & Hy). rewrite !cross_spec_cs. cbn [fst snd].
  destruct A as [ax ay], B as [bx by_], C as [cx cy], p as [px py]; cbn [vx vy] in *.
  replace (crossR ax ay cx cy px py) with (s * crossR ax ay bx by_ px py) by (unfold crossR; subst cx cy; ring).
  replace (crossR cx cy bx by_ px py) with ((1 - s) * crossR ax ay bx by_ px py) by (unfold crossR; subst cx cy; ring).
  rewrite !cs_scale by lra. apply cs_split.
  destruct (Rle_dec ay by_); [left | right]; subst cy; nra.
Qed.

Theorem winding_split (A B C p : V) (s : R) : between A B C s ->
  (winding (new_line_info (A, C)) p + winding (new_line_info (C, B)) p = winding (new_line_info (A, B)) p)%Z.
Proof. intros H. rewrite !winding_eq_spec. exact (cross_spec_split A B C p s H). Qed.

(* ------------------------------------------------------------ (2) squared distance to a segment *)
Definition pt (A B : V) (t : R) : V := mkV2 (vx A + t * (vx B - vx A)) (vy A + t * (vy B - vy A)).

(* d is the squared Euclidean distance from p to the segment AB: attained at some parameter in
   [0,1], and a lower bound at every parameter in [0,1] *)
Definition is_segdist2 (A B p : V) (d : R) : Prop :=
  (exists t, 0 <= t <= 1 /\ dist2_2 p (pt A B t) = d) /\
  (forall t, 0 <= t <= 1 -> d <= dist2_2 p (pt A B t)).

Lemma is_segdist2_unique A B p d d' : is_segdist2 A B p d -> is_segdist2 A B p d' -> d = d'.
Proof.
  intros [(t & Ht & E) L] [(t' & Ht' & E') L'].
  pose proof (L t' Ht'). pose proof (L' t Ht). lra.
Qed.

Lemma Rltb_ext a b c d : (a < b <-> c < d) -> Rltb a b = Rltb c d.
Proof.
  intros H. destruct (Rltb c d) eqn:E; [apply Rltb_true in E; apply Rltb_true; tauto|].
  apply Rltb_false in E. apply Rltb_false. destruct (Rle_dec b a); [assumption|]. exfalso. apply Rnot_le_lt in n. apply H in n. lra.
Qed.

Definition nondeg (l : SegR) : Prop :=
  0 < (vx (snd l) - vx (fst l)) * (vx (snd l) - vx (fst l)) + (vy (snd l) - vy (fst l)) * (vy (snd l) - vy (fst l)).

(* minDistance2 (normalised direction, length, projection) is the sqrt-free specification *)
Theorem mindist2_eq_spec (l : SegR) (p : V) : nondeg l ->
  min_distance2 (new_line_info l) p = segdist2_spec l p.
Proof.
  destruct l as [[ax ay] [bx by_]], p as [px py]. unfold nondeg; cbn [fst snd vx vy]. intros Hpos.
  unfold min_distance2, segdist2_spec, new_line_info, v2normalize, v2len, v2len2, v2dot, v2cross, v2muls, v2sub; cbn. unops.
  remember ((bx - ax) * (bx - ax) + (by_ - ay) * (by_ - ay)) as vv eqn:Evv.
  assert (HL : 0 < sqrt vv) by (apply sqrt_lt_R0; exact Hpos).
  assert (HLL : sqrt vv * sqrt vv = vv) by (apply sqrt_sqrt; lra).
  remember (sqrt vv) as L eqn:EL.
  remember ((px - ax) * (bx - ax) + (py - ay) * (by_ - ay)) as c eqn:Ec.
  assert (Et : (px - ax) * ((bx - ax) * (1 / L)) + (py - ay) * ((by_ - ay) * (1 / L)) = c / L)
    by (rewrite Ec; field; lra).
  rewrite Et.
  assert (Hi : 0 < / L) by (apply Rinv_0_lt_compat; exact HL).
  assert (B1 : Rltb (c / L) 0 = Rltb c 0).
  { apply Rltb_ext. unfold Rdiv. split; intros H; nra. }
  assert (B2 : Rltb L (c / L) = Rltb vv c).
  { apply Rltb_ext. split; intros H.
    - assert (L * L < c / L * L) by nra. replace (c / L * L) with c in H0 by (field; lra). lra.
    - assert (c / L = c * / L) by reflexivity. assert (L = vv * / L) by (rewrite <- HLL; field; lra). nra. }
  rewrite B1, B2.
  destruct (Rltb c 0); [ring|]. destruct (Rltb vv c); [ring|].
  rewrite <- HLL. field. lra.
Qed.

Lemma dist2_pt ax ay bx by_ px py t :
  dist2_2 (mkV2 px py : V) (pt (mkV2 ax ay) (mkV2 bx by_) t)
  = ((px - ax) * (px - ax) + (py - ay) * (py - ay))
    - 2 * t * ((px - ax) * (bx - ax) + (py - ay) * (by_ - ay))
    + t * t * ((bx - ax) * (bx - ax) + (by_ - ay) * (by_ - ay)).
Proof. unfold dist2_2, pt; cbn [vx vy]. ring. Qed.

(* the specification value is the squared distance to the segment *)
Theorem segdist2_spec_exact (l : SegR) (p : V) : nondeg l ->
  is_segdist2 (fst l) (snd l) p (segdist2_spec l p).
Proof.
  destruct l as [[ax ay] [bx by_]], p as [px py]. unfold nondeg; cbn [fst snd vx vy]. intros Hpos.
  unfold is_segdist2, segdist2_spec, v2len2, v2dot, v2cross, v2sub; cbn [fst snd vx vy]. unops.
  remember ((bx - ax) * (bx - ax) + (by_ - ay) * (by_ - ay)) as vv eqn:Evv.
  remember ((px - ax) * (bx - ax) + (py - ay) * (by_ - ay)) as c eqn:Ec.
  remember ((px - ax) * (px - ax) + (py - ay) * (py - ay)) as ww eqn:Ew.
  assert (Hf : forall t, dist2_2 (mkV2 px py : V) (pt (mkV2 ax ay) (mkV2 bx by_) t) = ww - 2 * t * c + t * t * vv).
  { intros t. rewrite dist2_pt. subst; ring. }
  destruct (Rltb c 0) eqn:C1; [apply Rltb_true in C1 | apply Rltb_false in C1].
  - split.
    + exists 0. split; [lra|]. rewrite Hf. ring.
    + intros t Ht. rewrite Hf. assert (0 <= t * t * vv) by (apply Rmult_le_pos; [apply sq_nn | lra]). nra.
  - destruct (Rltb vv c) eqn:C2; [apply Rltb_true in C2 | apply Rltb_false in C2].
    + split.
      * exists 1. split; [lra|]. rewrite Hf. subst; ring.
      * intros t Ht. rewrite Hf.
        replace ((px - bx) * (px - bx) + (py - by_) * (py - by_)) with (ww - 2 * c + vv) by (subst; ring).
        assert (0 <= (1 - t) * (2 * c - (1 + t) * vv)) by (apply Rmult_le_pos; nra). nra.
    + (* the foot of the perpendicular *)
      assert (Lag : ((bx - ax) * (py - ay) - (by_ - ay) * (px - ax)) * ((bx - ax) * (py - ay) - (by_ - ay) * (px - ax))
                    = ww * vv - c * c) by (subst; ring).
      rewrite Lag. split.
      * exists (c / vv). split.
        { split; [apply Rmult_le_pos; [lra | left; apply Rinv_0_lt_compat; lra]|].
          apply Rmult_le_reg_r with vv; [lra|]. replace (c / vv * vv) with c by (field; lra). lra. }
        { rewrite Hf. field. lra. }
      * intros t Ht. rewrite Hf.
        replace (ww - 2 * t * c + t * t * vv) with ((ww * vv - c * c) / vv + vv * ((t - c / vv) * (t - c / vv))) by (field; lra).
        assert (0 <= vv * ((t - c / vv) * (t - c / vv))) by (apply Rmult_le_pos; [lra | apply sq_nn]). lra.
Qed.

(* (2) as stated for the code: minDistance2 is the squared Euclidean distance to the segment *)
Theorem segdist2_exact (l : SegR) (p : V) : nondeg l ->
  is_segdist2 (fst l) (snd l) p (min_distance2 (new_line_info l) p).
Proof. intros H. rewrite mindist2_eq_spec by exact H. apply segdist2_spec_exact; exact H. Qed.

(* ------------------------------------------------------------ (3) splitting a segment: distance *)
Lemma pt_0 A B : pt A B 0 = A.
Proof. destruct A as [ax ay]; unfold pt; cbn [vx vy]. f_equal; ring. Qed.
Lemma pt_1 A B : pt A B 1 = B.
Proof. destruct A as [ax ay], B as [bx by_]; unfold pt; cbn [vx vy]. f_equal; ring. Qed.

Lemma pt_left A B C s t : between A B C s -> pt A C t = pt A B (t * s).
Proof.
  intros (_ & Hx & Hy). destruct A as [ax ay], B as [bx by_], C as [cx cy]; cbn [vx vy] in *.
  unfold pt; cbn [vx vy]. subst cx cy. f_equal; ring.
Qed.
Lemma pt_right A B C s t : between A B C s -> pt C B t = pt A B (s + t * (1 - s)).
Proof.
  intros (_ & Hx & Hy). destruct A as [ax ay], B as [bx by_], C as [cx cy]; cbn [vx vy] in *.
  unfold pt; cbn [vx vy]. subst cx cy. f_equal; ring.
Qed.

Theorem is_segdist2_split (A B C p : V) (s d1 d2 : R) : between A B C s ->
  is_segdist2 A C p d1 -> is_segdist2 C B p d2 -> is_segdist2 A B p (Rmin d1 d2).
Proof.
  intros Hb [(t1 & Ht1 & E1) L1] [(t2 & Ht2 & E2) L2]. pose proof Hb as ((Hs0 & Hs1) & _).
  split.
  - unfold Rmin; destruct (Rle_dec d1 d2).
    + exists (t1 * s). split; [nra|]. rewrite <- (pt_left A B C s t1 Hb). exact E1.
    + exists (s + t2 * (1 - s)). split; [nra|]. rewrite <- (pt_right A B C s t2 Hb). exact E2.
  - intros t Ht. destruct (Rle_dec t s) as [Hts|Hts].
    + assert (Hq : 0 <= t / s <= 1).
      { split; [apply Rmult_le_pos; [lra | left; apply Rinv_0_lt_compat; lra]|].
        apply Rmult_le_reg_r with s; [lra|]. replace (t / s * s) with t by (field; lra). lra. }
      specialize (L1 (t / s) Hq). rewrite (pt_left A B C s (t / s) Hb) in L1.
      replace (t / s * s) with t in L1 by (field; lra). pose proof (Rmin_l d1 d2). lra.
    + apply Rnot_le_lt in Hts.
      assert (Hq : 0 <= (t - s) / (1 - s) <= 1).
      { split; [apply Rmult_le_pos; [lra | left; apply Rinv_0_lt_compat; lra]|].
        apply Rmult_le_reg_r with (1 - s); [lra|]. replace ((t - s) / (1 - s) * (1 - s)) with (t - s) by (field; lra). lra. }
      specialize (L2 ((t - s) / (1 - s)) Hq). rewrite (pt_right A B C s _ Hb) in L2.
      replace (s + (t - s) / (1 - s) * (1 - s)) with t in L2 by (field; lra). pose proof (Rmin_r d1 d2). lra.
Qed.

(* ------------------------------------------------------------ chains of pieces *)
(* pcs = (S0,S1),(S1,S2),...,(Sk,B) with Si = A + ti (B - A), t0 < t1 < ... < 1 *)
Inductive chain_from (A B : V) : R -> list SegR -> Prop :=
| chain_last (S : V) (t0 : R) : S = pt A B t0 -> t0 < 1 -> chain_from A B t0 [(S, B)]
| chain_cons (S C : V) (t0 t1 : R) (rest : list SegR) :
    S = pt A B t0 -> C = pt A B t1 -> t0 < t1 < 1 ->
    chain_from A B t1 rest -> chain_from A B t0 ((S, C) :: rest).

(* every original segment is the chain of its pieces *)
Definition is_chain (l : SegR) (pcs : list SegR) : Prop := chain_from (fst l) (snd l) 0 pcs.

Lemma between_pt A B t0 t1 : 0 <= t0 -> t0 < t1 < 1 ->
  between (pt A B t0) B (pt A B t1) ((t1 - t0) / (1 - t0)).
Proof.
  intros H0 H1. destruct A as [ax ay], B as [bx by_]. unfold between, pt; cbn [vx vy]. unops. split; [|split].
  - split; [apply Rdiv_lt_0_compat; lra|].
    apply Rmult_lt_reg_r with (1 - t0); [lra|]. replace ((t1 - t0) / (1 - t0) * (1 - t0)) with (t1 - t0) by (field; lra). lra.
  - field; lra.
  - field; lra.
Qed.

Lemma chain_winding A B p t0 pcs : 0 <= t0 -> chain_from A B t0 pcs ->
  sumZ (map (fun s => cross_spec s p) pcs) = cross_spec (pt A B t0, B) p.
Proof.
  intros H0 Hc. induction Hc as [S t0 ES Ht | S C t0 t1 rest ES EC Ht Hc IH].
  - subst S. cbn. lia.
  - subst S C. cbn [map sumZ fold_right]. fold (sumZ (map (fun s => cross_spec s p) rest)).
    rewrite IH by lra. apply (cross_spec_split _ _ _ p _ (between_pt A B t0 t1 H0 Ht)).
Qed.

Lemma nondeg_pt A B t0 t1 : nondeg (A, B) -> t0 <> t1 -> nondeg (pt A B t0, pt A B t1).
Proof.
  destruct A as [ax ay], B as [bx by_]. unfold nondeg, pt; cbn [fst snd vx vy]. intros H Hn.
  replace ((ax + t1 * (bx - ax) - (ax + t0 * (bx - ax))) * (ax + t1 * (bx - ax) - (ax + t0 * (bx - ax))) +
           (ay + t1 * (by_ - ay) - (ay + t0 * (by_ - ay))) * (ay + t1 * (by_ - ay) - (ay + t0 * (by_ - ay))))
    with ((t1 - t0) * (t1 - t0) * ((bx - ax) * (bx - ax) + (by_ - ay) * (by_ - ay))) by ring.
  apply Rmult_lt_0_compat; [apply sq_pos; lra | exact H].
Qed.

Definition d2f (p : V) (s : SegR) : R := min_distance2 (new_line_info s) p.
Definition minl (l : list R) (dd : R) : R := fold_left Rmin l dd.

Lemma chain_dist A B p t0 pcs : nondeg (A, B) -> 0 <= t0 -> chain_from A B t0 pcs ->
  exists D, is_segdist2 (pt A B t0) B p D /\ forall dd, minl (map (d2f p) pcs) dd = Rmin dd D.
Proof.
  intros Hn H0 Hc. induction Hc as [S t0 ES Ht | S C t0 t1 rest ES EC Ht Hc IH].
  - subst S. exists (d2f p (pt A B t0, B)). split.
    + apply (segdist2_exact (pt A B t0, B) p). rewrite <- (pt_1 A B) at 2. apply nondeg_pt; [exact Hn | lra].
    + intros dd. reflexivity.
  - subst S C. destruct IH as (D & HD & HE); [lra|].
    exists (Rmin (d2f p (pt A B t0, pt A B t1)) D). split.
    + apply (is_segdist2_split _ _ _ p _ _ _ (between_pt A B t0 t1 H0 Ht)); [|exact HD].
      apply (segdist2_exact (pt A B t0, pt A B t1) p). apply nondeg_pt; [exact Hn | lra].
    + intros dd. unfold minl in *. cbn [map fold_left]. rewrite HE. rewrite Rmin_assoc. reflexivity.
Qed.

(* a chain of a non-degenerate segment counts and measures what the segment does *)
Theorem chain_preserves (l : SegR) (pcs : list SegR) (p : V) : is_chain l pcs ->
  sumZ (map (fun s => winding (new_line_info s) p) pcs) = winding (new_line_info l) p /\
  (nondeg l -> forall dd, minl (map (d2f p) pcs) dd = Rmin dd (d2f p l)).
Proof.
  destruct l as [A B]. unfold is_chain; cbn [fst snd]. intros Hc. split.
  - rewrite (map_ext _ (fun s => cross_spec s p)) by (intros; apply winding_eq_spec).
    rewrite (chain_winding A B p 0 pcs (Rle_refl 0) Hc). rewrite pt_0. symmetry; apply winding_eq_spec.
  - intros Hn dd. destruct (chain_dist A B p 0 pcs Hn (Rle_refl 0) Hc) as (D & HD & HE).
    rewrite HE. f_equal. rewrite pt_0 in HD.
    exact (is_segdist2_unique A B p _ _ HD (segdist2_exact (A, B) p Hn)).
Qed.


Lemma nondeg_between_l A B C s : between A B C s -> nondeg (A, B) -> nondeg (A, C).
Proof.
  intros ((H0 & H1) & Hx & Hy). destruct A as [ax ay], B as [bx by_], C as [cx cy]; unfold nondeg; cbn [fst snd vx vy] in *.
  intros H. subst cx cy.
  replace ((ax + s * (bx - ax) - ax) * (ax + s * (bx - ax) - ax) + (ay + s * (by_ - ay) - ay) * (ay + s * (by_ - ay) - ay))
    with (s * s * ((bx - ax) * (bx - ax) + (by_ - ay) * (by_ - ay))) by ring.
  apply Rmult_lt_0_compat; [apply sq_pos; lra | exact H].
Qed.
Lemma nondeg_between_r A B C s : between A B C s -> nondeg (A, B) -> nondeg (C, B).
Proof.
  intros ((H0 & H1) & Hx & Hy). destruct A as [ax ay], B as [bx by_], C as [cx cy]; unfold nondeg; cbn [fst snd vx vy] in *.
  intros H. subst cx cy.
  replace ((bx - (ax + s * (bx - ax))) * (bx - (ax + s * (bx - ax))) + (by_ - (ay + s * (by_ - ay))) * (by_ - (ay + s * (by_ - ay))))
    with ((1 - s) * (1 - s) * ((bx - ax) * (bx - ax) + (by_ - ay) * (by_ - ay))) by ring.
  apply Rmult_lt_0_compat; [apply sq_pos; lra | exact H].
Qed.

(* (3) both halves together *)
Theorem split_preserves (A B C p : V) (s : R) : between A B C s ->
  (winding (new_line_info (A, C)) p + winding (new_line_info (C, B)) p = winding (new_line_info (A, B)) p)%Z /\
  (nondeg (A, B) ->
   Rmin (min_distance2 (new_line_info (A, C)) p) (min_distance2 (new_line_info (C, B)) p)
   = min_distance2 (new_line_info (A, B)) p).
Proof.
  intros Hb. split; [exact (winding_split A B C p s Hb)|]. intros Hn.
  apply (is_segdist2_unique A B p); [|exact (segdist2_exact (A, B) p Hn)].
  apply (is_segdist2_split A B C p s _ _ Hb).
  - exact (segdist2_exact (A, C) p (nondeg_between_l A B C s Hb Hn)).
  - exact (segdist2_exact (C, B) p (nondeg_between_r A B C s Hb Hn)).
Qed.
