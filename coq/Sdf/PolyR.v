(* Proofs over the reals about Sdf/Poly.v (polygon SDF: crossing number, segment distance,
   clipping into a quadtree, ray-directed walk, pruned nearest-piece search). *)
From Coq Require Import Reals Lra Lia List Bool ZArith Permutation Psatz.
From Sdfx Require Import Num.Ops Num.RInst Geo.Vec Geo.Box Geo.MinMaxR Geo.BoxR Sdf.Poly.
Import ListNotations.
Open Scope R_scope.

Notation V := (V2 ROps).
Notation SegR := (Seg ROps).
Notation LI := (LineInfo ROps).

Ltac unops :=
  change (oadd ROps) with Rplus in *; change (osub ROps) with Rminus in *;
  change (omul ROps) with Rmult in *; change (odiv ROps) with Rdiv in *;
  change (oneg ROps) with Ropp in *; change (oabs ROps) with Rabs in *;
  change (osqrt ROps) with R_sqrt.sqrt in *;
  change (oltb ROps) with Rltb in *; change (oleb ROps) with Rleb in *; change (oeqb ROps) with Reqb in *;
  change (omin ROps) with Rmin in *; change (omax ROps) with Rmax in *;
  change (o0 ROps) with 0 in *; change (o1 ROps) with 1 in *; change (T ROps) with R in *.

Lemma sq_nn (x : R) : 0 <= x * x.
Proof. pose proof (Rle_0_sqr x) as H; unfold Rsqr in H; exact H. Qed.
Lemma sq_pos (x : R) : x <> 0 -> 0 < x * x.
Proof. intros H. pose proof (Rlt_0_sqr x H) as H1; unfold Rsqr in H1; exact H1. Qed.

(* ------------------------------------------------------------ (1) half-open crossing rule *)
Definition crossR (ax ay bx by_ px py : R) : R := (bx - ax) * (py - ay) - (by_ - ay) * (px - ax).

(* the increment as a function of the two end levels and (the sign of) a cross product k *)
Definition cs (ay by_ py k : R) : Z :=
  if Rleb ay py then (if Rltb py by_ && Rltb 0 k then 1%Z else 0%Z)
  else (if Rleb by_ py && Rltb k 0 then (-1)%Z else 0%Z).

Lemma cross_spec_cs (l : SegR) (p : V) :
  cross_spec l p = cs (vy (fst l)) (vy (snd l)) (vy p)
                      (crossR (vx (fst l)) (vy (fst l)) (vx (snd l)) (vy (snd l)) (vx p) (vy p)).
Proof.
  destruct l as [[ax ay] [bx by_]], p as [px py]. unfold cross_spec, cs, crossR, v2cross, v2sub; cbn.
  reflexivity.
Qed.

Lemma cs_scale ay by_ py k s : 0 < s -> cs ay by_ py (s * k) = cs ay by_ py k.
Proof.
  intros Hs. unfold cs.
  assert (E1 : Rltb 0 (s * k) = Rltb 0 k).
  { destruct (Rltb 0 k) eqn:E; [apply Rltb_true in E; apply Rltb_true; nra | apply Rltb_false in E; apply Rltb_false; nra]. }
  assert (E2 : Rltb (s * k) 0 = Rltb k 0).
  { destruct (Rltb k 0) eqn:E; [apply Rltb_true in E; apply Rltb_true; nra | apply Rltb_false in E; apply Rltb_false; nra]. }
  rewrite E1, E2. reflexivity.
Qed.

Lemma cs_level ay py k : cs ay ay py k = 0%Z.
Proof. unfold cs. rcmp; cbn; try reflexivity; lra. Qed.

(* lineInfo.winding is the specification increment, for every segment (also a degenerate one)
   and every point *)
Theorem winding_eq_spec (l : SegR) (p : V) : winding (new_line_info l) p = cross_spec l p.
Proof.
  rewrite cross_spec_cs.
  destruct l as [[ax ay] [bx by_]], p as [px py].
  unfold winding, new_line_info, v2normalize, v2len, v2len2, v2dot, v2muls, v2sub; cbn. unops.
  remember ((bx - ax) * (bx - ax) + (by_ - ay) * (by_ - ay)) as vv eqn:Evv.
  remember (crossR ax ay bx by_ px py) as k eqn:Ek.
  remember ((px - ax) * ((by_ - ay) * (1 / sqrt vv)) + (py - ay) * - ((bx - ax) * (1 / sqrt vv))) as dn eqn:Edn.
  assert (Hvv : 0 <= vv) by (pose proof (sq_nn (bx - ax)); pose proof (sq_nn (by_ - ay)); lra).
  destruct (Req_dec by_ ay) as [E|NE].
  - (* horizontal (or degenerate): no crossing on either side *)
    subst by_. rewrite cs_level. rcmp; cbn; try reflexivity; lra.
  - assert (Hpos : 0 < vv) by (pose proof (sq_nn (bx - ax)); assert (0 < (by_ - ay) * (by_ - ay)) by (apply sq_pos; lra); lra).
    assert (HL : 0 < sqrt vv) by (apply sqrt_lt_R0; exact Hpos).
    assert (Hdn : dn = - k * (1 / sqrt vv)) by (rewrite Edn, Ek; unfold crossR; field; lra).
    assert (Hi : 0 < 1 / sqrt vv) by (apply Rdiv_lt_0_compat; lra).
    unfold cs.
    assert (E1 : Rltb dn 0 = Rltb 0 k).
    { rewrite Hdn. destruct (Rltb 0 k) eqn:E; [apply Rltb_true in E; apply Rltb_true; nra | apply Rltb_false in E; apply Rltb_false; nra]. }
    assert (E2 : Rltb 0 dn = Rltb k 0).
    { rewrite Hdn. destruct (Rltb k 0) eqn:E; [apply Rltb_true in E; apply Rltb_true; nra | apply Rltb_false in E; apply Rltb_false; nra]. }
    rewrite E1, E2. reflexivity.
Qed.

Definition sumZ (l : list Z) : Z := fold_right Z.add 0%Z l.

Lemma fold_sum {A} (f : A -> Z) (l : list A) (w : Z) :
  fold_left (fun w x => (w + f x)%Z) l w = (w + sumZ (map f l))%Z.
Proof. revert w; induction l as [|x l IH]; intros w; cbn [fold_left map]; [unfold sumZ; cbn; lia|]. rewrite IH. unfold sumZ; cbn [fold_right]. lia. Qed.

(* summed over any list of edges (in particular a closed chain): the slow loop's winding number is
   the specification crossing number *)
Theorem halfopen_crossing_spec (ls : list SegR) (p : V) :
  snd (slow_loop (convert_lines ls) p) = wn_spec ls p.
Proof.
  unfold slow_loop, wn_spec, convert_lines.
  assert (G : forall (l : list SegR) d w,
             snd (fold_left (fun (s : R * Z) li => (Rmin (fst s) (min_distance2 li p), (snd s + winding li p)%Z))
                            (map new_line_info l) (d, w))
             = fold_left (fun w l => (w + cross_spec l p)%Z) l w).
  { induction l as [|x l IH]; intros d w; cbn [map fold_left fst snd]; [reflexivity|].
    rewrite IH. rewrite winding_eq_spec. reflexivity. }
  apply G.
Qed.

(* telescoping: on a closed chain of vertices the number of edges that start at or below a level
   and end above it equals the number that start above and end at or below it, so the half-open
   rule gives every vertex level to exactly one of the two edges meeting there *)
Fixpoint closed_edges_from (first : V) (vs : list V) : list SegR :=
  match vs with
  | [] => []
  | [a] => [(a, first)]
  | a :: ((b :: _) as r) => (a, b) :: closed_edges_from first r
  end.
Definition closed_edges (vs : list V) : list SegR :=
  match vs with [] => [] | v0 :: _ => closed_edges_from v0 vs end.
Definition below (y : R) (q : V) : Z := if Rleb (vy q) y then 1%Z else 0%Z.
Definition updown (y : R) (l : SegR) : Z := (below y (fst l) - below y (snd l))%Z.

Lemma closed_from_balance first a vs y :
  sumZ (map (updown y) (closed_edges_from first (a :: vs))) = (below y a - below y first)%Z.
Proof.
  revert a; induction vs as [|b vs IH]; intros a; cbn [closed_edges_from map sumZ fold_right].
  - unfold updown; cbn. lia.
  - specialize (IH b). cbn [closed_edges_from] in IH. unfold sumZ in IH. rewrite IH. unfold updown; cbn. lia.
Qed.
Theorem closed_chain_level_balance (vs : list V) (y : R) :
  sumZ (map (updown y) (closed_edges vs)) = 0%Z.
Proof.
  destruct vs as [|v0 vs]; [reflexivity|]. unfold closed_edges. rewrite closed_from_balance. lia.
Qed.

(* ------------------------------------------------------------ (3) splitting a segment: winding *)
Definition between (A B C : V) (s : R) : Prop :=
  0 < s < 1 /\ vx C = vx A + s * (vx B - vx A) /\ vy C = vy A + s * (vy B - vy A).

Lemma cs_split ay cy by_ py k : (ay <= cy <= by_) \/ (by_ <= cy <= ay) ->
  (cs ay cy py k + cs cy by_ py k = cs ay by_ py k)%Z.
Proof.
  intros H. unfold cs.
  destruct (Rleb ay py) eqn:C1; [apply Rleb_true in C1 | apply Rleb_false in C1];
  (destruct (Rleb cy py) eqn:C2; [apply Rleb_true in C2 | apply Rleb_false in C2]);
  (destruct (Rleb by_ py) eqn:C3; [apply Rleb_true in C3 | apply Rleb_false in C3]);
  (destruct (Rltb py cy) eqn:C4; [apply Rltb_true in C4 | apply Rltb_false in C4]);
  (destruct (Rltb py by_) eqn:C5; [apply Rltb_true in C5 | apply Rltb_false in C5]);
  try (exfalso; destruct H; lra);
  destruct (Rltb 0 k) eqn:C6; destruct (Rltb k 0) eqn:C7; cbn; try reflexivity;
  apply Rltb_true in C6; apply Rltb_true in C7; lra.
Qed.

(* the half-open rule at the cut: the two pieces together count exactly what the segment counts *)
Theorem cross_spec_split (A B C p : V) (s : R) : between A B C s ->
  (cross_spec (A, C) p + cross_spec (C, B) p = cross_spec (A, B) p)%Z.
Proof.
  intros ((Hs0 & Hs1) & Hx & Hy). rewrite !cross_spec_cs. cbn [fst snd].
  destruct A as [ax ay], B as [bx by_], C as [cx cy], p as [px py]; cbn [vx vy] in *.
  replace (crossR ax ay cx cy px py) with (s * crossR ax ay bx by_ px py) by (unfold crossR; subst cx cy; ring).
  replace (crossR cx cy bx by_ px py) with ((1 - s) * crossR ax ay bx by_ px py) by (unfold crossR; subst cx cy; ring).
  rewrite !cs_scale by lra. apply cs_split.
  destruct (Rle_dec ay by_); [left | right]; subst cy; nra.
Qed.

Theorem winding_split (A B C p : V) (s : R) : between A B C s ->
  (winding (new_line_info (A, C)) p + winding (new_line_info (C, B)) p = winding (new_line_info (A, B)) p)%Z.
Proof. intros H. rewrite !winding_eq_spec. exact (cross_spec_split A B C p s H). Qed.
